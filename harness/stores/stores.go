// Package stores constructs the stores under test through their public
// constructors, with uniform clean-up.
package stores

import (
	"context"
	"fmt"
	"net/http"
	"net/http/httptest"
	"os"
	"strings"

	oras "oras.land/oras-go/v2"
	"oras.land/oras-go/v2/content/file"
	"oras.land/oras-go/v2/content/memory"
	"oras.land/oras-go/v2/content/oci"
	"oras.land/oras-go/v2/registry/remote"
	"oras.land/oras-go/v2/verifharness/regmodel"
)

// Kinds lists the store kinds of the copy properties.
var Kinds = []string{"memory", "oci", "file", "remote"}

// Handle is a constructed store with what oracles need to look behind it.
type Handle struct {
	Kind   string
	Target oras.GraphTarget
	Dir    string             // oci / file working directory
	OCI    *oci.Store         // when Kind == "oci"
	File   *file.Store        // when Kind == "file"
	Reg    *regmodel.Registry // when Kind == "remote"
	Repo   *remote.Repository // when Kind == "remote"
	Server *httptest.Server
	close  []func()
}

// Close releases the store's resources.
func (h *Handle) Close() {
	for i := len(h.close) - 1; i >= 0; i-- {
		h.close[i]()
	}
	h.close = nil
}

// PlainClient is an HTTP client without retries or authentication.
func PlainClient() *http.Client {
	return &http.Client{Transport: &http.Transport{MaxIdleConnsPerHost: 64}}
}

// New constructs an empty store of the given kind. For "remote" the profile
// configures the registry model (nil: full profile).
func New(kind string, profile *regmodel.Profile) (*Handle, error) {
	h := &Handle{Kind: kind}
	switch kind {
	case "memory":
		h.Target = memory.New()
	case "oci":
		dir, err := os.MkdirTemp("", "verif-oci-")
		if err != nil {
			return nil, err
		}
		h.Dir = dir
		h.close = append(h.close, func() { os.RemoveAll(dir) })
		s, err := oci.New(dir)
		if err != nil {
			h.Close()
			return nil, err
		}
		h.OCI, h.Target = s, s
	case "file":
		dir, err := os.MkdirTemp("", "verif-file-")
		if err != nil {
			return nil, err
		}
		h.Dir = dir
		h.close = append(h.close, func() { os.RemoveAll(dir) })
		s, err := file.New(dir)
		if err != nil {
			h.Close()
			return nil, err
		}
		h.close = append(h.close, func() { s.Close() })
		h.File, h.Target = s, s
	case "remote":
		p := regmodel.FullProfile()
		if profile != nil {
			p = *profile
		}
		h.Reg = regmodel.New(p)
		h.Server = httptest.NewServer(h.Reg)
		h.close = append(h.close, h.Server.Close)
		repo, err := RepoFor(h.Server, "test/repo")
		if err != nil {
			h.Close()
			return nil, err
		}
		h.Repo, h.Target = repo, repo
	default:
		return nil, fmt.Errorf("unknown store kind %q", kind)
	}
	return h, nil
}

// RepoFor returns a Repository client for a repository of the served model.
func RepoFor(srv *httptest.Server, name string) (*remote.Repository, error) {
	host := strings.TrimPrefix(srv.URL, "http://")
	repo, err := remote.NewRepository(host + "/" + name)
	if err != nil {
		return nil, err
	}
	repo.PlainHTTP = true
	repo.Client = PlainClient()
	return repo, nil
}

// Ctx is the background context used by set-up code.
var Ctx = context.Background()
