// Package evidence collects what a check run actually observed and writes
// /verif/evidence/<id>.json (schema /root/.vp/EVIDENCE.schema.json). It also
// implements the verdict discipline of DESIGN.md §1: violations are matched
// against /verif/known_findings.json, printed as VIOLATION or KNOWN-FINDING
// lines, and a run that observed too little is BROKEN, never "held".
package evidence

import (
	"crypto/sha256"
	"encoding/hex"
	"encoding/json"
	"fmt"
	"math/rand/v2"
	"os"
	"path/filepath"
	"sort"
	"strconv"
	"strings"
	"sync"
	"time"
)

// Root is the verification root directory.
var Root = func() string {
	if v := os.Getenv("VERIF_ROOT"); v != "" {
		return v
	}
	return "/verif"
}()

// Finding is one entry of known_findings.json.
type Finding struct {
	Property string `json:"property"`
	Key      string `json:"key"`
	Status   string `json:"status"` // "known" or "fixed"
	Commit   string `json:"commit,omitempty"`
	What     string `json:"what"`
}

// Run accumulates the coverage of one check run.
type Run struct {
	Prop  string
	Tier  string
	Level string
	Seed  int64

	start time.Time
	mu    sync.Mutex

	evals        int64
	distinct     map[[16]byte]struct{}
	distinctAll  map[[16]byte]struct{}
	samples      []any
	maxSamples   int
	extra        map[string]any
	counters     map[string]int64
	sets         map[string]map[string]struct{}
	assumptions  []string
	rule         string
	violations   int
	inconclusive int
	inconcNotes  []string
	knownPrinted map[string]int
	findings     []Finding
	exhaustive   *bool
	replayN      int
	cleanups     []func()
}

// Cleanup registers a function that Finish runs before exiting (deferred
// functions of main do not run across os.Exit).
func (r *Run) Cleanup(f func()) { r.cleanups = append(r.cleanups, f) }

// New starts a run for a property at the given evidence level
// ("exploration" or "fault_enumeration").
func New(prop, level string) *Run {
	tier := os.Getenv("VERIF_TIER")
	if tier != "thorough" {
		tier = "quick"
	}
	seed := int64(1)
	if v := os.Getenv("VERIF_SEED"); v != "" {
		if n, err := strconv.ParseInt(v, 10, 64); err == nil {
			seed = n
		}
	}
	r := &Run{
		Prop: prop, Tier: tier, Level: level, Seed: seed,
		start:        time.Now(),
		distinct:     map[[16]byte]struct{}{},
		distinctAll:  map[[16]byte]struct{}{},
		maxSamples:   5,
		extra:        map[string]any{},
		counters:     map[string]int64{},
		sets:         map[string]map[string]struct{}{},
		knownPrinted: map[string]int{},
	}
	if b, err := os.ReadFile(filepath.Join(Root, "known_findings.json")); err == nil {
		var doc struct {
			Findings []Finding `json:"findings"`
		}
		if err := json.Unmarshal(b, &doc); err == nil {
			r.findings = doc.Findings
		} else {
			fmt.Printf("BROKEN: cannot parse known_findings.json: %v\n", err)
			os.Exit(2)
		}
	}
	return r
}

// Thorough reports whether the thorough tier was requested.
func (r *Run) Thorough() bool { return r.Tier == "thorough" }

// N picks a count by tier.
func (r *Run) N(quick, thorough int) int {
	if r.Thorough() {
		return thorough
	}
	return quick
}

// Rand returns a deterministic PRNG for (seed, stream, index).
func (r *Run) Rand(stream string, index int) *rand.Rand {
	return RandFor(r.Seed, stream, index)
}

// RandFor returns a deterministic PRNG for (seed, stream, index).
func RandFor(seed int64, stream string, index int) *rand.Rand {
	h := sha256.Sum256([]byte(fmt.Sprintf("%d/%s/%d", seed, stream, index)))
	var a, b uint64
	for i := 0; i < 8; i++ {
		a = a<<8 | uint64(h[i])
		b = b<<8 | uint64(h[8+i])
	}
	return rand.New(rand.NewPCG(a, b))
}

func hash16(s string) [16]byte {
	h := sha256.Sum256([]byte(s))
	var k [16]byte
	copy(k[:], h[:16])
	return k
}

// Eval counts n evaluated cases.
func (r *Run) Eval(n int) {
	r.mu.Lock()
	r.evals += int64(n)
	r.mu.Unlock()
}

// Distinct records the structural key of a case; only non-trivial cases count
// towards distinct_nontrivial.
func (r *Run) Distinct(key string, nontrivial bool) {
	k := hash16(key)
	r.mu.Lock()
	r.distinctAll[k] = struct{}{}
	if nontrivial {
		r.distinct[k] = struct{}{}
	}
	r.mu.Unlock()
}

// Sample keeps up to a handful of written-out cases.
func (r *Run) Sample(v any) {
	r.mu.Lock()
	if len(r.samples) < r.maxSamples {
		r.samples = append(r.samples, v)
	}
	r.mu.Unlock()
}

// Set records an extra coverage key.
func (r *Run) Set(key string, v any) {
	r.mu.Lock()
	r.extra[key] = v
	r.mu.Unlock()
}

// Add increments a named counter reported under coverage.
func (r *Run) Add(key string, n int64) {
	r.mu.Lock()
	r.counters[key] += n
	r.mu.Unlock()
}

// Max keeps the maximum of a named gauge reported under coverage.
func (r *Run) Max(key string, n int64) {
	r.mu.Lock()
	if cur, ok := r.counters[key]; !ok || n > cur {
		r.counters[key] = n
	}
	r.mu.Unlock()
}

// Counter returns the current value of a named counter.
func (r *Run) Counter(key string) int64 {
	r.mu.Lock()
	defer r.mu.Unlock()
	return r.counters[key]
}

// Observe adds a member to a named set; the set's size is reported under
// coverage as "distinct_<name>".
func (r *Run) Observe(name, member string) {
	r.mu.Lock()
	s := r.sets[name]
	if s == nil {
		s = map[string]struct{}{}
		r.sets[name] = s
	}
	if len(member) > 40 {
		k := hash16(member)
		member = hex.EncodeToString(k[:])
	}
	s[member] = struct{}{}
	r.mu.Unlock()
}

// Rule states how cases are generated and what makes one non-trivial.
func (r *Run) Rule(s string) { r.rule = s }

// Assume records an assumption of the check.
func (r *Run) Assume(s string) { r.assumptions = append(r.assumptions, s) }

// Exhaustive marks that a finite space was enumerated completely.
func (r *Run) Exhaustive(b bool) { r.exhaustive = &b }

// Inconclusive counts an execution on which no verdict was possible.
func (r *Run) Inconclusive(what string) {
	r.mu.Lock()
	r.inconclusive++
	if len(r.inconcNotes) < 10 {
		r.inconcNotes = append(r.inconcNotes, what)
	}
	r.mu.Unlock()
}

// Violations returns the number of (unlisted) violations so far.
func (r *Run) Violations() int {
	r.mu.Lock()
	defer r.mu.Unlock()
	return r.violations
}

// Violation reports a violation. key identifies the failing input shape, call
// site or history for matching against known_findings.json: a known entry
// whose key equals key, or is a prefix of it ending at a ':' boundary, turns
// the report into a KNOWN-FINDING line; anything else is a VIOLATION.
func (r *Run) Violation(key, what string, witness any) {
	r.mu.Lock()
	defer r.mu.Unlock()
	for _, f := range r.findings {
		if f.Property != r.Prop || f.Status != "known" {
			continue
		}
		if key == f.Key || strings.HasPrefix(key, f.Key+":") {
			if r.knownPrinted[f.Key] == 0 {
				fmt.Printf("KNOWN-FINDING: property=%s %s [%s]\n", r.Prop, f.What, f.Key)
			}
			r.knownPrinted[f.Key]++
			return
		}
	}
	r.violations++
	if r.violations > 20 {
		return // enough witnesses
	}
	dir := filepath.Join(Root, "replays", r.Prop)
	_ = os.MkdirAll(dir, 0o755)
	r.replayN++
	path := filepath.Join(dir, fmt.Sprintf("%s-seed%d-%d.json", r.Tier, r.Seed, r.replayN))
	doc := map[string]any{
		"property": r.Prop, "tier": r.Tier, "seed": r.Seed,
		"key": key, "what": what, "witness": witness,
	}
	b, err := json.MarshalIndent(doc, "", " ")
	if err != nil {
		b = []byte(fmt.Sprintf("{\"property\":%q,\"key\":%q,\"what\":%q,\"witness\":%q}", r.Prop, key, what, fmt.Sprint(witness)))
	}
	_ = os.WriteFile(path, b, 0o644)
	fmt.Printf("VIOLATION property=%s replay=%s\n", r.Prop, path)
	fmt.Printf("  key=%s what=%s\n", key, what)
}

// Finish writes the evidence file and exits: 1 on violations, 2 (BROKEN) when
// fewer than minNontrivial distinct non-trivial cases were observed, else 0.
func (r *Run) Finish(minNontrivial int) {
	code := r.Write(minNontrivial)
	for i := len(r.cleanups) - 1; i >= 0; i-- {
		r.cleanups[i]()
	}
	os.Exit(code)
}

// Write writes the evidence file and returns the exit code.
func (r *Run) Write(minNontrivial int) int {
	r.mu.Lock()
	defer r.mu.Unlock()
	cov := map[string]any{}
	for k, v := range r.extra {
		cov[k] = v
	}
	ckeys := make([]string, 0, len(r.counters))
	for k := range r.counters {
		ckeys = append(ckeys, k)
	}
	sort.Strings(ckeys)
	for _, k := range ckeys {
		cov[k] = r.counters[k]
	}
	for name, s := range r.sets {
		cov["distinct_"+name] = len(s)
	}
	cov["evaluations"] = r.evals
	cov["distinct_nontrivial"] = len(r.distinct)
	cov["distinct_cases"] = len(r.distinctAll)
	cov["rule"] = r.rule
	samples := r.samples
	if samples == nil {
		samples = []any{}
	}
	cov["samples"] = samples
	cov["inconclusive"] = r.inconclusive
	if len(r.inconcNotes) > 0 {
		cov["inconclusive_notes"] = r.inconcNotes
	}
	if r.exhaustive != nil {
		cov["exhaustive"] = *r.exhaustive
	}
	known := map[string]int{}
	for k, n := range r.knownPrinted {
		known[k] = n
	}
	if len(known) > 0 {
		cov["known_findings_hit"] = known
	}
	doc := map[string]any{
		"property_id": r.Prop,
		"tier":        r.Tier,
		"seed":        r.Seed,
		"level":       r.Level,
		"coverage":    cov,
		"assumptions": append([]string{}, r.assumptions...),
		"wall_s":      time.Since(r.start).Seconds(),
		"violations":  r.violations,
	}
	b, err := json.MarshalIndent(doc, "", " ")
	if err != nil {
		fmt.Printf("BROKEN: cannot marshal evidence: %v\n", err)
		return 2
	}
	dir := filepath.Join(Root, "evidence")
	_ = os.MkdirAll(dir, 0o755)
	path := filepath.Join(dir, r.Prop+".json")
	if err := os.WriteFile(path, b, 0o644); err != nil {
		fmt.Printf("BROKEN: cannot write evidence: %v\n", err)
		return 2
	}
	fmt.Printf("%s %s seed=%d: evaluations=%d distinct_nontrivial=%d violations=%d inconclusive=%d wall=%.1fs\n",
		r.Prop, r.Tier, r.Seed, r.evals, len(r.distinct), r.violations, r.inconclusive, time.Since(r.start).Seconds())
	if r.violations > 0 {
		return 1
	}
	if len(r.distinct) < minNontrivial || len(r.distinct) < 2 || r.evals < 1 {
		fmt.Printf("BROKEN: property=%s observed only %d distinct non-trivial cases (floor %d)\n", r.Prop, len(r.distinct), minNontrivial)
		return 2
	}
	return 0
}

// Seed returns VERIF_SEED (default 1) without constructing a Run.
func Seed() int64 {
	if v := os.Getenv("VERIF_SEED"); v != "" {
		if n, err := strconv.ParseInt(v, 10, 64); err == nil {
			return n
		}
	}
	return 1
}

// Tier returns "quick" or "thorough" from VERIF_TIER.
func Tier() string {
	if os.Getenv("VERIF_TIER") == "thorough" {
		return "thorough"
	}
	return "quick"
}
