// Package authmodel is the hostile multi-host world used by the C16 check:
// models of several registries and token services behind one in-process
// http.RoundTripper (no sockets), a book of every secret that exists in the
// world, and a monitor that judges every outgoing request against the C16
// statement. It also holds an independent scope canonicaliser (it shares no
// code with registry/remote/auth/scope.go).
package authmodel

import (
	"sort"
	"strings"
)

// ScopeSet is a canonical scope set: order-insensitive, duplicate-free and
// wildcard-absorbing. Its members are "type\x00name\x00action" triples, or
// "\x01opaque" for scope strings that are not of the form type:name:actions.
type ScopeSet map[string]struct{}

// Canon canonicalises raw scope strings. Each raw element may itself hold
// several scopes separated by white space (as a challenge's scope parameter
// does). A scope is type:name:actions where type ends at the first colon and
// actions start after the last colon (names may contain colons); actions are
// comma separated, empty actions are ignored, and "*" absorbs every other
// action of the same (type, name).
func Canon(raw ...string) ScopeSet {
	type rn struct{ t, n string }
	acts := map[rn]map[string]struct{}{}
	out := ScopeSet{}
	for _, r := range raw {
		for _, s := range strings.Fields(r) {
			first := strings.IndexByte(s, ':')
			last := strings.LastIndexByte(s, ':')
			if first < 0 || first == last {
				out["\x01"+s] = struct{}{}
				continue
			}
			k := rn{s[:first], s[first+1 : last]}
			for _, a := range strings.Split(s[last+1:], ",") {
				if a == "" {
					continue
				}
				if acts[k] == nil {
					acts[k] = map[string]struct{}{}
				}
				acts[k][a] = struct{}{}
			}
		}
	}
	for k, as := range acts {
		if _, wild := as["*"]; wild {
			out[k.t+"\x00"+k.n+"\x00*"] = struct{}{}
			continue
		}
		for a := range as {
			out[k.t+"\x00"+k.n+"\x00"+a] = struct{}{}
		}
	}
	return out
}

// Equal reports set equality.
func (s ScopeSet) Equal(o ScopeSet) bool {
	if len(s) != len(o) {
		return false
	}
	for k := range s {
		if _, ok := o[k]; !ok {
			return false
		}
	}
	return true
}

// Grants reports whether the set allows action on (type, name).
func (s ScopeSet) Grants(typ, name, action string) bool {
	if _, ok := s[typ+"\x00"+name+"\x00*"]; ok {
		return true
	}
	_, ok := s[typ+"\x00"+name+"\x00"+action]
	return ok
}

// Covers reports whether every member of need is granted by s.
func (s ScopeSet) Covers(need ScopeSet) bool {
	for k := range need {
		p := strings.Split(k, "\x00")
		if len(p) != 3 {
			if _, ok := s[k]; !ok {
				return false
			}
			continue
		}
		if !s.Grants(p[0], p[1], p[2]) {
			return false
		}
	}
	return true
}

// String renders the set in a stable, readable form.
func (s ScopeSet) String() string {
	var l []string
	for k := range s {
		if strings.HasPrefix(k, "\x01") {
			l = append(l, k[1:])
		} else {
			l = append(l, strings.ReplaceAll(k, "\x00", ":"))
		}
	}
	sort.Strings(l)
	return "{" + strings.Join(l, " ") + "}"
}

// pullOnly keeps what an anonymous token may grant: the pull action of every
// repository asked for (a wildcard shrinks to pull).
func (s ScopeSet) pullOnly() ScopeSet {
	out := ScopeSet{}
	for k := range s {
		p := strings.Split(k, "\x00")
		if len(p) == 3 && p[0] == "repository" && (p[2] == "pull" || p[2] == "*") {
			out[p[0]+"\x00"+p[1]+"\x00pull"] = struct{}{}
		}
	}
	return out
}
