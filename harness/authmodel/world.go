package authmodel

import (
	"bytes"
	"context"
	"encoding/base64"
	"encoding/json"
	"errors"
	"fmt"
	"io"
	"math/rand/v2"
	"net/http"
	"net/url"
	"regexp"
	"sort"
	"strings"
	"sync"
)

// ---------------------------------------------------------------------------
// correlation of sends with the caller's original request

type corrKey struct{}

// CorrHeader is the correlation header put on original requests (it survives
// http.Request.Clone); token fetches are correlated through the context.
const CorrHeader = "X-Verif-Corr"

// WithCorr tags a context with the id of the caller's request.
func WithCorr(ctx context.Context, id int) context.Context {
	return context.WithValue(ctx, corrKey{}, id)
}

// CorrOf returns the id put by WithCorr (0 = none).
func CorrOf(ctx context.Context) int {
	if v, ok := ctx.Value(corrKey{}).(int); ok {
		return v
	}
	return 0
}

// ---------------------------------------------------------------------------
// secrets

// Secret kinds.
const (
	KindPassword = "password"
	KindBasic    = "basic-token" // base64(user:pass): the cached Basic token, also what SetBasicAuth sends
	KindRefresh  = "refresh-token"
	KindAccess   = "access-token" // static registry token held by the client
	KindIssued   = "issued-token" // token issued by a token service during the case
)

// Secret is one secret string of the world.
type Secret struct {
	Value string
	Kind  string
	Owner string // registry host the secret belongs to
}

// Issued is what a token service remembers about a token it issued.
type Issued struct {
	Token     string
	Service   string
	Registry  string   // registry host the service parameter named
	ForHost   string   // host of the caller's request whose flow fetched it ("" if unknown)
	FetchCorr int      // request that performed the fetch
	Asked     ScopeSet // canonical form of the scopes the fetch asked for
	Granted   ScopeSet // what the token grants (= Asked, except for anonymous tokens: pull only)
	Raw       []string // scopes as received
	Cred      string   // credential kind presented
	Epoch     int
}

// ---------------------------------------------------------------------------
// registries

// Registry schemes.
const (
	SchemeBasic  = "basic"
	SchemeBearer = "bearer"
	SchemeOpen   = "open"  // answers without authentication
	SchemeOther  = "other" // challenges with a scheme the client does not know
)

// Registry is the model of one registry host.
type Registry struct {
	Host    string
	Service string
	Scheme  string
	Realm   string // token endpoint URL advertised in Bearer challenges
	// credentials the registry / its token service accept
	User, Pass, Refresh, Access string
	// WildSalt decides (with the repository name) whether challenges for a
	// repository use the "*" action.
	WildSalt uint64

	// AnonymousPull: the token service hands out tokens without credentials
	// (distribution GET flow only); they grant the pull action of what was asked.
	AnonymousPull bool
	// Redirect, when set, makes the registry answer some requests with a
	// redirect to the same path on another modelled host.
	Redirect *Redirect

	epoch           int
	challengedBasic bool
	advertised      map[string]bool // realm hosts advertised so far
}

// Redirect describes how a registry redirects.
type Redirect struct {
	To   string // target host (another registry model: mirror or blob store)
	Code int    // 301, 302, 307 or 308
	What string // "all" or "blobs"
	When string // "pre": whoever asks is redirected; "post": only authenticated requests are
}

func (rd *Redirect) applies(req *http.Request) bool {
	return rd != nil && (rd.What == "all" || strings.Contains(req.URL.Path, "/blobs/"))
}

// ---------------------------------------------------------------------------
// per-request state kept for the oracle

// ReqState is what the world observed for one request of the caller.
type ReqState struct {
	Corr   int
	Host   string
	Hinted []string // raw scope hints that apply to Host (per-host hints + global hints)
	Body   []byte   // expected request body (nil = none)

	Redirected     bool     // some hop of this request went to another registry host (redirect followed by net/http)
	Sends          int      // sends addressed to Host's registry API
	Fetches        int      // token-endpoint arrivals under this correlation id
	FetchHosts     []string // where those went
	LastRespID     string
	LastStatus     int
	HasChallenge   bool
	ChallengeScope string   // scope parameter of the last Bearer challenge
	Presented      []string // Authorization credential presented per send ("" = none)
	Opportunities  int      // sends made while the client held secrets/tokens of another host
	RawVariantHit  bool     // a token was reused although the raw scope strings differed from those of its fetch
	challengeRaws  []string
	fetchedWithRaw string
}

// Event is one request seen at the innermost transport.
type Event struct {
	Seq       int      `json:"seq"`
	Corr      int      `json:"corr"`
	Kind      string   `json:"kind"` // registry | token | unknown
	Method    string   `json:"method"`
	URL       string   `json:"url"`
	Auth      string   `json:"auth,omitempty"` // scheme word and a description of the credential
	Secrets   []string `json:"secrets,omitempty"`
	Status    int      `json:"status,omitempty"`
	Challenge string   `json:"challenge,omitempty"`
	Issued    string   `json:"issued,omitempty"`
	Err       string   `json:"err,omitempty"`
}

// Violation is a breach of the C16 statement seen by the world's monitor.
type Violation struct {
	Key  string
	What string
	Seq  int
}

// ReqInfo describes an arriving request to the Before gate.
type ReqInfo struct {
	Kind string // registry | token | unknown
	Host string
	Corr int
}

// World routes requests by host to the registry and token-service models and
// monitors every request. It is an http.RoundTripper.
type World struct {
	Seed uint64
	// Flavour of the client's cache: "none", "shared" or "single". Scope-set
	// equality of reused tokens is demanded for "none" and "shared" only.
	Flavour string
	// Before, when set, is called (without locks) for every arriving request
	// after it was scanned; an error is returned from RoundTrip as a transport
	// error. It is used to hold token endpoints.
	Before func(req *http.Request, info ReqInfo) error
	// After, when set, is called (without locks) with the response about to be
	// returned; it may only delay.
	After func(req *http.Request, info ReqInfo, resp *http.Response)

	mu       sync.Mutex
	regs     map[string]*Registry
	services map[string]*Registry
	tokenEPs map[string]bool // host+path
	secrets  []*Secret
	issued   map[string]*Issued
	reqs     map[int]*ReqState
	events   []Event
	viols    []Violation
	seq      int
	respN    int
	tokN     int
	held     map[string]bool // hosts for which the client obtained something it could wrongly reuse
	inflight int

	Counters map[string]int64
}

// NewWorld makes an empty world.
func NewWorld(seed uint64, flavour string) *World {
	return &World{Seed: seed, Flavour: flavour,
		regs: map[string]*Registry{}, services: map[string]*Registry{}, tokenEPs: map[string]bool{},
		issued: map[string]*Issued{}, reqs: map[int]*ReqState{}, held: map[string]bool{},
		Counters: map[string]int64{}}
}

// AddRegistry adds a registry and registers its secrets and token endpoint.
func (w *World) AddRegistry(r *Registry) {
	w.mu.Lock()
	defer w.mu.Unlock()
	r.advertised = map[string]bool{}
	w.regs[r.Host] = r
	w.services[r.Service] = r
	w.addRealmLocked(r.Realm)
	add := func(v, kind string) {
		if v != "" {
			w.secrets = append(w.secrets, &Secret{Value: v, Kind: kind, Owner: r.Host})
		}
	}
	add(r.Pass, KindPassword)
	add(r.Refresh, KindRefresh)
	add(r.Access, KindAccess)
	if r.User != "" || r.Pass != "" {
		add(base64.StdEncoding.EncodeToString([]byte(r.User+":"+r.Pass)), KindBasic)
	}
}

func (w *World) addRealmLocked(realm string) {
	if u, err := url.Parse(realm); err == nil && u.Host != "" {
		w.tokenEPs[u.Host+u.Path] = true
	}
}

// AddSecret registers an additional secret of a registry (e.g. a wrong
// password handed to the client).
func (w *World) AddSecret(owner, kind, value string) {
	w.mu.Lock()
	w.secrets = append(w.secrets, &Secret{Value: value, Kind: kind, Owner: owner})
	w.mu.Unlock()
}

// Registry returns the model of a host.
func (w *World) Registry(host string) *Registry {
	w.mu.Lock()
	defer w.mu.Unlock()
	return w.regs[host]
}

// ExpireTokens invalidates every token issued so far for the registry.
func (w *World) ExpireTokens(host string) {
	w.mu.Lock()
	w.regs[host].epoch++
	w.mu.Unlock()
}

// SetScheme changes the scheme of a registry mid-history.
func (w *World) SetScheme(host, scheme string) {
	w.mu.Lock()
	w.regs[host].Scheme = scheme
	w.mu.Unlock()
}

// MoveRealm makes the registry advertise another token endpoint from now on.
func (w *World) MoveRealm(host, realm string) {
	w.mu.Lock()
	w.regs[host].Realm = realm
	w.addRealmLocked(realm)
	w.mu.Unlock()
}

// Register announces a request of the caller before it is made.
func (w *World) Register(corr int, host string, hinted []string, body []byte) {
	w.mu.Lock()
	w.reqs[corr] = &ReqState{Corr: corr, Host: host, Hinted: append([]string{}, hinted...), Body: body}
	w.mu.Unlock()
}

// State returns a copy of the state of a request.
func (w *World) State(corr int) ReqState {
	w.mu.Lock()
	defer w.mu.Unlock()
	if s := w.reqs[corr]; s != nil {
		c := *s
		c.Presented = append([]string{}, s.Presented...)
		c.FetchHosts = append([]string{}, s.FetchHosts...)
		return c
	}
	return ReqState{}
}

// Violations returns the violations seen so far.
func (w *World) Violations() []Violation {
	w.mu.Lock()
	defer w.mu.Unlock()
	return append([]Violation{}, w.viols...)
}

// Events returns a copy of the event log (at most the last max events when max > 0).
func (w *World) Events(max int) []Event {
	w.mu.Lock()
	defer w.mu.Unlock()
	ev := w.events
	if max > 0 && len(ev) > max {
		ev = ev[len(ev)-max:]
	}
	return append([]Event{}, ev...)
}

// EventsFor returns the events of one request of the caller.
func (w *World) EventsFor(corr int) []Event {
	w.mu.Lock()
	defer w.mu.Unlock()
	var out []Event
	for _, e := range w.events {
		if e.Corr == corr {
			out = append(out, e)
		}
	}
	return out
}

// Inflight returns the number of requests currently inside the world.
func (w *World) Inflight() int {
	w.mu.Lock()
	defer w.mu.Unlock()
	return w.inflight
}

// IssuedToken returns what is known about an issued token.
func (w *World) IssuedToken(tok string) *Issued {
	w.mu.Lock()
	defer w.mu.Unlock()
	return w.issued[tok]
}

func (w *World) violate(key, what string, seq int) {
	w.viols = append(w.viols, Violation{Key: key, What: what, Seq: seq})
}

func (w *World) count(k string, n int64) { w.Counters[k] += n }

// Counter snapshot.
func (w *World) CountersCopy() map[string]int64 {
	w.mu.Lock()
	defer w.mu.Unlock()
	out := map[string]int64{}
	for k, v := range w.Counters {
		out[k] = v
	}
	return out
}

// ---------------------------------------------------------------------------
// the transport

func (w *World) evRand(corr, n int) *rand.Rand {
	return rand.New(rand.NewPCG(w.Seed, uint64(corr)*4099+uint64(n)+17))
}

// RoundTrip implements http.RoundTripper.
func (w *World) RoundTrip(req *http.Request) (*http.Response, error) {
	ctx := req.Context()
	var body []byte
	if req.Body != nil {
		body, _ = io.ReadAll(req.Body)
		req.Body.Close()
	}
	// a real transport fails a request whose context is done with the context's error
	if err := ctx.Err(); err != nil {
		return nil, err
	}
	// ... and refuses what it cannot address, before anything goes on the wire
	if req.URL.Scheme != "http" && req.URL.Scheme != "https" {
		w.mu.Lock()
		w.count("requests_refused_by_transport", 1)
		w.mu.Unlock()
		return nil, fmt.Errorf("unsupported protocol scheme %q", req.URL.Scheme)
	}
	if req.URL.Host == "" {
		w.mu.Lock()
		w.count("requests_refused_by_transport", 1)
		w.mu.Unlock()
		return nil, errors.New("http: no Host in request URL")
	}
	corr := CorrOf(ctx)
	if corr == 0 {
		fmt.Sscanf(req.Header.Get(CorrHeader), "%d", &corr)
	}
	host := req.URL.Host
	kind := "unknown"

	w.mu.Lock()
	w.inflight++
	w.seq++
	seq := w.seq
	reg := w.regs[host]
	switch {
	case reg != nil && (req.URL.Path == "/v2" || strings.HasPrefix(req.URL.Path, "/v2/")):
		kind = "registry"
	case w.tokenEPs[host+req.URL.Path]:
		kind = "token"
	}
	ev := Event{Seq: seq, Corr: corr, Kind: kind, Method: req.Method, URL: req.URL.String()}
	if st := w.reqs[corr]; st != nil && kind == "registry" && host != st.Host {
		st.Redirected = true
		w.count("redirect_hops_to_other_host", 1)
	}
	if st := w.reqs[corr]; st != nil && kind == "token" {
		// "one token fetch": arrivals are counted, served or not
		st.Fetches++
		st.FetchHosts = append(st.FetchHosts, host)
	}
	if req.Host != "" && req.Host != host {
		w.count("host_header_differs", 1)
	}
	w.scanLocked(req, body, host, &ev)
	w.count("requests_seen", 1)
	w.count("requests_"+kind, 1)
	w.mu.Unlock()

	finish := func(resp *http.Response, err error) (*http.Response, error) {
		w.mu.Lock()
		w.inflight--
		if err != nil {
			ev.Err = err.Error()
		} else {
			ev.Status = resp.StatusCode
			ev.Challenge = resp.Header.Get("Www-Authenticate")
		}
		w.events = append(w.events, ev)
		w.mu.Unlock()
		return resp, err
	}

	if w.Before != nil {
		if err := w.Before(req, ReqInfo{Kind: kind, Host: host, Corr: corr}); err != nil {
			return finish(nil, err)
		}
	}
	if err := ctx.Err(); err != nil {
		return finish(nil, err)
	}

	w.mu.Lock()
	var resp *http.Response
	switch kind {
	case "registry":
		resp = w.serveRegistryLocked(reg, req, body, corr, &ev)
	case "token":
		resp = w.serveTokenLocked(req, body, corr, &ev)
	default:
		w.count("unknown_destination", 1)
		resp = w.respond(req, 404, nil, `{"errors":[{"code":"NOT_FOUND"}]}`)
	}
	w.mu.Unlock()
	if w.After != nil {
		w.After(req, ReqInfo{Kind: kind, Host: host, Corr: corr}, resp)
	}
	return finish(resp, nil)
}

func (w *World) respond(req *http.Request, status int, h http.Header, body string) *http.Response {
	if h == nil {
		h = http.Header{}
	}
	w.respN++
	h.Set("X-Verif-Resp", fmt.Sprintf("r%d", w.respN))
	h.Set("Content-Type", "application/json")
	return &http.Response{
		StatusCode: status, Status: fmt.Sprintf("%d %s", status, http.StatusText(status)),
		Proto: "HTTP/1.1", ProtoMajor: 1, ProtoMinor: 1,
		Header: h, Body: io.NopCloser(strings.NewReader(body)), ContentLength: int64(len(body)), Request: req,
	}
}

// ---------------------------------------------------------------------------
// the monitor: secret scan of one outgoing request

func (w *World) scanLocked(req *http.Request, body []byte, host string, ev *Event) {
	hay := []string{req.URL.String()}
	if u, err := url.QueryUnescape(req.URL.RawQuery); err == nil {
		hay = append(hay, u)
	}
	if u, err := url.PathUnescape(req.URL.EscapedPath()); err == nil {
		hay = append(hay, u)
	}
	for k, vs := range req.Header {
		for _, v := range vs {
			hay = append(hay, k+": "+v)
			for _, f := range strings.Fields(v) {
				if d, err := base64.StdEncoding.DecodeString(f); err == nil && len(d) > 0 {
					hay = append(hay, string(d))
				}
			}
		}
	}
	if len(body) > 0 {
		hay = append(hay, string(body))
		if u, err := url.QueryUnescape(string(body)); err == nil {
			hay = append(hay, u)
		}
	}
	contains := func(s string) bool {
		for _, h := range hay {
			if strings.Contains(h, s) {
				return true
			}
		}
		return false
	}
	w.count("secret_scans", int64(len(w.secrets)+len(w.issued)))
	for _, s := range w.secrets {
		if !contains(s.Value) {
			continue
		}
		w.judgeSecretLocked(s.Kind, s.Owner, host, ev)
	}
	for _, it := range w.issued {
		if !contains(it.Token) {
			continue
		}
		owner := it.ForHost
		if owner == "" {
			owner = it.Registry
		}
		w.judgeSecretLocked(KindIssued, owner, host, ev)
	}
	// was this send an opportunity to leak? (the client holds something of another host)
	for h := range w.held {
		if h != host {
			w.count("cross_host_opportunities", 1)
			if st := w.reqs[ev.Corr]; st != nil {
				st.Opportunities++
			}
			break
		}
	}
}

func (w *World) judgeSecretLocked(kind, owner, host string, ev *Event) {
	ev.Secrets = append(ev.Secrets, kind+"("+owner+")")
	w.count("secrets_seen_on_wire", 1)
	r := w.regs[owner]
	switch kind {
	case KindPassword, KindBasic, KindRefresh:
		ok := r != nil && ((host == owner && r.challengedBasic) || r.advertised[host])
		if !ok {
			why := "a host that is neither that registry after a Basic challenge nor a realm it advertised"
			if host == owner {
				why = "that registry although it never challenged with Basic and never advertised a realm on its own host"
			}
			w.violate("secret-to-foreign-host:"+kind,
				fmt.Sprintf("%s of registry %s was sent to %s (%s %s): %s", kind, owner, host, ev.Method, ev.URL, why), ev.Seq)
		}
	default: // access token, issued token
		if host != owner {
			w.violate("token-to-foreign-host:"+kind,
				fmt.Sprintf("%s obtained for registry %s was sent to %s (%s %s)", kind, owner, host, ev.Method, ev.URL), ev.Seq)
		}
	}
}

// ---------------------------------------------------------------------------
// registry model

var repoPath = regexp.MustCompile(`^/v2/(.+)/(manifests|blobs|tags|referrers)(/.*)?$`)

type need struct {
	typ, name string
	actions   []string
}

func requiredScopes(req *http.Request) []need {
	p := req.URL.Path
	if p == "/v2" || p == "/v2/" {
		return nil
	}
	if p == "/v2/_catalog" {
		return []need{{"registry", "catalog", []string{"*"}}}
	}
	m := repoPath.FindStringSubmatch(p)
	if m == nil {
		return nil
	}
	var out []need
	switch req.Method {
	case http.MethodGet, http.MethodHead:
		out = append(out, need{"repository", m[1], []string{"pull"}})
	case http.MethodDelete:
		out = append(out, need{"repository", m[1], []string{"delete"}})
	default:
		out = append(out, need{"repository", m[1], []string{"pull", "push"}})
		if from := req.URL.Query().Get("from"); from != "" && from != m[1] {
			out = append(out, need{"repository", from, []string{"pull"}})
		}
	}
	return out
}

func needSet(ns []need) ScopeSet {
	var raw []string
	for _, n := range ns {
		raw = append(raw, n.typ+":"+n.name+":"+strings.Join(n.actions, ","))
	}
	return Canon(raw...)
}

// formatScope renders the needed scopes the way hostile-but-legal registries
// do: any order, duplicated scopes and actions, actions of one resource split
// over several scope strings, "*" where the registry uses wildcards.
func (r *Registry) formatScope(ns []need, rng *rand.Rand) string {
	var parts []string
	for _, n := range ns {
		acts := append([]string{}, n.actions...)
		if n.typ == "repository" && wildFor(r.WildSalt, n.name) {
			acts = []string{"*"}
			if rng.IntN(3) == 0 {
				acts = append(acts, n.actions[rng.IntN(len(n.actions))]) // absorbed
			}
		}
		rng.Shuffle(len(acts), func(i, j int) { acts[i], acts[j] = acts[j], acts[i] })
		if len(acts) > 1 && rng.IntN(3) == 0 { // split
			for _, a := range acts {
				parts = append(parts, n.typ+":"+n.name+":"+a)
			}
		} else {
			if rng.IntN(4) == 0 {
				acts = append(acts, acts[rng.IntN(len(acts))]) // duplicate action
			}
			parts = append(parts, n.typ+":"+n.name+":"+strings.Join(acts, ","))
		}
		if rng.IntN(4) == 0 {
			parts = append(parts, parts[rng.IntN(len(parts))]) // duplicate scope
		}
	}
	rng.Shuffle(len(parts), func(i, j int) { parts[i], parts[j] = parts[j], parts[i] })
	return strings.Join(parts, " ")
}

func wildFor(salt uint64, name string) bool {
	h := salt
	for i := 0; i < len(name); i++ {
		h = (h ^ uint64(name[i])) * 1099511628211
	}
	return (h>>17)%5 == 0
}

func quote(s string) string {
	return `"` + strings.NewReplacer(`\`, `\\`, `"`, `\"`).Replace(s) + `"`
}

func (r *Registry) bearerChallenge(ns []need, presented bool, rng *rand.Rand) (header, scope string) {
	scope = r.formatScope(ns, rng)
	params := []string{"realm=" + quote(r.Realm), "service=" + quote(r.Service)}
	if scope != "" {
		params = append(params, "scope="+quote(scope))
	}
	if presented && rng.IntN(2) == 0 {
		params = append(params, `error="insufficient_scope"`)
	}
	rng.Shuffle(len(params), func(i, j int) { params[i], params[j] = params[j], params[i] })
	sep := []string{",", ", ", " , ", ",\t"}[rng.IntN(4)]
	word := []string{"Bearer", "Bearer", "bearer", "BEARER"}[rng.IntN(4)]
	return word + " " + strings.Join(params, sep), scope
}

func (w *World) serveRegistryLocked(r *Registry, req *http.Request, body []byte, corr int, ev *Event) *http.Response {
	st := w.reqs[corr]
	nSend := 0
	if st != nil && st.Host == r.Host {
		st.Sends++
		nSend = st.Sends
	}
	rng := w.evRand(corr, nSend)
	needs := requiredScopes(req)
	required := needSet(needs)

	authz := req.Header.Get("Authorization")
	word, cred, _ := strings.Cut(authz, " ")
	cred = strings.TrimSpace(cred)
	if len(req.Header.Values("Authorization")) > 1 {
		w.violate("harness:multiple-authorization-headers", "request carries several Authorization headers", ev.Seq)
	}
	if st != nil && st.Host == r.Host {
		st.Presented = append(st.Presented, authz)
	}
	basicOf := func(rr *Registry) string {
		return base64.StdEncoding.EncodeToString([]byte(rr.User + ":" + rr.Pass))
	}

	// scheme discipline and token reuse (statement: "a cached token is reused
	// only for the same host, scheme and canonical scope set")
	if authz != "" {
		ev.Auth = word
		it := w.issued[cred]
		isAccess, isBasicTok := false, false
		for _, s := range w.secrets {
			if s.Value == cred {
				switch s.Kind {
				case KindAccess:
					isAccess = true
				case KindBasic:
					isBasicTok = true
				}
			}
		}
		switch {
		case strings.EqualFold(word, "Basic") && (it != nil || isAccess):
			w.violate("token-reused-under-other-scheme", fmt.Sprintf("a Bearer token was presented to %s under the Basic scheme", r.Host), ev.Seq)
		case strings.EqualFold(word, "Bearer") && isBasicTok:
			w.violate("token-reused-under-other-scheme", fmt.Sprintf("a Basic token was presented to %s under the Bearer scheme", r.Host), ev.Seq)
		}
		if it != nil && strings.EqualFold(word, "Bearer") {
			ev.Auth = "Bearer issued#" + it.Token
			w.count("issued_token_presentations", 1)
			owner := it.ForHost
			if owner == "" {
				owner = it.Registry
			}
			// (a redirected request received challenges of two hosts: which one the
			// client merged is its business, the scope set is not judged then)
			if st != nil && st.Host == r.Host && owner == r.Host && w.Flavour != "single" && !st.Redirected {
				raws := append([]string{}, st.Hinted...)
				if st.HasChallenge {
					raws = append(raws, st.ChallengeScope)
				}
				want := Canon(raws...)
				if !it.Asked.Equal(want) {
					w.violate("token-reused-for-other-scope-set",
						fmt.Sprintf("send #%d of request %d to %s presents token %s issued for scope set %s, but the request's hinted ∪ challenged scope set is %s",
							nSend, corr, r.Host, it.Token, it.Asked, want), ev.Seq)
				}
				w.count("scope_set_equalities_checked", 1)
			}
			if st != nil && it.FetchCorr != corr {
				w.count("token_reuses_by_other_request", 1)
				rawNow := strings.Join(append(append([]string{}, st.Hinted...), st.ChallengeScope), " ")
				if fs := w.reqs[it.FetchCorr]; fs != nil && fs.fetchedWithRaw != rawNow {
					st.RawVariantHit = true
					w.count("token_reuses_with_differently_written_scopes", 1)
				}
			}
		}
	}

	redirect := func() *http.Response {
		u := *req.URL
		u.Host = r.Redirect.To
		w.count("redirects_answered", 1)
		resp := w.respond(req, r.Redirect.Code, http.Header{"Location": {u.String()}}, "")
		if st != nil && st.Host == r.Host {
			st.LastRespID, st.LastStatus = resp.Header.Get("X-Verif-Resp"), r.Redirect.Code
		}
		return resp
	}
	if r.Redirect.applies(req) && r.Redirect.When == "pre" {
		return redirect()
	}

	// A challenge reaches the client as the answer to the request it addressed
	// to st.Host, also when net/http followed a redirect to this host: for the
	// statement's "registry that challenged" / "realm that registry advertised"
	// it counts for the addressed registry as well.
	addressed := r
	if st != nil && st.Host != r.Host && w.regs[st.Host] != nil {
		addressed = w.regs[st.Host]
	}

	authed := false
	switch r.Scheme {
	case SchemeOpen:
		authed = true
	case SchemeBasic:
		authed = strings.EqualFold(word, "Basic") && cred == basicOf(r)
	case SchemeBearer:
		if strings.EqualFold(word, "Bearer") {
			if r.Access != "" && cred == r.Access {
				authed = true
			} else if it := w.issued[cred]; it != nil {
				authed = it.Service == r.Service && it.Registry == r.Host && it.Epoch == r.epoch && it.Granted.Covers(required)
			}
		}
	}
	if !authed {
		h := http.Header{}
		switch r.Scheme {
		case SchemeBasic:
			h.Set("Www-Authenticate", []string{`Basic realm="Registry Realm"`, `basic realm="r"`, `BASIC realm="x", charset="UTF-8"`}[rng.IntN(3)])
			r.challengedBasic = true
			addressed.challengedBasic = true
			w.held[r.Host] = true // from now on the client may hold this registry's Basic token
			if st != nil {
				st.HasChallenge = false
				st.ChallengeScope = ""
			}
		case SchemeBearer:
			hdr, scope := r.bearerChallenge(needs, authz != "", rng)
			h.Set("Www-Authenticate", hdr)
			if u, err := url.Parse(r.Realm); err == nil {
				r.advertised[u.Host] = true
				addressed.advertised[u.Host] = true
			}
			if st != nil {
				st.HasChallenge = true
				st.ChallengeScope = scope
				st.challengeRaws = append(st.challengeRaws, scope)
			}
		default:
			h.Set("Www-Authenticate", `Negotiate`)
		}
		resp := w.respond(req, 401, h, `{"errors":[{"code":"UNAUTHORIZED","message":"authentication required"}]}`)
		if st != nil && st.Host == r.Host {
			st.LastRespID, st.LastStatus = resp.Header.Get("X-Verif-Resp"), 401
		}
		return resp
	}
	if authz != "" {
		w.held[r.Host] = true
	}
	if r.Redirect.applies(req) {
		return redirect()
	}
	status := 200
	if req.Method == http.MethodPost || req.Method == http.MethodPut || req.Method == http.MethodPatch {
		status = 201
		if st != nil && !bytes.Equal(body, st.Body) {
			status = 400 // the body did not arrive whole
			w.count("short_bodies", 1)
		}
	}
	resp := w.respond(req, status, nil, `{"ok":true}`)
	if st != nil && st.Host == r.Host {
		st.LastRespID, st.LastStatus = resp.Header.Get("X-Verif-Resp"), status
	}
	return resp
}

// ---------------------------------------------------------------------------
// token service model (distribution GET flow and OAuth2 POST flow)

func (w *World) serveTokenLocked(req *http.Request, body []byte, corr int, ev *Event) *http.Response {
	st := w.reqs[corr]
	nFetch := 0
	if st != nil {
		nFetch = st.Fetches
	}
	rng := w.evRand(corr, 100+nFetch)
	w.count("token_fetches", 1)
	fail := func(code int, msg string) *http.Response {
		w.count("token_fetches_refused", 1)
		return w.respond(req, code, nil, `{"errors":[{"code":"UNAUTHORIZED","message":`+fmt.Sprintf("%q", msg)+`}]}`)
	}
	var service, credKind string
	anonymous := false
	var scopes []string
	var okCred func(r *Registry) bool
	switch req.Method {
	case http.MethodGet:
		q := req.URL.Query()
		service = q.Get("service")
		scopes = q["scope"]
		u, p, has := req.BasicAuth()
		credKind = "basic(user,password)"
		if !has {
			credKind = "anonymous"
			anonymous = true
		}
		okCred = func(r *Registry) bool { return has && r.Pass != "" && u == r.User && p == r.Pass }
	case http.MethodPost:
		form, err := url.ParseQuery(string(body))
		if err != nil || !strings.HasPrefix(req.Header.Get("Content-Type"), "application/x-www-form-urlencoded") {
			return fail(400, "bad form")
		}
		service = form.Get("service")
		scopes = strings.Fields(form.Get("scope"))
		if form.Get("client_id") == "" {
			return fail(400, "client_id required")
		}
		switch form.Get("grant_type") {
		case "refresh_token":
			credKind = "oauth2(refresh_token)"
			okCred = func(r *Registry) bool { return r.Refresh != "" && form.Get("refresh_token") == r.Refresh }
		case "password":
			credKind = "oauth2(password)"
			okCred = func(r *Registry) bool {
				return r.Pass != "" && form.Get("username") == r.User && form.Get("password") == r.Pass
			}
		default:
			return fail(400, "unsupported grant type")
		}
	default:
		return fail(405, "method")
	}
	r := w.services[service]
	if r == nil {
		return fail(400, "unknown service")
	}
	if u, err := url.Parse(r.Realm); err != nil || u.Host != req.URL.Host || u.Path != req.URL.Path {
		return fail(404, "this endpoint does not serve "+service)
	}
	if !(okCred(r) || anonymous && r.AnonymousPull) {
		return fail(401, "invalid credential")
	}
	w.tokN++
	tok := fmt.Sprintf("vtk%d.%x.%x", w.tokN, w.Seed&0xffffff, rng.Uint64())
	it := &Issued{Token: tok, Service: service, Registry: r.Host, FetchCorr: corr,
		Asked: Canon(scopes...), Granted: Canon(scopes...), Raw: scopes, Cred: credKind, Epoch: r.epoch}
	if anonymous {
		it.Granted = it.Asked.pullOnly()
		w.count("anonymous_tokens_issued", 1)
	}
	if st != nil {
		it.ForHost = st.Host
		st.fetchedWithRaw = strings.Join(append(append([]string{}, st.Hinted...), st.ChallengeScope), " ")
	}
	w.issued[tok] = it
	w.held[r.Host] = true
	ev.Issued = tok
	w.count("tokens_issued", 1)
	doc := map[string]any{}
	if req.Method == http.MethodPost {
		doc["access_token"] = tok
		if rng.IntN(2) == 0 {
			// a rotated refresh token the client has no business using anywhere
			nr := fmt.Sprintf("rot-refresh-%x", rng.Uint64())
			w.secrets = append(w.secrets, &Secret{Value: nr, Kind: KindRefresh, Owner: r.Host})
			doc["refresh_token"] = nr
		}
	} else {
		switch rng.IntN(3) {
		case 0:
			doc["token"] = tok
		case 1:
			doc["access_token"] = tok
		default:
			doc["token"], doc["access_token"] = tok, tok
		}
	}
	if rng.IntN(2) == 0 {
		doc["expires_in"] = 300
		doc["issued_at"] = "2026-01-01T00:00:00Z"
	}
	b, _ := json.Marshal(doc)
	return w.respond(req, 200, nil, string(b))
}

// Describe lists the registries (for witnesses).
func (w *World) Describe() []map[string]any {
	w.mu.Lock()
	defer w.mu.Unlock()
	var hosts []string
	for h := range w.regs {
		hosts = append(hosts, h)
	}
	sort.Strings(hosts)
	var out []map[string]any
	for _, h := range hosts {
		r := w.regs[h]
		out = append(out, map[string]any{"host": r.Host, "scheme": r.Scheme, "realm": r.Realm, "service": r.Service, "anonymous_pull": r.AnonymousPull,
			"has_refresh": r.Refresh != "", "has_access": r.Access != ""})
	}
	return out
}
