// Package ocicheck holds what the OCI-layout checks C08 (reopen equivalence,
// on-disk validity) and C10 (crash consistency) share: an operation
// vocabulary with a seeded generator, the on-disk validity checker, the
// observable-state function, the reopen paths and directory helpers.
//
// Nothing here models the library: Validate reads the raw directory, Observe
// asks a store through its public API, and the op generator only queries the
// store to choose sensible operands.
package ocicheck

import (
	"archive/tar"
	"bytes"
	"context"
	"crypto/sha256"
	"encoding/hex"
	"encoding/json"
	"errors"
	"fmt"
	"io"
	"io/fs"
	"math/rand/v2"
	"os"
	"os/exec"
	"path/filepath"
	"sort"
	"strings"

	"github.com/opencontainers/go-digest"
	ocispec "github.com/opencontainers/image-spec/specs-go/v1"
	"oras.land/oras-go/v2/content"
	"oras.land/oras-go/v2/content/oci"
	"oras.land/oras-go/v2/errdef"
	"oras.land/oras-go/v2/verifharness/gen"
)

// ---------------------------------------------------------------------------
// nodes

// Node is one piece of content the histories work with.
type Node struct {
	ID       int
	Kind     string
	Desc     ocispec.Descriptor // plain: media type, digest, size
	Bytes    []byte
	Succ     []int
	Subject  int // -1: none
	Manifest bool
}

// FromDAG converts a generated DAG, dropping media-type twins (a second node
// with an already used digest) and, transitively, their parents: the OCI
// checks assume one media type per digest.
func FromDAG(g *gen.DAG) []Node {
	skip := map[int]bool{}
	seen := map[string]bool{}
	for _, nd := range g.Nodes {
		if seen[nd.Desc.Digest.String()] {
			skip[nd.ID] = true
		}
		seen[nd.Desc.Digest.String()] = true
	}
	for changed := true; changed; {
		changed = false
		for _, nd := range g.Nodes {
			if skip[nd.ID] {
				continue
			}
			for _, s := range nd.Succ {
				if skip[s] {
					skip[nd.ID] = true
					changed = true
					break
				}
			}
		}
	}
	remap := map[int]int{}
	var out []Node
	for _, nd := range g.Nodes {
		if skip[nd.ID] {
			continue
		}
		remap[nd.ID] = len(out)
		n := Node{ID: len(out), Kind: nd.Kind.String(), Desc: gen.Plain(nd.Desc), Bytes: nd.Bytes, Subject: -1, Manifest: nd.Kind.IsManifestKind()}
		for _, s := range nd.Succ {
			n.Succ = append(n.Succ, remap[s])
		}
		if nd.Subject >= 0 {
			n.Subject = remap[nd.Subject]
		}
		out = append(out, n)
	}
	return out
}

// AddBlob appends a plain blob (any registered digest algorithm).
func AddBlob(nodes []Node, mediaType string, alg digest.Algorithm, data []byte) []Node {
	return append(nodes, Node{ID: len(nodes), Kind: "blob", Bytes: data, Subject: -1,
		Desc: ocispec.Descriptor{MediaType: mediaType, Digest: alg.FromBytes(data), Size: int64(len(data))}})
}

// Describe writes the node list out for witnesses.
func Describe(nodes []Node) []string {
	var out []string
	for _, n := range nodes {
		s := fmt.Sprintf("%d:%s(%dB %s)->%v", n.ID, n.Kind, len(n.Bytes), short(n.Desc.Digest.String()), n.Succ)
		if n.Subject >= 0 {
			s += fmt.Sprintf(" subject=%d", n.Subject)
		}
		out = append(out, s)
	}
	return out
}

func short(d string) string {
	if i := strings.Index(d, ":"); i >= 0 && len(d) > i+9 {
		return d[:i+9]
	}
	return d
}

// ---------------------------------------------------------------------------
// operations

// Op is one store operation of a history.
type Op struct {
	Kind string            `json:"op"` // push | pushbad | tag | untag | delete | gc | saveindex
	Node int               `json:"node"`
	Ref  string            `json:"ref,omitempty"`
	Ann  map[string]string `json:"ann,omitempty"` // annotations of the descriptor passed to Tag
	// further fields of the descriptor passed to Tag
	Platform     *ocispec.Platform `json:"platform,omitempty"`
	ArtifactType string            `json:"artifactType,omitempty"`
	URLs         []string          `json:"urls,omitempty"`
	Data         bool              `json:"data,omitempty"` // embed the node's bytes as descriptor.data
	// Resolved: the descriptor passed to Tag is the one Resolve(<digest>)
	// returns (for plain blobs: media type application/octet-stream, not the
	// pushed one) — a legal and natural way to obtain a descriptor
	Resolved bool `json:"resolved,omitempty"`
	// Octet: the descriptor passed to Tag is hand-made with the generic media
	// type (what content.NewDescriptorFromBytes("", bytes) yields): used for
	// manifests, whose Resolve(<digest>) answer carries the manifest type
	Octet bool   `json:"octet,omitempty"`
	Err   string `json:"err,omitempty"` // outcome class, filled by the executor
}

func (o Op) String() string {
	switch o.Kind {
	case "push", "pushbad", "delete":
		return fmt.Sprintf("%s(%d)", o.Kind, o.Node)
	case "tag":
		x := ""
		if o.Resolved {
			x += ",via-resolve"
		}
		if o.Octet {
			x += ",as-octet-stream"
		}
		if len(o.Ann) > 0 {
			x += ",+ann"
		}
		if o.Platform != nil {
			x += ",+platform"
		}
		if o.ArtifactType != "" {
			x += ",+artifactType"
		}
		if len(o.URLs) > 0 {
			x += ",+urls"
		}
		if o.Data {
			x += ",+data"
		}
		return fmt.Sprintf("tag(%d,%q%s)", o.Node, o.Ref, x)
	case "untag":
		return fmt.Sprintf("untag(%q)", o.Ref)
	}
	return o.Kind
}

// noWriterTo hides bytes.Reader's WriteTo so that the store copies in chunks.
type noWriterTo struct{ io.Reader }

// Apply executes op on the store.
func Apply(ctx context.Context, s *oci.Store, nodes []Node, op Op) error {
	switch op.Kind {
	case "push":
		n := nodes[op.Node]
		return s.Push(ctx, n.Desc, noWriterTo{bytes.NewReader(n.Bytes)})
	case "pushbad":
		n := nodes[op.Node]
		bad := append([]byte{}, n.Bytes...)
		if len(bad) == 0 {
			bad = []byte{1}
		} else {
			bad[len(bad)/2] ^= 0x40
		}
		return s.Push(ctx, n.Desc, noWriterTo{bytes.NewReader(bad)})
	case "tag":
		d := nodes[op.Node].Desc
		if op.Resolved {
			r, err := s.Resolve(ctx, d.Digest.String())
			if err != nil {
				return err
			}
			d = r
		}
		if op.Octet {
			d.MediaType = "application/octet-stream"
		}
		if len(op.Ann) > 0 {
			d.Annotations = map[string]string{}
			for k, v := range op.Ann {
				d.Annotations[k] = v
			}
		}
		if op.Platform != nil {
			p := *op.Platform
			p.OSFeatures = append([]string{}, op.Platform.OSFeatures...)
			d.Platform = &p
		}
		d.ArtifactType = op.ArtifactType
		d.URLs = append([]string{}, op.URLs...)
		if op.Data {
			d.Data = append([]byte{}, nodes[op.Node].Bytes...)
		}
		return s.Tag(ctx, d, op.Ref)
	case "untag":
		return s.Untag(ctx, op.Ref)
	case "delete":
		return s.Delete(ctx, nodes[op.Node].Desc)
	case "gc":
		return s.GC(ctx)
	case "saveindex":
		return s.SaveIndex()
	}
	return fmt.Errorf("ocicheck: unknown op %q", op.Kind)
}

// ErrClass names an error by class (for histories and observations).
func ErrClass(err error) string {
	switch {
	case err == nil:
		return ""
	case errors.Is(err, errdef.ErrNotFound):
		return "notfound"
	case errors.Is(err, errdef.ErrAlreadyExists):
		return "exists"
	case errors.Is(err, errdef.ErrInvalidReference):
		return "invalidref"
	case errors.Is(err, errdef.ErrMissingReference):
		return "missingref"
	case errors.Is(err, errdef.ErrInvalidDigest):
		return "invaliddigest"
	case errors.Is(err, content.ErrMismatchedDigest), errors.Is(err, content.ErrInvalidDescriptorSize), errors.Is(err, content.ErrTrailingData):
		return "verify"
	}
	return "error"
}

// RefVocabulary is the pool reference names are drawn from.
var RefVocabulary = []string{
	"latest", "v1.0", "v2", "a/b:c", "ünï-cødé-タグ", "with space", `<t&g>"q"`, "UPPER_case.0", "-", "..", "0",
	"sha256:notadigest", strings.Repeat("long-", 60) + "name", "x\ty", "org.example/app@stable",
}

// OpGen draws operations for a store; it queries the store (public API) only
// to choose operands that make the operation meaningful.
type OpGen struct {
	Nodes      []Node
	Refs       []string // reference names of this history
	AutoSave   bool
	Pushed     map[int]bool // ever pushed
	TagCount   int
	Weights    map[string]int
	AllowBadOp bool // occasionally aim an operation at something absent
	NoResolved bool // never tag through Resolve(<digest>)
	NoOctet    bool // never tag a manifest through a hand-made octet-stream descriptor
	// Pinned reference names are never untagged or moved: a manifest that also
	// carries an octet-stream tag keeps one name recorded under its manifest type
	Pinned map[string]bool
	// everPresent: nodes seen stored at some point of the history; the ones
	// that are missing now were removed by Delete / AutoGC / GC
	everPresent map[int]bool
	pending     *Op // operation to emit next
}

// NewOpGen prepares a generator with k reference names.
func NewOpGen(rng *rand.Rand, nodes []Node, k int, autoSave bool) *OpGen {
	perm := rng.Perm(len(RefVocabulary))
	var refs []string
	for _, i := range perm[:k] {
		refs = append(refs, RefVocabulary[i])
	}
	return &OpGen{Nodes: nodes, Refs: refs, AutoSave: autoSave, Pushed: map[int]bool{}, AllowBadOp: true,
		Weights: map[string]int{"push": 30, "tag": 18, "retag": 10, "untag": 10, "delete": 12, "gc": 5, "saveindex": 3, "pushbad": 2}}
}

func (g *OpGen) present(ctx context.Context, s *oci.Store) (have, missing []int) {
	for _, n := range g.Nodes {
		if ok, err := s.Exists(ctx, n.Desc); err == nil && ok {
			have = append(have, n.ID)
		} else {
			missing = append(missing, n.ID)
		}
	}
	return
}

func (g *OpGen) tagged(ctx context.Context, s *oci.Store) (used, free []string) {
	for _, r := range g.Refs {
		if _, err := s.Resolve(ctx, r); err == nil {
			used = append(used, r)
		} else {
			free = append(free, r)
		}
	}
	return
}

func (g *OpGen) ann(rng *rand.Rand) map[string]string {
	switch rng.IntN(6) {
	case 0:
		return map[string]string{"org.test.tagged": fmt.Sprintf("t%d", g.TagCount)}
	case 1:
		return map[string]string{"org.test.tagged": "", "org.test.other": "β"}
	case 2: // a misleading reference-name annotation on the descriptor itself
		return map[string]string{ocispec.AnnotationRefName: "other-name", "org.test.k": "v"}
	case 3:
		return map[string]string{ocispec.AnnotationRefName: "only-refname"}
	}
	return nil
}

var tagPlatforms = []ocispec.Platform{
	{OS: "linux", Architecture: "amd64"},
	{OS: "linux", Architecture: "arm", Variant: "v7"},
	{OS: "windows", Architecture: "amd64", OSVersion: "10.0.17763.1234", OSFeatures: []string{"win32k"}},
	{OS: "linux", Architecture: "arm64", Variant: "v8", OSFeatures: []string{"f1", "f2"}},
}

// extras decorates a tag operation with further descriptor fields (platform,
// artifactType, urls, data), alone and combined; force makes at least one
// field set.
func (g *OpGen) extras(rng *rand.Rand, op *Op, force bool) {
	mask := 0
	switch x := rng.IntN(10); {
	case x < 4 && !force:
		return
	case x < 8:
		mask = 1 << rng.IntN(4) // one field alone
	default:
		mask = 1 + rng.IntN(15) // a combination
	}
	if mask&1 != 0 {
		p := tagPlatforms[rng.IntN(len(tagPlatforms))]
		op.Platform = &p
	}
	if mask&2 != 0 {
		op.ArtifactType = []string{"application/vnd.test.sig", "application/vnd.example+type", "text/plain"}[rng.IntN(3)]
	}
	if mask&4 != 0 {
		op.URLs = []string{"https://example.invalid/a?b=<c>&d", "https://mirror.invalid/x"}[:1+rng.IntN(2)]
	}
	if mask&8 != 0 {
		if len(g.Nodes[op.Node].Bytes) > 0 && len(g.Nodes[op.Node].Bytes) <= 1024 {
			op.Data = true
		} else if mask == 8 {
			op.ArtifactType = "application/vnd.test.nodata"
		}
	}
}

// viaResolve makes some tag operations use the descriptor obtained from
// Resolve(<digest>): always interesting for plain blobs (layers, configs),
// whose resolved media type differs from the pushed one.
func (g *OpGen) viaResolve(rng *rand.Rand, op *Op) {
	if g.NoResolved {
		return
	}
	if g.Nodes[op.Node].Manifest {
		op.Resolved = rng.IntN(6) == 0
	} else {
		op.Resolved = rng.IntN(2) == 0
	}
}

// Next draws the next operation.
func (g *OpGen) Next(ctx context.Context, rng *rand.Rand, s *oci.Store) Op {
	have, missing := g.present(ctx, s)
	if g.everPresent == nil {
		g.everPresent = map[int]bool{}
	}
	for _, id := range have {
		g.everPresent[id] = true
	}
	var removed []int // stored earlier in this history, gone now
	for _, id := range missing {
		if g.everPresent[id] || g.Pushed[id] {
			removed = append(removed, id)
		}
	}
	usedAll, free := g.tagged(ctx, s)
	var used []string // names that may be untagged or moved
	for _, r := range usedAll {
		if !g.Pinned[r] {
			used = append(used, r)
		}
	}
	if g.pending != nil {
		op := *g.pending
		g.pending = nil
		if ok, err := s.Exists(ctx, g.Nodes[op.Node].Desc); err == nil && ok && len(free) > 0 {
			op.Ref = free[0]
			return op
		}
	}
	for try := 0; try < 50; try++ {
		total := 0
		kinds := []string{"push", "tag", "retag", "untag", "delete", "gc", "saveindex", "pushbad"}
		for _, k := range kinds {
			total += g.Weights[k]
		}
		x := rng.IntN(total)
		kind := ""
		for _, k := range kinds {
			if x < g.Weights[k] {
				kind = k
				break
			}
			x -= g.Weights[k]
		}
		bad := g.AllowBadOp && rng.IntN(15) == 0
		switch kind {
		case "push":
			if len(missing) == 0 {
				if len(have) > 0 && rng.IntN(4) == 0 { // pushing what is there: already exists
					return Op{Kind: "push", Node: have[rng.IntN(len(have))]}
				}
				continue
			}
			id := missing[rng.IntN(len(missing))]
			if rng.IntN(3) > 0 { // prefer the lowest missing ids (children first) two times out of three
				id = missing[rng.IntN(1+len(missing)/3)]
			}
			g.Pushed[id] = true
			return Op{Kind: "push", Node: id}
		case "pushbad":
			if len(missing) == 0 {
				continue
			}
			return Op{Kind: "pushbad", Node: missing[rng.IntN(len(missing))]}
		case "tag":
			if len(removed) > 0 && rng.IntN(4) == 0 {
				// tag something that a Delete / AutoGC / GC removed earlier: must fail, nothing may change
				id := removed[rng.IntN(len(removed))]
				if g.Nodes[id].Manifest || rng.IntN(3) == 0 || len(removed) < 3 {
					ref := g.Refs[rng.IntN(len(g.Refs))]
					if g.Pinned[ref] && len(free) > 0 {
						ref = free[0]
					}
					if !g.Pinned[ref] {
						return Op{Kind: "tag", Node: id, Ref: ref, Ann: g.ann(rng)}
					}
				}
			}
			if bad && len(missing) > 0 {
				return Op{Kind: "tag", Node: missing[rng.IntN(len(missing))], Ref: g.Refs[rng.IntN(len(g.Refs))]}
			}
			if len(have) == 0 || len(free) == 0 {
				continue
			}
			g.TagCount++
			id := pickTagTarget(rng, g.Nodes, have)
			ref := free[rng.IntN(len(free))]
			if rng.IntN(25) == 0 {
				ref = g.Nodes[id].Desc.Digest.String() // tagging by the node's own digest
			}
			op := Op{Kind: "tag", Node: id, Ref: ref, Ann: g.ann(rng)}
			g.extras(rng, &op, false)
			g.viaResolve(rng, &op)
			if g.Nodes[id].Manifest && !g.NoOctet && ref != g.Nodes[id].Desc.Digest.String() && rng.IntN(4) == 0 {
				// a generic (octet-stream) descriptor on a manifest: only when the manifest
				// keeps a name recorded under its manifest type, which is pinned from now on
				for _, r := range usedAll {
					if cur, err := s.Resolve(ctx, r); err == nil && cur.Digest == g.Nodes[id].Desc.Digest && cur.MediaType == g.Nodes[id].Desc.MediaType {
						if g.Pinned == nil {
							g.Pinned = map[string]bool{}
						}
						g.Pinned[r] = true
						op.Octet, op.Resolved = true, false
						if rng.IntN(2) == 0 { // then a typed tag again: the typed entry becomes the by-digest one
							g.pending = &Op{Kind: "tag", Node: id}
						}
						break
					}
				}
			}
			return op
		case "retag":
			if len(have) == 0 || len(used) == 0 {
				continue
			}
			g.TagCount++
			ref := used[rng.IntN(len(used))]
			if rng.IntN(3) == 0 {
				// re-tag of the same content under the same name: only the
				// platform / artifactType / urls / data of the descriptor change
				if cur, err := s.Resolve(ctx, ref); err == nil {
					for _, n := range g.Nodes {
						if n.Desc.Digest == cur.Digest {
							op := Op{Kind: "tag", Node: n.ID, Ref: ref}
							for k, v := range cur.Annotations {
								if k != ocispec.AnnotationRefName {
									if op.Ann == nil {
										op.Ann = map[string]string{}
									}
									op.Ann[k] = v
								}
							}
							g.extras(rng, &op, true)
							return op
						}
					}
				}
			}
			op := Op{Kind: "tag", Node: pickTagTarget(rng, g.Nodes, have), Ref: ref, Ann: g.ann(rng)}
			g.extras(rng, &op, false)
			g.viaResolve(rng, &op)
			return op
		case "untag":
			if bad {
				if len(free) > 0 {
					return Op{Kind: "untag", Ref: free[rng.IntN(len(free))]}
				}
				if len(have) > 0 {
					return Op{Kind: "untag", Ref: g.Nodes[have[rng.IntN(len(have))]].Desc.Digest.String()}
				}
			}
			if len(used) == 0 {
				continue
			}
			return Op{Kind: "untag", Ref: used[rng.IntN(len(used))]}
		case "delete":
			if bad && len(missing) > 0 {
				return Op{Kind: "delete", Node: missing[rng.IntN(len(missing))]}
			}
			if len(have) == 0 {
				continue
			}
			return Op{Kind: "delete", Node: pickTagTarget(rng, g.Nodes, have)}
		case "gc":
			return Op{Kind: "gc"}
		case "saveindex":
			return Op{Kind: "saveindex"}
		}
	}
	return Op{Kind: "saveindex"}
}

// pickTagTarget prefers manifests (three times out of four) over plain blobs
// (also used for Delete: removing a manifest has the richer consequences).
func pickTagTarget(rng *rand.Rand, nodes []Node, have []int) int {
	var ms []int
	for _, id := range have {
		if nodes[id].Manifest {
			ms = append(ms, id)
		}
	}
	if len(ms) > 0 && rng.IntN(4) > 0 {
		return ms[rng.IntN(len(ms))]
	}
	return have[rng.IntN(len(have))]
}

// ---------------------------------------------------------------------------
// on-disk validity

// Problem is one way the directory fails to be a valid OCI image layout.
type Problem struct {
	Key  string `json:"key"`
	What string `json:"what"`
}

// Report is the result of Validate.
type Report struct {
	Problems []Problem `json:"problems,omitempty"`
	// UnnamedMissing lists index.json entries without a reference name whose
	// blob is missing or has another size (C08 does not demand these, C10 does).
	UnnamedMissing []string `json:"unnamed_missing,omitempty"`
	Entries        int      `json:"entries"`
	Named          int      `json:"named"`
	BlobFiles      int      `json:"blob_files"`
	OtherAlgDirs   int      `json:"other_alg_dirs,omitempty"`
	TempFiles      []string `json:"temp_files,omitempty"` // ingest files, index.json.tmp
	Index          *ocispec.Index
	Blobs          map[string]int64 // digest string -> size, of well-named blob files
}

func (r *Report) add(key, format string, a ...any) {
	r.Problems = append(r.Problems, Problem{Key: key, What: fmt.Sprintf(format, a...)})
}

func knownAlg(a string) bool {
	switch digest.Algorithm(a) {
	case digest.SHA256, digest.SHA384, digest.SHA512:
		return true
	}
	return false
}

// Validate checks the raw directory against the on-disk clauses of the
// property statements: oci-layout and index.json parse; every file under
// blobs/<alg>/ is named by the digest of its bytes; every index.json entry
// names an existing blob of the recorded size (reported separately for entries
// with and without a reference name).
func Validate(dir string) *Report {
	rep := &Report{Blobs: map[string]int64{}}
	// oci-layout
	if b, err := os.ReadFile(filepath.Join(dir, ocispec.ImageLayoutFile)); err != nil {
		rep.add("layout-file", "oci-layout: %v", err)
	} else {
		var l ocispec.ImageLayout
		if err := json.Unmarshal(b, &l); err != nil {
			rep.add("layout-file", "oci-layout does not parse: %v (%q)", err, trunc(b))
		} else if l.Version != ocispec.ImageLayoutVersion {
			rep.add("layout-file", "oci-layout version %q", l.Version)
		}
	}
	// blobs
	blobsDir := filepath.Join(dir, ocispec.ImageBlobsDir)
	algs, err := os.ReadDir(blobsDir)
	if err != nil {
		rep.add("blobs-dir", "blobs: %v", err)
	}
	for _, a := range algs {
		if !a.IsDir() {
			rep.add("blobs-dir", "blobs/%s is not a directory", a.Name())
			continue
		}
		if !knownAlg(a.Name()) {
			rep.OtherAlgDirs++
			continue
		}
		files, err := os.ReadDir(filepath.Join(blobsDir, a.Name()))
		if err != nil {
			rep.add("blobs-dir", "blobs/%s: %v", a.Name(), err)
			continue
		}
		for _, f := range files {
			p := filepath.Join(blobsDir, a.Name(), f.Name())
			rep.BlobFiles++
			info, err := os.Lstat(p)
			if err != nil || !info.Mode().IsRegular() {
				rep.add("blob-name-mismatch", "blobs/%s/%s is not a regular file", a.Name(), f.Name())
				continue
			}
			b, err := os.ReadFile(p)
			if err != nil {
				rep.add("blob-name-mismatch", "blobs/%s/%s unreadable: %v", a.Name(), f.Name(), err)
				continue
			}
			got := digest.Algorithm(a.Name()).FromBytes(b)
			if got.Encoded() != f.Name() {
				rep.add("blob-name-mismatch", "blobs/%s/%s holds %d bytes hashing to %s", a.Name(), short(f.Name()), len(b), short(got.String()))
				continue
			}
			rep.Blobs[got.String()] = int64(len(b))
		}
	}
	// temp files
	if fs, err := os.ReadDir(filepath.Join(dir, "ingest")); err == nil {
		for _, f := range fs {
			rep.TempFiles = append(rep.TempFiles, "ingest/"+f.Name())
		}
	}
	if _, err := os.Lstat(filepath.Join(dir, ocispec.ImageIndexFile+".tmp")); err == nil {
		rep.TempFiles = append(rep.TempFiles, ocispec.ImageIndexFile+".tmp")
	}
	// index.json
	b, err := os.ReadFile(filepath.Join(dir, ocispec.ImageIndexFile))
	if err != nil {
		rep.add("index-parse", "index.json: %v", err)
		return rep
	}
	var idx ocispec.Index
	if err := json.Unmarshal(b, &idx); err != nil {
		rep.add("index-parse", "index.json (%d bytes) does not parse: %v (%q)", len(b), err, trunc(b))
		return rep
	}
	if idx.SchemaVersion != 2 {
		rep.add("index-parse", "index.json schemaVersion %d", idx.SchemaVersion)
	}
	rep.Index = &idx
	for _, e := range idx.Manifests {
		rep.Entries++
		name := e.Annotations[ocispec.AnnotationRefName]
		if name != "" {
			rep.Named++
		}
		what := ""
		if err := e.Digest.Validate(); err != nil {
			what = fmt.Sprintf("entry with invalid digest %q", e.Digest)
		} else if size, ok := rep.Blobs[e.Digest.String()]; !ok {
			if _, err := os.Lstat(filepath.Join(blobsDir, e.Digest.Algorithm().String(), e.Digest.Encoded())); err != nil {
				what = fmt.Sprintf("entry %s (%s) names a blob that does not exist", short(e.Digest.String()), e.MediaType)
			} else {
				what = fmt.Sprintf("entry %s (%s) names a blob file that is not intact", short(e.Digest.String()), e.MediaType)
			}
		} else if size != e.Size {
			what = fmt.Sprintf("entry %s records size %d, blob has %d bytes", short(e.Digest.String()), e.Size, size)
		}
		if what == "" {
			continue
		}
		if name != "" {
			rep.add("named-entry-missing-blob", "index.json: reference %q: %s", name, what)
		} else {
			rep.UnnamedMissing = append(rep.UnnamedMissing, what)
		}
	}
	return rep
}

func trunc(b []byte) string {
	if len(b) > 80 {
		return string(b[:80]) + "…"
	}
	return string(b)
}

// ---------------------------------------------------------------------------
// observable state

// ReadStore is what both *oci.Store and *oci.ReadOnlyStore offer.
type ReadStore interface {
	content.ReadOnlyStorage
	content.Resolver
	content.PredecessorFinder
	Tags(ctx context.Context, last string, fn func(tags []string) error) error
}

// Obs is the observable state of a store over a fixed universe of nodes,
// references and digests.
type Obs struct {
	Tags    string            `json:"tags"`
	Refs    map[string]string `json:"refs"`
	Digests map[string]string `json:"digests"`
	Exists  map[string]string `json:"exists"`
	Fetch   map[string]string `json:"fetch"`
	Preds   map[string]string `json:"preds"`
}

// CanonDesc renders a descriptor with the reference-name annotation removed
// (the statement compares "up to the reference-name annotation").
func CanonDesc(d ocispec.Descriptor) string {
	if d.Annotations != nil {
		m := map[string]string{}
		for k, v := range d.Annotations {
			if k != ocispec.AnnotationRefName {
				m[k] = v
			}
		}
		if len(m) == 0 {
			m = nil
		}
		d.Annotations = m
	}
	if len(d.URLs) == 0 {
		d.URLs = nil
	}
	if len(d.Data) == 0 {
		d.Data = nil
	}
	b, _ := json.Marshal(d)
	return string(b)
}

func answer(d ocispec.Descriptor, err error) string {
	if err != nil {
		c := ErrClass(err)
		if c == "error" {
			return "error: " + err.Error()
		}
		return c
	}
	return CanonDesc(d)
}

// TagMap returns the reference-name → descriptor mapping of the store
// (listing by Tags, then Resolve of each name).
func TagMap(ctx context.Context, s ReadStore) (map[string]string, error) {
	var tags []string
	if err := s.Tags(ctx, "", func(t []string) error { tags = append(tags, t...); return nil }); err != nil {
		return nil, err
	}
	m := map[string]string{}
	for _, t := range tags {
		m[t] = answer(s.Resolve(ctx, t))
	}
	return m, nil
}

// Observe computes the observable state.
func Observe(ctx context.Context, s ReadStore, nodes []Node, refs []string, digests []string) *Obs {
	o := &Obs{Refs: map[string]string{}, Digests: map[string]string{}, Exists: map[string]string{}, Fetch: map[string]string{}, Preds: map[string]string{}}
	var tags []string
	if err := s.Tags(ctx, "", func(t []string) error { tags = append(tags, t...); return nil }); err != nil {
		o.Tags = "error: " + err.Error()
	} else {
		b, _ := json.Marshal(append([]string{}, tags...)) // nil and empty lists are the same answer
		o.Tags = string(b)
		if !sort.StringsAreSorted(tags) {
			o.Tags = "unsorted: " + o.Tags
		}
		for _, t := range tags { // listed names are part of the universe
			o.Refs[t] = answer(s.Resolve(ctx, t))
		}
	}
	for _, r := range refs {
		o.Refs[r] = answer(s.Resolve(ctx, r))
	}
	for _, d := range digests {
		o.Digests[d] = answer(s.Resolve(ctx, d))
	}
	for _, n := range nodes {
		id := fmt.Sprint(n.ID)
		ok, err := s.Exists(ctx, n.Desc)
		if err != nil {
			o.Exists[id] = "error: " + ErrClass(err)
		} else {
			o.Exists[id] = fmt.Sprint(ok)
		}
		rc, err := s.Fetch(ctx, n.Desc)
		if err != nil {
			o.Fetch[id] = ErrClass(err)
		} else {
			b, rerr := io.ReadAll(rc)
			rc.Close()
			h := sha256.Sum256(b)
			o.Fetch[id] = fmt.Sprintf("%d:%s", len(b), hex.EncodeToString(h[:8]))
			if rerr != nil {
				o.Fetch[id] += " readerr"
			}
		}
		ps, err := s.Predecessors(ctx, n.Desc)
		if err != nil {
			o.Preds[id] = "error: " + ErrClass(err)
		} else {
			var ks []string
			for _, p := range ps {
				ks = append(ks, PredKey(p))
			}
			sort.Strings(ks)
			o.Preds[id] = strings.Join(ks, " ")
		}
	}
	return o
}

// PredKey is how a predecessor is written in Obs.Preds (no spaces).
func PredKey(p ocispec.Descriptor) string {
	return strings.ReplaceAll(p.MediaType, " ", "_") + "|" + short(p.Digest.String()) + "|" + fmt.Sprint(p.Size)
}

// Difference is one field on which two observations disagree.
type Difference struct {
	Field string `json:"field"` // tags | resolve-ref | resolve-digest | exists | fetch | predecessors
	Item  string `json:"item"`
	A     string `json:"original"`
	B     string `json:"reopened"`
}

// Diff lists the differences between two observations.
func Diff(a, b *Obs) []Difference {
	var out []Difference
	if a.Tags != b.Tags {
		out = append(out, Difference{"tags", "", a.Tags, b.Tags})
	}
	cmp := func(field string, x, y map[string]string) {
		var keys []string
		for k := range x {
			keys = append(keys, k)
		}
		for k := range y {
			if _, ok := x[k]; !ok {
				keys = append(keys, k)
			}
		}
		sort.Strings(keys)
		for _, k := range keys {
			if x[k] != y[k] {
				out = append(out, Difference{field, k, x[k], y[k]})
			}
		}
	}
	cmp("resolve-ref", a.Refs, b.Refs)
	cmp("resolve-digest", a.Digests, b.Digests)
	cmp("exists", a.Exists, b.Exists)
	cmp("fetch", a.Fetch, b.Fetch)
	cmp("predecessors", a.Preds, b.Preds)
	return out
}

// Items returns the number of compared answers.
func (o *Obs) Items() int {
	return 1 + len(o.Refs) + len(o.Digests) + len(o.Exists) + len(o.Fetch) + len(o.Preds)
}

// ---------------------------------------------------------------------------
// reopening

// ReopenPaths are the ways a layout directory is opened again: read-write,
// read-only through an fs.FS, from a tar written by archive/tar, from a tar
// written by the system tar.
var ReopenPaths = []string{"rw", "fs", "gotar", "systar"}

// FirstUseCancelled makes the first graph-using call of a freshly opened store
// a Predecessors with an already-cancelled context; the result is ignored. A
// store must not be damaged for the rest of its life by a failed first use.
func FirstUseCancelled(s content.PredecessorFinder) {
	c, cancel := context.WithCancel(context.Background())
	cancel()
	probe := []byte("first use")
	s.Predecessors(c, ocispec.Descriptor{MediaType: "application/octet-stream", Digest: digest.FromBytes(probe), Size: int64(len(probe))})
}

// Reopen opens dir again. scratch is a directory for tar files; cleanup
// removes them (the tar must stay while the store is in use). The first
// graph-using call on the returned store has been made with a cancelled context.
func Reopen(ctx context.Context, dir, how, scratch string) (ReadStore, func(), error) {
	s, cleanup, err := reopen(ctx, dir, how, scratch)
	if err == nil {
		FirstUseCancelled(s)
	}
	return s, cleanup, err
}

func reopen(ctx context.Context, dir, how, scratch string) (ReadStore, func(), error) {
	nop := func() {}
	switch how {
	case "rw":
		s, err := oci.New(dir)
		if err != nil {
			return nil, nop, err
		}
		return s, nop, nil
	case "fs":
		s, err := oci.NewFromFS(ctx, os.DirFS(dir))
		if err != nil {
			return nil, nop, err
		}
		return s, nop, nil
	case "gotar":
		f, err := os.CreateTemp(scratch, "go-*.tar")
		if err != nil {
			return nil, nop, err
		}
		p := f.Name()
		f.Close()
		rm := func() { os.Remove(p) }
		if err := WriteTar(dir, p); err != nil {
			rm()
			return nil, nop, fmt.Errorf("harness: writing tar: %w", err)
		}
		s, err := oci.NewFromTar(ctx, p)
		if err != nil {
			rm()
			return nil, nop, err
		}
		return s, rm, nil
	case "systar":
		f, err := os.CreateTemp(scratch, "sys-*.tar")
		if err != nil {
			return nil, nop, err
		}
		p := f.Name()
		f.Close()
		rm := func() { os.Remove(p) }
		if out, err := exec.Command("tar", "-cf", p, "-C", dir, ".").CombinedOutput(); err != nil {
			rm()
			return nil, nop, fmt.Errorf("harness: tar: %v: %s", err, out)
		}
		s, err := oci.NewFromTar(ctx, p)
		if err != nil {
			rm()
			return nil, nop, err
		}
		return s, rm, nil
	}
	return nil, nop, fmt.Errorf("harness: unknown reopen path %q", how)
}

// WriteTar writes dir as a tar archive with archive/tar.
func WriteTar(dir, tarPath string) error {
	f, err := os.Create(tarPath)
	if err != nil {
		return err
	}
	defer f.Close()
	tw := tar.NewWriter(f)
	err = filepath.WalkDir(dir, func(p string, d fs.DirEntry, err error) error {
		if err != nil {
			return err
		}
		rel, _ := filepath.Rel(dir, p)
		if rel == "." {
			return nil
		}
		info, err := d.Info()
		if err != nil {
			return err
		}
		hdr, err := tar.FileInfoHeader(info, "")
		if err != nil {
			return err
		}
		hdr.Name = filepath.ToSlash(rel)
		if d.IsDir() {
			hdr.Name += "/"
		}
		if err := tw.WriteHeader(hdr); err != nil {
			return err
		}
		if info.Mode().IsRegular() {
			b, err := os.ReadFile(p)
			if err != nil {
				return err
			}
			if _, err := tw.Write(b); err != nil {
				return err
			}
		}
		return nil
	})
	if err != nil {
		return err
	}
	return tw.Close()
}

// ---------------------------------------------------------------------------
// directories

// CopyDir copies a directory tree (regular files and directories, modes kept).
func CopyDir(src, dst string) error {
	return filepath.WalkDir(src, func(p string, d fs.DirEntry, err error) error {
		if err != nil {
			return err
		}
		rel, _ := filepath.Rel(src, p)
		target := filepath.Join(dst, rel)
		info, err := d.Info()
		if err != nil {
			return err
		}
		if d.IsDir() {
			return os.MkdirAll(target, info.Mode().Perm()|0o700)
		}
		if !info.Mode().IsRegular() {
			return nil
		}
		b, err := os.ReadFile(p)
		if err != nil {
			return err
		}
		if err := os.WriteFile(target, b, 0o600); err != nil {
			return err
		}
		return os.Chmod(target, info.Mode().Perm())
	})
}

// StateHash summarises the raw directory (file names with the random ingest
// suffix removed, sizes, and the index.json entries order-independently).
func StateHash(dir string) string {
	var items []string
	filepath.WalkDir(dir, func(p string, d fs.DirEntry, err error) error {
		if err != nil || d.IsDir() {
			return nil
		}
		rel, _ := filepath.Rel(dir, p)
		info, err := d.Info()
		if err != nil {
			return nil
		}
		if strings.HasPrefix(rel, "ingest/") {
			if i := strings.LastIndex(rel, "_"); i > 0 {
				rel = rel[:i]
			}
		}
		if rel == ocispec.ImageIndexFile || rel == ocispec.ImageIndexFile+".tmp" {
			b, _ := os.ReadFile(p)
			var idx ocispec.Index
			if json.Unmarshal(b, &idx) == nil {
				var es []string
				for _, e := range idx.Manifests {
					eb, _ := json.Marshal(e)
					es = append(es, string(eb))
				}
				sort.Strings(es)
				items = append(items, rel+"="+strings.Join(es, ","))
				return nil
			}
			items = append(items, fmt.Sprintf("%s=unparsable(%d)", rel, len(b)))
			return nil
		}
		items = append(items, fmt.Sprintf("%s:%d", rel, info.Size()))
		return nil
	})
	sort.Strings(items)
	h := sha256.Sum256([]byte(strings.Join(items, "\n")))
	return hex.EncodeToString(h[:8])
}

// ---------------------------------------------------------------------------
// archives refreshed in place

// TarTracker keeps two archives of a layout directory that were made earlier
// in the history and are later UPDATED by appending the changed and new files:
// one written by the system tar and updated with `tar -r`, one written by
// archive/tar and updated by archive/tar in append mode. In a tar archive the
// last entry of a name wins, so a store opened from the updated archive must
// observe what the directory holds. Appending cannot express removals: when a
// file of the archived snapshot has disappeared the archives are made afresh.
type TarTracker struct {
	Scratch string
	SysTar  string
	GoTar   string
	snap    map[string]string
	// Updates counts how often the current archives were updated in place
	// (0: freshly made, identical to the plain tar reopen paths).
	Updates int
}

func hashTree(dir string) (map[string]string, error) {
	out := map[string]string{}
	err := filepath.WalkDir(dir, func(p string, d fs.DirEntry, err error) error {
		if err != nil {
			return err
		}
		if !d.Type().IsRegular() {
			return nil
		}
		b, err := os.ReadFile(p)
		if err != nil {
			return err
		}
		rel, _ := filepath.Rel(dir, p)
		h := sha256.Sum256(b)
		out[filepath.ToSlash(rel)] = hex.EncodeToString(h[:])
		return nil
	})
	return out, err
}

// Refresh brings the archives up to date with dir: made afresh (Updates = 0)
// or updated by appending (Updates++). It reports whether anything was appended.
func (t *TarTracker) Refresh(dir string) (bool, error) {
	cur, err := hashTree(dir)
	if err != nil {
		return false, fmt.Errorf("harness: %w", err)
	}
	fresh := t.snap == nil
	for f := range t.snap {
		if _, ok := cur[f]; !ok {
			fresh = true
		}
	}
	if fresh {
		if t.SysTar == "" {
			t.SysTar = filepath.Join(t.Scratch, "tracked-sys.tar")
			t.GoTar = filepath.Join(t.Scratch, "tracked-go.tar")
		}
		os.Remove(t.SysTar)
		os.Remove(t.GoTar)
		if out, err := exec.Command("tar", "-cf", t.SysTar, "-C", dir, ".").CombinedOutput(); err != nil {
			return false, fmt.Errorf("harness: tar -c: %v: %s", err, out)
		}
		if err := WriteTar(dir, t.GoTar); err != nil {
			return false, fmt.Errorf("harness: %w", err)
		}
		t.snap, t.Updates = cur, 0
		return false, nil
	}
	var changed []string
	for f, h := range cur {
		if t.snap[f] != h {
			changed = append(changed, f)
		}
	}
	if len(changed) == 0 {
		return false, nil
	}
	sort.Strings(changed)
	args := []string{"-rf", t.SysTar, "-C", dir}
	for _, f := range changed {
		args = append(args, "./"+f)
	}
	if out, err := exec.Command("tar", args...).CombinedOutput(); err != nil {
		return false, fmt.Errorf("harness: tar -r: %v: %s", err, out)
	}
	if err := appendGoTar(t.GoTar, dir, changed); err != nil {
		return false, fmt.Errorf("harness: append to tar: %w", err)
	}
	t.snap = cur
	t.Updates++
	return true, nil
}

// appendGoTar appends files to an archive written by archive/tar: the
// 1024-byte end-of-archive trailer is cut off and new entries are written after
// the existing ones.
func appendGoTar(tarPath, dir string, files []string) error {
	f, err := os.OpenFile(tarPath, os.O_RDWR, 0)
	if err != nil {
		return err
	}
	defer f.Close()
	st, err := f.Stat()
	if err != nil {
		return err
	}
	if st.Size() < 1024 {
		return fmt.Errorf("archive too short")
	}
	trailer := make([]byte, 1024)
	if _, err := f.ReadAt(trailer, st.Size()-1024); err != nil {
		return err
	}
	for _, b := range trailer {
		if b != 0 {
			return fmt.Errorf("archive does not end with the two zero blocks")
		}
	}
	if _, err := f.Seek(st.Size()-1024, io.SeekStart); err != nil {
		return err
	}
	tw := tar.NewWriter(f)
	for _, rel := range files {
		p := filepath.Join(dir, filepath.FromSlash(rel))
		info, err := os.Stat(p)
		if err != nil {
			return err
		}
		hdr, err := tar.FileInfoHeader(info, "")
		if err != nil {
			return err
		}
		hdr.Name = rel
		b, err := os.ReadFile(p)
		if err != nil {
			return err
		}
		hdr.Size = int64(len(b))
		if err := tw.WriteHeader(hdr); err != nil {
			return err
		}
		if _, err := tw.Write(b); err != nil {
			return err
		}
	}
	return tw.Close()
}

// OpenTar opens a store from an archive (the archive must stay in place).
func OpenTar(ctx context.Context, path string) (ReadStore, error) {
	s, err := oci.NewFromTar(ctx, path)
	if err != nil {
		return nil, err
	}
	FirstUseCancelled(s)
	return s, nil
}
