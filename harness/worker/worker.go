// Package worker implements the child-process-per-batch protocol of DESIGN.md
// §2.2: the check's main re-executes itself as worker processes; each worker
// journals the case it is about to run before running it and emits one JSON
// result per case. A worker that panics, spins or hangs makes the journalled
// case the witness instead of taking the monitor down.
package worker

import (
	"bufio"
	"bytes"
	"encoding/json"
	"flag"
	"fmt"
	"os"
	"os/exec"
	"path/filepath"
	"runtime"
	"strings"
	"sync"
	"syscall"
	"time"

	"oras.land/oras-go/v2/verifharness/evidence"
)

// Viol is a violation found by a worker.
type Viol struct {
	Key     string `json:"key"`
	What    string `json:"what"`
	Witness any    `json:"witness,omitempty"`
}

// Result is what a worker reports for one case.
type Result struct {
	I      int                 `json:"i"`
	Key    string              `json:"k,omitempty"`  // structural key of the case (distinctness)
	NT     bool                `json:"nt,omitempty"` // non-trivial by the check's rule
	Viol   []Viol              `json:"v,omitempty"`
	Cnt    map[string]int64    `json:"c,omitempty"`  // counters to add
	Max    map[string]int64    `json:"m,omitempty"`  // gauges to max
	Obs    map[string]string   `json:"o,omitempty"`  // name -> member to observe (distinct sets)
	ObsN   map[string][]string `json:"on,omitempty"` // name -> members
	Sample any                 `json:"s,omitempty"`
	Inconc string              `json:"inc,omitempty"`
	Evals  int                 `json:"e,omitempty"` // evaluations represented by this case (default 1)
	// DK holds additional distinct keys (key -> non-trivial) when one case
	// index stands for several evaluations.
	DK map[string]bool `json:"dk,omitempty"`
	// Restart asks for a fresh worker process after this case (e.g. the case
	// left goroutines behind); the worker exits with status 77 after
	// journalling the result and the supervisor carries on with the next case.
	Restart bool `json:"restart,omitempty"`
}

// Violate appends a violation to the result.
func (r *Result) Violate(key, what string, witness any) {
	r.Viol = append(r.Viol, Viol{Key: key, What: what, Witness: witness})
}

// Count adds to a counter.
func (r *Result) Count(name string, n int64) {
	if r.Cnt == nil {
		r.Cnt = map[string]int64{}
	}
	r.Cnt[name] += n
}

// MaxOf records a gauge maximum.
func (r *Result) MaxOf(name string, n int64) {
	if r.Max == nil {
		r.Max = map[string]int64{}
	}
	if cur, ok := r.Max[name]; !ok || n > cur {
		r.Max[name] = n
	}
}

// Observe records a member of a named distinct set.
func (r *Result) Observe(name, member string) {
	if r.ObsN == nil {
		r.ObsN = map[string][]string{}
	}
	r.ObsN[name] = append(r.ObsN[name], member)
}

var (
	flagWorker  = flag.Bool("worker", false, "run as worker")
	flagFrom    = flag.Int("from", 0, "first case")
	flagTo      = flag.Int("to", 0, "one past last case")
	flagJournal = flag.String("journal", "", "journal file")
	flagPhase   = flag.String("phase", "", "phase name")
)

// IsWorker parses flags and reports whether this process is a worker.
func IsWorker() bool {
	if !flag.Parsed() {
		flag.Parse()
	}
	return *flagWorker
}

// Phase returns the phase name passed to this worker.
func Phase() string { return *flagPhase }

// Serve runs cases [from,to) in this worker process.
func Serve(run func(phase string, i int) Result) {
	f, err := os.OpenFile(*flagJournal, os.O_WRONLY|os.O_CREATE|os.O_APPEND, 0o644)
	if err != nil {
		fmt.Fprintln(os.Stderr, "worker: journal:", err)
		os.Exit(3)
	}
	for i := *flagFrom; i < *flagTo; i++ {
		fmt.Fprintf(f, "S %d %d\n", i, selfCPU())
		res := run(*flagPhase, i)
		res.I = i
		b, err := json.Marshal(res)
		if err != nil {
			b, _ = json.Marshal(Result{I: i, Viol: []Viol{{Key: "harness:marshal", What: err.Error()}}})
		}
		f.Write(append(append([]byte("R "), b...), '\n'))
		if res.Restart && i+1 < *flagTo {
			f.Close()
			os.Exit(77)
		}
	}
	f.Close()
	os.Exit(0)
}

// Death describes a worker that did not finish a case.
type Death struct {
	Phase    string
	Case     int
	TimedOut bool
	CPU      time.Duration
	Wall     time.Duration
	ExitErr  string
	Stderr   string // tail of stderr (panic message / goroutine dump)
}

// Opts configures a supervised phase.
type Opts struct {
	Phase    string
	Total    int           // number of cases
	Batch    int           // cases per worker process
	Parallel int           // worker processes at once (default: NumCPU)
	Timeout  time.Duration // wall-clock watchdog per batch (generous; firing alone is inconclusive)
	Bin      string        // binary to run (default: this executable)
	Env      []string      // extra environment
	// OnDeath classifies a worker death. Returning a non-empty key reports a
	// violation with that key; returning inconclusive=true counts it as
	// inconclusive. Default: panic/fatal => violation "crash", timeout with CPU
	// use above 70% of wall => violation "spin", other timeouts inconclusive.
	OnDeath func(d Death) (key, what string, inconclusive bool)
	// OnResult is called for every result (after the standard accounting).
	OnResult func(res Result)
}

// DefaultOnDeath is the default classification of worker deaths.
func DefaultOnDeath(d Death) (string, string, bool) {
	if d.TimedOut {
		if d.Wall > 0 && d.CPU > d.Wall*7/10 {
			return "spin", fmt.Sprintf("case %d consumed %.1fs CPU in %.1fs without finishing", d.Case, d.CPU.Seconds(), d.Wall.Seconds()), false
		}
		return "", fmt.Sprintf("phase %s case %d: watchdog fired (cpu %.1fs of %.1fs wall)", d.Phase, d.Case, d.CPU.Seconds(), d.Wall.Seconds()), true
	}
	line := firstPanicLine(d.Stderr)
	return "crash", fmt.Sprintf("worker died on case %d: %s %s", d.Case, d.ExitErr, line), false
}

func firstPanicLine(s string) string {
	for _, l := range strings.Split(s, "\n") {
		if strings.HasPrefix(l, "panic:") || strings.HasPrefix(l, "fatal error:") {
			return l
		}
	}
	return ""
}

// Run supervises one phase and feeds the run's evidence. It returns the
// results in case order (missing entries for cases whose worker died).
func Run(r *evidence.Run, o Opts) {
	if o.Parallel <= 0 {
		o.Parallel = runtime.NumCPU()
	}
	if o.Batch <= 0 {
		o.Batch = 50
	}
	if o.Timeout <= 0 {
		o.Timeout = 10 * time.Minute
	}
	if o.Bin == "" {
		exe, err := os.Executable()
		if err != nil {
			fmt.Println("BROKEN: os.Executable:", err)
			os.Exit(2)
		}
		o.Bin = exe
	}
	if o.OnDeath == nil {
		o.OnDeath = DefaultOnDeath
	}
	dir, err := os.MkdirTemp("", "verif-"+r.Prop+"-")
	if err != nil {
		fmt.Println("BROKEN: mkdtemp:", err)
		os.Exit(2)
	}
	defer os.RemoveAll(dir)
	// workers create their scratch under the supervisor's directory, so that whatever a killed
	// or crashed worker leaves behind goes away with it
	if wtmp := filepath.Join(dir, "tmp"); os.Mkdir(wtmp, 0o700) == nil {
		o.Env = append(append([]string{}, o.Env...), "TMPDIR="+wtmp)
	}

	type span struct{ from, to int }
	spans := make(chan span, o.Total/o.Batch+2)
	for a := 0; a < o.Total; a += o.Batch {
		b := a + o.Batch
		if b > o.Total {
			b = o.Total
		}
		spans <- span{a, b}
	}
	close(spans)

	var mu sync.Mutex // serialises accounting
	account := func(res Result) {
		mu.Lock()
		defer mu.Unlock()
		n := res.Evals
		if n <= 0 {
			n = 1
		}
		r.Eval(n)
		if res.Key != "" {
			r.Distinct(o.Phase+"/"+res.Key, res.NT)
		}
		for k, nt := range res.DK {
			r.Distinct(o.Phase+"/"+k, nt)
		}
		for _, v := range res.Viol {
			r.Violation(v.Key, v.What, map[string]any{"phase": o.Phase, "case": res.I, "detail": v.Witness})
		}
		for k, n := range res.Cnt {
			r.Add(k, n)
		}
		for k, n := range res.Max {
			r.Max(k, n)
		}
		for k, m := range res.Obs {
			r.Observe(k, m)
		}
		for k, ms := range res.ObsN {
			for _, m := range ms {
				r.Observe(k, m)
			}
		}
		if res.Sample != nil {
			r.Sample(res.Sample)
		}
		if res.Inconc != "" {
			r.Inconclusive(res.Inconc)
		}
		if o.OnResult != nil {
			o.OnResult(res)
		}
	}

	var wg sync.WaitGroup
	for w := 0; w < o.Parallel; w++ {
		wg.Add(1)
		go func(w int) {
			defer wg.Done()
			for sp := range spans {
				from := sp.from
				for from < sp.to {
					journal := filepath.Join(dir, fmt.Sprintf("j-%s-%d-%d", o.Phase, w, from))
					os.Remove(journal)
					d, died := runOne(o, from, sp.to, journal)
					last := from - 1
					started := -1
					if f, err := os.Open(journal); err == nil {
						sc := bufio.NewScanner(f)
						sc.Buffer(make([]byte, 1<<20), 1<<28)
						for sc.Scan() {
							line := sc.Bytes()
							if len(line) < 2 {
								continue
							}
							switch line[0] {
							case 'S':
								fmt.Sscanf(string(line[2:]), "%d", &started)
							case 'R':
								var res Result
								if err := json.Unmarshal(line[2:], &res); err == nil {
									account(res)
									last = res.I
								}
							}
						}
						f.Close()
						os.Remove(journal)
					}
					if !died {
						if last < sp.to-1 {
							// exited 0 without finishing: harness problem
							mu.Lock()
							r.Violation("harness:short-batch", fmt.Sprintf("worker exited cleanly after case %d of [%d,%d)", last, from, sp.to), nil)
							mu.Unlock()
						}
						break
					}
					if strings.Contains(d.ExitErr, "exit status 77") && !d.TimedOut && last >= started {
						// the worker asked for a fresh process after case `last`
						from = last + 1
						continue
					}
					// the worker died on case `started` (journalled, no result)
					victim := started
					if victim <= last {
						victim = last + 1
					}
					d.Case = victim
					d.Phase = o.Phase
					key, what, inconc := o.OnDeath(d)
					mu.Lock()
					r.Eval(1)
					if key != "" {
						r.Violation(key, what, map[string]any{"phase": o.Phase, "case": victim, "exit": d.ExitErr, "timed_out": d.TimedOut,
							"cpu_s": d.CPU.Seconds(), "wall_s": d.Wall.Seconds(), "stderr_tail": tail(d.Stderr, 6000)})
					} else if inconc {
						r.Inconclusive(what)
					}
					mu.Unlock()
					from = victim + 1
				}
			}
		}(w)
	}
	wg.Wait()
}

func tail(s string, n int) string {
	if len(s) <= n {
		return s
	}
	return s[len(s)-n:]
}

func runOne(o Opts, from, to int, journal string) (Death, bool) {
	args := []string{"--worker", "--phase", o.Phase, "--from", fmt.Sprint(from), "--to", fmt.Sprint(to), "--journal", journal}
	cmd := exec.Command(o.Bin, args...)
	cmd.Env = append(os.Environ(), o.Env...)
	var stderr bytes.Buffer
	cmd.Stderr = &limitedWriter{buf: &stderr, max: 4 << 20}
	cmd.Stdout = cmd.Stderr
	cmd.SysProcAttr = &syscall.SysProcAttr{Setpgid: true}
	start := time.Now()
	if err := cmd.Start(); err != nil {
		return Death{ExitErr: "start: " + err.Error()}, true
	}
	done := make(chan error, 1)
	go func() { done <- cmd.Wait() }()
	var err error
	timedOut := false
	// The watchdog is per case, not per batch: it restarts whenever the worker's journal grows
	// (a case started or finished), so a batch that is slow but progressing never times out and
	// a case that is stuck gets the whole allowance.
	lastProgress := time.Now()
	lastSize := int64(-1)
	tick := time.NewTicker(time.Second)
	defer tick.Stop()
wait:
	for {
		select {
		case err = <-done:
			break wait
		case <-tick.C:
			if fi, serr := os.Stat(journal); serr == nil && fi.Size() != lastSize {
				lastSize = fi.Size()
				lastProgress = time.Now()
			}
			if time.Since(lastProgress) < o.Timeout {
				continue
			}
			timedOut = true
			// goroutine dump first, then kill the whole group
			_ = cmd.Process.Signal(syscall.SIGQUIT)
			select {
			case err = <-done:
			case <-time.After(10 * time.Second):
				_ = syscall.Kill(-cmd.Process.Pid, syscall.SIGKILL)
				err = <-done
			}
			break wait
		}
	}
	if err == nil && !timedOut {
		return Death{}, false
	}
	d := Death{TimedOut: timedOut, Wall: time.Since(start), Stderr: stderr.String()}
	if err != nil {
		d.ExitErr = err.Error()
	}
	if ps := cmd.ProcessState; ps != nil {
		d.CPU = ps.UserTime() + ps.SystemTime()
	}
	if timedOut {
		// CPU and wall of the case that did not finish (the journal records the process CPU at its start)
		d.Wall = time.Since(lastProgress)
		if b, rerr := os.ReadFile(journal); rerr == nil {
			lines := strings.Split(strings.TrimSpace(string(b)), "\n")
			for j := len(lines) - 1; j >= 0; j-- {
				if strings.HasPrefix(lines[j], "S ") {
					var c int
					var cpu0 int64
					if n, _ := fmt.Sscanf(lines[j][2:], "%d %d", &c, &cpu0); n == 2 && time.Duration(cpu0) <= d.CPU {
						d.CPU -= time.Duration(cpu0)
					}
					break
				}
			}
		}
	}
	return d, true
}

// selfCPU is the CPU time (user+system) this process has used so far, in nanoseconds.
func selfCPU() int64 {
	var ru syscall.Rusage
	if err := syscall.Getrusage(syscall.RUSAGE_SELF, &ru); err != nil {
		return 0
	}
	return ru.Utime.Nano() + ru.Stime.Nano()
}

type limitedWriter struct {
	mu  sync.Mutex
	buf *bytes.Buffer
	max int
}

func (l *limitedWriter) Write(p []byte) (int, error) {
	l.mu.Lock()
	defer l.mu.Unlock()
	if l.buf.Len()+len(p) > l.max {
		// keep the tail: drop the first half
		b := l.buf.Bytes()
		half := append([]byte{}, b[len(b)/2:]...)
		l.buf.Reset()
		l.buf.Write(half)
	}
	l.buf.Write(p)
	return len(p), nil
}
