// Package gen holds the seeded generators shared by the checks. The DAG
// generator keeps its own edge list as ground truth: oracles never ask the
// library for successors.
package gen

import (
	"context"
	"encoding/json"
	"fmt"
	"io"
	"math/rand/v2"
	"sort"
	"strings"

	"github.com/opencontainers/go-digest"
	ocispec "github.com/opencontainers/image-spec/specs-go/v1"
	"oras.land/oras-go/v2/content"
)

// Media types (spelled out here so that the generator does not depend on the
// library's own tables).
const (
	MTDockerManifest     = "application/vnd.docker.distribution.manifest.v2+json"
	MTDockerManifestList = "application/vnd.docker.distribution.manifest.list.v2+json"
	MTDockerForeignLayer = "application/vnd.docker.image.rootfs.foreign.diff.tar.gzip"
	MTDockerConfig       = "application/vnd.docker.container.image.v1+json"
	MTDockerLayer        = "application/vnd.docker.image.rootfs.diff.tar.gzip"
	MTOCIManifest        = "application/vnd.oci.image.manifest.v1+json"
	MTOCIIndex           = "application/vnd.oci.image.index.v1+json"
	MTOCIConfig          = "application/vnd.oci.image.config.v1+json"
	MTOCILayer           = "application/vnd.oci.image.layer.v1.tar"
	MTOCILayerGzip       = "application/vnd.oci.image.layer.v1.tar+gzip"
	MTOCIForeign         = "application/vnd.oci.image.layer.nondistributable.v1.tar"
	MTOCIForeignGzip     = "application/vnd.oci.image.layer.nondistributable.v1.tar+gzip"
	MTOCIEmpty           = "application/vnd.oci.empty.v1+json"
	MTArtifactManifest   = "application/vnd.oci.artifact.manifest.v1+json"
	MTOctet              = "application/octet-stream"
	MTTree               = "application/vnd.verif.tree.v1+json"
)

// TreeDoc is the content of a Tree node.
type TreeDoc struct {
	Children []ocispec.Descriptor `json:"children"`
	Salt     uint64               `json:"salt"`
}

// TreeSuccessors is a FindSuccessors function that follows Tree nodes (read
// through the given fetcher) and defers to content.Successors otherwise.
func TreeSuccessors(ctx context.Context, fetcher content.Fetcher, desc ocispec.Descriptor) ([]ocispec.Descriptor, error) {
	if desc.MediaType != MTTree {
		return content.Successors(ctx, fetcher, desc)
	}
	b, err := content.FetchAll(ctx, fetcher, desc)
	if err != nil {
		return nil, err
	}
	var doc TreeDoc
	if err := json.Unmarshal(b, &doc); err != nil {
		return nil, err
	}
	return doc.Children, nil
}

// StreamTreeSuccessors is TreeSuccessors with a streaming decoder: it stops reading at the end of the
// JSON value (no read ever returns EOF) and closes the reader.
func StreamTreeSuccessors(ctx context.Context, fetcher content.Fetcher, desc ocispec.Descriptor) ([]ocispec.Descriptor, error) {
	if desc.MediaType != MTTree {
		return content.Successors(ctx, fetcher, desc)
	}
	rc, err := fetcher.Fetch(ctx, desc)
	if err != nil {
		return nil, err
	}
	var doc TreeDoc
	derr := json.NewDecoder(io.LimitReader(rc, desc.Size)).Decode(&doc)
	cerr := rc.Close()
	if derr != nil {
		return nil, derr
	}
	if cerr != nil {
		return nil, cerr
	}
	return doc.Children, nil
}

// HasTrees reports whether the DAG has Tree nodes.
func (g *DAG) HasTrees() bool {
	for _, n := range g.Nodes {
		if n.Kind == Tree {
			return true
		}
	}
	return false
}

// Kind classifies a node.
type Kind int

const (
	Blob Kind = iota
	Config
	Manifest       // OCI image manifest
	DockerManifest // Docker v2 schema 2
	Index          // OCI image index
	DockerList     // Docker manifest list
	Artifact       // ORAS artifact manifest
	Tree           // interior node of a media type no store knows: only a custom FindSuccessors follows its links
)

func (k Kind) String() string {
	return [...]string{"blob", "config", "manifest", "dockermanifest", "index", "dockerlist", "artifact", "tree"}[k]
}

// IsManifestKind reports whether nodes of kind k have successors to decode.
func (k Kind) IsManifestKind() bool { return k >= Manifest && k != Tree }

// Node is one node of a generated DAG.
type Node struct {
	ID    int
	Kind  Kind
	Desc  ocispec.Descriptor // plain descriptor: media type, digest, size
	Bytes []byte
	// Succ lists the successors in document order (duplicates possible);
	// foreign layers are not included.
	Succ    []int
	Foreign []ocispec.Descriptor
	Subject int // node id or -1
	// manifest-level fields (manifest kinds only)
	ArtifactType    string // the artifactType field as written (may be empty)
	ConfigMediaType string
	Annotations     map[string]string
	// Platform, when the node is an image manifest with an image config.
	Platform *ocispec.Platform
	// AbsentSubject is set when the manifest names a subject that is not a
	// node of the DAG (never stored anywhere).
	AbsentSubject *ocispec.Descriptor
	sha512        bool
}

// DAG is a generated Merkle DAG with ground-truth edges.
type DAG struct {
	Nodes []*Node
	byKey map[string]int
}

// Key returns the identity (mediaType, digest, size) of a descriptor.
func Key(d ocispec.Descriptor) string {
	return d.MediaType + "|" + d.Digest.String() + "|" + fmt.Sprint(d.Size)
}

// Plain strips a descriptor to media type, digest and size.
func Plain(d ocispec.Descriptor) ocispec.Descriptor {
	return ocispec.Descriptor{MediaType: d.MediaType, Digest: d.Digest, Size: d.Size}
}

// Lookup finds the node with the descriptor's identity.
func (g *DAG) Lookup(d ocispec.Descriptor) (int, bool) {
	i, ok := g.byKey[Key(d)]
	return i, ok
}

// SuccSet returns the distinct successors of n, ascending.
func (g *DAG) SuccSet(n int) []int {
	seen := map[int]bool{}
	var out []int
	for _, s := range g.Nodes[n].Succ {
		if !seen[s] {
			seen[s] = true
			out = append(out, s)
		}
	}
	sort.Ints(out)
	return out
}

// Reach returns the reflexive-transitive closure of root under Succ, ascending.
func (g *DAG) Reach(roots ...int) []int {
	seen := map[int]bool{}
	var stack []int
	for _, r := range roots {
		if !seen[r] {
			seen[r] = true
			stack = append(stack, r)
		}
	}
	for len(stack) > 0 {
		n := stack[len(stack)-1]
		stack = stack[:len(stack)-1]
		for _, s := range g.Nodes[n].Succ {
			if !seen[s] {
				seen[s] = true
				stack = append(stack, s)
			}
		}
	}
	out := make([]int, 0, len(seen))
	for n := range seen {
		out = append(out, n)
	}
	sort.Ints(out)
	return out
}

// Preds returns the distinct direct predecessors of n (over all nodes), ascending.
func (g *DAG) Preds(n int) []int {
	var out []int
	for _, p := range g.Nodes {
		for _, s := range p.Succ {
			if s == n {
				out = append(out, p.ID)
				break
			}
		}
	}
	return out
}

// Referrers returns the nodes whose subject is n.
func (g *DAG) Referrers(n int) []int {
	var out []int
	for _, p := range g.Nodes {
		if p.Subject == n {
			out = append(out, p.ID)
		}
	}
	return out
}

// Shape returns a structural hash input of the sub-graph reachable from roots
// (kinds and edges, not bytes).
func (g *DAG) Shape(roots ...int) string {
	ids := g.Reach(roots...)
	pos := map[int]int{}
	for i, n := range ids {
		pos[n] = i
	}
	var sb strings.Builder
	for _, n := range ids {
		nd := g.Nodes[n]
		fmt.Fprintf(&sb, "%d%s[", pos[n], nd.Kind.String()[:2])
		for _, s := range nd.Succ {
			fmt.Fprintf(&sb, "%d,", pos[s])
		}
		if nd.Subject >= 0 {
			fmt.Fprintf(&sb, "s%d", pos[nd.Subject])
		}
		fmt.Fprintf(&sb, "f%d]", len(nd.Foreign))
	}
	return sb.String()
}

// HasSharing reports whether the closure of root contains a node with two
// distinct predecessors inside the closure, or a duplicated successor entry.
func (g *DAG) HasSharing(root int) bool {
	in := map[int]int{}
	for _, n := range g.Reach(root) {
		seen := map[int]bool{}
		for _, s := range g.Nodes[n].Succ {
			if seen[s] {
				return true
			}
			seen[s] = true
			in[s]++
		}
	}
	for _, c := range in {
		if c > 1 {
			return true
		}
	}
	return false
}

// Opts bounds and flavours the generated DAG.
type Opts struct {
	Blobs, Manifests, Indexes int  // approximate counts (at least 1 blob)
	Docker                    bool // Docker manifests and lists
	Artifacts                 bool // ORAS artifact manifests
	Foreign                   bool // foreign layers (descriptor only)
	Subjects                  int  // number of referrer manifests (subject chains included)
	DupMediaType              bool // same bytes under two blob media types
	ManifestAsBlob            bool // a manifest's bytes also listed as a plain blob (C01 finding shape)
	EmptyBlobs                bool
	Platforms                 bool // image configs with os/architecture + index entries with platform
	BlobMax                   int  // max blob size (default 256)
	BigBlob                   int  // when >0, one blob of about this size
	ArtifactTypes             []string
	AnnotationKeys            []string
	AbsentSubjects            bool // some referrers name a subject that is stored nowhere
	NestedIndexes             bool
	Titles                    bool // some layer descriptors carry a title annotation (file-store names), one fixed name per blob
	TitleClash                bool // with Titles: two different blobs share one title (a file store must refuse the second)
	SHA512                    bool // some blobs are addressed by sha512 digests (long blob paths: PAX records in tar archives)
	WideIndex                 int  // when >0, one more index lists up to this many distinct manifests (wide fan-out)
	MixedCaseConfigTypes      bool // some custom config media types carry upper-case letters (media types are compared as written)
	Trees                     int  // number of Tree nodes added on top (custom FindSuccessors needed to traverse them)
	URLsOnLayers              bool // some ordinary (distributable) layer and manifest descriptors carry the optional urls property
}

// DefaultOpts draws a random option set sized for n nodes.
func DefaultOpts(rng *rand.Rand, n int) Opts {
	if n < 4 {
		n = 4
	}
	o := Opts{
		Blobs:          1 + n*2/5 + rng.IntN(2),
		Manifests:      1 + n/4,
		Indexes:        n / 8,
		Subjects:       n / 6,
		Docker:         rng.IntN(3) == 0,
		Artifacts:      rng.IntN(3) == 0,
		Foreign:        rng.IntN(3) == 0,
		DupMediaType:   rng.IntN(3) == 0,
		EmptyBlobs:     rng.IntN(2) == 0,
		NestedIndexes:  rng.IntN(2) == 0,
		BlobMax:        256,
		ArtifactTypes:  []string{"application/vnd.test.sig", "application/vnd.test.sbom", "application/vnd.example+type"},
		AnnotationKeys: []string{"org.test.kind", "org.test.rank"},
	}
	return o
}

type builder struct {
	g   *DAG
	rng *rand.Rand
	o   Opts
}

func (b *builder) add(n *Node) int {
	alg := digest.SHA256
	if n.sha512 {
		alg = digest.SHA512
	}
	n.Desc = ocispec.Descriptor{MediaType: n.Desc.MediaType, Digest: alg.FromBytes(n.Bytes), Size: int64(len(n.Bytes))}
	k := Key(n.Desc)
	if id, ok := b.g.byKey[k]; ok {
		return id
	}
	n.ID = len(b.g.Nodes)
	b.g.Nodes = append(b.g.Nodes, n)
	b.g.byKey[k] = n.ID
	return n.ID
}

func (b *builder) randBytes(max int) []byte {
	n := 1 + b.rng.IntN(max)
	p := make([]byte, n)
	for i := range p {
		p[i] = byte(b.rng.UintN(256))
	}
	return p
}

func (b *builder) nodesOf(pred func(*Node) bool) []int {
	var out []int
	for _, n := range b.g.Nodes {
		if pred(n) {
			out = append(out, n.ID)
		}
	}
	return out
}

func (b *builder) pick(ids []int) int { return ids[b.rng.IntN(len(ids))] }

func (b *builder) annotations() map[string]string {
	if len(b.o.AnnotationKeys) == 0 || b.rng.IntN(2) == 0 {
		return nil
	}
	m := map[string]string{}
	for _, k := range b.o.AnnotationKeys {
		if b.rng.IntN(2) == 0 {
			m[k] = []string{"alpha", "beta", "gamma-1", ""}[b.rng.IntN(4)]
		}
	}
	// uniqueness salt keeps otherwise identical manifests apart
	m["org.test.salt"] = fmt.Sprintf("%x", b.rng.Uint64())
	return m
}

func (b *builder) artifactType() string {
	if len(b.o.ArtifactTypes) == 0 || b.rng.IntN(3) == 0 {
		return ""
	}
	return b.o.ArtifactTypes[b.rng.IntN(len(b.o.ArtifactTypes))]
}

func (b *builder) descOf(id int) ocispec.Descriptor { return b.g.Nodes[id].Desc }

// Platforms are the platforms image configs are drawn from.
var Platforms = []ocispec.Platform{
	{OS: "linux", Architecture: "amd64"},
	{OS: "linux", Architecture: "arm64", Variant: "v8"},
	{OS: "windows", Architecture: "amd64"},
}

// Generate builds a DAG bottom-up from the PRNG.
func Generate(rng *rand.Rand, o Opts) *DAG {
	if o.BlobMax <= 0 {
		o.BlobMax = 256
	}
	b := &builder{g: &DAG{byKey: map[string]int{}}, rng: rng, o: o}

	// blobs
	layerTypes := []string{MTOCILayer, MTOCILayerGzip, MTOctet, "application/vnd.test.data"}
	if o.Docker {
		layerTypes = append(layerTypes, MTDockerLayer)
	}
	if o.Blobs < 1 {
		o.Blobs = 1
	}
	for i := 0; i < o.Blobs; i++ {
		mt := layerTypes[rng.IntN(len(layerTypes))]
		var data []byte
		switch {
		case o.EmptyBlobs && i == 1:
			data = []byte{}
		case o.BigBlob > 0 && i == 0:
			data = b.randBytes(o.BigBlob / 2)
			data = append(data, b.randBytes(o.BigBlob/2)...)
		default:
			data = b.randBytes(o.BlobMax)
		}
		id := b.add(&Node{Kind: Blob, Desc: ocispec.Descriptor{MediaType: mt}, Bytes: data, Subject: -1, sha512: o.SHA512 && i%3 == 2})
		if o.DupMediaType && i == 0 {
			other := layerTypes[(rng.IntN(len(layerTypes)-1)+1+indexOf(layerTypes, mt))%len(layerTypes)]
			b.add(&Node{Kind: Blob, Desc: ocispec.Descriptor{MediaType: other}, Bytes: append([]byte{}, b.g.Nodes[id].Bytes...), Subject: -1})
		}
	}
	if o.EmptyBlobs {
		b.add(&Node{Kind: Blob, Desc: ocispec.Descriptor{MediaType: MTOCIEmpty}, Bytes: []byte("{}"), Subject: -1})
	}

	isBlob := func(n *Node) bool { return n.Kind == Blob }
	isManifestish := func(n *Node) bool { return n.Kind.IsManifestKind() }

	newConfig := func(docker bool) (int, *ocispec.Platform) {
		mt := MTOCIConfig
		if docker {
			mt = MTDockerConfig
		}
		var plat *ocispec.Platform
		var data []byte
		if o.Platforms {
			p := Platforms[rng.IntN(len(Platforms))]
			plat = &p
			doc := map[string]any{"architecture": p.Architecture, "os": p.OS, "salt": rng.Uint64()}
			if p.Variant != "" {
				doc["variant"] = p.Variant
			}
			data, _ = json.Marshal(doc)
		} else {
			switch rng.IntN(4) {
			case 0:
				mt = MTOCIEmpty
				data = []byte("{}")
			case 1:
				mt = "application/vnd.test.config.v1+json"
				if o.MixedCaseConfigTypes && rng.IntN(2) == 0 {
					mt = "application/vnd.CNAB.Config.v1+json"
				}
				data, _ = json.Marshal(map[string]any{"salt": rng.Uint64()})
			default:
				data, _ = json.Marshal(map[string]any{"architecture": "amd64", "os": "linux", "salt": rng.Uint64()})
			}
		}
		return b.add(&Node{Kind: Config, Desc: ocispec.Descriptor{MediaType: mt}, Bytes: data, Subject: -1}), plat
	}

	foreignDesc := func(docker bool) ocispec.Descriptor {
		mt := MTOCIForeign
		if docker {
			mt = MTDockerForeignLayer
		} else if rng.IntN(2) == 0 {
			mt = MTOCIForeignGzip
		}
		// never-stored content: the prefix keeps it apart from every stored blob (short random contents collide)
		data := append([]byte("foreign-layer:"), b.randBytes(40)...)
		return ocispec.Descriptor{MediaType: mt, Digest: digest.FromBytes(data), Size: int64(len(data)), URLs: []string{"https://example.invalid/" + fmt.Sprint(rng.Uint32())}}
	}

	// buildImage creates an OCI or Docker image manifest; subject may be -1.
	buildImage := func(docker bool, subject int, absent *ocispec.Descriptor) int {
		cfg, plat := newConfig(docker)
		blobs := b.nodesOf(isBlob)
		nl := rng.IntN(4)
		if subject >= 0 && nl > 1 {
			nl = rng.IntN(2)
		}
		var layers []ocispec.Descriptor
		succ := []int{}
		n := &Node{Subject: subject, AbsentSubject: absent}
		if subject >= 0 {
			succ = append(succ, subject)
		}
		succ = append(succ, cfg)
		for i := 0; i < nl; i++ {
			id := b.pick(blobs)
			ld := b.descOf(id)
			if o.Titles && id%2 == 0 {
				title := fmt.Sprintf("blob-%d.bin", id)
				if o.TitleClash && id <= 2 {
					title = "clash.bin"
				}
				ld.Annotations = map[string]string{ocispec.AnnotationTitle: title}
			}
			if o.URLsOnLayers && rng.IntN(3) == 0 {
				ld.URLs = []string{fmt.Sprintf("https://mirror.example.invalid/blobs/%d", id)}
			}
			layers = append(layers, ld)
			succ = append(succ, id)
			if rng.IntN(6) == 0 { // the same blob listed twice
				layers = append(layers, ld)
				succ = append(succ, id)
			}
		}
		if o.Foreign && rng.IntN(3) == 0 {
			fd := foreignDesc(docker)
			layers = append(layers, fd)
			n.Foreign = append(n.Foreign, fd)
		}
		if layers == nil {
			layers = []ocispec.Descriptor{}
		}
		n.Succ = succ
		n.ConfigMediaType = b.descOf(cfg).MediaType
		n.Annotations = b.annotations()
		n.Platform = plat
		if docker {
			n.Kind = DockerManifest
			n.Desc.MediaType = MTDockerManifest
			doc := map[string]any{"schemaVersion": 2, "mediaType": MTDockerManifest, "config": b.descOf(cfg), "layers": layers}
			n.Bytes, _ = json.Marshal(doc)
			n.Annotations = nil
		} else {
			n.Kind = Manifest
			n.Desc.MediaType = MTOCIManifest
			n.ArtifactType = b.artifactType()
			m := ocispec.Manifest{MediaType: MTOCIManifest, Config: b.descOf(cfg), Layers: layers, ArtifactType: n.ArtifactType, Annotations: n.Annotations}
			m.SchemaVersion = 2
			if subject >= 0 {
				sd := b.descOf(subject)
				m.Subject = &sd
			} else if absent != nil {
				m.Subject = absent
			}
			n.Bytes, _ = json.Marshal(m)
		}
		return b.add(n)
	}

	buildArtifact := func(subject int, absent *ocispec.Descriptor) int {
		blobs := b.nodesOf(isBlob)
		n := &Node{Kind: Artifact, Desc: ocispec.Descriptor{MediaType: MTArtifactManifest}, Subject: subject, AbsentSubject: absent}
		var descs []ocispec.Descriptor
		if subject >= 0 {
			n.Succ = append(n.Succ, subject)
		}
		for i, nb := 0, rng.IntN(3); i < nb; i++ {
			id := b.pick(blobs)
			descs = append(descs, b.descOf(id))
			n.Succ = append(n.Succ, id)
		}
		n.ArtifactType = b.artifactType()
		if n.ArtifactType == "" {
			n.ArtifactType = "application/vnd.test.artifact"
		}
		n.Annotations = b.annotations()
		doc := map[string]any{"mediaType": MTArtifactManifest, "artifactType": n.ArtifactType}
		if len(descs) > 0 {
			doc["blobs"] = descs
		}
		if subject >= 0 {
			doc["subject"] = b.descOf(subject)
		} else if absent != nil {
			doc["subject"] = absent
		}
		if n.Annotations != nil {
			doc["annotations"] = n.Annotations
		}
		n.Bytes, _ = json.Marshal(doc)
		return b.add(n)
	}

	forceK := 0
	buildIndex := func(docker bool, subject int) int {
		cands := b.nodesOf(func(n *Node) bool {
			if !n.Kind.IsManifestKind() {
				return false
			}
			if !o.NestedIndexes && (n.Kind == Index || n.Kind == DockerList) {
				return false
			}
			return true
		})
		if len(cands) == 0 {
			return -1
		}
		n := &Node{Subject: subject}
		var ms []ocispec.Descriptor
		if subject >= 0 {
			n.Succ = append(n.Succ, subject)
		}
		k := 1 + rng.IntN(3)
		if forceK > 0 {
			k = min(forceK, len(cands))
		}
		for i := 0; i < k; i++ {
			id := b.pick(cands)
			if forceK > 0 {
				id = cands[i]
			}
			d := b.descOf(id)
			if p := b.g.Nodes[id].Platform; p != nil {
				pp := *p
				d.Platform = &pp
			}
			if o.URLsOnLayers && rng.IntN(3) == 0 {
				d.URLs = []string{fmt.Sprintf("https://mirror.example.invalid/manifests/%d", id)}
			}
			ms = append(ms, d)
			n.Succ = append(n.Succ, id)
		}
		n.Annotations = b.annotations()
		if docker {
			n.Kind = DockerList
			n.Desc.MediaType = MTDockerManifestList
			doc := map[string]any{"schemaVersion": 2, "mediaType": MTDockerManifestList, "manifests": ms}
			n.Bytes, _ = json.Marshal(doc)
			n.Annotations = nil
			if subject >= 0 { // docker lists have no subject
				n.Subject = -1
				n.Succ = n.Succ[1:]
			}
		} else {
			n.Kind = Index
			n.Desc.MediaType = MTOCIIndex
			n.ArtifactType = b.artifactType()
			if n.ArtifactType == "" && subject < 0 && n.Annotations == nil {
				// a bare index (entries only) is byte-identical to the referrers index an oras client
				// maintains for registries without the Referrers API whenever its entries are exactly the
				// referrers of one subject; the client deletes superseded referrers indexes, so such a
				// node would disappear from a registry source. Keep user indexes distinguishable (no
				// random draw: the streams of all checks stay as they are).
				n.Annotations = map[string]string{"org.test.index": fmt.Sprint(len(b.g.Nodes))}
			}
			idx := ocispec.Index{MediaType: MTOCIIndex, Manifests: ms, ArtifactType: n.ArtifactType, Annotations: n.Annotations}
			idx.SchemaVersion = 2
			if subject >= 0 {
				sd := b.descOf(subject)
				idx.Subject = &sd
			}
			n.Bytes, _ = json.Marshal(idx)
		}
		return b.add(n)
	}

	for i := 0; i < o.Manifests; i++ {
		switch {
		case o.Docker && rng.IntN(3) == 0:
			buildImage(true, -1, nil)
		case o.Artifacts && rng.IntN(4) == 0:
			buildArtifact(-1, nil)
		default:
			buildImage(false, -1, nil)
		}
	}
	// interleave indexes and referrers so that referrers of indexes and
	// indexes of referrers both occur
	steps := o.Indexes + o.Subjects
	idxLeft, subLeft := o.Indexes, o.Subjects
	for i := 0; i < steps; i++ {
		doIndex := idxLeft > 0 && (subLeft == 0 || rng.IntN(idxLeft+subLeft) < idxLeft)
		if doIndex {
			idxLeft--
			buildIndex(o.Docker && rng.IntN(4) == 0, -1)
			continue
		}
		subLeft--
		ms := b.nodesOf(isManifestish)
		if len(ms) == 0 {
			continue
		}
		subject := b.pick(ms)
		var absent *ocispec.Descriptor
		if o.AbsentSubjects && rng.IntN(5) == 0 {
			// never-stored content: the prefix keeps it apart from every stored blob (short random
			// contents collide, and a subject that is a stored non-JSON blob is another shape altogether)
			data := append([]byte("absent-subject:"), b.randBytes(30)...)
			absent = &ocispec.Descriptor{MediaType: MTOCIManifest, Digest: digest.FromBytes(data), Size: int64(len(data))}
			subject = -1
		}
		switch {
		case o.Artifacts && rng.IntN(3) == 0:
			buildArtifact(subject, absent)
		case subject >= 0 && rng.IntN(6) == 0:
			buildIndex(false, subject)
		default:
			buildImage(false, subject, absent)
		}
	}
	if o.WideIndex > 0 {
		forceK = o.WideIndex
		buildIndex(false, -1)
		forceK = 0
	}
	for i := 0; i < o.Trees; i++ {
		all := b.nodesOf(func(*Node) bool { return true })
		k := 1 + rng.IntN(3)
		doc := TreeDoc{Salt: rng.Uint64()}
		n := &Node{Kind: Tree, Desc: ocispec.Descriptor{MediaType: MTTree}, Subject: -1}
		for j := 0; j < k; j++ {
			id := b.pick(all)
			if rng.IntN(2) == 0 {
				// prefer the top of what exists so far (other trees, indexes, referrers)
				id = all[len(all)-1-rng.IntN(1+len(all)/4)]
			}
			doc.Children = append(doc.Children, b.descOf(id))
			n.Succ = append(n.Succ, id)
		}
		n.Bytes, _ = json.Marshal(doc)
		b.add(n)
	}
	if o.ManifestAsBlob {
		ms := b.nodesOf(func(n *Node) bool { return n.Kind == Manifest && len(n.Succ) > 0 })
		if len(ms) > 0 {
			m := b.g.Nodes[b.pick(ms)]
			blobID := b.add(&Node{Kind: Blob, Desc: ocispec.Descriptor{MediaType: MTOctet}, Bytes: append([]byte{}, m.Bytes...), Subject: -1})
			// a manifest that lists the blob twin before an index lists the manifest
			cfg, plat := newConfig(false)
			n := &Node{Kind: Manifest, Desc: ocispec.Descriptor{MediaType: MTOCIManifest}, Subject: -1, Succ: []int{cfg, blobID}, ConfigMediaType: b.descOf(cfg).MediaType, Platform: plat}
			mm := ocispec.Manifest{MediaType: MTOCIManifest, Config: b.descOf(cfg), Layers: []ocispec.Descriptor{b.descOf(blobID)}}
			mm.SchemaVersion = 2
			n.Bytes, _ = json.Marshal(mm)
			holder := b.add(n)
			in := &Node{Kind: Index, Desc: ocispec.Descriptor{MediaType: MTOCIIndex}, Subject: -1, Succ: []int{holder, m.ID}}
			idx := ocispec.Index{MediaType: MTOCIIndex, Manifests: []ocispec.Descriptor{b.descOf(holder), m.Desc}}
			idx.SchemaVersion = 2
			in.Bytes, _ = json.Marshal(idx)
			b.add(in)
		}
	}
	return b.g
}

func indexOf(s []string, v string) int {
	for i, x := range s {
		if x == v {
			return i
		}
	}
	return 0
}

// Roots returns the nodes without predecessors.
func (g *DAG) Roots() []int {
	has := map[int]bool{}
	for _, n := range g.Nodes {
		for _, s := range n.Succ {
			has[s] = true
		}
	}
	var out []int
	for _, n := range g.Nodes {
		if !has[n.ID] {
			out = append(out, n.ID)
		}
	}
	return out
}

// TopoChildrenFirst returns all node ids with every successor before its parents.
func (g *DAG) TopoChildrenFirst() []int {
	// nodes are created bottom-up, so ascending id order is children-first
	out := make([]int, len(g.Nodes))
	for i := range out {
		out[i] = i
	}
	return out
}

// DownClosure returns the union of Reach over the given nodes.
func (g *DAG) DownClosure(nodes []int) []int { return g.Reach(nodes...) }

// Fetcher serves the generated bytes (ground truth source for tests of the
// harness itself; checks normally push into a real store).
type Fetcher struct{ G *DAG }

// PushAll pushes the given nodes in order into a store, ignoring
// already-exists errors reported through isExists.
func PushAll(ctx context.Context, dst content.Pusher, g *DAG, order []int, ignore func(error) bool) error {
	for _, id := range order {
		n := g.Nodes[id]
		err := dst.Push(ctx, n.Desc, strings.NewReader(string(n.Bytes)))
		if err != nil && (ignore == nil || !ignore(err)) {
			return fmt.Errorf("push node %d (%s %s): %w", id, n.Kind, n.Desc.Digest, err)
		}
	}
	return nil
}

// EffectiveArtifactType returns the artifact type the property statement
// assigns to a manifest node: artifactType, else the config media type for
// OCI image manifests.
func (g *DAG) EffectiveArtifactType(n int) string {
	nd := g.Nodes[n]
	if nd.ArtifactType != "" {
		return nd.ArtifactType
	}
	if nd.Kind == Manifest {
		return nd.ConfigMediaType
	}
	return ""
}

// Describe returns a compact written-out form of the sub-graph for evidence samples.
func (g *DAG) Describe(roots ...int) []string {
	var out []string
	for _, n := range g.Reach(roots...) {
		nd := g.Nodes[n]
		s := fmt.Sprintf("%d:%s(%dB)->%v", n, nd.Kind, len(nd.Bytes), nd.Succ)
		if nd.Subject >= 0 {
			s += fmt.Sprintf(" subject=%d", nd.Subject)
		}
		if len(nd.Foreign) > 0 {
			s += fmt.Sprintf(" foreign=%d", len(nd.Foreign))
		}
		out = append(out, s)
	}
	return out
}
