package copymon

import (
	"bytes"
	"context"
	"errors"
	"fmt"
	"math/rand/v2"
	"os"
	"path/filepath"
	"regexp"
	"sort"
	"strings"
	"time"

	"github.com/opencontainers/go-digest"
	ocispec "github.com/opencontainers/image-spec/specs-go/v1"
	oras "oras.land/oras-go/v2"
	"oras.land/oras-go/v2/content"
	"oras.land/oras-go/v2/errdef"
	"oras.land/oras-go/v2/verifharness/gen"
	"oras.land/oras-go/v2/verifharness/regmodel"
	"oras.land/oras-go/v2/verifharness/stores"
)

// Case is one generated copy scenario.
type Case struct {
	G           *gen.DAG
	Root        int
	SrcKind     string
	DstKind     string
	Conc        int    // CopyGraphOptions.Concurrency (0: default 3)
	API         string // Copy, CopyGraph
	SrcRef      string
	DstRef      string // "" = same as source
	MapRoot     string // "", identity, child, platform
	Platform    *ocispec.Platform
	Expect      int // expected root after mapping (-1: the call is expected to fail in root selection)
	Prepop      []int
	MaxMeta     int64
	Delay       time.Duration
	Seed        uint64
	Mount       string   // "", ok, refuse (remote destination only)
	MountCands  []string // candidate repositories MountFrom returns (may repeat, may name repositories without the blob)
	Depth       int      // ExtendedCopy* only (0: unlimited)
	StaleFiles  bool     // see GenOpts.StaleFiles
	OmitCB      []string // callbacks left unset by the caller ("pre", "post", "skipped", "mounted")
	FilterAnno  string   // ExtendedCopyGraph only: FilterAnnotation(key, nil) is installed (changes the set that is copied: accounting checks only)
	RefIsDigest bool     // the source reference is the root's digest string
	FilterAll   bool     // ExtendedCopy*: install FilterArtifactType with a match-all regex (exercises the filter listing path)
	SubjectOnly bool     // the source exposes subject links only (registry): ancestors follow referrers
	PreTag      int      // node (of Prepop) the destination reference points at before the call, -1: none
	RaceNode    int      // node that a simulated concurrent writer pushes to the destination just before the library does, -1: none
	Profile     *regmodel.Profile
}

// Env is a set-up case.
type Env struct {
	Src *stores.Handle
	Dst *stores.Handle
	Mon *Mon
	WS  oras.ReadOnlyGraphTarget
	WD  oras.Target
}

// Close releases the stores.
func (e *Env) Close() {
	if e.Src != nil {
		e.Src.Close()
	}
	if e.Dst != nil {
		e.Dst.Close()
	}
}

// GenOpts tunes case generation.
type GenOpts struct {
	MaxNodes       int
	SrcKinds       []string
	DstKinds       []string
	APIs           []string
	NoOptions      bool // no MapRoot / platform / small cache
	MaxDelay       time.Duration
	ManifestAsBlob bool // allow the C01 finding shape
	RaceWriter     bool // allow a simulated concurrent writer on one node
	Trees          bool // allow interior nodes of an unknown media type, traversed by a custom FindSuccessors (Copy / CopyGraph only)
	OptionalCB     bool // the caller may leave some of the four callbacks unset
	StaleFiles     bool // file-store destination: longer files already sit at the names of titled blobs (left by an earlier session)
	FullNameRef    bool // allow a source reference shaped like a full image name (registry/repository:tag) on non-registry stores
	TitleClash     bool // allow two different blobs under one title (file-store destination must fail the copy)
}

// GenCase draws a case.
func GenCase(rng *rand.Rand, o GenOpts) *Case {
	if o.MaxNodes < 6 {
		o.MaxNodes = 6
	}
	if len(o.SrcKinds) == 0 {
		o.SrcKinds = stores.Kinds
	}
	if len(o.DstKinds) == 0 {
		o.DstKinds = stores.Kinds
	}
	if len(o.APIs) == 0 {
		o.APIs = []string{"Copy", "Copy", "CopyGraph"}
	}
	c := &Case{Expect: -2, PreTag: -1, RaceNode: -1}
	c.SrcKind = o.SrcKinds[rng.IntN(len(o.SrcKinds))]
	c.DstKind = o.DstKinds[rng.IntN(len(o.DstKinds))]
	c.API = o.APIs[rng.IntN(len(o.APIs))]
	n := 5 + rng.IntN(o.MaxNodes-4)
	go_ := gen.DefaultOpts(rng, n)
	go_.Platforms = !o.NoOptions && rng.IntN(3) == 0
	go_.Titles = (c.DstKind == "file" || c.SrcKind == "file") && rng.IntN(2) == 0
	go_.ManifestAsBlob = o.ManifestAsBlob && rng.IntN(6) == 0
	go_.URLsOnLayers = rng.IntN(3) == 0
	go_.TitleClash = o.TitleClash && go_.Titles && c.DstKind == "file" && rng.IntN(3) == 0
	if rng.IntN(8) == 0 {
		go_.BigBlob = 1<<20 + rng.IntN(1<<19)
	}
	if o.Trees && (c.API == "Copy" || c.API == "CopyGraph") && rng.IntN(4) == 0 {
		go_.Trees = 1 + rng.IntN(3)
	}
	if c.SrcKind == "remote" || c.DstKind == "remote" {
		// registries treat the Docker config/blob split the same, but Docker
		// manifest lists without platform are fine; artifact manifests are fine
		go_.AbsentSubjects = false
	}
	c.G = gen.Generate(rng, go_)
	g := c.G
	// root: mostly manifests / indexes, sometimes inner nodes or blobs
	var manifests, all []int
	for _, nd := range g.Nodes {
		all = append(all, nd.ID)
		if nd.Kind.IsManifestKind() {
			manifests = append(manifests, nd.ID)
		}
	}
	roots := g.Roots()
	switch {
	case rng.IntN(10) < 5 && len(roots) > 0:
		// prefer big roots
		sort.Slice(roots, func(a, b int) bool { return len(g.Reach(roots[a])) > len(g.Reach(roots[b])) })
		c.Root = roots[rng.IntN(1+len(roots)/2)]
	case rng.IntN(10) < 8 && len(manifests) > 0:
		c.Root = manifests[rng.IntN(len(manifests))]
	default:
		c.Root = all[rng.IntN(len(all))]
	}
	if (c.SrcKind == "remote" || c.DstKind == "remote") && !g.Nodes[c.Root].Kind.IsManifestKind() && c.API == "Copy" && len(manifests) > 0 {
		c.Root = manifests[rng.IntN(len(manifests))]
	}
	c.Conc = []int{0, 1, 2, 3, 8, 1 + rng.IntN(6)}[rng.IntN(6)]
	c.SrcRef = "src-tag"
	if o.FullNameRef && c.SrcKind != "remote" && c.DstKind != "remote" && rng.IntN(4) == 0 {
		c.SrcRef = "registry.example.com/team/app:1.0" // what exported layouts commonly carry as reference name
	}
	if o.OptionalCB && rng.IntN(3) == 0 {
		for _, k := range []string{"pre", "post", "skipped", "mounted"} {
			if rng.IntN(2) == 0 {
				c.OmitCB = append(c.OmitCB, k)
			}
		}
	}
	c.StaleFiles = o.StaleFiles && c.DstKind == "file" && go_.Titles && rng.IntN(2) == 0
	if rng.IntN(2) == 0 {
		c.DstRef = "dst.tag-v2"
	}
	if c.API == "Copy" && rng.IntN(6) == 0 && (c.SrcKind != "remote" || g.Nodes[c.Root].Kind.IsManifestKind()) {
		// the source reference is the root's digest and the destination reference is left blank
		c.SrcRef = g.Nodes[c.Root].Desc.Digest.String()
		c.DstRef = ""
		c.RefIsDigest = true
	}
	c.Expect = c.Root
	if c.API == "Copy" && !o.NoOptions {
		rootNode := g.Nodes[c.Root]
		switch rng.IntN(6) {
		case 0:
			c.MapRoot = "identity"
		case 1:
			if rootNode.Kind == gen.Index || rootNode.Kind == gen.DockerList {
				entries := rootNode.Succ
				if rootNode.Subject >= 0 {
					entries = entries[1:]
				}
				for _, s := range entries {
					if g.Nodes[s].Kind.IsManifestKind() {
						c.MapRoot = "child"
						c.Expect = s
						break
					}
				}
			}
		case 2, 3:
			if go_.Platforms {
				c.MapRoot = "platform"
				p := gen.Platforms[rng.IntN(len(gen.Platforms))]
				if rng.IntN(2) == 0 {
					p.Variant = ""
				}
				c.Platform = &p
				c.Expect = expectPlatform(g, c.Root, &p)
			}
		}
	}
	if !o.NoOptions && rng.IntN(4) == 0 {
		// MaxMetadataBytes is a per-item limit: the tightest legal value is the
		// size of the largest manifest (boundary: limit == size)
		for _, nd := range g.Nodes {
			if nd.Kind.IsManifestKind() && int64(len(nd.Bytes)) > c.MaxMeta {
				c.MaxMeta = int64(len(nd.Bytes))
			}
		}
		c.MaxMeta += int64(rng.IntN(2))
	}
	// link-closed pre-population of the destination
	if rng.IntN(2) == 0 {
		k := 1 + rng.IntN(3)
		var picks []int
		for i := 0; i < k; i++ {
			picks = append(picks, all[rng.IntN(len(all))])
		}
		if rng.IntN(5) == 0 {
			picks = append(picks, c.Root) // root already present
		}
		c.Prepop = g.DownClosure(picks)
	}
	if len(c.Prepop) > 0 && c.API == "Copy" && !c.RefIsDigest && rng.IntN(2) == 0 {
		// the destination reference already exists and points at another node
		var cand []int
		for _, p := range c.Prepop {
			if p != c.Expect && (c.DstKind != "remote" || g.Nodes[p].Kind.IsManifestKind()) {
				cand = append(cand, p)
			}
		}
		if len(cand) > 0 {
			c.PreTag = cand[rng.IntN(len(cand))]
		}
	}
	if o.RaceWriter && rng.IntN(3) == 0 {
		reach := g.Reach(c.Root)
		c.RaceNode = reach[rng.IntN(len(reach))]
	}
	if o.MaxDelay > 0 && rng.IntN(4) != 0 {
		c.Delay = time.Duration(1+rng.IntN(int(o.MaxDelay/time.Microsecond))) * time.Microsecond
	}
	c.Seed = rng.Uint64()
	if c.DstKind == "remote" && rng.IntN(3) == 0 {
		c.Mount = []string{"ok", "refuse"}[rng.IntN(2)]
	}
	c.MountCands = [][]string{{"test/other"}, {"test/other"}, {"test/none", "test/other"}, {"test/other", "test/none", "test/other"},
		{"test/none", "test/none"}, {"test/none", "test/other", "test/none"}}[rng.IntN(6)]
	if c.SrcKind == "remote" || c.DstKind == "remote" {
		p := regmodel.FullProfile()
		p.DigestHeader = rng.IntN(4) != 0
		p.Ranges = rng.IntN(2) == 0
		p.ReferrersAPI = rng.IntN(2) == 0
		p.MountOK = c.Mount == "ok"
		p.StrictRefs = rng.IntN(3) != 0 // some registries accept manifests whose blobs are missing
		c.Profile = &p
	}
	return c
}

// expectPlatform computes the expected root under platform selection, -1 when no manifest matches.
func expectPlatform(g *gen.DAG, root int, want *ocispec.Platform) int {
	match := func(got *ocispec.Platform) bool {
		if got == nil {
			return false
		}
		if got.Architecture != want.Architecture || got.OS != want.OS {
			return false
		}
		if want.Variant != "" && got.Variant != want.Variant {
			return false
		}
		return true
	}
	rn := g.Nodes[root]
	switch rn.Kind {
	case gen.Index, gen.DockerList:
		entries := rn.Succ
		if rn.Subject >= 0 {
			entries = entries[1:] // the subject comes first in Succ
		}
		for _, s := range entries {
			if match(g.Nodes[s].Platform) {
				return s
			}
		}
		return -1
	case gen.Manifest, gen.DockerManifest:
		if match(rn.Platform) {
			return root
		}
		return -1
	}
	return -1
}

// Key returns the structural key of the case.
func (c *Case) Key() string {
	pre := make([]string, len(c.Prepop))
	for i, p := range c.Prepop {
		pre[i] = fmt.Sprint(p)
	}
	return fmt.Sprintf("%s|%s>%s|%s|c%d|%s|%s|m%d|pre%s|mnt%s|pt%d|rw%d", c.G.Shape(c.Root), c.SrcKind, c.DstKind, c.API, c.Conc, c.MapRoot, c.DstRef, c.MaxMeta, strings.Join(pre, ","), c.Mount, c.PreTag, c.RaceNode)
}

// Describe writes the case out for evidence samples and witnesses.
func (c *Case) Describe() map[string]any {
	return map[string]any{
		"api": c.API, "src": c.SrcKind, "dst": c.DstKind, "root": c.Root, "expected_root": c.Expect, "concurrency": c.Conc,
		"src_ref": c.SrcRef, "dst_ref": c.DstRef, "map_root": c.MapRoot, "platform": c.Platform, "prepopulated": c.Prepop,
		"depth": c.Depth, "filter_annotation_key": c.FilterAnno, "callbacks_left_unset": c.OmitCB, "ref_is_root_digest": c.RefIsDigest, "pre_tagged_node": c.PreTag, "racing_writer_node": c.RaceNode, "max_metadata_bytes": c.MaxMeta, "delay_max_us": c.Delay.Microseconds(), "delay_seed": c.Seed, "mount": c.Mount,
		"dag": c.G.Describe(c.Root),
	}
}

func ignoreExists(err error) bool { return errors.Is(err, errdef.ErrAlreadyExists) }

// Setup builds and populates the stores and wraps them with a fresh monitor.
func (c *Case) Setup(ctx context.Context) (*Env, error) {
	e := &Env{}
	var err error
	if e.Src, err = stores.New(c.SrcKind, c.Profile); err != nil {
		return nil, err
	}
	if e.Dst, err = stores.New(c.DstKind, c.Profile); err != nil {
		e.Close()
		return nil, err
	}
	g := c.G
	if c.StaleFiles && e.Dst.Dir != "" {
		for _, nd := range g.Nodes {
			if nd.Kind == gen.Blob && nd.ID%2 == 0 && nd.ID%4 != 0 {
				stale := append(append([]byte{}, nd.Bytes...), []byte("-- stale tail of an older, longer version of this file --")...)
				if err := os.WriteFile(filepath.Join(e.Dst.Dir, fmt.Sprintf("blob-%d.bin", nd.ID)), stale, 0o644); err != nil {
					e.Close()
					return nil, fmt.Errorf("stale file: %w", err)
				}
			}
		}
	}
	if err := gen.PushAll(ctx, e.Src.Target, g, g.TopoChildrenFirst(), ignoreExists); err != nil {
		e.Close()
		return nil, fmt.Errorf("populate source: %w", err)
	}
	if c.API == "Copy" || c.API == "ExtendedCopy" {
		if err := e.Src.Target.Tag(ctx, g.Nodes[c.Root].Desc, c.SrcRef); err != nil {
			e.Close()
			return nil, fmt.Errorf("tag source root: %w", err)
		}
	}
	if len(c.Prepop) > 0 {
		order := append([]int{}, c.Prepop...)
		sort.Ints(order)
		if err := gen.PushAll(ctx, e.Dst.Target, g, order, ignoreExists); err != nil {
			e.Close()
			return nil, fmt.Errorf("pre-populate destination: %w", err)
		}
	}
	if c.PreTag >= 0 {
		if err := e.Dst.Target.Tag(ctx, g.Nodes[c.PreTag].Desc, c.EffectiveDstRef()); err != nil {
			e.Close()
			return nil, fmt.Errorf("pre-tag destination: %w", err)
		}
	}
	if c.Mount != "" && e.Dst.Reg != nil {
		// a sibling repository holding every blob, to mount from
		for _, nd := range g.Nodes {
			if !nd.Kind.IsManifestKind() {
				e.Dst.Reg.PutBlob("test/other", nd.Bytes)
			}
		}
	}
	c.Rewrap(e)
	return e, nil
}

// Rewrap installs a fresh monitor around the same stores (for the fault-free re-run).
func (c *Case) Rewrap(e *Env) {
	e.Mon = New(c.G)
	e.Mon.DelaySeed = c.Seed
	e.Mon.DelayMax = c.Delay
	e.Mon.RaceNode = c.RaceNode
	e.WS = WrapSrc(e.Mon, e.Src.Target)
	e.WD = WrapDst(e.Mon, e.Dst.Target)
}

// Run performs the copy call through the wrappers.
func (c *Case) Run(ctx context.Context, e *Env) (ocispec.Descriptor, error) {
	g := c.G
	var gopts oras.CopyGraphOptions
	gopts.Concurrency = c.Conc
	gopts.MaxMetadataBytes = c.MaxMeta
	e.Mon.Omit = map[string]bool{}
	for _, k := range c.OmitCB {
		e.Mon.Omit[k] = true
	}
	if len(e.Mon.Omit) == 0 {
		e.Mon.Omit = nil
	}
	e.Mon.Hooks(&gopts)
	if g.HasTrees() {
		gopts.FindSuccessors = gen.TreeSuccessors
		if c.Seed%2 == 1 {
			gopts.FindSuccessors = gen.StreamTreeSuccessors // reads through the caching fetcher without ever reaching EOF
		}
	}
	if c.Mount != "" {
		gopts.MountFrom = func(ctx context.Context, desc ocispec.Descriptor) ([]string, error) {
			if err := e.Mon.at(ctx, "cb.MountFrom", e.Mon.node(desc)); err != nil {
				return nil, err
			}
			if len(c.MountCands) > 0 {
				return append([]string{}, c.MountCands...), nil
			}
			return []string{"test/other"}, nil
		}
	}
	switch c.API {
	case "CopyGraph":
		return g.Nodes[c.Root].Desc, oras.CopyGraph(ctx, e.WS, e.WD, g.Nodes[c.Root].Desc, gopts)
	case "ExtendedCopyGraph":
		eopts := oras.ExtendedCopyGraphOptions{CopyGraphOptions: gopts, Depth: c.Depth}
		if c.FilterAll {
			eopts.FilterArtifactType(regexp.MustCompile(""))
		}
		if c.FilterAnno != "" {
			eopts.FilterAnnotation(c.FilterAnno, nil)
		}
		return g.Nodes[c.Root].Desc, oras.ExtendedCopyGraph(ctx, e.WS, e.WD, g.Nodes[c.Root].Desc, eopts)
	case "ExtendedCopy":
		eopts := oras.ExtendedCopyOptions{ExtendedCopyGraphOptions: oras.ExtendedCopyGraphOptions{CopyGraphOptions: gopts, Depth: c.Depth}}
		return oras.ExtendedCopy(ctx, e.WS, c.SrcRef, e.WD, c.DstRef, eopts)
	default:
		opts := oras.CopyOptions{CopyGraphOptions: gopts}
		switch c.MapRoot {
		case "identity":
			opts.MapRoot = func(ctx context.Context, src content.ReadOnlyStorage, root ocispec.Descriptor) (ocispec.Descriptor, error) {
				return root, nil
			}
		case "child":
			child := g.Nodes[c.Expect].Desc
			opts.MapRoot = func(ctx context.Context, src content.ReadOnlyStorage, root ocispec.Descriptor) (ocispec.Descriptor, error) {
				return child, nil
			}
		case "platform":
			opts.WithTargetPlatform(c.Platform)
		}
		return oras.Copy(ctx, e.WS, c.SrcRef, e.WD, c.DstRef, opts)
	}
}

// EffectiveDstRef is the reference the destination must resolve after Copy.
func (c *Case) EffectiveDstRef() string {
	if c.DstRef == "" {
		return c.SrcRef
	}
	return c.DstRef
}

// CheckC01 applies the C01 oracle after a successful call. It returns
// violation descriptions keyed for known-findings matching.
func (c *Case) CheckC01(ctx context.Context, e *Env, returned ocispec.Descriptor) (key, what string) {
	g := c.G
	expect := c.Expect
	if expect < 0 {
		return "success-without-root", fmt.Sprintf("Copy succeeded although no manifest matches the target platform (returned %s)", returned.Digest)
	}
	if c.API == "Copy" {
		if gen.Key(returned) != gen.Key(g.Nodes[expect].Desc) {
			return "wrong-root", fmt.Sprintf("Copy returned %s, expected root node %d %s", gen.Key(returned), expect, gen.Key(g.Nodes[expect].Desc))
		}
	}
	missing, differing := CheckComplete(ctx, e.Dst.Target, g, expect)
	if len(differing) > 0 {
		return "bytes-differ", fmt.Sprintf("nodes %v differ from the source bytes in the destination", differing)
	}
	if len(missing) > 0 {
		if c.digestKeyedDst() && c.explainedByTwin(missing) {
			return "digest-keyed-dst:manifest-bytes-also-blob", fmt.Sprintf("nodes %v missing: a manifest whose bytes were also pushed as a plain blob is treated as present by the digest-keyed %s destination, its successors are never copied", missing, c.DstKind)
		}
		return "missing-nodes", fmt.Sprintf("nodes %v reachable from root %d are missing in the %s destination after success", missing, expect, c.DstKind)
	}
	if c.API == "Copy" {
		got, err := c.resolveDst(ctx, e)
		if err != nil {
			return "root-not-tagged", fmt.Sprintf("destination Resolve(%q) failed after successful Copy: %v", c.EffectiveDstRef(), err)
		}
		if gen.Key(got) != gen.Key(g.Nodes[expect].Desc) {
			return "root-tag-wrong", fmt.Sprintf("destination Resolve(%q) = %s, want root %s", c.EffectiveDstRef(), gen.Key(got), gen.Key(g.Nodes[expect].Desc))
		}
	}
	return "", ""
}

func (c *Case) digestKeyedDst() bool { return c.DstKind == "oci" || c.DstKind == "file" }

// explainedByTwin reports whether every missing node is a proper descendant of
// a manifest node whose digest also occurs in the graph under a non-manifest
// media type (the C01 known-finding shape).
func (c *Case) explainedByTwin(missing []int) bool {
	g := c.G
	twins := []int{}
	for _, m := range g.Nodes {
		if !m.Kind.IsManifestKind() {
			continue
		}
		for _, o := range g.Nodes {
			if o.ID != m.ID && !o.Kind.IsManifestKind() && o.Desc.Digest == m.Desc.Digest {
				twins = append(twins, m.ID)
			}
		}
	}
	if len(twins) == 0 {
		return false
	}
	for _, ms := range missing {
		ok := false
		for _, t := range twins {
			if t == ms {
				continue
			}
			for _, r := range g.Reach(t) {
				if r == ms {
					ok = true
				}
			}
		}
		if !ok {
			return false
		}
	}
	return true
}

// SameBytes reports whether a store holds node n with the generator's bytes.
func SameBytes(ctx context.Context, st content.ReadOnlyStorage, g *gen.DAG, n int) bool {
	b, err := content.FetchAll(ctx, st, g.Nodes[n].Desc)
	return err == nil && bytes.Equal(b, g.Nodes[n].Bytes)
}

// resolveDst resolves the destination reference; for a remote destination the
// registry model's state is read directly (a registry profile without digest
// headers cannot answer Resolve(tag) by HEAD, by documented design).
func (c *Case) resolveDst(ctx context.Context, e *Env) (ocispec.Descriptor, error) {
	if e.Dst.Reg == nil {
		return e.Dst.Target.Resolve(ctx, c.EffectiveDstRef())
	}
	var out ocispec.Descriptor
	var err error
	e.Dst.Reg.WithLock(func() {
		repo := e.Dst.Reg.Repos["test/repo"]
		if repo == nil {
			err = errors.New("repository absent in the registry model")
			return
		}
		d, ok := repo.Tags[c.EffectiveDstRef()]
		if !ok && strings.Contains(c.EffectiveDstRef(), ":") {
			d, ok = digest.Digest(c.EffectiveDstRef()), true // a digest reference names the manifest itself
		}
		if !ok {
			err = fmt.Errorf("tag %q absent in the registry model", c.EffectiveDstRef())
			return
		}
		m, ok := repo.Manifests[d]
		if !ok {
			err = fmt.Errorf("tag %q points to absent manifest %s", c.EffectiveDstRef(), d)
			return
		}
		out = ocispec.Descriptor{MediaType: m.MediaType, Digest: d, Size: int64(len(m.Bytes))}
	})
	return out, err
}

// Ancestors returns every node that reaches n through successor links
// (n's upward closure), n included.
func Ancestors(g *gen.DAG, n int) []int {
	seen := map[int]bool{n: true}
	stack := []int{n}
	for len(stack) > 0 {
		cur := stack[len(stack)-1]
		stack = stack[:len(stack)-1]
		for _, p := range g.Preds(cur) {
			if !seen[p] {
				seen[p] = true
				stack = append(stack, p)
			}
		}
	}
	out := make([]int, 0, len(seen))
	for k := range seen {
		out = append(out, k)
	}
	sort.Ints(out)
	return out
}

// FilteredAncestors is the upward closure of n following only predecessors that keep accepts.
func FilteredAncestors(g *gen.DAG, n int, keep func(int) bool) []int {
	seen := map[int]bool{n: true}
	stack := []int{n}
	for len(stack) > 0 {
		cur := stack[len(stack)-1]
		stack = stack[:len(stack)-1]
		for _, p := range g.Preds(cur) {
			if !seen[p] && keep(p) {
				seen[p] = true
				stack = append(stack, p)
			}
		}
	}
	out := make([]int, 0, len(seen))
	for k := range seen {
		out = append(out, k)
	}
	sort.Ints(out)
	return out
}

// ReferrerAncestors is the upward closure of n under subject links only.
func ReferrerAncestors(g *gen.DAG, n int) []int {
	seen := map[int]bool{n: true}
	stack := []int{n}
	for len(stack) > 0 {
		cur := stack[len(stack)-1]
		stack = stack[:len(stack)-1]
		for _, p := range g.Referrers(cur) {
			if !seen[p] {
				seen[p] = true
				stack = append(stack, p)
			}
		}
	}
	out := make([]int, 0, len(seen))
	for k := range seen {
		out = append(out, k)
	}
	sort.Ints(out)
	return out
}

// ExpectedSet is the set of nodes a successful fault-free call must leave in
// the destination: reach(expected root) for Copy/CopyGraph, the union of the
// graphs of every ancestor for unlimited-depth ExtendedCopy*.
func (c *Case) ExpectedSet() []int {
	switch c.API {
	case "ExtendedCopyGraph", "ExtendedCopy":
		if c.SubjectOnly {
			return c.G.Reach(ReferrerAncestors(c.G, c.Root)...)
		}
		if c.FilterAnno != "" {
			return c.G.Reach(FilteredAncestors(c.G, c.Root, func(p int) bool {
				_, ok := c.G.Nodes[p].Annotations[c.FilterAnno]
				return ok
			})...)
		}
		return c.G.Reach(Ancestors(c.G, c.Root)...)
	}
	if c.Expect < 0 {
		return nil
	}
	return c.G.Reach(c.Expect)
}

// MissingFrom lists the nodes of want that are absent or differ in st.
func MissingFrom(ctx context.Context, st content.ReadOnlyStorage, g *gen.DAG, want []int) []int {
	var out []int
	for _, n := range want {
		ok, err := st.Exists(ctx, g.Nodes[n].Desc)
		if err != nil || !ok || !SameBytes(ctx, st, g, n) {
			out = append(out, n)
		}
	}
	return out
}

// Outcome is the result of a supervised call.
type Outcome struct {
	Returned ocispec.Descriptor
	Err      error
	Hung     bool     // no return, no progress possible: every library goroutine parked, no storage operation in flight
	Stuck    bool     // watchdog fired without the logical proof of a hang (inconclusive)
	Dump     []string // goroutine stacks at the time of the verdict
	Leaked   []string // library goroutines still alive after the call returned
	// StallReleased: the call waited only for operations held by a "stall" fault although no
	// injected error had been hit (nothing obliged the library to cancel them); the supervisor
	// cancelled the caller's context to let the call end. No verdict follows from such a run.
	StallReleased bool
}

// RunSupervised runs the call in a goroutine under a logical hang monitor:
// the call is declared hung when it has not returned, the wrappers' progress
// counter has not moved and no storage operation is in flight across
// `samples` consecutive samples, and every goroutine with a library frame is
// parked on a channel / select / semaphore. A generous wall-clock watchdog
// alone yields Stuck (inconclusive).
func (c *Case) RunSupervised(ctx context.Context, e *Env, watchdog time.Duration) Outcome {
	type ret struct {
		d   ocispec.Descriptor
		err error
	}
	done := make(chan ret, 1)
	go func() {
		d, err := c.Run(ctx, e)
		done <- ret{d, err}
	}()
	var out Outcome
	deadline := time.Now().Add(watchdog)
	lastOps := int64(-1)
	still := 0
	tick := time.NewTicker(25 * time.Millisecond)
	defer tick.Stop()
	for {
		select {
		case r := <-done:
			out.Returned, out.Err = r.d, r.err
			// goroutines of the call must be gone after it returned. A goroutine that is still
			// running or runnable is not a leak however long the machine takes to schedule it:
			// a leak is declared only for goroutines that are parked (nothing will wake them) in
			// two samples taken apart, after the others have had time to finish.
			for i := 0; i < 6000; i++ {
				out.Leaked = OrasGoroutines()
				if len(out.Leaked) == 0 {
					break
				}
				if i >= 200 && AllParked(out.Leaked) {
					time.Sleep(300 * time.Millisecond)
					again := OrasGoroutines()
					if len(again) > 0 && AllParked(again) {
						out.Leaked = again
						break
					}
					continue
				}
				time.Sleep(5 * time.Millisecond)
			}
			if len(out.Leaked) > 0 && !AllParked(out.Leaked) {
				out.Leaked = nil // still busy after the generous wait: no verdict
				out.Stuck = true
			}
			return out
		case <-tick.C:
			ops := e.Mon.Ops()
			src, dst := e.Mon.Inflight()
			stalled := e.Mon.Stalled()
			if ops == lastOps && src+dst-stalled <= 0 {
				still++
			} else {
				still = 0
			}
			lastOps = ops
			if still >= 80 { // 2 s without any boundary event and nothing in flight
				stacks := OrasGoroutines()
				if AllParked(stacks) {
					// confirm: still parked and still no progress a little later
					time.Sleep(300 * time.Millisecond)
					stacks2 := OrasGoroutines()
					select {
					case r := <-done:
						out.Returned, out.Err = r.d, r.err
						return out
					default:
					}
					if e.Mon.Ops() == ops && AllParked(stacks2) {
						if stalled > 0 {
							errorHit := false
							for _, f := range e.Mon.HitFaults() {
								if f.Kind == "error" {
									errorHit = true
								}
							}
							if !errorHit && e.Mon.Cancel != nil && !out.StallReleased {
								// nothing failed, so nothing had to interrupt the silent operation
								out.StallReleased = true
								e.Mon.Cancel()
								still = 0
								continue
							}
						}
						out.Hung, out.Dump = true, stacks2
						return out
					}
				}
				still = 0
			}
			if time.Now().After(deadline) {
				out.Stuck, out.Dump = true, OrasGoroutines()
				return out
			}
		}
	}
}

// Diamond names a node A shared by two parents inside a node set, one of its
// parents P and another successor B of P (a sibling of A under P).
type Diamond struct{ A, P, B int }

// Diamonds lists the diamond shapes among nodes.
func Diamonds(g *gen.DAG, nodes []int) []Diamond {
	in := map[int]bool{}
	for _, n := range nodes {
		in[n] = true
	}
	var out []Diamond
	for _, a := range nodes {
		var parents []int
		for _, p := range g.Preds(a) {
			if in[p] {
				parents = append(parents, p)
			}
		}
		if len(parents) < 2 {
			continue
		}
		for _, p := range parents {
			for _, b := range g.SuccSet(p) {
				if b != a {
					out = append(out, Diamond{a, p, b})
				}
			}
		}
	}
	return out
}
