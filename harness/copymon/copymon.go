// Package copymon holds the monitors of the copy family (C01–C04): wrappers
// around the source and destination of a copy call that record a trace,
// maintain in-flight gauges and per-node counters, check link-closure at the
// completion of every destination push, inject latency and faults at points
// named (operation, node, ordinal), and the offline checkers over what was
// recorded. All monitor state is updated under one mutex together with a
// logical sequence number, so the monitor cannot itself race.
package copymon

import (
	"bytes"
	"context"
	"errors"
	"fmt"
	"hash/fnv"
	"io"
	"runtime"
	"sort"
	"strings"
	"sync"
	"sync/atomic"
	"time"

	ocispec "github.com/opencontainers/image-spec/specs-go/v1"
	oras "oras.land/oras-go/v2"
	"oras.land/oras-go/v2/content"
	"oras.land/oras-go/v2/errdef"
	"oras.land/oras-go/v2/registry"
	"oras.land/oras-go/v2/verifharness/gen"
)

// ErrInjected is the root of every injected error.
var ErrInjected = errors.New("verif: injected fault")

// Event is one recorded boundary event.
type Event struct {
	Seq  int64
	Kind string // fetch, fetch-close, push, push-done, push-fail, exists, tag, pushref, pushref-done, mount, pre, post, skipped, mounted, preds, resolve, fetchref
	Node int    // node id in the DAG, -1 when the descriptor is unknown to the generator
}

// Fault is one injected fault.
type Fault struct {
	Point string // "<op>:<node>#<ordinal>"
	Kind  string // "error", "cancel" (the operation reports the cancellation), "cancel-silent" (the context is cancelled, the operation still answers normally) or "stall" (the operation ends only when its context does)
	Hit   bool
	Err   error
}

// Mon is the monitor shared by the source and destination wrappers of one copy call.
type Mon struct {
	G *gen.DAG

	stalled int // operations held by a "stall" fault
	// Omit names the callbacks ("pre", "post", "skipped", "mounted") the caller leaves unset.
	Omit map[string]bool

	mu          sync.Mutex
	seq         int64
	Events      []Event
	srcInflight int
	dstInflight int
	MaxSrc      int
	MaxDst      int
	FetchCount  map[int]int
	PushCount   map[int]int // completed or attempted pushes per node (Push and PushReference)
	MountCount  map[int]int
	Closure     []string // link-closure violations observed at push completion
	Unknown     []string // operations on descriptors the generator does not know
	Reached     map[string]int
	reachedSeq  []string
	Faults      []*Fault
	Cancel      context.CancelFunc

	// RaceNode, when >= 0, is pushed to the underlying destination by the
	// wrapper itself just before the library's own push of that node reaches
	// it (a concurrent writer winning the race): the library's push then
	// meets already-exists.
	RaceNode int
	raced    bool
	// SlowNode holds extra latency for the destination push of particular
	// nodes (a slow sibling keeps a failure elsewhere from propagating at once).
	SlowNode map[int]time.Duration
	// latency injection
	DelaySeed uint64
	DelayMax  time.Duration // 0: no sleeping, only Gosched bursts
	// ExemptFetch marks nodes whose source reads before the graph copy are not
	// "copy work" (config blobs read by platform selection).
	ops atomic.Int64
}

// New creates a monitor for a DAG.
func New(g *gen.DAG) *Mon {
	return &Mon{G: g, FetchCount: map[int]int{}, PushCount: map[int]int{}, MountCount: map[int]int{}, Reached: map[string]int{}, RaceNode: -1}
}

// Ops returns the logical progress counter (boundary operations started or finished).
func (m *Mon) Ops() int64 { return m.ops.Load() }

// Inflight returns the current gauges.
// Stalled is the number of operations currently held by a "stall" fault.
func (m *Mon) Stalled() int {
	m.mu.Lock()
	defer m.mu.Unlock()
	return m.stalled
}

func (m *Mon) Inflight() (src, dst int) {
	m.mu.Lock()
	defer m.mu.Unlock()
	return m.srcInflight, m.dstInflight
}

func (m *Mon) node(d ocispec.Descriptor) int {
	if id, ok := m.G.Lookup(d); ok {
		return id
	}
	return -1
}

func (m *Mon) record(kind string, node int) {
	m.seq++
	m.Events = append(m.Events, Event{Seq: m.seq, Kind: kind, Node: node})
}

// delay perturbs the schedule at an (op, node) boundary.
func (m *Mon) delay(op string, node int) {
	m.ops.Add(1)
	h := fnv.New64a()
	fmt.Fprintf(h, "%d/%s/%d", m.DelaySeed, op, node)
	v := h.Sum64()
	for i := uint64(0); i < v%4; i++ {
		runtime.Gosched()
	}
	if m.DelayMax > 0 && (v>>8)%3 != 0 {
		time.Sleep(time.Duration((v >> 16) % uint64(m.DelayMax)))
	}
	if op == "dst.Push" {
		if d, ok := m.SlowNode[node]; ok {
			time.Sleep(d)
		}
	}
}

// at registers that a fault point was reached and returns the injected error, if any.
func (m *Mon) at(ctx context.Context, op string, node int) error {
	m.mu.Lock()
	base := fmt.Sprintf("%s:%d", op, node)
	ord := m.Reached[base]
	m.Reached[base] = ord + 1
	point := fmt.Sprintf("%s#%d", base, ord)
	m.reachedSeq = append(m.reachedSeq, point)
	var hit *Fault
	for _, f := range m.Faults {
		if f.Point == point && !f.Hit {
			f.Hit = true
			hit = f
			break
		}
	}
	cancel := m.Cancel
	m.mu.Unlock()
	if hit == nil {
		return nil
	}
	if hit.Kind == "stall" {
		// an operation that only ends when its context does (a read from a silent peer)
		m.mu.Lock()
		m.stalled++
		m.mu.Unlock()
		<-ctx.Done()
		m.mu.Lock()
		m.stalled--
		m.mu.Unlock()
		return ctx.Err()
	}
	if hit.Kind == "cancel" || hit.Kind == "cancel-silent" {
		if cancel != nil {
			cancel()
		}
		if strings.Contains(op, ".after") || hit.Kind == "cancel-silent" {
			// the operation itself still answers normally
			return nil
		}
		if err := ctx.Err(); err != nil {
			return err
		}
		return context.Canceled
	}
	hit.Err = fmt.Errorf("%w at %s", ErrInjected, point)
	return hit.Err
}

// ReachedPoints lists the fault points reached so far, in order.
func (m *Mon) ReachedPoints() []string {
	m.mu.Lock()
	defer m.mu.Unlock()
	return append([]string{}, m.reachedSeq...)
}

// HitFaults returns the faults that were actually injected.
func (m *Mon) HitFaults() []*Fault {
	m.mu.Lock()
	defer m.mu.Unlock()
	var out []*Fault
	for _, f := range m.Faults {
		if f.Hit {
			out = append(out, f)
		}
	}
	return out
}

// ---------------------------------------------------------------- source

// Src wraps a copy source.
type Src struct {
	M *Mon
	U oras.ReadOnlyGraphTarget
}

type monReader struct {
	m      *Mon
	rc     io.ReadCloser
	node   int
	closed bool
	ctx    context.Context
	read   int64
	size   int64
	midErr bool
}

func (r *monReader) Read(p []byte) (int, error) {
	if r.read == 0 {
		if err := r.m.at(r.ctx, "src.Read", r.node); err != nil {
			return 0, err
		}
	}
	if !r.midErr && r.size > 1 && r.read >= r.size/2 {
		r.midErr = true
		if err := r.m.at(r.ctx, "src.ReadMid", r.node); err != nil {
			return 0, err
		}
	}
	if r.size > 1 && r.read < r.size/2 && int64(len(p)) > r.size/2-r.read {
		p = p[:r.size/2-r.read]
	}
	n, err := r.rc.Read(p)
	r.read += int64(n)
	return n, err
}

func (r *monReader) Close() error {
	r.m.mu.Lock()
	if !r.closed {
		r.closed = true
		r.m.srcInflight--
		r.m.record("fetch-close", r.node)
	}
	r.m.mu.Unlock()
	r.m.ops.Add(1)
	return r.rc.Close()
}

func (s *Src) Fetch(ctx context.Context, d ocispec.Descriptor) (io.ReadCloser, error) {
	m := s.M
	node := m.node(d)
	m.mu.Lock()
	m.srcInflight++
	if m.srcInflight > m.MaxSrc {
		m.MaxSrc = m.srcInflight
	}
	m.FetchCount[node]++
	m.record("fetch", node)
	m.mu.Unlock()
	fail := func(err error) (io.ReadCloser, error) {
		m.mu.Lock()
		m.srcInflight--
		m.record("fetch-close", node)
		m.mu.Unlock()
		return nil, err
	}
	m.delay("src.Fetch", node)
	if err := m.at(ctx, "src.Fetch", node); err != nil {
		return fail(err)
	}
	rc, err := s.U.Fetch(ctx, d)
	if err != nil {
		return fail(err)
	}
	return &monReader{m: m, rc: rc, node: node, ctx: ctx, size: d.Size}, nil
}

func (s *Src) Exists(ctx context.Context, d ocispec.Descriptor) (bool, error) {
	node := s.M.node(d)
	s.M.delay("src.Exists", node)
	if err := s.M.at(ctx, "src.Exists", node); err != nil {
		return false, err
	}
	return s.U.Exists(ctx, d)
}

func (s *Src) Resolve(ctx context.Context, ref string) (ocispec.Descriptor, error) {
	s.M.delay("src.Resolve", -1)
	if err := s.M.at(ctx, "src.Resolve", -1); err != nil {
		return ocispec.Descriptor{}, err
	}
	return s.U.Resolve(ctx, ref)
}

func (s *Src) Predecessors(ctx context.Context, d ocispec.Descriptor) ([]ocispec.Descriptor, error) {
	node := s.M.node(d)
	s.M.mu.Lock()
	s.M.record("preds", node)
	s.M.mu.Unlock()
	s.M.delay("src.Predecessors", node)
	if err := s.M.at(ctx, "src.Predecessors", node); err != nil {
		return nil, err
	}
	return s.U.Predecessors(ctx, d)
}

// SrcRef additionally offers FetchReference (exercises the ReferenceFetcher path of Copy).
type SrcRef struct {
	*Src
	RF registry.ReferenceFetcher
}

func (s *SrcRef) FetchReference(ctx context.Context, ref string) (ocispec.Descriptor, io.ReadCloser, error) {
	m := s.M
	m.delay("src.FetchReference", -1)
	if err := m.at(ctx, "src.FetchReference", -1); err != nil {
		return ocispec.Descriptor{}, nil, err
	}
	d, rc, err := s.RF.FetchReference(ctx, ref)
	if err != nil {
		return d, rc, err
	}
	node := m.node(d)
	m.mu.Lock()
	m.srcInflight++
	if m.srcInflight > m.MaxSrc {
		m.MaxSrc = m.srcInflight
	}
	m.record("fetchref", node)
	m.mu.Unlock()
	return d, &monReader{m: m, rc: rc, node: node, ctx: ctx, size: d.Size, midErr: true, read: 1}, nil
}

// SrcLister additionally offers Referrers (exercises the ReferrerLister path of the filters).
type SrcLister struct {
	*SrcRef
	RL registry.ReferrerLister
}

func (s *SrcLister) Referrers(ctx context.Context, d ocispec.Descriptor, artifactType string, fn func([]ocispec.Descriptor) error) error {
	node := s.M.node(d)
	s.M.mu.Lock()
	s.M.record("preds", node)
	s.M.mu.Unlock()
	s.M.delay("src.Predecessors", node)
	if err := s.M.at(ctx, "src.Predecessors", node); err != nil {
		return err
	}
	return s.RL.Referrers(ctx, d, artifactType, fn)
}

// WrapSrc wraps u, preserving its optional interfaces.
func WrapSrc(m *Mon, u oras.ReadOnlyGraphTarget) oras.ReadOnlyGraphTarget {
	base := &Src{M: m, U: u}
	rf, isRF := u.(registry.ReferenceFetcher)
	if !isRF {
		return base
	}
	sr := &SrcRef{Src: base, RF: rf}
	if rl, ok := u.(registry.ReferrerLister); ok {
		return &SrcLister{SrcRef: sr, RL: rl}
	}
	return sr
}

// ---------------------------------------------------------------- destination

// Dst wraps a copy destination.
type Dst struct {
	M *Mon
	U oras.Target
}

func (d *Dst) enter(kind string, node int) {
	m := d.M
	m.mu.Lock()
	m.dstInflight++
	if m.dstInflight > m.MaxDst {
		m.MaxDst = m.dstInflight
	}
	m.record(kind, node)
	m.mu.Unlock()
}

func (d *Dst) leave(kind string, node int) {
	m := d.M
	m.mu.Lock()
	m.dstInflight--
	if kind != "" {
		m.record(kind, node)
	}
	m.mu.Unlock()
	m.ops.Add(1)
}

func (d *Dst) Fetch(ctx context.Context, desc ocispec.Descriptor) (io.ReadCloser, error) {
	return d.U.Fetch(ctx, desc)
}

func (d *Dst) Exists(ctx context.Context, desc ocispec.Descriptor) (bool, error) {
	node := d.M.node(desc)
	d.enter("exists", node)
	defer d.leave("", node)
	d.M.delay("dst.Exists", node)
	if err := d.M.at(ctx, "dst.Exists", node); err != nil {
		return false, err
	}
	return d.U.Exists(ctx, desc)
}

// closure checks, at the completion of the push of node, that every successor
// is present in the underlying store.
func (d *Dst) closure(ctx context.Context, node int) {
	if node < 0 {
		return
	}
	for _, s := range d.M.G.SuccSet(node) {
		ok, err := d.U.Exists(context.WithoutCancel(ctx), d.M.G.Nodes[s].Desc)
		if err != nil || !ok {
			d.M.mu.Lock()
			d.M.Closure = append(d.M.Closure, fmt.Sprintf("push of node %d (%s) completed while successor %d (%s) is absent (err=%v)",
				node, d.M.G.Nodes[node].Kind, s, d.M.G.Nodes[s].Kind, err))
			d.M.mu.Unlock()
		}
	}
}

func (d *Dst) Push(ctx context.Context, desc ocispec.Descriptor, r io.Reader) error {
	m := d.M
	node := m.node(desc)
	d.enter("push", node)
	m.mu.Lock()
	m.PushCount[node]++
	if node < 0 {
		m.Unknown = append(m.Unknown, "push "+gen.Key(desc))
	}
	m.mu.Unlock()
	m.delay("dst.Push", node)
	if err := m.at(ctx, "dst.Push.before", node); err != nil {
		d.leave("push-fail", node)
		return err
	}
	if node >= 0 && node == m.RaceNode {
		m.mu.Lock()
		first := !m.raced
		m.raced = true
		m.mu.Unlock()
		if first {
			// the other writer honours link-closure too: only a node whose
			// successors are present is pushed
			ok := true
			for _, s := range m.G.SuccSet(node) {
				if ex, err := d.U.Exists(ctx, m.G.Nodes[s].Desc); err != nil || !ex {
					ok = false
				}
			}
			if ok {
				_ = d.U.Push(context.WithoutCancel(ctx), m.G.Nodes[node].Desc, bytes.NewReader(m.G.Nodes[node].Bytes))
			}
		}
	}
	err := d.U.Push(ctx, desc, r)
	if err != nil {
		if errors.Is(err, errdef.ErrAlreadyExists) {
			// the content is there: for the accounting this push is complete
			d.closure(ctx, node)
			d.leave("push-done", node)
			return err
		}
		d.leave("push-fail", node)
		return err
	}
	d.closure(ctx, node)
	if err := m.at(ctx, "dst.Push.after", node); err != nil {
		d.leave("push-done", node)
		return err
	}
	d.leave("push-done", node)
	return nil
}

func (d *Dst) Resolve(ctx context.Context, ref string) (ocispec.Descriptor, error) {
	return d.U.Resolve(ctx, ref)
}

func (d *Dst) Tag(ctx context.Context, desc ocispec.Descriptor, ref string) error {
	node := d.M.node(desc)
	d.enter("tag", node)
	defer d.leave("", node)
	d.M.delay("dst.Tag", node)
	if err := d.M.at(ctx, "dst.Tag", node); err != nil {
		return err
	}
	return d.U.Tag(ctx, desc, ref)
}

// DstRef additionally offers PushReference.
type DstRef struct {
	*Dst
	RP registry.ReferencePusher
}

func (d *DstRef) PushReference(ctx context.Context, desc ocispec.Descriptor, r io.Reader, ref string) error {
	m := d.M
	node := m.node(desc)
	d.enter("pushref", node)
	m.mu.Lock()
	m.PushCount[node]++
	m.mu.Unlock()
	m.delay("dst.PushReference", node)
	if err := m.at(ctx, "dst.PushReference.before", node); err != nil {
		d.leave("push-fail", node)
		return err
	}
	if err := d.RP.PushReference(ctx, desc, r, ref); err != nil {
		d.leave("push-fail", node)
		return err
	}
	d.closure(ctx, node)
	if err := m.at(ctx, "dst.PushReference.after", node); err != nil {
		d.leave("pushref-done", node)
		return err
	}
	d.leave("pushref-done", node)
	return nil
}

// DstMount additionally offers Mount.
type DstMount struct {
	*DstRef
	MT registry.Mounter
}

func (d *DstMount) Mount(ctx context.Context, desc ocispec.Descriptor, fromRepo string, getContent func() (io.ReadCloser, error)) error {
	m := d.M
	node := m.node(desc)
	d.enter("mount", node)
	m.mu.Lock()
	m.MountCount[node]++
	m.mu.Unlock()
	defer d.leave("mount-done", node)
	m.delay("dst.Mount", node)
	if err := m.at(ctx, "dst.Mount", node); err != nil {
		return err
	}
	pushed := false
	gc := getContent
	if getContent != nil {
		gc = func() (io.ReadCloser, error) {
			rc, err := getContent()
			if err == nil {
				pushed = true
			}
			return rc, err
		}
	}
	err := d.MT.Mount(ctx, desc, fromRepo, gc)
	if err == nil && pushed {
		m.mu.Lock()
		m.PushCount[node]++
		m.record("push-done", node)
		m.mu.Unlock()
	}
	return err
}

// WrapDst wraps u, preserving its optional interfaces.
func WrapDst(m *Mon, u oras.Target) oras.Target {
	base := &Dst{M: m, U: u}
	rp, ok := u.(registry.ReferencePusher)
	if !ok {
		return base
	}
	dr := &DstRef{Dst: base, RP: rp}
	if mt, ok := u.(registry.Mounter); ok {
		return &DstMount{DstRef: dr, MT: mt}
	}
	return dr
}

// ---------------------------------------------------------------- callbacks

// Hooks installs recording (and fault-injecting) callbacks into opts.
func (m *Mon) Hooks(opts *oras.CopyGraphOptions) {
	cb := func(kind, op string) func(ctx context.Context, desc ocispec.Descriptor) error {
		return func(ctx context.Context, desc ocispec.Descriptor) error {
			node := m.node(desc)
			m.mu.Lock()
			m.record(kind, node)
			m.mu.Unlock()
			m.ops.Add(1)
			return m.at(ctx, op, node)
		}
	}
	if !m.Omit["pre"] {
		opts.PreCopy = cb("pre", "cb.PreCopy")
	}
	if !m.Omit["post"] {
		opts.PostCopy = cb("post", "cb.PostCopy")
	}
	if !m.Omit["skipped"] {
		opts.OnCopySkipped = cb("skipped", "cb.OnCopySkipped")
	}
	if !m.Omit["mounted"] {
		opts.OnMounted = cb("mounted", "cb.OnMounted")
	}
}

// ---------------------------------------------------------------- oracles

// CheckComplete verifies, through the unwrapped destination, that every node
// reachable from root exists with the generator's bytes. It returns the ids of
// missing or differing nodes.
func CheckComplete(ctx context.Context, dst content.ReadOnlyStorage, g *gen.DAG, root int) (missing []int, differing []int) {
	for _, n := range g.Reach(root) {
		nd := g.Nodes[n]
		ok, err := dst.Exists(ctx, nd.Desc)
		if err != nil || !ok {
			missing = append(missing, n)
			continue
		}
		b, err := content.FetchAll(ctx, dst, nd.Desc)
		if err != nil || !bytes.Equal(b, nd.Bytes) {
			differing = append(differing, n)
		}
	}
	return
}

// CheckClosed verifies that the destination is closed under links: every
// present node's successors are present. It returns descriptions of the gaps.
func CheckClosed(ctx context.Context, dst content.ReadOnlyStorage, g *gen.DAG) []string {
	var out []string
	present := map[int]bool{}
	for _, nd := range g.Nodes {
		if ok, err := dst.Exists(ctx, nd.Desc); err == nil && ok {
			present[nd.ID] = true
		}
	}
	for n := range present {
		for _, s := range g.SuccSet(n) {
			if !present[s] {
				out = append(out, fmt.Sprintf("node %d (%s) present, successor %d (%s) absent", n, g.Nodes[n].Kind, s, g.Nodes[s].Kind))
			}
		}
	}
	sort.Strings(out)
	return out
}

// Present returns the set of DAG nodes present in a store.
func Present(ctx context.Context, dst content.ReadOnlyStorage, g *gen.DAG) map[int]bool {
	present := map[int]bool{}
	for _, nd := range g.Nodes {
		if ok, err := dst.Exists(ctx, nd.Desc); err == nil && ok {
			present[nd.ID] = true
		}
	}
	return present
}

// CheckAccounting checks the C04 counters and gauges. exemptFetch lists nodes
// whose source reads are not limited (manifests are never limited).
func (m *Mon) CheckAccounting(concurrency int, exemptFetch map[int]bool) []string {
	m.mu.Lock()
	defer m.mu.Unlock()
	var out []string
	if concurrency <= 0 {
		concurrency = 3
	}
	if m.MaxSrc > concurrency {
		out = append(out, fmt.Sprintf("gauge: %d source reads in flight > Concurrency %d", m.MaxSrc, concurrency))
	}
	if m.MaxDst > concurrency {
		out = append(out, fmt.Sprintf("gauge: %d destination operations in flight > Concurrency %d", m.MaxDst, concurrency))
	}
	for n, c := range m.FetchCount {
		if n < 0 || c <= 1 || exemptFetch[n] {
			continue
		}
		if m.G.Nodes[n].Kind.IsManifestKind() {
			continue
		}
		out = append(out, fmt.Sprintf("fetch-twice: blob node %d (%s) fetched %d times from the source", n, m.G.Nodes[n].Kind, c))
	}
	for n, c := range m.PushCount {
		if n >= 0 && c > 1 {
			out = append(out, fmt.Sprintf("push-twice: node %d (%s) pushed %d times to the destination", n, m.G.Nodes[n].Kind, c))
		}
	}
	sort.Strings(out)
	return out
}

// CheckCallbacks checks the callback trace against the C04 statement.
// Only meaningful for calls that returned nil. presentBefore lists the nodes
// that were in the destination before the call.
func (m *Mon) CheckCallbacks(presentBefore map[int]bool) []string {
	m.mu.Lock()
	defer m.mu.Unlock()
	var out []string
	type st struct {
		pre, post, skipped, mounted []int64
		pushed                      bool
		pushDone                    int64
		mountedOK                   bool
	}
	nodes := map[int]*st{}
	get := func(n int) *st {
		s := nodes[n]
		if s == nil {
			s = &st{}
			nodes[n] = s
		}
		return s
	}
	for _, e := range m.Events {
		s := get(e.Node)
		switch e.Kind {
		case "pre":
			s.pre = append(s.pre, e.Seq)
		case "post":
			s.post = append(s.post, e.Seq)
		case "skipped":
			s.skipped = append(s.skipped, e.Seq)
		case "mounted":
			s.mounted = append(s.mounted, e.Seq)
		case "push-done", "pushref-done":
			if e.Kind == "pushref-done" && presentBefore[e.Node] {
				// a root found present is tagged by pushing it again with the
				// reference: tagging, not a transfer
				continue
			}
			s.pushed = true
			s.pushDone = e.Seq
		}
	}
	terminal := func(n int) (int64, bool) {
		s := nodes[n]
		if s == nil {
			return 0, false
		}
		var t int64
		for _, l := range [][]int64{s.post, s.skipped, s.mounted} {
			for _, v := range l {
				if v > t {
					t = v
				}
			}
		}
		return t, t > 0
	}
	for n, s := range nodes {
		if n < 0 {
			continue
		}
		if len(s.skipped) > 1 {
			out = append(out, fmt.Sprintf("callbacks: node %d got %d OnCopySkipped", n, len(s.skipped)))
		}
		if s.pushed {
			wantPre, wantPost := 1, 1
			if m.Omit["pre"] {
				wantPre = 0
			}
			if m.Omit["post"] {
				wantPost = 0
			}
			if wantPre == 0 || wantPost == 0 {
				// a callback the caller left unset cannot be observed: only the installed one is counted
				if len(s.pre) != wantPre || len(s.post) != wantPost {
					out = append(out, fmt.Sprintf("callbacks: transferred node %d got %d PreCopy and %d PostCopy (installed: pre=%v post=%v)", n, len(s.pre), len(s.post), wantPre == 1, wantPost == 1))
				}
				continue
			}
			if len(s.pre) != 1 || len(s.post) != 1 {
				out = append(out, fmt.Sprintf("callbacks: transferred node %d got %d PreCopy and %d PostCopy", n, len(s.pre), len(s.post)))
				continue
			}
			if s.pre[0] > s.post[0] {
				out = append(out, fmt.Sprintf("callbacks: node %d PostCopy (seq %d) before PreCopy (seq %d)", n, s.post[0], s.pre[0]))
			}
			if s.pre[0] > s.pushDone || s.post[0] < s.pushDone {
				out = append(out, fmt.Sprintf("callbacks: node %d PreCopy/push/PostCopy out of order (%d/%d/%d)", n, s.pre[0], s.pushDone, s.post[0]))
			}
			if len(s.mounted) != 0 {
				out = append(out, fmt.Sprintf("callbacks: pushed node %d also got OnMounted", n))
			}
		} else if len(s.mounted) > 0 {
			if len(s.mounted) != 1 || len(s.post) != 0 {
				out = append(out, fmt.Sprintf("callbacks: mounted node %d got %d OnMounted and %d PostCopy", n, len(s.mounted), len(s.post)))
			}
		} else if len(s.post) > 0 {
			out = append(out, fmt.Sprintf("callbacks: node %d got PostCopy without a transfer", n))
		}
		if len(s.post) == 1 && len(m.Omit) == 0 {
			for _, c := range m.G.SuccSet(n) {
				if t, ok := terminal(c); ok && t > s.post[0] {
					out = append(out, fmt.Sprintf("callbacks: PostCopy of node %d (seq %d) precedes the terminal notification of its successor %d (seq %d)", n, s.post[0], c, t))
				}
			}
		}
	}
	sort.Strings(out)
	return out
}

// TraceHash summarises the order of boundary events (distinct interleavings seen).
func (m *Mon) TraceHash(kinds ...string) string {
	m.mu.Lock()
	defer m.mu.Unlock()
	want := map[string]bool{}
	for _, k := range kinds {
		want[k] = true
	}
	h := fnv.New64a()
	for _, e := range m.Events {
		if len(want) == 0 || want[e.Kind] {
			fmt.Fprintf(h, "%s%d,", e.Kind[:2], e.Node)
		}
	}
	return fmt.Sprintf("%016x", h.Sum64())
}

// PushedNodes returns the nodes whose push completed, in completion order.
func (m *Mon) PushedNodes() []int {
	m.mu.Lock()
	defer m.mu.Unlock()
	var out []int
	for _, e := range m.Events {
		if e.Kind == "push-done" || e.Kind == "pushref-done" {
			out = append(out, e.Node)
		}
	}
	return out
}

// EventCount returns the number of recorded events.
func (m *Mon) EventCount() int {
	m.mu.Lock()
	defer m.mu.Unlock()
	return len(m.Events)
}

// OrasGoroutines returns the stacks of goroutines that have a frame of the
// library (not of the harness) — used for leak and deadlock classification.
func OrasGoroutines() []string {
	buf := make([]byte, 1<<20)
	for {
		n := runtime.Stack(buf, true)
		if n < len(buf) {
			buf = buf[:n]
			break
		}
		buf = make([]byte, 2*len(buf))
	}
	var out []string
	for _, g := range strings.Split(string(buf), "\n\n") {
		lib := false
		for _, l := range strings.Split(g, "\n") {
			if strings.HasPrefix(l, "oras.land/oras-go/v2") && !strings.Contains(l, "verifharness") {
				lib = true
				break
			}
		}
		if lib {
			out = append(out, g)
		}
	}
	return out
}

// AllParked reports whether every given goroutine stack is blocked in a
// channel operation, select or semaphore wait (no runnable library goroutine).
func AllParked(stacks []string) bool {
	for _, g := range stacks {
		first := g
		if i := strings.Index(g, "\n"); i > 0 {
			first = g[:i]
		}
		parked := false
		for _, s := range []string{"[chan receive", "[chan send", "[select", "[semacquire", "[sync.Mutex.Lock", "[sync.WaitGroup.Wait", "[sync.Cond.Wait", "[sync.RWMutex"} {
			if strings.Contains(first, s) {
				parked = true
			}
		}
		if !parked {
			return false
		}
	}
	return len(stacks) > 0
}
