package mon

import (
	"os"
	"path/filepath"
	"regexp"
	"strings"

	"oras.land/oras-go/v2/verifharness/evidence"
)

var lineNo = regexp.MustCompile(`:\d+ \+0x[0-9a-f]+|:\d+`)

// ReportRaces parses the race detector logs under dir (GORACE log_path=dir/race),
// de-duplicates the reports by stack pair with line numbers stripped, and
// reports each distinct one: a report with a library frame outside the harness
// is a violation keyed "race"; a report whose frames are all harness frames
// marks the harness itself as broken ("harness:race").
func ReportRaces(r *evidence.Run, dir string) {
	files, _ := filepath.Glob(filepath.Join(dir, "race*"))
	seen := map[string]bool{}
	total, lib := 0, 0
	for _, f := range files {
		b, _ := os.ReadFile(f)
		for _, blk := range strings.Split(string(b), "==================") {
			if !strings.Contains(blk, "WARNING: DATA RACE") {
				continue
			}
			total++
			var frames []string
			isLib := false
			for _, l := range strings.Split(blk, "\n") {
				t := strings.TrimSpace(l)
				if strings.HasPrefix(t, "oras.land/") || strings.HasPrefix(t, "main.") {
					frames = append(frames, lineNo.ReplaceAllString(t, ""))
					if strings.HasPrefix(t, "oras.land/oras-go/v2") && !strings.Contains(t, "verifharness") {
						isLib = true
					}
				}
			}
			sig := strings.Join(frames, "|")
			if seen[sig] {
				continue
			}
			seen[sig] = true
			if isLib {
				lib++
				r.Violation("race", "data race reported by the Go race detector with a library frame", blk)
			} else {
				r.Violation("harness:race", "data race inside the harness itself", blk)
			}
		}
	}
	r.Set("race_reports_total", total)
	r.Set("race_reports_distinct", len(seen))
	r.Set("race_reports_in_library", lib)
}
