// Package mon holds small monitors shared by the checks.
package mon

import "syscall"

// Mark issues the marker system call recognised by tools/crashat
// (ioctl(-1, 'VERI', n): harmless EBADF). n = 1 opens the window in which
// file-system-mutating system calls are counted, n = 2 closes it.
func Mark(n uintptr) {
	syscall.Syscall(syscall.SYS_IOCTL, ^uintptr(0), 0x56455249, n)
}
