// Package regmodel is a small stateful model of an OCI distribution-spec
// registry, served over HTTP on loopback. It is the "registry that follows the
// specification" of properties C01-C04 (remote pairings), C13, C14 and C15:
// its state is read directly by oracles, every request it receives is passed
// through a validator that classifies it as allowed by the specification or
// not, and seeded knobs delay requests, inject failures and corrupt single
// response fields.
package regmodel

import (
	"bytes"
	"encoding/json"
	"fmt"
	"io"
	"net/http"
	"net/url"
	"regexp"
	"sort"
	"strconv"
	"strings"
	"sync"

	"github.com/opencontainers/go-digest"
	ocispec "github.com/opencontainers/image-spec/specs-go/v1"
)

// Profile is the capability profile of the modelled registry.
type Profile struct {
	ReferrersAPI   bool // serve /referrers/ and process subjects
	DigestHeader   bool // send Docker-Content-Digest
	Ranges         bool // Accept-Ranges: bytes and 206 on blob GET
	MountOK        bool // cross-repository mount answers 201 (else 202 fallback)
	UnknownLength  bool // GET bodies are sent without Content-Length
	PageSize       int  // server-imposed page size for listings (0: unlimited)
	HonourN        bool // honour the client's n= (else ignore it)
	LinkStyle      int  // 0 absolute URL, 1 absolute path, 2 relative, 3 extra parameters, 4 unquoted rel
	FilterMode     int  // referrers artifactType filter: 0 applied+declared, 1 not applied, 2 applied but undeclared
	StrictRefs     bool // refuse manifests whose config/layers/manifests are absent (as real registries do)
	EmptyLastPage  bool // when the item count is a multiple of the page size, send a Link to a final empty page
	ReferrersPaged bool // paginate the referrers response
	// Referrers404Code is the error code in the body of the 404 a registry
	// without the Referrers API answers with ("": bare 404).
	Referrers404Code string
}

// FullProfile is a registry with every optional capability.
func FullProfile() Profile {
	return Profile{ReferrersAPI: true, DigestHeader: true, Ranges: true, MountOK: true, HonourN: true, StrictRefs: true}
}

// Manifest is a stored manifest.
type Manifest struct {
	MediaType string
	Bytes     []byte
}

// Repo is the state of one repository.
type Repo struct {
	Blobs     map[digest.Digest][]byte
	Manifests map[digest.Digest]Manifest
	Order     []digest.Digest // manifest insertion order (referrers listing order)
	Tags      map[string]digest.Digest
}

// Record describes one received request and the validator's verdict.
type Record struct {
	Seq        int
	Method     string
	Path       string
	RawQuery   string
	Header     http.Header
	BodyLen    int64
	Kind       string // endpoint class: ping, catalog, manifest, blob, upload-start, upload-put, tags, referrers, unknown
	Repo       string
	Ref        string
	Status     int
	Violations []string
}

// Response is a response under construction; Mutate may alter it.
type Response struct {
	Status int
	Header http.Header
	Body   []byte
	// NoLength suppresses Content-Length (chunked transfer).
	NoLength bool
	// Drop closes the connection instead of answering.
	Drop bool
}

// Registry is the model.
type Registry struct {
	mu      sync.Mutex
	Profile Profile
	Repos   map[string]*Repo
	log     []*Record
	seq     int
	uploads map[string]string // session id -> repo
	nextUp  int
	links   map[string]bool // pagination URLs handed out (path?query)

	// Before is called (outside the lock) before a request is handled; it may
	// sleep. If it returns a non-nil response, that response is sent instead
	// (failure injection) and the state is untouched.
	Before func(rec *Record) *Response
	// After is called with the prepared response (single-field corruption).
	After func(rec *Record, resp *Response)
	// KeepHeaders keeps request headers in the log.
	KeepHeaders bool
}

// New creates an empty registry model.
func New(p Profile) *Registry {
	return &Registry{Profile: p, Repos: map[string]*Repo{}, uploads: map[string]string{}, links: map[string]bool{}}
}

// Repo returns (creating) the named repository. The caller must hold no lock;
// use WithLock for consistent reads during concurrent traffic.
func (g *Registry) Repo(name string) *Repo {
	g.mu.Lock()
	defer g.mu.Unlock()
	return g.repo(name)
}

func (g *Registry) repo(name string) *Repo {
	r := g.Repos[name]
	if r == nil {
		r = &Repo{Blobs: map[digest.Digest][]byte{}, Manifests: map[digest.Digest]Manifest{}, Tags: map[string]digest.Digest{}}
		g.Repos[name] = r
	}
	return r
}

// WithLock runs f with the model locked.
func (g *Registry) WithLock(f func()) {
	g.mu.Lock()
	defer g.mu.Unlock()
	f()
}

// Log returns a copy of the request log.
func (g *Registry) Log() []*Record {
	g.mu.Lock()
	defer g.mu.Unlock()
	return append([]*Record{}, g.log...)
}

// ResetLog clears the request log.
func (g *Registry) ResetLog() {
	g.mu.Lock()
	g.log = nil
	g.mu.Unlock()
}

// SpecViolations lists every request the validator did not allow.
func (g *Registry) SpecViolations() []string {
	g.mu.Lock()
	defer g.mu.Unlock()
	var out []string
	for _, r := range g.log {
		for _, v := range r.Violations {
			out = append(out, fmt.Sprintf("#%d %s %s?%s: %s", r.Seq, r.Method, r.Path, r.RawQuery, v))
		}
	}
	return out
}

// PutBlob stores a blob directly (test set-up).
func (g *Registry) PutBlob(repo string, data []byte) digest.Digest {
	g.mu.Lock()
	defer g.mu.Unlock()
	d := digest.FromBytes(data)
	g.repo(repo).Blobs[d] = append([]byte{}, data...)
	return d
}

// PutManifest stores a manifest directly (test set-up), optionally tagging it.
func (g *Registry) PutManifest(repo, mediaType string, data []byte, tags ...string) digest.Digest {
	g.mu.Lock()
	defer g.mu.Unlock()
	d := digest.FromBytes(data)
	r := g.repo(repo)
	if _, ok := r.Manifests[d]; !ok {
		r.Order = append(r.Order, d)
	}
	r.Manifests[d] = Manifest{MediaType: mediaType, Bytes: append([]byte{}, data...)}
	for _, t := range tags {
		r.Tags[t] = d
	}
	return d
}

var (
	nameRe   = regexp.MustCompile(`^[a-z0-9]+(?:(?:\.|_|__|-+)[a-z0-9]+)*(?:/[a-z0-9]+(?:(?:\.|_|__|-+)[a-z0-9]+)*)*$`)
	tagRe    = regexp.MustCompile(`^[a-zA-Z0-9_][a-zA-Z0-9._-]{0,127}$`)
	rangeRe  = regexp.MustCompile(`^bytes=(\d+)-(\d*)$`)
	digestRe = regexp.MustCompile(`^[a-z0-9]+(?:[+._-][a-z0-9]+)*:[a-zA-Z0-9=_-]+$`)
)

func validDigest(s string) bool {
	if !digestRe.MatchString(s) {
		return false
	}
	return digest.Digest(s).Validate() == nil
}

// route splits a /v2/ path.
func route(p string) (kind, repo, ref string) {
	if p == "/v2/" || p == "/v2" {
		return "ping", "", ""
	}
	if p == "/v2/_catalog" {
		return "catalog", "", ""
	}
	if !strings.HasPrefix(p, "/v2/") {
		return "unknown", "", ""
	}
	rest := p[len("/v2/"):]
	for _, seg := range []struct{ mark, kind string }{
		{"/manifests/", "manifest"}, {"/blobs/uploads/", "upload"}, {"/blobs/", "blob"}, {"/tags/list", "tags"}, {"/referrers/", "referrers"},
	} {
		if i := strings.LastIndex(rest, seg.mark); i > 0 {
			repo, ref = rest[:i], rest[i+len(seg.mark):]
			if seg.kind == "tags" && ref != "" {
				continue
			}
			return seg.kind, repo, ref
		}
	}
	if strings.HasSuffix(rest, "/blobs/uploads") {
		return "upload", strings.TrimSuffix(rest, "/blobs/uploads"), ""
	}
	return "unknown", "", ""
}

func (g *Registry) ServeHTTP(w http.ResponseWriter, r *http.Request) {
	body, _ := io.ReadAll(r.Body)
	rec := &Record{Method: r.Method, Path: r.URL.Path, RawQuery: r.URL.RawQuery, BodyLen: int64(len(body))}
	rec.Kind, rec.Repo, rec.Ref = route(r.URL.Path)
	if g.KeepHeaders {
		rec.Header = r.Header.Clone()
	}
	g.mu.Lock()
	g.seq++
	rec.Seq = g.seq
	g.log = append(g.log, rec)
	before := g.Before
	g.mu.Unlock()

	g.validate(rec, r, body)

	var resp *Response
	if before != nil {
		resp = before(rec)
	}
	if resp == nil {
		g.mu.Lock()
		resp = g.handle(rec, r, body)
		g.mu.Unlock()
	}
	if resp.Header == nil {
		resp.Header = http.Header{}
	}
	if g.After != nil {
		g.After(rec, resp)
	}
	rec.Status = resp.Status
	if resp.Drop {
		if hj, ok := w.(http.Hijacker); ok {
			if c, _, err := hj.Hijack(); err == nil {
				c.Close()
				return
			}
		}
		panic(http.ErrAbortHandler)
	}
	for k, vs := range resp.Header {
		if len(vs) == 0 {
			// a key present without values suppresses the header altogether
			// (net/http would otherwise sniff a Content-Type for the body)
			w.Header()[k] = nil
			continue
		}
		for _, v := range vs {
			w.Header().Add(k, v)
		}
	}
	if r.Method == http.MethodHead {
		if !resp.NoLength && w.Header().Get("Content-Length") == "" {
			w.Header().Set("Content-Length", strconv.Itoa(len(resp.Body)))
		}
		w.WriteHeader(resp.Status)
		return
	}
	if resp.NoLength {
		w.WriteHeader(resp.Status)
		if f, ok := w.(http.Flusher); ok {
			f.Flush()
		}
		w.Write(resp.Body)
		return
	}
	if w.Header().Get("Content-Length") == "" {
		w.Header().Set("Content-Length", strconv.Itoa(len(resp.Body)))
	}
	w.WriteHeader(resp.Status)
	w.Write(resp.Body)
}

func (rec *Record) bad(format string, a ...any) {
	rec.Violations = append(rec.Violations, fmt.Sprintf(format, a...))
}

// validate classifies the request against the distribution specification.
func (g *Registry) validate(rec *Record, r *http.Request, body []byte) {
	q := r.URL.Query()
	if r.URL.Fragment != "" {
		rec.bad("fragment in URL")
	}
	if rec.Kind == "unknown" {
		rec.bad("path is not a distribution-spec endpoint")
		return
	}
	if rec.Repo != "" && !nameRe.MatchString(rec.Repo) {
		rec.bad("invalid repository name %q", rec.Repo)
	}
	if r.ContentLength >= 0 && r.ContentLength != int64(len(body)) {
		rec.bad("Content-Length %d != body length %d", r.ContentLength, len(body))
	}
	switch r.Method {
	case http.MethodGet, http.MethodHead, http.MethodDelete:
		if len(body) != 0 {
			rec.bad("%s with a body", r.Method)
		}
	}
	g.mu.Lock()
	issued := g.links[r.URL.Path+"?"+r.URL.RawQuery]
	if !issued && q.Has("n") {
		// a client may add its page size to a pagination URL it was handed
		// (oras-go sets n= on every page request); the rest must be as issued
		q2 := r.URL.Query()
		q2.Del("n")
		issued = g.links[r.URL.Path+"?"+q2.Encode()]
	}
	g.mu.Unlock()
	onlyKeys := func(allowed ...string) {
		if issued {
			return
		}
		for k := range q {
			ok := false
			for _, a := range allowed {
				if k == a {
					ok = true
				}
			}
			if !ok {
				rec.bad("unexpected query parameter %q", k)
			}
		}
	}
	switch rec.Kind {
	case "ping":
		if r.Method != http.MethodGet && r.Method != http.MethodHead {
			rec.bad("method %s on /v2/", r.Method)
		}
		onlyKeys()
	case "catalog":
		if r.Method != http.MethodGet {
			rec.bad("method %s on catalog", r.Method)
		}
		onlyKeys("n", "last")
	case "manifest":
		onlyKeys()
		isDigest := strings.Contains(rec.Ref, ":")
		if isDigest && !validDigest(rec.Ref) {
			rec.bad("invalid digest reference %q", rec.Ref)
		}
		if !isDigest && !tagRe.MatchString(rec.Ref) {
			rec.bad("invalid tag reference %q", rec.Ref)
		}
		switch r.Method {
		case http.MethodGet, http.MethodHead:
		case http.MethodPut:
			if r.Header.Get("Content-Type") == "" {
				rec.bad("manifest PUT without Content-Type")
			}
			if r.ContentLength < 0 {
				rec.bad("manifest PUT without Content-Length")
			}
		case http.MethodDelete:
		default:
			rec.bad("method %s on manifests", r.Method)
		}
	case "blob":
		onlyKeys()
		if !validDigest(rec.Ref) {
			rec.bad("blob reference %q is not a digest", rec.Ref)
		}
		switch r.Method {
		case http.MethodGet:
			if rg := r.Header.Get("Range"); rg != "" && !rangeRe.MatchString(rg) {
				rec.bad("malformed Range %q", rg)
			}
		case http.MethodHead, http.MethodDelete:
		default:
			rec.bad("method %s on blobs", r.Method)
		}
	case "upload":
		switch r.Method {
		case http.MethodPost:
			if rec.Ref != "" {
				rec.bad("POST on an upload session URL")
			}
			onlyKeys("mount", "from", "digest")
			if m := q.Get("mount"); q.Has("mount") && !validDigest(m) {
				rec.bad("mount=%q is not a digest", m)
			}
			if q.Has("from") {
				if !q.Has("mount") {
					rec.bad("from= without mount=")
				}
				if !nameRe.MatchString(q.Get("from")) {
					rec.bad("from=%q is not a repository name", q.Get("from"))
				}
			}
			if !q.Has("digest") && len(body) != 0 {
				rec.bad("upload-start POST with a body")
			}
		case http.MethodPut:
			g.mu.Lock()
			owner, ok := g.uploads[rec.Ref]
			g.mu.Unlock()
			if !ok || owner != rec.Repo {
				rec.bad("PUT to unknown upload session %q", rec.Ref)
			}
			if !validDigest(q.Get("digest")) {
				rec.bad("upload PUT without a valid digest parameter (%q)", q.Get("digest"))
			}
			for k := range q {
				if k != "digest" && k != "_state" {
					rec.bad("unexpected query parameter %q on upload PUT", k)
				}
			}
			// the Location handed out is opaque: its own parameters must come back
			if ok && uploadHasState(rec.Ref) && q.Get("_state") != "s"+rec.Ref {
				rec.bad("upload PUT lost the Location's _state parameter (got %q)", q.Get("_state"))
			}
			if ct := r.Header.Get("Content-Type"); ct != "application/octet-stream" {
				rec.bad("upload PUT Content-Type %q", ct)
			}
			if r.ContentLength < 0 {
				rec.bad("upload PUT without Content-Length")
			}
		case http.MethodPatch, http.MethodGet, http.MethodDelete:
		default:
			rec.bad("method %s on uploads", r.Method)
		}
	case "tags":
		if r.Method != http.MethodGet {
			rec.bad("method %s on tags/list", r.Method)
		}
		onlyKeys("n", "last")
		if n := q.Get("n"); q.Has("n") && !issued {
			if v, err := strconv.Atoi(n); err != nil || v < 0 {
				rec.bad("n=%q", n)
			}
		}
	case "referrers":
		if r.Method != http.MethodGet {
			rec.bad("method %s on referrers", r.Method)
		}
		if !validDigest(rec.Ref) {
			rec.bad("referrers reference %q is not a digest", rec.Ref)
		}
		// n= is not defined for this endpoint by the specification; oras-go
		// sends it only when the caller opts in (ReferrerListPageSize) and a
		// registry ignores unknown parameters, so it is tolerated when numeric.
		onlyKeys("artifactType", "n")
		if n := q.Get("n"); q.Has("n") {
			if v, err := strconv.Atoi(n); err != nil || v < 0 {
				rec.bad("n=%q", n)
			}
		}
	}
}

func errBody(code string) []byte {
	b, _ := json.Marshal(map[string]any{"errors": []map[string]string{{"code": code, "message": strings.ToLower(code)}}})
	return b
}

func status(code int, errCode string) *Response {
	h := http.Header{}
	var b []byte
	if errCode != "" {
		h.Set("Content-Type", "application/json")
		b = errBody(errCode)
	}
	return &Response{Status: code, Header: h, Body: b}
}

func (g *Registry) handle(rec *Record, r *http.Request, body []byte) *Response {
	p := g.Profile
	q := r.URL.Query()
	switch rec.Kind {
	case "ping":
		return status(200, "")
	case "catalog":
		var names []string
		for n := range g.Repos {
			names = append(names, n)
		}
		sort.Strings(names)
		return g.page(r, names, "repositories", "")
	case "tags":
		repo, ok := g.Repos[rec.Repo]
		if !ok {
			return status(404, "NAME_UNKNOWN")
		}
		var tags []string
		for t := range repo.Tags {
			tags = append(tags, t)
		}
		sort.Strings(tags)
		return g.page(r, tags, "tags", rec.Repo)
	case "manifest":
		repo := g.repo(rec.Repo)
		switch r.Method {
		case http.MethodGet, http.MethodHead:
			d, ok := g.resolveRef(repo, rec.Ref)
			if !ok {
				return status(404, "MANIFEST_UNKNOWN")
			}
			m := repo.Manifests[d]
			resp := &Response{Status: 200, Header: http.Header{}, Body: m.Bytes}
			resp.Header.Set("Content-Type", m.MediaType)
			if p.DigestHeader {
				resp.Header.Set("Docker-Content-Digest", d.String())
			}
			if p.UnknownLength && r.Method == http.MethodGet {
				resp.NoLength = true
			}
			return resp
		case http.MethodPut:
			mt := r.Header.Get("Content-Type")
			d := digest.FromBytes(body)
			if strings.Contains(rec.Ref, ":") {
				want := digest.Digest(rec.Ref)
				if want.Validate() != nil {
					return status(400, "DIGEST_INVALID")
				}
				d = want.Algorithm().FromBytes(body)
				if d != want {
					return status(400, "DIGEST_INVALID")
				}
			}
			var doc struct {
				Config    *ocispec.Descriptor  `json:"config"`
				Layers    []ocispec.Descriptor `json:"layers"`
				Blobs     []ocispec.Descriptor `json:"blobs"`
				Manifests []ocispec.Descriptor `json:"manifests"`
				Subject   *ocispec.Descriptor  `json:"subject"`
			}
			if err := json.Unmarshal(body, &doc); err != nil {
				return status(400, "MANIFEST_INVALID")
			}
			if p.StrictRefs {
				need := append([]ocispec.Descriptor{}, doc.Layers...)
				need = append(need, doc.Blobs...)
				if doc.Config != nil {
					need = append(need, *doc.Config)
				}
				for _, n := range need {
					if isForeign(n.MediaType) {
						continue
					}
					if _, ok := repo.Blobs[n.Digest]; !ok {
						if _, ok := repo.Manifests[n.Digest]; !ok {
							return status(400, "MANIFEST_BLOB_UNKNOWN")
						}
					}
				}
				for _, n := range doc.Manifests {
					if _, ok := repo.Manifests[n.Digest]; !ok {
						if _, ok := repo.Blobs[n.Digest]; !ok {
							return status(400, "MANIFEST_BLOB_UNKNOWN")
						}
					}
				}
			}
			if _, ok := repo.Manifests[d]; !ok {
				repo.Order = append(repo.Order, d)
			}
			repo.Manifests[d] = Manifest{MediaType: mt, Bytes: append([]byte{}, body...)}
			if !strings.Contains(rec.Ref, ":") {
				repo.Tags[rec.Ref] = d
			}
			resp := status(201, "")
			resp.Header.Set("Location", "/v2/"+rec.Repo+"/manifests/"+d.String())
			if p.DigestHeader {
				resp.Header.Set("Docker-Content-Digest", d.String())
			}
			if doc.Subject != nil && p.ReferrersAPI {
				resp.Header.Set("OCI-Subject", doc.Subject.Digest.String())
			}
			return resp
		case http.MethodDelete:
			d, ok := g.resolveRef(repo, rec.Ref)
			if !ok {
				return status(404, "MANIFEST_UNKNOWN")
			}
			if !strings.Contains(rec.Ref, ":") {
				delete(repo.Tags, rec.Ref)
				return status(202, "")
			}
			delete(repo.Manifests, d)
			for i, o := range repo.Order {
				if o == d {
					repo.Order = append(repo.Order[:i:i], repo.Order[i+1:]...)
					break
				}
			}
			for t, td := range repo.Tags {
				if td == d {
					delete(repo.Tags, t)
				}
			}
			resp := status(202, "")
			if p.DigestHeader {
				resp.Header.Set("Docker-Content-Digest", d.String())
			}
			return resp
		}
	case "blob":
		repo := g.repo(rec.Repo)
		d := digest.Digest(rec.Ref)
		data, ok := repo.Blobs[d]
		if !ok {
			return status(404, "BLOB_UNKNOWN")
		}
		switch r.Method {
		case http.MethodGet, http.MethodHead:
			resp := &Response{Status: 200, Header: http.Header{}, Body: data}
			resp.Header.Set("Content-Type", "application/octet-stream")
			if p.DigestHeader {
				resp.Header.Set("Docker-Content-Digest", d.String())
			}
			if p.Ranges {
				resp.Header.Set("Accept-Ranges", "bytes")
				if m := rangeRe.FindStringSubmatch(r.Header.Get("Range")); m != nil && r.Method == http.MethodGet {
					start, _ := strconv.ParseInt(m[1], 10, 64)
					end := int64(len(data)) - 1
					if m[2] != "" {
						if e, err := strconv.ParseInt(m[2], 10, 64); err == nil && e < end {
							end = e
						}
					}
					if start > end || start >= int64(len(data)) {
						resp.Status = 416
						resp.Body = nil
						resp.Header.Set("Content-Range", fmt.Sprintf("bytes */%d", len(data)))
						return resp
					}
					resp.Status = 206
					resp.Body = data[start : end+1]
					resp.Header.Set("Content-Range", fmt.Sprintf("bytes %d-%d/%d", start, end, len(data)))
					return resp
				}
			}
			if p.UnknownLength && r.Method == http.MethodGet {
				resp.NoLength = true
			}
			return resp
		case http.MethodDelete:
			delete(repo.Blobs, d)
			resp := status(202, "")
			if p.DigestHeader {
				resp.Header.Set("Docker-Content-Digest", d.String())
			}
			return resp
		}
	case "upload":
		repo := g.repo(rec.Repo)
		switch r.Method {
		case http.MethodPost:
			if q.Has("mount") {
				md := digest.Digest(q.Get("mount"))
				if from, ok := g.Repos[q.Get("from")]; ok && p.MountOK {
					if data, ok := from.Blobs[md]; ok {
						repo.Blobs[md] = data
						resp := status(201, "")
						resp.Header.Set("Location", "/v2/"+rec.Repo+"/blobs/"+md.String())
						if p.DigestHeader {
							resp.Header.Set("Docker-Content-Digest", md.String())
						}
						return resp
					}
				}
			}
			g.nextUp++
			id := fmt.Sprintf("u%06d", g.nextUp)
			g.uploads[id] = rec.Repo
			resp := status(202, "")
			loc := "/v2/" + rec.Repo + "/blobs/uploads/" + id
			if g.nextUp%2 == 0 {
				loc += "?_state=s" + id // registries commonly carry state in the location
			}
			resp.Header.Set("Location", loc)
			resp.Header.Set("Range", "0-0")
			return resp
		case http.MethodPut:
			owner, ok := g.uploads[rec.Ref]
			if !ok || owner != rec.Repo {
				return status(404, "BLOB_UPLOAD_UNKNOWN")
			}
			want := digest.Digest(q.Get("digest"))
			if want.Validate() != nil || want.Algorithm().FromBytes(body) != want {
				delete(g.uploads, rec.Ref)
				return status(400, "DIGEST_INVALID")
			}
			delete(g.uploads, rec.Ref)
			repo.Blobs[want] = append([]byte{}, body...)
			resp := status(201, "")
			resp.Header.Set("Location", "/v2/"+rec.Repo+"/blobs/"+want.String())
			if p.DigestHeader {
				resp.Header.Set("Docker-Content-Digest", want.String())
			}
			return resp
		}
	case "referrers":
		if !p.ReferrersAPI {
			return status(404, p.Referrers404Code)
		}
		repo := g.repo(rec.Repo)
		target := digest.Digest(rec.Ref)
		descs := ReferrersOf(repo, target)
		filter := q.Get("artifactType")
		h := http.Header{}
		if filter != "" && p.FilterMode != 1 {
			var kept []ocispec.Descriptor
			for _, d := range descs {
				if d.ArtifactType == filter {
					kept = append(kept, d)
				}
			}
			descs = kept
			if p.FilterMode == 0 {
				h.Set("OCI-Filters-Applied", "artifactType")
			}
		}
		if descs == nil {
			descs = []ocispec.Descriptor{}
		}
		if p.ReferrersPaged && p.PageSize > 0 {
			start := 0
			if s := q.Get("_start"); s != "" {
				start, _ = strconv.Atoi(s)
			}
			end := start + p.PageSize
			if end < len(descs) {
				nq := url.Values{}
				if filter != "" {
					nq.Set("artifactType", filter)
				}
				nq.Set("_start", strconv.Itoa(end))
				g.setLink(h, r, "/v2/"+rec.Repo+"/referrers/"+rec.Ref, nq)
				descs = descs[start:end]
			} else if start <= len(descs) {
				descs = descs[start:]
			}
		}
		idx := ocispec.Index{MediaType: ocispec.MediaTypeImageIndex, Manifests: descs}
		idx.SchemaVersion = 2
		b, _ := json.Marshal(idx)
		h.Set("Content-Type", ocispec.MediaTypeImageIndex)
		return &Response{Status: 200, Header: h, Body: b}
	}
	return status(405, "UNSUPPORTED")
}

// uploadHasState reports whether the Location issued for an upload session
// carried a _state parameter (every second session, see the POST handler).
func uploadHasState(id string) bool {
	n, err := strconv.Atoi(strings.TrimPrefix(id, "u"))
	return err == nil && n%2 == 0
}

func isForeign(mt string) bool {
	switch mt {
	case "application/vnd.oci.image.layer.nondistributable.v1.tar", "application/vnd.oci.image.layer.nondistributable.v1.tar+gzip",
		"application/vnd.oci.image.layer.nondistributable.v1.tar+zstd", "application/vnd.docker.image.rootfs.foreign.diff.tar.gzip":
		return true
	}
	return false
}

func (g *Registry) resolveRef(repo *Repo, ref string) (digest.Digest, bool) {
	if strings.Contains(ref, ":") {
		d := digest.Digest(ref)
		_, ok := repo.Manifests[d]
		return d, ok
	}
	d, ok := repo.Tags[ref]
	if !ok {
		return "", false
	}
	_, ok = repo.Manifests[d]
	return d, ok
}

// ReferrersOf computes, from the manifest store alone, what the Referrers API
// lists for a subject digest: one descriptor per live manifest naming it.
func ReferrersOf(repo *Repo, subject digest.Digest) []ocispec.Descriptor {
	var out []ocispec.Descriptor
	for _, d := range repo.Order {
		m, ok := repo.Manifests[d]
		if !ok {
			continue
		}
		var doc struct {
			ArtifactType string              `json:"artifactType"`
			Config       *ocispec.Descriptor `json:"config"`
			Subject      *ocispec.Descriptor `json:"subject"`
			Annotations  map[string]string   `json:"annotations"`
		}
		if json.Unmarshal(m.Bytes, &doc) != nil || doc.Subject == nil || doc.Subject.Digest != subject {
			continue
		}
		at := doc.ArtifactType
		if at == "" && doc.Config != nil && m.MediaType == ocispec.MediaTypeImageManifest {
			at = doc.Config.MediaType
		}
		out = append(out, ocispec.Descriptor{MediaType: m.MediaType, Digest: d, Size: int64(len(m.Bytes)), ArtifactType: at, Annotations: doc.Annotations})
	}
	return out
}

// page renders one page of a tags or catalog listing.
func (g *Registry) page(r *http.Request, items []string, field, repo string) *Response {
	p := g.Profile
	q := r.URL.Query()
	last := q.Get("last")
	start := 0
	if last != "" {
		start = sort.SearchStrings(items, last)
		if start < len(items) && items[start] == last {
			start++
		}
	}
	items = items[start:]
	size := 0
	if n := q.Get("n"); n != "" && p.HonourN {
		if v, err := strconv.Atoi(n); err == nil && v >= 0 {
			size = v
			if v == 0 {
				items = nil
			}
		}
	}
	if p.PageSize > 0 && (size == 0 || p.PageSize < size) {
		size = p.PageSize
	}
	h := http.Header{}
	h.Set("Content-Type", "application/json")
	if size > 0 && (len(items) > size || (p.EmptyLastPage && len(items) == size && len(items) > 0)) {
		if len(items) > size {
			items = items[:size]
		}
		nq := url.Values{}
		if n := q.Get("n"); n != "" {
			nq.Set("n", n)
		}
		nq.Set("last", items[len(items)-1])
		g.setLink(h, r, r.URL.Path, nq)
	}
	if items == nil {
		items = []string{}
	}
	doc := map[string]any{field: items}
	if repo != "" {
		doc["name"] = repo
	}
	b, _ := json.Marshal(doc)
	return &Response{Status: 200, Header: h, Body: b}
}

func (g *Registry) setLink(h http.Header, r *http.Request, path string, q url.Values) {
	style := g.Profile.LinkStyle
	if style == 3 {
		q.Set("zz_extra", "1")
	}
	target := path + "?" + q.Encode()
	g.links[target] = true
	var link string
	switch style {
	case 0:
		scheme := "http"
		if r.TLS != nil {
			scheme = "https"
		}
		link = fmt.Sprintf("<%s://%s%s>; rel=\"next\"", scheme, r.Host, target)
	case 2:
		// relative to the request path's directory
		seg := path[strings.LastIndex(path, "/")+1:]
		if strings.Contains(seg, ":") {
			// RFC 3986 §4.2: a first segment containing a colon (a digest) would
			// read as a scheme; it must be preceded by a dot-segment
			seg = "./" + seg
		}
		link = fmt.Sprintf("<%s>; rel=\"next\"", seg+"?"+q.Encode())
	case 4:
		link = fmt.Sprintf("<%s>; rel=next", target)
	default:
		link = fmt.Sprintf("<%s>; rel=\"next\"", target)
	}
	h.Set("Link", link)
}

// Snapshot returns a deterministic textual dump of the state (for diffing
// before/after an operation).
func (g *Registry) Snapshot() string {
	g.mu.Lock()
	defer g.mu.Unlock()
	var names []string
	for n := range g.Repos {
		names = append(names, n)
	}
	sort.Strings(names)
	var sb bytes.Buffer
	for _, n := range names {
		r := g.Repos[n]
		var ks []string
		for d := range r.Blobs {
			ks = append(ks, "b:"+d.String())
		}
		for d, m := range r.Manifests {
			ks = append(ks, "m:"+d.String()+":"+m.MediaType)
		}
		for t, d := range r.Tags {
			ks = append(ks, "t:"+t+"="+d.String())
		}
		sort.Strings(ks)
		fmt.Fprintf(&sb, "[%s]\n%s\n", n, strings.Join(ks, "\n"))
	}
	return sb.String()
}
