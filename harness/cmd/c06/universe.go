package main

import (
	"encoding/json"
	"fmt"
	"math/rand/v2"
	"os"
	"sort"

	"github.com/opencontainers/go-digest"
	specs "github.com/opencontainers/image-spec/specs-go"
	ocispec "github.com/opencontainers/image-spec/specs-go/v1"
	"oras.land/oras-go/v2/content"
	"oras.land/oras-go/v2/content/file"
	"oras.land/oras-go/v2/content/memory"
	"oras.land/oras-go/v2/content/oci"
)

const (
	mtLayer          = "application/vnd.oci.image.layer.v1.tar"
	mtOctet          = "application/octet-stream"
	mtTwin           = "application/vnd.verif.twin.v1"
	mtConfig         = "application/vnd.oci.image.config.v1+json"
	mtManifest       = "application/vnd.oci.image.manifest.v1+json"
	mtIndex          = "application/vnd.oci.image.index.v1+json"
	mtDockerManifest = "application/vnd.docker.distribution.manifest.v2+json"
)

// item is one descriptor of the universe together with the bytes it denotes.
// The harness keeps its own successor list (Succ) as ground truth.
type item struct {
	ID       int
	Label    string
	Desc     ocispec.Descriptor // as passed to the store (title annotation for named file-store content)
	Bytes    []byte
	Manifest bool
	Succ     []int  // items listed by this manifest (document order, repeats possible)
	Name     string // file-store name (title annotation) or ""
	Absent   bool   // never pushed by any history: "missing content"
	Twin     bool   // same bytes as another item under a second media type; listed by no manifest
	// PlainOfNamed: file store only: the bytes of a named file addressed by a plain
	// descriptor (no title); the file store answers for it from the named file
	PlainOfNamed bool
}

type universe struct {
	Kind  string
	Items []*item
	Refs  []string
}

func (u *universe) add(it *item) *item {
	it.ID = len(u.Items)
	u.Items = append(u.Items, it)
	return it
}

func blobDesc(mt string, b []byte, name string) ocispec.Descriptor {
	d := ocispec.Descriptor{MediaType: mt, Digest: digest.FromBytes(b), Size: int64(len(b))}
	if name != "" {
		d.Annotations = map[string]string{ocispec.AnnotationTitle: name}
	}
	return d
}

func randBytes(rng *rand.Rand, label string, n int) []byte {
	b := []byte(label + ":")
	for i := 0; i < n; i++ {
		b = append(b, byte('a'+rng.IntN(26)))
	}
	return b
}

func (u *universe) blob(rng *rand.Rand, label, mt, name string) *item {
	b := randBytes(rng, label, 1+rng.IntN(48))
	return u.add(&item{Label: label, Desc: blobDesc(mt, b, name), Bytes: b, Name: name})
}

// manifest builds a well-formed manifest or index over the given items.
func (u *universe) manifest(label, mt string, config *item, layers []*item, subject *item) *item {
	it := &item{Label: label, Manifest: true}
	ann := map[string]string{"verif.id": label}
	var body any
	switch mt {
	case mtIndex:
		idx := ocispec.Index{Versioned: specs.Versioned{SchemaVersion: 2}, MediaType: mt, Annotations: ann}
		for _, l := range layers {
			idx.Manifests = append(idx.Manifests, l.Desc)
			it.Succ = append(it.Succ, l.ID)
		}
		if subject != nil {
			idx.Subject = &subject.Desc
			it.Succ = append(it.Succ, subject.ID)
		}
		body = idx
	default:
		m := ocispec.Manifest{Versioned: specs.Versioned{SchemaVersion: 2}, MediaType: mt, Config: config.Desc, Layers: []ocispec.Descriptor{}, Annotations: ann}
		it.Succ = append(it.Succ, config.ID)
		for _, l := range layers {
			m.Layers = append(m.Layers, l.Desc)
			it.Succ = append(it.Succ, l.ID)
		}
		if subject != nil && mt == mtManifest {
			m.Subject = &subject.Desc
			m.ArtifactType = "application/vnd.verif.artifact"
			it.Succ = append(it.Succ, subject.ID)
		}
		body = m
	}
	b, err := json.Marshal(body)
	if err != nil {
		panic(err)
	}
	it.Bytes = b
	it.Desc = ocispec.Descriptor{MediaType: mt, Digest: digest.FromBytes(b), Size: int64(len(b))}
	return u.add(it)
}

// buildUniverse builds the small universe of a sequential history: about 8
// blobs (incl. a media-type twin, an empty blob, a never-pushed blob; for the
// file store also named files with a shared-bytes pair and a same-name clash),
// about 6 well-formed manifests over them, 5 references including the empty one.
func buildUniverse(rng *rand.Rand, kind string) *universe {
	u := &universe{Kind: kind, Refs: []string{"latest", "v1.0", "stable/x", "r", ""}}
	var pool []*item // blobs that manifests may list
	for i := 0; i < 4; i++ {
		mt := mtLayer
		if rng.IntN(3) == 0 {
			mt = mtOctet
		}
		pool = append(pool, u.blob(rng, fmt.Sprintf("b%d", i), mt, ""))
	}
	// media-type twin of b1
	tw := u.add(&item{Label: "b1twin", Desc: blobDesc(mtTwin, pool[1].Bytes, ""), Bytes: pool[1].Bytes, Twin: true})
	_ = tw
	if rng.IntN(2) == 0 {
		pool = append(pool, u.add(&item{Label: "empty", Desc: blobDesc(mtLayer, nil, ""), Bytes: []byte{}}))
	}
	cfgBytes := []byte(fmt.Sprintf(`{"architecture":"amd64","os":"linux","verif":%d}`, rng.IntN(1000)))
	cfg := u.add(&item{Label: "cfg", Desc: blobDesc(mtConfig, cfgBytes, ""), Bytes: cfgBytes})
	absentBlob := u.blob(rng, "absentblob", mtLayer, "")
	absentBlob.Absent = true
	pool = append(pool, absentBlob)
	var mustList []*item // file store: named files some manifest certainly lists
	if kind == "file" {
		n1 := u.blob(rng, "fileA", mtLayer, "a.txt")
		// same bytes under a second name
		n2 := u.add(&item{Label: "fileB=A", Desc: blobDesc(mtLayer, n1.Bytes, "b.txt"), Bytes: n1.Bytes, Name: "b.txt"})
		// same name, other bytes
		n3 := u.blob(rng, "fileA'", mtLayer, "a.txt")
		n4 := u.blob(rng, "fileC", mtOctet, "c.txt")
		n5 := u.blob(rng, "fileD", mtLayer, "sub/d.txt")
		pool = append(pool, n1, n2, n3, n4, n5)
		mustList = []*item{n2, n1, n4}
		if rng.IntN(3) == 0 {
			u.add(&item{Label: "plainOfFileA", Desc: blobDesc(mtLayer, n1.Bytes, ""), Bytes: n1.Bytes, PlainOfNamed: true})
		}
	}
	pick := func(n int) []*item {
		var out []*item
		for i := 0; i < n; i++ {
			out = append(out, pool[rng.IntN(len(pool))])
		}
		return out
	}
	var mans []*item
	for i := 0; i < 3; i++ {
		mt := mtManifest
		if rng.IntN(4) == 0 {
			mt = mtDockerManifest
		}
		var subject *item
		if i > 0 && rng.IntN(3) == 0 && mt == mtManifest {
			subject = mans[rng.IntN(len(mans))]
		}
		layers := pick(1 + rng.IntN(3))
		if i < len(mustList) && rng.IntN(3) != 0 {
			layers = append(layers, mustList[i])
		}
		mans = append(mans, u.manifest(fmt.Sprintf("m%d", i), mt, cfg, layers, subject))
	}
	// indexes over manifests (nested possible)
	for i := 3; i < 5; i++ {
		var kids []*item
		for k := 0; k < 1+rng.IntN(3); k++ {
			kids = append(kids, mans[rng.IntN(len(mans))])
		}
		var subject *item
		if rng.IntN(4) == 0 {
			subject = mans[rng.IntN(len(mans))]
		}
		mans = append(mans, u.manifest(fmt.Sprintf("m%d", i), mtIndex, nil, kids, subject))
	}
	am := u.manifest("absentman", mtManifest, cfg, pick(1), nil)
	am.Absent = true
	return u
}

func key3(d ocispec.Descriptor) string {
	return fmt.Sprintf("%s|%s|%d", d.MediaType, d.Digest, d.Size)
}

// descJSON is the identity of a descriptor value for comparisons of Resolve
// results ("the descriptor most recently tagged").
func descJSON(d ocispec.Descriptor) string {
	if len(d.Annotations) == 0 {
		d.Annotations = nil
	}
	if len(d.URLs) == 0 {
		d.URLs = nil
	}
	b, _ := json.Marshal(d)
	return string(b)
}

// storeOpts are the documented options exercised.
type storeOpts struct {
	AutoSaveIndex bool `json:"oci_auto_save_index,omitempty"`
	ForceCAS      bool `json:"file_force_cas,omitempty"`
	IgnoreNoName  bool `json:"file_ignore_no_name,omitempty"`
	DisableOverwr bool `json:"file_disable_overwrite,omitempty"`
}

func (o storeOpts) String() string {
	return fmt.Sprintf("asi=%v,fcas=%v,inn=%v,dow=%v", o.AutoSaveIndex, o.ForceCAS, o.IgnoreNoName, o.DisableOverwr)
}

type target interface {
	content.Storage
	content.TagResolver
	content.PredecessorFinder
}

type storeHandle struct {
	kind  string
	t     target
	oci   *oci.Store
	file  *file.Store
	dir   string
	close func()
}

func openStore(kind string, o storeOpts) (*storeHandle, error) {
	h := &storeHandle{kind: kind, close: func() {}}
	switch kind {
	case "memory":
		h.t = memory.New()
	case "oci":
		dir, err := os.MkdirTemp("", "verif-c06-oci-")
		if err != nil {
			return nil, err
		}
		h.dir = dir
		h.close = func() { os.RemoveAll(dir) }
		s, err := oci.New(dir)
		if err != nil {
			h.close()
			return nil, err
		}
		s.AutoGC = false // the delete cascade is C09's subject
		s.AutoSaveIndex = o.AutoSaveIndex
		h.oci, h.t = s, s
	case "file":
		dir, err := os.MkdirTemp("", "verif-c06-file-")
		if err != nil {
			return nil, err
		}
		h.dir = dir
		s, err := file.New(dir)
		if err != nil {
			os.RemoveAll(dir)
			return nil, err
		}
		s.ForceCAS = o.ForceCAS
		s.IgnoreNoName = o.IgnoreNoName
		s.DisableOverwrite = o.DisableOverwr
		h.close = func() { s.Close(); os.RemoveAll(dir) }
		h.file, h.t = s, s
	default:
		return nil, fmt.Errorf("unknown kind %s", kind)
	}
	return h, nil
}

func sortedKeys[V any](m map[string]V) []string {
	out := make([]string, 0, len(m))
	for k := range m {
		out = append(out, k)
	}
	sort.Strings(out)
	return out
}
