package main

import (
	"bytes"
	"crypto/sha256"
	"encoding/hex"
	"fmt"
	"io"
	"math/rand/v2"
	"os"
	"runtime"
	"sort"
	"strings"
	"sync"
	"sync/atomic"
	"time"

	"github.com/anishathalye/porcupine"
	"github.com/opencontainers/go-digest"
	ocispec "github.com/opencontainers/image-spec/specs-go/v1"
	"oras.land/oras-go/v2/verifharness/evidence"
	"oras.land/oras-go/v2/verifharness/worker"
)

// ---- recorded history ------------------------------------------------------

// cin is the input of one client call.
type cin struct {
	Op   string // push fetch exists delete | tag resolve untag | restore (effect of a manifest push on a listed file name)
	Part string // partition: "c:<content key>" or "r:<reference>"
	Val  string // push/fetch/exists: identity of the bytes; tag: identity of the descriptor written
	Item int
	Ref  string
}

// cout is the observed result.
type cout struct {
	Class string // ok, already-exists, duplicate-name, not-found, true, false, other:...
	Val   string // resolve: identity of the descriptor returned
}

type crec struct {
	Client    int
	In        cin
	Out       cout
	Call, Ret int64
}

func (r crec) String() string {
	s := fmt.Sprintf("[%d..%d] c%d %s(%s", r.Call, r.Ret, r.Client, r.In.Op, strings.TrimPrefix(strings.TrimPrefix(r.In.Part, "c:"), "r:"))
	if r.In.Val != "" {
		s += "," + short(r.In.Val)
	}
	s += ") = " + r.Out.Class
	if r.Out.Val != "" {
		s += ":" + short(r.Out.Val)
	}
	return s
}

func short(s string) string {
	if len(s) > 18 {
		return s[:18]
	}
	return s
}

// ---- the executable model given to porcupine --------------------------------
//
// One register per partition. Content partition: "" (absent) or the identity of
// the bytes present. Reference partition: "" or the identity of the descriptor.
// Relaxations (recorded in DESIGN "Soundness note"): the statement constrains
// the state after quiescence and the bytes returned, not the results of
// overlapping writes, hence
//   - a Push linearized onto the same bytes already present may return ok or refused;
//   - an Untag linearized onto an untagged reference may return ok or not-found
//     (oci Untag resolves and removes in two steps).
// Everything else is strict.

func stepModel(state, input, output interface{}) []interface{} {
	st := state.(string)
	in := input.(cin)
	out := output.(cout)
	one := func(s string) []interface{} { return []interface{}{s} }
	switch in.Op {
	case "push":
		switch out.Class {
		case cOK:
			if st == "" || st == in.Val {
				return one(in.Val)
			}
		case cExists, cDupName:
			if st != "" {
				return one(st)
			}
		}
	case "pushbad": // wrong bytes: must fail, and never changes the state
		switch out.Class {
		case cOK:
		case cExists, cDupName:
			if st != "" {
				return one(st)
			}
		default:
			return one(st)
		}
	case "restore":
		if st == "" {
			return []interface{}{"", in.Val}
		}
		return one(st)
	case "fetch":
		if (out.Class == cOK && st == in.Val) || (out.Class == cNotFnd && st != in.Val) {
			return one(st)
		}
	case "exists":
		if (out.Class == "true" && st == in.Val) || (out.Class == "false" && st != in.Val) {
			return one(st)
		}
	case "delete":
		if out.Class == cOK && st != "" {
			return one("")
		}
		if out.Class == cNotFnd && st == "" {
			return one(st)
		}
	case "tag":
		if out.Class == cOK {
			return one(in.Val)
		}
	case "resolve":
		if (out.Class == cOK && st == out.Val && st != "") || (out.Class == cNotFnd && st == "") {
			return one(st)
		}
	case "untag":
		if out.Class == cOK && (st != "" || !strictUntag) {
			return one("")
		}
		if out.Class == cNotFnd && st == "" {
			return one(st)
		}
	}
	return nil
}

// strictUntag (debug knob, C06_STRICT_UNTAG=1) removes the Untag relaxation; used
// once to confirm on the unchanged tree that the relaxation is needed.
var strictUntag = os.Getenv("C06_STRICT_UNTAG") != ""

var concModel = (&porcupine.NondeterministicModel{
	Partition: func(h []porcupine.Operation) [][]porcupine.Operation {
		m := map[string][]porcupine.Operation{}
		var keys []string
		for _, op := range h {
			k := op.Input.(cin).Part
			if _, ok := m[k]; !ok {
				keys = append(keys, k)
			}
			m[k] = append(m[k], op)
		}
		sort.Strings(keys)
		out := make([][]porcupine.Operation, 0, len(keys))
		for _, k := range keys {
			out = append(out, m[k])
		}
		return out
	},
	Init:  func() []interface{} { return []interface{}{""} },
	Step:  stepModel,
	Equal: func(a, b interface{}) bool { return a.(string) == b.(string) },
	DescribeOperation: func(i, o interface{}) string {
		return fmt.Sprintf("%s(%s,%s) -> %s %s", i.(cin).Op, i.(cin).Part, short(i.(cin).Val), o.(cout).Class, short(o.(cout).Val))
	},
}).ToModel()

// ---- workload ---------------------------------------------------------------

type concUniverse struct {
	items   []*item
	base    []*item // pushed before the phase, never deleted: the only tag targets
	hot     []*item // contended content
	refs    []string
	restore map[int][]*item // manifest id -> named files it lists (file store)
}

func (cu *concUniverse) add(it *item) *item {
	it.ID = len(cu.items)
	cu.items = append(cu.items, it)
	return it
}

func buildConcUniverse(rng *rand.Rand, kind string) *concUniverse {
	cu := &concUniverse{restore: map[int][]*item{}}
	u := &universe{Kind: kind}
	mk := func(label, mt, name string) *item {
		return u.blob(rng, label, mt, name)
	}
	b0, b1 := mk("base0", mtLayer, ""), mk("base1", mtOctet, "")
	cfgB := []byte(`{"architecture":"amd64","os":"linux"}`)
	cfg := u.add(&item{Label: "cfg", Desc: blobDesc(mtConfig, cfgB, ""), Bytes: cfgB})
	bm := u.manifest("baseman", mtManifest, cfg, []*item{b0, b1}, nil)
	cu.base = []*item{b0, b1, cfg, bm}
	nHot := 1 + rng.IntN(3)
	for i := 0; i < nHot; i++ {
		cu.hot = append(cu.hot, mk(fmt.Sprintf("hot%d", i), mtLayer, ""))
	}
	var listed []*item
	if kind == "file" {
		// a name contended by pushes of different bytes (each variant has bytes of its own)
		nv := 2 + rng.IntN(2)
		for v := 0; v < nv; v++ {
			cu.hot = append(cu.hot, mk(fmt.Sprintf("k0#%d", v), mtLayer, "k0.txt"))
		}
		if rng.IntN(2) == 0 {
			cu.hot = append(cu.hot, mk("k1#0", mtLayer, "dir/k1.txt"))
		}
		// two names sharing bytes; a manifest lists the second one: pushing the manifest
		// may re-create it from the first ("restore duplicates")
		d1 := mk("dup1", mtLayer, "d1.txt")
		d2 := u.add(&item{Label: "dup2=dup1", Desc: blobDesc(mtLayer, d1.Bytes, "d2.txt"), Bytes: d1.Bytes, Name: "d2.txt"})
		cu.hot = append(cu.hot, d1, d2)
		listed = append(listed, d2)
	}
	// a contended manifest over base and hot content
	hm := u.manifest("hotman", mtManifest, cfg, append([]*item{b0, cu.hot[0]}, listed...), bm)
	cu.hot = append(cu.hot, hm)
	if len(listed) > 0 {
		cu.restore[hm.ID] = listed
	}
	if rng.IntN(2) == 0 {
		cu.hot = append(cu.hot, u.manifest("hotindex", mtIndex, nil, []*item{bm, hm}, nil))
	}
	cu.items = u.Items
	cu.refs = []string{"latest", "v2", "x/y"}[:1+rng.IntN(3)]
	return cu
}

func contentPart(kind string, it *item) (part, val string) {
	switch {
	case kind == "file" && it.Name != "":
		return "c:name:" + it.Name, it.Desc.Digest.Encoded()[:16]
	case kind == "oci":
		return "c:" + it.Desc.Digest.Encoded()[:16], "P"
	}
	return "c:" + it.Desc.MediaType + "|" + it.Desc.Digest.Encoded()[:16], "P"
}

type planned struct {
	in    cin
	desc  ocispec.Descriptor // tag: the (unique) descriptor written
	stall int                // pushbad: completed calls of others to wait for mid-stream
}

// stallReader hands out b[:cut], then waits until `need` more calls have
// completed anywhere in the case (at most about a millisecond: time only
// perturbs the schedule, no verdict depends on it), then the rest.
type stallReader struct {
	b        []byte
	cut, off int
	progress *atomic.Int64
	need     int64
	stalled  bool
}

func (r *stallReader) Read(p []byte) (int, error) {
	if r.off >= len(r.b) {
		return 0, io.EOF
	}
	end := len(r.b)
	if r.off < r.cut {
		end = r.cut
	} else if !r.stalled {
		r.stalled = true
		from := r.progress.Load()
		deadline := time.Now().Add(time.Millisecond)
		for r.progress.Load() < from+r.need && time.Now().Before(deadline) {
			runtime.Gosched()
			time.Sleep(10 * time.Microsecond)
		}
	}
	n := copy(p, r.b[r.off:end])
	r.off += n
	return n, nil
}

// hook jitter: widen the windows between the library's critical sections
var (
	hookHits  sync.Map // point -> *atomic.Int64
	hookSalt  atomic.Uint64
	hookArmed atomic.Bool
	hookBoost atomic.Bool // cross phase: hold Delete longer between untagging and removing the blob
)

func hookHandler(point, key string) {
	v, _ := hookHits.LoadOrStore(point, new(atomic.Int64))
	n := v.(*atomic.Int64).Add(1)
	if !hookArmed.Load() {
		return
	}
	x := (hookSalt.Load() + uint64(n)*0x9e3779b97f4a7c15 + uint64(len(point))) >> 7
	if hookBoost.Load() && point == "oci.delete.beforeStorageDelete" && x%3 != 0 {
		time.Sleep(time.Duration(20+x>>8%300) * time.Microsecond)
		return
	}
	switch x % 4 {
	case 0:
	case 1:
		runtime.Gosched()
	case 2:
		for i := 0; i < int(x>>8%4)+1; i++ {
			runtime.Gosched()
		}
	case 3:
		time.Sleep(time.Duration(x>>8%40) * time.Microsecond)
	}
}

func runConc(phase string, i int, seed int64) worker.Result {
	var res worker.Result
	rng := evidence.RandFor(seed, "c06-"+phase, i)
	kind := []string{"memory", "oci", "file"}[i%3]
	var o storeOpts
	switch kind {
	case "oci":
		o.AutoSaveIndex = rng.IntN(3) != 0
	case "file":
		o.ForceCAS = rng.IntN(4) == 0
	}
	cu := buildConcUniverse(rng, kind)
	h, err := openStore(kind, o)
	if err != nil {
		res.Violate("harness:open", err.Error(), nil)
		return res
	}
	defer h.close()

	var clock atomic.Int64
	var mu sync.Mutex
	var hist []crec
	var violMu sync.Mutex
	wrongBytes := ""

	var progress atomic.Int64 // calls completed so far: releases stalled readers

	// exec performs one call at the boundary and records it
	exec := func(client int, p planned) {
		in := p.in
		var out cout
		call := clock.Add(1)
		switch in.Op {
		case "push":
			it := cu.items[in.Item]
			out.Class = classify(h.t.Push(ctx, it.Desc, bytes.NewReader(it.Bytes)))
		case "pushbad":
			// wrong bytes of the right length under the descriptor others push correctly; the
			// reader stalls after the first chunk until other calls have completed (or a short
			// while has passed), so that this failing push overlaps a complete good one
			it := cu.items[in.Item]
			bad := append([]byte{}, it.Bytes...)
			bad[len(bad)-1] ^= 0x55
			out.Class = classify(h.t.Push(ctx, it.Desc, &stallReader{b: bad, cut: (len(bad) + 1) / 2, progress: &progress, need: int64(p.stall)}))
		case "fetch":
			it := cu.items[in.Item]
			rc, err := h.t.Fetch(ctx, it.Desc)
			out.Class = classify(err)
			if err == nil {
				b, rerr := io.ReadAll(rc)
				rc.Close()
				if rerr != nil {
					out.Class = "other:read:" + rerr.Error()
				} else if int64(len(b)) != it.Desc.Size || digest.FromBytes(b) != it.Desc.Digest {
					violMu.Lock()
					wrongBytes = fmt.Sprintf("client %d: Fetch(%s) returned %d bytes %q that do not match %s", client, it.Label, len(b), trunc(b), it.Desc.Digest)
					violMu.Unlock()
				}
			}
		case "exists":
			it := cu.items[in.Item]
			ex, err := h.t.Exists(ctx, it.Desc)
			if err != nil {
				out.Class = "other:" + err.Error()
			} else {
				out.Class = fmt.Sprint(ex)
			}
		case "delete":
			out.Class = classify(h.oci.Delete(ctx, cu.items[in.Item].Desc))
		case "tag":
			out.Class = classify(h.t.Tag(ctx, p.desc, in.Ref))
		case "resolve":
			d, err := h.t.Resolve(ctx, in.Ref)
			out.Class = classify(err)
			if err == nil {
				out.Val = descJSON(d)
			}
		case "untag":
			out.Class = classify(h.oci.Untag(ctx, in.Ref))
		}
		ret := clock.Add(1)
		progress.Add(1)
		mu.Lock()
		hist = append(hist, crec{Client: client, In: in, Out: out, Call: call, Ret: ret})
		// a manifest push may, as a side effect inside the same call, create listed file names
		if in.Op == "push" && out.Class == cOK && !o.ForceCAS {
			for _, l := range cu.restore[in.Item] {
				part, val := contentPart(kind, l)
				hist = append(hist, crec{Client: client, In: cin{Op: "restore", Part: part, Val: val, Item: l.ID}, Out: cout{Class: "-"}, Call: call, Ret: ret})
			}
		}
		mu.Unlock()
	}

	mkContent := func(op string, it *item) planned {
		part, val := contentPart(kind, it)
		return planned{in: cin{Op: op, Part: part, Val: val, Item: it.ID}}
	}
	tagSeq := 0
	mkTag := func(ref string) planned {
		it := cu.base[rng.IntN(len(cu.base))]
		d := it.Desc
		tagSeq++
		d.Annotations = map[string]string{"verif.write": fmt.Sprint(tagSeq)} // every written value is unique
		return planned{in: cin{Op: "tag", Part: "r:" + ref, Val: descJSON(d), Ref: ref}, desc: d}
	}

	// set-up, recorded like everything else: base content, sometimes a hot item and a tag
	setupClient := 0
	for _, b := range cu.base {
		exec(setupClient, mkContent("push", b))
	}
	prePushed := map[int]bool{}
	for _, it := range cu.hot {
		if rng.IntN(4) == 0 {
			exec(setupClient, mkContent("push", it))
			prePushed[it.ID] = true
		}
	}
	if rng.IntN(2) == 0 {
		exec(setupClient, mkTag(cu.refs[0]))
	}
	for _, r := range hist {
		if r.Out.Class != cOK && r.Out.Class != cDupName && r.In.Op != "restore" {
			res.Violate("harness:conc-setup", "set-up call failed: "+r.String(), nil)
			return res
		}
	}

	// plan the concurrent calls
	G := 4 + rng.IntN(13)
	total := 20 + rng.IntN(41)
	plans := make([][]planned, G)
	for n := 0; n < total; n++ {
		g := rng.IntN(G)
		var p planned
		if rng.IntN(100) < 60 {
			it := cu.hot[rng.IntN(len(cu.hot))]
			if rng.IntN(8) == 0 {
				it = cu.base[rng.IntN(len(cu.base))]
			}
			isBase := false
			for _, b := range cu.base {
				if b == it {
					isBase = true
				}
			}
			w := rng.IntN(100)
			switch {
			case w < 38:
				p = mkContent("push", it)
			case w < 47:
				p = mkContent("pushbad", it)
				p.stall = 1 + rng.IntN(4)
			case w < 65:
				p = mkContent("fetch", it)
			case w < 80 || kind != "oci" || isBase:
				p = mkContent("exists", it)
			default:
				p = mkContent("delete", it)
			}
		} else {
			ref := cu.refs[rng.IntN(len(cu.refs))]
			w := rng.IntN(100)
			switch {
			case w < 45:
				p = mkTag(ref)
			case w < 80 || kind != "oci":
				p = planned{in: cin{Op: "resolve", Part: "r:" + ref, Ref: ref}}
			default:
				p = planned{in: cin{Op: "untag", Part: "r:" + ref, Ref: ref}}
			}
		}
		plans[g] = append(plans[g], p)
	}
	// duels: a failing push of wrong bytes and a good push of the same, still absent, descriptor
	// start together in two goroutines (the only window on stores without Delete)
	for _, it := range cu.hot {
		if prePushed[it.ID] || rng.IntN(2) == 0 {
			continue
		}
		a := rng.IntN(G)
		b := (a + 1 + rng.IntN(G-1)) % G
		bad := mkContent("pushbad", it)
		bad.stall = 1 + rng.IntN(3)
		plans[a] = append([]planned{bad}, plans[a]...)
		plans[b] = append([]planned{mkContent("push", it)}, plans[b]...)
	}

	hookSalt.Store(rng.Uint64())
	hookArmed.Store(true)
	start := make(chan struct{})
	var wg sync.WaitGroup
	for g := 0; g < G; g++ {
		wg.Add(1)
		yields := make([]int, len(plans[g]))
		for k := range yields {
			yields[k] = rng.IntN(4)
		}
		go func(g int, yields []int) {
			defer wg.Done()
			<-start
			for k, p := range plans[g] {
				for y := 0; y < yields[k]; y++ {
					runtime.Gosched()
				}
				exec(g+1, p)
			}
		}(g, yields)
	}
	close(start)
	wg.Wait()
	hookArmed.Store(false)

	// quiescence: read everything back as ordinary recorded calls of one more client
	reader := G + 1
	nConc := len(hist)
	for _, it := range cu.items {
		exec(reader, mkContent("exists", it))
		exec(reader, mkContent("fetch", it))
	}
	for _, r := range cu.refs {
		exec(reader, planned{in: cin{Op: "resolve", Part: "r:" + r, Ref: r}})
	}

	witness := func() map[string]any {
		var lines []string
		hs := append([]crec{}, hist...)
		sort.Slice(hs, func(a, b int) bool { return hs[a].Call < hs[b].Call })
		for _, r := range hs {
			lines = append(lines, r.String())
		}
		var items []string
		for _, it := range cu.items {
			items = append(items, fmt.Sprintf("%d:%s %s %s name=%q succ=%v", it.ID, it.Label, it.Desc.MediaType, it.Desc.Digest.Encoded()[:16], it.Name, it.Succ))
		}
		return map[string]any{"store": kind, "options": o, "goroutines": G, "items": items, "history": lines}
	}

	if wrongBytes != "" {
		res.Violate("conc:"+kind+":fetch:wrong-bytes", wrongBytes, witness())
	}
	// results outside the statement's vocabulary
	for _, r := range hist {
		bad := false
		switch r.In.Op {
		case "push":
			want := cExists
			if cu.items[r.In.Item].Name != "" {
				want = cDupName
			}
			bad = r.Out.Class != cOK && r.Out.Class != want
		case "pushbad":
			bad = r.Out.Class == cOK
		case "fetch":
			bad = r.Out.Class != cOK && r.Out.Class != cNotFnd
		case "exists":
			bad = r.Out.Class != "true" && r.Out.Class != "false"
		case "delete", "untag":
			bad = r.Out.Class != cOK && r.Out.Class != cNotFnd
		case "tag":
			bad = r.Out.Class != cOK
		case "resolve":
			bad = r.Out.Class != cOK && r.Out.Class != cNotFnd
		}
		if bad {
			res.Violate("conc:"+kind+":"+r.In.Op+":unexpected-result", "call returned a result no sequential order allows: "+r.String(), witness())
			break
		}
	}

	// linearizability per partition
	ops := make([]porcupine.Operation, 0, len(hist))
	for _, r := range hist {
		ops = append(ops, porcupine.Operation{ClientId: r.Client, Input: r.In, Output: r.Out, Call: r.Call, Return: r.Ret})
	}
	parts := concModel.Partition(ops)
	var okParts, badParts, unkParts int64
	for _, part := range parts {
		// each partition separately, so that the witness names the failing key
		single := concModel
		single.Partition = nil
		verdict, _ := porcupine.CheckOperationsVerbose(single, part, 20*time.Second)
		switch verdict {
		case porcupine.Ok:
			okParts++
		case porcupine.Unknown:
			unkParts++
		case porcupine.Illegal:
			badParts++
			key := part[0].Input.(cin).Part
			var lines []string
			sort.Slice(part, func(a, b int) bool { return part[a].Call < part[b].Call })
			for _, op := range part {
				lines = append(lines, crec{Client: op.ClientId, In: op.Input.(cin), Out: op.Output.(cout), Call: op.Call, Ret: op.Return}.String())
			}
			w := witness()
			w["partition"] = key
			w["partition_history"] = lines
			cls := "content"
			if strings.HasPrefix(key, "r:") {
				cls = "reference"
			}
			res.Violate("conc:"+kind+":not-linearizable:"+cls, fmt.Sprintf("no sequential order of the %d calls on %s explains their results and the state read back after quiescence", len(part), key), w)
		}
	}
	res.Count("porcupine_partitions_checked", int64(len(parts)))
	res.Count("porcupine_partitions_ok", okParts)
	res.Count("porcupine_partitions_unknown", unkParts)
	res.Count("porcupine_partitions_illegal", badParts)
	if unkParts > 0 {
		res.Inconc = fmt.Sprintf("%s case %d: porcupine timed out on %d partitions", phase, i, unkParts)
	}

	// Predecessors at quiescence (excluded from linearizability): exact over what is present now
	presentNow := map[int]bool{}
	for _, r := range hist[nConc:] {
		if r.In.Op == "exists" && r.Out.Class == "true" {
			presentNow[r.In.Item] = true
		}
	}
	for _, it := range cu.items {
		got, err := h.t.Predecessors(ctx, it.Desc)
		if err != nil {
			res.Violate("conc:"+kind+":predecessors:error", fmt.Sprintf("Predecessors(%s): %v", it.Label, err), witness())
			break
		}
		want := map[string]bool{}
		for _, p := range cu.items {
			if !p.Manifest || !presentNow[p.ID] {
				continue
			}
			for _, sid := range p.Succ {
				if key3(cu.items[sid].Desc) == key3(it.Desc) {
					want[key3(p.Desc)] = true
				}
			}
		}
		gotSet := map[string]bool{}
		for _, d := range got {
			gotSet[key3(d)] = true
		}
		if strings.Join(sortedKeys(gotSet), ",") != strings.Join(sortedKeys(want), ",") {
			res.Violate("conc:"+kind+":predecessors:quiescent-mismatch", fmt.Sprintf("after quiescence Predecessors(%s) = %v, want %v", it.Label, sortedKeys(gotSet), sortedKeys(want)), witness())
			break
		}
		res.Count("quiescent_predecessor_queries", 1)
	}

	// evidence: real overlap on one key with a write involved, interleaving identity
	conc := hist[:nConc]
	overlapW := 0
	byPart := map[string][]crec{}
	for _, r := range conc {
		byPart[r.In.Part] = append(byPart[r.In.Part], r)
	}
	isWrite := func(op string) bool {
		return op == "push" || op == "delete" || op == "tag" || op == "untag" || op == "restore"
	}
	for _, rs := range byPart {
		for a := 0; a < len(rs); a++ {
			for b := a + 1; b < len(rs); b++ {
				if rs[a].Client != rs[b].Client && rs[a].Call < rs[b].Ret && rs[b].Call < rs[a].Ret && (isWrite(rs[a].In.Op) || isWrite(rs[b].In.Op)) {
					overlapW++
				}
			}
		}
	}
	type ev struct {
		t int64
		s string
	}
	var evs []ev
	for _, r := range conc {
		id := fmt.Sprintf("%d:%s:%s:%s", r.Client, r.In.Op, r.In.Part, r.Out.Class)
		evs = append(evs, ev{r.Call, "c" + id}, ev{r.Ret, "r" + id})
	}
	sort.Slice(evs, func(a, b int) bool { return evs[a].t < evs[b].t })
	hsh := sha256.New()
	for _, e := range evs {
		hsh.Write([]byte(e.s + "\n"))
	}
	inter := hex.EncodeToString(hsh.Sum(nil)[:12])
	relaxedPush := 0
	okPush := map[string]int{}
	for _, r := range conc {
		if r.In.Op == "push" && r.Out.Class == cOK {
			okPush[r.In.Part+r.In.Val]++
		}
	}
	for _, n := range okPush {
		if n > 1 {
			relaxedPush += n - 1
		}
	}
	badPushes, badOverGood := 0, 0
	for _, a := range conc {
		if a.In.Op != "pushbad" {
			continue
		}
		badPushes++
		for _, b := range conc {
			if b.In.Op == "push" && b.Out.Class == cOK && b.In.Part == a.In.Part && b.Client != a.Client && a.Call < b.Call && b.Ret < a.Ret {
				badOverGood++
				break
			}
		}
	}
	res.Count("conc_bad_pushes", int64(badPushes))
	res.Count("conc_bad_push_spanning_a_complete_good_push_same_key", int64(badOverGood))
	res.Count("conc_calls_recorded", int64(len(hist)))
	res.Count("conc_overlapping_write_pairs_same_key", int64(overlapW))
	res.Count("conc_pushes_ok_beyond_first_same_key", int64(relaxedPush))
	res.MaxOf("conc_max_goroutines", int64(G))
	res.Observe("interleavings", inter)
	res.Observe("conc_store_options", kind+"/"+o.String())
	hookHits.Range(func(k, v any) bool {
		if n := v.(*atomic.Int64).Swap(0); n > 0 {
			res.Count("hook:"+k.(string), n)
		}
		return true
	})
	res.Key = kind + "|" + o.String() + "|" + inter
	res.NT = overlapW > 0
	if i%307 == 0 {
		w := witness()
		if hh := w["history"].([]string); len(hh) > 40 {
			w["history"] = hh[:40]
		}
		res.Sample = w
	}
	return res
}

func init() { installHooks() }
