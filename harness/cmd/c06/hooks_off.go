//go:build !verif

package main

func installHooks() {}
