package main

// Cross-partition sub-phase (stores that offer Delete: the OCI layout).
//
// Tag / re-Tag / Untag / Resolve run concurrently with Delete / re-Push /
// Exists / Fetch of the SAME descriptor. The content key and the references
// that name it are no longer independent registers, so three oracles are used:
//
//  1. a combined porcupine model per descriptor over (present?, ref -> value):
//     Tag needs the content present, Delete clears every reference naming it;
//  2. a quiescent cross-key invariant that every sequential order satisfies:
//     Resolve(r) = d implies Exists(d) and Fetch(d) returns d's bytes, and Tags
//     lists exactly the resolvable references;
//  3. a real-time rule that needs no search: a Tag that returned nil although a
//     Delete of the content had returned before the Tag was invoked, and no
//     successful Push could have brought the content back in between.

import (
	"bytes"
	"crypto/sha256"
	"encoding/hex"
	"fmt"
	"io"
	"runtime"
	"sort"
	"strings"
	"sync"
	"sync/atomic"
	"time"

	"github.com/anishathalye/porcupine"
	"github.com/opencontainers/go-digest"
	"oras.land/oras-go/v2/verifharness/evidence"
	"oras.land/oras-go/v2/verifharness/worker"
)

const crossMaxRefs = 4

// xstate is the state of one descriptor together with the references that may name it.
type xstate struct {
	present bool
	tags    [crossMaxRefs]string // by reference index; "" = untagged
}

// xin extends cin with the index of the reference inside its victim's set.
type xin struct {
	cin
	RefIdx int
}

func stepCross(state, input, output interface{}) []interface{} {
	st := state.(xstate)
	in := input.(xin)
	out := output.(cout)
	one := func(s xstate) []interface{} { return []interface{}{s} }
	switch in.Op {
	case "push":
		switch out.Class {
		case cOK: // onto present content: relaxed (overlapping identical pushes)
			st.present = true
			return one(st)
		case cExists:
			if st.present {
				return one(st)
			}
		}
	case "delete":
		if out.Class == cOK && st.present {
			return one(xstate{})
		}
		if out.Class == cNotFnd && !st.present {
			return one(st)
		}
	case "exists":
		if (out.Class == "true") == st.present {
			return one(st)
		}
	case "fetch":
		if (out.Class == cOK && st.present) || (out.Class == cNotFnd && !st.present) {
			return one(st)
		}
	case "tag":
		if out.Class == cOK && st.present {
			st.tags[in.RefIdx] = in.Val
			return one(st)
		}
		if out.Class == cNotFnd && !st.present {
			return one(st)
		}
	case "resolve":
		cur := st.tags[in.RefIdx]
		if (out.Class == cOK && cur != "" && cur == out.Val) || (out.Class == cNotFnd && cur == "") {
			return one(st)
		}
	case "untag":
		cur := st.tags[in.RefIdx]
		if out.Class == cOK && (cur != "" || !strictUntag) {
			st.tags[in.RefIdx] = ""
			return one(st)
		}
		if out.Class == cNotFnd && cur == "" {
			return one(st)
		}
	}
	return nil
}

var crossModel = (&porcupine.NondeterministicModel{
	Init:  func() []interface{} { return []interface{}{xstate{}} },
	Step:  stepCross,
	Equal: func(a, b interface{}) bool { return a.(xstate) == b.(xstate) },
}).ToModel()

type victim struct {
	it   *item
	refs []string
}

func runCross(phase string, i int, seed int64) worker.Result {
	var res worker.Result
	rng := evidence.RandFor(seed, "c06-"+phase, i)
	const kind = "oci"
	o := storeOpts{AutoSaveIndex: rng.IntN(4) != 0}
	h, err := openStore(kind, o)
	if err != nil {
		res.Violate("harness:open", err.Error(), nil)
		return res
	}
	defer h.close()

	// universe: one or two victims (a manifest, a blob), each with references of its own
	u := &universe{Kind: kind}
	cfgB := []byte(`{"architecture":"amd64","os":"linux"}`)
	cfg := u.add(&item{Label: "cfg", Desc: blobDesc(mtConfig, cfgB, ""), Bytes: cfgB})
	layer := u.blob(rng, "layer", mtLayer, "")
	var victims []*victim
	nRefs := func() int { return 1 + rng.IntN(3) }
	mkRefs := func(prefix string, n int) []string {
		var out []string
		for k := 0; k < n; k++ {
			out = append(out, fmt.Sprintf("%s%d", prefix, k))
		}
		return out
	}
	switch rng.IntN(4) {
	case 0:
		victims = append(victims, &victim{it: u.blob(rng, "vblob", mtOctet, ""), refs: mkRefs("b", nRefs())})
	case 1:
		victims = append(victims, &victim{it: u.manifest("vman", mtManifest, cfg, []*item{layer}, nil), refs: mkRefs("m", nRefs())},
			&victim{it: u.blob(rng, "vblob", mtOctet, ""), refs: mkRefs("b", nRefs())})
	case 2:
		victims = append(victims, &victim{it: u.manifest("vindex", mtIndex, nil, nil, nil), refs: mkRefs("m", nRefs())})
	default:
		victims = append(victims, &victim{it: u.manifest("vman", mtManifest, cfg, []*item{layer}, nil), refs: mkRefs("m", nRefs())})
	}

	var clock atomic.Int64
	var mu sync.Mutex
	type xrec struct {
		crec
		RefIdx int
		V      int
	}
	var hist []xrec
	var violMu sync.Mutex
	wrongBytes := ""

	type xplan struct {
		planned
		refIdx int
		v      int
	}
	exec := func(client int, p xplan) {
		in := p.in
		it := victims[p.v].it
		var out cout
		call := clock.Add(1)
		switch in.Op {
		case "push":
			out.Class = classify(h.t.Push(ctx, it.Desc, bytes.NewReader(it.Bytes)))
		case "fetch":
			rc, err := h.t.Fetch(ctx, it.Desc)
			out.Class = classify(err)
			if err == nil {
				b, rerr := io.ReadAll(rc)
				rc.Close()
				if rerr != nil {
					out.Class = "other:read:" + rerr.Error()
				} else if int64(len(b)) != it.Desc.Size || digest.FromBytes(b) != it.Desc.Digest {
					violMu.Lock()
					wrongBytes = fmt.Sprintf("client %d: Fetch(%s) returned %d bytes %q that do not match %s", client, it.Label, len(b), trunc(b), it.Desc.Digest)
					violMu.Unlock()
				}
			}
		case "exists":
			ex, err := h.t.Exists(ctx, it.Desc)
			if err != nil {
				out.Class = "other:" + err.Error()
			} else {
				out.Class = fmt.Sprint(ex)
			}
		case "delete":
			out.Class = classify(h.oci.Delete(ctx, it.Desc))
		case "tag":
			out.Class = classify(h.t.Tag(ctx, p.desc, in.Ref))
		case "resolve":
			d, err := h.t.Resolve(ctx, in.Ref)
			out.Class = classify(err)
			if err == nil {
				out.Val = descJSON(d)
			}
		case "untag":
			out.Class = classify(h.oci.Untag(ctx, in.Ref))
		}
		ret := clock.Add(1)
		mu.Lock()
		hist = append(hist, xrec{crec: crec{Client: client, In: in, Out: out, Call: call, Ret: ret}, RefIdx: p.refIdx, V: p.v})
		mu.Unlock()
	}
	mkC := func(op string, v int) xplan {
		return xplan{planned: planned{in: cin{Op: op, Part: "x:" + victims[v].it.Label, Val: "P", Item: victims[v].it.ID}}, v: v}
	}
	tagSeq := 0
	mkR := func(op string, v, ri int) xplan {
		ref := victims[v].refs[ri]
		p := xplan{planned: planned{in: cin{Op: op, Part: "x:" + victims[v].it.Label, Ref: ref, Item: victims[v].it.ID}}, v: v, refIdx: ri}
		if op == "tag" {
			d := victims[v].it.Desc
			tagSeq++
			d.Annotations = map[string]string{"verif.write": fmt.Sprint(tagSeq)}
			p.desc = d
			p.in.Val = descJSON(d)
		}
		return p
	}

	// set-up (recorded): children of the manifest, the victims, sometimes a first tag
	for _, it := range []*item{cfg, layer} {
		if err := h.t.Push(ctx, it.Desc, bytes.NewReader(it.Bytes)); err != nil {
			res.Violate("harness:cross-setup", "set-up push failed: "+err.Error(), nil)
			return res
		}
	}
	for v := range victims {
		if rng.IntN(5) != 0 {
			exec(0, mkC("push", v))
			if rng.IntN(2) == 0 {
				exec(0, mkR("tag", v, 0))
			}
		}
	}
	for _, r := range hist {
		if r.Out.Class != cOK {
			res.Violate("harness:cross-setup", "set-up call failed: "+r.crec.String(), nil)
			return res
		}
	}

	G := 4 + rng.IntN(9)
	total := 24 + rng.IntN(37)
	plans := make([][]xplan, G)
	// taggers issue bursts so that a Tag is in flight whenever a Delete arrives
	for n := 0; n < total; n++ {
		g := rng.IntN(G)
		v := rng.IntN(len(victims))
		ri := rng.IntN(len(victims[v].refs))
		var p xplan
		switch w := rng.IntN(100); {
		case w < 34:
			p = mkR("tag", v, ri)
		case w < 46:
			p = mkR("resolve", v, ri)
		case w < 53:
			p = mkR("untag", v, ri)
		case w < 70:
			p = mkC("delete", v)
		case w < 87:
			p = mkC("push", v)
		case w < 94:
			p = mkC("exists", v)
		default:
			p = mkC("fetch", v)
		}
		plans[g] = append(plans[g], p)
	}

	hookSalt.Store(rng.Uint64())
	hookBoost.Store(true)
	hookArmed.Store(true)
	start := make(chan struct{})
	var wg sync.WaitGroup
	for g := 0; g < G; g++ {
		wg.Add(1)
		yields := make([]int, len(plans[g]))
		for k := range yields {
			yields[k] = rng.IntN(3)
		}
		go func(g int, yields []int) {
			defer wg.Done()
			<-start
			for k, p := range plans[g] {
				for y := 0; y < yields[k]; y++ {
					runtime.Gosched()
				}
				exec(g+1, p)
			}
		}(g, yields)
	}
	close(start)
	wg.Wait()
	hookArmed.Store(false)
	hookBoost.Store(false)

	// quiescence: read-back, recorded
	reader := G + 1
	nConc := len(hist)
	for v := range victims {
		exec(reader, mkC("exists", v))
		exec(reader, mkC("fetch", v))
		for ri := range victims[v].refs {
			exec(reader, mkR("resolve", v, ri))
		}
	}
	var listed []string
	tagsErr := h.oci.Tags(ctx, "", func(t []string) error { listed = append(listed, t...); return nil })

	witness := func() map[string]any {
		hs := append([]xrec{}, hist...)
		sort.Slice(hs, func(a, b int) bool { return hs[a].Call < hs[b].Call })
		var lines []string
		for _, r := range hs {
			lines = append(lines, r.crec.String()+" "+r.In.Ref)
		}
		var vs []string
		for _, v := range victims {
			vs = append(vs, fmt.Sprintf("%s %s %s refs=%v", v.it.Label, v.it.Desc.MediaType, v.it.Desc.Digest.Encoded()[:16], v.refs))
		}
		return map[string]any{"store": kind, "options": o, "goroutines": G, "victims": vs, "history": lines, "tags_listed_after_quiescence": listed}
	}

	if wrongBytes != "" {
		res.Violate("cross:oci:fetch:wrong-bytes", wrongBytes, witness())
	}
	for _, r := range hist {
		bad := false
		switch r.In.Op {
		case "push":
			bad = r.Out.Class != cOK && r.Out.Class != cExists
		case "exists":
			bad = r.Out.Class != "true" && r.Out.Class != "false"
		default: // fetch delete untag resolve tag
			bad = r.Out.Class != cOK && r.Out.Class != cNotFnd
		}
		if bad {
			res.Violate("cross:oci:"+r.In.Op+":unexpected-result", "call returned a result outside the statement's vocabulary: "+r.crec.String(), witness())
			break
		}
	}

	// (2) quiescent cross-key invariant
	resolvable := map[string]bool{}
	rb := hist[nConc:]
	for v, vic := range victims {
		exists, fetched := false, false
		for _, r := range rb {
			if r.V != v {
				continue
			}
			switch r.In.Op {
			case "exists":
				exists = r.Out.Class == "true"
			case "fetch":
				fetched = r.Out.Class == cOK
			}
		}
		for _, r := range rb {
			if r.V != v || r.In.Op != "resolve" || r.Out.Class != cOK {
				continue
			}
			resolvable[r.In.Ref] = true
			if !strings.Contains(r.Out.Val, vic.it.Desc.Digest.String()) {
				res.Violate("cross:oci:resolve:foreign-descriptor", fmt.Sprintf("after quiescence Resolve(%q) = %s, which was never tagged with it", r.In.Ref, r.Out.Val), witness())
			}
			if !exists || !fetched {
				res.Violate("cross:oci:dangling-reference", fmt.Sprintf("after quiescence Resolve(%q) names %s but Exists = %v and Fetch ok = %v: the reference points at content that is not in the store, a state no sequential order of Tag and Delete produces", r.In.Ref, vic.it.Label, exists, fetched), witness())
			}
		}
	}
	if tagsErr != nil {
		res.Violate("cross:oci:tags:error", "Tags: "+tagsErr.Error(), witness())
	} else {
		ls := map[string]bool{}
		for _, t := range listed {
			ls[t] = true
		}
		if len(ls) != len(listed) || strings.Join(sortedKeys(ls), ",") != strings.Join(sortedKeys(resolvable), ",") {
			res.Violate("cross:oci:tags-listing-mismatch", fmt.Sprintf("after quiescence Tags lists %q but the resolvable references are %q", listed, sortedKeys(resolvable)), witness())
		}
	}

	// (3) real-time rule: Tag ok although a Delete had returned before and nothing could have re-created the content
	tagAfterDelete := 0
	for _, t := range hist {
		if t.In.Op != "tag" || t.Out.Class != cOK {
			continue
		}
		for _, d := range hist {
			if d.V != t.V || d.In.Op != "delete" || d.Out.Class != cOK || d.Ret >= t.Call {
				continue
			}
			revived := false
			for _, p := range hist {
				if p.V == t.V && p.In.Op == "push" && p.Out.Class == cOK && p.Ret > d.Call && p.Call < t.Ret {
					revived = true
					break
				}
			}
			if !revived {
				tagAfterDelete++
				res.Violate("cross:oci:tag-ok-after-delete-returned", fmt.Sprintf("%s returned nil although %s had returned before it was invoked and no successful Push lies in between", t.crec.String(), d.crec.String()), witness())
				break
			}
		}
		if tagAfterDelete > 0 {
			break
		}
	}

	// (1) combined porcupine model per victim
	var okParts, badParts, unkParts int64
	for v, vic := range victims {
		var ops []porcupine.Operation
		for _, r := range hist {
			if r.V == v {
				ops = append(ops, porcupine.Operation{ClientId: r.Client, Input: xin{cin: r.In, RefIdx: r.RefIdx}, Output: r.Out, Call: r.Call, Return: r.Ret})
			}
		}
		verdict, _ := porcupine.CheckOperationsVerbose(crossModel, ops, 20*time.Second)
		switch verdict {
		case porcupine.Ok:
			okParts++
		case porcupine.Unknown:
			unkParts++
		default:
			badParts++
			w := witness()
			w["descriptor"] = vic.it.Label
			res.Violate("cross:oci:not-linearizable", fmt.Sprintf("no sequential order of the %d calls on %s and its references %v explains their results and the state read back after quiescence", len(ops), vic.it.Label, vic.refs), w)
		}
	}
	res.Count("cross_partitions_checked", int64(len(victims)))
	res.Count("cross_partitions_ok", okParts)
	res.Count("cross_partitions_unknown", unkParts)
	res.Count("cross_partitions_illegal", badParts)
	if unkParts > 0 {
		res.Inconc = fmt.Sprintf("%s case %d: porcupine timed out on %d combined partitions", phase, i, unkParts)
	}

	// evidence
	conc := hist[:nConc]
	overlapTD, tagNF, tagOK, delOK := 0, 0, 0, 0
	for _, a := range conc {
		switch {
		case a.In.Op == "tag" && a.Out.Class == cOK:
			tagOK++
		case a.In.Op == "tag" && a.Out.Class == cNotFnd:
			tagNF++
		case a.In.Op == "delete" && a.Out.Class == cOK:
			delOK++
		}
		if a.In.Op != "tag" && a.In.Op != "untag" {
			continue
		}
		for _, b := range conc {
			if b.V == a.V && b.Client != a.Client && (b.In.Op == "delete" || b.In.Op == "push") && a.Call < b.Ret && b.Call < a.Ret {
				overlapTD++
			}
		}
	}
	type ev struct {
		t int64
		s string
	}
	var evs []ev
	for _, r := range conc {
		id := fmt.Sprintf("%d:%s:%d:%s:%s", r.Client, r.In.Op, r.V, r.In.Ref, r.Out.Class)
		evs = append(evs, ev{r.Call, "c" + id}, ev{r.Ret, "r" + id})
	}
	sort.Slice(evs, func(a, b int) bool { return evs[a].t < evs[b].t })
	hsh := sha256.New()
	for _, e := range evs {
		hsh.Write([]byte(e.s + "\n"))
	}
	inter := hex.EncodeToString(hsh.Sum(nil)[:12])
	res.Count("cross_calls_recorded", int64(len(hist)))
	res.Count("cross_tag_overlapping_delete_or_push_same_descriptor", int64(overlapTD))
	res.Count("cross_tag_ok", int64(tagOK))
	res.Count("cross_tag_not_found", int64(tagNF))
	res.Count("cross_delete_ok", int64(delOK))
	res.Observe("cross_interleavings", inter)
	hookHits.Range(func(k, v any) bool {
		if n := v.(*atomic.Int64).Swap(0); n > 0 {
			res.Count("hook:"+k.(string), n)
		}
		return true
	})
	res.Key = "cross|" + o.String() + "|" + inter
	res.NT = overlapTD > 0 && delOK > 0
	if i%301 == 0 {
		w := witness()
		if hh := w["history"].([]string); len(hh) > 40 {
			w["history"] = hh[:40]
		}
		res.Sample = w
	}
	return res
}
