//go:build verif

package main

import "oras.land/oras-go/v2/internal/verifhook"

func installHooks() {
	f := hookHandler
	verifhook.Handler.Store(&f)
}
