// C06 — Built-in Targets behave as a content map plus a reference→descriptor map.
//
// Sequential phase: random histories over a small universe are replayed against
// the memory, OCI-layout and file stores; after every step the result (value or
// error class) is compared with a reference model (content map + tag map), and
// after every refused / failed step the whole observable state is compared.
//
// Cross phase (oci): references and the content they name are contended
// together (Tag against Delete of the same descriptor), see cross.go.
//
// Concurrent phase: several goroutines issue calls on a few keys; every call is
// recorded at the boundary (call stamp, result, return stamp) together with a
// read-back of everything after quiescence, and porcupine decides, per content
// key and per reference, whether some sequential order explains the history.
// The same workload runs under the race detector.
package main

import (
	"context"
	_ "crypto/sha256"
	_ "crypto/sha512"
	"os"
	"path/filepath"
	"strconv"
	"strings"

	"oras.land/oras-go/v2/verifharness/evidence"
	"oras.land/oras-go/v2/verifharness/worker"
)

var ctx = context.Background()

func main() {
	if worker.IsWorker() {
		worker.Serve(runCase)
		return
	}
	r := evidence.New("C06", "exploration")
	r.Rule("sequential case = (store kind ∈ {memory, oci(AutoSaveIndex on/off, AutoGC off), file(ForceCAS, IgnoreNoName)}, seeded universe of ≈8 blobs incl. media-type twin / empty / never-pushed / named files with shared bytes and a name clash, ≈6 manifests, 5 references incl. \"\", " +
		"history of 60–400 Push/PushBadBytes/Fetch/Exists/Tag/Resolve/Predecessors (+Untag/Delete/Tags/SaveIndex on oci)); every result is compared with a content-map + tag-map model, the full observable state after every refused or failed step; " +
		"distinct = hash(kind, options, sequence of op/outcome classes); non-trivial = the history contains a refused re-push, a reference moved between different contents and a not-found outcome. " +
		"concurrent case = 4–16 goroutines, 20–60 calls on 2–8 content keys and 1–3 references, every tagged descriptor unique, set-up and read-back after quiescence recorded as calls; porcupine per content key / reference; " +
		"distinct = hash(kind, options, order of call/return events); non-trivial = two calls of different goroutines on one key overlapped in time and one of them was a write. " +
		"cross case (oci only) = 4–12 goroutines, 24–60 calls: Tag/re-Tag/Untag/Resolve of 1–3 references against Delete/re-Push/Exists/Fetch of the SAME descriptor (1–2 descriptors); judged by a combined porcupine model (present?, ref→value) per descriptor, by the quiescent invariant Resolve(r)=d ⇒ Exists(d) ∧ Fetch(d) ok ∧ Tags = resolvable references, and by the real-time rule 'no Tag returns nil after a Delete had returned with no successful Push in between'; " +
		"non-trivial = a Tag/Untag overlapped a Delete or Push of the same descriptor issued by another goroutine and some Delete succeeded. " +
		"gc case (oci only) = 4–10 goroutines, 15–37 calls incl. GC() over a sha512-addressed image (manifest without subject, config, layer), a blob and a never-tagged blob, 1–3 references, 300–1200 garbage files planted in blobs/sha256 so that the first sweep is long (half of the rounds: the other goroutines start once the sweep is under way); the whole store is one porcupine object (present set, ref→(item,value)) in which GC atomically removes exactly what no reference reaches; quiescent invariant as above; " +
		"non-trivial = a Push or Tag of another goroutine overlapped a GC call and some Tag succeeded")
	r.Assume("concurrent model is relaxed where the statement is silent: a Push linearized onto the same bytes already present may return nil or already-exists / duplicate-name; an Untag linearized onto an untagged reference may return nil or not-found")
	r.Assume("Predecessors is compared at quiescence only (documented as not snapshot-consistent); in the sequential phase it is compared after every step")
	r.Assume("unjudged: file-store descriptor whose name is held by other bytes (only 'never wrong bytes' is demanded); AutoGC off (C09). Tag is handed descriptor variants of pushed content (annotations, artifactType, platform; on the digest-keyed oci store also another media type); oci Delete removes every reference naming the digest")

	tmp, err := os.MkdirTemp("", "verif-c06-run-")
	if err != nil {
		r.Violation("harness:mktemp", err.Error(), nil)
		r.Finish(1)
	}
	defer os.RemoveAll(tmp)
	env := []string{"TMPDIR=" + tmp} // store directories of workers that die are removed with it

	worker.Run(r, worker.Opts{Phase: "seq", Total: r.N(600, 12000), Batch: 50, Env: env})
	worker.Run(r, worker.Opts{Phase: "conc", Total: r.N(1200, 45000), Batch: 100, Env: env})
	worker.Run(r, worker.Opts{Phase: "cross", Total: r.N(600, 12000), Batch: 100, Env: env})
	worker.Run(r, worker.Opts{Phase: "gc", Total: r.N(120, 2500), Batch: 20, Env: env})
	if bin := os.Getenv("VERIF_RACE_BIN"); bin != "" {
		raceDir := filepath.Join(tmp, "racelogs")
		os.MkdirAll(raceDir, 0o755)
		worker.Run(r, worker.Opts{Phase: "race", Total: r.N(300, 3000), Batch: 50, Bin: bin,
			Env: append(env, "GORACE=halt_on_error=0 log_path="+filepath.Join(raceDir, "race"))})
		r.Set("race_reports_in_library", countRaceReports(raceDir, r))
	} else {
		r.Inconclusive("no race binary (VERIF_RACE_BIN unset): race-detector phase skipped")
	}
	code := r.Write(r.N(800, 20000))
	os.RemoveAll(tmp)
	os.Exit(code)
}

func runCase(phase string, i int) worker.Result {
	// the seed is read directly: evidence.New also parses known_findings.json, which a
	// worker does not need (and which may be mid-edit while a long run is in flight)
	seed := int64(1)
	if n, err := strconv.ParseInt(os.Getenv("VERIF_SEED"), 10, 64); err == nil {
		seed = n
	}
	switch {
	case phase == "seq":
		return runSeq(i, seed)
	case phase == "cross", phase == "race" && i%4 == 3:
		return runCross(phase, i, seed)
	case phase == "gc", phase == "race" && i%8 == 5:
		return runCrossGC(phase, i, seed)
	default:
		return runConc(phase, i, seed)
	}
}

// countRaceReports counts DATA RACE blocks; a block with a library frame is a
// violation, a block with harness frames only marks the check as broken.
func countRaceReports(dir string, r *evidence.Run) int {
	files, _ := filepath.Glob(filepath.Join(dir, "race*"))
	n := 0
	seen := map[string]bool{}
	for _, f := range files {
		b, _ := os.ReadFile(f)
		for _, blk := range strings.Split(string(b), "==================") {
			if !strings.Contains(blk, "WARNING: DATA RACE") {
				continue
			}
			lib := ""
			for _, l := range strings.Split(blk, "\n") {
				if strings.Contains(l, "oras.land/oras-go/v2/") && !strings.Contains(l, "verifharness") {
					if lib == "" {
						lib = strings.TrimSpace(l)
					}
				}
			}
			if lib != "" {
				n++
				if i := strings.Index(lib, "("); i > 0 {
					lib = lib[:i]
				}
				if seen[lib] {
					continue
				}
				seen[lib] = true
				r.Violation("race:"+lib, "data race reported by the race detector in library code", blk)
			} else {
				r.Violation("harness:race", "data race inside the harness itself", blk)
			}
		}
	}
	return n
}
