package main

// GC rounds of the cross-partition phase (OCI layout, AutoGC off).
//
// GC() joins Tag / Untag / Resolve / Push / Delete / Exists / Fetch as a
// concurrent operation. GC reaches across keys, so the whole (small) store is
// one porcupine object: state = (set of present items, reference -> (item,
// value)). GC atomically removes exactly the content that is not reachable from
// a reference: it keeps every tagged item and, for a tagged manifest, the
// children it lists. These rounds use plain blobs and one image manifest
// without subject only (referrer chains are C09's subject).
//
// Also judged, independently of the search: after quiescence no reference names
// absent content, Tags lists exactly the resolvable references, every Fetch
// result re-hashes.
//
// To make a sweep long enough to be overlapped, thousands of garbage files are
// planted in blobs/sha256 before the round, and the contended content is
// addressed by sha512 (blobs/sha512 is listed after blobs/sha256 was swept).

import (
	"bytes"
	"crypto/sha256"
	"encoding/hex"
	"encoding/json"
	"fmt"
	"io"
	"os"
	"path/filepath"
	"runtime"
	"sort"
	"strings"
	"sync"
	"sync/atomic"
	"time"

	"github.com/anishathalye/porcupine"
	"github.com/opencontainers/go-digest"
	specs "github.com/opencontainers/image-spec/specs-go"
	ocispec "github.com/opencontainers/image-spec/specs-go/v1"
	"oras.land/oras-go/v2/verifharness/evidence"
	"oras.land/oras-go/v2/verifharness/worker"
)

const (
	gCfg = iota
	gLayer
	gMan // image manifest listing gCfg and gLayer, no subject
	gBlob
	gLoose // never tagged
	gItems
	gRefs = 3
)

type gstate struct {
	present uint8
	tag     [gRefs]string // value written, "" = untagged
	tagItem [gRefs]int8
}

type gin struct {
	Op   string
	Item int
	Ref  int
	Val  string
}

func (s gstate) has(it int) bool { return s.present&(1<<uint(it)) != 0 }

func stepGC(state, input, output interface{}) []interface{} {
	st := state.(gstate)
	in := input.(gin)
	out := output.(cout)
	one := func(s gstate) []interface{} { return []interface{}{s} }
	switch in.Op {
	case "push":
		switch out.Class {
		case cOK:
			st.present |= 1 << uint(in.Item)
			return one(st)
		case cExists:
			if st.has(in.Item) {
				return one(st)
			}
		}
	case "delete":
		if out.Class == cOK && st.has(in.Item) {
			st.present &^= 1 << uint(in.Item)
			for r := 0; r < gRefs; r++ {
				if st.tag[r] != "" && int(st.tagItem[r]) == in.Item {
					st.tag[r], st.tagItem[r] = "", 0
				}
			}
			return one(st)
		}
		if out.Class == cNotFnd && !st.has(in.Item) {
			return one(st)
		}
	case "exists":
		if (out.Class == "true") == st.has(in.Item) {
			return one(st)
		}
	case "fetch":
		if (out.Class == cOK && st.has(in.Item)) || (out.Class == cNotFnd && !st.has(in.Item)) {
			return one(st)
		}
	case "tag":
		if out.Class == cOK && st.has(in.Item) {
			st.tag[in.Ref], st.tagItem[in.Ref] = in.Val, int8(in.Item)
			return one(st)
		}
		if out.Class == cNotFnd && !st.has(in.Item) {
			return one(st)
		}
	case "resolve":
		cur := st.tag[in.Ref]
		if (out.Class == cOK && cur != "" && cur == out.Val) || (out.Class == cNotFnd && cur == "") {
			return one(st)
		}
	case "untag":
		cur := st.tag[in.Ref]
		if out.Class == cOK && (cur != "" || !strictUntag) {
			st.tag[in.Ref], st.tagItem[in.Ref] = "", 0
			return one(st)
		}
		if out.Class == cNotFnd && cur == "" {
			return one(st)
		}
	case "gc":
		if out.Class != cOK {
			return nil
		}
		var keep uint8
		for r := 0; r < gRefs; r++ {
			if st.tag[r] == "" {
				continue
			}
			keep |= 1 << uint(st.tagItem[r])
			if st.tagItem[r] == gMan && st.has(gMan) {
				keep |= 1<<gCfg | 1<<gLayer
			}
		}
		st.present &= keep
		return one(st)
	}
	return nil
}

var gcModel = (&porcupine.NondeterministicModel{
	Init:  func() []interface{} { return []interface{}{gstate{}} },
	Step:  stepGC,
	Equal: func(a, b interface{}) bool { return a.(gstate) == b.(gstate) },
}).ToModel()

func runCrossGC(phase string, i int, seed int64) worker.Result {
	var res worker.Result
	rng := evidence.RandFor(seed, "c06-"+phase, i)
	o := storeOpts{AutoSaveIndex: rng.IntN(4) != 0}
	h, err := openStore("oci", o)
	if err != nil {
		res.Violate("harness:open", err.Error(), nil)
		return res
	}
	defer h.close()

	// universe: sha512-addressed image + blob, a loose blob under either algorithm
	alg := digest.SHA512
	mk := func(label, mt string, a digest.Algorithm, b []byte) *item {
		return &item{Label: label, Bytes: b, Desc: ocispec.Descriptor{MediaType: mt, Digest: a.FromBytes(b), Size: int64(len(b))}}
	}
	items := make([]*item, gItems)
	items[gCfg] = mk("cfg", mtConfig, alg, []byte(fmt.Sprintf(`{"architecture":"amd64","os":"linux","n":%d}`, rng.IntN(1000))))
	items[gLayer] = mk("layer", mtLayer, alg, randBytes(rng, "layer", 8+rng.IntN(40)))
	mb, _ := json.Marshal(ocispec.Manifest{Versioned: specs.Versioned{SchemaVersion: 2}, MediaType: mtManifest, Config: items[gCfg].Desc, Layers: []ocispec.Descriptor{items[gLayer].Desc}})
	items[gMan] = mk("man", mtManifest, alg, mb)
	items[gBlob] = mk("blob", mtOctet, alg, randBytes(rng, "blob", 8+rng.IntN(40)))
	looseAlg := alg
	if rng.IntN(2) == 0 {
		looseAlg = digest.SHA256
	}
	items[gLoose] = mk("loose", mtLayer, looseAlg, randBytes(rng, "loose", 8+rng.IntN(40)))
	for k, it := range items {
		it.ID = k
	}
	refs := []string{"g0", "g1", "g2"}[:1+rng.IntN(gRefs)]
	taggable := []int{gMan, gBlob, gMan}

	var clock atomic.Int64
	var mu sync.Mutex
	type grec struct {
		Client    int
		In        gin
		Out       cout
		Call, Ret int64
	}
	str := func(r grec) string {
		s := fmt.Sprintf("[%d..%d] c%d %s(", r.Call, r.Ret, r.Client, r.In.Op)
		switch r.In.Op {
		case "gc":
		case "tag":
			s += items[r.In.Item].Label + "," + refs[r.In.Ref] + ",#" + short(strings.TrimPrefix(r.In.Val[strings.Index(r.In.Val, "verif.write")+11:], `":"`))
		case "resolve", "untag":
			s += refs[r.In.Ref]
		default:
			s += items[r.In.Item].Label
		}
		s += ") = " + r.Out.Class
		if r.Out.Val != "" {
			s += " #" + short(strings.TrimPrefix(r.Out.Val[strings.Index(r.Out.Val, "verif.write")+11:], `":"`))
		}
		return s
	}
	var hist []grec
	var violMu sync.Mutex
	wrongBytes := ""
	type gplan struct {
		in   gin
		desc ocispec.Descriptor
	}
	exec := func(client int, p gplan) {
		in := p.in
		var out cout
		call := clock.Add(1)
		switch in.Op {
		case "push":
			it := items[in.Item]
			out.Class = classify(h.t.Push(ctx, it.Desc, bytes.NewReader(it.Bytes)))
		case "fetch":
			it := items[in.Item]
			rc, err := h.t.Fetch(ctx, it.Desc)
			out.Class = classify(err)
			if err == nil {
				b, rerr := io.ReadAll(rc)
				rc.Close()
				if rerr != nil {
					out.Class = "other:read:" + rerr.Error()
				} else if int64(len(b)) != it.Desc.Size || it.Desc.Digest.Algorithm().FromBytes(b) != it.Desc.Digest {
					violMu.Lock()
					wrongBytes = fmt.Sprintf("client %d: Fetch(%s) returned %d bytes %q that do not match %s", client, it.Label, len(b), trunc(b), it.Desc.Digest)
					violMu.Unlock()
				}
			}
		case "exists":
			ex, err := h.t.Exists(ctx, items[in.Item].Desc)
			if err != nil {
				out.Class = "other:" + err.Error()
			} else {
				out.Class = fmt.Sprint(ex)
			}
		case "delete":
			out.Class = classify(h.oci.Delete(ctx, items[in.Item].Desc))
		case "tag":
			out.Class = classify(h.t.Tag(ctx, p.desc, refs[in.Ref]))
		case "resolve":
			d, err := h.t.Resolve(ctx, refs[in.Ref])
			out.Class = classify(err)
			if err == nil {
				out.Val = descJSON(d)
			}
		case "untag":
			out.Class = classify(h.oci.Untag(ctx, refs[in.Ref]))
		case "gc":
			out.Class = classify(h.oci.GC(ctx))
		}
		ret := clock.Add(1)
		mu.Lock()
		hist = append(hist, grec{Client: client, In: in, Out: out, Call: call, Ret: ret})
		mu.Unlock()
	}
	tagSeq := 0
	mkTag := func(it, r int) gplan {
		d := items[it].Desc
		tagSeq++
		d.Annotations = map[string]string{"verif.write": fmt.Sprint(tagSeq)}
		return gplan{in: gin{Op: "tag", Item: it, Ref: r, Val: descJSON(d)}, desc: d}
	}

	// set-up (recorded): something under sha512 so that blobs/sha512 exists, some content, maybe a tag
	pushed512 := false
	for k := range items {
		if k == gLoose || rng.IntN(2) == 0 {
			exec(0, gplan{in: gin{Op: "push", Item: k}})
			pushed512 = pushed512 || items[k].Desc.Digest.Algorithm() == alg
		}
	}
	if !pushed512 {
		exec(0, gplan{in: gin{Op: "push", Item: gCfg}})
	}
	if rng.IntN(2) == 0 {
		it := taggable[rng.IntN(len(taggable))]
		if ex, _ := h.t.Exists(ctx, items[it].Desc); ex {
			exec(0, mkTag(it, 0))
		}
	}
	for _, r := range hist {
		if r.Out.Class != cOK {
			res.Violate("harness:gc-setup", "set-up call failed: "+str(r), nil)
			return res
		}
	}

	// garbage: files in blobs/sha256 that no metadata knows; the first GC has a long sweep
	nGarbage := 300 + rng.IntN(900)
	gdir := filepath.Join(h.dir, "blobs", "sha256")
	if err := os.MkdirAll(gdir, 0o777); err != nil {
		res.Violate("harness:gc-garbage", err.Error(), nil)
		return res
	}
	firstGarbage := ""
	for k := 0; k < nGarbage; k++ {
		sum := sha256.Sum256([]byte(fmt.Sprintf("garbage %d/%d/%d", seed, i, k)))
		name := hex.EncodeToString(sum[:])
		f, err := os.Create(filepath.Join(gdir, name))
		if err != nil {
			res.Violate("harness:gc-garbage", err.Error(), nil)
			return res
		}
		f.Close()
		if firstGarbage == "" || name < firstGarbage {
			firstGarbage = name
		}
	}
	firstGarbage = filepath.Join(gdir, firstGarbage)

	G := 4 + rng.IntN(7)
	total := 14 + rng.IntN(23)
	plans := make([][]gplan, G)
	plans[0] = append(plans[0], gplan{in: gin{Op: "gc"}}) // goroutine 0 opens with the long GC
	for n := 0; n < total; n++ {
		g := rng.IntN(G)
		it := rng.IntN(gItems)
		r := rng.IntN(len(refs))
		var p gplan
		switch w := rng.IntN(100); {
		case w < 28:
			p = gplan{in: gin{Op: "push", Item: it}}
		case w < 54:
			p = mkTag(taggable[rng.IntN(len(taggable))], r)
		case w < 62:
			p = gplan{in: gin{Op: "delete", Item: it}}
		case w < 68:
			p = gplan{in: gin{Op: "gc"}}
		case w < 78:
			p = gplan{in: gin{Op: "resolve", Ref: r}}
		case w < 83:
			p = gplan{in: gin{Op: "untag", Ref: r}}
		case w < 92:
			p = gplan{in: gin{Op: "exists", Item: it}}
		default:
			p = gplan{in: gin{Op: "fetch", Item: it}}
		}
		plans[g] = append(plans[g], p)
	}
	// half of the rounds: the other goroutines wait (bounded) until the sweep is under way
	gated := rng.IntN(2) == 0

	hookSalt.Store(rng.Uint64())
	hookArmed.Store(true)
	start := make(chan struct{})
	var wg sync.WaitGroup
	for g := 0; g < G; g++ {
		wg.Add(1)
		yields := make([]int, len(plans[g]))
		for k := range yields {
			yields[k] = rng.IntN(3)
		}
		go func(g int, yields []int) {
			defer wg.Done()
			<-start
			if g != 0 && gated {
				// schedule perturbation only: no verdict depends on it
				deadline := time.Now().Add(30 * time.Millisecond)
				for time.Now().Before(deadline) {
					if _, err := os.Lstat(firstGarbage); err != nil {
						break
					}
					runtime.Gosched()
				}
			}
			for k, p := range plans[g] {
				for y := 0; y < yields[k]; y++ {
					runtime.Gosched()
				}
				exec(g+1, p)
			}
		}(g, yields)
	}
	close(start)
	wg.Wait()
	hookArmed.Store(false)

	// quiescence: read-back, recorded
	reader := G + 1
	nConc := len(hist)
	for k := range items {
		exec(reader, gplan{in: gin{Op: "exists", Item: k}})
		exec(reader, gplan{in: gin{Op: "fetch", Item: k}})
	}
	for r := range refs {
		exec(reader, gplan{in: gin{Op: "resolve", Ref: r}})
	}
	var listed []string
	tagsErr := h.oci.Tags(ctx, "", func(t []string) error { listed = append(listed, t...); return nil })

	witness := func() map[string]any {
		hs := append([]grec{}, hist...)
		sort.Slice(hs, func(a, b int) bool { return hs[a].Call < hs[b].Call })
		var lines []string
		for _, r := range hs {
			lines = append(lines, str(r))
		}
		var its []string
		for _, it := range items {
			its = append(its, fmt.Sprintf("%s %s %s:%s", it.Label, it.Desc.MediaType, it.Desc.Digest.Algorithm(), it.Desc.Digest.Encoded()[:16]))
		}
		return map[string]any{"store": "oci", "options": o, "goroutines": G, "items": its, "refs": refs, "garbage_files_planted": nGarbage, "others_wait_for_sweep": gated, "history": lines, "tags_listed_after_quiescence": listed}
	}

	if wrongBytes != "" {
		res.Violate("cross:oci:fetch:wrong-bytes", wrongBytes, witness())
	}
	for _, r := range hist {
		bad := false
		switch r.In.Op {
		case "push":
			bad = r.Out.Class != cOK && r.Out.Class != cExists
		case "exists":
			bad = r.Out.Class != "true" && r.Out.Class != "false"
		case "gc":
			bad = r.Out.Class != cOK
		default:
			bad = r.Out.Class != cOK && r.Out.Class != cNotFnd
		}
		if bad {
			res.Violate("cross:oci:"+r.In.Op+":unexpected-result", "call returned a result outside the statement's vocabulary: "+str(r), witness())
			break
		}
	}

	// quiescent invariant: no reference names absent content; Tags = resolvable references
	rb := hist[nConc:]
	existsNow, fetchNow := map[int]bool{}, map[int]bool{}
	for _, r := range rb {
		switch r.In.Op {
		case "exists":
			existsNow[r.In.Item] = r.Out.Class == "true"
		case "fetch":
			fetchNow[r.In.Item] = r.Out.Class == cOK
		}
	}
	resolvable := map[string]bool{}
	for _, r := range rb {
		if r.In.Op != "resolve" || r.Out.Class != cOK {
			continue
		}
		resolvable[refs[r.In.Ref]] = true
		named := -1
		for k, it := range items {
			if strings.Contains(r.Out.Val, it.Desc.Digest.String()) {
				named = k
			}
		}
		switch {
		case named < 0:
			res.Violate("cross:oci:resolve:foreign-descriptor", fmt.Sprintf("after quiescence Resolve(%q) = %s, which was never tagged", refs[r.In.Ref], r.Out.Val), witness())
		case !existsNow[named] || !fetchNow[named]:
			res.Violate("cross:oci:dangling-reference:gc", fmt.Sprintf("after quiescence Resolve(%q) names %s but Exists = %v and Fetch ok = %v: the reference points at content that is not in the store; no sequential order of Tag, Delete and GC produces that", refs[r.In.Ref], items[named].Label, existsNow[named], fetchNow[named]), witness())
		}
	}
	if tagsErr != nil {
		res.Violate("cross:oci:tags:error", "Tags: "+tagsErr.Error(), witness())
	} else {
		ls := map[string]bool{}
		for _, t := range listed {
			ls[t] = true
		}
		if len(ls) != len(listed) || strings.Join(sortedKeys(ls), ",") != strings.Join(sortedKeys(resolvable), ",") {
			res.Violate("cross:oci:tags-listing-mismatch", fmt.Sprintf("after quiescence Tags lists %q but the resolvable references are %q", listed, sortedKeys(resolvable)), witness())
		}
	}

	// the whole store as one object
	ops := make([]porcupine.Operation, 0, len(hist))
	for _, r := range hist {
		ops = append(ops, porcupine.Operation{ClientId: r.Client, Input: r.In, Output: r.Out, Call: r.Call, Return: r.Ret})
	}
	verdict, _ := porcupine.CheckOperationsVerbose(gcModel, ops, 20*time.Second)
	switch verdict {
	case porcupine.Ok:
		res.Count("gc_histories_ok", 1)
	case porcupine.Unknown:
		res.Count("gc_histories_unknown", 1)
		res.Inconc = fmt.Sprintf("%s case %d: porcupine timed out on the GC history (%d calls)", phase, i, len(ops))
	default:
		res.Count("gc_histories_illegal", 1)
		res.Violate("cross:oci:not-linearizable:gc", fmt.Sprintf("no sequential order of the %d calls (with GC removing exactly what no reference reaches) explains their results and the state read back after quiescence", len(ops)), witness())
	}

	// evidence
	conc := hist[:nConc]
	overlapGC, gcCalls, tagOK, pushOK := 0, 0, 0, 0
	for _, a := range conc {
		switch {
		case a.In.Op == "gc":
			gcCalls++
		case a.In.Op == "tag" && a.Out.Class == cOK:
			tagOK++
		case a.In.Op == "push" && a.Out.Class == cOK:
			pushOK++
		}
		if a.In.Op != "gc" {
			continue
		}
		for _, b := range conc {
			if b.Client != a.Client && (b.In.Op == "push" || b.In.Op == "tag") && a.Call < b.Ret && b.Call < a.Ret {
				overlapGC++
			}
		}
	}
	left, _ := os.ReadDir(gdir)
	garbageLeft := 0
	for _, e := range left {
		known := false
		for _, it := range items {
			if e.Name() == it.Desc.Digest.Encoded() {
				known = true
			}
		}
		if !known {
			garbageLeft++
		}
	}
	res.Count("gc_garbage_files_left", int64(garbageLeft)) // evidence only: what GC must remove is C09's clause
	type ev struct {
		t int64
		s string
	}
	var evs []ev
	for _, r := range conc {
		id := fmt.Sprintf("%d:%s:%d:%d:%s", r.Client, r.In.Op, r.In.Item, r.In.Ref, r.Out.Class)
		evs = append(evs, ev{r.Call, "c" + id}, ev{r.Ret, "r" + id})
	}
	sort.Slice(evs, func(a, b int) bool { return evs[a].t < evs[b].t })
	hsh := sha256.New()
	for _, e := range evs {
		hsh.Write([]byte(e.s + "\n"))
	}
	inter := hex.EncodeToString(hsh.Sum(nil)[:12])
	res.Count("gc_calls", int64(gcCalls))
	res.Count("gc_calls_recorded", int64(len(hist)))
	res.Count("gc_garbage_files_planted", int64(nGarbage))
	res.Count("gc_push_or_tag_overlapping_a_gc", int64(overlapGC))
	res.Count("gc_tag_ok", int64(tagOK))
	res.Count("gc_push_ok", int64(pushOK))
	res.Observe("gc_interleavings", inter)
	hookHits.Range(func(k, v any) bool {
		if n := v.(*atomic.Int64).Swap(0); n > 0 {
			res.Count("hook:"+k.(string), n)
		}
		return true
	})
	res.Key = "gc|" + o.String() + "|" + inter
	res.NT = overlapGC > 0 && tagOK > 0
	if i%151 == 0 {
		w := witness()
		if hh := w["history"].([]string); len(hh) > 40 {
			w["history"] = hh[:40]
		}
		res.Sample = w
	}
	return res
}
