package main

import (
	"bytes"
	"errors"
	"fmt"
	"io"
	"math/rand/v2"
	"sort"
	"strings"

	"github.com/opencontainers/go-digest"
	ocispec "github.com/opencontainers/image-spec/specs-go/v1"
	"oras.land/oras-go/v2/content"
	"oras.land/oras-go/v2/content/file"
	"oras.land/oras-go/v2/errdef"
	"oras.land/oras-go/v2/verifharness/evidence"
	"oras.land/oras-go/v2/verifharness/worker"
)

// error classes of the statement
const (
	cOK      = "ok"
	cExists  = "already-exists"
	cDupName = "duplicate-name"
	cNotFnd  = "not-found"
	cMissRef = "missing-reference"
	cInvRef  = "invalid-reference"
	cOverwr  = "overwrite-disallowed"
)

func classify(err error) string {
	switch {
	case err == nil:
		return cOK
	case errors.Is(err, errdef.ErrAlreadyExists):
		return cExists
	case errors.Is(err, file.ErrDuplicateName):
		return cDupName
	case errors.Is(err, errdef.ErrNotFound):
		return cNotFnd
	case errors.Is(err, errdef.ErrMissingReference):
		return cMissRef
	case errors.Is(err, errdef.ErrInvalidReference):
		return cInvRef
	case errors.Is(err, file.ErrOverwriteDisallowed):
		return cOverwr
	}
	return "other:" + err.Error()
}

// presence of an item in the model
const (
	pNo   = iota
	pYes  // present: Exists true, Fetch returns the bytes
	pOpen // file store: the name is held by other bytes; the statement does not say how this
	// descriptor answers, except that no wrong bytes may ever be returned
)

// model is the reference model: a content map and a tag map, nothing else.
type model struct {
	kind    string
	opts    storeOpts
	present map[string]bool          // memory: key3; oci: digest; file (unnamed): key3
	names   map[string]digest.Digest // file store: name -> digest of the bytes that took the name
	tags    map[string]ocispec.Descriptor
	// memory store, empty reference: the statement is silent; 0 = not yet observed,
	// 1 = the store treats "" as an ordinary reference, 2 = the store refuses it
	emptyRef int
}

func newModel(kind string, o storeOpts) *model {
	return &model{kind: kind, opts: o, present: map[string]bool{}, names: map[string]digest.Digest{}, tags: map[string]ocispec.Descriptor{}}
}

func (m *model) key(it *item) string {
	if m.kind == "oci" {
		return it.Desc.Digest.String()
	}
	return key3(it.Desc)
}

func (m *model) presence(it *item) int {
	if m.kind == "file" && it.Name != "" {
		w, ok := m.names[it.Name]
		switch {
		case !ok:
			return pNo
		case w == it.Desc.Digest:
			return pYes
		}
		return pOpen
	}
	if m.present[m.key(it)] {
		return pYes
	}
	if m.kind == "file" && it.PlainOfNamed && m.digestStoredByName(it.Desc.Digest) {
		return pOpen // answered from the named file; unjudged except for the bytes
	}
	return pNo
}

// digestStoredByName: some named file holds these bytes (file store's virtual CAS).
func (m *model) digestStoredByName(d digest.Digest) bool {
	for _, w := range m.names {
		if w == d {
			return true
		}
	}
	return false
}

func (m *model) setPresent(it *item) {
	if m.kind == "file" && it.Name != "" {
		m.names[it.Name] = it.Desc.Digest
		return
	}
	m.present[m.key(it)] = true
}

// wantPreds: ground truth for Predecessors(it): present manifests that list a
// descriptor with it's (mediaType, digest, size).
func (m *model) wantPreds(u *universe, it *item) map[string]bool {
	want := map[string]bool{}
	for _, p := range u.Items {
		if !p.Manifest || m.presence(p) != pYes {
			continue
		}
		for _, s := range p.Succ {
			if key3(u.Items[s].Desc) == key3(it.Desc) {
				want[key3(p.Desc)] = true
			}
		}
	}
	return want
}

type seqRun struct {
	u     *universe
	h     *storeHandle
	m     *model
	res   *worker.Result
	hist  []string
	sig   []string // structural signature: op/outcome classes
	fired bool
	// file store with DisableOverwrite: names under which a failed Push left a file behind
	tainted  map[string]bool
	reported map[string]bool
	// non-triviality
	refusedRepush, retagMoved, notFound, failedUnchanged int
	steps                                                int64
}

func (s *seqRun) witness() map[string]any {
	h := s.hist
	if len(h) > 450 {
		h = h[len(h)-450:]
	}
	var items []string
	for _, it := range s.u.Items {
		items = append(items, fmt.Sprintf("%d:%s %s %s size=%d name=%q succ=%v", it.ID, it.Label, it.Desc.MediaType, it.Desc.Digest.Encoded()[:12], it.Desc.Size, it.Name, it.Succ))
	}
	return map[string]any{"store": s.u.Kind, "options": s.m.opts, "items": items, "refs": s.u.Refs, "history": h}
}

func (s *seqRun) fail(key, what string) {
	if s.fired {
		return
	}
	s.fired = true
	s.res.Violate("seq:"+s.u.Kind+":"+key, what, s.witness())
}

// finding reports a deviation from the statement under its own specific key (once per
// case); stop ends the history when the model cannot follow the store any further.
func (s *seqRun) finding(key, what string, stop bool) {
	if s.fired || s.reported[key] {
		return
	}
	if s.reported == nil {
		s.reported = map[string]bool{}
	}
	s.reported[key] = true
	s.res.Violate("seq:"+s.u.Kind+":"+key, what, s.witness())
	if stop {
		s.fired = true
	}
}

func (s *seqRun) log(f string, a ...any) {
	s.hist = append(s.hist, fmt.Sprintf("%d ", len(s.hist))+fmt.Sprintf(f, a...))
}

// fetch reads an item through the store and classifies the outcome; bytes that
// do not match the descriptor are a violation whatever the model says.
func (s *seqRun) fetch(it *item, where string) (class string) {
	rc, err := s.h.t.Fetch(ctx, it.Desc)
	if err != nil {
		return classify(err)
	}
	b, rerr := io.ReadAll(rc)
	rc.Close()
	if rerr != nil {
		return "other:read:" + rerr.Error()
	}
	if int64(len(b)) != it.Desc.Size || digest.FromBytes(b) != it.Desc.Digest || !bytes.Equal(b, it.Bytes) {
		s.fail("fetch:wrong-bytes", fmt.Sprintf("%s: Fetch(%s) returned %d bytes that do not match the descriptor (%q)", where, it.Label, len(b), trunc(b)))
	}
	return cOK
}

func trunc(b []byte) string {
	if len(b) > 60 {
		b = b[:60]
	}
	return string(b)
}

// checkItem compares Exists and Fetch of one item with the model.
func (s *seqRun) checkItem(it *item, where string) {
	p := s.m.presence(it)
	ex, err := s.h.t.Exists(ctx, it.Desc)
	if err != nil {
		s.fail("exists:error", fmt.Sprintf("%s: Exists(%s) failed: %v", where, it.Label, err))
		return
	}
	fc := s.fetch(it, where)
	s.steps += 2
	switch p {
	case pYes:
		if !ex {
			s.fail("exists:lost", fmt.Sprintf("%s: Exists(%s) = false for content the model holds", where, it.Label))
		}
		if fc != cOK {
			s.fail("fetch:lost", fmt.Sprintf("%s: Fetch(%s) = %s for content the model holds", where, it.Label, fc))
		}
	case pNo:
		if ex {
			s.fail("exists:phantom", fmt.Sprintf("%s: Exists(%s) = true for content that is not in the model", where, it.Label))
		}
		if fc != cNotFnd {
			s.fail("fetch:phantom", fmt.Sprintf("%s: Fetch(%s) = %s for absent content, want not-found", where, it.Label, fc))
		}
	case pOpen:
		if fc != cOK && fc != cNotFnd {
			s.fail("fetch:error", fmt.Sprintf("%s: Fetch(%s) = %s", where, it.Label, fc))
		}
		s.res.Count("unjudged_name_held_by_other_bytes", 1)
	}
}

func (s *seqRun) checkRef(ref string, where string) {
	got, err := s.h.t.Resolve(ctx, ref)
	c := classify(err)
	s.steps++
	want, tagged := s.m.tags[ref]
	if ref == "" {
		switch {
		case s.m.kind != "memory":
			if c != cMissRef {
				s.fail("resolve:empty-ref", fmt.Sprintf("%s: Resolve(\"\") = %s, want missing-reference", where, c))
			}
			return
		case !tagged:
			if c == cOK {
				s.fail("resolve:phantom", fmt.Sprintf("%s: Resolve(\"\") succeeded though nothing was tagged with it", where))
			}
			return
		}
	}
	if !tagged {
		if c != cNotFnd {
			s.fail("resolve:phantom", fmt.Sprintf("%s: Resolve(%q) = %s %s, want not-found", where, ref, c, descJSON(got)))
		}
		return
	}
	if c != cOK {
		s.fail("resolve:lost", fmt.Sprintf("%s: Resolve(%q) = %s, want the descriptor tagged last", where, ref, c))
		return
	}
	if descJSON(got) != descJSON(want) {
		s.fail("resolve:wrong-descriptor", fmt.Sprintf("%s: Resolve(%q) = %s, most recently tagged %s", where, ref, descJSON(got), descJSON(want)))
	}
}

func (s *seqRun) checkPreds(it *item, where string) {
	if it.Twin {
		return // listed by no manifest under this media type; unjudged
	}
	got, err := s.h.t.Predecessors(ctx, it.Desc)
	s.steps++
	if err != nil {
		s.fail("predecessors:error", fmt.Sprintf("%s: Predecessors(%s): %v", where, it.Label, err))
		return
	}
	want := s.m.wantPreds(s.u, it)
	gotSet := map[string]bool{}
	for _, d := range got {
		gotSet[key3(d)] = true
	}
	if len(gotSet) != len(want) {
		s.fail("predecessors:mismatch", fmt.Sprintf("%s: Predecessors(%s) = %v, want %v", where, it.Label, sortedKeys(gotSet), sortedKeys(want)))
		return
	}
	for k := range want {
		if !gotSet[k] {
			s.fail("predecessors:mismatch", fmt.Sprintf("%s: Predecessors(%s) = %v, want %v", where, it.Label, sortedKeys(gotSet), sortedKeys(want)))
			return
		}
	}
}

func (s *seqRun) checkTags(last string, where string) {
	if s.h.oci == nil {
		return
	}
	var got []string
	calls := 0
	err := s.h.oci.Tags(ctx, last, func(t []string) error { calls++; got = append(got, t...); return nil })
	s.steps++
	if err != nil {
		s.fail("tags:error", fmt.Sprintf("%s: Tags(%q): %v", where, last, err))
		return
	}
	var want []string
	for r := range s.m.tags {
		if last == "" || r > last {
			want = append(want, r)
		}
	}
	sort.Strings(want)
	if strings.Join(got, "\x00") != strings.Join(want, "\x00") || len(got) != len(want) {
		s.fail("tags:mismatch", fmt.Sprintf("%s: Tags(%q) = %q, want %q", where, last, got, want))
	}
}

// checkState compares the full observable state with the model.
func (s *seqRun) checkState(where string) {
	for _, it := range s.u.Items {
		s.checkItem(it, where)
		s.checkPreds(it, where)
		if s.fired {
			return
		}
	}
	for _, r := range s.u.Refs {
		s.checkRef(r, where)
	}
	s.checkRef("never-tagged", where)
	s.checkTags("", where)
	s.res.Count("full_state_comparisons", 1)
}

// otherMediaType: another media type under which the same bytes may be described.
func otherMediaType(mt string) string {
	switch mt {
	case mtManifest:
		return mtDockerManifest
	case mtDockerManifest:
		return mtManifest
	case mtIndex:
		return "application/vnd.docker.distribution.manifest.list.v2+json"
	case mtLayer:
		return mtOctet
	case mtOctet, mtTwin:
		return mtLayer
	}
	return mtOctet
}

func corrupt(b []byte, rng *rand.Rand) []byte {
	out := append([]byte{}, b...)
	if len(out) > 1 && rng.IntN(3) == 0 {
		return out[:len(out)-1] // ends early
	}
	i := rng.IntN(len(out))
	out[i] ^= 0x20
	if out[i] == b[i] {
		out[i] ^= 0x01
	}
	return out
}

func runSeq(i int, seed int64) worker.Result {
	var res worker.Result
	rng := evidence.RandFor(seed, "c06-seq", i)
	kind := []string{"memory", "oci", "file"}[i%3]
	var o storeOpts
	switch kind {
	case "oci":
		o.AutoSaveIndex = rng.IntN(3) != 0
	case "file":
		o.ForceCAS = rng.IntN(3) == 0
		o.IgnoreNoName = rng.IntN(6) == 0
		o.DisableOverwr = rng.IntN(5) == 0
	}
	u := buildUniverse(rng, kind)
	h, err := openStore(kind, o)
	if err != nil {
		res.Violate("harness:open", err.Error(), nil)
		return res
	}
	defer h.close()
	s := &seqRun{u: u, h: h, m: newModel(kind, o), res: &res}
	m := s.m
	steps := 60 + rng.IntN(341)
	pushable := func() *item { return u.Items[rng.IntN(len(u.Items))] }

	for n := 0; n < steps && !s.fired; n++ {
		it := pushable()
		ref := u.Refs[rng.IntN(len(u.Refs))]
		refused := false // the step was refused or failed: state must be unchanged
		w := rng.IntN(100)
		if kind != "oci" && w >= 80 {
			w = rng.IntN(80)
		}
		where := fmt.Sprintf("step %d", n)
		switch {
		case w < 22: // Push
			if it.Absent {
				continue
			}
			p := m.presence(it)
			viaName := false
			if kind == "file" && it.PlainOfNamed && p == pOpen && !o.IgnoreNoName {
				// the statement's own terms: is the content present (Exists) right before the Push?
				viaName, _ = h.t.Exists(ctx, it.Desc)
			}
			err := h.t.Push(ctx, it.Desc, bytes.NewReader(it.Bytes))
			c := classify(err)
			s.log("Push(%s) = %s", it.Label, c)
			s.sig = append(s.sig, "P"+c[:2])
			s.steps++
			discard := kind == "file" && o.IgnoreNoName && it.Name == ""
			if c == cOverwr && o.DisableOverwr && s.taintedInvolved(it) {
				s.finding("push:failed-push-blocks-retry:disable-overwrite", fmt.Sprintf("%s: Push(%s) = %s: an earlier Push of this name that FAILED (bytes did not match) left a file behind, so the failed operation changed how the store answers", where, it.Label, c), true)
				break
			}
			switch {
			case discard:
				if c != cOK {
					s.fail("push:ignore-no-name", fmt.Sprintf("%s: Push(%s) with IgnoreNoName = %s, want ok", where, it.Label, c))
				}
			case p == pOpen && it.PlainOfNamed:
				switch {
				case c == cOK && viaName:
					s.finding("push:plain-descriptor-present-via-named-file-not-refused", fmt.Sprintf("%s: Exists(%s) = true (bytes held by a named file) and yet Push(%s) = ok instead of already-exists", where, it.Label, it.Label), false)
					m.setPresent(it)
				case c == cOK:
					m.setPresent(it)
				case c == cExists && viaName:
					refused = true
					s.refusedRepush++
				default:
					s.fail("push:rejected", fmt.Sprintf("%s: Push(%s) = %s (Exists before = %v)", where, it.Label, c, viaName))
				}
			case p == pNo:
				if c != cOK {
					s.fail("push:rejected", fmt.Sprintf("%s: Push(%s) of absent content = %s", where, it.Label, c))
					break
				}
				m.setPresent(it)
				if it.Manifest && kind == "file" {
					s.probeRestored(it, where)
				}
			default:
				want := cExists
				if it.Name != "" {
					want = cDupName
				}
				if c != want {
					s.fail("push:repush-not-refused", fmt.Sprintf("%s: Push(%s) of content already present = %s, want %s", where, it.Label, c, want))
				}
				refused = true
				s.refusedRepush++
			}
		case w < 26: // Push with bytes that do not match: must fail and change nothing
			if it.Absent || len(it.Bytes) == 0 {
				continue
			}
			err := h.t.Push(ctx, it.Desc, bytes.NewReader(corrupt(it.Bytes, rng)))
			c := classify(err)
			s.log("PushBadBytes(%s) = %.60s", it.Label, c)
			s.sig = append(s.sig, "B")
			s.steps++
			if kind == "file" && o.IgnoreNoName && it.Name == "" {
				break // discarded unread, by documented option
			}
			if o.DisableOverwr && it.Name != "" && m.presence(it) == pNo {
				if s.tainted == nil {
					s.tainted = map[string]bool{}
				}
				s.tainted[it.Name] = true
			}
			if c == cOK {
				s.fail("push:bad-bytes-accepted", fmt.Sprintf("%s: Push(%s) with non-matching bytes succeeded", where, it.Label))
			}
			if (c == cExists || c == cDupName) && m.presence(it) == pNo {
				s.fail("push:refused-absent", fmt.Sprintf("%s: Push(%s) = %s though the content is absent", where, it.Label, c))
			}
			refused = true
			s.failedUnchanged++
		case w < 38: // Fetch
			p := m.presence(it)
			c := s.fetch(it, where)
			s.log("Fetch(%s) = %.40s", it.Label, c)
			s.sig = append(s.sig, "F"+c[:2])
			s.steps++
			switch {
			case p == pYes && c != cOK:
				s.fail("fetch:lost", fmt.Sprintf("%s: Fetch(%s) = %s for present content", where, it.Label, c))
			case p == pNo && c != cNotFnd:
				s.fail("fetch:phantom", fmt.Sprintf("%s: Fetch(%s) = %s for absent content, want not-found", where, it.Label, c))
			case p == pOpen && c != cOK && c != cNotFnd:
				s.fail("fetch:error", fmt.Sprintf("%s: Fetch(%s) = %s", where, it.Label, c))
			}
			if c == cNotFnd {
				s.notFound++
				refused = true
			}
		case w < 46: // Exists
			ex, err := h.t.Exists(ctx, it.Desc)
			s.log("Exists(%s) = %v %v", it.Label, ex, err)
			s.sig = append(s.sig, fmt.Sprintf("E%v", ex)[:2])
			s.steps++
			p := m.presence(it)
			if err != nil {
				s.fail("exists:error", fmt.Sprintf("%s: Exists(%s): %v", where, it.Label, err))
			} else if (p == pYes && !ex) || (p == pNo && ex) {
				s.fail("exists:mismatch", fmt.Sprintf("%s: Exists(%s) = %v, model presence %v", where, it.Label, ex, p == pYes))
			}
		case w < 60: // Tag
			// the descriptor handed to Tag varies while the content stays what was pushed:
			// plain, annotations, artifactType, platform, and (digest-keyed oci store) the same
			// digest described under another media type; Resolve must return exactly it
			d := it.Desc
			variant := ""
			annotate := func() {
				d.Annotations = map[string]string{"verif.step": fmt.Sprint(n)}
				for k, v := range it.Desc.Annotations {
					d.Annotations[k] = v
				}
			}
			switch v := rng.IntN(8); {
			case v < 3:
			case v < 5:
				annotate()
				variant = "+ann" + fmt.Sprint(n)
			case v == 5:
				d.ArtifactType = "application/vnd.verif.at" + fmt.Sprint(n%3)
				if rng.IntN(2) == 0 {
					annotate()
				}
				variant = "+artifactType" + fmt.Sprint(n%3)
			case v == 6:
				d.Platform = &ocispec.Platform{Architecture: []string{"amd64", "arm64"}[n%2], OS: "linux"}
				variant = "+platform" + fmt.Sprint(n%2)
			case kind == "oci":
				d.MediaType = otherMediaType(d.MediaType)
				variant = "+as:" + d.MediaType
			}
			p := m.presence(it)
			err := h.t.Tag(ctx, d, ref)
			c := classify(err)
			s.log("Tag(%s%s, %q) = %.60s", it.Label, variant, ref, c)
			s.sig = append(s.sig, "T"+c[:2])
			s.steps++
			okTag := func() {
				if old, was := m.tags[ref]; was {
					switch {
					case old.Digest != d.Digest:
						s.retagMoved++
					case old.MediaType != d.MediaType:
						s.res.Count("seq_retag_same_digest_other_media_type", 1)
					case descJSON(old) != descJSON(d):
						s.res.Count("seq_retag_same_digest_other_descriptor", 1)
					}
				}
				m.tags[ref] = d
			}
			switch {
			case ref == "" && kind != "memory":
				// the order of the two checks is not specified when the content is absent too
				if c != cMissRef && !(p != pYes && c == cNotFnd) {
					s.fail("tag:empty-ref", fmt.Sprintf("%s: Tag(%s, \"\") = %s, want missing-reference", where, it.Label, c))
				}
				refused = true
			case p == pNo:
				if c != cNotFnd && !(ref == "" && (c == cMissRef || c == cInvRef)) {
					s.fail("tag:absent-content", fmt.Sprintf("%s: Tag(%s, %q) of absent content = %s, want not-found", where, it.Label, ref, c))
				}
				refused = true
				s.notFound++
			case ref == "": // memory store, content present or open: either choice, then consistent
				switch {
				case c == cOK && m.emptyRef != 2:
					m.emptyRef = 1
					okTag()
				case (c == cMissRef || c == cInvRef) && m.emptyRef != 1:
					m.emptyRef = 2
					refused = true
				default:
					s.fail("tag:empty-ref-inconsistent", fmt.Sprintf("%s: Tag(%s, \"\") = %s, earlier the store chose mode %d", where, it.Label, c, m.emptyRef))
				}
			case p == pYes:
				if c != cOK {
					s.fail("tag:rejected", fmt.Sprintf("%s: Tag(%s, %q) of present content = %s", where, it.Label, ref, c))
					break
				}
				okTag()
			default: // pOpen
				switch c {
				case cOK:
					okTag()
				case cNotFnd:
					refused = true
				default:
					s.fail("tag:error", fmt.Sprintf("%s: Tag(%s, %q) = %s", where, it.Label, ref, c))
				}
			}
		case w < 72: // Resolve
			s.log("Resolve(%q)", ref)
			s.sig = append(s.sig, "R")
			s.checkRef(ref, where)
			if _, ok := m.tags[ref]; !ok {
				refused = true
				s.notFound++
			}
		case w < 80: // Predecessors
			s.log("Predecessors(%s)", it.Label)
			s.sig = append(s.sig, "Q")
			s.checkPreds(it, where)
		case w < 86: // Untag (oci)
			err := h.oci.Untag(ctx, ref)
			c := classify(err)
			s.log("Untag(%q) = %.60s", ref, c)
			s.sig = append(s.sig, "U"+c[:2])
			s.steps++
			_, tagged := m.tags[ref]
			switch {
			case ref == "":
				if c != cMissRef {
					s.fail("untag:empty-ref", fmt.Sprintf("%s: Untag(\"\") = %s, want missing-reference", where, c))
				}
				refused = true
			case !tagged:
				if c != cNotFnd {
					s.fail("untag:absent", fmt.Sprintf("%s: Untag(%q) of an unknown reference = %s, want not-found", where, ref, c))
				}
				refused = true
				s.notFound++
			default:
				if c != cOK {
					s.fail("untag:rejected", fmt.Sprintf("%s: Untag(%q) = %s", where, ref, c))
					break
				}
				delete(m.tags, ref)
			}
		case w < 94: // Delete (oci)
			// the oci store keeps content by digest: every reference naming the digest goes with
			// the blob, whatever media type it was tagged with (no reference names absent content)
			for _, t := range m.tags {
				if t.Digest == it.Desc.Digest && !content.Equal(t, it.Desc) {
					s.res.Count("seq_delete_under_other_media_type_tag", 1)
					break
				}
			}
			p := m.presence(it)
			err := h.oci.Delete(ctx, it.Desc)
			c := classify(err)
			s.log("Delete(%s) = %.60s", it.Label, c)
			s.sig = append(s.sig, "D"+c[:2])
			s.steps++
			if p == pNo {
				if c != cNotFnd {
					s.fail("delete:absent", fmt.Sprintf("%s: Delete(%s) of absent content = %s, want not-found", where, it.Label, c))
				}
				refused = true
				s.notFound++
				break
			}
			if c != cOK {
				s.fail("delete:rejected", fmt.Sprintf("%s: Delete(%s) = %s", where, it.Label, c))
				break
			}
			delete(m.present, m.key(it))
			for r, t := range m.tags {
				if t.Digest == it.Desc.Digest {
					delete(m.tags, r)
				}
			}
		case w < 98: // Tags (oci)
			last := ""
			if rng.IntN(2) == 0 {
				last = u.Refs[rng.IntN(len(u.Refs))]
			}
			s.log("Tags(%q)", last)
			s.sig = append(s.sig, "L")
			s.checkTags(last, where)
		default: // SaveIndex (oci): no observable change
			err := h.oci.SaveIndex()
			s.log("SaveIndex() = %v", err)
			s.sig = append(s.sig, "S")
			if err != nil {
				s.fail("saveindex:error", fmt.Sprintf("%s: SaveIndex: %v", where, err))
			}
			refused = true
		}
		if s.fired {
			break
		}
		// a refused or failed operation changes nothing: full observable state against the model;
		// after successful steps the state is compared too (every third step, and at the end)
		if refused || n%3 == 0 || n == steps-1 {
			s.checkState(fmt.Sprintf("after step %d (%s)", n, s.hist[len(s.hist)-1]))
		}
	}

	res.Count("seq_steps_compared", s.steps)
	res.Count("seq_history_ops", int64(len(s.hist)))
	res.Count("seq_refused_repush", int64(s.refusedRepush))
	res.Count("seq_retag_moved", int64(s.retagMoved))
	res.Count("seq_not_found", int64(s.notFound))
	res.Count("seq_failed_push_unchanged", int64(s.failedUnchanged))
	res.Observe("seq_store_options", kind+"/"+o.String())
	if m.emptyRef != 0 {
		res.Observe("memory_empty_ref_mode", fmt.Sprint(m.emptyRef))
	}
	res.Key = kind + "|" + o.String() + "|" + strings.Join(s.sig, "")
	res.NT = s.refusedRepush > 0 && s.retagMoved > 0 && s.notFound > 0
	if i%211 == 0 {
		w := s.witness()
		if hh := w["history"].([]string); len(hh) > 40 {
			w["history"] = hh[:40]
			w["history_truncated_from"] = len(hh)
		}
		res.Sample = w
	}
	return res
}

// taintedInvolved: it, or a named file it lists, is a name a failed Push left a file under.
func (s *seqRun) taintedInvolved(it *item) bool {
	if s.tainted[it.Name] {
		return true
	}
	for _, sid := range it.Succ {
		if s.tainted[s.u.Items[sid].Name] {
			return true
		}
	}
	return false
}

// probeRestored: the file store (ForceCAS off) may re-create named successor
// files of a pushed manifest from bytes it already holds under another name.
// The statement does not mention it; the outcome is observed and the model
// follows, except that content cannot appear from nowhere.
func (s *seqRun) probeRestored(man *item, where string) {
	for _, sid := range man.Succ {
		su := s.u.Items[sid]
		if su.Name == "" {
			continue
		}
		if _, held := s.m.names[su.Name]; held {
			continue
		}
		ex, err := s.h.t.Exists(ctx, su.Desc)
		s.steps++
		if err != nil {
			s.fail("exists:error", fmt.Sprintf("%s: Exists(%s): %v", where, su.Label, err))
			return
		}
		if !ex {
			continue
		}
		s.log("  (observed: file %q restored by Push(%s))", su.Name, man.Label)
		switch {
		case s.m.opts.ForceCAS:
			s.fail("push:restored-under-forcecas", fmt.Sprintf("%s: Push(%s) made %s exist although ForceCAS is set", where, man.Label, su.Label))
		case !s.m.digestStoredByName(su.Desc.Digest) && !s.m.present[key3(su.Desc)]:
			s.fail("push:content-from-nowhere", fmt.Sprintf("%s: Push(%s) made %s exist although its bytes were never pushed", where, man.Label, su.Label))
		default:
			s.m.names[su.Name] = su.Desc.Digest
			s.res.Count("file_restored_duplicates", 1)
		}
	}
}
