package main

import (
	"archive/tar"
	"bytes"
	"context"
	"encoding/json"
	"errors"
	"fmt"
	"io/fs"
	"math/rand/v2"
	"os"
	"path/filepath"
	"sort"

	"github.com/opencontainers/go-digest"
	ocispec "github.com/opencontainers/image-spec/specs-go/v1"
	"oras.land/oras-go/v2/content/oci"
	"oras.land/oras-go/v2/verifharness/worker"
)

type ctxT = context.Context

type ociStep struct {
	Op  string `json:"op"`
	Tag string `json:"tag,omitempty"`
	M   int    `json:"m"`
}

const ociAlphabet = "abXY019._-/:@ é"

func genOCITag(rng *rand.Rand, have []string) string {
	s := ""
	if len(have) > 0 && rng.IntN(3) == 0 {
		p := []rune(have[rng.IntN(len(have))])
		s = string(p[:rng.IntN(len(p)+1)])
	}
	runes := []rune(ociAlphabet)
	for k, l := 0, 1+rng.IntN(6); k < l; k++ {
		s += string(runes[rng.IntN(len(runes))])
	}
	return s
}

// runOCI builds a layout through a seeded history of Tag / re-Tag / Untag /
// Delete, then compares Tags(last) of the live store and of three reopened
// views with the tag-map model.
func runOCI(rng *rand.Rand, i int) (res worker.Result) {
	dir, err := os.MkdirTemp("", "verif-c15-")
	if err != nil {
		res.Violate("harness:mkdtemp", err.Error(), nil)
		return res
	}
	defer os.RemoveAll(dir)
	st, err := oci.New(dir)
	if err != nil {
		res.Violate("harness:oci.New", err.Error(), nil)
		return res
	}
	st.AutoGC = rng.IntN(2) == 0

	// a few independent manifests
	nm := 1 + rng.IntN(5)
	cfg := []byte(fmt.Sprintf(`{"case":%d}`, i))
	cfgDesc := ocispec.Descriptor{MediaType: "application/vnd.c15.config", Digest: digest.FromBytes(cfg), Size: int64(len(cfg))}
	if err := st.Push(ctx, cfgDesc, bytes.NewReader(cfg)); err != nil {
		res.Violate("harness:push", err.Error(), nil)
		return res
	}
	var mans []ocispec.Descriptor
	for k := 0; k < nm; k++ {
		m := ocispec.Manifest{MediaType: ocispec.MediaTypeImageManifest, Config: cfgDesc, Layers: []ocispec.Descriptor{}, Annotations: map[string]string{"k": fmt.Sprint(k)}}
		m.SchemaVersion = 2
		b, _ := json.Marshal(m)
		d := ocispec.Descriptor{MediaType: ocispec.MediaTypeImageManifest, Digest: digest.FromBytes(b), Size: int64(len(b))}
		if err := st.Push(ctx, d, bytes.NewReader(b)); err != nil {
			res.Violate("harness:push", err.Error(), nil)
			return res
		}
		mans = append(mans, d)
	}
	alive := make([]bool, nm)
	for k := range alive {
		alive[k] = true
	}

	model := map[string]int{}
	var history []ociStep
	var names []string
	steps := rng.IntN(45)
	if rng.IntN(12) == 0 {
		steps = 0
	}
	ops := ""
steps:
	for s := 0; s < steps; s++ {
		var aliveIdx []int
		for k, a := range alive {
			if a {
				aliveIdx = append(aliveIdx, k)
			}
		}
		switch r := rng.IntN(20); {
		case r < 13 && len(aliveIdx) > 0: // tag (new name, or move an existing one)
			m := aliveIdx[rng.IntN(len(aliveIdx))]
			var t string
			if len(names) > 0 && rng.IntN(5) == 0 {
				t = names[rng.IntN(len(names))]
			} else {
				t = genOCITag(rng, names)
			}
			if err := st.Tag(ctx, mans[m], t); err != nil {
				res.Violate("harness:tag", fmt.Sprintf("Tag(%q): %v", t, err), nil)
				return res
			}
			if _, ok := model[t]; !ok {
				names = append(names, t)
			}
			model[t] = m
			history = append(history, ociStep{"tag", t, m})
			ops += "t"
		case r < 14 && len(aliveIdx) > 0: // a digest reference is not a tag
			m := aliveIdx[rng.IntN(len(aliveIdx))]
			if err := st.Tag(ctx, mans[m], mans[m].Digest.String()); err != nil {
				res.Violate("harness:tag", err.Error(), nil)
				return res
			}
			history = append(history, ociStep{"tag-by-digest", "", m})
			ops += "g"
		case r < 18 && len(model) > 0: // untag
			var live []string
			for t := range model {
				live = append(live, t)
			}
			sort.Strings(live)
			t := live[rng.IntN(len(live))]
			if err := st.Untag(ctx, t); err != nil {
				// the store no longer knows a tag the model holds: end the history here and let the
				// Tags comparison below speak (a listed tag that cannot be untagged is not this property's subject)
				res.Count("oci_untag_failed", 1)
				history = append(history, ociStep{"untag-failed: " + err.Error(), t, -1})
				break steps
			}
			delete(model, t)
			history = append(history, ociStep{"untag", t, -1})
			ops += "u"
		case r == 19: // GC keeps every tag; manifests without a tag go
			if err := st.GC(ctx); err != nil {
				res.Violate("harness:gc", err.Error(), nil)
				return res
			}
			for k := range alive {
				if alive[k] {
					ok, err := st.Exists(ctx, mans[k])
					alive[k] = err == nil && ok
				}
			}
			history = append(history, ociStep{"gc", "", -1})
			ops += "G"
			res.Count("oci_gc_runs", 1)
		case r < 19 && len(aliveIdx) > 1: // delete a manifest: its tags go with it
			m := aliveIdx[rng.IntN(len(aliveIdx))]
			if err := st.Delete(ctx, mans[m]); err != nil {
				res.Violate("harness:delete", err.Error(), nil)
				return res
			}
			alive[m] = false
			for t, mm := range model {
				if mm == m {
					delete(model, t)
				}
			}
			history = append(history, ociStep{"delete", "", m})
			ops += "d"
		}
	}
	var all []string
	for t := range model {
		all = append(all, t)
	}
	sort.Strings(all)

	// values of last
	lasts := []string{""}
	lastCls := []string{"none"}
	if len(all) > 0 {
		p := all[rng.IntN(len(all))]
		lasts = append(lasts, p, p+"0", all[0], all[len(all)-1], "\x01", "\U0010FFFF", string([]rune(p)[:(len([]rune(p))+1)/2]))
		lastCls = append(lastCls, "existing", "between", "first", "final", "before-all", "after-all", "prefix")
		for _, n := range names {
			if _, ok := model[n]; !ok {
				lasts = append(lasts, n)
				lastCls = append(lastCls, "removed-tag")
				break
			}
		}
	} else {
		lasts = append(lasts, "m")
		lastCls = append(lastCls, "after-all")
	}

	// views
	type view struct {
		name string
		l    interface {
			Tags(ctxT, string, func([]string) error) error
		}
	}
	views := []view{{"rw", st}}
	if rw, err := oci.New(dir); err == nil {
		views = append(views, view{"reopen-rw", rw})
	} else {
		res.Violate("harness:reopen", err.Error(), nil)
	}
	if ro, err := oci.NewFromFS(ctx, os.DirFS(dir)); err == nil {
		views = append(views, view{"fs", ro})
	} else {
		res.Violate("harness:reopen-fs", err.Error(), nil)
	}
	if i%2 == 0 {
		tarPath := dir + ".tar"
		if err := writeTar(dir, tarPath); err == nil {
			if ro, err := oci.NewFromTar(ctx, tarPath); err == nil {
				views = append(views, view{"tar", ro})
			} else {
				res.Violate("harness:reopen-tar", err.Error(), nil)
			}
		}
		defer os.Remove(tarPath)
	}

	witness := func(v, last string, got []string) map[string]any {
		return map[string]any{"history": history, "view": v, "last": last, "got": got, "model_tags": all, "auto_gc": st.AutoGC}
	}
	nontrivial := false
	for _, v := range views {
		for li, last := range lasts {
			var want []string
			for _, t := range all {
				if last == "" || t > last {
					want = append(want, t)
				}
			}
			var got []string
			calls := 0
			err := v.l.Tags(ctx, last, func(tags []string) error {
				calls++
				got = append(got, tags...)
				return nil
			})
			res.Count("oci_listings", 1)
			if err != nil {
				res.Violate("oci-tags-error:"+v.name, fmt.Sprintf("%s.Tags(last=%q): %v", v.name, last, err), witness(v.name, last, got))
				continue
			}
			if !sort.StringsAreSorted(got) {
				res.Violate("oci-tags-unsorted:"+v.name, fmt.Sprintf("%s.Tags(last=%q) is not sorted", v.name, last), witness(v.name, last, got))
			}
			if !equal(got, want) {
				res.Violate("oci-tags-mismatch:"+v.name, fmt.Sprintf("%s.Tags(last=%q) returned %d tags, the model holds %d after last (first difference at %d)", v.name, last, len(got), len(want), firstDiff(got, want)), witness(v.name, last, got))
			}
			if last != "" && len(want) >= 1 && len(want) < len(all) {
				nontrivial = true
			}
			res.Observe("last_classes", "oci-"+lastCls[li])
			// a failing callback is returned
			if li == 1 {
				calls = 0
				ce := callbackErrors[(i+len(v.name))%len(callbackErrors)]
				err := v.l.Tags(ctx, last, func(tags []string) error { calls++; return ce })
				if !errors.Is(err, ce) {
					res.Violate("callback-error-lost:oci-"+v.name, fmt.Sprintf("%s.Tags: callback failed with %q, Tags returned %v", v.name, ce, err), witness(v.name, last, nil))
				}
				if calls != 1 {
					res.Violate("callback-after-failure:oci-"+v.name, fmt.Sprintf("%s.Tags: callback invoked %d times although the first call failed", v.name, calls), witness(v.name, last, nil))
				}
			}
		}
		res.Observe("targets", "oci-"+v.name)
	}
	szCls := len(all)
	if szCls > 6 {
		szCls = 6 + szCls/8
	}
	res.Key = fmt.Sprintf("oci|%d|%d|%s", szCls, nm, ops)
	res.NT = nontrivial
	res.Evals = len(views)
	res.Count("oci_history_steps", int64(len(history)))
	if i%97 == 0 {
		res.Sample = map[string]any{"target": "oci", "history_ops": ops, "tags": all, "views": len(views)}
	}
	return res
}

func writeTar(dir, tarPath string) error {
	f, err := os.Create(tarPath)
	if err != nil {
		return err
	}
	defer f.Close()
	tw := tar.NewWriter(f)
	err = filepath.WalkDir(dir, func(p string, d fs.DirEntry, err error) error {
		if err != nil {
			return err
		}
		rel, _ := filepath.Rel(dir, p)
		if rel == "." {
			return nil
		}
		info, err := d.Info()
		if err != nil {
			return err
		}
		hdr, err := tar.FileInfoHeader(info, "")
		if err != nil {
			return err
		}
		hdr.Name = filepath.ToSlash(rel)
		if d.IsDir() {
			hdr.Name += "/"
		}
		if err := tw.WriteHeader(hdr); err != nil {
			return err
		}
		if info.Mode().IsRegular() {
			b, err := os.ReadFile(p)
			if err != nil {
				return err
			}
			if _, err := tw.Write(b); err != nil {
				return err
			}
		}
		return nil
	})
	if err != nil {
		return err
	}
	return tw.Close()
}
