// C15 — Listings return every item exactly once and never over-read metadata.
//
// Monitor: Repository.Tags, Registry.Repositories, Repository.Referrers (API
// and tag-schema paths) are run against a scripted registry that splits a known
// item list into pages in a seeded way (server-imposed sizes, honoured or
// ignored n, empty pages, continuation by last= or by opaque token, six forms
// of link target, several parameter spellings, sized bodies around
// MaxMetadataBytes). The concatenation of the callback arguments is compared
// with the registry's own list; a counting wrapper around every response body
// (installed in the client's RoundTripper) bounds the bytes the library reads.
// oci.Store.Tags / ReadOnlyStore.Tags are compared with a tag-map model.
package main

import (
	"context"
	"crypto/sha256"
	_ "crypto/sha512"
	"encoding/hex"
	"encoding/json"
	"errors"
	"fmt"
	"io"
	"math/rand/v2"
	"net/http"
	"net/http/httptest"
	"os"
	"sort"
	"strings"
	"sync"
	"sync/atomic"

	"github.com/opencontainers/go-digest"
	ocispec "github.com/opencontainers/image-spec/specs-go/v1"
	"oras.land/oras-go/v2/registry/remote"
	"oras.land/oras-go/v2/verifharness/evidence"
	"oras.land/oras-go/v2/verifharness/worker"
)

var ctx = context.Background()

func sha256Of(b []byte) string {
	h := sha256.Sum256(b)
	return "sha256:" + hex.EncodeToString(h[:])
}

func main() {
	if worker.IsWorker() {
		worker.Serve(runCase)
		return
	}
	if one := os.Getenv("C15_CASE"); one != "" {
		// debugging aid: C15_CASE=phase:index runs one case in-process and prints its result
		var phase string
		var idx int
		if p := strings.SplitN(one, ":", 2); len(p) == 2 {
			phase = p[0]
			fmt.Sscan(p[1], &idx)
		}
		res := runCase(phase, idx)
		b, _ := json.MarshalIndent(res, "", " ")
		fmt.Println(string(b))
		return
	}
	r := evidence.New("C15", "exploration")
	r.Rule("case = (target ∈ {Repository.Tags, Registry.Repositories, Repository.Referrers via API, via referrers tag, oci.Store.Tags, ReadOnlyStore.Tags (fs, tar)}, item list of 0…300 entries, value of last, client page size n, " +
		"server page-size sequence incl. empty pages, n honoured or not, continuation by last= / opaque token / token with last taking precedence, link target form (absolute URL, absolute path, relative segment, query only, network path, dot segments), " +
		"link parameter spelling, extra link parameters (optional / insisted on), artifactType filter mode, callback failing on its j-th call, MaxMetadataBytes with one body sized limit−1 / limit / limit+1 / ≫ limit by padding before, after or inside the list, Content-Length or chunked); " +
		"oracle: callback arguments concatenated = registry list after last (filtered), nothing after a page without next link, a callback failure is returned and ends the traffic, a body larger than the limit gives an error and exactly the earlier pages, " +
		"bytes read from every 200 listing body ≤ limit; distinct = (target, served page lengths, link form+spelling, cursor, last class, size class, filter mode, failure class); non-trivial = ≥ 3 pages served or a body within ±1 of the limit (OCI: non-empty last with tags on both sides); phase rel: the final page carries only a rel=\"prev\" / rel=\"first\" link, or every page lists a rel=\"prev\" link before the rel=\"next\" one (violation keys link-rel-ignored:*)")
	r.Assume("the scripted registry is consistent (HEAD and GET of the referrers index agree, pages do not change during a listing)")
	r.Assume("every link value sent by the scripted registry carries a rel parameter; a link value without rel is not exercised (either reading is accepted)")
	r.Assume("a body exceeding the limit only by white space after a JSON value that fits is not judged for error-vs-success (either an error with the earlier pages or the complete list is accepted)")
	worker.Run(r, worker.Opts{Phase: "list", Total: r.N(1500, 36000), Batch: r.N(50, 250)})
	worker.Run(r, worker.Opts{Phase: "oci", Total: r.N(240, 5000), Batch: r.N(20, 100)})
	worker.Run(r, worker.Opts{Phase: "rel", Total: r.N(24, 120), Batch: 12})
	r.Finish(r.N(500, 10000))
}

func runCase(phase string, i int) worker.Result {
	seed := evidence.New("C15", "exploration").Seed
	rng := evidence.RandFor(seed, "c15-"+phase, i)
	switch phase {
	case "oci":
		return runOCI(rng, i)
	default:
		return runRemote(rng, i, phase)
	}
}

// ---------------------------------------------------------------------------
// client side monitor

type clientRec struct {
	Ord    string `json:"ord"`
	Method string `json:"method"`
	URL    string `json:"url"`
	Status int    `json:"status"`
	Read   int64  `json:"read"`
}

type countingRT struct {
	base http.RoundTripper
	mu   sync.Mutex
	log  []*clientRec
}

func (c *countingRT) RoundTrip(req *http.Request) (*http.Response, error) {
	resp, err := c.base.RoundTrip(req)
	if err != nil {
		return resp, err
	}
	rec := &clientRec{Ord: resp.Header.Get("X-Ord"), Method: req.Method, URL: req.URL.String(), Status: resp.StatusCode}
	c.mu.Lock()
	c.log = append(c.log, rec)
	c.mu.Unlock()
	resp.Body = &countBody{rc: resp.Body, n: &rec.Read}
	return resp, nil
}

type countBody struct {
	rc io.ReadCloser
	n  *int64
}

func (b *countBody) Read(p []byte) (int, error) {
	n, err := b.rc.Read(p)
	atomic.AddInt64(b.n, int64(n))
	return n, err
}
func (b *countBody) Close() error { return b.rc.Close() }

// ---------------------------------------------------------------------------
// per-process scripted registry

var (
	srvOnce sync.Once
	srv     *httptest.Server
	current atomic.Pointer[script]
	baseRT  = &http.Transport{MaxIdleConnsPerHost: 8}
)

func server() *httptest.Server {
	srvOnce.Do(func() {
		srv = httptest.NewServer(http.HandlerFunc(func(w http.ResponseWriter, r *http.Request) {
			if s := current.Load(); s != nil {
				s.ServeHTTP(w, r)
				return
			}
			w.WriteHeader(http.StatusServiceUnavailable)
		}))
	})
	return srv
}

// ---------------------------------------------------------------------------
// case generation

const tagAlphabet = "abcdefXYZ0189._-"

func genNames(rng *rand.Rand, n int, repos bool) []string {
	seen := map[string]bool{}
	var out []string
	for len(out) < n {
		var s string
		if len(out) > 0 && rng.IntN(4) == 0 {
			// share a prefix with an earlier name
			p := out[rng.IntN(len(out))]
			s = p[:1+rng.IntN(len(p))]
		}
		l := 1 + rng.IntN(7)
		for k := 0; k < l; k++ {
			ch := tagAlphabet[rng.IntN(len(tagAlphabet))]
			if len(s) == 0 && (ch == '.' || ch == '-' || ch == '_') {
				ch = 'a'
			}
			s += string(ch)
		}
		if repos {
			s = strings.ToLower(s)
			if rng.IntN(2) == 0 {
				s = []string{"lib", "org/team", "x"}[rng.IntN(3)] + "/" + s
			}
		}
		if len(s) > 100 || seen[s] {
			continue
		}
		seen[s] = true
		out = append(out, s)
	}
	return out
}

func genCount(rng *rand.Rand, max int) int {
	n := 0
	switch r := rng.IntN(100); {
	case r < 4:
		n = 0
	case r < 9:
		n = 1
	case r < 45:
		n = 2 + rng.IntN(11)
	case r < 85:
		n = 8 + rng.IntN(33)
	case r < 97:
		n = 40 + rng.IntN(81)
	default:
		n = 120 + rng.IntN(181)
	}
	return min(n, max)
}

// artifactTypePool: plain types and types whose characters need escaping in a query
var artifactTypePool = []string{"application/vnd.a", "application/vnd.b+json", "application/vnd.c.v1", "application/spdx+json",
	"application/vnd.x&y", "application/vnd.p#q", "application/vnd.a;v=1", "application/100%.x", "application/vnd with space", "application/vnd.é+x=1?"}

// genPalette picks the artifact types of one case ("" = no artifactType).
func genPalette(rng *rand.Rand) []string {
	p := []string{""}
	for _, k := range rng.Perm(len(artifactTypePool))[:3] {
		p = append(p, artifactTypePool[k])
	}
	return p
}

func genRefs(rng *rand.Rand, n, salt int, artifactTypes []string) []ocispec.Descriptor {
	var out []ocispec.Descriptor
	for k := 0; k < n; k++ {
		d := ocispec.Descriptor{
			MediaType:    []string{ocispec.MediaTypeImageManifest, ocispec.MediaTypeImageIndex, "application/vnd.oci.artifact.manifest.v1+json"}[rng.IntN(3)],
			Digest:       digest.Digest(sha256Of([]byte(fmt.Sprintf("ref-%d-%d", salt, k)))),
			Size:         int64(100 + rng.IntN(5000)),
			ArtifactType: artifactTypes[rng.IntN(len(artifactTypes))],
		}
		if rng.IntN(5) == 0 {
			d.Annotations = map[string]string{"org.example.note": fmt.Sprintf("n%d", k)}
		}
		out = append(out, d)
	}
	return out
}

func genSizes(rng *rand.Rand) ([]int, string) {
	switch rng.IntN(10) {
	case 0, 1:
		return []int{0}, "unlimited"
	case 2, 3, 4:
		return []int{[]int{1, 2, 3, 4, 5, 7, 10, 25}[rng.IntN(8)]}, "const"
	case 5, 6:
		l := 2 + rng.IntN(7)
		s := make([]int, l)
		for k := range s {
			s[k] = 1 + rng.IntN(9)
		}
		return s, "varied"
	case 7, 8:
		l := 3 + rng.IntN(6)
		s := make([]int, l)
		for k := range s {
			s[k] = 1 + rng.IntN(6)
			if k < l-1 && rng.IntN(3) == 0 {
				s[k] = -1
			}
		}
		return s, "empties"
	default:
		return []int{-1, 1 + rng.IntN(5)}, "first-empty"
	}
}

func genLast(rng *rand.Rand, items []string, sorted bool) (string, string) {
	if len(items) == 0 {
		if rng.IntN(2) == 0 {
			return "", "none"
		}
		return "zz", "after-all"
	}
	pick := items[rng.IntN(len(items))]
	if !sorted {
		if rng.IntN(2) == 0 {
			return "", "none"
		}
		return pick, "existing"
	}
	switch r := rng.IntN(100); {
	case r < 35:
		return "", "none"
	case r < 55:
		return pick, "existing"
	case r < 62:
		return items[0], "first"
	case r < 69:
		return items[len(items)-1], "final"
	case r < 80:
		return pick + "0", "between"
	case r < 86:
		return pick[:len(pick)-1] + "!", "between"
	case r < 90:
		return "!", "before-all"
	case r < 94:
		return "~~", "after-all"
	default:
		return pick[:1] + " &=+%2F/é?#" + pick, "special"
	}
}

func genRemote(rng *rand.Rand, i int, phase string) (*Case, map[string]string) {
	cls := map[string]string{}
	c := &Case{SizedPage: -1, BadPage: -1}
	switch r := rng.IntN(100); {
	case r < 35:
		c.Target = "tags"
	case r < 55:
		c.Target = "repos"
	case r < 85:
		c.Target = "referrers-api"
	default:
		c.Target = "referrers-tag"
	}
	if phase == "rel" {
		c.Target = []string{"tags", "repos", "referrers-api"}[i%3]
	}
	c.Sorted = true
	isRef := strings.HasPrefix(c.Target, "referrers")
	if isRef {
		c.NRefs = genCount(rng, 120)
		palette := genPalette(rng)
		c.Refs = genRefs(rng, c.NRefs, i, palette)
		c.Cursor = []string{"token", "token-lastwins"}[rng.IntN(2)]
		if rng.IntN(2) == 0 {
			c.Filter = append(palette[1:], "application/vnd.absent+x")[rng.IntN(4)]
		}
		c.FilterMode = []string{"none", "header", "header-multi", "annotation", "undeclared", "header-then-none", "annotation-then-none"}[rng.IntN(7)]
		if c.Filter == "" {
			cls["filter"] = "nofilter"
		} else {
			cls["filter"] = c.FilterMode
		}
		if c.Target == "referrers-api" {
			c.KnownCap = rng.IntN(2)
		} else {
			c.KnownCap = []int{0, 2}[rng.IntN(2)]
			c.API404Body = rng.IntN(3)
			c.TagIndex404 = rng.IntN(12) == 0
			c.DigestHeader = rng.IntN(2) == 0
		}
	} else {
		c.Items = genNames(rng, genCount(rng, 300), c.Target == "repos")
		c.Cursor = []string{"last", "last", "token", "token-lastwins"}[rng.IntN(4)]
		if c.Cursor == "token" && rng.IntN(4) == 0 {
			c.Sorted = false
			rng.Shuffle(len(c.Items), func(a, b int) { c.Items[a], c.Items[b] = c.Items[b], c.Items[a] })
		} else {
			sort.Strings(c.Items)
		}
		c.Last, cls["last"] = genLast(rng, c.Items, c.Sorted)
	}
	c.ClientN = []int{0, 0, 0, 1, 2, 3, 5, 10, 50, 1000}[rng.IntN(10)]
	c.Sizes, cls["sizes"] = genSizes(rng)
	c.HonourN = rng.IntN(10) < 7
	c.LinkForm = rng.IntN(6)
	c.LinkParams = rng.IntN(6)
	c.LinkN = rng.IntN(2) == 0
	c.LinkExtra = []int{0, 0, 1, 2}[rng.IntN(4)]
	c.LinkComma = []int{0, 0, 0, 1, 2, 3}[rng.IntN(6)]
	c.RawSlash = rng.IntN(3) == 0
	c.CursorFirst = rng.IntN(2) == 0
	c.EmptyLast = rng.IntN(4) == 0
	c.Chunked = rng.IntN(5) == 0
	c.NameField = rng.IntN(10) < 7
	if rng.IntN(5) == 0 {
		c.FailAt = 1 + rng.IntN(4)
		c.FailErr = rng.IntN(len(callbackErrors))
	}

	// body size control
	whole := 200
	for _, it := range c.Items {
		whole += len(it) + 3
	}
	for _, d := range c.Refs {
		whole += len(refKey(d)) + 1
	}
	modes := []string{"pad-before", "pad-after", "ws-inside", "ws-trailing"}
	pickDelta := func(l int64) int64 {
		switch rng.IntN(9) {
		case 0, 1:
			return -1
		case 2, 3:
			return 0
		case 4, 5:
			return 1
		case 6:
			return 2 + int64(rng.IntN(40))
		case 7:
			return l + 7
		default:
			return -int64(rng.IntN(int(min(l/2, 1000))+1)) - 2
		}
	}
	switch r := rng.IntN(100); {
	case r < 25:
		c.MaxMeta = 0
		cls["size"] = "default"
	case r < 27:
		// the default limit of 4 MiB, with a body around it
		c.MaxMeta = []int64{0, -3, 4 * 1024 * 1024}[rng.IntN(3)]
		c.SizedPage = rng.IntN(2)
		c.SizeMode = modes[rng.IntN(4)]
		c.SizeDelta = []int64{-1, 0, 1, 1 << 20}[rng.IntN(4)]
		cls["size"] = fmt.Sprintf("default%+d/%s", min(c.SizeDelta, 2), c.SizeMode)
	case r < 75:
		c.MaxMeta = int64(whole + 16 + rng.IntN(300))
		c.SizedPage = rng.IntN(4)
		if rng.IntN(3) == 0 {
			c.SizedPage = 0
		}
		c.SizeMode = modes[rng.IntN(4)]
		c.SizeDelta = pickDelta(c.MaxMeta)
		d := c.SizeDelta
		if d > 2 {
			d = 2
		}
		if d < -2 {
			d = -2
		}
		cls["size"] = fmt.Sprintf("sized%+d/%s", d, c.SizeMode)
	case r < 88:
		c.MaxMeta = int64(whole + rng.IntN(300))
		cls["size"] = "roomy"
	default:
		c.MaxMeta = int64(20 + rng.IntN(whole))
		cls["size"] = "tight"
	}
	if rng.IntN(14) == 0 {
		// a malformed body instead of a sized one
		c.SizedPage, c.SizeMode, c.SizeDelta = -1, "", 0
		if c.MaxMeta > 0 {
			c.MaxMeta = int64(whole + 64)
		}
		c.BadPage = []int{0, 0, 1, 2, 3, -2, -2}[rng.IntN(7)]
		c.BadKind = []string{"empty", "empty", "ws", "cut-1", "cut-half"}[rng.IntN(5)]
		cls["size"] = fmt.Sprintf("bad-%s@%d", c.BadKind, min(c.BadPage, 2))
	}
	if c.Target == "referrers-tag" && c.SizedPage > 0 {
		c.SizedPage = 0
	}
	if c.Target == "referrers-tag" && c.BadPage != -1 {
		c.BadPage = 0
	}
	if phase == "rel" {
		c.RelShape = []string{"prev-only", "first-only", "prev-then-next"}[(i/3)%3]
		c.FailAt = 0
		c.LinkExtra = 0
		c.SizedPage = -1
		c.BadPage, c.BadKind = -1, ""
		c.MaxMeta = 0
		c.LinkParams = rng.IntN(5)
		if len(c.Items)+len(c.Refs) < 4 {
			if isRef {
				c.Refs = genRefs(rng, 6, i, genPalette(rng))
				c.NRefs = 6
			} else {
				c.Items = genNames(rng, 6, c.Target == "repos")
				sort.Strings(c.Items)
				c.Sorted = true
				c.Last = ""
			}
		}
		if c.Sizes[len(c.Sizes)-1] == 0 {
			c.Sizes = []int{2}
		}
		c.FilterMode, c.Filter = "none", ""
	}
	return c, cls
}

// ---------------------------------------------------------------------------
// running one remote case

var errCallback = errors.New("c15: callback failure")

// callbackErrors is what a failing callback may return; the listing must
// return an error that errors.Is that very error.
var callbackErrors = []error{
	errCallback,
	io.EOF,
	io.ErrUnexpectedEOF,
	fmt.Errorf("c15: reading my own input: %w", io.EOF),
	context.Canceled,
}
var callbackErrorNames = []string{"custom", "io.EOF", "io.ErrUnexpectedEOF", "wrapped-io.EOF", "context.Canceled"}

func runRemote(rng *rand.Rand, i int, phase string) (res worker.Result) {
	c, cls := genRemote(rng, i, phase)
	sc := newScript(c)
	ts := server()
	current.Store(sc)
	defer current.Store(nil)
	host := strings.TrimPrefix(ts.URL, "http://")
	rt := &countingRT{base: baseRT}
	client := &http.Client{Transport: rt}

	var delivered []string
	// the slices exactly as handed to the callback, kept without copying and read only after the listing
	var keptS [][]string
	var keptR [][]ocispec.Descriptor
	cbCalls, reqsAtFail, callsAfterFail := 0, -1, 0
	note := func(keys []string) error {
		if reqsAtFail >= 0 {
			callsAfterFail++
		}
		cbCalls++
		delivered = append(delivered, keys...)
		if c.FailAt > 0 && cbCalls == c.FailAt {
			sc.mu.Lock()
			reqsAtFail = sc.reqs
			sc.mu.Unlock()
			return callbackErrors[c.FailErr]
		}
		return nil
	}
	var err error
	switch c.Target {
	case "repos":
		reg, e := remote.NewRegistry(host)
		if e != nil {
			res.Violate("harness:NewRegistry", e.Error(), nil)
			return res
		}
		reg.PlainHTTP = true
		reg.Client = client
		reg.RepositoryListPageSize = c.ClientN
		reg.MaxMetadataBytes = c.MaxMeta
		err = reg.Repositories(ctx, c.Last, func(repos []string) error {
			keptS = append(keptS, repos)
			return note(append([]string{}, repos...))
		})
	default:
		repo, e := remote.NewRepository(fmt.Sprintf("%s/c15/r%d", host, i))
		if e != nil {
			res.Violate("harness:NewRepository", e.Error(), nil)
			return res
		}
		repo.PlainHTTP = true
		repo.Client = client
		repo.TagListPageSize = c.ClientN
		repo.ReferrerListPageSize = c.ClientN
		repo.MaxMetadataBytes = c.MaxMeta
		switch c.KnownCap {
		case 1:
			repo.SetReferrersCapability(true)
		case 2:
			repo.SetReferrersCapability(false)
		}
		if c.Target == "tags" {
			err = repo.Tags(ctx, c.Last, func(tags []string) error {
				keptS = append(keptS, tags)
				return note(append([]string{}, tags...))
			})
		} else {
			subject := ocispec.Descriptor{MediaType: ocispec.MediaTypeImageManifest, Digest: digest.Digest(sha256Of([]byte(fmt.Sprintf("subject-%d", i)))), Size: 321}
			err = repo.Referrers(ctx, subject, c.Filter, func(refs []ocispec.Descriptor) error {
				keptR = append(keptR, refs)
				keys := make([]string, len(refs))
				for k, d := range refs {
					keys[k] = refKey(d)
				}
				return note(keys)
			})
		}
	}
	judge(&res, c, cls, sc, rt, delivered, cbCalls, reqsAtFail, callsAfterFail, err, i)
	// what the callback was given must still be what it holds once the listing is over
	var retained []string
	for _, s := range keptS {
		retained = append(retained, s...)
	}
	for _, s := range keptR {
		for _, d := range s {
			retained = append(retained, refKey(d))
		}
	}
	if !equal(retained, delivered) {
		res.Violate("callback-slice-overwritten:"+c.Target, fmt.Sprintf("%s: the slices handed to the callback changed after the callback returned (first difference at item %d of %d)", c.Target, firstDiff(retained, delivered), len(delivered)),
			map[string]any{"case": c, "at_callback_time": trimKeys(delivered), "after_listing": trimKeys(retained)})
	}
	res.Count("callback_slices_retained", int64(len(keptS)+len(keptR)))
	return res
}

func judge(res *worker.Result, c *Case, cls map[string]string, sc *script, rt *countingRT, delivered []string, cbCalls, reqsAtFail, callsAfterFail int, err error, i int) {
	sc.mu.Lock()
	log := append([]served{}, sc.log...)
	reqs, afterFinal := sc.reqs, sc.afterFinal
	sc.mu.Unlock()
	limit := c.limit()

	// expected list
	var expect []string
	keyAT := map[string]string{}
	switch c.Target {
	case "tags", "repos":
		start := 0
		if c.Sorted {
			start = sort.SearchStrings(c.Items, c.Last)
			if start < len(c.Items) && c.Items[start] == c.Last {
				start++
			}
		} else {
			for k, it := range c.Items {
				if it == c.Last && c.Last != "" {
					start = k + 1
				}
			}
		}
		expect = c.Items[start:]
	default:
		for _, d := range c.Refs {
			keyAT[refKey(d)] = d.ArtifactType
			if c.Filter != "" && d.ArtifactType != c.Filter {
				continue
			}
			if c.Target == "referrers-tag" && c.TagIndex404 {
				continue
			}
			expect = append(expect, refKey(d))
		}
	}
	clientFilter := func(keys []string) []string {
		if c.Filter == "" || !strings.HasPrefix(c.Target, "referrers") {
			return keys
		}
		var out []string
		for _, k := range keys {
			if keyAT[k] == c.Filter {
				out = append(out, k)
			}
		}
		return out
	}

	errStr := ""
	if err != nil {
		errStr = err.Error()
	}
	witness := func() map[string]any {
		l := log
		if len(l) > 14 {
			l = append(append([]served{}, l[:8]...), l[len(l)-6:]...)
		}
		short := func(s []string) []string {
			if len(s) > 30 {
				return append(append([]string{}, s[:15]...), append([]string{"…"}, s[len(s)-14:]...)...)
			}
			return s
		}
		var refTypes []string
		for k, d := range c.Refs {
			if k < 30 {
				refTypes = append(refTypes, d.ArtifactType)
			}
		}
		return map[string]any{"case": c, "ref_artifact_types": refTypes, "registry_log": l, "client_log": rt.log, "delivered_n": len(delivered), "expected_n": len(expect),
			"delivered": short(trimKeys(delivered)), "expected": short(trimKeys(expect)), "callback_calls": cbCalls, "error": errStr, "limit": limit}
	}

	// served pages
	pages := 0
	var pageLens []string
	nearLimit := false
	overIdx, lenientIdx, badIdx := -1, -1, -1
	budget := false
	cbErr := callbackErrors[c.FailErr]
	for k, s := range log {
		if s.Status == http.StatusInternalServerError {
			budget = true
		}
		if !s.Listing || s.Status != http.StatusOK {
			continue
		}
		pages++
		if s.Bad != "" && badIdx < 0 {
			badIdx = k
		}
		if len(pageLens) < 8 {
			pageLens = append(pageLens, fmt.Sprint(s.End-s.Start))
		}
		if d := int64(s.Body) - limit; d >= -1 && d <= 1 {
			nearLimit = true
		}
		if int64(s.Body) > limit {
			if s.ValueFit {
				if lenientIdx < 0 && overIdx < 0 {
					lenientIdx = k
				}
			} else if overIdx < 0 {
				overIdx = k
			}
		}
	}
	before := func(idx int) []string {
		var out []string
		for k, s := range log {
			if k >= idx {
				break
			}
			if s.Listing && s.Status == http.StatusOK {
				out = append(out, clientFilter(s.Keys)...)
			}
		}
		return out
	}

	listingAfter := func(idx int) bool {
		for k := idx + 1; k < len(log); k++ {
			if log[k].Listing {
				return true
			}
		}
		return false
	}
	relKey := func(k string) string {
		if c.RelShape != "" {
			return "link-rel-ignored:" + c.RelShape
		}
		return k
	}

	// (1) exactly once, in order: whatever the outcome, what was delivered is a prefix of the list
	if !isPrefix(delivered, expect) {
		res.Violate(relKey("items-mismatch:"+c.Target), fmt.Sprintf("%s: callback arguments are not a prefix of the registry's list after last=%q (delivered %d, expected %d; first difference at %d)",
			c.Target, c.Last, len(delivered), len(expect), firstDiff(delivered, expect)), witness())
	}
	// (2) bytes read from each listing response body
	for _, cr := range rt.log {
		if cr.Status == http.StatusOK && cr.Method == http.MethodGet && cr.Read > limit {
			res.Violate("over-read:"+c.Target, fmt.Sprintf("%s: %d bytes read from the body of %s, MaxMetadataBytes is %d", c.Target, cr.Read, cr.URL, limit), witness())
		}
		res.MaxOf("max_body_bytes_read", cr.Read)
	}
	res.Count("responses_monitored", int64(len(rt.log)))
	// (3) nothing after a page without a next link
	if afterFinal > 0 {
		res.Violate(relKey("request-after-final-page:"+c.Target), fmt.Sprintf("%s: %d request(s) sent after a page that carried no next link", c.Target, afterFinal), witness())
	}

	failed := c.FailAt > 0 && cbCalls >= c.FailAt
	outcome := "complete"
	if failed && overIdx < 0 {
		lenientIdx = -1 // the callback failure decides
	}
	switch {
	case overIdx >= 0:
		outcome = "oversize"
		want := before(overIdx)
		if err == nil {
			res.Violate("oversize-accepted:"+c.Target, fmt.Sprintf("%s: response %d has a %d-byte body (limit %d) but the listing returned no error", c.Target, overIdx, log[overIdx].Body, limit), witness())
		} else if !equal(delivered, want) {
			res.Violate("oversize-truncated:"+c.Target, fmt.Sprintf("%s: response %d exceeds the limit; delivered %d items, the earlier pages hold %d", c.Target, overIdx, len(delivered), len(want)), witness())
		}
		if listingAfter(overIdx) {
			res.Violate("oversize-continued:"+c.Target, fmt.Sprintf("%s: requests were sent after the over-long response %d", c.Target, overIdx), witness())
		}
	case lenientIdx >= 0 && err != nil && !failed && equal(delivered, before(lenientIdx)) && !listingAfter(lenientIdx):
		outcome = "oversize-ws-error"
		res.Count("unjudged_trailing_ws_error", 1)
	case failed:
		outcome = "callback-failed"
		if !errors.Is(err, cbErr) {
			res.Violate("callback-error-lost:"+c.Target+":"+callbackErrorNames[c.FailErr], fmt.Sprintf("%s: callback failed on call %d with %q (%s), listing returned %v", c.Target, c.FailAt, cbErr, callbackErrorNames[c.FailErr], err), witness())
		}
		res.Observe("callback_errors", c.Target+"/"+callbackErrorNames[c.FailErr])
		if cbCalls != c.FailAt || callsAfterFail > 0 {
			res.Violate("callback-after-failure:"+c.Target, fmt.Sprintf("%s: callback invoked %d times although call %d failed", c.Target, cbCalls, c.FailAt), witness())
		}
		if reqs != reqsAtFail {
			res.Violate("request-after-callback-failure:"+c.Target, fmt.Sprintf("%s: %d request(s) sent after the callback failed", c.Target, reqs-reqsAtFail), witness())
		}
	default:
		if lenientIdx >= 0 {
			outcome = "oversize-ws-complete"
			res.Count("unjudged_trailing_ws_complete", 1)
		}
		if badIdx >= 0 {
			// a malformed body: an error is the expected outcome; success is acceptable only with the complete list
			res.Count("malformed_pages_served", 1)
			if err != nil {
				outcome = "malformed-error"
			} else {
				outcome = "malformed-no-error"
				if !equal(delivered, expect) {
					res.Violate("malformed-page-swallowed:"+c.Target+":"+log[badIdx].Bad, fmt.Sprintf("%s: response %d had a malformed body (%s, %d bytes); the listing reported success with %d of %d items", c.Target, badIdx, log[badIdx].Bad, log[badIdx].Body, len(delivered), len(expect)), witness())
				}
			}
		} else if err != nil {
			key := "unexpected-error:" + c.Target
			if budget {
				key = "listing-does-not-terminate:" + c.Target
			}
			res.Violate(relKey(key), fmt.Sprintf("%s: listing failed: %v", c.Target, err), witness())
		} else if !equal(delivered, expect) {
			res.Violate(relKey("items-missing:"+c.Target), fmt.Sprintf("%s: listing ended without error after %d of %d items", c.Target, len(delivered), len(expect)), witness())
		}
	}

	if c.RelShape != "" && len(res.Viol) > 1 {
		// one report per probe case
		res.Viol = res.Viol[:1]
	}

	// evidence
	for _, s := range log {
		if s.Keyless {
			res.Count("keyless_pages_served", 1)
		}
	}
	nOverride := 0
	for k, s := range log {
		if k > 0 && s.Note != "" && strings.HasPrefix(s.Note, "link parameter") {
			nOverride++
		}
	}
	res.Count("link_parameters_altered", int64(nOverride))
	res.Count("pages_served", int64(pages))
	res.Count("requests", int64(reqs))
	res.Count("items_delivered", int64(len(delivered)))
	res.Count("outcome_"+outcome, 1)
	res.MaxOf("max_pages_in_one_listing", int64(pages))
	failCls := "nofail"
	if failed {
		failCls = "fail"
	}
	res.Key = strings.Join([]string{c.Target, strings.Join(pageLens, ","), fmt.Sprint(c.LinkForm, c.LinkParams, c.LinkN, c.LinkExtra, c.RawSlash, c.LinkComma), c.Cursor, cls["last"], cls["size"], cls["filter"], failCls, c.RelShape}, "|")
	res.NT = pages >= 3 || nearLimit
	res.Observe("targets", c.Target)
	res.Observe("link_flavours", fmt.Sprint(c.LinkForm, c.LinkParams%5, c.LinkParams >= 5, c.LinkExtra, c.LinkComma))
	if c.Filter != "" {
		res.Observe("filter_values", c.Filter+"/"+c.FilterMode)
	}
	res.Observe("size_classes", cls["size"])
	res.Observe("last_classes", cls["last"])
	res.Observe("split_classes", cls["sizes"]+fmt.Sprint(c.HonourN, c.ClientN > 0, c.EmptyLast))
	if nearLimit {
		res.Count("bodies_within_1_of_limit", 1)
	}
	if i%211 == 0 {
		res.Sample = map[string]any{"case": c, "page_lengths": pageLens, "pages": pages, "outcome": outcome, "delivered": len(delivered), "expected": len(expect), "error": errStr}
	}
}

func trimKeys(s []string) []string {
	out := make([]string, len(s))
	for k, v := range s {
		if len(v) > 60 {
			if j := strings.Index(v, `"digest":"sha256:`); j >= 0 && j+29 <= len(v) {
				v = v[j+17 : j+29]
			} else {
				v = v[:60]
			}
		}
		out[k] = v
	}
	return out
}

func isPrefix(a, b []string) bool {
	if len(a) > len(b) {
		return false
	}
	for k := range a {
		if a[k] != b[k] {
			return false
		}
	}
	return true
}

func equal(a, b []string) bool { return len(a) == len(b) && isPrefix(a, b) }

func firstDiff(a, b []string) int {
	for k := range a {
		if k >= len(b) || a[k] != b[k] {
			return k
		}
	}
	return len(a)
}
