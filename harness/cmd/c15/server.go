package main

import (
	"encoding/json"
	"fmt"
	"net/http"
	"net/url"
	"sort"
	"strconv"
	"strings"
	"sync"

	ocispec "github.com/opencontainers/image-spec/specs-go/v1"
)

// Case is one generated listing scenario (also the witness of a violation).
type Case struct {
	Target string `json:"target"` // tags | repos | referrers-api | referrers-tag

	// registry content
	Items  []string             `json:"items,omitempty"` // tags / repository names, in the registry's order
	Refs   []ocispec.Descriptor `json:"-"`               // referrers, in the registry's order
	NRefs  int                  `json:"n_refs,omitempty"`
	Sorted bool                 `json:"sorted"` // the registry's order is lexical (then last = "items greater than last")

	// client
	Last     string `json:"last"`
	ClientN  int    `json:"client_n"`
	MaxMeta  int64  `json:"max_metadata_bytes"`
	Filter   string `json:"filter,omitempty"`
	FailAt   int    `json:"fail_at,omitempty"`   // callback fails on its FailAt-th invocation (0: never)
	KnownCap int    `json:"known_cap,omitempty"` // referrers: 0 unknown, 1 SetReferrersCapability(true), 2 (false)

	// registry behaviour
	Sizes       []int  `json:"sizes"`    // server-imposed page size by request ordinal (last repeats); 0 unlimited, -1 empty page with next link
	HonourN     bool   `json:"honour_n"` // honour the client's n=
	Cursor      string `json:"cursor"`   // last | token | token-lastwins
	LinkForm    int    `json:"link_form"`
	LinkParams  int    `json:"link_params"`
	LinkN       bool   `json:"link_n"`     // the link carries n=<page size>
	LinkComma   int    `json:"link_comma"` // bit 1: a literal comma in the target URI; bit 2: a quoted link parameter holding a comma
	LinkExtra   int    `json:"link_extra"` // 0 none, 1 optional extra parameter, 2 extra parameter the registry insists on
	RawSlash    bool   `json:"raw_slash"`  // '/' and ':' left unescaped in the link's query
	CursorFirst bool   `json:"cursor_first"`
	EmptyLast   bool   `json:"empty_last_page"` // a full final page still carries a link to an empty page
	Chunked     bool   `json:"chunked"`         // no Content-Length on listing responses
	FilterMode  string `json:"filter_mode,omitempty"`
	NameField   bool   `json:"name_field"`

	// body size control
	SizedPage int    `json:"sized_page"` // request ordinal whose body is sized (-1: none)
	SizeMode  string `json:"size_mode,omitempty"`
	SizeDelta int64  `json:"size_delta,omitempty"` // body size = limit + delta

	// malformed body (empty / white space only / truncated JSON) on one page
	BadPage int    `json:"bad_page"` // request ordinal (-1: none, -2: the page without next link)
	BadKind string `json:"bad_kind,omitempty"`

	// which error the failing callback returns (index into callbackErrors)
	FailErr int `json:"fail_err,omitempty"`

	// referrers tag schema
	TagIndex404  bool `json:"tag_index_404,omitempty"`
	DigestHeader bool `json:"digest_header,omitempty"`
	API404Body   int  `json:"api_404_body,omitempty"`

	// rel probe (phase "rel")
	RelShape string `json:"rel_shape,omitempty"`
}

func (c *Case) limit() int64 {
	if c.MaxMeta <= 0 {
		return 4 * 1024 * 1024
	}
	return c.MaxMeta
}

// served is the registry's record of one response.
type served struct {
	Ord      int      `json:"ord"`
	Method   string   `json:"method"`
	URL      string   `json:"url"`
	Status   int      `json:"status"`
	Start    int      `json:"start"`
	End      int      `json:"end"`
	Keys     []string `json:"-"`
	Body     int      `json:"body"`
	Base     int      `json:"base"` // size of the JSON value without padding
	HasNext  bool     `json:"has_next"`
	Link     string   `json:"link,omitempty"`
	Mode     string   `json:"mode,omitempty"`
	Note     string   `json:"note,omitempty"`
	Listing  bool     `json:"listing"`
	Bad      string   `json:"bad,omitempty"` // malformed body served
	Keyless  bool     `json:"keyless,omitempty"`
	ValueFit bool     `json:"-"` // oversize only through trailing white space after a value that fits
}

// script serves one Case.
type script struct {
	c    *Case
	host string

	mu         sync.Mutex
	log        []served
	reqs       int
	finished   bool
	afterFinal int
	filterOn   bool
	filterVal  string
	seqKeys    []string
	seqRefs    []ocispec.Descriptor
	maxReq     int
	lastLinkQ  url.Values
}

func newScript(c *Case) *script {
	s := &script{c: c}
	n := len(c.Items) + len(c.Refs)
	s.maxReq = n + len(c.Sizes) + 12
	return s
}

func refKey(d ocispec.Descriptor) string {
	b, _ := json.Marshal(d)
	return string(b)
}

const extraName, extraValue = "ns", "lib/a&b c"

// bufWriter records a response so that the script's lock is not held while
// the body is written to a client that may not be reading yet.
type bufWriter struct {
	h       http.Header
	status  int
	body    []byte
	chunked bool
}

func (b *bufWriter) Header() http.Header { return b.h }
func (b *bufWriter) WriteHeader(code int) {
	if b.status == 0 {
		b.status = code
	}
}
func (b *bufWriter) Write(p []byte) (int, error) {
	if b.status == 0 {
		b.status = http.StatusOK
	}
	b.body = append(b.body, p...)
	return len(p), nil
}
func (b *bufWriter) Flush() { b.chunked = true }

func (s *script) ServeHTTP(w http.ResponseWriter, r *http.Request) {
	bw := &bufWriter{h: http.Header{}}
	s.mu.Lock()
	s.serve(bw, r)
	s.mu.Unlock()
	for k, v := range bw.h {
		w.Header()[k] = v
	}
	if bw.status == 0 {
		bw.status = http.StatusOK
	}
	w.WriteHeader(bw.status)
	if bw.chunked {
		w.(http.Flusher).Flush()
	}
	w.Write(bw.body)
}

func (s *script) serve(w http.ResponseWriter, r *http.Request) {
	c := s.c
	ord := s.reqs
	s.reqs++
	rec := served{Ord: ord, Method: r.Method, URL: r.URL.String(), Start: -1, End: -1}
	defer func() { s.log = append(s.log, rec) }()
	w.Header().Set("X-Ord", strconv.Itoa(ord))
	fail := func(code int, note string) {
		rec.Status, rec.Note = code, note
		w.Header().Set("Content-Type", "application/json")
		w.WriteHeader(code)
		fmt.Fprintf(w, `{"errors":[{"code":"UNSUPPORTED","message":%q}]}`, note)
	}
	if ord >= s.maxReq {
		fail(http.StatusInternalServerError, "request budget of the scripted registry exhausted (listing does not terminate)")
		return
	}
	if s.finished {
		s.afterFinal++
	}
	p := r.URL.Path
	switch {
	case c.Target == "tags" && strings.HasSuffix(p, "/tags/list"),
		c.Target == "repos" && p == "/v2/_catalog":
		if r.Method != http.MethodGet {
			fail(http.StatusMethodNotAllowed, "method")
			return
		}
		s.list(w, r, &rec)
	case strings.Contains(p, "/referrers/"):
		if r.Method != http.MethodGet {
			fail(http.StatusMethodNotAllowed, "method")
			return
		}
		if c.Target == "referrers-tag" {
			rec.Status = http.StatusNotFound
			rec.Note = "referrers API absent"
			switch c.API404Body {
			case 0:
				w.WriteHeader(http.StatusNotFound)
			case 1:
				w.Header().Set("Content-Type", "text/plain")
				w.WriteHeader(http.StatusNotFound)
				fmt.Fprint(w, "404 page not found\n")
			default:
				w.Header().Set("Content-Type", "application/json")
				w.WriteHeader(http.StatusNotFound)
				fmt.Fprint(w, `{"errors":[{"code":"NOT_FOUND","message":"no route"}]}`)
			}
			return
		}
		s.list(w, r, &rec)
	case c.Target == "referrers-tag" && strings.Contains(p, "/manifests/"):
		s.tagIndex(w, r, &rec)
	default:
		fail(http.StatusNotFound, "unknown path "+p)
	}
}

func (s *script) after(last string) int {
	items := s.seqKeys
	if s.c.Sorted {
		i := sort.SearchStrings(items, last)
		if i < len(items) && items[i] == last {
			i++
		}
		return i
	}
	for i, it := range items {
		if it == last {
			return i + 1
		}
	}
	return 0
}

func encTok(pos int) string { return "t+/=" + strconv.Itoa(pos*13+5) }
func decTok(t string) (int, bool) {
	if !strings.HasPrefix(t, "t+/=") {
		return 0, false
	}
	v, err := strconv.Atoi(t[4:])
	if err != nil || v < 5 || (v-5)%13 != 0 {
		return 0, false
	}
	return (v - 5) / 13, true
}

// list serves one page of tags, repositories or referrers.
func (s *script) list(w http.ResponseWriter, r *http.Request, rec *served) {
	c := s.c
	q := r.URL.Query()
	ord := rec.Ord
	rec.Listing = true
	isRef := c.Target == "referrers-api"

	if ord == 0 {
		// the registry's sequence for this listing
		if isRef {
			// a filtering registry filters on the value it received (decoded the way net/url decodes a query)
			// (the *-then-none modes filter page by page, only while the request carries artifactType)
			s.filterVal = q.Get("artifactType")
			s.filterOn = c.FilterMode != "none" && s.filterVal != "" && !strings.HasSuffix(c.FilterMode, "-then-none")
			for _, d := range c.Refs {
				if s.filterOn && d.ArtifactType != s.filterVal {
					continue
				}
				s.seqRefs = append(s.seqRefs, d)
				s.seqKeys = append(s.seqKeys, refKey(d))
			}
			if c.Filter != "" && q.Get("artifactType") != c.Filter {
				rec.Note = "artifactType parameter absent or different"
			}
		} else {
			s.seqKeys = c.Items
		}
	} else if s.lastLinkQ != nil {
		// a followed link: every parameter of the link other than n must come back
		for k, vs := range s.lastLinkQ {
			if k == "n" {
				continue
			}
			if got := q[k]; len(got) != 1 || got[0] != vs[0] {
				rec.Note = fmt.Sprintf("link parameter %s=%q came back as %q", k, vs[0], got)
				if k == extraName && c.LinkExtra == 2 {
					rec.Status = http.StatusBadRequest
					w.WriteHeader(http.StatusBadRequest)
					return
				}
			}
		}
	}

	// position
	pos := 0
	lastVals, hasLast := q["last"]
	tok := q.Get("tk")
	useLast := func() {
		if hasLast && !isRef {
			pos = s.after(lastVals[0])
		}
	}
	switch c.Cursor {
	case "last":
		useLast()
	case "token":
		if tok != "" {
			p, ok := decTok(tok)
			if !ok || p > len(s.seqKeys) {
				rec.Status, rec.Note = http.StatusBadRequest, "bad continuation token "+tok
				w.WriteHeader(http.StatusBadRequest)
				return
			}
			pos = p
		} else {
			useLast()
		}
	default: // token-lastwins
		if hasLast && lastVals[0] != "" && !isRef {
			useLast()
		} else if tok != "" {
			p, ok := decTok(tok)
			if !ok || p > len(s.seqKeys) {
				rec.Status, rec.Note = http.StatusBadRequest, "bad continuation token "+tok
				w.WriteHeader(http.StatusBadRequest)
				return
			}
			pos = p
		}
	}

	// page size
	imposed := c.Sizes[min(ord, len(c.Sizes)-1)]
	n := 0
	if c.HonourN {
		if v, err := strconv.Atoi(q.Get("n")); err == nil && v > 0 {
			n = v
		}
	}
	forceNext := false
	remaining := len(s.seqKeys) - pos
	size := remaining
	switch {
	case imposed == -1:
		size, forceNext = 0, true
	case imposed == 0:
		if n > 0 {
			size = n
		}
	default:
		size = imposed
		if n > 0 && n < size {
			size = n
		}
	}
	end := min(pos+size, len(s.seqKeys))
	hasNext := forceNext || end < len(s.seqKeys) || (c.EmptyLast && end == len(s.seqKeys) && end > pos)
	rec.Start, rec.End, rec.HasNext = pos, end, hasNext
	rec.Keys = append([]string{}, s.seqKeys[pos:end]...)

	// rel probe: shapes that carry no rel="next" link on the final page
	relFinal := ""
	if !hasNext && c.RelShape != "" {
		relFinal = c.RelShape // every shape ends with a link that is not a next link
	}

	// next link
	if hasNext || relFinal != "" {
		lq := url.Values{}
		curName, curVal := "", ""
		if c.Cursor == "last" && !isRef {
			if end > 0 {
				curName, curVal = "last", s.seqKeys[end-1]
			}
		} else {
			curName, curVal = "tk", encTok(end)
		}
		var parts []string
		add := func(k, v string) {
			lq.Set(k, v)
			e := url.QueryEscape(v)
			if c.RawSlash {
				e = strings.NewReplacer("%2F", "/", "%3A", ":").Replace(e)
			}
			if c.LinkComma&1 != 0 {
				e = strings.ReplaceAll(e, "%2C", ",")
			}
			parts = append(parts, k+"="+e)
		}
		if curName != "" && c.CursorFirst {
			add(curName, curVal)
		}
		if c.LinkN && size > 0 {
			add("n", strconv.Itoa(size))
		}
		if c.LinkExtra > 0 {
			add(extraName, extraValue)
		}
		if c.LinkComma&1 != 0 {
			add("token", "17,b")
		}
		if isRef && c.Filter != "" {
			if strings.HasSuffix(c.FilterMode, "-then-none") {
				// the first dropAt pages are filtered and say so, then the link drops artifactType
				if dropAt := 1 + len(c.Sizes)%3; ord+1 < dropAt {
					add("artifactType", c.Filter)
				}
			} else if ord%2 == 0 {
				add("artifactType", c.Filter)
			}
		}
		if curName != "" && !c.CursorFirst {
			add(curName, curVal)
		}
		query := strings.Join(parts, "&")
		target := s.linkTarget(r, query)
		params := []string{`; rel="next"`, `;rel=next`, `; rel="next"; type="application/json"`, `  ;   rel="next"`, `; title="more items"; rel="next"`}[c.LinkParams%5]
		if c.LinkComma&2 != 0 {
			params = `; title="first page, unfiltered"` + params
		}
		link := "<" + target + ">" + params
		if c.LinkParams >= 5 {
			// two links in one field, the next link first
			link += `, <` + s.linkTarget(r, "") + `>; rel="first"`
		}
		if hasNext {
			s.lastLinkQ = lq
		} else {
			// rel probe, final page: a link is present but it is not a next link
			first := s.linkTarget(r, "")
			switch relFinal {
			case "prev-only":
				link = "<" + first + `>; rel="prev"`
			case "first-only":
				link = "<" + first + `>; rel="first"`
			default: // prev-then-next: the final page only links backwards
				link = "<" + first + `>; rel="prev"`
			}
		}
		if hasNext && c.RelShape == "prev-then-next" {
			link = "<" + s.linkTarget(r, "") + `>; rel="prev", ` + link
		}
		rec.Link = link
		w.Header().Set("Link", link)
	}
	if !hasNext {
		s.finished = true
	}

	// body
	var listJSON []byte
	declared := ""
	if s.filterOn {
		declared = c.FilterMode
	}
	empty := end == pos
	if isRef {
		refs := s.seqRefs[pos:end]
		if pf := q.Get("artifactType"); pf != "" && strings.HasSuffix(c.FilterMode, "-then-none") {
			// this page is filtered by the registry and declared so; later pages may not be
			var kept []ocispec.Descriptor
			rec.Keys = rec.Keys[:0]
			for _, d := range refs {
				if d.ArtifactType == pf {
					kept = append(kept, d)
					rec.Keys = append(rec.Keys, refKey(d))
				}
			}
			refs = kept
			declared = strings.TrimSuffix(c.FilterMode, "-then-none")
		}
		if refs == nil {
			refs = []ocispec.Descriptor{}
		}
		listJSON, _ = json.Marshal(refs)
		if empty && ord%3 == 1 {
			listJSON = []byte("null")
		}
	} else {
		items := s.seqKeys[pos:end]
		if items == nil {
			items = []string{}
		}
		listJSON, _ = json.Marshal(items)
		if len(items) == 0 && ord%3 == 1 {
			listJSON = []byte("null")
		}
	}
	var head, field string
	switch c.Target {
	case "tags":
		field = "tags"
		if c.NameField {
			head = `"name":"c15/repo",`
		}
	case "repos":
		field = "repositories"
	default:
		field = "manifests"
		head = `"schemaVersion":2,"mediaType":"` + ocispec.MediaTypeImageIndex + `",`
		if declared == "annotation" {
			head += `"annotations":{"org.opencontainers.referrers.filtersApplied":"artifactType"},`
		}
	}
	if isRef {
		switch declared {
		case "header":
			w.Header().Set("OCI-Filters-Applied", "artifactType")
		case "header-multi":
			w.Header().Set("OCI-Filters-Applied", "artifactType,annotations")
		}
	}
	mode, target := "", int64(0)
	if ord == c.SizedPage {
		mode, target = c.SizeMode, c.limit()+c.SizeDelta
	}
	body, base, usedMode := sizedDoc(head, field, listJSON, mode, target)
	if empty && ord%3 == 2 {
		// an empty page whose document has no list member at all
		body = []byte("{" + strings.TrimSuffix(head, ",") + "}")
		base, usedMode = len(body), "keyless"
		rec.Keyless = true
	}
	if c.BadKind != "" && (ord == c.BadPage || (c.BadPage == -2 && !hasNext)) {
		body = badBody(body, c.BadKind)
		rec.Bad, usedMode = c.BadKind, "bad-"+c.BadKind
	}
	rec.Body, rec.Base, rec.Mode = len(body), base, usedMode
	rec.ValueFit = usedMode == "ws-trailing" && int64(base) <= c.limit()
	if isRef {
		w.Header().Set("Content-Type", ocispec.MediaTypeImageIndex)
	} else {
		w.Header().Set("Content-Type", "application/json")
	}
	rec.Status = http.StatusOK
	if c.Chunked {
		w.WriteHeader(http.StatusOK)
		w.(http.Flusher).Flush()
	} else {
		w.Header().Set("Content-Length", strconv.Itoa(len(body)))
		w.WriteHeader(http.StatusOK)
	}
	w.Write(body)
}

// linkTarget renders the target of a link in the case's form.
func (s *script) linkTarget(r *http.Request, query string) string {
	p := r.URL.EscapedPath()
	qs := ""
	if query != "" {
		qs = "?" + query
	}
	seg := p[strings.LastIndex(p, "/")+1:]
	switch s.c.LinkForm {
	case 0:
		return "http://" + r.Host + p + qs
	case 1:
		return p + qs
	case 2:
		if strings.Contains(seg, ":") {
			return "./" + seg + qs
		}
		return seg + qs
	case 3:
		if qs == "" {
			return p
		}
		return qs
	case 4:
		return "//" + r.Host + p + qs
	default:
		dir := p[:strings.LastIndex(p, "/")]
		parent := dir[strings.LastIndex(dir, "/")+1:]
		return "../" + parent + "/" + seg + qs
	}
}

// sizedDoc renders {head "field":list} and pads it to the target size in the given mode.
func sizedDoc(head, field string, list []byte, mode string, target int64) (body []byte, base int, used string) {
	plain := "{" + head + `"` + field + `":` + string(list) + "}"
	base = len(plain)
	need := int(target) - base
	if mode == "" || need < 0 {
		return []byte(plain), base, "natural"
	}
	if (mode == "pad-before" || mode == "pad-after") && need < 9 {
		mode = "ws-inside"
	}
	switch mode {
	case "pad-before":
		return []byte("{" + head + `"pad":"` + strings.Repeat("x", need-9) + `","` + field + `":` + string(list) + "}"), base, mode
	case "pad-after":
		return []byte("{" + head + `"` + field + `":` + string(list) + `,"pad":"` + strings.Repeat("x", need-9) + `"}`), base, mode
	case "ws-inside":
		return []byte("{" + head + `"` + field + `":` + string(list) + strings.Repeat(" ", need) + "}"), base, mode
	default: // ws-trailing
		return []byte(plain + strings.Repeat("\n", need)), base, "ws-trailing"
	}
}

// tagIndex serves the referrers index stored under the referrers tag.
func (s *script) tagIndex(w http.ResponseWriter, r *http.Request, rec *served) {
	c := s.c
	if r.Method != http.MethodGet && r.Method != http.MethodHead {
		rec.Status = http.StatusMethodNotAllowed
		w.WriteHeader(rec.Status)
		return
	}
	if c.TagIndex404 {
		rec.Status = http.StatusNotFound
		w.Header().Set("Content-Type", "application/json")
		w.WriteHeader(http.StatusNotFound)
		if r.Method == http.MethodGet {
			fmt.Fprint(w, `{"errors":[{"code":"MANIFEST_UNKNOWN","message":"manifest unknown"}]}`)
		}
		return
	}
	refs := c.Refs
	if refs == nil {
		refs = []ocispec.Descriptor{}
	}
	listJSON, _ := json.Marshal(refs)
	head := `"schemaVersion":2,"mediaType":"` + ocispec.MediaTypeImageIndex + `",`
	mode, target := "", int64(0)
	if c.SizedPage == 0 {
		mode, target = c.SizeMode, c.limit()+c.SizeDelta
	}
	body, base, used := sizedDoc(head, "manifests", listJSON, mode, target)
	if c.BadKind != "" && c.BadPage != -1 {
		body = badBody(body, c.BadKind)
		used = "bad-" + c.BadKind
		if r.Method == http.MethodGet {
			rec.Bad = c.BadKind
		}
	}
	rec.Body, rec.Base, rec.Mode = len(body), base, used
	rec.ValueFit = used == "ws-trailing" && int64(base) <= c.limit()
	rec.Status = http.StatusOK
	rec.Listing = r.Method == http.MethodGet
	rec.Start, rec.End = 0, len(refs)
	for _, d := range refs {
		rec.Keys = append(rec.Keys, refKey(d))
	}
	w.Header().Set("Content-Type", ocispec.MediaTypeImageIndex)
	if c.DigestHeader || r.Method == http.MethodHead || c.Chunked {
		w.Header().Set("Docker-Content-Digest", sha256Of(body))
	}
	if r.Method == http.MethodHead || !c.Chunked {
		w.Header().Set("Content-Length", strconv.Itoa(len(body)))
		w.WriteHeader(http.StatusOK)
		if r.Method == http.MethodGet {
			w.Write(body)
		}
		return
	}
	w.WriteHeader(http.StatusOK)
	w.(http.Flusher).Flush()
	w.Write(body)
}

// badBody turns a well-formed document into a malformed one.
func badBody(body []byte, kind string) []byte {
	switch kind {
	case "empty":
		return nil
	case "ws":
		return []byte(" \n\t \r\n")
	case "cut-1":
		return body[:len(body)-1]
	default: // cut-half
		return body[:len(body)/2]
	}
}
