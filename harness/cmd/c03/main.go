// C03 — ExtendedCopy reaches every ancestor's graph; depth and filters bound it.
//
// Ground truth is the generator's inverse edge list restricted to what the
// source kind exposes as predecessor relation (every link kind for memory,
// OCI layout and file store; subject links for a registry). After a
// successful ExtendedCopy / ExtendedCopyGraph into an initially empty
// destination the set of present nodes is compared with the closure the
// statement prescribes: exact for unlimited depth (also under filters, whose
// closure is computed on generator truth), two-sided bounds for a depth limit.
package main

import (
	"context"
	_ "crypto/sha256"
	_ "crypto/sha512"
	"errors"
	"fmt"
	"os"
	"os/exec"
	"path/filepath"
	"regexp"
	"sort"
	"strings"
	"sync"
	"time"

	ocispec "github.com/opencontainers/image-spec/specs-go/v1"
	oras "oras.land/oras-go/v2"
	"oras.land/oras-go/v2/content"
	"oras.land/oras-go/v2/content/oci"
	"oras.land/oras-go/v2/errdef"
	"oras.land/oras-go/v2/verifharness/copymon"
	"oras.land/oras-go/v2/verifharness/evidence"
	"oras.land/oras-go/v2/verifharness/gen"
	"oras.land/oras-go/v2/verifharness/mon"
	"oras.land/oras-go/v2/verifharness/regmodel"
	"oras.land/oras-go/v2/verifharness/stores"
	"oras.land/oras-go/v2/verifharness/worker"
)

func main() {
	if worker.IsWorker() {
		worker.Serve(runCase)
		return
	}
	r := evidence.New("C03", "exploration")
	r.Rule("case = (seeded DAG with referrer chains, indexes over shared sub-graphs, artifact types and annotations; start node ∈ blobs ∪ manifests; Depth ∈ {∞,1,2,3}; filter ∈ {none, artifact-type regex, annotation key/regex} drawn from values present and absent; " +
		"source ∈ {memory, oci fresh, oci reopened dir/fs.FS/tar, file, remote Referrers API, remote tag schema} populated with plain or enriched descriptors in random order; API ∈ {ExtendedCopyGraph, ExtendedCopy}; Concurrency and latency seeds); " +
		"oracle: destination (initially empty) node set = closure prescribed by the statement on generator truth (exact for unlimited depth incl. filters; reach(n) ⊆ copied ⊆ graphs of ancestors within d steps for depth d), bytes identical, ExtendedCopy tags the node; " +
		"distinct = hash(shape, start, depth, filter class, source kind, API); non-trivial = start node has ≥ 2 proper ancestors (under the source's relation), and for filter cases the filter keeps ≥ 1 and drops ≥ 1 predecessor edge")
	r.Assume("Docker-schema manifests are not generated in filter cases (statement speaks of OCI artifact types)")
	r.Assume("remote sources expose subject links only (Referrers API or referrers tag schema)")
	worker.Run(r, worker.Opts{Phase: "xcopy", Total: r.N(2000, 20000), Batch: 100, Timeout: 20 * time.Minute})
	if bin := os.Getenv("VERIF_RACE_BIN"); bin != "" {
		raceDir, _ := os.MkdirTemp("", "verif-c03-race-")
		r.Cleanup(func() { os.RemoveAll(raceDir) })
		worker.Run(r, worker.Opts{Phase: "race", Total: r.N(120, 1200), Batch: 40, Bin: bin, Timeout: 30 * time.Minute,
			Env: []string{"GORACE=halt_on_error=0 exitcode=0 log_path=" + filepath.Join(raceDir, "race")}})
		mon.ReportRaces(r, raceDir)
	}
	r.Finish(r.N(200, 2500))
}

var srcKinds = []string{"memory", "memory", "oci", "oci-reopen-rw", "oci-reopen-fs", "oci-reopen-tar", "file", "remote-api", "remote-api", "remote-tags", "remote-tags"}

type filterSpec struct {
	Kind  string `json:"kind"` // "", "artifactType", "annotation"
	Regex string `json:"regex,omitempty"`
	Key   string `json:"key,omitempty"`
	NoRe  bool   `json:"key_only,omitempty"`
}

func (f filterSpec) keeps(g *gen.DAG, p int) bool {
	nd := g.Nodes[p]
	switch f.Kind {
	case "artifactType":
		return regexp.MustCompile(f.Regex).MatchString(g.EffectiveArtifactType(p))
	case "annotation":
		v, ok := nd.Annotations[f.Key]
		if !ok {
			return false
		}
		return f.NoRe || regexp.MustCompile(f.Regex).MatchString(v)
	}
	return true
}

func runCase(phase string, i int) worker.Result {
	var res worker.Result
	ctx := context.Background()
	rng := evidence.RandFor(evidence.Seed(), "c03-"+phase, i)
	kind := srcKinds[rng.IntN(len(srcKinds))]
	remote := strings.HasPrefix(kind, "remote")
	n := 8 + rng.IntN(map[string]int{"quick": 30, "thorough": 70}[evidence.Tier()])
	o := gen.DefaultOpts(rng, n)
	o.Subjects = 2 + n/4
	if remote {
		o.Subjects = 4 + n/2 // many referrers per subject: multi-page listings
		o.Manifests = 1 + n/8
	}
	o.Indexes = 1 + n/8
	o.DupMediaType = rng.IntN(3) == 0 // same bytes under two media types: the destination (memory) keys by media type
	o.AbsentSubjects = false
	o.MixedCaseConfigTypes = true
	var f filterSpec
	depth := []int{0, 0, 0, 1, 2, 3}[rng.IntN(6)]
	choicesNoMeta := []string{"sbom", "sig", "example", "config", "artifact"}
	fsel := rng.IntN(5)
	if (remote || kind == "oci-reopen-rw") && rng.IntN(2) == 0 {
		fsel = 2 // annotation filters over (possibly paged) referrers listings, or over a reopened and collected layout
	}
	switch fsel {
	case 0, 1:
		f.Kind = "artifactType"
		o.Docker = false
		choices := []string{"^application/vnd\\.test\\.sig$", "sbom", "^application/vnd\\.oci\\.image\\.config", "vnd\\.test\\.config", "nomatch-zzz", "^application/vnd\\.example\\+type$", "artifact$", "^$", ".", "CNAB", "cnab", "^application/vnd\\.CNAB\\.Config"}
		f.Regex = choices[rng.IntN(len(choices))]
		if remote && rng.IntN(2) == 0 {
			f.Regex = choicesNoMeta[rng.IntN(len(choicesNoMeta))] // plain words: substring matches
		}
	case 2:
		f.Kind = "annotation"
		o.Docker = false
		f.Key = []string{"org.test.kind", "org.test.rank", "org.test.absent"}[rng.IntN(3)]
		if rng.IntN(3) == 0 {
			f.NoRe = true
		} else {
			f.Regex = []string{"^alpha$", "a", "^gamma-1$", "^$", "zzz"}[rng.IntN(5)]
			if remote && rng.IntN(2) == 0 {
				f.Regex = "a" // broad: matches spread over every page of a listing
			}
		}
		if (remote || kind == "oci-reopen-rw") && rng.IntN(5) < 2 {
			// a key that every annotated manifest carries (about half of all): matches on every page
			f.Key, f.NoRe, f.Regex = "org.test.salt", rng.IntN(2) == 0, ""
			if !f.NoRe {
				f.Regex = "^[0-9a-f]+$"
			}
		}
	}
	g := gen.Generate(rng, o)

	// source predecessor relation as exposed by the source kind
	preds := func(x int) []int {
		if remote {
			return g.Referrers(x)
		}
		return g.Preds(x)
	}
	// start node
	var cands []int
	for _, nd := range g.Nodes {
		if remote && !nd.Kind.IsManifestKind() {
			continue // a registry has no referrers of blobs to speak of; still legal, but trivial
		}
		cands = append(cands, nd.ID)
	}
	// prefer nodes with ancestors
	sort.Slice(cands, func(a, b int) bool { return len(preds(cands[a])) > len(preds(cands[b])) })
	start := cands[rng.IntN(1+len(cands)/2)]
	api := []string{"ExtendedCopyGraph", "ExtendedCopy"}[rng.IntN(2)]
	if !g.Nodes[start].Kind.IsManifestKind() && remote {
		api = "ExtendedCopyGraph"
	}
	enriched := rng.IntN(2) == 0
	conc := []int{0, 1, 2, 4}[rng.IntN(4)]
	// variants: link-closed pre-population of the destination (e.g. a second
	// ExtendedCopy after an ancestor was copied), and - for registry sources - one
	// referrers request answered 404 in the middle of the walk
	prepopulate := rng.IntN(4) == 0
	// a fresh Repository object has not detected the referrers capability yet
	freshRepo := remote && rng.IntN(3) != 0
	// The injected 404 is only meaningful once the capability is known: while it is unknown the
	// client legitimately reads a 404 as "Referrers API unsupported" and falls back to the tag
	// schema (a registry that answers 200 and then 404 for the same API does not follow the spec).
	faultReferrers := remote && !freshRepo && rng.IntN(2) == 0

	// ---- expected closure on generator truth
	type item struct{ n, d int }
	visited := map[int]int{start: 0} // node -> BFS distance (minimal)
	queue := []item{{start, 0}}
	kept, dropped := 0, 0
	for len(queue) > 0 {
		cur := queue[0]
		queue = queue[1:]
		for _, p := range preds(cur.n) {
			if !f.keeps(g, p) {
				dropped++
				continue
			}
			kept++
			if _, ok := visited[p]; !ok {
				visited[p] = cur.d + 1
				queue = append(queue, item{p, cur.d + 1})
			}
		}
	}
	var all, within []int
	for v, d := range visited {
		all = append(all, v)
		if depth == 0 || d <= depth {
			within = append(within, v)
		}
	}
	exact := g.Reach(all...)
	upper := g.Reach(within...)
	lower := g.Reach(start)

	// ---- build the source
	var srcTarget oras.ReadOnlyGraphTarget
	var cleanup []func()
	defer func() {
		for j := len(cleanup) - 1; j >= 0; j-- {
			cleanup[j]()
		}
	}()
	baseKind := kind
	var prof *regmodel.Profile
	switch {
	case strings.HasPrefix(kind, "oci"):
		baseKind = "oci"
	case remote:
		baseKind = "remote"
		p := regmodel.FullProfile()
		p.ReferrersAPI = kind == "remote-api"
		p.DigestHeader = rng.IntN(4) != 0
		if p.ReferrersAPI && (rng.IntN(2) == 0 || (f.Kind == "annotation" && rng.IntN(2) == 0)) {
			// the referrers listing arrives in several pages
			p.ReferrersPaged = true
			p.PageSize = 1 + rng.IntN(2)
			p.LinkStyle = rng.IntN(5)
		}
		if !p.ReferrersAPI {
			// registries without the API answer 404 in various ways (never NAME_UNKNOWN: the repository exists)
			p.Referrers404Code = []string{"", "", "MANIFEST_UNKNOWN", "UNSUPPORTED", "NOT_FOUND"}[rng.IntN(5)]
		}
		prof = &p
		if p.ReferrersPaged && f.Kind != "" {
			// shape coverage: a listing of several pages with a referrer the filter keeps on a page other than the last
			for x := range visited {
				refs := g.Referrers(x) // ascending = push order = listing order
				if len(refs) <= p.PageSize {
					continue
				}
				lastPageStart := (len(refs) - 1) / p.PageSize * p.PageSize
				for j, rf := range refs {
					if j < lastPageStart && f.keeps(g, rf) {
						res.Count("shape_filter_match_before_last_referrers_page:"+f.Kind, 1)
						break
					}
				}
			}
		}
	}
	sh, err := stores.New(baseKind, prof)
	if err != nil {
		res.Violate("harness:setup", err.Error(), nil)
		return res
	}
	cleanup = append(cleanup, sh.Close)
	if sh.File != nil && rng.IntN(3) == 0 {
		sh.File.ForceCAS = true // a file store that keeps every blob in its fallback CAS still has to index it
		res.Count("file_sources_with_ForceCAS", 1)
	}
	order := g.TopoChildrenFirst()
	if !remote { // registries refuse manifests whose blobs are missing; the other stores take any order
		rng.Shuffle(len(order), func(a, b int) { order[a], order[b] = order[b], order[a] })
	}
	pushOne := func(id int) error {
		nd := g.Nodes[id]
		d := nd.Desc
		if enriched && nd.Kind.IsManifestKind() {
			d.ArtifactType = g.EffectiveArtifactType(id)
			if nd.Annotations != nil {
				d.Annotations = nd.Annotations
			}
		}
		if err := sh.Target.Push(ctx, d, strings.NewReader(string(nd.Bytes))); err != nil && !errors.Is(err, errdef.ErrAlreadyExists) {
			return fmt.Errorf("push node %d to %s: %v", id, kind, err)
		}
		return nil
	}
	concurrentPopulation := !remote && rng.IntN(3) == 0
	if concurrentPopulation {
		// the source was filled by several writers at once
		var wg sync.WaitGroup
		var mu sync.Mutex
		var firstErr error
		ch := make(chan int)
		for w, k := 0, 8+rng.IntN(17); w < k; w++ {
			wg.Add(1)
			go func() {
				defer wg.Done()
				for id := range ch {
					if err := pushOne(id); err != nil {
						mu.Lock()
						if firstErr == nil {
							firstErr = err
						}
						mu.Unlock()
					}
				}
			}()
		}
		for _, id := range order {
			ch <- id
		}
		close(ch)
		wg.Wait()
		if firstErr != nil {
			res.Violate("harness:populate", firstErr.Error(), g.Describe(g.Roots()...))
			return res
		}
		res.Count("sources_populated_concurrently", 1)
	} else {
		for _, id := range order {
			if err := pushOne(id); err != nil {
				res.Violate("harness:populate", err.Error(), g.Describe(g.Roots()...))
				return res
			}
		}
	}
	// reference forms for ExtendedCopy: tag -> tag, tag -> blank (= source reference), digest -> blank, tag -> digest
	srcRef, dstRef := "start-tag", "copied-tag"
	if api == "ExtendedCopy" {
		startDigest := g.Nodes[start].Desc.Digest.String()
		// a digest names the start node only if it is a manifest (a store resolves a blob's digest
		// to a generic media type) and no twin shares its bytes
		digestOK := g.Nodes[start].Kind.IsManifestKind()
		for _, nd := range g.Nodes {
			if nd.ID != start && nd.Desc.Digest == g.Nodes[start].Desc.Digest {
				digestOK = false
			}
		}
		switch v := rng.IntN(6); {
		case v == 0:
			dstRef = ""
		case v == 1 && digestOK:
			srcRef, dstRef = startDigest, ""
		case v == 2:
			dstRef = startDigest
		}
		if err := sh.Target.Tag(ctx, g.Nodes[start].Desc, "start-tag"); err != nil {
			res.Violate("harness:populate", fmt.Sprintf("tag start node: %v", err), nil)
			return res
		}
		if srcRef == startDigest && !remote && sh.OCI == nil {
			// memory and file stores resolve a digest only when it was given as a reference
			if err := sh.Target.Tag(ctx, g.Nodes[start].Desc, startDigest); err != nil {
				res.Violate("harness:populate", fmt.Sprintf("tag start node by digest: %v", err), nil)
				return res
			}
		}
		res.Observe("extendedcopy_reference_forms", fmt.Sprintf("src-digest=%v/dst-blank=%v/dst-digest=%v", srcRef == startDigest, dstRef == "", dstRef == startDigest))
	}
	// OCI layouts: every root carries a tag (so that a later GC keeps the whole graph and the
	// reopened store hands out descriptors with a ref-name annotation)
	tagRoots := sh.OCI != nil && (kind == "oci-reopen-rw" || rng.IntN(2) == 0)
	if tagRoots {
		for _, rt := range g.Roots() {
			if err := sh.OCI.Tag(ctx, g.Nodes[rt].Desc, fmt.Sprintf("root-%d", rt)); err != nil {
				res.Violate("harness:populate", fmt.Sprintf("tag root %d: %v", rt, err), nil)
				return res
			}
		}
		res.Count("oci_sources_with_tagged_roots", 1)
	}
	srcTarget = sh.Target
	if freshRepo {
		// a fresh Repository object: the referrers capability has not been detected yet
		fresh, err := stores.RepoFor(sh.Server, "test/repo")
		if err != nil {
			res.Violate("harness:setup", err.Error(), nil)
			return res
		}
		srcTarget = fresh
		res.Count("fresh_repository_sources", 1)
	}
	switch kind {
	case "oci-reopen-rw":
		s, err := oci.New(sh.Dir)
		if err != nil {
			res.Violate("reopen-failed", err.Error(), nil)
			return res
		}
		srcTarget = s
		if tagRoots && rng.IntN(3) != 0 {
			// a garbage collection of the reopened layout (nothing is garbage: every root is tagged)
			if err := s.GC(ctx); err != nil {
				res.Violate("harness:gc", err.Error(), nil)
				return res
			}
			for _, nd := range g.Nodes {
				if ok, _ := s.Exists(ctx, nd.Desc); !ok {
					res.Violate("harness:gc-removed-live-node", fmt.Sprintf("GC removed node %d although every root is tagged", nd.ID), g.Describe(g.Roots()...))
					return res
				}
			}
			res.Count("oci_sources_reopened_then_GC", 1)
		}
	case "oci-reopen-fs":
		s, err := oci.NewFromFS(ctx, os.DirFS(sh.Dir))
		if err != nil {
			res.Violate("reopen-failed", err.Error(), nil)
			return res
		}
		srcTarget = s
	case "oci-reopen-tar":
		tarPath := sh.Dir + ".tar"
		if out, err := exec.Command("tar", "-cf", tarPath, "-C", sh.Dir, ".").CombinedOutput(); err != nil {
			res.Violate("harness:tar", fmt.Sprintf("%v: %s", err, out), nil)
			return res
		}
		cleanup = append(cleanup, func() { os.Remove(tarPath) })
		s, err := oci.NewFromTar(ctx, tarPath)
		if err != nil {
			res.Violate("reopen-failed", err.Error(), nil)
			return res
		}
		srcTarget = s
	}
	if pf, ok := srcTarget.(content.PredecessorFinder); ok && strings.HasPrefix(kind, "oci-reopen") && rng.IntN(2) == 0 {
		// the first graph-using call on the reopened layout carries a context that is already over
		// (an earlier, abandoned attempt): later calls with a live context must see the whole graph
		cctx, ccancel := context.WithCancel(ctx)
		ccancel()
		_, _ = pf.Predecessors(cctx, g.Nodes[start].Desc)
		res.Count("reopened_sources_first_used_under_a_cancelled_context", 1)
	}
	dh, err := stores.New("memory", nil)
	if err != nil {
		res.Violate("harness:setup", err.Error(), nil)
		return res
	}
	cleanup = append(cleanup, dh.Close)
	var prepop []int
	if prepopulate {
		var picks []int
		for j, k := 0, 1+rng.IntN(3); j < k; j++ {
			if len(all) > 1 && rng.IntN(2) == 0 {
				picks = append(picks, all[rng.IntN(len(all))]) // an ancestor (or the start node)
			} else {
				picks = append(picks, rng.IntN(len(g.Nodes)))
			}
		}
		prepop = g.DownClosure(picks)
		if err := gen.PushAll(ctx, dh.Target, g, prepop, func(e error) bool { return errors.Is(e, errdef.ErrAlreadyExists) }); err != nil {
			res.Violate("harness:populate", "pre-populate destination: "+err.Error(), nil)
			return res
		}
	}
	if api == "ExtendedCopy" && rng.IntN(5) == 0 {
		// the destination already holds the node's own graph under the destination reference (an
		// earlier plain Copy, or an earlier ExtendedCopy before the source gained referrers)
		own := g.DownClosure([]int{start})
		if err := gen.PushAll(ctx, dh.Target, g, own, func(e error) bool { return errors.Is(e, errdef.ErrAlreadyExists) }); err != nil {
			res.Violate("harness:populate", "pre-populate destination with the node's own graph: "+err.Error(), nil)
			return res
		}
		effRef := dstRef
		if effRef == "" {
			effRef = srcRef
		}
		if err := dh.Target.Tag(ctx, g.Nodes[start].Desc, effRef); err != nil {
			res.Violate("harness:populate", "pre-tag destination: "+err.Error(), nil)
			return res
		}
		prepop = append(prepop, own...)
		res.Count("destinations_already_holding_the_node_under_the_reference", 1)
	}
	faultHit := false
	if faultReferrers && sh.Reg != nil {
		nth := 1 + rng.IntN(4) // the first lookup (of the start node) included
		seen := 0
		isReferrersReq := func(rec *regmodel.Record) bool {
			if rec.Method != "GET" {
				return false
			}
			if rec.Kind == "referrers" {
				return true
			}
			return rec.Kind == "manifest" && strings.HasPrefix(rec.Ref, "sha256-") // tag schema
		}
		sh.Reg.Before = func(rec *regmodel.Record) *regmodel.Response {
			if !isReferrersReq(rec) {
				return nil
			}
			seen++
			if seen == nth {
				faultHit = true
				if rec.Kind == "referrers" {
					return &regmodel.Response{Status: 404} // bare 404 in the middle of the walk
				}
				return &regmodel.Response{Status: 500}
			}
			return nil
		}
	}

	m := copymon.New(g)
	m.DelaySeed = rng.Uint64()
	if rng.IntN(3) != 0 {
		m.DelayMax = time.Duration(50+rng.IntN(400)) * time.Microsecond
	}
	ws := copymon.WrapSrc(m, srcTarget)
	wd := copymon.WrapDst(m, dh.Target)

	var gopts oras.ExtendedCopyGraphOptions
	gopts.Concurrency = conc
	gopts.Depth = depth
	m.Hooks(&gopts.CopyGraphOptions)
	// a chain of filters that keep everything, installed before the real one, and a copy of the
	// options value that gets another filter afterwards: copies must not influence each other
	chain := 0
	var otherOpts *oras.ExtendedCopyGraphOptions
	if rng.IntN(4) == 0 {
		chain = 1 + rng.IntN(7)
		for j := 0; j < chain; j++ {
			gopts.FilterArtifactType(regexp.MustCompile(""))
		}
		other := gopts
		otherOpts = &other
		res.Count("filter_chains_with_copied_options", 1)
		res.MaxOf("max_filter_chain", int64(chain+1))
	}
	switch f.Kind {
	case "artifactType":
		gopts.FilterArtifactType(regexp.MustCompile(f.Regex))
	case "annotation":
		if f.NoRe {
			gopts.FilterAnnotation(f.Key, nil)
		} else {
			gopts.FilterAnnotation(f.Key, regexp.MustCompile(f.Regex))
		}
	}
	if otherOpts != nil {
		if f.Kind == "" {
			gopts.FilterArtifactType(regexp.MustCompile("")) // one more keep-all filter on the value that is used
		}
		otherOpts.FilterAnnotation("org.test.never-present", nil) // the copy is extended last and never used
	}
	witness := func() map[string]any {
		return map[string]any{"source": kind, "api": api, "src_ref": srcRef, "dst_ref": dstRef, "start": start, "depth": depth, "filter": f, "enriched_descriptors": enriched, "source_populated_concurrently": concurrentPopulation, "registry_profile": prof, "concurrency": conc, "prepopulated": prepop, "referrers_fault_injected": faultHit,
			"dag": g.Describe(g.Roots()...), "push_order": order, "expected_exact": exact, "expected_upper": upper, "pushed": m.PushedNodes()}
	}
	cctx, cancel := context.WithTimeout(ctx, 4*time.Minute)
	defer cancel()
	var returned ocispec.Descriptor
	if api == "ExtendedCopy" {
		returned, err = oras.ExtendedCopy(cctx, ws, srcRef, wd, dstRef, oras.ExtendedCopyOptions{ExtendedCopyGraphOptions: gopts})
	} else {
		err = oras.ExtendedCopyGraph(cctx, ws, wd, g.Nodes[start].Desc, gopts)
	}
	res.Count("calls", 1)
	res.Count("boundary_events", int64(m.EventCount()))
	res.Observe("source_kinds", kind)
	if cctx.Err() != nil {
		res.Inconc = "watchdog fired"
		return res
	}
	if err != nil {
		res.Count("calls_failed", 1)
		if faultHit {
			res.Count("failed_after_referrers_fault", 1)
		}
		res.Observe("failures", kind+"/"+trim(err.Error()))
		if os.Getenv("VERIF_DEBUG") != "" {
			fmt.Fprintf(os.Stderr, "case %d (%s) failed: %v\n", i, kind, err)
		}
		return res
	}
	res.Count("calls_succeeded", 1)
	if faultHit {
		res.Count("succeeded_despite_referrers_fault", 1)
	}
	if prepopulate {
		res.Count("cases_prepopulated", 1)
	}
	if len(m.Closure) > 0 {
		res.Violate("closure-at-push", m.Closure[0], witness())
		return res
	}
	present := copymon.Present(ctx, dh.Target, g)
	var got []int
	for nID := range present {
		got = append(got, nID)
	}
	sort.Ints(got)
	for _, nID := range got {
		if !copymon.SameBytes(ctx, dh.Target, g, nID) {
			res.Violate("bytes-differ", fmt.Sprintf("node %d differs from the source", nID), witness())
			return res
		}
	}
	inSet := func(s []int) map[int]bool {
		mm := map[int]bool{}
		for _, x := range s {
			mm[x] = true
		}
		return mm
	}
	diff := func(a []int, b map[int]bool) []int {
		var out []int
		for _, x := range a {
			if !b[x] {
				out = append(out, x)
			}
		}
		return out
	}
	fclass := f.Kind
	if fclass == "" {
		fclass = "nofilter"
	}
	if depth == 0 {
		if miss := diff(exact, present); len(miss) > 0 {
			w := witness()
			w["got"] = got
			res.Violate("missing-ancestor-graph:"+fclass, fmt.Sprintf("nodes %v of the upward closure's graphs are missing (source %s)", miss, kind), w)
			return res
		}
		if extra := diff(got, inSet(append(append([]int{}, exact...), prepop...))); len(extra) > 0 {
			w := witness()
			w["got"] = got
			res.Violate("extra-nodes:"+fclass, fmt.Sprintf("nodes %v were copied although no followed predecessor reaches them (source %s)", extra, kind), w)
			return res
		}
	} else {
		if miss := diff(lower, present); len(miss) > 0 {
			res.Violate("depth:own-graph-missing", fmt.Sprintf("nodes %v of the start node's own graph are missing", miss), witness())
			return res
		}
		if extra := diff(got, inSet(append(append([]int{}, upper...), prepop...))); len(extra) > 0 {
			w := witness()
			w["got"] = got
			res.Violate("depth:beyond-limit", fmt.Sprintf("nodes %v lie outside the graphs of ancestors within %d steps", extra, depth), w)
			return res
		}
	}
	if api == "ExtendedCopy" {
		if gen.Key(returned) != gen.Key(g.Nodes[start].Desc) {
			res.Violate("wrong-node-returned", fmt.Sprintf("ExtendedCopy returned %s", gen.Key(returned)), witness())
			return res
		}
		effRef := dstRef
		if effRef == "" {
			effRef = srcRef
		}
		d, err := dh.Target.Resolve(ctx, effRef)
		if err != nil || gen.Key(d) != gen.Key(g.Nodes[start].Desc) {
			res.Violate("node-not-tagged", fmt.Sprintf("destination Resolve(%s) = %v, %v", effRef, gen.Key(d), err), witness())
			return res
		}
	}
	res.Count("nodes_verified", int64(len(got)))
	res.Key = fmt.Sprintf("%s|%d|d%d|%s|%s|%s|%v|p%v|f%v", g.Shape(all...), start, depth, fclass+f.Regex+f.Key, kind, api, enriched, prepop, faultHit)
	properAnc := len(all) - 1
	res.NT = properAnc >= 2 && (f.Kind == "" || (kept >= 1 && dropped >= 1))
	if f.Kind != "" && kept >= 1 && dropped >= 1 {
		res.Count("filter_cases_discriminating", 1)
	}
	if depth > 0 && len(upper) < len(exact) {
		res.Count("depth_cases_truncating", 1)
	}
	if i%131 == 0 {
		res.Sample = witness()
	}
	return res
}

func trim(s string) string {
	s = regexp.MustCompile(`sha256:[0-9a-f]+|127\.0\.0\.1:\d+`).ReplaceAllString(s, "X")
	if len(s) > 90 {
		return s[:90]
	}
	return s
}
