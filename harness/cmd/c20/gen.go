package main

// Seeded generators: reference components with boundary lengths, mutations,
// the digest grid.

import (
	"math/rand/v2"
	"strings"
	"sync"

	"oras.land/oras-go/v2/registry/remote"
	"oras.land/oras-go/v2/verifharness/evidence"
)

const lowerAlnum = "abcdefghijklmnopqrstuvwxyz0123456789"
const wordChars = "abcdefghijklmnopqrstuvwxyzABCDEFGHIJKLMNOPQRSTUVWXYZ0123456789_"
const hexChars = "0123456789abcdef"

func pick[T any](rng *rand.Rand, xs []T) T { return xs[rng.IntN(len(xs))] }

func randFrom(rng *rand.Rand, alphabet string, n int) string {
	b := make([]byte, n)
	for i := range b {
		b[i] = alphabet[rng.IntN(len(alphabet))]
	}
	return string(b)
}

var validRegistries = []string{
	"localhost", "localhost:5000", "127.0.0.1", "127.0.0.1:5000", "[::1]", "[::1]:5000", "[2001:db8::1]:443",
	"example.com", "registry.example.com:443", "REG.Example.IO", "a-b.c", "x", "0", "ghcr.io", "my-registry.local:65535", "r:0",
}

// genRegistry returns a surely valid registry.
func genRegistry(rng *rand.Rand) string {
	if rng.IntN(3) > 0 {
		return pick(rng, validRegistries)
	}
	n := 1 + rng.IntN(3)
	var labels []string
	for i := 0; i < n; i++ {
		l := randFrom(rng, "abcdefghijklmnopqrstuvwxyzABCXYZ0123456789", 1+rng.IntN(6))
		if rng.IntN(4) == 0 {
			l += "-" + randFrom(rng, lowerAlnum, 1+rng.IntN(3))
		}
		labels = append(labels, l)
	}
	s := strings.Join(labels, ".")
	if rng.IntN(2) == 0 {
		s += ":" + []string{"80", "443", "5000", "65535", "1"}[rng.IntN(5)]
	}
	return s
}

// odd registries: unjudged or invalid ones
var oddRegistries = []string{
	"", "user@host", "user:pw@host:5000", "host:", "host:port", "host:99999", "[::1", "::1", "[::1]x", "[zz]", "[fe80::1%25eth0]",
	"a b", "a\tb", "a\nb", "host?x=1", "host#f", "a%41", "a%2Fb", "a_b", "-a", "a-", "a..b", ".", "a.", "h\\x", "exa mple.com", "é.com",
	"a:b:5000", "a,b", "a;b", "a=b", "a+b", "a~b", "a!b", "a$b", "a*b", "a(b)", "a'b", "a\"b", "a<b>", "a^b", "a`b", "a{b}", "a|b", "\x7f",
}

var repoSeps = []string{".", "_", "__", "-", "--", "---"}

// genRepository returns a valid repository name.
func genRepository(rng *rand.Rand) string {
	nc := 1 + rng.IntN(3)
	if rng.IntN(10) == 0 {
		nc = 4 + rng.IntN(4)
	}
	var comps []string
	for i := 0; i < nc; i++ {
		nr := 1 + rng.IntN(3)
		var b strings.Builder
		for j := 0; j < nr; j++ {
			if j > 0 {
				b.WriteString(pick(rng, repoSeps))
			}
			n := 1 + rng.IntN(5)
			if rng.IntN(40) == 0 {
				n = 60 + rng.IntN(200)
			}
			b.WriteString(randFrom(rng, lowerAlnum, n))
		}
		comps = append(comps, b.String())
	}
	return strings.Join(comps, "/")
}

// genTag returns a tag and whether it is valid.
func genTag(rng *rand.Rand) (string, bool) {
	n := []int{1, 1, 2, 3, 5, 8, 20, 127, 128, 129, 130, 200}[rng.IntN(12)]
	rest := wordChars + ".-"
	first := randFrom(rng, wordChars, 1)
	if rng.IntN(12) == 0 {
		first = pick(rng, []string{".", "-"})
	}
	t := first + randFrom(rng, rest, n-1)
	if rng.IntN(15) == 0 && n > 1 {
		i := 1 + rng.IntN(n-1)
		t = t[:i] + pick(rng, []string{"!", "+", "/", " ", "%", "~", "é", ":", "@", "?"}) + t[i+1:]
	}
	return t, validTag(t)
}

var algNames = []string{"sha256", "sha256", "sha256", "sha384", "sha512", "md5", "sha1", "sha224", "SHA256", "sha256+b64u", "blake3", "sha-256", "", "sha256 "}

// genDigest returns a digest-like string.
func genDigest(rng *rand.Rand) string {
	alg := pick(rng, algNames)
	n, ok := digestAlgs[alg]
	if !ok {
		n = pick(rng, []int{32, 40, 64, 96, 128})
	}
	switch rng.IntN(10) {
	case 0:
		n--
	case 1:
		n++
	case 2:
		n = pick(rng, []int{0, 1, 32, 64, 96, 128})
	}
	if n < 0 {
		n = 0
	}
	h := randFrom(rng, hexChars, n)
	if n > 0 {
		switch rng.IntN(12) {
		case 0:
			i := rng.IntN(n)
			h = h[:i] + "A" + h[i+1:]
		case 1:
			i := rng.IntN(n)
			h = h[:i] + pick(rng, []string{"g", "-", "_", "=", ":", " ", "/"}) + h[i+1:]
		}
	}
	return alg + ":" + h
}

// genValidDigest returns a valid digest.
func genValidDigest(rng *rand.Rand) string {
	alg := pick(rng, []string{"sha256", "sha384", "sha512"})
	return alg + ":" + randFrom(rng, hexChars, digestAlgs[alg])
}

const mutAlphabet = "aZ09._-:/@[]%?# \t\n\\+=~!*,;'\"<>^`{|}$&()\x00\x7f"

var mutChunks = []string{"__", "___", "..", "//", ":@", "@:", "::", "@@", "%2F", "%2f", "user@", " ", "é", "/../", "/./", "?a=b", "#f", ":5000", "sha256:", "-_", "_-", ".-"}

func mutate(rng *rand.Rand, s string) string {
	switch op := rng.IntN(9); {
	case op == 0 && len(s) > 0: // delete
		i := rng.IntN(len(s))
		return s[:i] + s[i+1:]
	case op == 1 && len(s) > 0: // replace
		i := rng.IntN(len(s))
		return s[:i] + string(mutAlphabet[rng.IntN(len(mutAlphabet))]) + s[i+1:]
	case op == 2 && len(s) > 0: // duplicate
		i := rng.IntN(len(s))
		return s[:i] + s[i:i+1] + s[i:]
	case op == 3 && len(s) > 1: // swap
		i := rng.IntN(len(s) - 1)
		return s[:i] + s[i+1:i+2] + s[i:i+1] + s[i+2:]
	case op == 4: // chunk
		i := rng.IntN(len(s) + 1)
		return s[:i] + pick(rng, mutChunks) + s[i:]
	case op == 5: // append separator
		return s + pick(rng, []string{":", "@", "/", ":@", "@:"})
	case op == 6 && len(s) > 0: // change case
		i := rng.IntN(len(s))
		c := s[i]
		if isLower(c) {
			c -= 32
		} else if isUpper(c) {
			c += 32
		}
		return s[:i] + string(c) + s[i+1:]
	default: // insert
		i := rng.IntN(len(s) + 1)
		return s[:i] + string(mutAlphabet[rng.IntN(len(mutAlphabet))]) + s[i:]
	}
}

// genReference builds a reference string: mostly well-formed with boundary
// components, then 0–3 mutations; sometimes odd registries or pure noise.
func genReference(rng *rand.Rand) string {
	if rng.IntN(12) == 0 {
		return randFrom(rng, "aA0.-_:/@/[]% ?#", rng.IntN(14))
	}
	reg := genRegistry(rng)
	if rng.IntN(6) == 0 {
		reg = pick(rng, oddRegistries)
	}
	s := reg + "/" + genRepository(rng)
	switch rng.IntN(4) {
	case 0:
		s += "@" + genDigest(rng)
	case 1:
		t, _ := genTag(rng)
		if rng.IntN(4) == 0 {
			t = randFrom(rng, mutAlphabet, rng.IntN(6)) // the dropped tag is arbitrary
		}
		s += ":" + t + "@" + genDigest(rng)
	case 2:
		t, _ := genTag(rng)
		s += ":" + t
	}
	for k := []int{0, 0, 0, 1, 1, 2, 3}[rng.IntN(7)]; k > 0; k-- {
		s = mutate(rng, s)
	}
	return s
}

// randomPhase evaluates n seeded random references in parallel chunks.
func randomPhase(seed int64, n int, total *stats) {
	const chunks = 256
	jobs := make(chan int, chunks)
	for c := 0; c < chunks; c++ {
		jobs <- c
	}
	close(jobs)
	var wg sync.WaitGroup
	var mu sync.Mutex
	for g := 0; g < parallelism(); g++ {
		wg.Add(1)
		go func() {
			defer wg.Done()
			st := newStats()
			for c := range jobs {
				rng := evidence.RandFor(seed, "c20-random", c)
				lo, hi := c*n/chunks, (c+1)*n/chunks
				for i := lo; i < hi; i++ {
					evalParse(st, genReference(rng))
				}
			}
			mu.Lock()
			total.merge(st)
			mu.Unlock()
		}()
	}
	wg.Wait()
}

// digestGrid: algorithm × hex length × alphabet × position, exhaustively.
func digestGrid(st *stats) {
	algs := []string{"sha256", "sha384", "sha512", "md5", "sha1", "sha224", "SHA256", "Sha256", "sha256+b64u", "sha-256", "sha_256", "sha.256", "blake3", "", " sha256", "sha256 "}
	lens := []int{0, 1, 31, 32, 40, 63, 64, 65, 95, 96, 97, 127, 128, 129, 256}
	type alpha struct{ name, chars string }
	alphas := []alpha{{"lower", "0123456789abcdef"}, {"digits", "0123456789"}, {"upper", "0123456789ABCDEF"}, {"mixed", "0123456789abcdeF"}, {"nonhex", "0123456789abcdefg"}, {"b64", "abcXYZ_-=019"}}
	repo, err := remote.NewRepository("registry.example.com/grid/repo")
	if err != nil {
		st.violate("harness:grid-base", err.Error(), nil)
		return
	}
	for _, alg := range algs {
		for _, n := range lens {
			for _, al := range alphas {
				// deterministic content: cycle through the alphabet, ending on its last character
				b := make([]byte, n)
				for i := range b {
					b[i] = al.chars[(i*7+3)%len(al.chars)]
				}
				if n > 0 {
					b[n-1] = al.chars[len(al.chars)-1]
				}
				d := alg + ":" + string(b)
				for _, s := range []string{
					"registry.example.com/grid/repo@" + d,
					"registry.example.com/grid/repo:v1@" + d,
					"registry.example.com/grid/repo:@" + d,
					"registry.example.com/grid/repo:not a tag!@" + d,
					"registry.example.com/grid/repo:a:b@" + d,
					"registry.example.com/grid/repo:" + d,
					"registry.example.com/grid/repo@" + d + "@" + d,
					"localhost:5000/other@" + d,
					d, "v1@" + d, "@" + d, ":" + d, "not a tag!@" + d, d + "@", d + ":",
				} {
					evalParse(st, s)
					evalRepo(st, repo, s)
				}
			}
		}
	}
}
