package main

// Phases "repo" and "url": seeded Repository bases × reference forms, through
// Repository.ParseReference and through the request-issuing operations with a
// recording RoundTripper (canned responses, no socket).

import (
	"bytes"
	"context"
	"fmt"
	"io"
	"net/http"
	"net/url"
	"strings"
	"sync"

	"github.com/opencontainers/go-digest"
	ocispec "github.com/opencontainers/image-spec/specs-go/v1"
	"oras.land/oras-go/v2/registry/remote"
	"oras.land/oras-go/v2/verifharness/evidence"
	"oras.land/oras-go/v2/verifharness/worker"
)

var ctx = context.Background()

var (
	cannedManifest = []byte(`{"schemaVersion":2,"mediaType":"application/vnd.oci.image.manifest.v1+json","config":{"mediaType":"application/vnd.oci.empty.v1+json","digest":"sha256:44136fa355b3678a1146ad16f7e8649e94fb4fc21fe77e8310c060f61caaff8a","size":2},"layers":[]}`)
	cannedBlob     = []byte("c20 blob content")
	cannedIndex    = []byte(`{"schemaVersion":2,"mediaType":"application/vnd.oci.image.index.v1+json","manifests":[]}`)
)

type recorded struct {
	Method string
	URL    url.URL
	Raw    string
	Host   string
}

type recorder struct {
	mu   sync.Mutex
	reqs []recorded
}

func (t *recorder) take() []recorded {
	t.mu.Lock()
	defer t.mu.Unlock()
	out := t.reqs
	t.reqs = nil
	return out
}

func digestsOf(b []byte) []string {
	return []string{digest.SHA256.FromBytes(b).String(), digest.SHA384.FromBytes(b).String(), digest.SHA512.FromBytes(b).String()}
}

func (t *recorder) RoundTrip(req *http.Request) (*http.Response, error) {
	t.mu.Lock()
	t.reqs = append(t.reqs, recorded{Method: req.Method, URL: *req.URL, Raw: req.URL.String(), Host: req.Host})
	t.mu.Unlock()
	if req.Body != nil {
		io.Copy(io.Discard, req.Body)
		req.Body.Close()
	}
	p := req.URL.Path
	last := p[strings.LastIndexByte(p, '/')+1:]
	resp := &http.Response{Proto: "HTTP/1.1", ProtoMajor: 1, ProtoMinor: 1, Header: http.Header{}, Request: req, Body: http.NoBody}
	body := func(b []byte, ctype string) {
		resp.StatusCode = 200
		resp.Header.Set("Content-Type", ctype)
		resp.Header.Set("Content-Length", fmt.Sprint(len(b)))
		resp.ContentLength = int64(len(b))
		dg := digest.FromBytes(b).String()
		for _, d := range digestsOf(b) {
			if d == last {
				dg = d
			}
		}
		resp.Header.Set("Docker-Content-Digest", dg)
		if req.Method == http.MethodGet {
			resp.Body = io.NopCloser(bytes.NewReader(b))
		}
	}
	switch {
	case strings.Contains(p, "/manifests/"):
		switch req.Method {
		case http.MethodGet, http.MethodHead:
			body(cannedManifest, ocispec.MediaTypeImageManifest)
		case http.MethodPut:
			resp.StatusCode = 201
		case http.MethodDelete:
			resp.StatusCode = 202
		default:
			resp.StatusCode = 405
		}
	case strings.Contains(p, "/blobs/"):
		switch req.Method {
		case http.MethodGet, http.MethodHead:
			body(cannedBlob, "application/octet-stream")
		case http.MethodDelete:
			resp.StatusCode = 202
		default:
			resp.StatusCode = 405
		}
	case strings.Contains(p, "/referrers/") && req.Method == http.MethodGet:
		body(cannedIndex, ocispec.MediaTypeImageIndex)
	default:
		resp.StatusCode = 404
	}
	resp.Status = fmt.Sprintf("%d %s", resp.StatusCode, http.StatusText(resp.StatusCode))
	return resp, nil
}

// judgeRequests checks every recorded request of one operation against the URL slot.
// allowed: admissible <reference> values; kind: the operation's endpoint kind.
// It returns how many requests named want (the input's reference).
func judgeRequests(st *stats, reqs []recorded, base parts, plain bool, kind string, allowed []string, want string, w map[string]any) int {
	scheme := "https"
	if plain {
		scheme = "http"
	}
	// the one documented host fix-up (registry.Reference.Host): docker.io is served by registry-1.docker.io
	host := base.Registry
	if host == "docker.io" {
		host = "registry-1.docker.io"
	}
	hits := 0
	for _, rq := range reqs {
		u := rq.URL
		bad := func(key, what string) {
			ww := map[string]any{"request": rq.Method + " " + rq.Raw}
			for k, v := range w {
				ww[k] = v
			}
			st.violate("url:"+key, fmt.Sprintf("%s %s (base %s/%s, %v): %s", rq.Method, rq.Raw, base.Registry, base.Repository, w["op"], what), ww)
		}
		if u.Scheme != scheme {
			bad("scheme", "scheme is not the configured "+scheme)
		}
		if u.Host != host || u.User != nil || u.Opaque != "" || (rq.Host != "" && rq.Host != host) {
			bad("host", fmt.Sprintf("host %q (request host %q, user %v) is not the registry host %q", u.Host, rq.Host, u.User, host))
		}
		if u.RawQuery != "" || u.ForceQuery {
			bad("query", "URL carries a query: "+u.RawQuery)
		}
		if u.Fragment != "" || u.RawFragment != "" {
			bad("fragment", "URL carries a fragment: "+u.Fragment)
		}
		path := u.EscapedPath()
		prefix := "/v2/" + base.Repository + "/" + kind + "/"
		if u.Path != path || !strings.HasPrefix(path, prefix) {
			bad("path:"+kind, fmt.Sprintf("path %q (escaped %q) is not %s<reference>", u.Path, path, prefix))
			continue
		}
		x := path[len(prefix):]
		ok := false
		for _, a := range allowed {
			ok = ok || a == x
		}
		if !ok || (!validTag(x) && !validDigest(x)) || (kind != "manifests" && !validDigest(x)) {
			bad("reference:"+kind, fmt.Sprintf("reference slot holds %q, admissible here: %q", x, allowed))
			continue
		}
		if rq.Raw != scheme+"://"+host+prefix+x {
			bad("raw", "URL text is not "+scheme+"://"+host+prefix+x)
		}
		if x == want {
			hits++
		}
	}
	return hits
}

// formsAgree: the tag, digest and tag@digest forms give the canonical
// references; every other accepted form naming the same tag / digest must
// return exactly the same registry.Reference.
func formsAgree(st *stats, repo *remote.Repository, tag, dg string, others []string) {
	byTag, errT := repo.ParseReference(tag)
	byDg, errD := repo.ParseReference(dg)
	byBoth, errB := repo.ParseReference(tag + "@" + dg)
	w := map[string]any{"base": repo.Reference.String(), "tag": tag, "digest": dg}
	if errT != nil || errD != nil || errB != nil {
		return // reject-valid is reported by evalRepo
	}
	if byBoth != byDg {
		st.violate("repo:forms-disagree", fmt.Sprintf("Repository(%s): tag@digest resolves to %+v, digest to %+v", repo.Reference, byBoth, byDg), w)
	}
	for _, s := range others {
		got, err := repo.ParseReference(s)
		if err != nil {
			continue
		}
		want := byDg
		if got.Reference == tag {
			want = byTag
		}
		if got != want {
			st.violate("repo:forms-disagree", fmt.Sprintf("Repository(%s).ParseReference(%s) = %+v, but the short form resolves to %+v", repo.Reference, show(s), got, want),
				map[string]any{"base": repo.Reference.String(), "input": s, "returned": got, "short_form": want})
		}
	}
	st.formsChecked++
}

func toResult(st *stats, res *worker.Result) {
	for _, v := range st.viols {
		res.Violate(v.Key, v.What, v.Witness)
	}
	for k, n := range st.violN {
		res.Count("violating_cases_"+k, int64(n))
	}
	res.Count("repository_parse_evaluations", st.repoEvals)
	res.Count("repository_parse_judged", st.repoJudged)
	res.Count("repository_parse_accepted", st.repoAccepted)
	res.Count("form_agreement_checks", st.formsChecked)
	res.Evals = int(st.repoEvals)
}

// genBase returns a valid base (registry, repository) and the string handed to NewRepository.
func genBase(rng interface{ IntN(int) int }, gr func() string, gp func() string, tag string, dg string) (parts, string) {
	b := parts{Registry: gr(), Repository: gp()}
	s := b.Registry + "/" + b.Repository
	switch rng.IntN(6) {
	case 0:
		s += ":" + tag
	case 1:
		s += "@" + dg
	}
	return b, s
}

func runCase(phase string, i int) worker.Result {
	seed := evidence.New("C20", "exploration").Seed
	rng := evidence.RandFor(seed, "c20-"+phase, i)
	var res worker.Result
	st := newStats()
	defer func() {
		if p := recover(); p != nil {
			res.Violate(phase+":panic", fmt.Sprintf("case %d panicked: %v", i, p), nil)
		}
	}()

	var tag string
	for ok := false; !ok; {
		tag, ok = genTag(rng)
	}
	mdg := digestsOf(cannedManifest)
	bdg := digestsOf(cannedBlob)
	algIdx := rng.IntN(3)
	dg := mdg[algIdx]
	if phase == "repo" {
		dg = genValidDigest(rng)
	}
	base, baseStr := genBase(rng, func() string {
		if rng.IntN(5) == 0 { // Docker Hub names: docker.io has a documented host alias, the others none
			return pick(rng, []string{"docker.io", "docker.io", "registry-1.docker.io", "index.docker.io"})
		}
		return genRegistry(rng)
	}, func() string {
		if rng.IntN(3) == 0 { // single-component repository
			return pick(rng, []string{"alpine", "hello-world", "busybox", "a", "library", "x_y.z"})
		}
		return genRepository(rng)
	}, "basetag", genValidDigest(rng))
	repo, err := remote.NewRepository(baseStr)
	if err != nil {
		res.Violate("repo:new-repository", fmt.Sprintf("NewRepository(%q): %v", baseStr, err), map[string]any{"base": baseStr})
		return res
	}
	fq := base.Registry + "/" + base.Repository

	// other registries / repositories
	otherReg := genRegistry(rng)
	for otherReg == base.Registry {
		otherReg = genRegistry(rng) + "x"
	}
	otherRepo := genRepository(rng)
	for otherRepo == base.Repository {
		otherRepo += "/x"
	}
	badTag, _ := genTag(rng)
	junk := randFrom(rng, mutAlphabet, rng.IntN(5))
	inputs := []string{
		tag, dg, tag + "@" + dg, junk + "@" + dg, ":" + tag + "@" + dg,
		fq + ":" + tag, fq + "@" + dg, fq + ":" + tag + "@" + dg, fq + ":" + junk + "@" + dg,
		otherReg + "/" + base.Repository + ":" + tag, otherReg + "/" + base.Repository + "@" + dg,
		base.Registry + "/" + otherRepo + ":" + tag, base.Registry + "/" + otherRepo + "@" + dg,
		fq + "/extra:" + tag, base.Repository + ":" + tag, base.Registry + ":" + tag,
		fq, fq + ":", fq + "@", "", ":", "@", tag + ":", tag + "@",
		badTag, genDigest(rng), tag + "@" + genDigest(rng),
		tag + "/../" + tag, tag + "?n=1", tag + "#f", tag + "%2F" + tag, "../" + tag, tag + "/", dg + "/x", dg + "?x=1", tag + "@" + dg + "/x", tag + "@" + dg + "?x",
		" " + tag, tag + " ", tag + "\n", dg + "\n",
	}
	for _, s := range inputs[:13] {
		inputs = append(inputs, mutate(rng, s))
		inputs = append(inputs, mutate(rng, mutate(rng, s)))
	}

	// Docker Hub aliases: docker.io is contacted at registry-1.docker.io, but
	// they (and index.docker.io) are different registries as far as references
	// go: a fully qualified reference naming another alias must be rejected.
	hubNames := []string{"docker.io", "registry-1.docker.io", "index.docker.io"}
	var aliasInputs []string
	if strings.HasSuffix(base.Registry, "docker.io") {
		for _, h := range hubNames {
			if h != base.Registry {
				a := h + "/" + base.Repository
				aliasInputs = append(aliasInputs, a+":"+tag, a+"@"+dg, a+":"+tag+"@"+dg)
			}
		}
		inputs = append(inputs, aliasInputs...)
		res.Count("hub_alias_inputs", int64(len(aliasInputs)))
	}
	// whatever form is accepted must resolve to the very reference the tag /
	// digest / tag@digest forms resolve to (Registry field included)
	formsAgree(st, repo, tag, dg, append([]string{fq + ":" + tag, fq + "@" + dg, fq + ":" + tag + "@" + dg, ":" + tag + "@" + dg}, aliasInputs...))

	switch phase {
	case "repo":
		for _, s := range inputs {
			evalRepo(st, repo, s)
			evalParse(st, s)
		}
		toResult(st, &res)
		res.Evals += int(st.evals)
		res.Count("repo_phase_strings", st.evals)
		res.Key = fmt.Sprintf("%s|%d|%s|%s", shape(base.Registry, 12), strings.Count(base.Repository, "/"), shape(tag, 8), dg[:6])
		res.NT = st.repoJudged > 0 && st.repoAccepted > 0
		return res
	}

	// ---- url phase
	plain := rng.IntN(2) == 0
	repo.PlainHTTP = plain
	rec := &recorder{}
	repo.Client = &http.Client{Transport: rec}
	if err := repo.SetReferrersCapability(true); err != nil {
		res.Violate("harness:referrers-capability", err.Error(), nil)
	}
	mdesc := ocispec.Descriptor{MediaType: ocispec.MediaTypeImageManifest, Digest: digest.Digest(mdg[0]), Size: int64(len(cannedManifest))}
	bdesc := ocispec.Descriptor{MediaType: "application/octet-stream", Digest: digest.Digest(bdg[0]), Size: int64(len(cannedBlob))}
	var nreq, okOps, errOps, judgedAccepted int64
	forms := map[string]bool{}

	run := func(op, kind, in string, allowed []string, want string, must bool, f func() error) {
		rec.take()
		err := f()
		reqs := rec.take()
		nreq += int64(len(reqs))
		if err == nil {
			okOps++
		} else {
			errOps++
		}
		w := map[string]any{"op": op, "input": in, "base": baseStr, "plain_http": plain, "error": fmt.Sprint(err)}
		hits := judgeRequests(st, reqs, base, plain, kind, allowed, want, w)
		if must {
			judgedAccepted++
			if hits == 0 {
				st.violate("url:no-request-for-reference", fmt.Sprintf("%s(%s) on %s issued %d requests, none for reference %q (err %v)", op, show(in), baseStr, len(reqs), want, err), w)
			}
		}
	}
	closeRC := func(rc io.ReadCloser, err error) error {
		if rc != nil {
			rc.Close()
		}
		return err
	}

	for _, in := range inputs {
		v, refs := repoRecognise(base, in)
		evalRepo(st, repo, in)
		want := ""
		if v == vAccept {
			want = refs[0]
			switch {
			case strings.Contains(in, "/") && strings.Contains(in, "@"):
				forms["fq-digest"] = true
			case strings.Contains(in, "/"):
				forms["fq-tag"] = true
			case strings.Contains(in, "@"):
				forms["tag@digest"] = true
			case validDigest(in):
				forms["digest"] = true
			default:
				forms["tag"] = true
			}
		}
		// admissible reference slots: the input's reference(s); manifests ops may also name the pushed / fetched descriptor
		mAllowed := append(append([]string{}, refs...), mdg[0])
		bAllowed := append([]string{}, refs...)
		must := v == vAccept
		mustBlob := must && validDigest(want)
		run("Resolve", "manifests", in, mAllowed, want, must, func() error { _, err := repo.Resolve(ctx, in); return err })
		run("FetchReference", "manifests", in, mAllowed, want, must, func() error { _, rc, err := repo.FetchReference(ctx, in); return closeRC(rc, err) })
		run("Tag", "manifests", in, mAllowed, want, must, func() error { return repo.Tag(ctx, mdesc, in) })
		run("PushReference", "manifests", in, mAllowed, want, must, func() error { return repo.PushReference(ctx, mdesc, bytes.NewReader(cannedManifest), in) })
		run("Blobs.Resolve", "blobs", in, bAllowed, want, mustBlob, func() error { _, err := repo.Blobs().Resolve(ctx, in); return err })
		run("Blobs.FetchReference", "blobs", in, bAllowed, want, mustBlob, func() error {
			_, rc, err := repo.Blobs().(interface {
				FetchReference(context.Context, string) (ocispec.Descriptor, io.ReadCloser, error)
			}).FetchReference(ctx, in)
			return closeRC(rc, err)
		})
	}
	// descriptor-addressed operations (digest of every registered algorithm)
	for a := 0; a < 3; a++ {
		md, bd := mdesc, bdesc
		md.Digest, bd.Digest = digest.Digest(mdg[a]), digest.Digest(bdg[a])
		ms, bs := string(md.Digest), string(bd.Digest)
		run("Fetch(manifest)", "manifests", ms, []string{ms}, ms, true, func() error { rc, err := repo.Fetch(ctx, md); return closeRC(rc, err) })
		run("Exists(manifest)", "manifests", ms, []string{ms}, ms, true, func() error { _, err := repo.Exists(ctx, md); return err })
		run("Push(manifest)", "manifests", ms, []string{ms}, ms, true, func() error { return repo.Manifests().Push(ctx, md, bytes.NewReader(cannedManifest)) })
		run("Delete(manifest)", "manifests", ms, []string{ms}, ms, true, func() error { return repo.Delete(ctx, md) })
		run("Fetch(blob)", "blobs", bs, []string{bs}, bs, true, func() error { rc, err := repo.Fetch(ctx, bd); return closeRC(rc, err) })
		run("Exists(blob)", "blobs", bs, []string{bs}, bs, true, func() error { _, err := repo.Exists(ctx, bd); return err })
		run("Blobs.Delete", "blobs", bs, []string{bs}, bs, true, func() error { return repo.Blobs().Delete(ctx, bd) })
		run("Referrers", "referrers", ms, []string{ms}, ms, true, func() error {
			return repo.Referrers(ctx, md, "", func([]ocispec.Descriptor) error { return nil })
		})
	}

	// ---- the same Repository value with its exported fields changed between
	// requests: every request must go to the current Reference's host and
	// repository slot, with the current scheme
	for step := 0; step < 2; step++ {
		nb, _ := genBase(rng, func() string {
			if rng.IntN(5) == 0 {
				return pick(rng, []string{"docker.io", "registry-1.docker.io", "index.docker.io"})
			}
			return genRegistry(rng)
		}, func() string { return genRepository(rng) }, "basetag", dg)
		how := pick(rng, []string{"registry", "repository", "both", "scheme", "both+scheme"})
		switch how {
		case "registry":
			repo.Reference.Registry = nb.Registry
		case "repository":
			repo.Reference.Repository = nb.Repository
		case "both", "both+scheme":
			repo.Reference.Registry, repo.Reference.Repository = nb.Registry, nb.Repository
		}
		if how == "scheme" || how == "both+scheme" {
			repo.PlainHTTP = !repo.PlainHTTP
		}
		base = parts{Registry: repo.Reference.Registry, Repository: repo.Reference.Repository}
		plain = repo.PlainHTTP
		baseStr = fmt.Sprintf("%s (fields changed: %s, step %d)", repo.Reference.String(), how, step+1)
		res.Count("url_field_change_steps", 1)
		res.Observe("url_field_changes", how)
		evalRepo(st, repo, tag)
		evalRepo(st, repo, base.Registry+"/"+base.Repository+":"+tag)
		ms, bs := string(mdesc.Digest), string(bdesc.Digest)
		run("Resolve", "manifests", tag, []string{tag, ms}, tag, true, func() error { _, err := repo.Resolve(ctx, tag); return err })
		run("FetchReference", "manifests", dg, []string{dg, ms}, dg, true, func() error { _, rc, err := repo.FetchReference(ctx, dg); return closeRC(rc, err) })
		run("Tag", "manifests", tag, []string{tag, ms}, tag, true, func() error { return repo.Tag(ctx, mdesc, tag) })
		run("Blobs.Resolve", "blobs", bs, []string{bs}, bs, true, func() error { _, err := repo.Blobs().Resolve(ctx, bs); return err })
		run("Fetch(manifest)", "manifests", ms, []string{ms}, ms, true, func() error { rc, err := repo.Fetch(ctx, mdesc); return closeRC(rc, err) })
		run("Exists(blob)", "blobs", bs, []string{bs}, bs, true, func() error { _, err := repo.Exists(ctx, bdesc); return err })
		run("Delete(manifest)", "manifests", ms, []string{ms}, ms, true, func() error { return repo.Delete(ctx, mdesc) })
		run("Referrers", "referrers", ms, []string{ms}, ms, true, func() error {
			return repo.Referrers(ctx, mdesc, "", func([]ocispec.Descriptor) error { return nil })
		})
	}

	toResult(st, &res)
	res.Count("url_requests_judged", nreq)
	res.Count("url_operations_ok", okOps)
	res.Count("url_operations_error", errOps)
	res.Count("url_operations_on_accepted_reference", judgedAccepted)
	var fl []string
	for _, f := range []string{"tag", "digest", "tag@digest", "fq-tag", "fq-digest"} {
		if forms[f] {
			fl = append(fl, f)
			res.Observe("url_reference_forms", f)
		}
	}
	res.Key = fmt.Sprintf("url|%v|%s|%d|%s|%d|%s", plain, shape(base.Registry, 12), strings.Count(base.Repository, "/"), shape(tag, 8), algIdx, strings.Join(fl, ","))
	res.NT = nreq > 0 && judgedAccepted > 0
	if strings.HasSuffix(base.Registry, "docker.io") {
		res.Observe("url_docker_hub_bases", fmt.Sprintf("%s/%d-component", base.Registry, strings.Count(base.Repository, "/")+1))
		res.Count("url_docker_hub_cases", 1)
	}
	if i%300 == 0 {
		res.Sample = map[string]any{"phase": "url", "base": baseStr, "plain_http": plain, "inputs": inputs[:9], "requests": nreq}
	}
	return res
}
