// C20 — References parse exactly per grammar, round-trip, and stay in their URL slot.
//
// Monitor: the real registry.ParseReference / Reference.String /
// remote.Repository.ParseReference and the request-building code of
// remote.Repository are executed on (1) every token sequence up to a length
// bound over a vocabulary that reaches all four reference forms, (2) every
// character string up to a length bound over the characters that matter,
// (3) a digest grid, (4) seeded random and mutated references with boundary
// lengths, (5) seeded Repository bases × reference forms, (6) the same with a
// recording http.RoundTripper that judges every URL issued. The oracle is an
// independent hand-written recogniser (recog.go).
package main

import (
	_ "crypto/sha256"
	_ "crypto/sha512"
	"fmt"
	"hash/fnv"
	"runtime"
	"sort"
	"sync"
	"time"

	"oras.land/oras-go/v2/registry"
	"oras.land/oras-go/v2/registry/remote"
	"oras.land/oras-go/v2/verifharness/evidence"
	"oras.land/oras-go/v2/verifharness/worker"
)

// ---------------------------------------------------------------------------
// per-goroutine accounting

type viol struct {
	Key, What string
	Witness   any
}

type stats struct {
	evals            int64
	judged, unjudged int64
	libAccept        int64
	libReject        int64
	modelAccept      int64
	modelReject      int64
	unjudgedAccepted int64
	nearMiss         int64
	lenient          int64
	multiAt          int64
	roundTrips       int64
	trivial          int64
	forms            map[byte]int64 // accepted, by form
	repoEvals        int64
	repoJudged       int64
	repoAccepted     int64
	formsChecked     int64
	keys             map[uint64]bool // structural key -> non-trivial
	viols            []viol
	violN            map[string]int // violating cases per key
	stored           map[string]int // witnesses kept per key
	samples          map[string]string
}

func newStats() *stats {
	return &stats{forms: map[byte]int64{}, keys: map[uint64]bool{}, violN: map[string]int{}, stored: map[string]int{}, samples: map[string]string{}}
}

func (st *stats) violate(key, what string, witness any) {
	st.violN[key]++
	if st.stored[key] < 3 {
		st.stored[key]++
		st.viols = append(st.viols, viol{key, what, witness})
	}
}

func (st *stats) sample(class, s string) {
	if _, ok := st.samples[class]; !ok {
		st.samples[class] = s
	}
}

func (st *stats) merge(o *stats) {
	st.evals += o.evals
	st.judged += o.judged
	st.unjudged += o.unjudged
	st.libAccept += o.libAccept
	st.libReject += o.libReject
	st.modelAccept += o.modelAccept
	st.modelReject += o.modelReject
	st.unjudgedAccepted += o.unjudgedAccepted
	st.nearMiss += o.nearMiss
	st.lenient += o.lenient
	st.multiAt += o.multiAt
	st.roundTrips += o.roundTrips
	st.trivial += o.trivial
	st.repoEvals += o.repoEvals
	st.repoJudged += o.repoJudged
	st.repoAccepted += o.repoAccepted
	for k, v := range o.forms {
		st.forms[k] += v
	}
	for k, v := range o.keys {
		st.keys[k] = st.keys[k] || v
	}
	for _, v := range o.viols {
		if st.stored[v.Key] < 3 {
			st.stored[v.Key]++
			st.viols = append(st.viols, v)
		}
	}
	for k, n := range o.violN {
		st.violN[k] += n
	}
	for k, v := range o.samples {
		st.sample(k, v)
	}
}

// ---------------------------------------------------------------------------
// the ParseReference oracle

func show(s string) string {
	if len(s) > 300 {
		return fmt.Sprintf("%q…(%d bytes)", s[:300], len(s))
	}
	return fmt.Sprintf("%q", s)
}

// evalParse runs registry.ParseReference on s and judges it against the recogniser.
func evalParse(st *stats, s string) {
	defer func() {
		if p := recover(); p != nil {
			st.violate("parse:panic", fmt.Sprintf("ParseReference(%s) panicked: %v", show(s), p), map[string]any{"input": s})
		}
	}()
	m := recognise(s)
	got, err := registry.ParseReference(s)
	acc := err == nil
	st.evals++
	if acc {
		st.libAccept++
	} else {
		st.libReject++
	}
	if m.Lenient {
		st.lenient++
	}
	if m.MultiAt {
		st.multiAt++
	}
	switch m.V {
	case vAccept:
		st.judged++
		st.modelAccept++
		if !acc {
			st.violate("parse:reject-valid:form-"+string(m.Form),
				fmt.Sprintf("ParseReference(%s) = error %v, but the string is registry %q / repository %q reference %q, all valid (form %c)", show(s), err, m.P.Registry, m.P.Repository, m.P.Reference, m.Form),
				map[string]any{"input": s, "form": string(m.Form), "error": fmt.Sprint(err)})
		}
	case vReject:
		st.judged++
		st.modelReject++
		if acc {
			why := "no-slash"
			switch {
			case m.Form == '-':
			case m.Reg == regInvalid:
				why = "registry"
			case m.BadRepo:
				why = "repository"
			case m.BadRef && (m.Form == 'C'):
				why = "tag"
			case m.BadRef:
				why = "digest"
			}
			st.violate("parse:accept-invalid:"+why,
				fmt.Sprintf("ParseReference(%s) accepted %+v, but the %s part is invalid under the documented grammar", show(s), got, why),
				map[string]any{"input": s, "form": string(m.Form), "returned": got})
		}
	default:
		st.unjudged++
		if acc {
			st.unjudgedAccepted++
		}
	}
	if acc {
		st.forms[m.Form]++
		p := parts{got.Registry, got.Repository, got.Reference}
		if p != m.P && (m.Alt == nil || p != *m.Alt) {
			st.violate("parse:parts:form-"+string(m.Form),
				fmt.Sprintf("ParseReference(%s) returned %+v, the grammar gives %+v", show(s), got, m.P),
				map[string]any{"input": s, "returned": got, "expected": m.P})
		}
		str := got.String()
		back, err2 := registry.ParseReference(str)
		st.roundTrips++
		if err2 != nil || back != got {
			st.violate("parse:round-trip:form-"+string(m.Form),
				fmt.Sprintf("ParseReference(%s) = %+v formats as %s which parses to %+v (err %v)", show(s), got, show(str), back, err2),
				map[string]any{"input": s, "returned": got, "formatted": str, "reparsed": back, "error": fmt.Sprint(err2)})
		}
	}

	// structural key and non-triviality
	if m.Form == '-' {
		st.trivial++
		return
	}
	bad := 0
	if m.Reg == regInvalid {
		bad++
	}
	if m.BadRepo {
		bad++
	}
	if m.BadRef {
		bad++
	}
	nt := m.V != vUnjudged && (m.V == vAccept || bad == 1)
	if m.V == vReject && bad == 1 {
		st.nearMiss++
	}
	if !nt {
		st.trivial++ // only non-trivial shapes are kept (memory)
	} else {
		h := fnv.New64a()
		h.Write([]byte{byte(m.V), m.Form, byte(m.Reg), '|'})
		h.Write([]byte(shape(m.P.Registry, 2)))
		h.Write([]byte{'|'})
		h.Write([]byte(shape(m.P.Repository, 3)))
		h.Write([]byte{'|'})
		h.Write([]byte(shape(m.P.Reference, 3)))
		st.keys[h.Sum64()] = true
	}
	switch {
	case m.V == vAccept:
		st.sample("accepted-form-"+string(m.Form), s)
	case m.V == vReject && bad == 1 && m.Reg != regInvalid && m.BadRef:
		st.sample("near-miss-reference", s)
	case m.V == vReject && bad == 1 && m.BadRepo:
		st.sample("near-miss-repository", s)
	case m.V == vReject && bad == 1:
		st.sample("near-miss-registry", s)
	case m.V == vUnjudged:
		st.sample("unjudged", s)
	}
}

// ---------------------------------------------------------------------------
// the Repository.ParseReference oracle

// repoRecognise: what the statement demands of base.ParseReference(s).
// refs lists the admissible Reference values of an accepted result (nil: any
// valid tag or digest).
func repoRecognise(base parts, s string) (verdict, []string) {
	fq := recognise(s)
	switch fq.V {
	case vAccept:
		if fq.P.Registry == base.Registry && fq.P.Repository == base.Repository {
			if fq.P.Reference == "" {
				return vUnjudged, nil // a fully qualified name without reference: statement silent
			}
			return vAccept, []string{fq.P.Reference}
		}
		return vReject, nil // other registry or repository
	case vUnjudged:
		// either reading may apply: fully qualified (if net/url admits the
		// registry and it is the base) or short
		_, refs := shortReading(s)
		if fq.P.Registry == base.Registry && fq.P.Repository == base.Repository {
			refs = append(refs, fq.P.Reference)
			if fq.Alt != nil {
				refs = append(refs, fq.Alt.Reference)
			}
		}
		if refs == nil {
			refs = []string{}
		}
		return vUnjudged, refs
	}
	return shortReading(s)
}

// shortReading: s as tag, digest or tag@digest (not a fully qualified reference).
func shortReading(s string) (verdict, []string) {
	if at := indexByte(s, '@'); at >= 0 {
		tag, d := s[:at], s[at+1:]
		if validDigest(d) {
			if validTag(tag) || indexByte(tag, '/') < 0 {
				// the dropped tag is documented as not validated
				return vAccept, []string{d}
			}
			return vUnjudged, []string{d}
		}
		if last := lastIndexByte(s, '@'); last != at && validDigest(s[last+1:]) {
			return vUnjudged, []string{s[last+1:]}
		}
		return vReject, nil
	}
	if validDigest(s) || validTag(s) {
		return vAccept, []string{s}
	}
	return vReject, nil
}

func indexByte(s string, c byte) int {
	for i := 0; i < len(s); i++ {
		if s[i] == c {
			return i
		}
	}
	return -1
}

func lastIndexByte(s string, c byte) int {
	for i := len(s) - 1; i >= 0; i-- {
		if s[i] == c {
			return i
		}
	}
	return -1
}

// evalRepo runs repo.ParseReference(s) and judges it.
func evalRepo(st *stats, repo *remote.Repository, s string) {
	defer func() {
		if p := recover(); p != nil {
			st.violate("repo:panic", fmt.Sprintf("Repository(%s).ParseReference(%s) panicked: %v", repo.Reference, show(s), p), map[string]any{"base": repo.Reference.String(), "input": s})
		}
	}()
	base := parts{repo.Reference.Registry, repo.Reference.Repository, ""}
	v, refs := repoRecognise(base, s)
	got, err := repo.ParseReference(s)
	acc := err == nil
	st.repoEvals++
	w := map[string]any{"base": repo.Reference.String(), "input": s}
	switch v {
	case vAccept:
		st.repoJudged++
		if !acc {
			st.violate("repo:reject-valid", fmt.Sprintf("Repository(%s).ParseReference(%s) = error %v, expected reference %q", repo.Reference, show(s), err, refs[0]), w)
		}
	case vReject:
		st.repoJudged++
		if acc {
			fq := recognise(s)
			key := "repo:accept-invalid"
			if fq.V == vAccept {
				key = "repo:accept-foreign"
			}
			st.violate(key, fmt.Sprintf("Repository(%s).ParseReference(%s) accepted %+v", repo.Reference, show(s), got), w)
		}
	}
	if acc {
		st.repoAccepted++
		w["returned"] = got
		if got.Registry != base.Registry || got.Repository != base.Repository {
			st.violate("repo:left-base", fmt.Sprintf("Repository(%s).ParseReference(%s) returned %+v outside its base", repo.Reference, show(s), got), w)
		}
		if !validTag(got.Reference) && !validDigest(got.Reference) {
			st.violate("repo:bad-reference", fmt.Sprintf("Repository(%s).ParseReference(%s) returned reference %q which is neither a tag nor a digest", repo.Reference, show(s), got.Reference), w)
		} else if refs != nil {
			ok := false
			for _, x := range refs {
				ok = ok || x == got.Reference
			}
			if !ok {
				st.violate("repo:wrong-reference", fmt.Sprintf("Repository(%s).ParseReference(%s) returned reference %q, admissible: %q", repo.Reference, show(s), got.Reference, refs), w)
			}
		}
	}
}

// ---------------------------------------------------------------------------
// bounded-exhaustive enumeration

const hex64 = "9f86d081884c7d659a2feaa0c55ad015a3bf4f1b2b0b822cd15d6c15b0f00a08"

var tokens = []string{
	"a", "A", "0", ".", "-", "_", "__", ":", "/", "@", "localhost", ":5000", "[::1]",
	"sha256:" + hex64,
	"sha256:" + hex64[:63],
	"sha512:" + hex64 + hex64,
	"md5:" + hex64[:32],
	"%",
}

var chars = []string{"a", "A", "0", ".", "-", "_", ":", "/", "@", "?", "#", " ", "[", "]"}

// enumBase is the Repository base against which enumerated strings are also
// resolved; it is spelled with vocabulary tokens so that enumerated fully
// qualified references can match it.
const enumBase = "localhost:5000/a"

// enumerate visits every sequence over vocab of length ≤ depth, in parallel
// (one job per 2-symbol prefix). withRepo additionally resolves sequences of
// length ≤ repoDepth through a Repository.
func enumerate(vocab []string, depth, repoDepth int, total *stats) {
	type job struct{ a, b int }
	jobs := make(chan job, len(vocab)*len(vocab)+1)
	jobs <- job{-1, -1} // lengths 0 and 1
	if depth >= 2 {
		for a := range vocab {
			for b := range vocab {
				jobs <- job{a, b}
			}
		}
	}
	close(jobs)
	var wg sync.WaitGroup
	var mu sync.Mutex
	for g := 0; g < parallelism(); g++ {
		wg.Add(1)
		go func() {
			defer wg.Done()
			st := newStats()
			repo, err := remote.NewRepository(enumBase)
			if err != nil {
				st.violate("harness:enum-base", err.Error(), nil)
				repo = nil
			}
			var buf []byte
			var rec func(n int)
			rec = func(n int) {
				s := string(buf)
				evalParse(st, s)
				if repo != nil && n <= repoDepth {
					evalRepo(st, repo, s)
				}
				if n == depth {
					return
				}
				l := len(buf)
				for _, t := range vocab {
					buf = append(buf[:l], t...)
					rec(n + 1)
				}
				buf = buf[:l]
			}
			for j := range jobs {
				if j.a < 0 {
					buf = buf[:0]
					evalParse(st, "")
					if repo != nil {
						evalRepo(st, repo, "")
					}
					for _, t := range vocab {
						evalParse(st, t)
						if repo != nil {
							evalRepo(st, repo, t)
						}
					}
					continue
				}
				buf = append(buf[:0], vocab[j.a]...)
				buf = append(buf, vocab[j.b]...)
				rec(2)
			}
			mu.Lock()
			total.merge(st)
			mu.Unlock()
		}()
	}
	wg.Wait()
}

func parallelism() int {
	n := runtime.NumCPU()
	if n > 16 {
		n = 16
	}
	if n < 1 {
		n = 1
	}
	return n
}

// ---------------------------------------------------------------------------

func report(r *evidence.Run, phase string, st *stats) {
	r.Eval(int(st.evals + st.repoEvals))
	r.Add(phase+"_strings", st.evals)
	r.Add("strings_judged", st.judged)
	r.Add("strings_unjudged", st.unjudged)
	r.Add("unjudged_but_accepted_by_library", st.unjudgedAccepted)
	r.Add("accepted_by_library", st.libAccept)
	r.Add("rejected_by_library", st.libReject)
	r.Add("recogniser_accepts", st.modelAccept)
	r.Add("recogniser_rejects", st.modelReject)
	r.Add("near_miss_rejections", st.nearMiss)
	r.Add("trailing_colon_or_at", st.lenient)
	r.Add("multi_at_paths", st.multiAt)
	r.Add("round_trips_checked", st.roundTrips)
	r.Add("trivial_strings", st.trivial)
	r.Add("repository_parse_evaluations", st.repoEvals)
	r.Add("repository_parse_judged", st.repoJudged)
	r.Add("repository_parse_accepted", st.repoAccepted)
	for f, n := range st.forms {
		r.Add("accepted_form_"+string(f), n)
	}
	for k, nt := range st.keys {
		r.Distinct(fmt.Sprintf("parse/%016x", k), nt)
	}
	sort.SliceStable(st.viols, func(i, j int) bool { return st.viols[i].Key < st.viols[j].Key })
	for _, v := range st.viols {
		r.Violation(v.Key, v.What, map[string]any{"phase": phase, "detail": v.Witness})
	}
	for k, n := range st.violN {
		r.Add("violating_cases_"+k, int64(n))
	}
	if len(st.samples) > 0 && phase != "digest_grid" {
		smp := map[string]any{"phase": phase}
		for k, v := range st.samples {
			smp[k] = v
		}
		r.Sample(smp)
	}
}

func main() {
	if worker.IsWorker() {
		worker.Serve(runCase)
		return
	}
	r := evidence.New("C20", "exploration")
	r.Rule("strings = (1) every sequence of ≤ L tokens over an 18-token vocabulary {a A 0 . - _ __ : / @ localhost :5000 [::1] sha256:<64hex> sha256:<63hex> sha512:<128hex> md5:<32hex> %} (L = 6 quick, 7 thorough), " +
		"(2) every string of ≤ K characters over {a A 0 . - _ : / @ ? # space [ ]} (K = 5 quick, 6 thorough), (3) a grid algorithm × hex length × hex alphabet × form of digest references, " +
		"(4) seeded random references with boundary-length components and 0–3 character mutations, (5) seeded Repository bases × reference forms through Repository.ParseReference, " +
		"(6) the same through Resolve / FetchReference / Tag / PushReference / blob and descriptor operations on a recording RoundTripper. " +
		"Every string is parsed by the library and by an independent recogniser; accepted results are compared part by part and formatted and re-parsed. " +
		"distinct = hash(verdict, form, registry class, run-collapsed character-class shapes of registry, repository and reference (first 2, 3 and 3 classes)) for strings, " +
		"hash(operation set, reference form, scheme, registry class, repository segments, reference shape) for URL cases; " +
		"non-trivial = string with a '/' that is judged and either accepted or rejected with exactly one invalid component (near miss), only these shapes are kept; URL case non-trivial = at least one request was issued for an accepted reference")
	r.Assume("acceptance is not judged for strings ending in a bare ':' or '@' whose lenient reading is acceptable, for paths with several '@' whose last one starts a digest, and for registries outside {DNS labels, IPv4, bracketed IPv6} with optional port 0–65535 that are not surely invalid (net/url decides those); parts and round trip are still checked whenever the library accepts")
	r.Assume("digest algorithms registered in this binary: sha256, sha384, sha512 (crypto/sha256 and crypto/sha512 linked)")
	r.Assume("the recording RoundTripper answers with canned responses; no socket is opened")
	r.Assume("request host = the reference's registry, except the documented Reference.Host() alias docker.io → registry-1.docker.io; the path always carries the reference's repository unchanged")

	thorough := r.Thorough()
	tokDepth, chDepth := 6, 5
	repoTok, repoCh := 5, 5
	if thorough {
		tokDepth, chDepth = 7, 6
		repoTok, repoCh = 6, 6
	}

	phaseWall := map[string]float64{}
	t0 := time.Now()
	lap := func(name string) { phaseWall[name] = time.Since(t0).Seconds(); t0 = time.Now() }
	st := newStats()
	enumerate(tokens, tokDepth, repoTok, st)
	report(r, "token_enumeration", st)
	lap("token_enumeration")
	r.Set("token_vocabulary", len(tokens))
	r.Set("token_depth", tokDepth)

	st = newStats()
	enumerate(chars, chDepth, repoCh, st)
	report(r, "char_enumeration", st)
	lap("char_enumeration")
	r.Set("char_alphabet", len(chars))
	r.Set("char_depth", chDepth)
	r.Exhaustive(true)
	r.Set("exhaustive_spaces", []string{fmt.Sprintf("token sequences ≤ %d", tokDepth), fmt.Sprintf("character strings ≤ %d", chDepth), "digest grid"})

	st = newStats()
	digestGrid(st)
	report(r, "digest_grid", st)

	st = newStats()
	randomPhase(r.Seed, r.N(1_000_000, 10_000_000), st)
	report(r, "random", st)
	lap("digest_grid+random")

	worker.Run(r, worker.Opts{Phase: "repo", Total: r.N(2000, 40000), Batch: 250})
	lap("repo")
	worker.Run(r, worker.Opts{Phase: "url", Total: r.N(1500, 30000), Batch: 150})
	lap("url")
	r.Set("phase_wall_s", phaseWall)
	if r.Counter("url_requests_judged") == 0 {
		r.Inconclusive("the recording transport saw no request")
	}
	r.Finish(r.N(3000, 5000))
}
