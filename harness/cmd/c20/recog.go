package main

// Independent recogniser for the reference grammar of property C20. It is
// written from the documented rules only (ParseReference doc comment, the
// distribution-spec grammars for repository names and tags, go-digest's
// registered algorithms) and shares no code with the library: no regular
// expressions, no net/url.

import (
	"net/netip"
	"strings"
)

type verdict uint8

const (
	vReject   verdict = iota // every reading of the statement rejects
	vAccept                  // every reading accepts
	vUnjudged                // the statement leaves acceptance open
)

func (v verdict) String() string { return [...]string{"reject", "accept", "unjudged"}[v] }

type regClass uint8

const (
	regValid   regClass = iota // DNS name / IPv4 / bracketed IPv6, optional numeric port
	regInvalid                 // empty, user-info, whitespace / control, query or fragment characters
	regUnknown                 // only net/url can say
)

func (c regClass) String() string { return [...]string{"valid", "invalid", "unknown"}[c] }

// parts is a parsed reference as the statement describes it.
type parts struct{ Registry, Repository, Reference string }

// recognition is the recogniser's opinion on one string.
type recognition struct {
	V    verdict
	Form byte   // 'A' @digest, 'B' :tag@digest, 'C' :tag, 'D' none, '-' no slash
	P    parts  // parts under the documented (first '@', first ':') reading
	Alt  *parts // parts under the other admissible reading (lenient trailing ':' / '@', last '@'), if any
	Reg  regClass
	// which components are invalid under the primary reading (near-miss accounting)
	BadRepo, BadRef bool
	Lenient         bool // trailing bare ':' or '@'
	MultiAt         bool // more than one '@' in the path
}

func isLower(c byte) bool { return c >= 'a' && c <= 'z' }
func isUpper(c byte) bool { return c >= 'A' && c <= 'Z' }
func isDigit(c byte) bool { return c >= '0' && c <= '9' }
func isWord(c byte) bool  { return isLower(c) || isUpper(c) || isDigit(c) || c == '_' }

// validRepository: path-component ("/" path-component)*, component =
// alnum+ (separator alnum+)*, alnum = [a-z0-9], separator = "." | "_" | "__" | "-"+.
func validRepository(s string) bool {
	if s == "" {
		return false
	}
	for len(s) > 0 {
		comp := s
		if i := strings.IndexByte(s, '/'); i >= 0 {
			comp, s = s[:i], s[i+1:]
			if s == "" {
				return false // trailing slash: empty last component
			}
		} else {
			s = ""
		}
		if !validRepoComponent(comp) {
			return false
		}
	}
	return true
}

func validRepoComponent(c string) bool {
	n := len(c)
	if n == 0 {
		return false
	}
	alnum := func(b byte) bool { return isLower(b) || isDigit(b) }
	if !alnum(c[0]) || !alnum(c[n-1]) {
		return false
	}
	i := 0
	for i < n {
		if alnum(c[i]) {
			i++
			continue
		}
		// a separator run between two alnum runs
		j := i
		for j < n && !alnum(c[j]) {
			j++
		}
		sep := c[i:j]
		switch {
		case sep == "." || sep == "_" || sep == "__":
		case strings.Trim(sep, "-") == "": // one or more dashes
		default:
			return false
		}
		i = j
	}
	return true
}

// validTag: [A-Za-z0-9_][A-Za-z0-9_.-]{0,127}
func validTag(s string) bool {
	if len(s) == 0 || len(s) > 128 || !isWord(s[0]) {
		return false
	}
	for i := 1; i < len(s); i++ {
		if c := s[i]; !isWord(c) && c != '.' && c != '-' {
			return false
		}
	}
	return true
}

// registered digest algorithms and the length of their lower-case hex encoding
var digestAlgs = map[string]int{"sha256": 64, "sha384": 96, "sha512": 128}

func validDigest(s string) bool {
	i := strings.IndexByte(s, ':')
	if i < 0 {
		return false
	}
	n, ok := digestAlgs[s[:i]]
	if !ok || len(s)-i-1 != n {
		return false
	}
	for _, c := range []byte(s[i+1:]) {
		if !isDigit(c) && !(c >= 'a' && c <= 'f') {
			return false
		}
	}
	return true
}

// classifyRegistry sorts an authority candidate into surely valid, surely
// invalid, or "only net/url can say".
func classifyRegistry(s string) regClass {
	if s == "" {
		return regInvalid
	}
	for i := 0; i < len(s); i++ {
		switch c := s[i]; {
		case c <= ' ' || c == 0x7f: // whitespace and control characters
			return regInvalid
		case c == '@': // user-info
			return regInvalid
		case c == '?' || c == '#' || c == '/' || c == '\\': // query, fragment, path
			return regInvalid
		}
	}
	host, port := s, ""
	if s[0] == '[' {
		j := strings.IndexByte(s, ']')
		if j < 0 {
			return regUnknown
		}
		addr, err := netip.ParseAddr(s[1:j])
		if err != nil || !addr.Is6() || addr.Zone() != "" {
			return regUnknown
		}
		rest := s[j+1:]
		if rest == "" {
			return regValid
		}
		if rest[0] != ':' {
			return regUnknown
		}
		port = rest[1:]
		if validPort(port) {
			return regValid
		}
		return regUnknown
	}
	hasPort := false
	if j := strings.IndexByte(s, ':'); j >= 0 {
		host, port, hasPort = s[:j], s[j+1:], true
	}
	if hasPort && !validPort(port) {
		return regUnknown
	}
	// host: dot-separated labels of letters, digits and inner hyphens
	for _, label := range strings.Split(host, ".") {
		n := len(label)
		if n == 0 || n > 63 || label[0] == '-' || label[n-1] == '-' {
			return regUnknown
		}
		for i := 0; i < n; i++ {
			if c := label[i]; !isLower(c) && !isUpper(c) && !isDigit(c) && c != '-' {
				return regUnknown
			}
		}
	}
	if len(host) > 253 {
		return regUnknown
	}
	return regValid
}

func validPort(p string) bool {
	if len(p) == 0 || len(p) > 5 {
		return false
	}
	v := 0
	for i := 0; i < len(p); i++ {
		if !isDigit(p[i]) {
			return false
		}
		v = v*10 + int(p[i]-'0')
	}
	return v <= 65535
}

// recognise applies the grammar
//
//	registry "/" repository [ ":" tag | "@" digest | ":" tag "@" digest ]
//
// The registry cannot contain '/', the repository neither ':' nor '@', so the
// decomposition is forced: registry = text before the first '/', the digest
// starts after the first '@', the repository ends at the first ':' (or '@').
// In the tag@digest form the dropped tag is documented as not validated.
// Two shapes have a second admissible reading, and acceptance is judged only
// when both readings agree: a string ending in a bare ':' or '@' (strictly an
// empty / malformed tag or digest, leniently "no reference"), and a path with
// several '@' whose text after the last '@' is a digest (the dropped tag would
// contain '@').
func recognise(s string) recognition {
	r := recogniseStrict(s)
	if n := len(s); n > 0 && (s[n-1] == ':' || s[n-1] == '@') {
		// "not judged for acceptance" — except that every reading validates the
		// registry and the repository (the text up to the first ':' or '@')
		r.Lenient = true
		if r.Form != '-' && r.Reg != regInvalid && !r.BadRepo {
			r.V = vUnjudged
		}
	}
	return r
}

func recogniseStrict(s string) recognition {
	var r recognition
	slash := strings.IndexByte(s, '/')
	if slash < 0 {
		r.Form = '-'
		r.V = vReject
		r.Reg = regInvalid
		return r
	}
	reg, path := s[:slash], s[slash+1:]
	r.Reg = classifyRegistry(reg)
	r.P.Registry = reg

	var refOK bool
	altOK := false // the second reading yields valid repository + reference
	at := strings.IndexByte(path, '@')
	if at >= 0 {
		left := path[:at]
		ref := path[at+1:]
		r.Form = 'A'
		repo := left
		if c := strings.IndexByte(left, ':'); c >= 0 {
			repo = left[:c]
			r.Form = 'B'
		}
		r.P.Repository = repo
		r.P.Reference = ref
		refOK = validDigest(ref)
		if last := strings.LastIndexByte(path, '@'); last != at {
			r.MultiAt = true
			if d := path[last+1:]; validDigest(d) && r.Form == 'B' {
				// only ":tag@...@digest" can hide an '@' inside the dropped tag
				r.Alt = &parts{reg, repo, d}
				altOK = validRepository(repo)
			}
		}
	} else if c := strings.IndexByte(path, ':'); c >= 0 {
		r.Form = 'C'
		r.P.Repository = path[:c]
		r.P.Reference = path[c+1:]
		refOK = validTag(r.P.Reference)
	} else {
		r.Form = 'D'
		r.P.Repository = path
		refOK = true
	}
	repoOK := validRepository(r.P.Repository)
	r.BadRepo, r.BadRef = !repoOK, !refOK

	primary := repoOK && refOK // modulo the registry
	switch {
	case r.Reg == regInvalid:
		r.V = vReject
	case !primary && !altOK:
		r.V = vReject
	case primary && r.Reg == regValid:
		r.V = vAccept
	default:
		// readings disagree, or the registry is for net/url to adjudicate
		r.V = vUnjudged
	}
	return r
}

// format is the documented textual form of a parsed reference.
func (p parts) format() string {
	if p.Repository == "" {
		return p.Registry
	}
	s := p.Registry + "/" + p.Repository
	switch {
	case p.Reference == "":
		return s
	case validDigest(p.Reference):
		return s + "@" + p.Reference
	default:
		return s + ":" + p.Reference
	}
}

// shape abstracts a string to its run-collapsed character classes
// (a lower-case letter or digit, A upper, H long hex run, ^ control / non-ASCII;
// the grammar's punctuation . - _ : / @ [ ] % literal, ? other punctuation),
// truncated after max classes.
func shape(s string, max int) string {
	var b []byte
	i := 0
	for i < len(s) && len(b) < max {
		c := s[i]
		// long lower-case hex run
		if isDigit(c) || (c >= 'a' && c <= 'f') {
			j := i
			for j < len(s) && (isDigit(s[j]) || (s[j] >= 'a' && s[j] <= 'f')) {
				j++
			}
			if j-i >= 32 {
				b = append(b, 'H')
				switch j - i {
				case 64:
					b = append(b, '6')
				case 96:
					b = append(b, '9')
				case 128:
					b = append(b, '1')
				default:
					b = append(b, 'x')
				}
				i = j
				continue
			}
		}
		var k byte
		switch {
		case isLower(c):
			k = 'a'
		case isUpper(c):
			k = 'A'
		case isDigit(c):
			k = 'a'
		case c < 0x20 || c >= 0x7f:
			k = '^'
		case strings.IndexByte(".-_:/@[]%", c) >= 0:
			k = c
		default:
			k = '?' // punctuation foreign to the grammar
		}
		if k == 'a' || k == 'A' || k == '?' || k == '^' {
			if n := len(b); n > 0 && b[n-1] == k {
				i++
				continue
			}
		}
		b = append(b, k)
		i++
	}
	if i < len(s) {
		b = append(b, '~')
	}
	return string(b)
}
