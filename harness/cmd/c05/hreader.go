package main

import (
	"errors"
	"io"
	"math/rand/v2"
	"runtime"
)

// errInjected is the error a hostile reader reports at its fault offset.
var errInjected = errors.New("verif: injected read error")

// rho describes a reader behaviour (the ρ of the case).
type rho struct {
	Chunk       string `json:"chunk"`         // one | c1 | c7 | c4096 | c1Mi+1 | random | bytes.Reader
	ZeroReads   bool   `json:"zero_reads"`    // finitely many (0,nil) reads interleaved
	EOFWithLast bool   `json:"eof_with_last"` // (n>0, io.EOF) on the last chunk
	ErrAt       int    `json:"err_at"`        // -1: none; else the reader fails after delivering ErrAt bytes
	ErrWithData bool   `json:"err_with_data"` // the error accompanies the chunk that ends at ErrAt
	ErrOnce     bool   `json:"err_once"`      // the error is reported once; later reads report io.EOF (else it is sticky)
	Yield       bool   `json:"-"`             // call runtime.Gosched between chunks (concurrent phase)
}

// hreader is a hostile io.Reader over a fixed stream. It implements nothing
// but Read, so that no fast path (WriterTo, ReaderAt, Len) hides its behaviour.
type hreader struct {
	s         []byte
	pos       int
	limit     int // bytes delivered before EOF / injected error
	r         rho
	rng       *rand.Rand
	zeroLeft  int // budget of (0,nil) reads (finitely many)
	zeroRun   int
	done      error // sticky terminal state
	calls     int
	delivered int
}

func newHReader(s []byte, r rho, rng *rand.Rand) *hreader {
	h := &hreader{s: s, r: r, rng: rng, limit: len(s)}
	if r.ErrAt >= 0 && r.ErrAt <= len(s) {
		h.limit = r.ErrAt
	}
	if r.ZeroReads {
		h.zeroLeft = 2 + rng.IntN(40)
	}
	return h
}

func (h *hreader) terminal() error {
	if h.r.ErrAt >= 0 {
		return errInjected
	}
	return io.EOF
}

func (h *hreader) chunk(max int) int {
	n := max
	switch h.r.Chunk {
	case "c1":
		n = 1
	case "c7":
		n = 7
	case "c4096":
		n = 4096
	case "c1Mi+1":
		n = 1<<20 + 1
	case "random":
		switch h.rng.IntN(4) {
		case 0:
			n = 1 + h.rng.IntN(3)
		case 1:
			n = 1 + h.rng.IntN(64)
		case 2:
			n = 1 + h.rng.IntN(5000)
		default:
			n = 1 + h.rng.IntN(1<<20+7)
		}
	}
	if n > max {
		n = max
	}
	return n
}

func (h *hreader) Read(p []byte) (int, error) {
	h.calls++
	if h.done != nil {
		return 0, h.done
	}
	if len(p) == 0 {
		return 0, nil
	}
	if h.r.Yield && h.rng.IntN(3) == 0 {
		runtime.Gosched()
	}
	if h.zeroLeft > 0 && h.zeroRun < 3 && h.rng.IntN(3) == 0 {
		h.zeroLeft--
		h.zeroRun++
		return 0, nil
	}
	h.zeroRun = 0
	if h.pos >= h.limit {
		h.done = h.terminal()
		if h.r.ErrAt >= 0 && h.r.ErrOnce {
			h.done = io.EOF
			return 0, errInjected
		}
		return 0, h.done
	}
	max := h.limit - h.pos
	if len(p) < max {
		max = len(p)
	}
	n := h.chunk(max)
	copy(p, h.s[h.pos:h.pos+n])
	h.pos += n
	h.delivered += n
	if h.pos == h.limit {
		if h.r.ErrAt >= 0 && h.r.ErrWithData {
			h.done = errInjected
			if h.r.ErrOnce {
				h.done = io.EOF
			}
			return n, errInjected
		}
		if h.r.ErrAt < 0 && h.r.EOFWithLast {
			h.done = io.EOF
			return n, h.done
		}
	}
	return n, nil
}

// closer adds a Close method that counts.
type hreadCloser struct {
	io.Reader
	closed *int
}

func (c hreadCloser) Close() error {
	*c.closed++
	return nil
}
