package main

import (
	"bytes"
	"crypto/md5"
	"crypto/sha1"
	"crypto/sha256"
	"crypto/sha512"
	"encoding/hex"
	"encoding/json"
	"fmt"
	"io"
	"math"
	"math/rand/v2"
	"strings"

	"github.com/opencontainers/go-digest"
	ocispec "github.com/opencontainers/image-spec/specs-go/v1"
)

// kase is one (byte string, descriptor, reader behaviour, store kind) case.
type kase struct {
	Store  string // store kind / API under observation
	DClass string // descriptor class relative to the base content
	RClass string // primary reader-behaviour class
	Base   []byte // base content b
	Stream []byte // what the reader would deliver if read to its end without fault
	Digest string // descriptor digest string
	Size   int64  // descriptor size
	Media  string
	Valid  bool   // digest well-formed and of a supported algorithm (by construction)
	Algo   string // algorithm of a valid digest
	Rho    rho
	Mod    string // stream modification relative to b
	Limit  int64  // push size limit for limit-wrapped kinds (-1: none)
}

var storeKinds = []string{
	"memory", "cas+limit", "proxy-mem", "proxy-limit", "proxy-oci",
	"oci-store", "oci-storage", "file-named", "file-fallback",
	"ReadAll", "FetchAll", "VerifyReader", "CopyBuffer",
}

func hexOf(algo string, b []byte) string {
	switch algo {
	case "sha256":
		h := sha256.Sum256(b)
		return hex.EncodeToString(h[:])
	case "sha384":
		h := sha512.Sum384(b)
		return hex.EncodeToString(h[:])
	case "sha512":
		h := sha512.Sum512(b)
		return hex.EncodeToString(h[:])
	case "md5":
		h := md5.Sum(b)
		return hex.EncodeToString(h[:])
	case "sha1":
		h := sha1.Sum(b)
		return hex.EncodeToString(h[:])
	}
	panic("algo")
}

func dg(algo string, b []byte) string { return algo + ":" + hexOf(algo, b) }

func (k *kase) desc() ocispec.Descriptor {
	return ocispec.Descriptor{MediaType: k.Media, Digest: digest.Digest(k.Digest), Size: k.Size}
}

// truth derives the statement's predicates from the concrete case values only.
type truth struct {
	PrefixOK  bool `json:"prefix_ok"`   // size>=0, digest valid, >= Size bytes delivered without error, first Size bytes hash to Digest
	Exact     bool `json:"exact"`       // prefixOK and then EOF without further bytes or error
	Trailing  bool `json:"trailing"`    // prefixOK and bytes beyond Size are delivered
	ErrAtSize bool `json:"err_at_size"` // prefixOK, no byte beyond Size, but an error instead of EOF
	// ErrWithLast ⊆ ErrAtSize: the error is reported by the very read that delivers the
	// last of the Size bytes, i.e. the reader fails while the content is being read
	ErrWithLast bool `json:"err_with_last_bytes"`
}

func (k *kase) truth() truth {
	var t truth
	limit := len(k.Stream)
	if k.Rho.ErrAt >= 0 && k.Rho.ErrAt <= limit {
		limit = k.Rho.ErrAt
	}
	if k.Size < 0 || !k.Valid || int64(limit) < k.Size {
		return t
	}
	if dg(k.Algo, k.Stream[:k.Size]) != k.Digest {
		return t
	}
	t.PrefixOK = true
	t.Exact = k.Rho.ErrAt < 0 && int64(len(k.Stream)) == k.Size
	t.Trailing = int64(limit) > k.Size
	t.ErrAtSize = k.Rho.ErrAt >= 0 && int64(limit) == k.Size
	t.ErrWithLast = t.ErrAtSize && k.Rho.ErrWithData && k.Size > 0
	return t
}

func randBytes(rng *rand.Rand, n int) []byte {
	b := make([]byte, n)
	i := 0
	for ; i+8 <= n; i += 8 {
		v := rng.Uint64()
		b[i], b[i+1], b[i+2], b[i+3] = byte(v), byte(v>>8), byte(v>>16), byte(v>>24)
		b[i+4], b[i+5], b[i+6], b[i+7] = byte(v>>32), byte(v>>40), byte(v>>48), byte(v>>56)
	}
	for ; i < n; i++ {
		b[i] = byte(rng.Uint32())
	}
	return b
}

func manifestBytes(rng *rand.Rand) []byte {
	cfg := randBytes(rng, 8)
	m := ocispec.Manifest{
		MediaType: ocispec.MediaTypeImageManifest,
		Config:    ocispec.Descriptor{MediaType: "application/vnd.verif.config+json", Digest: digest.Digest(dg("sha256", cfg)), Size: int64(len(cfg))},
		Layers:    []ocispec.Descriptor{},
		Annotations: map[string]string{
			"verif.nonce": hex.EncodeToString(randBytes(rng, 1+rng.IntN(40))),
		},
	}
	m.SchemaVersion = 2
	for i := rng.IntN(3); i > 0; i-- {
		l := randBytes(rng, 9)
		m.Layers = append(m.Layers, ocispec.Descriptor{MediaType: ocispec.MediaTypeImageLayer, Digest: digest.Digest(dg("sha256", l)), Size: int64(len(l))})
	}
	b, _ := json.Marshal(m)
	return b
}

func pick(rng *rand.Rand, weights []int) int {
	t := 0
	for _, w := range weights {
		t += w
	}
	x := rng.IntN(t)
	for i, w := range weights {
		if x < w {
			return i
		}
		x -= w
	}
	return len(weights) - 1
}

func flip(rng *rand.Rand, b []byte) []byte {
	if len(b) == 0 {
		return []byte{byte(rng.Uint32())}
	}
	c := append([]byte{}, b...)
	c[rng.IntN(len(c))] ^= byte(1 << rng.IntN(8))
	return c
}

func malformed(rng *rand.Rand, b []byte) (string, string) {
	h := hexOf("sha256", b)
	switch v := rng.IntN(19); v {
	case 15:
		return pathDigest("sha256", "../../index.json"), "right-length-path-to-index.json"
	case 16:
		return pathDigest("sha256", "../../oci-layout"), "right-length-path-to-oci-layout"
	case 17:
		return pathDigest("sha512", "../../blobs/sha256/"+h), "right-length-path-to-own-sha256-blob"
	case 18:
		return pathDigest("sha512", "../sha256/"+h), "right-length-sibling-path-to-own-sha256-blob"
	case 0:
		return "", "empty"
	case 1:
		return "sha256:", "no-hex"
	case 2:
		return "sha256:" + h[:63], "hex-63"
	case 3:
		return "sha256:" + h + "0", "hex-65"
	case 4:
		return "sha256:" + strings.ToUpper(h[:40]) + h[40:], "upper-hex"
	case 5:
		return h, "no-algorithm"
	case 6:
		return "sha256-" + h, "wrong-separator"
	case 7:
		return "sha256:" + h[:60] + "zzzz", "non-hex"
	case 8:
		return "sha256:../../../../tmp/verif-c05-escape", "traversal-in-hex"
	case 9:
		return "../../x:" + h, "traversal-in-algorithm"
	case 10:
		return " sha256:" + h, "leading-space"
	case 11:
		return "sha256:" + h + "\n", "trailing-newline"
	case 12:
		return "sha512:" + h, "sha512-with-64-hex"
	case 13:
		return "sha256:" + hexOf("sha512", b), "sha256-with-128-hex"
	default:
		return "sha256:" + h[:32] + "/" + h[33:], "slash-in-hex"
	}
}

// pathDigest builds a malformed digest "<algo>:<encoded>" whose encoded part has exactly
// the length of a real digest of that algorithm but is a relative path: "./" padding
// followed by tail (a doubled separator absorbs an odd remainder). Cleaned lexically,
// blobs/<algo>/<encoded> names blobs/<algo>/<tail>.
func pathDigest(algo, tail string) string {
	want := map[string]int{"sha256": 64, "sha384": 96, "sha512": 128}[algo]
	if (want-len(tail))%2 != 0 {
		i := strings.Index(tail, "/")
		tail = tail[:i] + "/" + tail[i:]
	}
	pad := want - len(tail)
	if pad < 0 {
		return algo + ":" + tail
	}
	return algo + ":" + strings.Repeat("./", pad/2) + tail
}

func unsupported(rng *rand.Rand, b []byte) (string, string) {
	h := hexOf("sha256", b)
	switch rng.IntN(7) {
	case 0:
		return dg("md5", b), "md5"
	case 1:
		return dg("sha1", b), "sha1"
	case 2:
		return "blake3:" + h, "blake3"
	case 3:
		return "SHA256:" + h, "SHA256"
	case 4:
		return "sha224:" + h[:56], "sha224"
	case 5:
		return "sha256+b64:" + h, "sha256+b64"
	default:
		return "sha3-256:" + h, "sha3-256"
	}
}

// genCase derives case i of the sequential phase.
func genCase(rng *rand.Rand, i int) *kase {
	k := &kase{Limit: -1, Media: "application/octet-stream"}
	k.Store = storeKinds[i%len(storeKinds)]

	// chunk mode first: a 1 MiB + 1 chunk needs content beyond 1 MiB
	chunkW := []int{18, 9, 11, 14, 4, 28, 8, 8}
	chunkN := []string{"one", "c1", "c7", "c4096", "c1Mi+1", "random", "bytes.Reader", "bytes.Buffer"}
	k.Rho.Chunk = chunkN[pick(rng, chunkW)]
	k.Rho.ErrAt = -1

	// base content
	var b []byte
	manifest := false
	switch {
	case k.Rho.Chunk == "c1Mi+1" && rng.IntN(2) == 0, rng.IntN(100) == 0:
		b = randBytes(rng, 1<<20+1+rng.IntN(5000))
	default:
		switch pick(rng, []int{8, 12, 40, 18, 12, 4}) {
		case 0:
			b = nil
		case 1:
			manifest = true
			b = manifestBytes(rng)
		case 2:
			b = randBytes(rng, 1+rng.IntN(64))
		case 3:
			b = randBytes(rng, 65+rng.IntN(5000))
		case 4:
			edges := []int{4095, 4096, 4097, 8191, 8192, 8193, 32767, 32768, 32769, 511, 512, 513}
			b = randBytes(rng, edges[rng.IntN(len(edges))])
		default:
			b = randBytes(rng, 100000+rng.IntN(200000))
		}
	}
	if manifest {
		k.Media = ocispec.MediaTypeImageManifest
	}
	if len(b) > 50000 && (k.Rho.Chunk == "c1" || k.Rho.Chunk == "c7") {
		k.Rho.Chunk = "c4096"
	}
	k.Base = b
	n := len(b)
	s := b
	forcedStream := false

	dW := []int{12, 12, 8, 6, 8, 4, 5, 4, 11, 10, 6, 6, 4, 4}
	switch pick(rng, dW) {
	case 0:
		k.DClass, k.Digest, k.Size, k.Valid, k.Algo = "exact", dg("sha256", b), int64(n), true, "sha256"
	case 1:
		k.DClass, k.Digest, k.Size, k.Valid, k.Algo = "wrong-digest", dg("sha256", flip(rng, b)), int64(n), true, "sha256"
	case 2:
		if n == 0 {
			k.DClass, k.Digest, k.Size, k.Valid, k.Algo = "long", dg("sha256", b), int64(1+rng.IntN(9)), true, "sha256"
			break
		}
		kk := 1
		if rng.IntN(2) == 0 {
			kk = 1 + rng.IntN(n)
		}
		k.DClass, k.Digest, k.Size, k.Valid, k.Algo = "short", dg("sha256", b), int64(n-kk), true, "sha256"
	case 3:
		if n == 0 {
			k.DClass, k.Digest, k.Size, k.Valid, k.Algo = "exact", dg("sha256", b), 0, true, "sha256"
			break
		}
		kk := 1
		if rng.IntN(2) == 0 {
			kk = 1 + rng.IntN(n)
		}
		k.DClass, k.Digest, k.Size, k.Valid, k.Algo = "short-prefix-digest", dg("sha256", b[:n-kk]), int64(n-kk), true, "sha256"
	case 4:
		kk := 1
		if rng.IntN(2) == 0 {
			kk = 1 + rng.IntN(5000)
		}
		k.DClass, k.Digest, k.Size, k.Valid, k.Algo = "long", dg("sha256", b), int64(n+kk), true, "sha256"
	case 5:
		kk := 1 + rng.IntN(40)
		k.DClass, k.Digest, k.Size, k.Valid, k.Algo = "long-padded-digest", dg("sha256", append(append([]byte{}, b...), randBytes(rng, kk)...)), int64(n+kk), true, "sha256"
	case 6:
		k.DClass, k.Digest, k.Size, k.Valid, k.Algo = "zero", dg("sha256", b), 0, true, "sha256"
	case 7:
		k.DClass, k.Digest, k.Size, k.Valid, k.Algo = "zero-empty-digest", dg("sha256", nil), 0, true, "sha256"
	case 8:
		negs := []int64{-1, -1, -2, -int64(n) - 1, -int64(n), math.MinInt64, -(1 << 31), -(1 << 32)}
		k.Size = negs[rng.IntN(len(negs))]
		if k.Size >= 0 {
			k.Size = -1
		}
		k.DClass, k.Valid, k.Algo = "negative", true, "sha256"
		if rng.IntN(2) == 0 {
			k.Digest = dg("sha256", b)
		} else {
			k.Digest = dg("sha256", nil)
		}
		if rng.IntN(2) == 0 {
			s = nil
		}
		forcedStream = true
	case 9:
		var sub string
		k.Digest, sub = malformed(rng, b)
		k.DClass, k.Size = "malformed", int64(n)
		_ = sub
	case 10:
		var sub string
		k.Digest, sub = unsupported(rng, b)
		k.DClass, k.Size = "unsupported", int64(n)
		_ = sub
	case 11:
		k.DClass, k.Digest, k.Size, k.Valid, k.Algo = "sha512", dg("sha512", b), int64(n), true, "sha512"
	case 12:
		k.DClass, k.Valid, k.Algo = "sha512-bad", true, "sha512"
		switch rng.IntN(3) {
		case 0:
			k.Digest, k.Size = dg("sha512", flip(rng, b)), int64(n)
		case 1:
			k.Digest, k.Size = dg("sha512", b), int64(n+1+rng.IntN(9))
		default:
			k.Digest, k.Size = dg("sha512", b), int64(n)-1
			if k.Size < 0 {
				k.Size = -1
			}
		}
	default:
		k.DClass, k.Valid, k.Algo = "sha384", true, "sha384"
		k.Digest, k.Size = dg("sha384", b), int64(n)
		if rng.IntN(3) == 0 {
			k.DClass = "sha384-bad"
			k.Digest = dg("sha384", flip(rng, b))
		}
	}

	// stream modification
	k.Mod = "none"
	if !forcedStream {
		switch pick(rng, []int{62, 11, 13, 8, 6}) {
		case 1:
			if len(s) > 0 {
				kk := 1
				if rng.IntN(2) == 0 {
					kk = 1 + rng.IntN(len(s))
				}
				s = s[:len(s)-kk]
				k.Mod = "truncated"
			}
		case 2:
			kk := 1
			if rng.IntN(2) == 0 {
				kk = 1 + rng.IntN(3000)
			}
			s = append(append([]byte{}, s...), randBytes(rng, kk)...)
			k.Mod = "extended"
		case 3:
			if len(s) > 0 {
				s = flip(rng, s)
				k.Mod = "corrupt"
			}
		case 4:
			if len(s) > 0 {
				s = nil
				k.Mod = "empty"
			}
		}
	} else if len(s) == 0 && n > 0 {
		k.Mod = "empty"
	}
	k.Stream = s

	// reader behaviour
	if !k.plainSource() {
		k.Rho.ZeroReads = rng.IntN(4) == 0
		k.Rho.EOFWithLast = rng.IntN(4) == 0
		if rng.IntN(4) == 0 {
			N := k.Size
			L := int64(len(s))
			var opts []string
			if N > 0 && L > 0 {
				opts = append(opts, "before")
			}
			if N >= 0 && L >= N {
				opts = append(opts, "at", "at")
			}
			if L > N && L > 0 {
				opts = append(opts, "after")
			}
			if len(opts) > 0 {
				switch opts[rng.IntN(len(opts))] {
				case "before":
					m := N
					if L < m {
						m = L
					}
					k.Rho.ErrAt = int(rng.Int64N(m))
				case "at":
					k.Rho.ErrAt = int(N)
				case "after":
					lo := N + 1
					if lo < 1 {
						lo = 1
					}
					k.Rho.ErrAt = int(lo + rng.Int64N(L-lo+1))
				}
				k.Rho.ErrWithData = rng.IntN(2) == 0
				k.Rho.ErrOnce = rng.IntN(2) == 0
			}
		}
	}

	switch {
	case k.Rho.ErrAt >= 0 && int64(k.Rho.ErrAt) < k.Size:
		k.RClass = "err-before-size"
	case k.Rho.ErrAt >= 0 && int64(k.Rho.ErrAt) == k.Size && k.Rho.ErrWithData && k.Size > 0:
		k.RClass = "err-with-last-bytes"
	case k.Rho.ErrAt >= 0 && int64(k.Rho.ErrAt) == k.Size:
		k.RClass = "err-at-size"
	case k.Rho.ErrAt >= 0:
		k.RClass = "err-after-size"
	case k.Mod == "truncated" || k.Mod == "empty":
		k.RClass = "early-eof"
	case k.Mod == "extended":
		k.RClass = "trailing"
	case k.Mod == "corrupt":
		k.RClass = "corrupt"
	case k.Rho.EOFWithLast:
		k.RClass = "eof-with-last"
	case k.Rho.ZeroReads:
		k.RClass = "zero-reads"
	default:
		k.RClass = k.Rho.Chunk
	}

	// a manifest media type makes stores parse the content after storing it; keep it
	// only where the bytes that could legitimately become visible are the valid manifest
	if manifest {
		if tr := k.truth(); tr.PrefixOK && !bytes.Equal(k.Stream[:k.Size], k.Base) {
			k.Media = "application/octet-stream"
		}
	}

	// push limit for the limit-wrapped kinds
	switch k.Store {
	case "cas+limit", "proxy-limit", "file-fallback":
		k.Limit = 4 << 20
		if rng.IntN(4) == 0 {
			ls := []int64{k.Size, k.Size + 1, k.Size - 1, 0, int64(len(s))}
			k.Limit = ls[rng.IntN(len(ls))]
			if k.Limit < 0 {
				k.Limit = 0
			}
		}
	}
	return k
}

// plainSource: the reader is a standard-library in-memory reader handed over unwrapped.
func (k *kase) plainSource() bool {
	return k.Rho.Chunk == "bytes.Reader" || k.Rho.Chunk == "bytes.Buffer"
}

// source builds the case's reader over a private copy of the stream and returns a
// function that plays the caller reusing its buffers once the library call has
// returned: the backing array is overwritten and a bytes.Buffer is Reset and refilled.
// Oracles keep comparing with k.Stream, which is never handed to the library.
func (k *kase) source(rng *rand.Rand) (io.Reader, func()) {
	src := append(make([]byte, 0, len(k.Stream)+8), k.Stream...)
	scribble := func() {
		for i := range src {
			src[i] = ^src[i]
		}
	}
	switch k.Rho.Chunk {
	case "bytes.Reader":
		return bytes.NewReader(src), scribble
	case "bytes.Buffer":
		b := bytes.NewBuffer(src)
		return b, func() {
			n := len(src)
			b.Reset()
			for i := 0; i < n+8; i++ {
				b.WriteByte(byte(0xA5 ^ i))
			}
			scribble()
		}
	}
	return newHReader(src, k.Rho, rng), scribble
}

func short(b []byte) string {
	if len(b) <= 24 {
		return hex.EncodeToString(b)
	}
	return fmt.Sprintf("%s…(%d bytes, sha256 %s)", hex.EncodeToString(b[:12]), len(b), hexOf("sha256", b)[:16])
}

func (k *kase) witness(extra map[string]any) map[string]any {
	w := map[string]any{
		"store": k.Store, "d_class": k.DClass, "rho_class": k.RClass,
		"descriptor": map[string]any{"mediaType": k.Media, "digest": k.Digest, "size": k.Size},
		"base":       short(k.Base), "base_len": len(k.Base),
		"stream": short(k.Stream), "stream_len": len(k.Stream), "stream_mod": k.Mod,
		"reader": k.Rho, "truth": k.truth(),
	}
	if k.Limit >= 0 {
		w["push_limit"] = k.Limit
	}
	for a, b := range extra {
		w[a] = b
	}
	return w
}
