package main

import (
	"archive/tar"
	"bytes"
	"context"
	"errors"
	"fmt"
	"io"
	"io/fs"
	"math/rand/v2"
	"os"
	"path/filepath"
	"sort"
	"strings"
	"time"

	"github.com/opencontainers/go-digest"
	ocispec "github.com/opencontainers/image-spec/specs-go/v1"
	"oras.land/oras-go/v2/content"
	"oras.land/oras-go/v2/content/file"
	"oras.land/oras-go/v2/content/memory"
	"oras.land/oras-go/v2/content/oci"
	"oras.land/oras-go/v2/errdef"
	"oras.land/oras-go/v2/internal/cas"
	"oras.land/oras-go/v2/internal/ioutil"
	"oras.land/oras-go/v2/verifharness/worker"
)

var ctx = context.Background()

// target is a store under observation together with how to look into it.
type target struct {
	kind     string
	st       content.Storage // receives Push; Exists / Fetch are asked of it
	blobsDir string          // OCI layouts: the blobs directory
	ingest   string          // OCI layouts: the ingest directory
	fileDir  string          // file store working directory
	name     func() string   // file-named: fresh file name
	cleanup  func()
}

func newTarget(kind string, limit int64) (*target, error) {
	t := &target{kind: kind, cleanup: func() {}}
	mk := func() (string, error) { return os.MkdirTemp("", "verif-c05-") }
	switch kind {
	case "memory":
		t.st = memory.New()
	case "cas+limit":
		t.st = content.LimitStorage(cas.NewMemory(), limit)
	case "oci-store", "oci-storage":
		dir, err := mk()
		if err != nil {
			return nil, err
		}
		t.cleanup = func() { os.RemoveAll(dir) }
		t.blobsDir, t.ingest = filepath.Join(dir, "blobs"), filepath.Join(dir, "ingest")
		if kind == "oci-store" {
			s, err := oci.New(dir)
			if err != nil {
				t.cleanup()
				return nil, err
			}
			t.st = s
		} else {
			s, err := oci.NewStorage(dir)
			if err != nil {
				t.cleanup()
				return nil, err
			}
			t.st = s
		}
	case "file-named", "file-fallback":
		dir, err := mk()
		if err != nil {
			return nil, err
		}
		var s *file.Store
		if kind == "file-fallback" && limit >= 0 && limit != 4<<20 {
			s, err = file.NewWithFallbackLimit(dir, limit)
		} else {
			s, err = file.New(dir)
		}
		if err != nil {
			os.RemoveAll(dir)
			return nil, err
		}
		t.cleanup = func() { s.Close(); os.RemoveAll(dir) }
		t.st, t.fileDir = s, dir
		n := 0
		t.name = func() string { n++; return fmt.Sprintf("dir%d/f-%d.bin", n%2, n) }
	default:
		return nil, fmt.Errorf("unknown kind %s", kind)
	}
	return t, nil
}

// listing returns the regular files below dir (relative path -> size).
func listing(dir string) map[string]int64 {
	out := map[string]int64{}
	if dir == "" {
		return out
	}
	_ = filepath.WalkDir(dir, func(p string, d fs.DirEntry, err error) error {
		if err != nil {
			return nil
		}
		if !d.IsDir() {
			rel, _ := filepath.Rel(dir, p)
			var sz int64 = -1
			if fi, err := d.Info(); err == nil {
				sz = fi.Size()
			}
			out[rel] = sz
		}
		return nil
	})
	return out
}

func listingDiff(a, b map[string]int64) []string {
	var d []string
	for p, s := range b {
		if s0, ok := a[p]; !ok {
			d = append(d, fmt.Sprintf("+%s(%d)", p, s))
		} else if s0 != s {
			d = append(d, fmt.Sprintf("~%s(%d->%d)", p, s0, s))
		}
	}
	for p := range a {
		if _, ok := b[p]; !ok {
			d = append(d, "-"+p)
		}
	}
	sort.Strings(d)
	return d
}

// look reports what a store shows for a descriptor.
type view struct {
	Exists    bool   `json:"exists"`
	ExistsErr string `json:"exists_err,omitempty"`
	FetchErr  string `json:"fetch_err,omitempty"`
	Fetched   bool   `json:"fetched"`
	ReadErr   string `json:"read_err,omitempty"`
	Data      []byte `json:"-"`
	DataInfo  string `json:"data,omitempty"`
}

func look(st content.ReadOnlyStorage, d ocispec.Descriptor) view {
	var v view
	ok, err := st.Exists(ctx, d)
	v.Exists = ok
	if err != nil {
		v.ExistsErr = err.Error()
	}
	rc, err := st.Fetch(ctx, d)
	if err != nil {
		v.FetchErr = err.Error()
		return v
	}
	v.Fetched = true
	data, rerr := io.ReadAll(rc)
	rc.Close()
	if rerr != nil {
		v.ReadErr = rerr.Error()
	}
	v.Data = data
	v.DataInfo = short(data)
	return v
}

func (v view) visible() bool { return v.Exists || v.Fetched }

func isAlready(err error) bool {
	return errors.Is(err, errdef.ErrAlreadyExists) || errors.Is(err, file.ErrDuplicateName)
}

func errStr(err error) string {
	if err == nil {
		return "<nil>"
	}
	s := err.Error()
	if len(s) > 300 {
		s = s[:300] + "…"
	}
	return s
}

func plain(d ocispec.Descriptor) ocispec.Descriptor {
	return ocispec.Descriptor{MediaType: d.MediaType, Digest: d.Digest, Size: d.Size}
}

// runSeq runs one sequential case.
func runSeq(seed int64, i int, rng *rand.Rand) worker.Result {
	var res worker.Result
	k := genCase(rng, i)
	tr := k.truth()
	res.Key = k.DClass + "|" + k.RClass + "|" + k.Store
	res.NT = !(tr.Exact && k.DClass == "exact" && k.Mod == "none")
	res.Observe("d_classes", k.DClass)
	res.Observe("rho_classes", k.RClass)
	res.Observe("rho_full", fmt.Sprintf("%s/%v/%v/%s/%s", k.Rho.Chunk, k.Rho.ZeroReads, k.Rho.EOFWithLast, k.RClass, k.Mod))
	res.Observe("stores", k.Store)
	switch {
	case tr.Exact:
		res.Count("truth_exact", 1)
	case !tr.PrefixOK:
		res.Count("truth_not_prefix_ok", 1)
	case tr.Trailing:
		res.Count("truth_trailing", 1)
	default:
		res.Count("truth_err_at_size", 1)
	}
	res.Count("stream_bytes", int64(len(k.Stream)))
	if i%211 == 0 {
		res.Sample = k.witness(nil)
	}

	switch k.Store {
	case "ReadAll", "FetchAll":
		seqReadAll(&res, k, tr, rng)
	case "VerifyReader":
		seqVerifyReader(&res, k, tr, rng)
	case "CopyBuffer":
		seqCopyBuffer(&res, k, tr, rng)
	case "proxy-mem", "proxy-limit", "proxy-oci":
		seqProxy(&res, k, tr, rng)
	default:
		seqPush(&res, k, tr, rng)
	}
	return res
}

func sfx(k *kase) string { return k.Store + ":" + k.DClass + "/" + k.RClass }

// ---- Push on a store ----------------------------------------------------------------------------

func seqPush(res *worker.Result, k *kase, tr truth, rng *rand.Rand) {
	t, err := newTarget(k.Store, k.Limit)
	if err != nil {
		res.Violate("harness:new-store", err.Error(), nil)
		return
	}
	defer t.cleanup()

	// file store, named file: the working directory may already hold a file at the
	// name's path (left by an earlier store session); a fresh store is opened on it
	var name string
	planted := "none"
	var plantedBytes []byte
	if k.Store == "file-named" {
		name = t.name()
		ref := len(k.Base)
		if tr.PrefixOK {
			ref = int(k.Size)
		}
		cls := []string{"none", "longer", "longer", "shorter", "equal", "empty"}[rng.IntN(6)]
		if cls == "shorter" && ref < 2 {
			cls = "longer"
		}
		if cls == "empty" && ref == 0 {
			cls = "longer"
		}
		switch cls {
		case "longer":
			extra := 1
			if rng.IntN(2) == 0 {
				extra = 1 + rng.IntN(5000)
			}
			plantedBytes = randBytes(rng, ref+extra)
		case "shorter":
			plantedBytes = randBytes(rng, 1+rng.IntN(ref-1))
		case "equal":
			plantedBytes = randBytes(rng, ref)
		case "empty":
			plantedBytes = []byte{}
		}
		if cls != "none" {
			path := filepath.Join(t.fileDir, filepath.FromSlash(name))
			if err := os.MkdirAll(filepath.Dir(path), 0o755); err != nil {
				res.Violate("harness:plant", err.Error(), nil)
				return
			}
			if err := os.WriteFile(path, plantedBytes, 0o644); err != nil {
				res.Violate("harness:plant", err.Error(), nil)
				return
			}
			s2, err := file.New(t.fileDir)
			if err != nil {
				res.Violate("harness:new-store", err.Error(), nil)
				return
			}
			defer s2.Close()
			t.st = s2
		}
		planted = cls
		res.Key += "|pre-existing=" + planted
		res.Observe("file_preexisting_classes", planted)
		res.Count("file_preexisting_"+planted, 1)
	}

	// an unrelated blob first, so that "unchanged" is about a used store
	var preDesc *ocispec.Descriptor
	var preBytes []byte
	var preBuf *bytes.Buffer
	if rng.IntN(2) == 0 {
		pre := append([]byte("verif-c05-pre:"), randBytes(rng, 16)...)
		pd := ocispec.Descriptor{MediaType: "application/octet-stream", Digest: digest.Digest(dg("sha256", pre)), Size: int64(len(pre))}
		if t.name != nil && k.Store == "file-named" {
			pd.Annotations = map[string]string{ocispec.AnnotationTitle: t.name()}
		}
		pbuf := bytes.NewBuffer(append([]byte{}, pre...))
		if err := t.st.Push(ctx, pd, pbuf); err != nil && !errors.Is(err, errdef.ErrSizeExceedsLimit) {
			res.Violate("exact-push-refused:"+k.Store+":pre", "push of a small well-formed blob failed: "+err.Error(), nil)
			return
		} else if err == nil {
			preDesc, preBytes, preBuf = &pd, pre, pbuf
		}
	}
	preReuse := func() {
		if preBuf != nil {
			n := len(preBytes)
			preBuf.Reset()
			for i := 0; i < n; i++ {
				preBuf.WriteByte('#')
			}
		}
	}

	d := k.desc()
	if k.Store == "file-named" {
		d.Annotations = map[string]string{ocispec.AnnotationTitle: name}
	}
	before := listing(t.blobsDir)
	rd, reuse := k.source(rng)
	pushErr := t.st.Push(ctx, d, rd)
	reuse() // the caller reuses its buffers; everything below is observed afterwards
	preReuse()
	after := listing(t.blobsDir)
	if n := len(listing(t.ingest)); n > 0 {
		res.Count("ingest_leftovers_recorded", int64(n))
	}
	v := look(t.st, d)
	vp := v
	if d.Annotations != nil {
		vp = look(t.st, plain(d))
	}
	w := func() map[string]any {
		m := map[string]any{"push_err": errStr(pushErr), "view": v, "view_plain_descriptor": vp, "blobs_diff": listingDiff(before, after)}
		if k.Store == "file-named" {
			m["file_name"] = name
			m["pre_existing_file"] = planted
			if plantedBytes != nil {
				m["pre_existing_len"] = len(plantedBytes)
			}
		}
		return k.witness(m)
	}
	overLimit := k.Limit >= 0 && k.Size > k.Limit
	res.Count("pushes", 1)

	refusedOK := func() bool {
		ok := true
		if v.visible() || vp.visible() {
			res.Violate("visible-after-refused-push:"+sfx(k), fmt.Sprintf("Push returned %q but the store shows the descriptor (Exists=%v/%v, Fetch ok=%v/%v)", errStr(pushErr), v.Exists, vp.Exists, v.Fetched, vp.Fetched), w())
			ok = false
		}
		if diff := listingDiff(before, after); len(diff) > 0 {
			res.Violate("blobs-changed-by-refused-push:"+sfx(k), fmt.Sprintf("Push returned %q but blobs/ changed: %v", errStr(pushErr), diff), w())
			ok = false
		}
		return ok
	}
	acceptedOK := func(want []byte) bool {
		if !v.Exists || !v.Fetched || v.ReadErr != "" || !bytes.Equal(v.Data, want) {
			res.Violate("inconsistent-after-accepted-push:"+sfx(k), fmt.Sprintf("Push returned nil but Exists=%v Fetch ok=%v (%s%s) fetched %d bytes, want %d, equal=%v", v.Exists, v.Fetched, v.FetchErr, v.ReadErr, len(v.Data), len(want), bytes.Equal(v.Data, want)), w())
			return false
		}
		if got, err := content.FetchAll(ctx, t.st, d); err != nil || !bytes.Equal(got, want) {
			res.Violate("inconsistent-after-accepted-push:"+sfx(k), fmt.Sprintf("Push returned nil but FetchAll gives err=%v equal=%v", err, bytes.Equal(got, want)), w())
			return false
		}
		if d.Annotations != nil && vp.visible() {
			// the same content asked for by the plain descriptor
			if !vp.Fetched || vp.ReadErr != "" || !bytes.Equal(vp.Data, want) {
				res.Violate("inconsistent-after-accepted-push:"+sfx(k)+":plain-descriptor", fmt.Sprintf("Push returned nil but the plain descriptor gives Fetch ok=%v (%s%s) %d bytes, equal=%v", vp.Fetched, vp.FetchErr, vp.ReadErr, len(vp.Data), bytes.Equal(vp.Data, want)), w())
				return false
			}
			if got, err := content.FetchAll(ctx, t.st, plain(d)); err != nil || !bytes.Equal(got, want) {
				res.Violate("inconsistent-after-accepted-push:"+sfx(k)+":plain-descriptor", fmt.Sprintf("Push returned nil but FetchAll by the plain descriptor gives err=%v equal=%v", err, bytes.Equal(got, want)), w())
				return false
			}
		}
		return true
	}

	switch {
	case !tr.PrefixOK || tr.ErrWithLast:
		// ErrWithLast: the read that delivers the last of the Size bytes reports a non-EOF
		// error, so the reader "fails" while the store is reading the content (statement:
		// "a Push whose reader ... fails ... returns an error"). An error that only shows on
		// a later read stays unconstrained (a store need not perform that read).
		if tr.ErrWithLast {
			res.Count("pushes_reader_failed_with_last_bytes", 1)
		}
		if pushErr == nil {
			res.Violate("bad-push-accepted:"+sfx(k), "Push returned nil although the reader ends early / fails / the first Size bytes do not hash to Digest / the descriptor is malformed", w())
			return
		}
		res.Count("bad_pushes_refused", 1)
		if !refusedOK() {
			return
		}
	case tr.Exact && !overLimit:
		if pushErr != nil {
			res.Violate("exact-push-refused:"+sfx(k), "Push of exactly the described bytes failed: "+errStr(pushErr), w())
			return
		}
		res.Count("exact_pushes_accepted", 1)
		if !acceptedOK(k.Stream) {
			return
		}
	default:
		// the statement does not constrain the return value; the store must be consistent with it
		if pushErr == nil {
			res.Count("unconstrained_accepted", 1)
			res.Observe("unconstrained_accepted_by", k.Store+"/"+k.RClass)
			if !acceptedOK(k.Stream[:k.Size]) {
				return
			}
		} else if v.visible() || vp.visible() {
			// an error after the content was stored (e.g. the file store fails to parse a
			// truncated manifest after its fallback accepted the first Size bytes): what is
			// visible must still be exactly the bytes the descriptor names
			want := k.Stream[:k.Size]
			for _, x := range []view{v, vp} {
				if x.visible() && (!x.Exists || !x.Fetched || x.ReadErr != "" || !bytes.Equal(x.Data, want)) {
					res.Violate("visible-after-refused-push:"+sfx(k), fmt.Sprintf("Push returned %q and the store shows the descriptor, but not with exactly the first Size bytes (Exists=%v Fetch ok=%v)", errStr(pushErr), x.Exists, x.Fetched), w())
					return
				}
			}
			res.Count("unconstrained_error_but_matching_content_visible", 1)
			res.Observe("unconstrained_error_but_visible_by", k.Store+"/"+k.RClass)
			return
		} else {
			res.Count("unconstrained_refused", 1)
			res.Observe("unconstrained_refused_by", k.Store+"/"+k.RClass)
			if !refusedOK() {
				return
			}
		}
	}

	// the blob stored earlier from a buffer that has since been reused must still be itself
	if preDesc != nil {
		pv := look(t.st, *preDesc)
		got, err := content.FetchAll(ctx, t.st, *preDesc)
		if !pv.Exists || !pv.Fetched || !bytes.Equal(pv.Data, preBytes) || err != nil || !bytes.Equal(got, preBytes) {
			m := w()
			m["earlier_blob"] = short(preBytes)
			m["earlier_view"] = pv
			m["earlier_fetchall_err"] = errStr(err)
			res.Violate("stored-content-changed-after-caller-reused-buffer:"+k.Store+":earlier-blob", "a blob pushed earlier from a bytes.Buffer no longer matches its descriptor after the caller reused the buffer", m)
			return
		}
		res.Count("earlier_blob_rechecked", 1)
	}

	views, viewsDone := fetchViews(res, k, t, rng)
	defer viewsDone()
	// what is visible now must not be handed back by FetchAll under a descriptor of another length
	if pushErr == nil && tr.PrefixOK {
		if !wrongSizeProbes(res, k, views, d, k.Stream[:k.Size], rng, w) {
			return
		}
	}
	// descriptors that embed content (Data): whatever FetchAll hands back must have the descriptor's digest and size
	{
		var visible []byte
		if pushErr == nil && tr.PrefixOK {
			visible = k.Stream[:k.Size]
		}
		if !dataProbes(res, k, views, d, visible, rng, w) {
			return
		}
	}

	// malformed digests of the right length whose encoded part is a path to an existing file
	{
		var hexes []string
		if preDesc != nil {
			hexes = append(hexes, preDesc.Digest.Encoded())
		}
		if pushErr == nil && tr.PrefixOK && k.Algo == "sha256" {
			hexes = append(hexes, hexOf("sha256", k.Stream[:k.Size]))
		}
		if !pathDigestProbes(res, k, t, views, d, hexes, rng, w) {
			return
		}
	}

	// follow-ups on the same store (good after bad, bad after good)
	if pushErr != nil && rng.IntN(2) == 0 {
		gd := ocispec.Descriptor{MediaType: k.Media, Digest: digest.Digest(dg("sha256", k.Base)), Size: int64(len(k.Base))}
		if k.Limit >= 0 && gd.Size > k.Limit {
			return
		}
		if name != "" {
			gd.Annotations = map[string]string{ocispec.AnnotationTitle: name} // same name as the failed push
		}
		if pv := look(t.st, gd); pv.visible() {
			return // cannot happen after the checks above unless descriptors coincide
		}
		gsrc := append([]byte{}, k.Base...)
		var grd io.Reader = bytes.NewBuffer(gsrc)
		if rng.IntN(2) == 0 {
			grd = bytes.NewReader(gsrc)
		}
		err := t.st.Push(ctx, gd, grd)
		for i := range gsrc {
			gsrc[i] = ^gsrc[i]
		}
		v2 := look(t.st, gd)
		if err != nil || !v2.Exists || !v2.Fetched || !bytes.Equal(v2.Data, k.Base) {
			res.Violate("exact-push-refused:"+k.Store+":after-refused-push", fmt.Sprintf("after the refused push, pushing the base content under its true descriptor: err=%s Exists=%v Fetch ok=%v equal=%v", errStr(err), v2.Exists, v2.Fetched, bytes.Equal(v2.Data, k.Base)), w())
			return
		}
		res.Count("followup_good_after_refused", 1)
	} else if pushErr == nil && k.Size > 0 && rng.IntN(2) == 0 {
		// a corrupt push under the now-present descriptor must fail and must not change what is visible
		want := k.Stream[:k.Size]
		bad := flip(rng, want)
		bd := d
		if name != "" && rng.IntN(2) == 0 {
			bd.Annotations = map[string]string{ocispec.AnnotationTitle: t.name()}
		}
		b2 := listing(t.blobsDir)
		err := t.st.Push(ctx, bd, newHReader(bad, rho{Chunk: "random", ErrAt: -1}, rng))
		a2 := listing(t.blobsDir)
		v2 := look(t.st, d)
		w2 := func() map[string]any {
			return k.witness(map[string]any{"second_push": "one flipped bit, same descriptor", "second_name": bd.Annotations, "second_err": errStr(err), "view": v2, "blobs_diff": listingDiff(b2, a2)})
		}
		if err == nil {
			res.Violate("bad-push-accepted:"+k.Store+":after-good-push", "a corrupt push under an already stored descriptor returned nil", w2())
			return
		}
		if !v2.Exists || !v2.Fetched || !bytes.Equal(v2.Data, want) {
			res.Violate("content-changed-by-refused-push:"+k.Store, fmt.Sprintf("after a refused corrupt push the stored content is no longer the good bytes (Exists=%v Fetch ok=%v equal=%v)", v2.Exists, v2.Fetched, bytes.Equal(v2.Data, want)), w2())
			return
		}
		if pv := look(t.st, plain(d)); pv.Fetched && !bytes.Equal(pv.Data, want) {
			res.Violate("content-changed-by-refused-push:"+k.Store, "after a refused corrupt push the plain descriptor fetches other bytes", w2())
			return
		}
		if bd.Annotations != nil && name != "" && bd.Annotations[ocispec.AnnotationTitle] != name {
			if nv := look(t.st, bd); nv.visible() {
				res.Violate("visible-after-refused-push:"+k.Store+":second-name", "the refused corrupt push made its name visible", w2())
				return
			}
		}
		if diff := listingDiff(b2, a2); len(diff) > 0 {
			res.Violate("blobs-changed-by-refused-push:"+k.Store+":after-good-push", fmt.Sprintf("blobs/ changed: %v", diff), w2())
			return
		}
		res.Count("followup_bad_after_accepted", 1)
	}
}

type fetchView struct {
	name string
	f    content.Fetcher
}

// fetchViews: the store itself and, for OCI layouts, read-only views of the directory
// (fs.FS, tar) whose readers are files.
func fetchViews(res *worker.Result, k *kase, t *target, rng *rand.Rand) ([]fetchView, func()) {
	views := []fetchView{{"store", t.st}}
	done := func() {}
	if t.blobsDir != "" {
		root := filepath.Dir(t.blobsDir)
		views = append(views, fetchView{"oci.NewStorageFromFS", oci.NewStorageFromFS(os.DirFS(root))})
		if k.Store == "oci-store" {
			if ro, err := oci.NewFromFS(ctx, os.DirFS(root)); err == nil {
				views = append(views, fetchView{"oci.NewFromFS", ro})
			} else {
				res.Count("readonly_view_open_failed", 1)
			}
		}
		if rng.IntN(3) == 0 && len(k.Stream) < 200000 {
			tarPath := root + ".tar"
			done = func() { os.Remove(tarPath) }
			if err := writeTar(root, tarPath); err != nil {
				res.Count("readonly_view_open_failed", 1)
			} else if ro, err := oci.NewStorageFromTar(tarPath); err == nil {
				views = append(views, fetchView{"oci.NewStorageFromTar", ro})
			} else {
				res.Count("readonly_view_open_failed", 1)
			}
		}
	}
	return views, done
}

// matches reports whether data has the descriptor's size and (supported) digest.
func matches(pd ocispec.Descriptor, data []byte) bool {
	if int64(len(data)) != pd.Size {
		return false
	}
	s := string(pd.Digest)
	i := strings.Index(s, ":")
	if i < 0 {
		return false
	}
	switch algo := s[:i]; algo {
	case "sha256", "sha384", "sha512":
		return dg(algo, data) == s
	}
	return false
}

// dataProbes: FetchAll with descriptors that embed content in their Data field. The
// statement's rule is applied as is: data handed back without error must have the
// descriptor's length and digest, whatever Data says and whatever the store holds.
func dataProbes(res *worker.Result, k *kase, views []fetchView, d ocispec.Descriptor, visible []byte, rng *rand.Rand, w func() map[string]any) bool {
	type variant struct {
		name string
		data []byte
	}
	var vs []variant
	if d.Size >= 0 && d.Size <= 2<<20 {
		n := int(d.Size)
		same := make([]byte, n)
		copy(same, k.Stream)
		if len(k.Stream) < n {
			copy(same[len(k.Stream):], randBytes(rng, n-len(k.Stream)))
		}
		vs = append(vs, variant{"stream-bytes-of-descriptor-length", same})
		if n > 0 {
			vs = append(vs, variant{"one-bit-flipped-same-length", flip(rng, same)})
			vs = append(vs, variant{"one-byte-short", same[:n-1]})
		}
		vs = append(vs, variant{"one-byte-long", append(append([]byte{}, same...), byte(rng.Uint32()))})
	} else {
		vs = append(vs, variant{"stream", append([]byte{}, k.Stream...)})
	}
	if visible != nil && len(visible) > 0 {
		vs = append(vs, variant{"stored-content-one-bit-flipped", flip(rng, visible)})
	}
	// two variants per case keep the cost flat
	rng.Shuffle(len(vs), func(a, b int) { vs[a], vs[b] = vs[b], vs[a] })
	if len(vs) > 2 {
		vs = vs[:2]
	}
	for _, view := range views {
		for _, v := range vs {
			pd := d
			pd.Data = append([]byte{}, v.data...)
			got, err := content.FetchAll(ctx, view.f, pd)
			res.Count("fetchall_embedded_data_probes", 1)
			if err != nil {
				res.Count("fetchall_embedded_data_refused", 1)
				continue
			}
			if !matches(pd, got) {
				m := w()
				m["fetchall_view"] = view.name
				m["embedded_data"] = v.name
				m["embedded_len"] = len(v.data)
				m["returned"] = short(got)
				m["returned_len"] = len(got)
				res.Violate("bad-read-accepted:"+k.Store+":FetchAll@"+view.name+":embedded-data:"+k.DClass, fmt.Sprintf("FetchAll returned %d bytes without error that do not have the descriptor's digest and size (descriptor Data = %s)", len(got), v.name), m)
				return false
			}
			if visible != nil && !bytes.Equal(got, visible) {
				m := w()
				m["fetchall_view"] = view.name
				m["embedded_data"] = v.name
				res.Violate("wrong-data-handed-back:"+k.Store+":FetchAll@"+view.name+":embedded-data", "FetchAll returned matching bytes that are not the stored ones", m)
				return false
			}
			res.Count("fetchall_embedded_data_ok", 1)
		}
	}
	return true
}

// pathDigestProbes: descriptors whose digest is malformed but has a registered algorithm and
// an encoded part of exactly the right length that is a relative path to an existing file of
// the layout (index.json, oci-layout, another blob). Nothing may be visible or handed back
// under a malformed digest, and a Push under it must fail.
func pathDigestProbes(res *worker.Result, k *kase, t *target, views []fetchView, d ocispec.Descriptor, blobHexes []string, rng *rand.Rand, w func() map[string]any) bool {
	type probe struct {
		name, dg, rel string
	}
	ps := []probe{
		{"sha256->index.json", pathDigest("sha256", "../../index.json"), "index.json"},
		{"sha256->oci-layout", pathDigest("sha256", "../../oci-layout"), "oci-layout"},
		{"sha384->index.json", pathDigest("sha384", "../../index.json"), "index.json"},
		{"sha512->oci-layout", pathDigest("sha512", "../../oci-layout"), "oci-layout"},
	}
	for _, h := range blobHexes {
		ps = append(ps,
			probe{"sha512->blobs/sha256/<blob>", pathDigest("sha512", "../../blobs/sha256/"+h), "blobs/sha256/" + h},
			probe{"sha512->../sha256/<blob>", pathDigest("sha512", "../sha256/"+h), "blobs/sha256/" + h},
			probe{"sha384->../sha256/<blob>", pathDigest("sha384", "../sha256/"+h), "blobs/sha256/" + h})
	}
	root := ""
	if t.blobsDir != "" {
		root = filepath.Dir(t.blobsDir)
	}
	for _, p := range ps {
		size := int64(11)
		var fileBytes []byte
		if root != "" {
			if b, err := os.ReadFile(filepath.Join(root, filepath.FromSlash(p.rel))); err == nil {
				size, fileBytes = int64(len(b)), b
				res.Count("path_digest_targets_existing", 1)
			}
		}
		pd := ocispec.Descriptor{MediaType: d.MediaType, Digest: digest.Digest(p.dg), Size: size, Annotations: d.Annotations}
		for _, view := range views {
			res.Count("path_digest_probes", 1)
			bad := ""
			if ro, ok := view.f.(content.ReadOnlyStorage); ok {
				if ex, _ := ro.Exists(ctx, pd); ex {
					bad = "Exists returned true"
				}
			}
			if rc, err := view.f.Fetch(ctx, pd); err == nil {
				data, _ := io.ReadAll(rc)
				rc.Close()
				bad = fmt.Sprintf("Fetch handed back %d bytes (%s)", len(data), short(data))
			}
			if got, err := content.FetchAll(ctx, view.f, pd); err == nil {
				bad = fmt.Sprintf("FetchAll handed back %d bytes without error", len(got))
			}
			if bad != "" {
				m := w()
				m["fetchall_view"] = view.name
				m["malformed_digest"] = p.dg
				m["resolves_to"] = p.rel
				res.Violate("malformed-digest-visible:"+k.Store+":"+view.name+":"+p.name, "under a descriptor whose digest is malformed (right length, path elements): "+bad, m)
				return false
			}
		}
		// a Push under the malformed digest, offering the bytes of the file it would resolve to
		if rng.IntN(4) == 0 {
			before := listing(t.blobsDir)
			body := fileBytes
			if body == nil {
				body = randBytes(rng, int(size))
			}
			err := t.st.Push(ctx, pd, bytes.NewReader(body))
			res.Count("path_digest_pushes", 1)
			if err == nil {
				m := w()
				m["malformed_digest"] = p.dg
				res.Violate("bad-push-accepted:"+k.Store+":malformed-path-digest:"+p.name, "Push returned nil for a descriptor whose digest is malformed (right length, path elements)", m)
				return false
			}
			if diff := listingDiff(before, listing(t.blobsDir)); len(diff) > 0 {
				m := w()
				m["malformed_digest"] = p.dg
				m["blobs_diff"] = diff
				res.Violate("blobs-changed-by-refused-push:"+k.Store+":malformed-path-digest:"+p.name, fmt.Sprintf("blobs/ changed: %v", diff), m)
				return false
			}
		}
	}
	return true
}

// wrongSizeProbes: with content `want` visible under d, FetchAll with the same digest but a
// larger / smaller / zero size must not hand back data without error ("only when both length
// and digest match"), on every view.
func wrongSizeProbes(res *worker.Result, k *kase, views []fetchView, d ocispec.Descriptor, want []byte, rng *rand.Rand, w func() map[string]any) bool {
	n := int64(len(want))
	sizes := []int64{n + 1, n + 1 + rng.Int64N(5000)}
	if n > 0 {
		sizes = append(sizes, n-1, 0)
	}
	for _, view := range views {
		// sanity of the view: the right descriptor is handed back (only counted; a read-only
		// view is not the subject of the exact-accept rule)
		if got, err := content.FetchAll(ctx, view.f, d); err == nil && bytes.Equal(got, want) {
			res.Count("fetchall_right_size_ok", 1)
		} else if err == nil {
			m := w()
			m["fetchall_view"] = view.name
			res.Violate("wrong-data-handed-back:"+k.Store+":FetchAll@"+view.name, "FetchAll returned data without error that differ from the stored bytes", m)
			return false
		}
		for _, sz := range sizes {
			pd := d
			pd.Size = sz
			got, err := content.FetchAll(ctx, view.f, pd)
			res.Count("fetchall_wrong_size_probes", 1)
			if err == nil {
				m := w()
				m["fetchall_view"] = view.name
				m["probe_size"] = sz
				m["stored_len"] = n
				m["returned_len"] = len(got)
				rel := "larger"
				if sz < n {
					rel = "smaller"
				}
				res.Violate("bad-read-accepted:"+k.Store+":FetchAll@"+view.name+":size-"+rel, fmt.Sprintf("FetchAll returned %d bytes without error for a descriptor of size %d naming a stored blob of %d bytes", len(got), sz, n), m)
				return false
			}
		}
	}
	return true
}

func writeTar(dir, tarPath string) error {
	f, err := os.Create(tarPath)
	if err != nil {
		return err
	}
	defer f.Close()
	tw := tar.NewWriter(f)
	err = filepath.WalkDir(dir, func(p string, de fs.DirEntry, err error) error {
		if err != nil {
			return err
		}
		rel, _ := filepath.Rel(dir, p)
		if rel == "." {
			return nil
		}
		info, err := de.Info()
		if err != nil {
			return err
		}
		hdr, err := tar.FileInfoHeader(info, "")
		if err != nil {
			return err
		}
		hdr.Name = filepath.ToSlash(rel)
		if de.IsDir() {
			hdr.Name += "/"
		}
		if err := tw.WriteHeader(hdr); err != nil {
			return err
		}
		if info.Mode().IsRegular() {
			b, err := os.ReadFile(p)
			if err != nil {
				return err
			}
			if _, err := tw.Write(b); err != nil {
				return err
			}
		}
		return nil
	})
	if err != nil {
		return err
	}
	return tw.Close()
}

// ---- cas.Proxy: cache fill through the tee path ---------------------------------------------------

type hostileBase struct {
	rd     func() io.Reader
	closed int
}

func (h *hostileBase) Fetch(context.Context, ocispec.Descriptor) (io.ReadCloser, error) {
	return hreadCloser{Reader: h.rd(), closed: &h.closed}, nil
}
func (h *hostileBase) Exists(context.Context, ocispec.Descriptor) (bool, error) { return true, nil }

func seqProxy(res *worker.Result, k *kase, tr truth, rng *rand.Rand) {
	var cache content.Storage
	var blobsDir string
	switch k.Store {
	case "proxy-oci":
		dir, err := os.MkdirTemp("", "verif-c05-")
		if err != nil {
			res.Violate("harness:mkdtemp", err.Error(), nil)
			return
		}
		defer os.RemoveAll(dir)
		s, err := oci.NewStorage(dir)
		if err != nil {
			res.Violate("harness:new-store", err.Error(), nil)
			return
		}
		cache, blobsDir = s, filepath.Join(dir, "blobs")
	default:
		cache = cas.NewMemory()
	}
	reuse := func() {}
	base := &hostileBase{rd: func() io.Reader {
		rd, ru := k.source(rng)
		reuse = ru
		return rd
	}}
	var p *cas.Proxy
	if k.Store == "proxy-limit" {
		p = cas.NewProxyWithLimit(base, cache, k.Limit)
	} else {
		p = cas.NewProxy(base, cache)
	}
	d := k.desc()
	before := listing(blobsDir)
	rc, err := p.Fetch(ctx, d)
	if err != nil {
		res.Violate("harness:proxy-fetch", "Proxy.Fetch failed although the base returned a reader: "+err.Error(), k.witness(nil))
		return
	}
	// A size-limited cache stops reading after Size bytes and never closes its
	// end of the pipe: reading trailing bytes through the tee would block
	// forever (liveness, not this property). Such a consumer stops at Size bytes.
	stopAt := int64(-1)
	if k.Store == "proxy-limit" && tr.PrefixOK && tr.Trailing && !(k.Size > k.Limit) {
		stopAt = k.Size
		res.Count("proxy_limit_trailing_consumer_stopped_at_size", 1)
	}
	type consumed struct {
		got               []byte
		readErr, closeErr error
		harnessErr        string
	}
	consumerDone := make(chan consumed, 1)
	bufLen := 1 + rng.IntN(9000)
	go func() {
		var c consumed
		defer func() { consumerDone <- c }()
		buf := make([]byte, bufLen)
		for calls := 0; ; calls++ {
			if stopAt >= 0 && int64(len(c.got)) >= stopAt {
				break
			}
			b := buf
			if stopAt >= 0 && int64(len(b)) > stopAt-int64(len(c.got)) {
				b = b[:stopAt-int64(len(c.got))]
			}
			n, err := rc.Read(b)
			c.got = append(c.got, b[:n]...)
			if err != nil {
				if err != io.EOF {
					c.readErr = err
				}
				break
			}
			if calls > 1<<22 {
				c.harnessErr = "reader never ends"
				return
			}
		}
		c.closeErr = rc.Close()
	}()
	// The consumer can only block when the cache's Push returned without draining
	// its pipe end. The wait below decides nothing by itself: the verdict comes from
	// the state of the cache; a blocked consumer in a shape where the cache must be
	// filled is inconclusive.
	blocked := false
	var c consumed
	select {
	case c = <-consumerDone:
	case <-time.After(15 * time.Second):
		blocked = true
		res.Count("proxy_consumer_blocked", 1)
		c.readErr = errors.New("consumer blocked in the proxy's pipe")
	}
	got, readErr, closeErr, harnessErr := c.got, c.readErr, c.closeErr, c.harnessErr
	if !blocked {
		reuse() // the source's buffers are reused once the fetch is over
	}
	if harnessErr != "" {
		res.Violate("harness:proxy-read-loop", harnessErr, k.witness(nil))
		return
	}
	after := listing(blobsDir)
	v := look(cache, d)
	w := func() map[string]any {
		return k.witness(map[string]any{"consumer_read": short(got), "consumer_read_len": len(got), "consumer_err": errStr(readErr), "close_err": errStr(closeErr), "cache_view": v, "blobs_diff": listingDiff(before, after)})
	}
	res.Count("proxy_fetches", 1)
	overLimit := k.Limit >= 0 && k.Size > k.Limit
	switch {
	case !tr.PrefixOK:
		if v.visible() {
			res.Violate("cache-filled-by-bad-content:"+sfx(k), fmt.Sprintf("the cache shows the descriptor (Exists=%v Fetch ok=%v) although the base stream does not match it", v.Exists, v.Fetched), w())
			return
		}
		if diff := listingDiff(before, after); len(diff) > 0 {
			res.Violate("blobs-changed-by-refused-push:"+sfx(k), fmt.Sprintf("cache blobs/ changed: %v", diff), w())
			return
		}
		res.Count("bad_cache_fills_refused", 1)
	case blocked:
		res.Inconc = "proxy consumer blocked on " + sfx(k)
	case tr.Exact && !overLimit:
		if readErr != nil || closeErr != nil || !bytes.Equal(got, k.Stream) {
			res.Violate("exact-push-refused:"+sfx(k), fmt.Sprintf("reading exact content through the proxy: read err=%s close err=%s equal=%v", errStr(readErr), errStr(closeErr), bytes.Equal(got, k.Stream)), w())
			return
		}
		if !v.Exists || !v.Fetched || !bytes.Equal(v.Data, k.Stream) {
			res.Violate("exact-push-refused:"+sfx(k), fmt.Sprintf("exact content read to the end and closed, but the cache has Exists=%v Fetch ok=%v equal=%v", v.Exists, v.Fetched, bytes.Equal(v.Data, k.Stream)), w())
			return
		}
		res.Count("exact_cache_fills", 1)
	default:
		if v.visible() {
			if !v.Exists || !v.Fetched || !bytes.Equal(v.Data, k.Stream[:k.Size]) {
				res.Violate("inconsistent-after-accepted-push:"+sfx(k), "the cache shows the descriptor but not with exactly the first Size bytes", w())
				return
			}
			res.Count("unconstrained_accepted", 1)
			res.Observe("unconstrained_accepted_by", k.Store+"/"+k.RClass)
		} else {
			if diff := listingDiff(before, after); len(diff) > 0 {
				res.Violate("blobs-changed-by-refused-push:"+sfx(k), fmt.Sprintf("cache blobs/ changed: %v", diff), w())
				return
			}
			res.Count("unconstrained_refused", 1)
			res.Observe("unconstrained_refused_by", k.Store+"/"+k.RClass)
		}
	}
}

// ---- ReadAll / FetchAll ---------------------------------------------------------------------------

func seqReadAll(res *worker.Result, k *kase, tr truth, rng *rand.Rand) {
	d := k.desc()
	rd, reuse := k.source(rng)
	var data []byte
	var err error
	closed := 0
	if k.Store == "ReadAll" {
		data, err = content.ReadAll(rd, d)
	} else {
		data, err = content.FetchAll(ctx, content.FetcherFunc(func(context.Context, ocispec.Descriptor) (io.ReadCloser, error) {
			return hreadCloser{Reader: rd, closed: &closed}, nil
		}), d)
		res.Count("fetchall_reader_closed", int64(closed))
	}
	res.Count("readall_calls", 1)
	w := func() map[string]any {
		return k.witness(map[string]any{"returned_err": errStr(err), "returned_data": short(data), "returned_len": len(data)})
	}
	// the caller reuses its source buffers: what was handed back must stay what it was
	snapshot := append([]byte{}, data...)
	reuse()
	if err == nil && !bytes.Equal(data, snapshot) {
		m := w()
		m["returned_at_return"] = short(snapshot)
		res.Violate("handed-back-data-aliases-source:"+sfx(k), k.Store+" handed back verified data that changed when the caller reused its source buffer", m)
		return
	}
	judgeHandBack(res, k, tr, err == nil, data, w, "returned data without error")

	// descriptors that embed content (Data): whatever FetchAll hands back must match digest and size
	if k.Store == "FetchAll" {
		ws := func() map[string]any { return k.witness(nil) }
		var rus []func()
		view := fetchView{"FetcherFunc", content.FetcherFunc(func(context.Context, ocispec.Descriptor) (io.ReadCloser, error) {
			r2, ru := k.source(rng)
			rus = append(rus, ru)
			return hreadCloser{Reader: r2, closed: &closed}, nil
		})}
		ok := dataProbes(res, k, []fetchView{view}, d, nil, rng, ws)
		for _, ru := range rus {
			ru()
		}
		if !ok {
			return
		}
	}

	// FetchAll over a fetcher whose reader is an *os.File (exposes Stat, ReadFrom, ...)
	if k.Store == "FetchAll" && rng.IntN(2) == 0 {
		kf := *k
		kf.Store = "FetchAll-os.File"
		kf.Rho = rho{Chunk: "os.File", ErrAt: -1}
		trf := kf.truth()
		dir, err := os.MkdirTemp("", "verif-c05-")
		if err != nil {
			res.Violate("harness:mkdtemp", err.Error(), nil)
			return
		}
		defer os.RemoveAll(dir)
		path := filepath.Join(dir, "blob")
		if err := os.WriteFile(path, k.Stream, 0o644); err != nil {
			res.Violate("harness:write", err.Error(), nil)
			return
		}
		fdata, ferr := content.FetchAll(ctx, content.FetcherFunc(func(context.Context, ocispec.Descriptor) (io.ReadCloser, error) {
			return os.Open(path)
		}), d)
		res.Count("fetchall_os_file_calls", 1)
		res.Observe("stores", kf.Store)
		wf := func() map[string]any {
			return kf.witness(map[string]any{"returned_err": errStr(ferr), "returned_data": short(fdata), "returned_len": len(fdata)})
		}
		judgeHandBack(res, &kf, trf, ferr == nil, fdata, wf, "returned data without error")
	}
}

// judgeHandBack applies the ReadAll / FetchAll / VerifyReader rule: data is
// handed back without error only when length and digest match; bytes beyond
// Size are an error; exact content is handed back.
func judgeHandBack(res *worker.Result, k *kase, tr truth, ok bool, data []byte, w func() map[string]any, how string) {
	switch {
	case tr.Exact:
		if !ok {
			res.Violate("exact-read-refused:"+sfx(k), k.Store+" failed on exactly the described bytes", w())
			return
		}
		if !bytes.Equal(data, k.Stream) {
			res.Violate("wrong-data-handed-back:"+sfx(k), k.Store+" "+how+" but the data differ from the described bytes", w())
			return
		}
		res.Count("exact_reads_ok", 1)
	case !tr.PrefixOK || tr.Trailing:
		if ok {
			why := "length or digest do not match the descriptor"
			if tr.Trailing {
				why = "the reader has bytes beyond Size"
			}
			res.Violate("bad-read-accepted:"+sfx(k), k.Store+" "+how+" although "+why, w())
			return
		}
		res.Count("bad_reads_refused", 1)
	default: // exactly Size matching bytes, then a read error instead of EOF: not constrained by the statement
		if ok {
			if !bytes.Equal(data, k.Stream[:k.Size]) {
				res.Violate("wrong-data-handed-back:"+sfx(k), k.Store+" "+how+" but the data differ from the first Size bytes", w())
				return
			}
			res.Count("unconstrained_accepted", 1)
			res.Observe("unconstrained_accepted_by", k.Store+"/"+k.RClass)
		} else {
			res.Count("unconstrained_refused", 1)
			res.Observe("unconstrained_refused_by", k.Store+"/"+k.RClass)
		}
	}
}

// ---- VerifyReader (Read* / Verify) ----------------------------------------------------------------

func seqVerifyReader(res *worker.Result, k *kase, tr truth, rng *rand.Rand) {
	d := k.desc()
	rd, reuse := k.source(rng)
	defer reuse()
	vr := content.NewVerifyReader(rd, d)
	var got []byte
	var trace []string
	note := func(s string) {
		if len(trace) < 40 {
			trace = append(trace, s)
		}
	}
	w := func() map[string]any {
		return k.witness(map[string]any{"handed_back": short(got), "handed_back_len": len(got), "trace": trace})
	}
	// invariant after every call: what was handed back is a prefix of the stream, never beyond Size
	inv := func() bool {
		max := k.Size
		if max < 0 {
			max = 0
		}
		if int64(len(got)) > max {
			res.Violate("handed-back-beyond-size:"+sfx(k), fmt.Sprintf("VerifyReader.Read handed back %d bytes for Size %d", len(got), k.Size), w())
			return false
		}
		if len(got) > len(k.Stream) || !bytes.Equal(got, k.Stream[:len(got)]) {
			res.Violate("wrong-data-handed-back:"+sfx(k), "VerifyReader.Read handed back bytes that are not a prefix of the stream", w())
			return false
		}
		return true
	}
	verify := func(label string) (bool, bool) {
		err := vr.Verify()
		note(label + ":Verify=" + errStr(err))
		res.Count("verify_calls", 1)
		if err == nil {
			complete := int64(len(got)) == k.Size
			if !complete {
				res.Violate("verify-accepted:"+sfx(k), fmt.Sprintf("Verify returned nil after %d of Size %d bytes were handed back", len(got), k.Size), w())
				return true, false
			}
			if !(tr.Exact || tr.ErrAtSize) {
				why := "length or digest do not match the descriptor"
				if tr.Trailing {
					why = "the reader has bytes beyond Size"
				}
				res.Violate("verify-accepted:"+sfx(k), "Verify returned nil although "+why, w())
				return true, false
			}
		}
		return err == nil, true
	}

	// read plan: read to the end | stop early and verify | verify first, then read to the end
	plan := rng.IntN(6)
	stopAfter := int64(-1)
	if plan == 0 && k.Size > 0 {
		stopAfter = rng.Int64N(k.Size) // strictly fewer than Size bytes
	}
	if plan == 1 {
		if _, fine := verify("early"); !fine {
			return
		}
	}
	ended := false
	for calls := 0; calls < 1<<22; calls++ {
		if stopAfter >= 0 && int64(len(got)) >= stopAfter {
			break
		}
		sz := 1 + rng.IntN(8192)
		if rng.IntN(16) == 0 {
			sz = 0
		}
		if stopAfter >= 0 && int64(sz) > stopAfter-int64(len(got)) {
			sz = int(stopAfter - int64(len(got)))
		}
		p := make([]byte, sz)
		n, err := vr.Read(p)
		if n < 0 || n > sz {
			res.Violate("harness:read-count", fmt.Sprintf("Read returned n=%d for a buffer of %d", n, sz), w())
			return
		}
		got = append(got, p[:n]...)
		if !inv() {
			return
		}
		if err != nil {
			note(fmt.Sprintf("Read#%d=(%d,%s)", calls, n, errStr(err)))
			ended = true
			break
		}
		if int64(len(got)) == k.Size && rng.IntN(2) == 0 {
			break // exactly Size bytes seen, EOF not yet observed
		}
	}
	res.Count("verifyreader_reads", 1)
	ok1, fine := verify("final")
	if !fine {
		return
	}
	ok2, fine := verify("again")
	if !fine {
		return
	}
	if ok1 != ok2 {
		res.Violate("verify-unstable:"+sfx(k), fmt.Sprintf("two consecutive Verify calls disagree: %v then %v", ok1, ok2), w())
		return
	}
	if ok1 {
		// a verified reader has nothing more to hand back
		p := make([]byte, 16)
		n, err := vr.Read(p)
		got = append(got, p[:n]...)
		note(fmt.Sprintf("Read-after-verify=(%d,%s)", n, errStr(err)))
		if !inv() {
			return
		}
	}
	full := stopAfter < 0
	switch {
	case tr.Exact && full:
		if !ok1 {
			res.Violate("exact-read-refused:"+sfx(k), "VerifyReader read to the end of exactly the described bytes, Verify failed", w())
			return
		}
		if !bytes.Equal(got, k.Stream) {
			res.Violate("wrong-data-handed-back:"+sfx(k), "VerifyReader verified but handed back other bytes", w())
			return
		}
		res.Count("exact_reads_ok", 1)
	case ok1:
		res.Count("unconstrained_accepted", 1) // only reachable for err-at-size (verify() judged the rest)
		res.Observe("unconstrained_accepted_by", k.Store+"/"+k.RClass)
	default:
		if tr.ErrAtSize {
			res.Count("unconstrained_refused", 1)
			res.Observe("unconstrained_refused_by", k.Store+"/"+k.RClass)
		} else {
			res.Count("bad_reads_refused", 1)
		}
	}
	_ = ended
}

// ---- ioutil.CopyBuffer ----------------------------------------------------------------------------

func seqCopyBuffer(res *worker.Result, k *kase, tr truth, rng *rand.Rand) {
	d := k.desc()
	rd, reuse := k.source(rng)
	defer reuse()
	sizes := []int{1, 7, 512, 32 << 10, 1 << 20}
	buf := make([]byte, sizes[rng.IntN(len(sizes))])
	if len(k.Stream) > 50000 && len(buf) < 512 {
		buf = make([]byte, 4096)
	}
	var dst bytes.Buffer
	err := ioutil.CopyBuffer(&dst, rd, buf, d)
	res.Count("copybuffer_calls", 1)
	w := func() map[string]any {
		return k.witness(map[string]any{"returned_err": errStr(err), "written": short(dst.Bytes()), "written_len": dst.Len(), "buffer": len(buf)})
	}
	max := k.Size
	if max < 0 {
		max = 0
	}
	if int64(dst.Len()) > max {
		res.Violate("handed-back-beyond-size:"+sfx(k), fmt.Sprintf("CopyBuffer wrote %d bytes for Size %d", dst.Len(), k.Size), w())
		return
	}
	if dst.Len() > len(k.Stream) || !bytes.Equal(dst.Bytes(), k.Stream[:dst.Len()]) {
		res.Violate("wrong-data-handed-back:"+sfx(k), "CopyBuffer wrote bytes that are not a prefix of the stream", w())
		return
	}
	judgeHandBack(res, k, tr, err == nil, dst.Bytes(), w, "returned nil")
}

var _ = strings.Contains
