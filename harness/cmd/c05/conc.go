package main

import (
	"bytes"
	"fmt"
	"io"
	"math/rand/v2"
	"os"
	"path/filepath"
	"sort"
	"strings"
	"sync"
	"sync/atomic"

	"github.com/opencontainers/go-digest"
	ocispec "github.com/opencontainers/image-spec/specs-go/v1"
	"oras.land/oras-go/v2/content/file"
	"oras.land/oras-go/v2/verifharness/evidence"
	"oras.land/oras-go/v2/verifharness/worker"
)

var concKinds = []string{"memory", "cas+limit", "oci-store", "oci-storage", "file-named-same", "file-named-diff", "file-fallback"}

type pusher struct {
	ID     int    `json:"id"`
	Role   string `json:"role"` // good | bad | maybe
	Kind   string `json:"kind"` // exact | corrupt | truncated | err-mid | empty | trailing
	Name   string `json:"name,omitempty"`
	Err    string `json:"err"`
	stream []byte
	rho    rho
	err    error
}

// runConc: good and bad pushes of the same digest from several goroutines on
// one store, while other goroutines keep fetching and re-hashing.
func runConc(seed int64, phase string, i int, rng *rand.Rand) worker.Result {
	var res worker.Result
	kind := concKinds[i%len(concKinds)]
	storeKind := kind
	if strings.HasPrefix(kind, "file-named") {
		storeKind = "file-named"
	}
	t, err := newTarget(storeKind, 4<<20)
	if err != nil {
		res.Violate("harness:new-store", err.Error(), nil)
		return res
	}
	defer t.cleanup()

	var b []byte
	switch pick(rng, []int{30, 25, 25, 15, 5}) {
	case 0:
		b = randBytes(rng, 1+rng.IntN(200))
	case 1:
		b = randBytes(rng, 4000+rng.IntN(200))
	case 2:
		b = randBytes(rng, 60000+rng.IntN(20000))
	case 3:
		b = randBytes(rng, 300000+rng.IntN(100000))
	default:
		b = randBytes(rng, 1<<20+1+rng.IntN(3000))
	}
	d := ocispec.Descriptor{MediaType: "application/octet-stream", Digest: digest.Digest(dg("sha256", b)), Size: int64(len(b))}

	nGood := rng.IntN(4)
	nBad := 1 + rng.IntN(4)
	nMaybe := 0
	if rng.IntN(3) == 0 {
		nMaybe = 1
	}
	var ps []*pusher
	chunks := []string{"one", "c4096", "random", "random", "c7"}
	mkRho := func() rho {
		r := rho{Chunk: chunks[rng.IntN(len(chunks))], ErrAt: -1, Yield: true, ZeroReads: rng.IntN(4) == 0, EOFWithLast: rng.IntN(4) == 0}
		if len(b) > 10000 && r.Chunk == "c7" {
			r.Chunk = "c4096"
		}
		return r
	}
	for g := 0; g < nGood; g++ {
		ps = append(ps, &pusher{Role: "good", Kind: "exact", stream: b, rho: mkRho()})
	}
	for g := 0; g < nBad; g++ {
		p := &pusher{Role: "bad", rho: mkRho()}
		switch rng.IntN(4) {
		case 0:
			p.Kind, p.stream = "corrupt", flip(rng, b)
		case 1:
			p.Kind, p.stream = "truncated", b[:len(b)-1-rng.IntN(len(b))]
		case 2:
			p.Kind, p.stream = "err-mid", b
			p.rho.ErrAt = rng.IntN(len(b))
			p.rho.ErrWithData = rng.IntN(2) == 0
		default:
			p.Kind, p.stream = "corrupt-last", append(append([]byte{}, b[:len(b)-1]...), b[len(b)-1]^0x80)
		}
		ps = append(ps, p)
	}
	for g := 0; g < nMaybe; g++ {
		ps = append(ps, &pusher{Role: "maybe", Kind: "trailing", stream: append(append([]byte{}, b...), randBytes(rng, 1+rng.IntN(50))...), rho: mkRho()})
	}
	rng.Shuffle(len(ps), func(a, c int) { ps[a], ps[c] = ps[c], ps[a] })
	for id, p := range ps {
		p.ID = id
		switch kind {
		case "file-named-same":
			p.Name = "shared/blob.bin"
		case "file-named-diff":
			p.Name = fmt.Sprintf("p%d/blob.bin", id)
		}
	}
	descFor := func(name string) ocispec.Descriptor {
		dd := d
		if name != "" {
			dd.Annotations = map[string]string{ocispec.AnnotationTitle: name}
		}
		return dd
	}

	// file store: the pushers' paths may already hold longer / shorter files from an
	// earlier session; a fresh store is opened on the directory
	plantedConc := "none"
	if t.fileDir != "" && strings.HasPrefix(kind, "file-named") && rng.IntN(2) == 0 {
		plantedConc = []string{"longer", "longer", "shorter", "equal"}[rng.IntN(4)]
		seen := map[string]bool{}
		for _, p := range ps {
			if seen[p.Name] {
				continue
			}
			seen[p.Name] = true
			n := len(b)
			switch plantedConc {
			case "longer":
				n += 1 + rng.IntN(3000)
			case "shorter":
				n = rng.IntN(n)
			}
			path := filepath.Join(t.fileDir, filepath.FromSlash(p.Name))
			_ = os.MkdirAll(filepath.Dir(path), 0o755)
			if err := os.WriteFile(path, randBytes(rng, n), 0o644); err != nil {
				res.Violate("harness:plant", err.Error(), nil)
				return res
			}
		}
		s2, err := file.New(t.fileDir)
		if err != nil {
			res.Violate("harness:new-store", err.Error(), nil)
			return res
		}
		defer s2.Close()
		t.st = s2
		res.Count("conc_file_preexisting_"+plantedConc, 1)
	}

	before := listing(t.blobsDir)
	var seq atomic.Int64
	var evMu sync.Mutex
	var events []string
	ev := func(s string) {
		evMu.Lock()
		events = append(events, s)
		evMu.Unlock()
	}
	var running, maxRunning atomic.Int64
	start := make(chan struct{})
	var wg sync.WaitGroup
	// every goroutine gets its own PRNG (derived deterministically)
	for _, p := range ps {
		wg.Add(1)
		prng := evidence.RandFor(seed, "c05-"+phase+"-pusher", i*64+p.ID)
		go func(p *pusher) {
			defer wg.Done()
			<-start
			seq.Add(1)
			ev(fmt.Sprintf("s%s", p.Role[:1]))
			if n := running.Add(1); n > maxRunning.Load() {
				maxRunning.Store(n)
			}
			p.err = t.st.Push(ctx, descFor(p.Name), newHReader(p.stream, p.rho, prng))
			running.Add(-1)
			ev(fmt.Sprintf("f%s", p.Role[:1]))
		}(p)
	}
	var stop atomic.Bool
	var fetchOK, fetchWrong, fetchReadErr atomic.Int64
	var wrongMu sync.Mutex
	var wrongInfo []string
	var rwg sync.WaitGroup
	readerDescs := []ocispec.Descriptor{d}
	if kind == "file-named-same" {
		readerDescs = append(readerDescs, descFor("shared/blob.bin"))
	}
	if kind == "file-named-diff" {
		for _, p := range ps {
			readerDescs = append(readerDescs, descFor(p.Name))
		}
	}
	for r := 0; r < 2; r++ {
		rwg.Add(1)
		go func(r int) {
			defer rwg.Done()
			<-start
			for n := 0; ; n++ {
				last := stop.Load()
				rd := readerDescs[(n+r)%len(readerDescs)]
				_, _ = t.st.Exists(ctx, rd)
				if rc, err := t.st.Fetch(ctx, rd); err == nil {
					data, rerr := io.ReadAll(rc)
					rc.Close()
					switch {
					case rerr != nil:
						fetchReadErr.Add(1)
					case bytes.Equal(data, b):
						fetchOK.Add(1)
					default:
						fetchWrong.Add(1)
						wrongMu.Lock()
						if len(wrongInfo) < 5 {
							wrongInfo = append(wrongInfo, fmt.Sprintf("Fetch(%v) read %d bytes to EOF: %s", rd.Annotations, len(data), short(data)))
						}
						wrongMu.Unlock()
					}
				}
				if last {
					return
				}
			}
		}(r)
	}
	close(start)
	wg.Wait()
	stop.Store(true)
	rwg.Wait()
	after := listing(t.blobsDir)

	for _, p := range ps {
		p.Err = errStr(p.err)
	}
	v := look(t.st, d)
	w := func(extra map[string]any) map[string]any {
		m := map[string]any{"store": kind, "pre_existing_files": plantedConc, "content": short(b), "content_len": len(b), "descriptor": map[string]any{"digest": d.Digest, "size": d.Size},
			"pushers": ps, "events": events, "view_after": v, "blobs_diff": listingDiff(before, after), "fetch_ok": fetchOK.Load(), "fetch_wrong": wrongInfo}
		for a, c := range extra {
			m[a] = c
		}
		return m
	}

	goodRan := nGood > 0
	var badKinds []string
	for _, p := range ps {
		switch p.Role {
		case "bad":
			badKinds = append(badKinds, p.Kind)
			if p.err == nil {
				res.Violate("concurrent:bad-push-accepted:"+kind+":"+p.Kind, fmt.Sprintf("pusher %d (%s content under the good descriptor) got nil", p.ID, p.Kind), w(nil))
				return res
			}
		case "good":
			if p.err != nil && !isAlready(p.err) {
				res.Violate("concurrent:good-push-failed:"+kind, fmt.Sprintf("pusher %d (exact content) got %s", p.ID, errStr(p.err)), w(nil))
				return res
			}
		case "maybe":
			if p.err == nil {
				goodRan = true
				res.Count("conc_trailing_push_accepted", 1)
			}
		}
	}
	if n := fetchWrong.Load(); n > 0 {
		res.Violate("concurrent:fetched-wrong-bytes:"+kind, fmt.Sprintf("%d concurrent Fetch results, read to EOF without error, were not the described bytes", n), w(nil))
		return res
	}
	if goodRan {
		if !v.Exists || !v.Fetched || v.ReadErr != "" || !bytes.Equal(v.Data, b) {
			res.Violate("concurrent:good-content-not-visible:"+kind, fmt.Sprintf("a good push ran but afterwards Exists=%v Fetch ok=%v equal=%v", v.Exists, v.Fetched, bytes.Equal(v.Data, b)), w(nil))
			return res
		}
	} else {
		if v.visible() {
			res.Violate("concurrent:visible-without-good-push:"+kind, fmt.Sprintf("only bad pushes ran but Exists=%v Fetch ok=%v", v.Exists, v.Fetched), w(nil))
			return res
		}
		if diff := listingDiff(before, after); len(diff) > 0 {
			res.Violate("concurrent:blobs-changed-by-refused-push:"+kind, fmt.Sprintf("only bad pushes ran but blobs/ changed: %v", diff), w(nil))
			return res
		}
	}
	// per-name visibility in the file store
	if strings.HasPrefix(kind, "file-named") {
		for _, p := range ps {
			nv := look(t.st, descFor(p.Name))
			if nv.Fetched && !bytes.Equal(nv.Data, b) {
				res.Violate("concurrent:fetched-wrong-bytes:"+kind, fmt.Sprintf("name %s fetches other bytes", p.Name), w(map[string]any{"name_view": nv}))
				return res
			}
			if kind == "file-named-diff" {
				if p.err != nil && nv.visible() && !isAlready(p.err) {
					res.Violate("concurrent:visible-after-refused-push:"+kind, fmt.Sprintf("pusher %d failed (%s) but its name is visible", p.ID, p.Err), w(map[string]any{"name_view": nv}))
					return res
				}
				if p.err == nil && (!nv.Exists || !nv.Fetched) {
					res.Violate("concurrent:good-content-not-visible:"+kind, fmt.Sprintf("pusher %d succeeded but its name is not visible", p.ID), w(map[string]any{"name_view": nv}))
					return res
				}
			}
		}
	}

	sort.Strings(badKinds)
	res.Key = fmt.Sprintf("%s|g%d|%s|m%d|%s|pre=%s", kind, nGood, strings.Join(badKinds, ","), nMaybe, sizeClass(len(b)), plantedConc)
	res.NT = maxRunning.Load() >= 2
	res.Observe("interleavings", strings.Join(events, ""))
	res.Observe("conc_stores", kind)
	res.Count("conc_pushes", int64(len(ps)))
	res.Count("conc_fetches_rehashed_ok", fetchOK.Load())
	res.Count("conc_fetch_read_errors", fetchReadErr.Load())
	res.MaxOf("conc_max_overlapping_pushes", maxRunning.Load())
	if goodRan {
		res.Count("conc_cases_with_good_push", 1)
	} else {
		res.Count("conc_cases_all_bad", 1)
	}
	if n := len(listing(t.ingest)); n > 0 {
		res.Count("ingest_leftovers_recorded", int64(n))
	}
	if i%53 == 0 {
		res.Sample = w(nil)
	}
	return res
}

func sizeClass(n int) string {
	switch {
	case n < 1000:
		return "tiny"
	case n < 10000:
		return "4k"
	case n < 200000:
		return "64k"
	case n <= 1<<20:
		return "300k"
	}
	return "1Mi+"
}
