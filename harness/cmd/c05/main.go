// C05 — Only content matching its descriptor ever becomes visible in a store.
//
// Monitor: the real Push / Fetch / ReadAll / FetchAll / VerifyReader code is
// driven with hostile descriptors (wrong digest, short / long / zero / negative
// size, malformed and unsupported digest strings, sha384 / sha512) and hostile
// readers (arbitrary chunking, (0,nil) reads, (n,EOF) on the last chunk, an
// injected error at any offset, early EOF, trailing bytes). The oracle is
// computed from the case values alone (never from the library):
//
//	prefixOK := Size >= 0 ∧ digest valid ∧ >= Size bytes delivered without error ∧ hash(first Size bytes) = Digest
//	exact    := prefixOK ∧ EOF follows without further bytes or error
//
// Push: ¬prefixOK ⇒ error, Exists false, Fetch fails, blobs/ unchanged;
// exact ⇒ nil and the bytes are visible; otherwise (trailing bytes, error after
// Size bytes) the return value is not constrained but the store must agree
// with it. ReadAll / FetchAll / VerifyReader / CopyBuffer: no data without
// error unless length and digest match; trailing bytes are an error.
// A concurrent phase pushes good and bad content under one digest from several
// goroutines while readers keep fetching and re-hashing (also under -race).
package main

import (
	_ "crypto/sha256"
	_ "crypto/sha512"
	"os"
	"path/filepath"
	"strings"

	"oras.land/oras-go/v2/verifharness/evidence"
	"oras.land/oras-go/v2/verifharness/worker"
)

func main() {
	if worker.IsWorker() {
		worker.Serve(runCase)
		return
	}
	r := evidence.New("C05", "exploration")
	r.Rule("sequential case = (byte string b: empty | 1–64 B | ≤5 KB | buffer-edge sizes | 100–300 KB | >1 MiB | small image-manifest JSON; " +
		"descriptor class ∈ {exact, wrong-digest, short, short-prefix-digest, long, long-padded-digest, zero, zero-empty-digest, negative, malformed (19 shapes incl. right-length path-shaped ones), unsupported (7 algorithms), sha512, sha512-bad, sha384, sha384-bad}; " +
		"reader ρ = chunking {one, 1, 7, 4096, 1 MiB+1, random, bytes.Reader, bytes.Buffer} × (0,nil) reads × (n,EOF) on last chunk × injected error before/at/after Size (alone or with the last chunk) × stream {as is, truncated, extended, one bit flipped, empty}; " +
		"store kind ∈ {memory store, cas.Memory behind LimitStorage, cas.Proxy with memory / size-limited / OCI cache, oci.Store, oci.Storage, file store named file, file store fallback, ReadAll, FetchAll, VerifyReader Read*/Verify plans, ioutil.CopyBuffer}), " +
		"for the file store's named file additionally a file already present at the name's path (none | longer | shorter | equal length | empty; a fresh store is opened on the directory; after an accepted push the named and the plain descriptor must fetch exactly the pushed bytes); " +
		"after an accepted push FetchAll with the same digest and a larger / smaller / zero size must fail on the store and on fs.FS / tar read-only views of an OCI layout; FetchAll is also driven over *os.File readers; injected errors are sticky or one-shot; " +
		"every reader works on a private copy of the stream (hostile reader, bytes.Reader or an unwrapped *bytes.Buffer) which the harness overwrites / Resets and refills as soon as the library call has returned, so stored and handed-back bytes are re-fetched and compared after the caller reused its buffers (also for a blob pushed earlier); " +
		"after every push FetchAll is also called on every view with descriptors embedding content in Data (matching, one bit flipped, one byte short / long): data handed back without error must have the descriptor's digest and size; " +
		"after every push, descriptors whose digest is malformed but of the right length for a registered algorithm, with an encoded part that is a relative path to index.json / oci-layout / a stored blob, are probed on every view (Exists false, Fetch and FetchAll fail) and pushed (must fail, blobs/ unchanged); " +
		"followed on push stores by good-after-refused or corrupt-after-accepted pushes; oracle predicates prefixOK/exact/trailing are computed from (stream, fault offset, digest string, size) with the standard library's hashes. " +
		"Concurrent case = 0–3 good, 1–4 bad (corrupt, truncated, failing mid-way), 0–1 trailing pushers of one digest on one store plus 2 re-hashing fetchers. " +
		"distinct = (descriptor class, primary reader class, store kind) resp. (store, #good, bad kinds, size class); non-trivial = sequential: every case except exact descriptor + unmodified stream + no fault; concurrent: at least two pushes overlapped (event order)")
	r.Assume("a digest algorithm is 'supported' iff go-digest can verify it in this build (sha256, sha384, sha512); md5, sha1, sha224, blake3, sha3-256 and case variants are unsupported")
	r.Assume("Push outcomes are not judged (only consistency is) when the first Size bytes match and the reader then delivers more bytes or fails on a later read; a non-EOF error reported by the very read that delivers the last of the Size bytes (sticky or one-shot) is a failing reader: Push on a store must refuse it (for cas.Proxy the cache's reader is the pipe, which does not fail: unjudged). ReadAll-family outcomes are not judged when exactly Size matching bytes come with or are followed by a read error instead of EOF (their clause speaks of length, digest and trailing bytes only)")
	r.Assume("a push whose descriptor size exceeds the wrapper's push limit may be refused even when exact")
	r.Assume("files left under ingest/ and partial files of the file store are recorded, not judged (the statement speaks of blobs/)")

	worker.Run(r, worker.Opts{Phase: "seq", Total: r.N(6500, 156000), Batch: r.N(130, 650)})
	worker.Run(r, worker.Opts{Phase: "conc", Total: r.N(420, 7000), Batch: r.N(35, 100)})
	if bin := os.Getenv("VERIF_RACE_BIN"); bin != "" {
		raceDir, _ := os.MkdirTemp("", "verif-c05-race-")
		defer os.RemoveAll(raceDir)
		worker.Run(r, worker.Opts{Phase: "race", Total: r.N(140, 2100), Batch: r.N(14, 50), Bin: bin,
			Env: []string{"GORACE=halt_on_error=0 log_path=" + filepath.Join(raceDir, "race")}})
		r.Set("race_reports_in_library", countRaceReports(raceDir, r))
		r.Set("race_phase_ran", true)
		os.RemoveAll(raceDir)
	} else {
		r.Set("race_phase_ran", false)
	}
	r.Finish(r.N(700, 1500))
}

func runCase(phase string, i int) worker.Result {
	seed := evidence.New("C05", "exploration").Seed // reads the environment only
	rng := evidence.RandFor(seed, "c05-"+phase, i)
	switch phase {
	case "seq":
		return runSeq(seed, i, rng)
	default:
		return runConc(seed, phase, i, rng)
	}
}

// countRaceReports counts DATA RACE blocks; those with a library frame are
// violations of the property's concurrent clause, others are harness bugs.
func countRaceReports(dir string, r *evidence.Run) int {
	files, _ := filepath.Glob(filepath.Join(dir, "race*"))
	n := 0
	seen := map[string]bool{}
	for _, f := range files {
		b, _ := os.ReadFile(f)
		for _, blk := range strings.Split(string(b), "==================") {
			if !strings.Contains(blk, "WARNING: DATA RACE") {
				continue
			}
			lib := false
			var sig []string
			for _, l := range strings.Split(blk, "\n") {
				if strings.Contains(l, "oras.land/oras-go/v2/") && !strings.Contains(l, "verifharness") {
					lib = true
				}
				if t := strings.TrimSpace(l); strings.HasPrefix(t, "oras.land/") {
					sig = append(sig, t)
				}
			}
			k := strings.Join(sig, ";")
			if seen[k] {
				continue
			}
			seen[k] = true
			if lib {
				n++
				r.Violation("race", "data race reported by the race detector in library code", blk)
			} else {
				r.Violation("harness:race", "data race inside the harness itself", blk)
			}
		}
	}
	return n
}
