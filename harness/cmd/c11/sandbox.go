package main

import (
	"crypto/sha256"
	"encoding/hex"
	"fmt"
	"io/fs"
	"os"
	"path/filepath"
	"sort"
	"strings"
	"syscall"
)

// The sandbox of one case:
//
//	top/                     fresh os.MkdirTemp directory (inside the worker's jail)
//	top/p1/…/pK/r            padding levels, then the root "r"; every padding level (and top)
//	                         holds a file "victim" and a directory "outdir" with a file "keep",
//	                         so that an escape that climbs above the root still hits something
//	r/a/wd                   the store's working directory (only place that may change)
//	r/a/victim, a/victim2, a/outdir/keep, a/pkg/keep, a/sub/keep     siblings of the working directory
//	r/a/wd.lock, a/wd-backup/keep, a/wdx   siblings whose names start with the working directory's name
//	r/e1/e2/wd               alternative place of the working directory ("chain" layout): e1 and e2 hold nothing else
//	r/victim, r/outdir/keep  one level higher
//	r/cwd/                   process working directory: secret, victim, x, pkg/d/keep, outdir/keep
//	r/tmp                    TMPDIR: only oras_file_* may appear
//
// K is at least the number of ".." steps that resolving any string of the case
// can take (see Case.climb), so an escape always stays below top; in addition
// the worker is chroot-ed into its jail when the kernel allows it.
type sandbox struct {
	top, root, wd, cwd, tmp string
	outsideInodes           map[uint64]string // inode -> path (relative to top) of regular files outside wd
	prepopLinks             map[string]bool   // symlinks created by pre-population (absolute paths)
}

var (
	jailBase   string // directory in which sandboxes are created ("/" when chroot-ed)
	jailed     bool
	jailInited bool
)

// enterJail chroots the worker into the directory given by VERIF_C11_JAIL (once).
func enterJail() error {
	if jailInited {
		return nil
	}
	jailInited = true
	dir := os.Getenv("VERIF_C11_JAIL")
	if dir == "" {
		return fmt.Errorf("VERIF_C11_JAIL not set")
	}
	syscall.Umask(0o022)
	if os.Getenv("VERIF_C11_NOCHROOT") == "" {
		if err := syscall.Chroot(dir); err == nil {
			if err := os.Chdir("/"); err != nil {
				return err
			}
			jailBase, jailed = "/", true
			return nil
		}
	}
	jailBase = dir
	return os.Chdir(dir)
}

func mustWrite(path, body string, mode os.FileMode) error {
	if err := os.MkdirAll(filepath.Dir(path), 0o755); err != nil {
		return err
	}
	if err := os.WriteFile(path, []byte(body), mode); err != nil {
		return err
	}
	return os.Chmod(path, mode)
}

func newSandbox(pad int, prepop string, chain bool) (*sandbox, error) {
	top, err := os.MkdirTemp(jailBase, "c11-")
	if err != nil {
		return nil, err
	}
	if err := os.Chmod(top, 0o755); err != nil {
		return nil, err
	}
	sb := &sandbox{top: top, outsideInodes: map[uint64]string{}, prepopLinks: map[string]bool{}}
	level := top
	for k := 0; k <= pad; k++ {
		if err := mustWrite(filepath.Join(level, "victim"), fmt.Sprintf("VICTIM-level-%d", k), 0o600); err != nil {
			return sb, err
		}
		if err := mustWrite(filepath.Join(level, "outdir", "keep"), "KEEP", 0o644); err != nil {
			return sb, err
		}
		if k < pad {
			level = filepath.Join(level, fmt.Sprintf("p%d", k+1))
		}
	}
	sb.root = filepath.Join(level, "r")
	sb.wd = filepath.Join(sb.root, "a", "wd")
	if chain {
		// the working directory at the end of a chain of otherwise EMPTY directories:
		// removing e2 or e1 is a deletion outside the working directory
		sb.wd = filepath.Join(sb.root, "e1", "e2", "wd")
		if err := os.MkdirAll(filepath.Dir(sb.wd), 0o755); err != nil {
			return sb, err
		}
	}
	sb.cwd = filepath.Join(sb.root, "cwd")
	sb.tmp = filepath.Join(sb.root, "tmp")
	files := map[string]string{
		// siblings whose NAME has the working directory's name as a string prefix
		"a/wd.lock": "LOCK", "a/wd-backup/keep": "KEEP", "a/wdx": "WDX",
		"a/victim": "VICTIM-a", "a/victim2": "VICTIM2-a", "a/outdir/keep": "KEEP", "a/pkg/keep": "KEEP", "a/sub/keep": "KEEP",
		"a/new/.keep": "", "victim": "VICTIM-root", "outdir/keep": "KEEP",
		"cwd/secret": "SECRET", "cwd/victim": "VICTIM-cwd", "cwd/x": "X-cwd", "cwd/pkg/d/keep": "KEEP", "cwd/outdir/keep": "KEEP",
	}
	delete(files, "a/new/.keep") // "new" must not exist: creations are observed there
	for rel, body := range files {
		if err := mustWrite(filepath.Join(sb.root, rel), body, 0o600); err != nil {
			return sb, err
		}
	}
	for _, d := range []string{sb.wd, sb.tmp} {
		if d == sb.wd && prepop == "absent" {
			continue // the store creates its working directory on first use
		}
		if err := os.MkdirAll(d, 0o755); err != nil {
			return sb, err
		}
	}
	// pre-population of the working directory: files, directories and
	// symbolic links that point INSIDE the working directory only
	mk := func(rel string) error { return os.MkdirAll(filepath.Join(sb.wd, rel), 0o755) }
	ln := func(target, rel string) error {
		p := filepath.Join(sb.wd, rel)
		if err := os.MkdirAll(filepath.Dir(p), 0o755); err != nil {
			return err
		}
		sb.prepopLinks[p] = true
		return os.Symlink(target, p)
	}
	for _, what := range prepopParts[prepop] {
		var err error
		switch what {
		case "d":
			if err = mk("pkg/d"); err == nil {
				err = mustWrite(filepath.Join(sb.wd, "pkg/d/keep"), "KEEP", 0o644)
			}
		case "s":
			err = ln("..", "pkg/d/s") // -> wd/pkg
		case "sub":
			if err = mk("sub"); err == nil {
				if err = ln("..", "sub/up"); err == nil { // -> wd
					if err = ln("sub", "in"); err == nil { // -> wd/sub
						err = mustWrite(filepath.Join(sb.wd, "f0"), "F0", 0o644)
					}
				}
			}
		}
		if err != nil {
			return sb, err
		}
	}
	// inode table of outside regular files (to recognise planted hard links)
	_ = filepath.WalkDir(sb.top, func(p string, d fs.DirEntry, err error) error {
		if err != nil {
			return nil
		}
		if p == sb.wd {
			if d.IsDir() {
				return filepath.SkipDir
			}
			return nil // the store made a FILE of its working directory (title "."): SkipDir would skip its siblings
		}
		if d.Type().IsRegular() {
			if fi, err := d.Info(); err == nil {
				if st, ok := fi.Sys().(*syscall.Stat_t); ok {
					rel, _ := filepath.Rel(sb.top, p)
					sb.outsideInodes[st.Ino] = rel
				}
			}
		}
		return nil
	})
	return sb, nil
}

// prepopParts lists what each pre-population kind creates in the working directory.
var prepopParts = map[string][]string{
	"empty":  nil,
	"absent": nil, // the working directory does not exist yet
	"d":      {"d"},
	"ds":     {"d", "s"},
	"sub":    {"sub"},
	"full":   {"d", "s", "sub"},
}

// prepopLinkTargets: symbolic links (base name -> target) each kind creates (for Case.climb).
var prepopLinkTargets = map[string]map[string]string{
	"s":   {"s": ".."},
	"sub": {"up": "..", "in": "sub"},
}

func (sb *sandbox) destroy() {
	if sb == nil || sb.top == "" {
		return
	}
	_ = os.Chdir(jailBase)
	_ = os.RemoveAll(sb.top)
}

func (sb *sandbox) expand(s string) string {
	return strings.NewReplacer("$WD", sb.wd, "$ROOT", sb.root).Replace(s)
}

func (sb *sandbox) inWD(p string) bool {
	return p == sb.wd || strings.HasPrefix(p, sb.wd+"/")
}

// snapshot maps every object below top (relative path), except the working
// directory's subtree and TMPDIR's content, to a description of exactly what
// the statement talks about: type, permission bits, content (size + SHA-256),
// link target. Times and link counts are deliberately absent.
type snapshot map[string]string

func (sb *sandbox) snap() (snapshot, error) {
	out := snapshot{}
	err := filepath.WalkDir(sb.top, func(p string, d fs.DirEntry, err error) error {
		if err != nil {
			return err
		}
		if p == sb.wd {
			if d.IsDir() {
				return filepath.SkipDir
			}
			return nil // the store made a FILE of its working directory (title "."): SkipDir would skip its siblings
		}
		rel, _ := filepath.Rel(sb.top, p)
		fi, err := os.Lstat(p)
		if err != nil {
			return err
		}
		perm := fi.Mode() & (os.ModePerm | os.ModeSetuid | os.ModeSetgid | os.ModeSticky)
		switch {
		case fi.Mode()&os.ModeSymlink != 0:
			t, _ := os.Readlink(p)
			out[rel] = "symlink -> " + t
		case fi.IsDir():
			out[rel] = fmt.Sprintf("dir %v", perm)
			if p == sb.tmp {
				return filepath.SkipDir
			}
		case fi.Mode().IsRegular():
			b, err := os.ReadFile(p)
			if err != nil {
				return err
			}
			h := sha256.Sum256(b)
			out[rel] = fmt.Sprintf("file %v size=%d sha256=%s", perm, len(b), hex.EncodeToString(h[:8]))
		default:
			out[rel] = fmt.Sprintf("other %v", fi.Mode())
		}
		return nil
	})
	return out, err
}

type change struct {
	Path   string `json:"path"` // relative to the sandbox top
	Kind   string `json:"kind"` // created | deleted | modified
	Before string `json:"before,omitempty"`
	After  string `json:"after,omitempty"`
}

func diffSnap(a, b snapshot) []change {
	var out []change
	for p, va := range a {
		vb, ok := b[p]
		switch {
		case !ok:
			out = append(out, change{p, "deleted", va, ""})
		case va != vb:
			out = append(out, change{p, "modified", va, vb})
		}
	}
	for p, vb := range b {
		if _, ok := a[p]; !ok {
			out = append(out, change{p, "created", "", vb})
		}
	}
	sort.Slice(out, func(i, j int) bool { return out[i].Path < out[j].Path })
	return out
}

// foreignTmp lists entries of TMPDIR that are not the store's own temporary files.
func (sb *sandbox) foreignTmp() []string {
	var out []string
	ents, err := os.ReadDir(sb.tmp)
	if err != nil {
		return []string{"<TMPDIR unreadable: " + err.Error() + ">"}
	}
	for _, e := range ents {
		if !strings.HasPrefix(e.Name(), "oras_file_") || !e.Type().IsRegular() {
			out = append(out, e.Name())
		}
	}
	return out
}

// planted reports objects inside the working directory that lead outside of
// it: symbolic links whose real destination is outside (or that dangle towards
// the outside) and hard links to files outside.
func (sb *sandbox) planted() (symlinks, hardlinks int) {
	_ = filepath.WalkDir(sb.wd, func(p string, d fs.DirEntry, err error) error {
		if err != nil {
			return nil
		}
		switch {
		case d.Type()&os.ModeSymlink != 0:
			real, err := filepath.EvalSymlinks(p)
			if err == nil {
				if !sb.inWD(real) {
					symlinks++
				}
			} else if w := sb.walk(p); w.realOutside {
				symlinks++
			}
		case d.Type().IsRegular():
			if fi, err := d.Info(); err == nil {
				if st, ok := fi.Sys().(*syscall.Stat_t); ok && st.Nlink > 1 {
					if _, out := sb.outsideInodes[st.Ino]; out {
						hardlinks++
					}
				}
			}
		}
		return nil
	})
	return
}

// walkInfo says how the kernel would resolve a path (used only to name the
// escape mechanism in violation keys, never for the verdict).
type walkInfo struct {
	parentSymlink bool // a non-final component is a symbolic link
	finalSymlink  bool
	finalHardlink bool // existing regular file with link count > 1
	unclean       bool // the raw path has ".." after a symbolic link component
	realOutside   bool // the real location (of the deepest existing part) is outside the working directory
	viaPrepop     bool // all links passed were created by pre-population
}

func (sb *sandbox) walk(raw string) walkInfo { return sb.walkN(raw, 0) }

func (sb *sandbox) walkN(raw string, depth int) walkInfo {
	var w walkInfo
	if depth > 8 {
		return w
	}
	w.viaPrepop = true
	if !filepath.IsAbs(raw) {
		raw = sb.wd + "/" + raw
	}
	segs := strings.Split(raw, "/")
	cur := "/"
	sawLink := false
	for i, seg := range segs {
		if seg == "" || seg == "." {
			continue
		}
		if seg == ".." {
			if sawLink {
				w.unclean = true
			}
			cur = filepath.Dir(cur)
			continue
		}
		next := filepath.Join(cur, seg)
		fi, err := os.Lstat(next)
		if err != nil {
			// the rest does not exist: lexical from here
			cur = filepath.Join(append([]string{cur}, segs[i:]...)...)
			break
		}
		last := i == len(segs)-1
		if fi.Mode()&os.ModeSymlink != 0 {
			sawLink = true
			if !sb.prepopLinks[next] {
				w.viaPrepop = false
			}
			if last {
				w.finalSymlink = true
			} else {
				w.parentSymlink = true
			}
			real, err := filepath.EvalSymlinks(next)
			if err != nil {
				// dangling: where would it be created?
				t, _ := os.Readlink(next)
				if !filepath.IsAbs(t) {
					t = filepath.Join(cur, t)
				}
				sub := sb.walkN(t, depth+1)
				w.realOutside = sub.realOutside || !sb.inWD(filepath.Clean(t))
				return w
			}
			cur = real
			continue
		}
		if last && fi.Mode().IsRegular() {
			if st, ok := fi.Sys().(*syscall.Stat_t); ok && st.Nlink > 1 {
				w.finalHardlink = true
			}
		}
		cur = next
	}
	w.realOutside = !sb.inWD(cur)
	if !sawLink {
		w.viaPrepop = false
	}
	return w
}
