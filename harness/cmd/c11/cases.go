package main

import (
	"fmt"
	"math/rand/v2"
	"path/filepath"
	"strings"
)

// Entry is one tar entry. In names and link targets "$WD" stands for the
// absolute path of the store's working directory and "$ROOT" for the sandbox
// root (the working directory is $ROOT/a/wd, the process runs in $ROOT/cwd).
type Entry struct {
	T string `json:"t"` // reg | dir | sym | link | fifo
	N string `json:"n"`
	L string `json:"l,omitempty"`
	M string `json:"m,omitempty"` // recorded permission bits in octal ("0555"); "" = 0644 for files, 0755 for directories
}

// Push is one call of Store.Push.
type Push struct {
	Kind     string  `json:"kind"`  // archive (tar+gzip marked for unpacking) | blob (named blob) | restore (manifest whose layer carries the title)
	Title    string  `json:"title"` // org.opencontainers.image.title
	Entries  []Entry `json:"entries,omitempty"`
	Checksum string  `json:"checksum,omitempty"` // io.deis.oras.content.digest: "" absent | ok | bad
	// Fail makes the push itself fail while the content is copied: digest (descriptor names another digest) |
	// short (fewer bytes than Size) | long (more bytes than Size) | reader (the reader fails half-way)
	Fail string `json:"fail,omitempty"`
}

// Case is one sandboxed execution.
type Case struct {
	Note   string `json:"note,omitempty"`
	Fix    string `json:"fixed_by,omitempty"`
	Prepop string `json:"prepop"`           // empty | d | ds | sub | full (see prepopParts)
	RelWD  bool   `json:"rel_wd,omitempty"` // file.New gets a path relative to the process directory
	Chain  bool   `json:"chain,omitempty"`  // working directory = $ROOT/e1/e2/wd, e1 and e2 otherwise empty (instead of $ROOT/a/wd)
	Pushes []Push `json:"pushes"`
}

func reg(n string) Entry     { return Entry{T: "reg", N: n} }
func dir(n string) Entry     { return Entry{T: "dir", N: n} }
func sym(n, l string) Entry  { return Entry{T: "sym", N: n, L: l} }
func dirm(n, m string) Entry { return Entry{T: "dir", N: n, M: m} }
func link(n, l string) Entry { return Entry{T: "link", N: n, L: l} }

// vocab is the reduced vocabulary that is enumerated exhaustively (title
// "pkg", working directory pre-populated with the directory pkg/d). Its
// entries are the ones that can interact: planting links that are lexically
// inside but really outside, reusing their names, passing through them,
// naming files of the process directory, and the plainly illegal ones.
var vocab = []Entry{
	/* 0*/ sym("pkg/d/f", "s/../../new"), // DANGLING: lexically pkg/new, really the not yet existing $ROOT/a/new (pkg/d itself is pre-populated)
	/* 1*/ sym("pkg/d/s", ".."), // -> pkg (inside)
	/* 2*/ sym("pkg/d/f", "s/../../victim"), // lexically pkg/victim, really $ROOT/a/victim
	/* 3*/ reg("pkg/d/f"),
	/* 4*/ link("pkg/x", "secret"), // a file of the process directory
	/* 5*/ reg("pkg/x"),
	/* 6*/ sym("pkg/d/o", "s/../.."), // lexically pkg, really $ROOT/a
	/* 7*/ reg("pkg/d/o/new"), // through a directory link
	/* 8*/ dir("pkg/d/o/outdir/nd"),
	/* 9*/ link("pkg/x", "$WD/pkg/d/s/../../victim"), // absolute, ".." after a link
	/*10*/ sym("pkg/x", "d/f"), // chain
	/*11*/ link("pkg/x", "d/f"), // hard link to a symbolic link
	/*12*/ reg("../victim"), // lexically outside: must be refused
	/*13*/ sym("pkg/e", "../../victim"), // target lexically outside: must be refused
	/*14*/ sym("pkg/e", "$ROOT/a/victim"),
	/*15*/ link("pkg/h", "$ROOT/a/victim"),
	/*16*/ dir("pkg/d/f"), // directory over a link
	/*17*/ reg("pkg/d"), // regular file over a directory
	/*18*/ reg("$WD/pkg/x"), // absolute name inside
	/*19*/ reg("$ROOT/a/victim"), // absolute name outside
	/*20*/ sym("pkg/d/f", "o/victim"), // target through a directory link
	/*21*/ link("pkg/y", "x"), // alias of an earlier (hard) link
	/*22*/ reg("pkg/y"),
	/*23*/ dir("pkg/d/o"), // directory over a directory link
	/*24*/ sym("pkg/d/f", "s/../../outdir/newfile"), // DANGLING: new file in an existing outside directory
	/*25*/ dirm("pkg/d/o", "0555"), // directory its owner may not write to; entry 6 can replace it (still empty) by a link to $ROOT/a
	/*26*/ link("pkg/d/f", "keep"), // hard link whose NAME is taken by an earlier link; its source pkg/d/keep is pre-populated
}

// followUps are pushed, one after the other, after an enumerated archive in
// the "multi" phase; each is judged on its own.
var followUps = []Push{
	{Kind: "blob", Title: "pkg/d/f"},
	{Kind: "blob", Title: "pkg/x"},
	{Kind: "blob", Title: "pkg/y"},
	{Kind: "blob", Title: "pkg/d/o/new2"},
	{Kind: "blob", Title: "pkg/d/o/outdir/sub/new3"},
	{Kind: "blob", Title: "pkg/d/s/n"},
	{Kind: "blob", Title: "$WD/pkg/d/s/../../victim"},
	{Kind: "blob", Title: "$WD/pkg/d/s/../../new4"},
	{Kind: "archive", Title: "pkg/d/o/outdir", Entries: []Entry{reg("pkg/d/o/outdir/z")}},
	{Kind: "archive", Title: "pkg/d/s/t", Entries: []Entry{reg("pkg/d/s/t/z")}},
	{Kind: "archive", Title: "$WD/pkg/d/s/../../new5", Entries: []Entry{reg("$WD/pkg/d/s/../../new5/z")}},
	{Kind: "restore", Title: "pkg/e"},
	{Kind: "restore", Title: "pkg/d/o/new6"},
}

func pow(b, e int) int {
	n := 1
	for ; e > 0; e-- {
		n *= b
	}
	return n
}

// exhCount is the number of sequences of length 1..maxLen over the vocabulary.
func exhCount(maxLen int) int {
	n := 0
	for l := 1; l <= maxLen; l++ {
		n += pow(len(vocab), l)
	}
	return n
}

// exhSeq maps an index to the i-th sequence (shorter sequences first).
func exhSeq(i int) []int {
	v := len(vocab)
	for l := 1; ; l++ {
		n := pow(v, l)
		if i < n {
			seq := make([]int, l)
			for k := l - 1; k >= 0; k-- {
				seq[k] = i % v
				i /= v
			}
			return seq
		}
		i -= n
	}
}

func seqEntries(seq []int) []Entry {
	out := make([]Entry, len(seq))
	for k, v := range seq {
		out[k] = vocab[v]
	}
	return out
}

// ---- titles --------------------------------------------------------------

var titleSegs = []string{"..", ".", "", "x", "in", "up", "wd", "wd.lock", "wd-backup"}

const titleForms = 3 // relative | $WD/… | $ROOT/a/…
const titleKinds = 2 // blob | archive
const titleDirs = 2  // working directory pre-populated ("sub") | not existing yet ("absent")

func titleCount(maxLen int) int {
	n := 0
	for l := 1; l <= maxLen; l++ {
		n += pow(len(titleSegs), l)
	}
	return n * titleForms * titleKinds * titleDirs
}

func titleCase(i int) Case {
	prepop := []string{"sub", "absent"}[i%titleDirs]
	i /= titleDirs
	kind := i % titleKinds
	i /= titleKinds
	form := i % titleForms
	i /= titleForms
	v := len(titleSegs)
	var segs []string
	for l := 1; ; l++ {
		n := pow(v, l)
		if i < n {
			segs = make([]string, l)
			for k := l - 1; k >= 0; k-- {
				segs[k] = titleSegs[i%v]
				i /= v
			}
			break
		}
		i -= n
	}
	t := strings.TrimLeft(strings.Join(segs, "/"), "/") // never a bare absolute path
	switch form {
	case 1:
		t = "$WD/" + t
	case 2:
		t = "$ROOT/a/" + t
	}
	p := Push{Kind: "blob", Title: t}
	if kind == 1 {
		p = Push{Kind: "archive", Title: t, Entries: []Entry{dir(join(t, "zd")), reg(join(t, "zd/z")), reg(join(t, "z"))}}
	}
	return Case{Prepop: prepop, Pushes: []Push{p}}
}

// ---- failing pushes ----------------------------------------------------------

var failModes = []string{"digest", "short", "long", "reader"}
var failTitles = []string{"f.txt", "a/f.txt", "a/b/c.txt", "$WD/a/b/c.txt", "./a//b/c.txt", "pkg/d/n/f.txt"}
var failPrepops = []string{"empty", "absent", "d"}

// failCount: every (title, failure mode, kind, layout, pre-population) combination.
func failCount() int { return len(failTitles) * len(failModes) * 2 * 2 * len(failPrepops) }

// failCase: ONE push that fails while its content is copied — after the store
// has made the directories (and, for a named blob, the file) for it.
func failCase(i int) Case {
	t := failTitles[i%len(failTitles)]
	i /= len(failTitles)
	f := failModes[i%len(failModes)]
	i /= len(failModes)
	kind := i % 2
	i /= 2
	chain := i%2 == 0
	i /= 2
	c := Case{Prepop: failPrepops[i%len(failPrepops)], Chain: chain}
	p := Push{Kind: "blob", Title: t, Fail: f}
	if kind == 1 {
		p = Push{Kind: "archive", Title: t, Fail: f, Entries: []Entry{dir(join(t, "zd")), reg(join(t, "zd/z"))}}
	}
	// a second, successful push shows that the store still works where it should
	c.Pushes = []Push{p, {Kind: "blob", Title: "after/ok.txt"}}
	return c
}

// ---- random / mutated sequences over the full vocabulary -------------------

var nameSegs = []string{"d", "s", "f", "x", "o", "e", "h", "y", "new", "outdir", "victim", "sub", "up", "in"}

// tails name existing objects outside the working directory and, as often, objects that do NOT exist yet
// (a new file next to the working directory, a new file in an existing outside directory): a link to
// those dangles, and whatever is written through it is a creation.
var tails = []string{"victim", "victim2", "outdir", "outdir/new", "new", "", "cwd/secret", "pkg", "pkg/keep", "a/victim", "secret",
	"outdir/newfile", "created.txt", "new2", "pkg/created.txt", "sub/newfile", "cwd/newfile",
	"wd.lock", "wd-backup/x", "wd-backup", "a/wd.lock"}
var randTitles = []string{"pkg", "pkg", "pkg", "pkg", "pkg", "pkg", "pkg/sub2", ".", "sub/outdir", "sub/pkg", "in/pkg", "$WD/pkg", "p/q", "pkg/", "./pkg", "outdir"}

func pick[T any](rng *rand.Rand, xs []T) T { return xs[rng.IntN(len(xs))] }

func dots(n int) string {
	s := make([]string, n)
	for i := range s {
		s[i] = ".."
	}
	return strings.Join(s, "/")
}

func join(parts ...string) string {
	var out []string
	for _, p := range parts {
		if p != "" {
			out = append(out, p)
		}
	}
	return strings.Join(out, "/")
}

// safe keeps every generated path inside the sandbox: a bare absolute path
// (possible when an empty title or segment leads) is re-rooted at $ROOT.
func safe(s string) string {
	if strings.HasPrefix(s, "/") {
		return "$ROOT" + s
	}
	return s
}

func genName(rng *rand.Rand, title string, earlier []Entry) string {
	return safe(genName0(rng, title, earlier))
}

func genName0(rng *rand.Rand, title string, earlier []Entry) string {
	segs := func(n int) string {
		s := make([]string, n)
		for i := range s {
			s[i] = pick(rng, nameSegs[:10])
		}
		return strings.Join(s, "/")
	}
	if len(earlier) > 0 {
		switch r := rng.IntN(100); {
		case r < 30:
			return pick(rng, earlier).N
		case r < 45:
			return pick(rng, earlier).N + "/" + pick(rng, nameSegs)
		}
	}
	switch r := rng.IntN(100); {
	case r < 60:
		return join(title, segs(1+rng.IntN(3)))
	case r < 65:
		return title
	case r < 73:
		return pick(rng, []string{
			join(title, "d/../x"), join(title, "../x"), "../x", join(title, "d/s/../../victim"), join(title, "d/s/../../../victim"),
			join(title, "..", title, "x"), dots(1+rng.IntN(3)) + "/victim", join(title, "d/o/../../../victim"),
			"./" + pick(rng, nameSegs) + "/" + dots(2+rng.IntN(3)) + "/" + pick(rng, tails), "./d/../../../victim", "./x/../../victim", "./" + dots(1) + "/x"})
	case r < 80:
		if strings.HasPrefix(title, "$") {
			return join(title, segs(1+rng.IntN(2)))
		}
		return join("$WD", title, segs(1+rng.IntN(2)))
	case r < 84:
		return pick(rng, []string{"$ROOT/a/victim", "$ROOT/a/outdir/new", "$ROOT/victim", "$ROOT/cwd/secret", "$WD/../victim"})
	case r < 89:
		return segs(1 + rng.IntN(2))
	case r < 93:
		return "./" + join(title, segs(1))
	case r < 96:
		return title + "//" + segs(1)
	default:
		return join(title, segs(1)) + "/"
	}
}

func cleanRel(s string) string { return filepath.Clean(strings.TrimPrefix(s, "$WD/")) }

func genTarget(rng *rand.Rand, title, name string, earlier []Entry) string {
	return safe(genTarget0(rng, title, name, earlier))
}

func genTarget0(rng *rand.Rand, title, name string, earlier []Entry) string {
	var links []Entry
	for _, e := range earlier {
		if e.T == "sym" || e.T == "link" {
			links = append(links, e)
		}
	}
	relTo := func(e Entry) string {
		r, err := filepath.Rel(filepath.Dir(cleanRel(name)), cleanRel(e.N))
		if err != nil {
			return filepath.Base(e.N)
		}
		return r
	}
	r := rng.IntN(100)
	if len(links) == 0 && (r >= 15 && r < 35 || r >= 65 && r < 75) {
		r = rng.IntN(15)
	}
	switch {
	case r < 8:
		return pick(rng, []string{"x", "d", ".", "..", "f", "s", "../x", "d/keep"})
	case r < 15:
		return pick(rng, []string{"..", ".", "../..", "../../..", "up/..", "up/../outdir", "up/../pkg", "in/up/../victim", "s/../..", "s/../../victim", "d/s/../../victim", "d/s/../../../victim"})
	case r < 35: // through an earlier link, then upwards
		return join(relTo(pick(rng, links)), dots(1+rng.IntN(4)), pick(rng, tails))
	case r < 45:
		return join(dots(1+rng.IntN(4)), pick(rng, tails))
	case r < 55:
		return pick(rng, []string{"secret", "./secret", "victim", "x", "pkg/d/keep", "outdir/keep", "../cwd/secret"})
	case r < 65:
		if len(earlier) > 0 {
			n := pick(rng, earlier).N
			if strings.HasPrefix(n, "$") {
				return n
			}
			return "$WD/" + n
		}
		return join("$WD", strings.TrimPrefix(title, "$WD/"), "x")
	case r < 75: // absolute, ".." after an earlier link
		n := pick(rng, links).N
		if !strings.HasPrefix(n, "$") {
			n = "$WD/" + n
		}
		return join(n, dots(1+rng.IntN(4)), pick(rng, tails))
	case r < 83:
		return pick(rng, []string{"$ROOT/a/victim", "$ROOT/victim", "$ROOT/cwd/secret", "$ROOT/a/outdir", "$ROOT/a", "$ROOT/a/new", "$WD/../victim", "$WD"})
	case r < 90:
		if len(earlier) > 0 {
			return pick(rng, earlier).N // tar convention: relative to the extraction root
		}
		return join(title, "x")
	default:
		if len(earlier) > 0 {
			e := pick(rng, earlier)
			if e.T == "dir" && rng.IntN(2) == 0 {
				// below an earlier directory entry: the directory is examined, not filled
				return relTo(e) + "/" + pick(rng, []string{"later", "keep", "x/later"})
			}
			return relTo(e)
		}
		return "x"
	}
}

func genEntry(rng *rand.Rand, title string, earlier []Entry) Entry {
	n := genName(rng, title, earlier)
	var linkNames []string
	for _, e := range earlier {
		if e.T == "sym" || e.T == "link" {
			linkNames = append(linkNames, e.N)
		}
	}
	if len(linkNames) > 0 && rng.IntN(100) < 22 {
		// an entry over an earlier link (dangling or not): the shape that must replace the link, never follow it
		n = pick(rng, linkNames)
		switch r := rng.IntN(10); {
		case r < 6:
			return reg(n)
		case r < 8:
			return dirm(n, pick(rng, []string{"", "0555", "0300", "0000"}))
		default:
			// a HARD LINK entry whose name is taken by the earlier link, with an existing source
			src := "keep"
			for _, e := range earlier {
				if e.T == "reg" && rng.IntN(2) == 0 {
					if r, err := filepath.Rel(filepath.Dir(cleanRel(n)), cleanRel(e.N)); err == nil {
						src = r
					}
				}
			}
			return link(n, src)
		}
	}
	var dirNames []string
	for _, e := range earlier {
		if e.T == "dir" {
			dirNames = append(dirNames, e.N)
		}
	}
	if len(dirNames) > 0 && len(linkNames) > 0 && rng.IntN(100) < 15 {
		// a link entry replacing an earlier (still empty) directory entry
		n = pick(rng, dirNames)
		return sym(n, genTarget(rng, title, n, earlier))
	}
	switch r := rng.IntN(100); {
	case r < 33:
		e := reg(n)
		if rng.IntN(5) == 0 {
			e.M = pick(rng, []string{"0444", "0000", "0755", "0600", "04755"})
		}
		return e
	case r < 47:
		e := dir(n)
		if rng.IntN(2) == 0 {
			// directories recorded without owner write / search permission, and other non-default modes
			e.M = pick(rng, []string{"0555", "0555", "0500", "0300", "0000", "0700", "0777", "0111", "01777"})
		}
		return e
	case r < 78:
		return sym(n, genTarget(rng, title, n, earlier))
	case r < 96:
		return link(n, genTarget(rng, title, n, earlier))
	default:
		return Entry{T: "fifo", N: n}
	}
}

func genArchive(rng *rand.Rand, title string, n int) Push {
	p := Push{Kind: "archive", Title: title}
	for len(p.Entries) < n {
		p.Entries = append(p.Entries, genEntry(rng, title, p.Entries))
	}
	switch rng.IntN(6) {
	case 0:
		p.Checksum = "ok"
	case 1:
		p.Checksum = "bad"
	}
	return p
}

func genPrepop(rng *rand.Rand) string {
	return pick(rng, []string{"empty", "empty", "empty", "absent", "d", "d", "ds", "sub", "full", "full"})
}

func cloneCase(c Case) Case {
	out := c
	out.Pushes = make([]Push, len(c.Pushes))
	for i, p := range c.Pushes {
		out.Pushes[i] = p
		out.Pushes[i].Entries = append([]Entry{}, p.Entries...)
	}
	return out
}

// mutate applies 1–3 small edits to a corpus case.
func mutate(rng *rand.Rand, c Case) Case {
	c = cloneCase(c)
	c.Note = "mutant of: " + c.Note
	c.Fix = ""
	for n := 1 + rng.IntN(3); n > 0; n-- {
		var arch []int
		for i, p := range c.Pushes {
			if p.Kind == "archive" {
				arch = append(arch, i)
			}
		}
		if len(arch) == 0 {
			c.Pushes = append([]Push{genArchive(rng, "pkg", 1+rng.IntN(4))}, c.Pushes...)
			continue
		}
		p := &c.Pushes[pick(rng, arch)]
		es := p.Entries
		switch op := rng.IntN(9); {
		case op == 0 && len(es) > 1: // delete
			k := rng.IntN(len(es))
			p.Entries = append(es[:k:k], es[k+1:]...)
		case op == 1 && len(es) > 1: // swap neighbours
			k := rng.IntN(len(es) - 1)
			es[k], es[k+1] = es[k+1], es[k]
		case op == 2 && len(es) > 0 && len(es) < 10: // duplicate
			k := rng.IntN(len(es))
			p.Entries = append(es, es[k])
		case op == 3 && len(es) > 0: // new target
			k := rng.IntN(len(es))
			if es[k].T == "sym" || es[k].T == "link" {
				es[k].L = genTarget(rng, p.Title, es[k].N, es[:k])
			}
		case op == 4 && len(es) > 0: // other type
			k := rng.IntN(len(es))
			es[k].T = pick(rng, []string{"reg", "dir", "sym", "link"})
			if (es[k].T == "sym" || es[k].T == "link") && es[k].L == "" {
				es[k].L = genTarget(rng, p.Title, es[k].N, es[:k])
			}
		case op == 5 && len(es) > 1: // reuse another entry's name
			k := rng.IntN(len(es))
			es[k].N = es[rng.IntN(len(es))].N
		case op == 6:
			c.Prepop = genPrepop(rng)
		case op == 7: // append a later push using a planted name
			if len(c.Pushes) < 5 {
				c.Pushes = append(c.Pushes, genFollowUp(rng, c))
			}
		default: // insert
			if len(es) < 10 {
				k := rng.IntN(len(es) + 1)
				e := genEntry(rng, p.Title, es[:k])
				p.Entries = append(es[:k:k], append([]Entry{e}, es[k:]...)...)
			}
		}
	}
	return c
}

// genFollowUp makes a later push that uses what earlier archives may have planted.
func genFollowUp(rng *rand.Rand, c Case) Push {
	var names []string
	for _, p := range c.Pushes {
		for _, e := range p.Entries {
			names = append(names, e.N)
		}
	}
	if len(names) == 0 {
		names = []string{"pkg/d/s", "sub/up", "in"}
	}
	if c.Prepop == "sub" || c.Prepop == "full" {
		names = append(names, "sub/up", "in", "in/up")
	}
	n := pick(rng, names)
	abs := n
	if !strings.HasPrefix(abs, "$") {
		abs = "$WD/" + n
	}
	var title string
	switch r := rng.IntN(100); {
	case r < 25:
		title = n
	case r < 45:
		title = n + "/" + pick(rng, []string{"new", "outdir/new", "victim", "nd/new", "pkg/new"})
	case r < 60:
		title = join(abs, dots(1+rng.IntN(3)), pick(rng, append(tails[:5:5], tails[11:]...)))
	case r < 70:
		title = join(n, dots(1+rng.IntN(3)), pick(rng, append(tails[:5:5], tails[11:]...)))
	case r < 80:
		title = abs
	case r < 90:
		title = join(abs, pick(rng, []string{"new", "outdir", "outdir/new"}))
	default:
		title = pick(rng, []string{"../victim", "$ROOT/a/victim", "pkg2", "", ".", "$WD", "$WD/../victim", "pkg/../../victim",
			"../wd.lock", "../wd-backup/x", "../wd-backup", "$WD.lock", "$WD-backup/x", "$WD-backup", "$ROOT/a/wd.lock", "$ROOT/a/wd-backup/new", "../wdx", "pkg/../../wd.lock"})
	}
	title = safe(title)
	fail := ""
	if rng.IntN(6) == 0 {
		fail = pick(rng, failModes)
	}
	switch r := rng.IntN(100); {
	case r < 55:
		return Push{Kind: "blob", Title: title, Fail: fail}
	case r < 90:
		a := genArchive(rng, title, 1+rng.IntN(3))
		a.Fail = fail
		return a
	default:
		return Push{Kind: "restore", Title: title}
	}
}

func genRandCase(rng *rand.Rand, multi bool) Case {
	if rng.IntN(100) < 30 {
		c := mutate(rng, corpus[rng.IntN(len(corpus))])
		if !multi && len(c.Pushes) > 1 && rng.IntN(2) == 0 {
			c.Pushes = c.Pushes[:1]
		}
		return c
	}
	c := Case{Prepop: genPrepop(rng), RelWD: rng.IntN(8) == 0, Chain: rng.IntN(8) == 0}
	title := pick(rng, randTitles)
	c.Pushes = []Push{genArchive(rng, title, 1+rng.IntN(10))}
	if rng.IntN(100) < 14 {
		c.Pushes[0].Entries = genReplacedDir(rng, title)
	}
	if multi {
		if rng.IntN(4) == 0 { // a second planting archive under another name
			c.Pushes = append(c.Pushes, genArchive(rng, pick(rng, []string{"pkg/d", "pkg2", "pkg/sub2", "sub"}), 1+rng.IntN(4)))
		}
		for n := 1 + rng.IntN(4); n > 0; n-- {
			c.Pushes = append(c.Pushes, genFollowUp(rng, c))
		}
	}
	return c
}

// genReplacedDir builds the shape "a directory that stays empty, looked at on
// behalf of OTHER entries (link targets below it, entries beside it), is later
// replaced by a symlink that is lexically inside but really outside, and then
// used as a parent": up-link, empty directory, probes, replacing link, writes.
// Steps are sometimes dropped or reordered and unrelated entries interleaved,
// so near misses are produced as well.
func genReplacedDir(rng *rand.Rand, title string) []Entry {
	t := strings.TrimRight(strings.TrimPrefix(title, "./"), "/")
	if t == "." {
		t = ""
	}
	sdir := join(t, pick(rng, []string{"s", "d", "x/y"}))
	up := join(sdir, "up")
	adir := join(t, pick(rng, []string{"a", "q", "d/q", "e/a"}))
	// from the directory of adir to the up-link, then out
	rel, err := filepath.Rel(filepath.Dir(cleanRel(adir)), cleanRel(up))
	if err != nil {
		rel = "s/up"
	}
	depth := strings.Count(cleanRel(up), "/") // ".." steps that stay lexically inside
	outs := []string{"outdir", "", "pkg", "victim", "wd-backup", "newdir"}
	target := join(rel, dots(1+rng.IntN(depth+1)), pick(rng, outs))
	probeTargets := []string{"later", "x/later", "keep", "."}
	var es []Entry
	es = append(es, dir(sdir), sym(up, ".."))
	if rng.IntN(5) == 0 {
		es = append(es, dir(filepath.Dir(adir)))
	}
	es = append(es, dirm(adir, pick(rng, []string{"", "", "", "0555", "0700"})))
	for n := rng.IntN(3); n > 0; n-- { // entries that make the extraction look at adir without filling it
		pn := join(t, pick(rng, []string{"probe", "p2", "s/probe", "e/probe"}))
		prel, err := filepath.Rel(filepath.Dir(cleanRel(pn)), cleanRel(adir))
		if err != nil {
			prel = "a"
		}
		switch rng.IntN(4) {
		case 0:
			es = append(es, link(pn, join(prel, pick(rng, probeTargets)))) // fails: nothing there yet (near miss)
		case 1:
			es = append(es, sym(pn, "$WD/"+join(cleanRel(adir), pick(rng, probeTargets))))
		default:
			es = append(es, sym(pn, join(prel, pick(rng, probeTargets))))
		}
	}
	if rng.IntN(8) > 0 {
		es = append(es, sym(adir, target))
	}
	for n := 1 + rng.IntN(2); n > 0; n-- {
		leaf := join(adir, pick(rng, []string{"keep", "victim.txt", "new", "x/new", "victim", "wd/x"}))
		if rng.IntN(4) == 0 {
			es = append(es, dir(leaf))
		} else {
			es = append(es, reg(leaf))
		}
	}
	// interleave up to two unrelated entries, occasionally drop one step
	for n := rng.IntN(3); n > 0; n-- {
		k := rng.IntN(len(es) + 1)
		e := genEntry(rng, title, es[:k])
		es = append(es[:k:k], append([]Entry{e}, es[k:]...)...)
	}
	if rng.IntN(6) == 0 && len(es) > 3 {
		k := rng.IntN(len(es))
		es = append(es[:k:k], es[k+1:]...)
	}
	if len(es) > 12 {
		es = es[:12]
	}
	return es
}

// ---- structural measures ---------------------------------------------------

const climbInf = 1000

// climb bounds from above the number of levels that resolving any string of
// the case can move upwards: every ".." counts one, every segment that is the
// base name of a link (of any push, or of the pre-population) counts the bound
// of that link's targets. A cycle yields climbInf.
func (c Case) climb() int {
	links := map[string][]string{}
	for _, part := range prepopParts[c.Prepop] {
		for n, t := range prepopLinkTargets[part] {
			links[n] = append(links[n], t)
		}
	}
	var all []string
	for _, p := range c.Pushes {
		all = append(all, p.Title)
		for _, e := range p.Entries {
			all = append(all, e.N)
			if e.T == "sym" || e.T == "link" {
				all = append(all, e.L)
				b := filepath.Base(filepath.Clean(e.N))
				links[b] = append(links[b], e.L)
			}
		}
	}
	memo := map[string]int{}
	visiting := map[string]bool{}
	var ups func(s string) int
	ups = func(s string) int {
		if v, ok := memo[s]; ok {
			return v
		}
		if visiting[s] {
			return climbInf
		}
		visiting[s] = true
		n := 0
		for _, seg := range strings.Split(s, "/") {
			if seg == ".." {
				n++
				continue
			}
			m := 0
			for _, t := range links[seg] {
				if u := ups(t); u > m {
					m = u
				}
			}
			n += m
		}
		if n > climbInf {
			n = climbInf
		}
		visiting[s] = false
		memo[s] = n
		return n
	}
	max := 0
	for _, s := range all {
		if u := ups(s); u > max {
			max = u
		}
	}
	return max
}

// lexWalk resolves target lexically from directory `from` (both relative to
// the working directory, "$WD/" prefix stripped) and returns every
// intermediate location.
func lexWalk(from, target string) []string {
	var cur []string
	if strings.HasPrefix(target, "$WD/") {
		target = strings.TrimPrefix(target, "$WD/")
	} else if strings.HasPrefix(target, "$") {
		return nil
	} else if from != "." && from != "" {
		cur = strings.Split(from, "/")
	}
	var out []string
	for _, seg := range strings.Split(target, "/") {
		switch seg {
		case "", ".":
		case "..":
			if len(cur) > 0 {
				cur = cur[:len(cur)-1]
			}
		default:
			cur = append(cur, seg)
			out = append(out, strings.Join(cur, "/"))
		}
	}
	return out
}

// linkReuse reports whether a link entry is followed by a later entry (or the
// title of a later push) that reuses its name or passes through it — the
// non-triviality rule of the check.
func (c Case) linkReuse() bool {
	var linkNames []string
	for _, part := range prepopParts[c.Prepop] {
		switch part {
		case "s":
			linkNames = append(linkNames, "pkg/d/s")
		case "sub":
			linkNames = append(linkNames, "sub/up", "in")
		}
	}
	uses := func(name, target, typ string) bool {
		n := cleanRel(name)
		for _, l := range linkNames {
			if n == l || strings.HasPrefix(n, l+"/") {
				return true
			}
		}
		if typ == "sym" || typ == "link" {
			for _, loc := range lexWalk(filepath.Dir(n), target) {
				for _, l := range linkNames {
					if loc == l {
						return true
					}
				}
			}
		}
		// the raw (uncleaned) name itself may pass through a link
		for _, loc := range lexWalk(".", strings.TrimPrefix(name, "$WD/")) {
			for _, l := range linkNames {
				if loc == l && loc != n {
					return true
				}
			}
		}
		return false
	}
	for _, p := range c.Pushes {
		if len(linkNames) > 0 && uses(p.Title, "", "") {
			return true
		}
		for _, e := range p.Entries {
			if len(linkNames) > 0 && uses(e.N, e.L, e.T) {
				return true
			}
			if e.T == "sym" || e.T == "link" {
				linkNames = append(linkNames, cleanRel(e.N))
			}
		}
	}
	return false
}

func targetClass(l string) string {
	if l == "" {
		return "-"
	}
	c := ""
	switch {
	case strings.HasPrefix(l, "$WD"):
		c = "absin"
	case strings.HasPrefix(l, "$ROOT"):
		c = "absout"
	default:
		c = "rel"
	}
	if n := strings.Count(l, ".."); n > 0 {
		c += fmt.Sprintf("^%d", n)
	}
	return c
}

// pattern is the structural key of a generated case: pre-population, and per
// push the kind, the title class and the entry-type / link-target-class pattern.
func (c Case) pattern() string {
	var b strings.Builder
	b.WriteString(c.Prepop)
	if c.Chain {
		b.WriteString("^")
	}
	if c.RelWD {
		b.WriteString("~")
	}
	for _, p := range c.Pushes {
		fmt.Fprintf(&b, "|%s:%s:%d[", p.Kind, targetClass(p.Title), strings.Count(p.Title, "/"))
		seen := map[string]int{}
		for i, e := range p.Entries {
			n := cleanRel(e.N)
			reuse := ""
			if j, ok := seen[n]; ok {
				reuse = fmt.Sprintf("=%d", j)
			}
			seen[n] = i
			mode := ""
			if e.M != "" {
				mode = "m" + e.M
			}
			fmt.Fprintf(&b, "%s%s%s%s%s,", e.T[:1], targetClass(e.N)[:1], reuse, targetClass(e.L), mode)
		}
		b.WriteString("]" + p.Checksum + p.Fail)
	}
	return b.String()
}
