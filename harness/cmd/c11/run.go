package main

import (
	"archive/tar"
	"bytes"
	"compress/gzip"
	"context"
	"encoding/json"
	"errors"
	"fmt"
	"io"
	"os"
	"path/filepath"
	"strconv"
	"strings"

	"github.com/opencontainers/go-digest"
	ocispec "github.com/opencontainers/image-spec/specs-go/v1"
	"oras.land/oras-go/v2/content/file"
	"oras.land/oras-go/v2/verifharness/worker"
)

const maxPad = 8

var ctx = context.Background()

type pushReport struct {
	Push    int      `json:"push"`
	Kind    string   `json:"kind"`
	Title   string   `json:"title"`
	Err     string   `json:"err,omitempty"`
	Changes []change `json:"outside_changes,omitempty"`
}

var gzw *gzip.Writer

func buildArchive(sb *sandbox, p Push, k int) (blob []byte, tarDigest digest.Digest, err error) {
	var tb bytes.Buffer
	tw := tar.NewWriter(&tb)
	for j, e := range p.Entries {
		h := &tar.Header{Name: sb.expand(e.N), Linkname: sb.expand(e.L), Mode: 0o644, Format: tar.FormatPAX}
		body := ""
		switch e.T {
		case "reg":
			h.Typeflag = tar.TypeReg
			h.Name = strings.TrimRight(h.Name, "/") // the tar format has no regular entry with a trailing slash
			body = fmt.Sprintf("DATA-%d-%d", k, j)
			h.Size = int64(len(body))
		case "dir":
			h.Typeflag, h.Mode = tar.TypeDir, 0o755
		case "sym":
			h.Typeflag, h.Mode = tar.TypeSymlink, 0o777
		case "link":
			h.Typeflag = tar.TypeLink
		default:
			h.Typeflag = tar.TypeFifo
			h.Name = strings.TrimRight(h.Name, "/")
		}
		if e.M != "" {
			m, err := strconv.ParseInt(e.M, 8, 64)
			if err != nil {
				return nil, "", fmt.Errorf("entry %d: mode %q: %w", j, e.M, err)
			}
			h.Mode = m
		}
		if err := tw.WriteHeader(h); err != nil {
			return nil, "", fmt.Errorf("entry %d: %w", j, err)
		}
		if body != "" {
			if _, err := tw.Write([]byte(body)); err != nil {
				return nil, "", err
			}
		}
	}
	if err := tw.Close(); err != nil {
		return nil, "", err
	}
	var gb bytes.Buffer
	if gzw == nil {
		gzw, _ = gzip.NewWriterLevel(&gb, gzip.BestSpeed)
	} else {
		gzw.Reset(&gb)
	}
	if _, err := gzw.Write(tb.Bytes()); err != nil {
		return nil, "", err
	}
	if err := gzw.Close(); err != nil {
		return nil, "", err
	}
	return gb.Bytes(), digest.FromBytes(tb.Bytes()), nil
}

// lexically resolved location of a title / entry name (names carry the title
// prefix, i.e. they are relative to the working directory, exactly as the
// store's own tarDirectory writes them).
func lexResolve(wd, name string) string {
	if filepath.IsAbs(name) {
		return filepath.Clean(name)
	}
	return filepath.Clean(filepath.Join(wd, name))
}

func lexInside(wd, p string) bool { return p == wd || strings.HasPrefix(p, wd+"/") }

// lexicalDemands lists the parts of a push that lexically resolve outside the
// working directory; the statement demands that such a push is refused.
func lexicalDemands(sb *sandbox, p Push) (what []string, class string) {
	title := sb.expand(p.Title)
	if p.Title == "" {
		return // unnamed content goes to the fallback storage: nothing is written or unpacked
	}
	if !lexInside(sb.wd, lexResolve(sb.wd, title)) {
		what = append(what, fmt.Sprintf("title %q", p.Title))
		class = "title"
	}
	for _, e := range p.Entries {
		if e.T == "fifo" {
			continue // skipped entry types write nothing
		}
		n := lexResolve(sb.wd, sb.expand(e.N))
		if !lexInside(sb.wd, n) {
			what = append(what, fmt.Sprintf("entry name %q", e.N))
			if class == "" {
				class = "entry-name"
			}
			continue
		}
		l := sb.expand(e.L)
		switch e.T {
		case "sym":
			t := l
			if !filepath.IsAbs(t) {
				t = filepath.Join(filepath.Dir(n), t)
			}
			if !lexInside(sb.wd, filepath.Clean(t)) {
				what = append(what, fmt.Sprintf("symlink %q -> %q", e.N, e.L))
				if class == "" {
					class = "link-target"
				}
			}
		case "link":
			// a relative hard-link source is relative to the link's directory (this
			// library) or to the extraction root (tar convention): outside under both
			out := false
			if filepath.IsAbs(l) {
				out = !lexInside(sb.wd, filepath.Clean(l))
			} else {
				out = !lexInside(sb.wd, filepath.Clean(filepath.Join(filepath.Dir(n), l))) &&
					!lexInside(sb.wd, filepath.Clean(filepath.Join(sb.wd, l)))
			}
			if out {
				what = append(what, fmt.Sprintf("hard link %q -> %q", e.N, e.L))
				if class == "" {
					class = "link-target"
				}
			}
		}
	}
	return
}

func errClass(err error) string {
	switch {
	case err == nil:
		return "ok"
	case errors.Is(err, file.ErrPathTraversalDisallowed):
		return "refused:path-traversal"
	case strings.Contains(err.Error(), "is outside of"):
		return "refused:outside"
	case strings.Contains(err.Error(), "no symbolic link allowed"):
		return "refused:symlink-in-path"
	case errors.Is(err, file.ErrDuplicateName):
		return "error:duplicate-name"
	case strings.Contains(err.Error(), "digest mismatch"):
		return "error:checksum"
	default:
		return "error:fs"
	}
}

// remodedOnly: every change is a modification that keeps type and content and
// alters the permission bits only.
func remodedOnly(chs []change) bool {
	for _, ch := range chs {
		if ch.Kind != "modified" {
			return false
		}
		b, a := strings.Fields(ch.Before), strings.Fields(ch.After)
		if len(b) < 2 || len(a) != len(b) || b[0] != a[0] || b[1] == a[1] {
			return false
		}
		for i := 2; i < len(b); i++ {
			if b[i] != a[i] {
				return false
			}
		}
	}
	return len(chs) > 0
}

type errReader struct{}

func (errReader) Read([]byte) (int, error) { return 0, errors.New("injected read error") }

// failing turns a descriptor/content pair into one whose push fails while the
// content is copied (Push.Fail); mode "" leaves it intact.
func failing(desc *ocispec.Descriptor, body []byte, mode string) (context.Context, ocispec.Descriptor, io.Reader) {
	var r io.Reader = bytes.NewReader(body)
	switch mode {
	case "digest":
		desc.Digest = digest.FromString("something else")
	case "short":
		desc.Size += 5
	case "long":
		if desc.Size > 2 {
			desc.Size -= 2
		}
	case "reader":
		r = io.MultiReader(bytes.NewReader(body[:len(body)/2]), errReader{})
	}
	return ctx, *desc, r
}

// execute runs one case in a fresh sandbox and judges it.
func execute(c Case) (res worker.Result) {
	witness := func(sb *sandbox, reports []pushReport) map[string]any {
		w := map[string]any{"case": c, "pushes": reports, "jailed": jailed}
		if sb != nil {
			w["sandbox"] = map[string]string{"top": sb.top, "$ROOT": sb.root, "$WD": sb.wd, "cwd": sb.cwd, "TMPDIR": sb.tmp}
		}
		return w
	}
	if err := enterJail(); err != nil {
		res.Violate("harness:jail", err.Error(), nil)
		return
	}
	pad := c.climb() + 1
	if pad > maxPad {
		if !jailed {
			res.Count("skipped_unsafe_without_chroot", 1)
			res.Inconc = "case could climb above the sandbox and chroot is unavailable"
			return
		}
		pad = maxPad
		res.Count("cases_relying_on_chroot", 1)
	}
	res.MaxOf("max_padding_levels", int64(pad))
	sb, err := newSandbox(pad, c.Prepop, c.Chain)
	defer sb.destroy()
	if err != nil {
		res.Violate("harness:sandbox", err.Error(), nil)
		return
	}
	if err := os.Chdir(sb.cwd); err != nil {
		res.Violate("harness:chdir", err.Error(), nil)
		return
	}
	oldTmp, hadTmp := os.LookupEnv("TMPDIR")
	os.Setenv("TMPDIR", sb.tmp)
	defer func() {
		if hadTmp {
			os.Setenv("TMPDIR", oldTmp)
		} else {
			os.Unsetenv("TMPDIR")
		}
	}()

	wdArg := sb.wd
	if c.RelWD {
		if wdArg, err = filepath.Rel(sb.cwd, sb.wd); err != nil {
			res.Violate("harness:rel", err.Error(), nil)
			return
		}
	}
	store, err := file.New(wdArg) // default options
	if err != nil {
		res.Violate("harness:file.New", err.Error(), nil)
		return
	}
	defer store.Close()

	prev, err := sb.snap()
	if err != nil {
		res.Violate("harness:snapshot", err.Error(), nil)
		return
	}
	var reports []pushReport
	plantedSym, plantedHard := 0, 0
	violated := false

	for k, p := range c.Pushes {
		title := sb.expand(p.Title)
		// how would the kernel resolve the path the store is asked to write? (names the mechanism only)
		w := sb.walk(title)
		via := "planted"
		if w.viaPrepop {
			via = "preexisting"
		}
		mech := ""
		switch {
		case w.unclean && filepath.IsAbs(title):
			mech = "abs-title-unclean"
		case w.parentSymlink:
			mech = "parent-symlink"
		case w.finalSymlink:
			mech = "symlink"
		case w.finalHardlink:
			mech = "hardlink"
		}

		var pushErr error
		hasRelHardlink, hasLinks, rootReplaced := false, false, false
		switch p.Kind {
		case "blob":
			body := []byte(fmt.Sprintf("BLOB-%d", k))
			desc := ocispec.Descriptor{MediaType: "application/octet-stream", Digest: digest.FromBytes(body), Size: int64(len(body))}
			if p.Title != "" {
				desc.Annotations = map[string]string{ocispec.AnnotationTitle: title}
			}
			pushErr = store.Push(failing(&desc, body, p.Fail))
		case "archive":
			for _, e := range p.Entries {
				if e.T == "link" && !strings.HasPrefix(e.L, "$") {
					hasRelHardlink = true
				}
				if e.T == "link" || e.T == "sym" {
					hasLinks = true
				}
				if e.T == "sym" && p.Title != "" && lexResolve(sb.wd, sb.expand(e.N)) == lexResolve(sb.wd, title) {
					rootReplaced = true // a symlink entry named like the archive's own target directory
				}
			}
			gz, tarDgst, err := buildArchive(sb, p, k)
			if err != nil {
				res.Violate("harness:tar", err.Error(), c)
				return
			}
			desc := ocispec.Descriptor{MediaType: ocispec.MediaTypeImageLayerGzip, Digest: digest.FromBytes(gz), Size: int64(len(gz)),
				Annotations: map[string]string{ocispec.AnnotationTitle: title, file.AnnotationUnpack: "true"}}
			switch p.Checksum {
			case "ok":
				desc.Annotations[file.AnnotationDigest] = tarDgst.String()
			case "bad":
				desc.Annotations[file.AnnotationDigest] = digest.FromString("other").String()
			}
			pushErr = store.Push(failing(&desc, gz, p.Fail))
			res.Count("tar_entries_offered", int64(len(p.Entries)))
		case "restore":
			// the layer's bytes are present under another (harmless) name; pushing the
			// manifest makes the store materialise the titled layer
			body := []byte(fmt.Sprintf("LAYER-%d", k))
			ld := ocispec.Descriptor{MediaType: "application/octet-stream", Digest: digest.FromBytes(body), Size: int64(len(body)),
				Annotations: map[string]string{ocispec.AnnotationTitle: fmt.Sprintf("orig-%d.bin", k)}}
			if err := store.Push(ctx, ld, bytes.NewReader(body)); err != nil {
				res.Violate("harness:restore-setup", err.Error(), witness(sb, reports))
				return
			}
			cfg := []byte("{}")
			cd := ocispec.Descriptor{MediaType: ocispec.MediaTypeImageConfig, Digest: digest.FromBytes(cfg), Size: 2}
			_ = store.Push(ctx, cd, bytes.NewReader(cfg)) // already exists after the first time
			layer := ld
			layer.Annotations = map[string]string{ocispec.AnnotationTitle: title}
			mb, _ := json.Marshal(map[string]any{"schemaVersion": 2, "mediaType": ocispec.MediaTypeImageManifest, "config": cd,
				"layers": []ocispec.Descriptor{layer}, "annotations": map[string]string{"k": fmt.Sprint(k)}})
			md := ocispec.Descriptor{MediaType: ocispec.MediaTypeImageManifest, Digest: digest.FromBytes(mb), Size: int64(len(mb))}
			pushErr = store.Push(ctx, md, bytes.NewReader(mb))
		default:
			res.Violate("harness:kind", p.Kind, nil)
			return
		}
		res.Count("pushes", 1)
		if p.Fail != "" {
			res.Count("pushes_made_to_fail_while_copying", 1)
			if pushErr == nil {
				res.Count("pushes_made_to_fail_but_accepted", 1) // C05's subject, not judged here
			}
		}
		if _, err := os.Lstat(sb.wd); err != nil && c.Prepop != "absent" {
			// recorded, not judged: the working directory is not "outside the working directory"
			res.Count("pushes_after_which_working_directory_is_gone", 1)
		}
		res.Observe("push_outcomes", p.Kind+"/"+errClass(pushErr))
		if pushErr == nil {
			res.Count("pushes_accepted", 1)
		} else {
			res.Count("pushes_refused_or_failed", 1)
		}

		cur, err := sb.snap()
		if err != nil {
			res.Violate("harness:snapshot", err.Error(), nil)
			return
		}
		rep := pushReport{Push: k, Kind: p.Kind, Title: p.Title}
		if pushErr != nil {
			rep.Err = pushErr.Error()
		}
		rep.Changes = diffSnap(prev, cur)
		reports = append(reports, rep)
		prev = cur

		if len(rep.Changes) > 0 {
			violated = true
			inCwd := false
			for _, ch := range rep.Changes {
				if rel, err := filepath.Rel(sb.top, sb.cwd); err == nil && strings.HasPrefix(ch.Path, rel+"/") {
					inCwd = true
				}
			}
			onlyTemp := true
			for _, ch := range rep.Changes {
				if !strings.HasPrefix(filepath.Base(ch.Path), "oras_file_") {
					onlyTemp = false
				}
			}
			allDeleted := true
			for _, ch := range rep.Changes {
				if ch.Kind != "deleted" {
					allDeleted = false
				}
			}
			lexTitle := lexResolve(sb.wd, title)
			key := ""
			switch {
			case onlyTemp:
				key = "tempfile-outside-tmpdir"
			case p.Title != "" && !lexInside(sb.wd, lexTitle) && strings.HasPrefix(lexTitle, sb.wd):
				key = "sibling-with-workdir-name-prefix:" + p.Kind // containment decided by string prefix
			case remodedOnly(rep.Changes):
				key = "outside-remoded:" + p.Kind // only permission bits of outside objects changed
			case pushErr != nil && allDeleted && mech == "":
				key = "failed-push-cleanup-deletes-outside" // e.g. empty ancestors of the working directory
			case p.Kind == "blob" || p.Kind == "restore":
				if mech != "" {
					key = "named-blob-through-" + via + "-link:" + mech
				} else {
					key = "outside-write:named-blob"
				}
				if p.Kind == "restore" {
					key += ":restore"
				}
			case mech != "":
				key = "archive-through-" + via + "-link:" + mech
			case inCwd && hasRelHardlink:
				key = "hardlink-cwd"
			case rootReplaced:
				key = "archive-root-replaced-by-symlink"
			case hasLinks || k > 0 || len(sb.prepopLinks) > 0:
				key = "write-through-link"
				allCreated := true
				for _, ch := range rep.Changes {
					if ch.Kind != "created" {
						allCreated = false
					}
				}
				if allCreated {
					key += ":creation" // e.g. through a dangling link: nothing existed at the real destination
				}
			default:
				key = "outside-write:archive"
			}
			ch := rep.Changes[0]
			res.Count("viol:"+key, 1)
			res.Violate(key, fmt.Sprintf("push #%d (%s, title %q, err=%v) %s %s outside the working directory (%s -> %s); %d object(s) changed",
				k, p.Kind, p.Title, pushErr, ch.Kind, ch.Path, ch.Before, ch.After, len(rep.Changes)), witness(sb, reports))
		}
		if pushErr == nil {
			if what, class := lexicalDemands(sb, p); len(what) > 0 {
				violated = true
				if p.Kind == "restore" {
					class = "restore-title"
				}
				res.Count("viol:lexical-escape-accepted:"+class, 1)
				res.Violate("lexical-escape-accepted:"+class, fmt.Sprintf("push #%d (%s, title %q) returned nil although it contains %s, which resolve(s) outside the working directory",
					k, p.Kind, p.Title, strings.Join(what, ", ")), witness(sb, reports))
			}
		}
		if foreign := sb.foreignTmp(); len(foreign) > 0 {
			violated = true
			res.Count("viol:tmpdir-foreign-object", 1)
			res.Violate("tmpdir-foreign-object", fmt.Sprintf("push #%d left %v in TMPDIR (only oras_file_* temporary files are excepted)", k, foreign), witness(sb, reports))
		}
		if violated {
			break
		}
		s, h := sb.planted()
		if s > plantedSym {
			plantedSym = s
		}
		if h > plantedHard {
			plantedHard = h
		}
	}
	if plantedSym > 0 {
		res.Count("cases_with_planted_outside_symlink", 1)
	}
	if plantedHard > 0 {
		res.Count("cases_with_planted_outside_hardlink", 1)
	}
	if jailed {
		res.Count("cases_in_chroot_jail", 1)
	}
	res.Count("snapshot_objects_compared", int64(len(prev)))
	return
}
