// C11 — The file store never writes outside its working directory by default.
//
// Monitor: every case runs in a worker process inside a fresh sandbox root
// (os.MkdirTemp; the worker is chroot-ed into its jail when possible, chdir-s
// into root/cwd and sets TMPDIR=root/tmp). A default-options file.Store on
// root/a/wd receives one or several pushes (tar+gzip blobs marked for
// unpacking, named blobs, manifests that make the store materialise a titled
// layer). Everything under the sandbox except the working directory and the
// store's own oras_file_* temporary files is snapshotted (type, permission
// bits, content hash, link target) before and after every push: the snapshots
// must be equal, and a push containing a title, entry name or link target that
// lexically resolves outside the working directory must return an error.
package main

import (
	_ "crypto/sha256"
	_ "crypto/sha512"
	"fmt"
	"os"
	"strconv"
	"strings"
	"sync"
	"time"

	"oras.land/oras-go/v2/verifharness/evidence"
	"oras.land/oras-go/v2/verifharness/worker"
)

func seedFromEnv() int64 {
	if v := os.Getenv("VERIF_SEED"); v != "" {
		if n, err := strconv.ParseInt(v, 10, 64); err == nil {
			return n
		}
	}
	return 1
}

// multiEnumLen: archives of the enumerated part of the "multi" phase are all
// vocabulary sequences up to this length (each followed by all followUps).
func multiEnumLen() int {
	if os.Getenv("VERIF_TIER") == "thorough" {
		return 3
	}
	return 2
}

func buildCase(phase string, i int) (c Case, key string, sample bool) {
	switch phase {
	case "corpus":
		return corpus[i], fmt.Sprintf("corpus-%d", i), i < 2
	case "titles":
		c = titleCase(i)
		return c, c.Prepop + "|" + c.Pushes[0].Kind + "|" + c.Pushes[0].Title, i%5000 == 14
	case "exh":
		seq := exhSeq(i)
		c = Case{Prepop: "d", Pushes: []Push{{Kind: "archive", Title: "pkg", Entries: seqEntries(seq)}}}
		return c, fmt.Sprint(seq), i%60000 == 1500
	case "multi":
		n := exhCount(multiEnumLen())
		if i < n {
			seq := exhSeq(i)
			c = Case{Prepop: "d", Pushes: append([]Push{{Kind: "archive", Title: "pkg", Entries: seqEntries(seq)}}, followUps...)}
			return c, fmt.Sprint("enum", seq), i == 31
		}
		if m := n + exhCount(2); i < m {
			// the same enumeration on a working directory that does NOT exist when the store is
			// created: the first push creates it (the archive brings pkg/d and pkg/d/keep itself)
			seq := exhSeq(i - n)
			es := append([]Entry{dir("pkg/d"), reg("pkg/d/keep")}, seqEntries(seq)...)
			c = Case{Prepop: "absent", Pushes: append([]Push{{Kind: "archive", Title: "pkg", Entries: es}}, followUps...)}
			return c, fmt.Sprint("enum-absent", seq), i == n+31
		}
		c = genRandCase(evidence.RandFor(seedFromEnv(), "c11-multi", i), true)
		return c, c.pattern(), i%5000 == 3
	case "fail":
		c = failCase(i)
		return c, fmt.Sprintf("fail-%d", i), i%97 == 5
	default: // rand
		c = genRandCase(evidence.RandFor(seedFromEnv(), "c11-rand", i), false)
		return c, c.pattern(), i%5000 == 3
	}
}

func runCase(phase string, i int) worker.Result {
	c, key, sample := buildCase(phase, i)
	res := execute(c)
	if res.Inconc != "" {
		return res // not executed: contributes nothing to coverage
	}
	res.Key = key
	switch phase {
	case "fail":
		// non-trivial: the failing push had directories made for it (nested title) or the
		// working directory sits in a chain of empty directories
		res.NT = c.Chain || strings.Contains(strings.TrimPrefix(c.Pushes[0].Title, "$WD/"), "/")
	case "titles":
		t := c.Pushes[0].Title
		res.NT = strings.Contains(t, "..") || strings.HasPrefix(t, "$") || strings.Contains(t, "in") || strings.Contains(t, "up")
	default:
		res.NT = c.linkReuse()
	}
	if res.NT {
		res.Count("cases_link_then_reuse", 1)
	}
	for _, p := range c.Pushes {
		tp := ""
		for _, e := range p.Entries {
			tp += e.T[:1]
			if e.L != "" {
				res.Observe("type_targetclass", e.T+"/"+targetClass(e.L))
			}
		}
		if tp != "" {
			res.Observe("entry_type_patterns", tp)
		}
	}
	if sample {
		res.Sample = c
	}
	return res
}

func main() {
	if worker.IsWorker() {
		worker.Serve(runCase)
		return
	}
	r := evidence.New("C11", "exploration")
	r.Rule("case = (pre-population of the working directory ∈ {absent, empty, d, ds, sub, full}: files, directories, inside-pointing symlinks only; working directory at $ROOT/a/wd (siblings victim, outdir, wd.lock, wd-backup/, …) or at the end of a chain of otherwise empty directories $ROOT/e1/e2/wd; 1..n pushes, some made to fail while copying, into ONE default-options file.Store: " +
		"tar+gzip blob marked for unpacking with a sequence of regular/dir/symlink/hard-link/fifo entries (directories and files also with restrictive recorded modes 0555/0500/0300/0000), named blob, or manifest that restores a titled layer); " +
		"phases: corpus (committed witnesses), fail (every title × {wrong digest, short, long, reader error} × {blob, archive} × {wd in a chain of empty directories, normal} × {empty, absent, d}: pushes that fail while copying), titles (all segment sequences over {.., ., \"\", x, in, up, wd, wd.lock, wd-backup} × {relative, $WD/…, $ROOT/a/…} × {blob, archive} × {pre-populated, not yet existing working directory}), " +
		"exh (ALL sequences over the 27-entry reduced vocabulary up to length 3 quick / 4 thorough), rand (random and corpus-mutated sequences ≤ 10 entries over the full grammar), " +
		"multi (all vocabulary sequences ≤ 2 quick / ≤ 3 thorough each followed by 13 follow-up pushes, the ≤ 2 ones again on a not yet existing working directory, then random multi-push cases); " +
		"oracle per push: snapshot of everything in the sandbox outside the working directory (type, permission bits, size+SHA-256, link target; TMPDIR may only gain oras_file_*) is unchanged, " +
		"and a push with a lexically-outside title / entry name / link target returns an error; " +
		"distinct = the sequence itself (corpus, titles, exh, enumerated multi) or the structural pattern (pre-population, push kinds, title class, per entry: type, name class, name reuse, link-target class); " +
		"non-trivial = a link (planted by an entry or pre-existing) is followed by a later entry or title that reuses its name or passes through it (titles phase: title with .., absolute, or through a pre-existing link)")
	r.Assume("only default options (AllowPathTraversalOnWrite=false, PreservePermissions=false …); times and link counts of outside objects are not judged (the statement does not mention them)")
	r.Assume("entry names are taken relative to the working directory (they carry the title prefix, as written by the store's own Add); a relative hard-link source is demanded to be refused only if it is outside under both the link-directory and the extraction-root convention")
	r.Assume("pre-existing links in the working directory point inside it; links that already lead outside before the first push are the user's own doing and are not generated")
	r.Assume("Linux, one file system (tmp), worker runs as root when chroot-ed; Windows path semantics not exercised")

	// sandboxes hold ~40 small objects each and live for a few milliseconds: a
	// memory file system is an order of magnitude faster than the disk behind /tmp
	base := os.Getenv("VERIF_C11_TMP")
	if base == "" {
		if fi, err := os.Stat("/dev/shm"); err == nil && fi.IsDir() {
			if probe, err := os.MkdirTemp("/dev/shm", "verif-c11-probe-"); err == nil {
				os.Remove(probe)
				base = "/dev/shm"
			}
		}
	}
	jail, err := os.MkdirTemp(base, "verif-c11-jail-")
	if err != nil {
		fmt.Println("BROKEN: mkdtemp:", err)
		os.Exit(2)
	}
	env := []string{"VERIF_C11_JAIL=" + jail}
	exhLen := r.N(3, 4)
	var mu sync.Mutex
	done := map[string]int{}
	count := func(phase string) func(worker.Result) {
		return func(res worker.Result) {
			if res.Inconc == "" {
				mu.Lock()
				done[phase]++
				mu.Unlock()
			}
		}
	}
	run := func(phase string, total, batch int) {
		worker.Run(r, worker.Opts{Phase: phase, Total: total, Batch: batch, Env: env, Timeout: 15 * time.Minute, OnResult: count(phase)})
		r.Set("cases_"+phase, total)
	}
	run("corpus", len(corpus), 8)
	run("fail", failCount(), 24)
	run("titles", titleCount(r.N(3, 4)), 400)
	run("exh", exhCount(exhLen), 1000)
	multiEnum := exhCount(multiEnumLen()) + exhCount(2)
	run("multi", multiEnum+r.N(2500, 60000), 250)
	run("rand", r.N(5000, 120000), 500)
	os.RemoveAll(jail)

	r.Set("vocabulary_size", len(vocab))
	r.Set("exhaustive_vocabulary_len3", done["exh"] >= exhCount(3) && done["exh"] == exhCount(exhLen))
	if exhLen >= 4 {
		r.Set("exhaustive_vocabulary_len4", done["exh"] == exhCount(4))
	}
	r.Set("exhaustive_titles_maxlen", r.N(3, 4))
	r.Set("exhaustive_titles", done["titles"] == titleCount(r.N(3, 4)))
	r.Set("exhaustive_multi_enumerated_len", multiEnumLen())
	r.Set("follow_up_pushes_per_enumerated_multi_case", len(followUps))
	if done["exh"] != exhCount(exhLen) {
		r.Inconclusive(fmt.Sprintf("exhaustive phase judged %d of %d sequences", done["exh"], exhCount(exhLen)))
	}
	r.Finish(r.N(6000, 150000))
}
