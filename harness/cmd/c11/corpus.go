package main

// corpus is the committed regression corpus: every witness ever found by this
// check (or by the scratch probes that preceded it), plus the plainly illegal
// inputs that must be refused. It is replayed first in every tier, and the
// random phases also mutate its members. Fix names the /repo commit that
// repaired the case (the check fires on it when that commit is reverted; 24ab11d
// alone no longer shows on cases 1-2 because 66fc93d unlinks before writing —
// the enumerated "multi" phase shows it through a later named blob).

var pkgPlant = []Entry{dir("pkg/d"), sym("pkg/d/s", ".."), sym("pkg/d/f", "s/../../victim"), sym("pkg/d/o", "s/../..")}

func arch(title string, es ...Entry) Push { return Push{Kind: "archive", Title: title, Entries: es} }
func blob(title string) Push              { return Push{Kind: "blob", Title: title} }

var corpus = []Case{
	// 0: finding 1 (fixed by 66fc93d)
	{Note: "regular entry written through a planted symlink (final component)", Fix: "66fc93d", Prepop: "empty", Pushes: []Push{
		arch("pkg", dir("pkg/d"), sym("pkg/d/s", ".."), sym("pkg/d/f", "s/../../victim"), reg("pkg/d/f"))}},
	// 1: finding 2 (fixed by 24ab11d)
	{Note: "relative hard-link source resolved against the process directory, then overwritten", Fix: "24ab11d", Prepop: "empty", Pushes: []Push{
		arch("pkg", link("pkg/x", "secret"), reg("pkg/x"))}},
	// 2
	{Note: "hard link to a same-named file of the process directory", Fix: "24ab11d", Prepop: "d", Pushes: []Push{
		arch("pkg", link("pkg/d/victim", "victim"), reg("pkg/d/victim"))}},
	// 3: (a) fixed by 4ea4ea0
	{Note: "named blob through a symlink planted by an earlier archive (final component)", Fix: "4ea4ea0", Prepop: "empty", Pushes: []Push{
		arch("pkg", pkgPlant...), blob("pkg/d/f")}},
	// 4: (b) fixed by a89c09d
	{Note: "absolute hard-link source with .. after a planted symlink, then named blob over the hard link", Fix: "a89c09d", Prepop: "empty", Pushes: []Push{
		arch("pkg", dir("pkg/d"), sym("pkg/d/s", ".."), link("pkg/h", "$WD/pkg/d/s/../../victim")), blob("pkg/h")}},
	// 5: (c) fixed by 4ea4ea0
	{Note: "named blob below a planted directory symlink: creates directories and a file outside", Fix: "4ea4ea0", Prepop: "empty", Pushes: []Push{
		arch("pkg", pkgPlant...), blob("pkg/d/o/newdir/new")}},
	// 6: (d) fixed by 4ea4ea0
	{Note: "second archive whose title passes through a planted directory symlink", Fix: "4ea4ea0", Prepop: "empty", Pushes: []Push{
		arch("pkg", pkgPlant...), arch("pkg/d/o/outdir", reg("pkg/d/o/outdir/x"))}},
	// 7: fixed by 72bf07b
	{Note: "absolute title validated cleaned but used raw: .. after a planted inside-pointing symlink", Fix: "72bf07b", Prepop: "empty", Pushes: []Push{
		arch("pkg", dir("pkg/d"), sym("pkg/d/s", "..")), blob("$WD/pkg/d/s/../../victim")}},
	// 8: fixed by 72bf07b
	{Note: "absolute title with .. after a pre-existing inside-pointing symlink", Fix: "72bf07b", Prepop: "ds", Pushes: []Push{
		blob("$WD/pkg/d/s/../../victim")}},
	// 9: fixed by 72bf07b
	{Note: "absolute archive title with .. after a pre-existing inside-pointing symlink (MkdirAll outside)", Fix: "72bf07b", Prepop: "ds", Pushes: []Push{
		arch("$WD/pkg/d/s/../../newdir", reg("$WD/pkg/d/s/../../newdir/x"))}},
	// 10
	{Note: "archive replaces its own (empty) target directory by a symlink through a pre-existing link", Fix: "c70bfe4", Prepop: "sub", Pushes: []Push{
		arch("sub/outdir", sym("sub/outdir", "up/../outdir"), reg("sub/outdir/x"))}},
	// 11 (inserted later: same trick through a link planted by an earlier archive, no pre-population)
	{Note: "second archive replaces its own target directory by a symlink through a planted link", Fix: "c70bfe4", Prepop: "empty", Pushes: []Push{
		arch("pkg", pkgPlant...), arch("pkg/d/outdir", sym("pkg/d/outdir", "o/../outdir"), reg("pkg/d/outdir/x"))}},
	// 12
	{Note: "regular entry below a planted directory symlink", Prepop: "d", Pushes: []Push{
		arch("pkg", sym("pkg/d/s", ".."), sym("pkg/d/o", "s/../.."), reg("pkg/d/o/new"), dir("pkg/d/o/outdir/nd"))}},
	// 12
	{Note: "manifest push restores a titled layer through a planted symlink", Fix: "4ea4ea0", Prepop: "empty", Pushes: []Push{
		arch("pkg", pkgPlant...), {Kind: "restore", Title: "pkg/d/f"}}},
	// 13
	{Note: "named blob through a dangling planted symlink (creates a file outside)", Fix: "4ea4ea0", Prepop: "empty", Pushes: []Push{
		arch("pkg", dir("pkg/d"), sym("pkg/d/s", ".."), sym("pkg/d/n", "s/../../new")), blob("pkg/d/n")}},
	// 14
	{Note: "hard link to a planted symlink, then regular entry over it", Prepop: "empty", Pushes: []Push{
		arch("pkg", dir("pkg/d"), sym("pkg/d/s", ".."), sym("pkg/d/f", "s/../../victim"), link("pkg/x", "d/f"), reg("pkg/x"))}},
	// 15
	{Note: "symlink chain, then regular entry", Prepop: "d", Pushes: []Push{
		arch("pkg", sym("pkg/d/s", ".."), sym("pkg/d/f", "s/../../victim"), sym("pkg/x", "d/f"), reg("pkg/x"))}},
	// 16
	{Note: "directory entry over a planted symlink to an outside directory, then a file below it", Prepop: "d", Pushes: []Push{
		arch("pkg", sym("pkg/d/s", ".."), sym("pkg/d/o", "s/../../outdir"), dir("pkg/d/o"), reg("pkg/d/o/x"))}},
	// 17..: plainly illegal, must be refused
	{Note: "entry name with ..", Prepop: "empty", Pushes: []Push{arch("pkg", reg("../victim"))}},
	{Note: "entry name climbing out after the prefix", Prepop: "empty", Pushes: []Push{arch("pkg", reg("pkg/../../victim"))}},
	{Note: "absolute entry name outside", Prepop: "empty", Pushes: []Push{arch("pkg", reg("$ROOT/a/victim"))}},
	{Note: "symlink target with .. outside", Prepop: "empty", Pushes: []Push{arch("pkg", sym("pkg/e", "../../victim"))}},
	{Note: "absolute symlink target outside", Prepop: "empty", Pushes: []Push{arch("pkg", sym("pkg/e", "$ROOT/a/victim"))}},
	{Note: "absolute hard-link source outside", Prepop: "empty", Pushes: []Push{arch("pkg", link("pkg/h", "$ROOT/a/victim"), reg("pkg/h"))}},
	{Note: "relative hard-link source outside", Prepop: "empty", Pushes: []Push{arch("pkg", link("pkg/h", "../../victim"), reg("pkg/h"))}},
	{Note: "title with ..", Prepop: "empty", Pushes: []Push{blob("../victim")}},
	{Note: "title climbing out after a segment", Prepop: "sub", Pushes: []Push{blob("sub/../../victim")}},
	{Note: "absolute title outside", Prepop: "empty", Pushes: []Push{blob("$ROOT/a/victim")}},
	{Note: "absolute title outside via the working directory", Prepop: "empty", Pushes: []Push{blob("$WD/../victim")}},
	{Note: "archive title outside", Prepop: "empty", Pushes: []Push{arch("../outdir", reg("../outdir/x"))}},
	{Note: "manifest layer title outside", Prepop: "empty", Pushes: []Push{{Kind: "restore", Title: "../victim"}}},
	// later additions
	// seeded C11-r6-1: a remembered "real directory" is replaced by a link and the memory is not cleared
	{Note: "empty directory examined through another entry's link target, then replaced by a symlink really leading outside, then used as parent (overwrite)", Prepop: "empty", Pushes: []Push{
		arch("pkg", dir("pkg/s/"), sym("pkg/s/up", ".."), dir("pkg/a/"), sym("pkg/probe", "a/later"), sym("pkg/a", "s/up/../../outdir"), reg("pkg/a/keep"))}},
	{Note: "same, the link leads to the parent of the working directory: overwrites victim and creates a file", Prepop: "d", Pushes: []Push{
		arch("pkg", sym("pkg/d/s", ".."), dir("pkg/d/q"), sym("pkg/probe", "d/q/later"), sym("pkg/d/q", "s/../.."), reg("pkg/d/q/victim"), reg("pkg/d/q/new"))}},
	{Note: "same, the directory is examined through an absolute link target and through a sibling entry", Prepop: "d", Pushes: []Push{
		arch("pkg", sym("pkg/d/s", ".."), dir("pkg/e"), dir("pkg/e/a"), sym("pkg/p2", "$WD/pkg/e/a/x/later"), sym("pkg/e/a", "../d/s/../../outdir"), dir("pkg/e/a/nd"), reg("pkg/e/a/nd/x"))}},
	{Note: "near miss: nothing examines the directory before it is replaced", Prepop: "d", Pushes: []Push{
		arch("pkg", sym("pkg/d/s", ".."), dir("pkg/d/q"), sym("pkg/d/q", "s/../../outdir"), reg("pkg/d/q/keep"))}},
	// seeded C11-3 / C11-r5-2 shapes, made deterministic
	{Note: "regular entry two levels below a planted directory link, the directory in between exists at the outside location", Prepop: "d", Pushes: []Push{
		arch("pkg", sym("pkg/d/s", ".."), sym("pkg/d/o", "s/../.."), reg("pkg/d/o/outdir/x"))}},
	{Note: "entry name starting with ./ (not prefixed with the title) whose .. elements follow an ordinary element", Prepop: "empty", Pushes: []Push{
		arch("pkg", reg("./sub/../../../victim"))}},
	{Note: "same shape creating a new file, and as directory / symlink entry", Prepop: "d", Pushes: []Push{
		arch("pkg", dir("./d/../../../newdir"), reg("./d/../../../newdir/x"), sym("./d/../../../lnk", "x"), reg("./x/../../../outdir/created.txt"))}},
	// seeded C11-r4-1: store created on a working directory that does not exist yet; the first push creates it and plants links
	{Note: "working directory absent at the first push, which plants links; then a named blob ending in a planted symlink", Prepop: "absent", Pushes: []Push{
		arch("pkg", pkgPlant...), blob("pkg/d/f")}},
	{Note: "working directory absent at first; named blob below a planted directory link, named blob through a dangling link, archive through a link, restore", Prepop: "absent", Pushes: []Push{
		arch("pkg", dir("pkg/d"), sym("pkg/d/s", ".."), sym("pkg/d/o", "s/../.."), sym("pkg/d/n", "s/../../new")),
		blob("pkg/d/o/newdir/new"), blob("pkg/d/n"), arch("pkg/d/o/outdir", reg("pkg/d/o/outdir/x")), {Kind: "restore", Title: "pkg/d/o/new6"}}},
	{Note: "working directory absent at first; a harmless blob creates it, an archive plants, a blob goes through", Prepop: "absent", Pushes: []Push{
		blob("first.txt"), arch("pkg", pkgPlant...), blob("pkg/d/f"), blob("$WD/pkg/d/s/../../victim")}},
	// seeded C11-r4-2: a hard-link entry whose name is taken by a planted symlink (os.Link fails with EEXIST)
	{Note: "hard-link entry named like a planted symlink that really leads outside, source = an earlier regular entry", Prepop: "empty", Pushes: []Push{
		arch("pkg", dir("pkg/d"), sym("pkg/d/s", ".."), sym("pkg/l", "d/s/../../victim"), reg("pkg/r"), link("pkg/l", "r"))}},
	{Note: "hard-link entry named like a DANGLING planted symlink", Prepop: "d", Pushes: []Push{
		arch("pkg", sym("pkg/d/s", ".."), sym("pkg/d/l", "s/../../new"), link("pkg/d/l", "keep"))}},
	// seeded C11-r5-1: permissions of "restricted" directories applied at end of archive through a link that replaced the directory
	{Note: "directory entry recorded 0555, replaced while empty by a same-named symlink that really leads to an outside directory", Prepop: "d", Pushes: []Push{
		arch("pkg", sym("pkg/d/s", ".."), dirm("pkg/d/q", "0555"), sym("pkg/d/q", "s/../../outdir"))}},
	{Note: "same, everything from the archive, mode 0300", Prepop: "empty", Pushes: []Push{
		arch("pkg", dir("pkg/"), dir("pkg/a"), sym("pkg/a/l", ".."), dirm("pkg/a/m", "0300"), sym("pkg/a/m", "l/../../outdir"))}},
	{Note: "same, mode 0000, link to the parent of the working directory", Prepop: "d", Pushes: []Push{
		arch("pkg", sym("pkg/d/s", ".."), dirm("pkg/d/o", "0000"), sym("pkg/d/o", "s/../.."), reg("pkg/x"))}},
	{Note: "restrictive directory entry OVER a planted directory link (the directory exists through the link)", Prepop: "d", Pushes: []Push{
		arch("pkg", sym("pkg/d/s", ".."), sym("pkg/d/o", "s/../../outdir"), dirm("pkg/d/o", "0500"))}},
	{Note: "restrictive mode on the extraction directory itself and on nested directories, no links", Prepop: "empty", Pushes: []Push{
		arch("pkg", dirm("pkg/", "0555"), dirm("pkg/n", "0500"), dirm("pkg/n/m", "0000"))}},
	// seeded C11-r2-2: clean-up after a failed named-blob push removed the (empty) working directory and its empty ancestors
	{Note: "named blob with a nested title fails while copying (wrong digest) into an empty working directory at the end of a chain of empty directories", Prepop: "empty", Chain: true, Pushes: []Push{
		{Kind: "blob", Title: "a/b/f.txt", Fail: "digest"}}},
	{Note: "named blob fails half-way (reader error), working directory not yet existing, chain of empty directories", Prepop: "absent", Chain: true, Pushes: []Push{
		{Kind: "blob", Title: "f.txt", Fail: "reader"}, blob("after.txt")}},
	{Note: "short content for a named blob in a chain of empty directories", Prepop: "empty", Chain: true, Pushes: []Push{
		{Kind: "blob", Title: "a/b/c.txt", Fail: "short"}}},
	// seeded C11-r2-3: containment by string prefix accepts siblings named like the working directory
	{Note: "title names a sibling FILE whose name starts with the working directory's name", Prepop: "empty", Pushes: []Push{blob("../wd.lock")}},
	{Note: "title names a file in a sibling DIRECTORY whose name starts with the working directory's name", Prepop: "empty", Pushes: []Push{blob("../wd-backup/x")}},
	{Note: "absolute title of such a sibling", Prepop: "empty", Pushes: []Push{blob("$WD.lock")}},
	{Note: "absolute title below such a sibling directory", Prepop: "sub", Pushes: []Push{blob("$WD-backup/new/x")}},
	{Note: "archive unpacked into such a sibling directory", Prepop: "empty", Pushes: []Push{arch("../wd-backup", reg("../wd-backup/x"), dir("../wd-backup/nd"))}},
	{Note: "archive unpacked into such a sibling directory, absolute", Prepop: "empty", Pushes: []Push{arch("$WD-backup", reg("$WD-backup/x"))}},
	{Note: "manifest layer titled like such a sibling", Prepop: "empty", Pushes: []Push{{Kind: "restore", Title: "../wd.lock"}}},
	{Note: "planted symlink really leading to such a sibling, then a named blob through it", Prepop: "empty", Pushes: []Push{
		arch("pkg", dir("pkg/d"), sym("pkg/d/s", ".."), sym("pkg/d/f", "s/../../wd.lock"), sym("pkg/d/o", "s/../../wd-backup")), blob("pkg/d/f"), blob("pkg/d/o/x")}},
	{Note: "entry name / link target naming such a sibling", Prepop: "empty", Pushes: []Push{
		arch("pkg", reg("pkg/../../wd.lock")), arch("pkg2", sym("pkg2/e", "../../wd.lock")), arch("pkg3", link("pkg3/h", "$WD.lock"), reg("pkg3/h"))}},
	{Note: "regular entry over a DANGLING planted symlink: creates a new file next to the working directory (seeded defect C11-4: Stat instead of Lstat)", Prepop: "empty", Pushes: []Push{
		arch("pkg", dir("pkg/d"), sym("pkg/d/s", ".."), sym("pkg/d/e", "s/../../new"), reg("pkg/d/e"))}},
	{Note: "regular entry over a dangling planted symlink: new file in an existing outside directory", Prepop: "empty", Pushes: []Push{
		arch("pkg", dir("pkg/"), dir("pkg/x/"), dir("pkg/x/y/"), sym("pkg/x/y/d", "../.."), sym("pkg/x/y/e", "d/../../outdir/created.txt"), reg("pkg/x/y/e"))}},
	{Note: "regular entry over a dangling symlink planted through a pre-existing inside-pointing link", Prepop: "ds", Pushes: []Push{
		arch("pkg", sym("pkg/d/e", "s/../../outdir/newfile"), reg("pkg/d/e"))}},
	{Note: "regular entry over a hard link to a dangling planted symlink", Prepop: "d", Pushes: []Push{
		arch("pkg", sym("pkg/d/s", ".."), sym("pkg/d/e", "s/../../new"), link("pkg/x", "d/e"), reg("pkg/x"))}},
	{Note: "directory entry over a dangling planted symlink, then a file below it", Prepop: "d", Pushes: []Push{
		arch("pkg", sym("pkg/d/s", ".."), sym("pkg/d/e", "s/../../newdir"), dir("pkg/d/e"), reg("pkg/d/e/x"))}},
	{Note: "hard link to a file of the process directory, then a named blob over the hard link", Fix: "24ab11d", Prepop: "empty", Pushes: []Push{
		arch("pkg", link("pkg/x", "secret")), blob("pkg/x")}},
	{Note: "hard link to a file of the process directory, then a manifest restoring a layer over it", Fix: "24ab11d", Prepop: "empty", Pushes: []Push{
		arch("pkg", link("pkg/x", "./secret")), {Kind: "restore", Title: "pkg/x"}}},
}
