package main

// corpus is the committed regression corpus: every witness ever found by this
// check (or by the scratch probes that preceded it), plus the plainly illegal
// inputs that must be refused. It is replayed first in every tier, and the
// random phases also mutate its members.
//
// Expect: what the statement demands for the case. "silent" = nothing outside
// the working directory changes (whether or not Push fails); "refused" = in
// addition the LAST push must return an error.
type corpusMeta struct {
	Expect string // silent | refused
	Fix    string // commit in /repo that repaired it ("" = never failed)
}

var pkgPlant = []Entry{dir("pkg/d"), sym("pkg/d/s", ".."), sym("pkg/d/f", "s/../../victim"), sym("pkg/d/o", "s/../..")}

func arch(title string, es ...Entry) Push { return Push{Kind: "archive", Title: title, Entries: es} }
func blob(title string) Push              { return Push{Kind: "blob", Title: title} }

var corpus = []Case{
	// 0: finding 1 (fixed by 66fc93d)
	{Note: "regular entry written through a planted symlink (final component)", Prepop: "empty", Pushes: []Push{
		arch("pkg", dir("pkg/d"), sym("pkg/d/s", ".."), sym("pkg/d/f", "s/../../victim"), reg("pkg/d/f"))}},
	// 1: finding 2 (fixed by 24ab11d)
	{Note: "relative hard-link source resolved against the process directory, then overwritten", Prepop: "empty", Pushes: []Push{
		arch("pkg", link("pkg/x", "secret"), reg("pkg/x"))}},
	// 2
	{Note: "hard link to a same-named file of the process directory", Prepop: "d", Pushes: []Push{
		arch("pkg", link("pkg/d/victim", "victim"), reg("pkg/d/victim"))}},
	// 3: (a) fixed by 4ea4ea0
	{Note: "named blob through a symlink planted by an earlier archive (final component)", Prepop: "empty", Pushes: []Push{
		arch("pkg", pkgPlant...), blob("pkg/d/f")}},
	// 4: (b) fixed by a89c09d
	{Note: "absolute hard-link source with .. after a planted symlink, then named blob over the hard link", Prepop: "empty", Pushes: []Push{
		arch("pkg", dir("pkg/d"), sym("pkg/d/s", ".."), link("pkg/h", "$WD/pkg/d/s/../../victim")), blob("pkg/h")}},
	// 5: (c) fixed by 4ea4ea0
	{Note: "named blob below a planted directory symlink: creates directories and a file outside", Prepop: "empty", Pushes: []Push{
		arch("pkg", pkgPlant...), blob("pkg/d/o/newdir/new")}},
	// 6: (d) fixed by 4ea4ea0
	{Note: "second archive whose title passes through a planted directory symlink", Prepop: "empty", Pushes: []Push{
		arch("pkg", pkgPlant...), arch("pkg/d/o/outdir", reg("pkg/d/o/outdir/x"))}},
	// 7: fixed by 72bf07b
	{Note: "absolute title validated cleaned but used raw: .. after a planted inside-pointing symlink", Prepop: "empty", Pushes: []Push{
		arch("pkg", dir("pkg/d"), sym("pkg/d/s", "..")), blob("$WD/pkg/d/s/../../victim")}},
	// 8: fixed by 72bf07b
	{Note: "absolute title with .. after a pre-existing inside-pointing symlink", Prepop: "ds", Pushes: []Push{
		blob("$WD/pkg/d/s/../../victim")}},
	// 9: fixed by 72bf07b
	{Note: "absolute archive title with .. after a pre-existing inside-pointing symlink (MkdirAll outside)", Prepop: "ds", Pushes: []Push{
		arch("$WD/pkg/d/s/../../newdir", reg("$WD/pkg/d/s/../../newdir/x"))}},
	// 10
	{Note: "archive replaces its own (empty) target directory by a symlink through a pre-existing link", Prepop: "sub", Pushes: []Push{
		arch("sub/outdir", sym("sub/outdir", "up/../outdir"), reg("sub/outdir/x"))}},
	// 11
	{Note: "regular entry below a planted directory symlink", Prepop: "d", Pushes: []Push{
		arch("pkg", sym("pkg/d/s", ".."), sym("pkg/d/o", "s/../.."), reg("pkg/d/o/new"), dir("pkg/d/o/outdir/nd"))}},
	// 12
	{Note: "manifest push restores a titled layer through a planted symlink", Prepop: "empty", Pushes: []Push{
		arch("pkg", pkgPlant...), {Kind: "restore", Title: "pkg/d/f"}}},
	// 13
	{Note: "named blob through a dangling planted symlink (creates a file outside)", Prepop: "empty", Pushes: []Push{
		arch("pkg", dir("pkg/d"), sym("pkg/d/s", ".."), sym("pkg/d/n", "s/../../new")), blob("pkg/d/n")}},
	// 14
	{Note: "hard link to a planted symlink, then regular entry over it", Prepop: "empty", Pushes: []Push{
		arch("pkg", dir("pkg/d"), sym("pkg/d/s", ".."), sym("pkg/d/f", "s/../../victim"), link("pkg/x", "d/f"), reg("pkg/x"))}},
	// 15
	{Note: "symlink chain, then regular entry", Prepop: "d", Pushes: []Push{
		arch("pkg", sym("pkg/d/s", ".."), sym("pkg/d/f", "s/../../victim"), sym("pkg/x", "d/f"), reg("pkg/x"))}},
	// 16
	{Note: "directory entry over a planted symlink to an outside directory, then a file below it", Prepop: "d", Pushes: []Push{
		arch("pkg", sym("pkg/d/s", ".."), sym("pkg/d/o", "s/../../outdir"), dir("pkg/d/o"), reg("pkg/d/o/x"))}},
	// 17..: plainly illegal, must be refused
	{Note: "entry name with ..", Prepop: "empty", Pushes: []Push{arch("pkg", reg("../victim"))}},
	{Note: "entry name climbing out after the prefix", Prepop: "empty", Pushes: []Push{arch("pkg", reg("pkg/../../victim"))}},
	{Note: "absolute entry name outside", Prepop: "empty", Pushes: []Push{arch("pkg", reg("$ROOT/a/victim"))}},
	{Note: "symlink target with .. outside", Prepop: "empty", Pushes: []Push{arch("pkg", sym("pkg/e", "../../victim"))}},
	{Note: "absolute symlink target outside", Prepop: "empty", Pushes: []Push{arch("pkg", sym("pkg/e", "$ROOT/a/victim"))}},
	{Note: "absolute hard-link source outside", Prepop: "empty", Pushes: []Push{arch("pkg", link("pkg/h", "$ROOT/a/victim"), reg("pkg/h"))}},
	{Note: "relative hard-link source outside", Prepop: "empty", Pushes: []Push{arch("pkg", link("pkg/h", "../../victim"), reg("pkg/h"))}},
	{Note: "title with ..", Prepop: "empty", Pushes: []Push{blob("../victim")}},
	{Note: "title climbing out after a segment", Prepop: "sub", Pushes: []Push{blob("sub/../../victim")}},
	{Note: "absolute title outside", Prepop: "empty", Pushes: []Push{blob("$ROOT/a/victim")}},
	{Note: "absolute title outside via the working directory", Prepop: "empty", Pushes: []Push{blob("$WD/../victim")}},
	{Note: "archive title outside", Prepop: "empty", Pushes: []Push{arch("../outdir", reg("../outdir/x"))}},
	{Note: "manifest layer title outside", Prepop: "empty", Pushes: []Push{{Kind: "restore", Title: "../victim"}}},
}

var corpusExpect = map[int]corpusMeta{
	0: {"silent", "66fc93d"}, 1: {"silent", "24ab11d"}, 2: {"silent", "24ab11d"},
	3: {"silent", "4ea4ea0"}, 4: {"silent", "a89c09d"}, 5: {"silent", "4ea4ea0"}, 6: {"silent", "4ea4ea0"},
	7: {"silent", "72bf07b"}, 8: {"silent", "72bf07b"}, 9: {"silent", "72bf07b"},
	12: {"silent", "4ea4ea0"}, 13: {"silent", "4ea4ea0"},
}
