// C10 — A process crash never leaves an OCI layout unreadable, corrupt or
// half-updated.
//
// Monitor: for every scripted history (a fixed hand-written list plus seeded
// random ones) the check binary runs itself as a child under the ptrace tool
// tools/crashat: the child opens the store on a fresh copy of the prepared
// directory, executes the prefix operations, brackets ONE operation with the
// marker system calls and exits. A count run gives the number N of
// file-system-mutating system calls inside the operation; then, for every
// k = 1..N, a fresh copy is made and the child is SIGKILLed at the entry of the
// k-th call. The oracle runs untraced on every crashed directory.
package main

import (
	"bufio"
	"context"
	_ "crypto/sha256"
	_ "crypto/sha512"
	"encoding/json"
	"errors"
	"fmt"
	"math/rand/v2"
	"os"
	"os/exec"
	"path/filepath"
	"reflect"
	"sort"
	"strconv"
	"strings"
	"syscall"
	"time"

	"oras.land/oras-go/v2/content/oci"
	"oras.land/oras-go/v2/verifharness/evidence"
	"oras.land/oras-go/v2/verifharness/mon"
	"oras.land/oras-go/v2/verifharness/ocicheck"
	"oras.land/oras-go/v2/verifharness/worker"
)

var ctx = context.Background()

func main() {
	if len(os.Args) > 1 && os.Args[1] == "--crashchild" {
		crashChild(os.Args[2:])
		return
	}
	if worker.IsWorker() {
		worker.Serve(runCase)
		return
	}
	r := evidence.New("C10", "fault_enumeration")
	crashat := os.Getenv("VERIF_CRASHAT")
	if st, err := os.Stat(crashat); crashat == "" || err != nil || st.Mode()&0o111 == 0 {
		fmt.Println("BROKEN: VERIF_CRASHAT does not name the crash-point tool")
		os.Exit(2)
	}
	r.Rule("history = (fixed or seeded DAG, AutoSaveIndex, AutoGC, optional existing layout built beforehand, prefix operations run in the same process, ONE interrupted operation ∈ Push blob/manifest, Tag, re-tag, Untag, Delete (AutoGC off/on with cascades and referrers), SaveIndex, GC); " +
		"for each history: count run (N = file-system-mutating system calls inside the operation), then one fresh directory copy and one traced run per k=1..N with SIGKILL at the entry of the k-th call, plus the completed run; " +
		"oracle per crashed directory: oci.NewFromFS and oci.New succeed, every file under blobs/ hashes to its name, every index.json entry names an existing blob of the recorded size, tag→descriptor mapping equals the mapping before or after the operation (from uninterrupted runs), every blob present both before and after is present; then a continuation on every accepted crashed directory: reopen read-write, 1–2 further operations (biased to Untag/Delete/GC, which shorten index.json), reopen via fs.FS and read-write: must open, be a valid layout and observe exactly what the continued store observes (predecessor answers differing only in manifests the crash left stored but unlisted are not judged). " +
		"evaluations = judged directories; distinct = history shape (options, prefix kinds, interrupted operation, syscall sequence); non-trivial = N ≥ 3 and ≥ 2 distinct on-disk crash states observed")
	r.Assume("process crash, not power loss: data written by completed write calls is visible after SIGKILL (page cache)")
	r.Assume("one interrupted operation per history, issued from one goroutine; run-to-run differences in map iteration order may permute the system calls of Delete cascades, every k of each traced run is still killed at its own k-th call")
	r.Assume("with AutoSaveIndex off the 'before' mapping is what is on disk (the last SaveIndex), and Delete/GC are not interrupted (their index.json is stale by contract until SaveIndex)")
	nScripted := len(scripted())
	var enumerated int64
	onRes := func(res worker.Result) { enumerated += res.Cnt["histories_enumerated_exhaustively"] }
	worker.Run(r, worker.Opts{Phase: "scripted", Total: nScripted, Batch: 1, Timeout: 20 * time.Minute, OnResult: onRes})
	nRandom := r.N(56, 1500)
	worker.Run(r, worker.Opts{Phase: "random", Total: nRandom, Batch: r.N(1, 4), Timeout: 20 * time.Minute, OnResult: onRes})
	r.Set("histories", nScripted+nRandom)
	r.Set("scripted_histories", nScripted)
	r.Exhaustive(int(enumerated) == nScripted+nRandom)
	r.Finish(r.N(60, 900))
}

func envSeed() int64 {
	if n, err := strconv.ParseInt(os.Getenv("VERIF_SEED"), 10, 64); err == nil {
		return n
	}
	return 1
}

// ---------------------------------------------------------------------------
// scripts

// Script is one history with its interrupted operation.
type Script struct {
	Name     string        `json:"name"`
	Fixed    bool          `json:"fixed"` // hand-built DAG; otherwise the seeded DAG (Seed, Idx)
	Seed     int64         `json:"seed,omitempty"`
	Idx      int           `json:"idx,omitempty"`
	AutoSave bool          `json:"autoSaveIndex"`
	AutoGC   bool          `json:"autoGC"`
	Base     []ocicheck.Op `json:"base,omitempty"`   // builds an existing layout (AutoSaveIndex on), store then dropped
	Prefix   []ocicheck.Op `json:"prefix,omitempty"` // run in the crashing process before the marker
	Target   ocicheck.Op   `json:"target"`
	neutral  bool
	noMap    bool // this run's prefix ended in another state than the reference run: mapping clause not judged
}

func (s *Script) nodes() []ocicheck.Node {
	if s.Fixed {
		return fixedNodes()
	}
	return randomNodes(s.Seed, s.Idx)
}

type signature struct {
	Live    map[string]string `json:"live"` // what the live store answers after the prefix
	Tags    map[string]string `json:"tags"`
	Digests map[string]string `json:"digests"`
}

func readSig(outFile string) (*signature, string) {
	b, err := os.ReadFile(outFile + ".sig")
	if err != nil {
		return nil, ""
	}
	var sg signature
	if json.Unmarshal(b, &sg) != nil {
		return nil, ""
	}
	c, _ := json.Marshal(sg) // canonical: map keys sorted
	return &sg, string(c)
}

type outcome struct {
	Prefix []string          `json:"prefix"`
	Target string            `json:"target"`
	TgtErr string            `json:"target_error,omitempty"`
	Live   map[string]string `json:"live,omitempty"` // what the live store answers after the operation
}

// crashChild: --crashchild <script.json> <dir> <full|before> <outcome file>
func crashChild(args []string) {
	if len(args) != 4 {
		fmt.Fprintln(os.Stderr, "crashchild: bad arguments")
		os.Exit(3)
	}
	var sc Script
	b, err := os.ReadFile(args[0])
	if err == nil {
		err = json.Unmarshal(b, &sc)
	}
	if err != nil {
		fmt.Fprintln(os.Stderr, "crashchild: script:", err)
		os.Exit(3)
	}
	nodes := sc.nodes()
	st, err := oci.New(args[1])
	if err != nil {
		fmt.Fprintln(os.Stderr, "crashchild: oci.New:", err)
		os.Exit(4)
	}
	st.AutoSaveIndex, st.AutoGC = sc.AutoSave, sc.AutoGC
	var out outcome
	for _, op := range sc.Prefix {
		out.Prefix = append(out.Prefix, ocicheck.ErrClass(ocicheck.Apply(ctx, st, nodes, op)))
	}
	// what is on disk right before the interrupted operation, as a reopened
	// store sees it (written outside the counted window): lets the supervisor
	// recognise runs whose prefix ended in another state than the reference run
	// (the library's GC picks the by-digest descriptor of a digest tagged under
	// two media types in map-iteration order)
	if ro, err := oci.NewFromFS(ctx, os.DirFS(args[1])); err == nil {
		var sg signature
		sg.Live, _ = ocicheck.TagMap(ctx, st)
		sg.Tags, _ = ocicheck.TagMap(ctx, ro)
		sg.Digests = map[string]string{}
		for _, n := range nodes {
			d, err := ro.Resolve(ctx, n.Desc.Digest.String())
			if err != nil {
				sg.Digests[n.Desc.Digest.String()] = ocicheck.ErrClass(err)
			} else {
				sg.Digests[n.Desc.Digest.String()] = ocicheck.CanonDesc(d)
			}
		}
		sb, _ := json.Marshal(sg)
		os.WriteFile(args[3]+".sig", sb, 0o644)
	}
	if args[2] == "full" {
		mon.Mark(1)
		err := ocicheck.Apply(ctx, st, nodes, sc.Target)
		mon.Mark(2)
		out.Target = ocicheck.ErrClass(err)
		out.Live, _ = ocicheck.TagMap(ctx, st)
		if err != nil {
			out.TgtErr = err.Error()
		}
	}
	ob, _ := json.Marshal(out)
	if err := os.WriteFile(args[3], ob, 0o644); err != nil {
		os.Exit(3)
	}
	os.Exit(0)
}

// ---------------------------------------------------------------------------
// the supervisor side of one history

type snapshot struct {
	rep     *ocicheck.Report
	mapping map[string]string
}

type viol struct{ key, what string }

// judge applies the oracle to one directory. before/after may be nil when the
// directory is itself the before/after state.
func judge(dir string, sc *Script, before, after *snapshot) (*snapshot, []viol) {
	var vs []viol
	tk := sc.Target.Kind
	if _, err := oci.NewFromFS(ctx, os.DirFS(dir)); err != nil {
		key := "reopen-failed:fs"
		if strings.Contains(err.Error(), "failed to decode index file") {
			key = "index-truncated"
		}
		return nil, []viol{{key, "oci.NewFromFS fails: " + err.Error()}}
	}
	rep := ocicheck.Validate(dir)
	st, err := oci.New(dir)
	if err != nil {
		key := "reopen-failed"
		if strings.Contains(err.Error(), "failed to decode index file") {
			key = "index-truncated"
		}
		return nil, []viol{{key, "oci.New fails: " + err.Error()}}
	}
	entryKey := "index-entry-missing-blob:" + tk
	if tk == "gc" {
		entryKey = "gc-index-not-saved"
	}
	if sc.neutral { // judging the state before the interrupted operation: not its doing
		entryKey = "index-entry-missing-blob"
	}
	for _, p := range rep.Problems {
		switch p.Key {
		case "blob-name-mismatch":
			vs = append(vs, viol{"blob-corrupt:" + tk, p.What})
		case "named-entry-missing-blob":
			vs = append(vs, viol{entryKey, p.What})
		default:
			vs = append(vs, viol{"layout-invalid:" + p.Key, p.What})
		}
	}
	for _, w := range rep.UnnamedMissing {
		vs = append(vs, viol{entryKey, "index.json: " + w})
	}
	mapping, err := ocicheck.TagMap(ctx, st)
	if err != nil {
		vs = append(vs, viol{"tags-failed", "Tags: " + err.Error()})
	}
	snap := &snapshot{rep: rep, mapping: mapping}
	if before != nil && after != nil && err == nil {
		if !sc.noMap && !reflect.DeepEqual(mapping, before.mapping) && !reflect.DeepEqual(mapping, after.mapping) {
			vs = append(vs, viol{"mapping-neither:" + tk, fmt.Sprintf("tag mapping %v is neither the mapping before %v nor after %v the interrupted %s", mapping, before.mapping, after.mapping, tk)})
		}
		for d := range before.rep.Blobs {
			if _, inAfter := after.rep.Blobs[d]; !inAfter {
				continue
			}
			if _, ok := rep.Blobs[d]; !ok {
				vs = append(vs, viol{"returned-effect-lost:" + tk, fmt.Sprintf("blob %s, present before and after the operation, is missing or damaged", d)})
			}
		}
	}
	return snap, vs
}

// continuation restarts on a crashed (and accepted) layout: the directory is
// opened read-write, one or two further operations run (biased to the ones
// that make index.json shorter: Untag, Delete, GC), the index is saved, and the
// directory is opened again: it must open, be a valid layout, and every reopen
// path must observe exactly what the continued store observes.
func continuation(dir string, sc *Script, nodes []ocicheck.Node, rng *rand.Rand) ([]ocicheck.Op, *viol) {
	// manifests that the crash left stored but not listed in index.json (allowed
	// garbage, or children of a listed parent): the restarted store does not know
	// them as manifests of their own, a store reopened later may (once a tag or a
	// pushed parent lists them) — predecessor answers that differ only in such
	// manifests are not judged
	unlisted := map[string]bool{}
	if rep := ocicheck.Validate(dir); rep.Index != nil {
		listed := map[string]bool{}
		for _, e := range rep.Index.Manifests {
			listed[e.Digest.String()] = true
		}
		for _, n := range nodes {
			if _, stored := rep.Blobs[n.Desc.Digest.String()]; n.Manifest && stored && !listed[n.Desc.Digest.String()] {
				unlisted[ocicheck.PredKey(n.Desc)] = true
			}
		}
	}
	st, err := oci.New(dir)
	if err != nil {
		return nil, &viol{"continuation:reopen-failed", "oci.New: " + err.Error()}
	}
	st.AutoSaveIndex, st.AutoGC = sc.AutoSave, sc.AutoGC
	ocicheck.FirstUseCancelled(st)
	var done []ocicheck.Op
	nOps := 1 + rng.IntN(2)
	for k := 0; k < nOps; k++ {
		tags, _ := ocicheck.TagMap(ctx, st)
		var names []string
		for t := range tags {
			names = append(names, t)
		}
		sort.Strings(names)
		var have, haveManifests []int
		for _, n := range nodes {
			if ok, err := st.Exists(ctx, n.Desc); err == nil && ok {
				have = append(have, n.ID)
				if n.Manifest {
					haveManifests = append(haveManifests, n.ID)
				}
			}
		}
		var op ocicheck.Op
		switch x := rng.IntN(20); {
		case x < 8 && len(names) > 0:
			op = ocicheck.Op{Kind: "untag", Ref: names[rng.IntN(len(names))]}
		case x < 13 && len(haveManifests) > 0:
			op = ocicheck.Op{Kind: "delete", Node: haveManifests[rng.IntN(len(haveManifests))]}
		case x < 14 && len(have) > 0:
			op = ocicheck.Op{Kind: "delete", Node: have[rng.IntN(len(have))]}
		case x < 17:
			op = ocicheck.Op{Kind: "gc"}
		case x < 19 && len(have) > 0:
			op = ocicheck.Op{Kind: "tag", Node: have[rng.IntN(len(have))], Ref: []string{"after-crash", "v1", "latest"}[rng.IntN(3)]}
		default:
			op = ocicheck.Op{Kind: "push", Node: rng.IntN(len(nodes))}
		}
		op.Err = ocicheck.ErrClass(ocicheck.Apply(ctx, st, nodes, op))
		done = append(done, op)
	}
	if !sc.AutoSave {
		if err := st.SaveIndex(); err != nil {
			return done, &viol{"continuation:saveindex-failed", err.Error()}
		}
	}
	rep := ocicheck.Validate(dir)
	if len(rep.Problems) > 0 {
		return done, &viol{"continuation:ondisk:" + rep.Problems[0].Key, rep.Problems[0].What}
	}
	if len(rep.UnnamedMissing) > 0 && sc.AutoSave {
		return done, &viol{"continuation:index-entry-missing-blob", rep.UnnamedMissing[0]}
	}
	var digests []string
	for _, n := range nodes {
		digests = append(digests, n.Desc.Digest.String())
	}
	refs := []string{"after-crash", "v1", "latest"}
	a := ocicheck.Observe(ctx, st, nodes, refs, digests)
	for _, how := range []string{"fs", "rw"} {
		ro, cleanup, err := ocicheck.Reopen(ctx, dir, how, "")
		if err != nil {
			return done, &viol{"continuation:reopen-failed", fmt.Sprintf("reopening (%s) after the continuation: %v", how, err)}
		}
		b := ocicheck.Observe(ctx, ro, nodes, refs, digests)
		cleanup()
		for _, d := range ocicheck.Diff(a, b) {
			if d.Field == "predecessors" && onlyIn(d.A, d.B, unlisted) {
				continue
			}
			return done, &viol{"continuation:obs-diff:" + d.Field, fmt.Sprintf("%s %q: continued store answers %s, reopened (%s) answers %s", d.Field, d.Item, d.A, how, d.B)}
		}
	}
	return done, nil
}

// onlyIn reports whether two space-separated predecessor lists differ only in members of set.
func onlyIn(a, b string, set map[string]bool) bool {
	in := func(s string) map[string]bool {
		m := map[string]bool{}
		for _, k := range strings.Fields(s) {
			m[k] = true
		}
		return m
	}
	ma, mb := in(a), in(b)
	for k := range ma {
		if !mb[k] && !set[k] {
			return false
		}
	}
	for k := range mb {
		if !ma[k] && !set[k] {
			return false
		}
	}
	return true
}

func runChild(timeout time.Duration, name string, args ...string) (int, string, bool) {
	c, cancel := context.WithTimeout(ctx, timeout)
	defer cancel()
	cmd := exec.CommandContext(c, name, args...)
	cmd.Env = append(os.Environ(), "GOMAXPROCS=2", "GOGC=off")
	cmd.SysProcAttr = &syscall.SysProcAttr{Setpgid: true}
	cmd.Cancel = func() error { return syscall.Kill(-cmd.Process.Pid, syscall.SIGKILL) }
	out, err := cmd.CombinedOutput()
	if c.Err() != nil {
		return -1, string(out), true
	}
	var ee *exec.ExitError
	if errors.As(err, &ee) {
		return ee.ExitCode(), string(out), false
	}
	if err != nil {
		return -2, err.Error() + " " + string(out), false
	}
	return 0, string(out), false
}

func readCount(log string) (int, []string, error) {
	f, err := os.Open(log)
	if err != nil {
		return 0, nil, err
	}
	defer f.Close()
	var seq []string
	n := -1
	sc := bufio.NewScanner(f)
	for sc.Scan() {
		fs := strings.Fields(sc.Text())
		if len(fs) == 2 && fs[0] == "COUNT" {
			n, _ = strconv.Atoi(fs[1])
		} else if len(fs) == 2 {
			seq = append(seq, fs[1])
		}
	}
	if n < 0 {
		return 0, nil, fmt.Errorf("no COUNT line in %s", log)
	}
	return n, seq, nil
}

const childTimeout = 5 * time.Minute

func runCase(phase string, i int) worker.Result {
	var res worker.Result
	seed := envSeed()
	tmp, err := os.MkdirTemp("", "verif-c10-")
	if err != nil {
		res.Violate("harness:mkdtemp", err.Error(), nil)
		return res
	}
	defer os.RemoveAll(tmp)

	var sc Script
	var expect []string // expected outcome classes of the prefix
	if phase == "scripted" {
		sc = scripted()[i]
	} else {
		sc = randomScript(seed, i, filepath.Join(tmp, "sim"))
	}
	nodes := sc.nodes()
	wit := func(detail any) map[string]any {
		return map[string]any{"script": sc, "nodes": ocicheck.Describe(nodes), "detail": detail}
	}
	fail := func(key, what string, detail any) worker.Result {
		res.Violate(key, what, wit(detail))
		return res
	}

	// prepared directory
	base := filepath.Join(tmp, "base")
	os.Mkdir(base, 0o755)
	if len(sc.Base) > 0 {
		st, err := oci.New(base)
		if err != nil {
			return fail("harness:base", err.Error(), nil)
		}
		st.AutoGC = sc.AutoGC
		for _, op := range sc.Base {
			if err := ocicheck.Apply(ctx, st, nodes, op); err != nil && ocicheck.ErrClass(err) == "error" {
				return fail("harness:base-op", fmt.Sprintf("%s: %v", op, err), nil)
			}
		}
	}
	// expected prefix outcomes from an in-process run (scripted histories)
	if phase == "scripted" {
		sim := filepath.Join(tmp, "sim")
		if err := ocicheck.CopyDir(base, sim); err != nil {
			return fail("harness:copy", err.Error(), nil)
		}
		st, err := oci.New(sim)
		if err != nil {
			return fail("harness:sim", err.Error(), nil)
		}
		st.AutoSaveIndex, st.AutoGC = sc.AutoSave, sc.AutoGC
		for _, op := range sc.Prefix {
			c := ocicheck.ErrClass(ocicheck.Apply(ctx, st, nodes, op))
			if c != "" && c != "exists" {
				return fail("harness:scripted-prefix-fails", fmt.Sprintf("%s → %s", op, c), nil)
			}
			expect = append(expect, c)
		}
		os.RemoveAll(sim)
	} else {
		for _, op := range sc.Prefix {
			expect = append(expect, op.Err)
		}
		os.RemoveAll(filepath.Join(tmp, "sim"))
	}
	for k := range sc.Prefix {
		sc.Prefix[k].Err = ""
	}
	scriptPath := filepath.Join(tmp, "script.json")
	sb, _ := json.Marshal(sc)
	os.WriteFile(scriptPath, sb, 0o644)
	self, err := os.Executable()
	if err != nil {
		return fail("harness:executable", err.Error(), nil)
	}
	crashat := os.Getenv("VERIF_CRASHAT")
	outFile := filepath.Join(tmp, "outcome.json")
	logFile := filepath.Join(tmp, "crashat.log")

	// the state before: uninterrupted run of the prefix only
	beforeDir := filepath.Join(tmp, "before")
	if err := ocicheck.CopyDir(base, beforeDir); err != nil {
		return fail("harness:copy", err.Error(), nil)
	}
	code, out, to := runChild(childTimeout, self, "--crashchild", scriptPath, beforeDir, "before", outFile)
	if to {
		res.Inconc = "prefix run timed out: " + sc.Name
		return res
	}
	if code != 0 {
		return fail("harness:before-run", fmt.Sprintf("exit %d: %s", code, out), nil)
	}
	var oc outcome
	ob, _ := os.ReadFile(outFile)
	json.Unmarshal(ob, &oc)
	if fmt.Sprint(oc.Prefix) != fmt.Sprint(expect) && !(len(oc.Prefix) == 0 && len(expect) == 0) {
		return fail("harness:prefix-nondeterministic", fmt.Sprintf("prefix outcomes %v, expected %v", oc.Prefix, expect), nil)
	}
	sc.neutral = true
	before, vs := judge(beforeDir, &sc, nil, nil)
	sc.neutral = false
	res.Evals++
	if len(vs) > 0 {
		return fail("before-state:"+vs[0].key, "the state before the interrupted operation already fails the oracle: "+vs[0].what, vs)
	}

	// the state after + count
	afterDir := filepath.Join(tmp, "after")
	if err := ocicheck.CopyDir(base, afterDir); err != nil {
		return fail("harness:copy", err.Error(), nil)
	}
	code, out, to = runChild(childTimeout, crashat, "0", logFile, "--", self, "--crashchild", scriptPath, afterDir, "full", outFile)
	if to {
		res.Inconc = "count run timed out: " + sc.Name
		return res
	}
	if code != 0 {
		return fail("harness:count-run", fmt.Sprintf("crashat exit %d: %s", code, out), nil)
	}
	n, seq, err := readCount(logFile)
	if err != nil {
		return fail("harness:count-log", err.Error(), nil)
	}
	ob, _ = os.ReadFile(outFile)
	oc = outcome{}
	json.Unmarshal(ob, &oc)
	refSig, refSigText := readSig(outFile)
	if refSig == nil {
		return fail("harness:no-signature", "the count run left no pre-operation signature", nil)
	}
	// before and after mapping come from the SAME (count) run
	before.mapping = refSig.Tags
	if before.mapping == nil {
		before.mapping = map[string]string{}
	}
	after, vs := judge(afterDir, &sc, nil, nil)
	res.Evals++
	if sc.AutoSave && len(vs) == 0 {
		// effects of operations that had returned are present on disk: what the live store
		// answered (tag → descriptor) after the prefix / after the completed operation is
		// what a reopened store answers
		if refSig.Live != nil && !reflect.DeepEqual(refSig.Live, before.mapping) {
			res.Violate("returned-effect-lost:prefix-tags", fmt.Sprintf("%s: after the prefix returned the live store answers %v, the directory holds %v", sc.Name, refSig.Live, before.mapping), wit(nil))
			return res
		}
		if oc.Live != nil && !reflect.DeepEqual(oc.Live, after.mapping) {
			res.Violate("returned-effect-lost:"+sc.Target.Kind, fmt.Sprintf("%s: after %s returned the live store answers %v, the directory holds %v", sc.Name, sc.Target, oc.Live, after.mapping), wit(nil))
			return res
		}
		res.Count("returned_effect_comparisons", 2)
	}
	if len(vs) > 0 {
		// the completed operation itself leaves a state the oracle rejects
		res.Violate(vs[0].key, fmt.Sprintf("%s: completed %s: %s", sc.Name, sc.Target, vs[0].what), wit(map[string]any{"k": "completed", "problems": vs}))
		return res
	}
	states := map[string]bool{ocicheck.StateHash(beforeDir): true, ocicheck.StateHash(afterDir): true}

	// every crash point
	reported := 0
	done := false
	for k := 1; k <= n+40 && !done; k++ {
		d := filepath.Join(tmp, fmt.Sprintf("k%d", k))
		if err := ocicheck.CopyDir(base, d); err != nil {
			return fail("harness:copy", err.Error(), nil)
		}
		os.Remove(outFile)
		os.Remove(outFile + ".sig")
		code, out, to := runChild(childTimeout, crashat, fmt.Sprint(k), logFile, "--", self, "--crashchild", scriptPath, d, "full", outFile)
		switch {
		case to:
			res.Inconc = fmt.Sprintf("traced run k=%d timed out: %s", k, sc.Name)
			os.RemoveAll(d)
			return res
		case code == 10:
			res.Count("kills", 1)
		case code == 0:
			done = true // this run had fewer than k counted calls: it completed
			res.Count("completed_runs", 1)
			if k != n+1 {
				res.Count("count_drift_runs", 1)
			}
		default:
			os.RemoveAll(d)
			return fail("harness:traced-run", fmt.Sprintf("k=%d crashat exit %d: %s", k, code, out), nil)
		}
		_, sigText := readSig(outFile)
		sc.noMap = sigText != refSigText
		if sc.noMap {
			res.Count("crash_states_mapping_unjudged_prefix_state_differs", 1)
		}
		_, vs := judge(d, &sc, before, after)
		sc.noMap = false
		res.Evals++
		res.Count("crash_states_judged", 1)
		h := ocicheck.StateHash(d)
		states[h] = true
		res.Observe("crash_states", sc.Name+"/"+h)
		if len(vs) > 0 && reported < 3 {
			reported++
			at := "?"
			if k <= len(seq) {
				at = seq[k-1]
			}
			res.Violate(vs[0].key, fmt.Sprintf("%s: killed before counted call %d/%d (%s) of %s: %s", sc.Name, k, n, at, sc.Target, vs[0].what),
				wit(map[string]any{"k": k, "n": n, "syscalls": strings.Join(seq, " "), "problems": vs, "temp_files": ocicheck.Validate(d).TempFiles}))
		}
		if len(vs) == 0 {
			// life goes on after the crash: restart on the crashed layout, operate, reopen
			crng := evidence.RandFor(seed, "c10-cont-"+phase, i*1000+k)
			cops, cv := continuation(d, &sc, nodes, crng)
			res.Count("continuations", 1)
			res.Count("continuation_ops", int64(len(cops)))
			for _, o := range cops {
				res.Observe("continuation_op_outcomes", o.Kind+"/"+o.Err)
			}
			if cv != nil && reported < 3 {
				reported++
				res.Violate(cv.key, fmt.Sprintf("%s: killed before counted call %d/%d of %s, then restarted and ran %v: %s", sc.Name, k, n, sc.Target, cops, cv.what),
					wit(map[string]any{"k": k, "n": n, "syscalls": strings.Join(seq, " "), "continuation": cops}))
			}
		}
		os.RemoveAll(d)
	}
	if done {
		res.Count("histories_enumerated_exhaustively", 1)
	} else {
		res.Inconc = fmt.Sprintf("%s: no completed run up to k=%d (count run had %d calls)", sc.Name, n+40, n)
	}
	res.Count("counted_syscalls", int64(n))
	res.MaxOf("max_crash_points_per_history", int64(n))
	res.Observe("interrupted_ops", sc.Target.Kind+"/save="+fmt.Sprint(sc.AutoSave)+"/gc="+fmt.Sprint(sc.AutoGC)+"/existing="+fmt.Sprint(len(sc.Base) > 0))
	res.Observe("syscall_sequences", strings.Join(seq, " "))
	res.Observe("target_outcomes", sc.Target.Kind+"/"+oc.Target)
	var kinds []string
	for _, op := range append(append([]ocicheck.Op{}, sc.Base...), sc.Prefix...) {
		kinds = append(kinds, op.Kind[:1])
	}
	res.Key = fmt.Sprintf("%s|save=%v gc=%v base=%d|%s|%s|%s", sc.Name, sc.AutoSave, sc.AutoGC, len(sc.Base), strings.Join(kinds, ""), sc.Target.Kind, strings.Join(seq, ","))
	if phase == "random" {
		res.Key = res.Key[strings.Index(res.Key, "|"):]
	}
	res.NT = n >= 3 && len(states) >= 2
	if phase == "scripted" && i%9 == 0 || phase == "random" && i%200 == 0 {
		res.Sample = map[string]any{"script": sc, "counted_syscalls": strings.Join(seq, " "), "distinct_states": len(states), "target_outcome": oc.Target}
	}
	return res
}
