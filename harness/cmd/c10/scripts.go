package main

import (
	"encoding/json"
	"fmt"
	"os"

	"github.com/opencontainers/go-digest"
	ocispec "github.com/opencontainers/image-spec/specs-go/v1"
	"oras.land/oras-go/v2/content/oci"
	"oras.land/oras-go/v2/verifharness/evidence"
	"oras.land/oras-go/v2/verifharness/gen"
	"oras.land/oras-go/v2/verifharness/ocicheck"
)

// ---------------------------------------------------------------------------
// the hand-built DAG of the scripted histories

const (
	b0, b1, b2, big = 0, 1, 2, 3
	c0, c1          = 4, 5
	m0, m1          = 6, 7
	r0, c2          = 8, 9
	r1, c3          = 10, 11
	i0              = 12
	m2              = 13
	stray           = 14
)

func fixedNodes() []ocicheck.Node {
	var nodes []ocicheck.Node
	add := func(kind, mt string, data []byte, manifest bool, subject int, succ ...int) int {
		nodes = append(nodes, ocicheck.Node{ID: len(nodes), Kind: kind, Bytes: data, Succ: succ, Subject: subject, Manifest: manifest,
			Desc: ocispec.Descriptor{MediaType: mt, Digest: digest.FromBytes(data), Size: int64(len(data))}})
		return len(nodes) - 1
	}
	blob := func(seed byte, n int) []byte {
		p := make([]byte, n)
		x := uint32(seed)*2654435761 + 12345
		for i := range p {
			x = x*1664525 + 1013904223
			p[i] = byte(x >> 24)
		}
		return p
	}
	add("blob", gen.MTOCILayer, blob(1, 100), false, -1)     // b0
	add("blob", gen.MTOCILayer, blob(2, 2000), false, -1)    // b1
	add("blob", gen.MTOCILayerGzip, blob(3, 0), false, -1)   // b2: empty blob
	add("blob", gen.MTOCILayer, blob(4, 150<<10), false, -1) // big: several write calls
	add("config", gen.MTOCIConfig, []byte(`{"architecture":"amd64","os":"linux","n":0}`), false, -1)
	add("config", gen.MTOCIConfig, []byte(`{"architecture":"arm64","os":"linux","n":1}`), false, -1)
	image := func(cfg int, subject int, artifactType string, layers ...int) []byte {
		m := ocispec.Manifest{MediaType: gen.MTOCIManifest, Config: nodes[cfg].Desc, ArtifactType: artifactType, Layers: []ocispec.Descriptor{}}
		m.SchemaVersion = 2
		for _, l := range layers {
			m.Layers = append(m.Layers, nodes[l].Desc)
		}
		if subject >= 0 {
			d := nodes[subject].Desc
			m.Subject = &d
		}
		b, _ := json.Marshal(m)
		return b
	}
	add("manifest", gen.MTOCIManifest, image(c0, -1, "", b0, b1), true, -1, c0, b0, b1) // m0
	add("manifest", gen.MTOCIManifest, image(c1, -1, "", b1, b2), true, -1, c1, b1, b2) // m1
	// the referrers come before their configs in the id order (r0=8, c2=9, r1=10, c3=11)
	c2b := []byte(`{"sig":0}`)
	c2d := ocispec.Descriptor{MediaType: "application/vnd.test.sig.config+json", Digest: digest.FromBytes(c2b), Size: int64(len(c2b))}
	c3b := []byte(`{"sig":1}`)
	c3d := ocispec.Descriptor{MediaType: "application/vnd.test.sig.config+json", Digest: digest.FromBytes(c3b), Size: int64(len(c3b))}
	ref := func(cfg ocispec.Descriptor, subject int) []byte {
		d := nodes[subject].Desc
		m := ocispec.Manifest{MediaType: gen.MTOCIManifest, Config: cfg, ArtifactType: "application/vnd.test.sig", Layers: []ocispec.Descriptor{}, Subject: &d}
		m.SchemaVersion = 2
		b, _ := json.Marshal(m)
		return b
	}
	add("manifest", gen.MTOCIManifest, ref(c2d, m0), true, m0, m0, c2) // r0
	add("config", c2d.MediaType, c2b, false, -1)                       // c2
	add("manifest", gen.MTOCIManifest, ref(c3d, r0), true, r0, r0, c3) // r1
	add("config", c3d.MediaType, c3b, false, -1)                       // c3
	idx := ocispec.Index{MediaType: gen.MTOCIIndex, Manifests: []ocispec.Descriptor{nodes[m0].Desc, nodes[m1].Desc}}
	idx.SchemaVersion = 2
	ib, _ := json.Marshal(idx)
	add("index", gen.MTOCIIndex, ib, true, -1, m0, m1)                              // i0
	add("manifest", gen.MTOCIManifest, image(c1, -1, "", big), true, -1, c1, big)   // m2
	add("blob", "application/vnd.test.data", []byte("never referenced"), false, -1) // stray
	return nodes
}

func push(ids ...int) []ocicheck.Op {
	var out []ocicheck.Op
	for _, id := range ids {
		out = append(out, ocicheck.Op{Kind: "push", Node: id})
	}
	return out
}
func tag(n int, ref string) ocicheck.Op { return ocicheck.Op{Kind: "tag", Node: n, Ref: ref} }
func tagAnn(n int, ref string) ocicheck.Op {
	return ocicheck.Op{Kind: "tag", Node: n, Ref: ref, Ann: map[string]string{"org.test.note": "annotated", ocispec.AnnotationRefName: "misleading"}}
}
func tagResolved(n int, ref string) ocicheck.Op {
	return ocicheck.Op{Kind: "tag", Node: n, Ref: ref, Resolved: true}
}
func untag(ref string) ocicheck.Op { return ocicheck.Op{Kind: "untag", Ref: ref} }
func del(n int) ocicheck.Op        { return ocicheck.Op{Kind: "delete", Node: n} }
func ops(parts ...any) []ocicheck.Op {
	var out []ocicheck.Op
	for _, p := range parts {
		switch v := p.(type) {
		case ocicheck.Op:
			out = append(out, v)
		case []ocicheck.Op:
			out = append(out, v...)
		}
	}
	return out
}

var (
	gcOp   = ocicheck.Op{Kind: "gc"}
	saveOp = ocicheck.Op{Kind: "saveindex"}
)

// scripted is the fixed list of hand-written histories: every operation of the
// statement and every option, fresh and pre-existing layouts.
func scripted() []Script {
	imgM0 := push(c0, b0, b1, m0)
	imgM1 := push(c1, b1, b2, m1)
	refs := push(c2, r0, c3, r1)
	all := push(b0, b1, b2, big, c0, c1, m0, m1, c2, r0, c3, r1, i0, m2, stray)
	S := func(name string, save, gc bool, base, prefix []ocicheck.Op, target ocicheck.Op) Script {
		return Script{Name: name, Fixed: true, AutoSave: save, AutoGC: gc, Base: base, Prefix: prefix, Target: target}
	}
	return []Script{
		S("push-blob-fresh", true, true, nil, nil, push(b0)[0]),
		S("push-big-blob", true, true, nil, push(b0), push(big)[0]),
		S("push-empty-blob", true, true, nil, push(b0), push(b2)[0]),
		S("push-manifest", true, true, nil, push(c0, b0, b1), push(m0)[0]),
		S("push-manifest-parent-first", true, true, nil, nil, push(m0)[0]),
		S("push-second-manifest", true, true, nil, ops(imgM0, tag(m0, "v1"), push(c1, b2)), push(m1)[0]),
		S("push-existing-blob", true, true, nil, push(b0), push(b0)[0]),
		S("push-referrer", true, true, nil, ops(imgM0, push(c2)), push(r0)[0]),
		S("push-index", true, true, nil, ops(imgM0, imgM1), push(i0)[0]),
		S("push-corrupt-manifest", true, true, nil, push(c0, b0, b1), ocicheck.Op{Kind: "pushbad", Node: m0}),
		S("tag-new", true, true, nil, imgM0, tag(m0, "v1")),
		S("tag-second-name", true, true, nil, ops(imgM0, tag(m0, "v1")), tag(m0, "latest")),
		S("retag-move", true, true, nil, ops(imgM0, imgM1, tag(m0, "v1"), tag(m1, "v2")), tag(m1, "v1")),
		S("retag-annotations-only", true, true, nil, ops(imgM0, tag(m0, "v1")), tagAnn(m0, "v1")),
		S("tag-blob", true, true, nil, push(b0), tag(b0, "blobtag")),
		S("tag-annotated", true, true, nil, imgM0, tagAnn(m0, "ünï cødé/タグ")),
		S("untag-one-of-two", true, true, nil, ops(imgM0, tag(m0, "a"), tag(m0, "b")), untag("a")),
		S("untag-last", true, true, nil, ops(imgM0, imgM1, tag(m0, "a"), tag(m1, "b")), untag("a")),
		S("delete-tagged-nogc", true, false, nil, ops(imgM0, imgM1, tag(m0, "v1"), tag(m0, "latest"), tag(m1, "v2")), del(m0)),
		S("delete-tagged-cascade", true, true, nil, ops(imgM0, imgM1, refs, tag(m0, "v1"), tag(m1, "v2")), del(m0)),
		S("delete-untagged-cascade", true, true, nil, ops(imgM0, imgM1, tag(m1, "v2")), del(m0)),
		S("delete-layer-nogc", true, false, nil, ops(imgM0, tag(m0, "v1")), del(b0)),
		S("delete-tagged-blob", true, true, nil, ops(push(b0), tag(b0, "blobtag"), imgM1, tag(m1, "v2")), del(b0)),
		S("delete-blob-tagged-via-resolve", true, true, nil, ops(imgM0, tag(m0, "v1"), tagResolved(b0, "keep")), del(b0)),
		S("delete-cascade-spares-blob-tagged-via-resolve", true, true, nil, ops(imgM0, imgM1, tag(m1, "v2"), tagResolved(b0, "keep"), tagResolved(c0, "cfg")), del(m0)),
		S("tag-blob-via-resolve", true, true, nil, ops(imgM0, tag(b0, "typed")), tagResolved(b0, "keep")),
		S("delete-index-shared-children", true, true, nil, ops(imgM0, imgM1, push(i0), tag(i0, "idx"), tag(m1, "keep")), del(i0)),
		S("delete-with-tagged-referrer", true, true, nil, ops(imgM0, refs, tag(m0, "v1"), tag(r0, "sig")), del(m0)),
		S("delete-referrer", true, true, nil, ops(imgM0, refs, tag(m0, "v1")), del(r0)),
		S("delete-big-image", true, true, nil, ops(imgM1, push(big, m2), tag(m2, "big"), tag(m1, "v2")), del(m2)),
		S("gc-garbage", true, true, nil, ops(all, tag(m0, "v1")), gcOp),
		S("gc-nothing-to-do", true, true, nil, ops(imgM0, tag(m0, "v1")), gcOp),
		S("gc-all-untagged", true, true, nil, ops(imgM0, refs), gcOp),
		S("gc-after-untag", true, false, nil, ops(imgM0, imgM1, tag(m0, "v1"), tag(m1, "v2"), untag("v2")), gcOp),
		S("tag-after-gc-removed-it", true, true, nil, ops(imgM0, imgM1, tag(m0, "v1"), tag(m1, "tmp"), untag("tmp"), gcOp), tag(m1, "v2")),
		S("tag-after-autogc-removed-it", true, true, nil, ops(imgM0, imgM1, tag(m1, "v2"), del(m0)), tag(c0, "cfg")),
		S("saveindex-first", false, true, nil, ops(imgM0, imgM1, tag(m0, "v1"), tag(m1, "v2")), saveOp),
		S("saveindex-unchanged", true, true, nil, ops(imgM0, tag(m0, "v1")), saveOp),
		S("saveindex-moved-tag", false, true, ops(imgM0, imgM1, tag(m0, "v1"), tag(m0, "old")), ops(tag(m1, "v1"), untag("old"), tag(m1, "new")), saveOp),
		S("nosave-tag", false, true, nil, imgM0, tag(m0, "v1")),
		S("nosave-push-manifest", false, true, nil, push(c0, b0, b1), push(m0)[0]),
		S("existing-tag", true, true, ops(all, tag(m0, "v1")), nil, tag(m1, "v2")),
		S("existing-retag", true, true, ops(all, tag(m0, "v1")), nil, tag(i0, "v1")),
		S("existing-untag", true, true, ops(all, tag(m0, "v1"), tag(m1, "v2")), nil, untag("v1")),
		S("existing-delete-cascade", true, true, ops(imgM0, imgM1, refs, tag(m0, "v1"), tag(m1, "v2")), nil, del(m0)),
		S("existing-delete-nogc", true, false, ops(imgM0, imgM1, refs, tag(m0, "v1"), tag(m1, "v2")), nil, del(m0)),
		S("existing-gc", true, true, ops(all, tag(m0, "v1")), nil, gcOp),
		S("existing-push-manifest", true, true, ops(imgM0, tag(m0, "v1")), push(c1, b2), push(m1)[0]),
		S("existing-gc-then-delete", true, false, ops(all, tag(i0, "idx")), ops(gcOp), del(i0)),
	}
}

// ---------------------------------------------------------------------------
// seeded random histories

func randomNodes(seed int64, idx int) []ocicheck.Node {
	rng := evidence.RandFor(seed, "c10-dag", idx)
	n := 6 + rng.IntN(13)
	o := gen.DefaultOpts(rng, n)
	o.DupMediaType = false
	o.ManifestAsBlob = false
	o.Foreign = rng.IntN(4) == 0
	o.AbsentSubjects = rng.IntN(4) == 0
	o.BlobMax = 200
	if rng.IntN(5) == 0 {
		o.BigBlob = 70 << 10
	}
	return ocicheck.FromDAG(gen.Generate(rng, o))
}

// randomScript draws a history by running the operation generator against a
// scratch store (so that operands make sense) and recording what it did.
func randomScript(seed int64, idx int, scratch string) Script {
	rng := evidence.RandFor(seed, "c10-script", idx)
	nodes := randomNodes(seed, idx)
	sc := Script{Name: fmt.Sprintf("random-%d", idx), Seed: seed, Idx: idx, AutoSave: rng.IntN(6) > 0, AutoGC: rng.IntN(2) == 0}
	os.RemoveAll(scratch)
	os.MkdirAll(scratch, 0o755)
	st, err := oci.New(scratch)
	if err != nil {
		return sc
	}
	og := ocicheck.NewOpGen(rng, nodes, 2+rng.IntN(3), sc.AutoSave)
	og.AllowBadOp = false
	og.NoOctet = true // the continuation after a crash does not know about pinned names
	og.Weights["pushbad"] = 0
	if !sc.AutoSave {
		// index.json is stale by contract until SaveIndex: no removals
		og.Weights["delete"], og.Weights["gc"] = 0, 0
		og.Weights["saveindex"] = 6
	}
	nBase := 0
	if rng.IntN(3) == 0 {
		nBase = 4 + rng.IntN(10)
	}
	st.AutoGC = sc.AutoGC
	for k := 0; k < nBase; k++ { // existing layout, built with AutoSaveIndex on
		op := og.Next(ctx, rng, st)
		if k < 3 {
			op = ocicheck.Op{Kind: "push", Node: rng.IntN(len(nodes))}
		}
		ocicheck.Apply(ctx, st, nodes, op)
		sc.Base = append(sc.Base, op)
	}
	if nBase > 0 {
		if st, err = oci.New(scratch); err != nil {
			return sc
		}
	}
	st.AutoSaveIndex, st.AutoGC = sc.AutoSave, sc.AutoGC
	nPrefix := 5 + rng.IntN(20)
	for k := 0; k < nPrefix; k++ {
		op := og.Next(ctx, rng, st)
		if nBase == 0 && k < 3 {
			op = ocicheck.Op{Kind: "push", Node: rng.IntN(len(nodes))}
		}
		op.Err = ocicheck.ErrClass(ocicheck.Apply(ctx, st, nodes, op))
		sc.Prefix = append(sc.Prefix, op)
	}
	// the interrupted operation: prefer the ones that change several things
	og.Weights["push"], og.Weights["tag"], og.Weights["retag"], og.Weights["untag"] = 14, 10, 10, 10
	if sc.AutoSave {
		og.Weights["delete"], og.Weights["gc"], og.Weights["saveindex"] = 30, 14, 2
	} else {
		og.Weights["saveindex"] = 40
	}
	sc.Target = og.Next(ctx, rng, st)
	return sc
}
