// C19 — PackManifest produces a valid, self-consistent, pushable manifest.
//
// Monitor: the real oras.PackManifest / oras.Pack are called with seeded option
// sets against real targets (memory, OCI layout, file store, remote repository
// on the registry model), every target wrapped in a recorder that logs Push /
// Exists / Fetch calls. On success the stored bytes are fetched back, parsed
// and compared field by field with what an independent builder derives from
// the documented mapping; invented blobs must exist; the result must be
// copyable; a repeated call with a fixed created time must give the identical
// descriptor. On the documented rejections the recorder must have seen no
// Push (no manifest Push for a malformed created time).
package main

import (
	"bytes"
	"context"
	_ "crypto/sha256"
	_ "crypto/sha512"
	"encoding/json"
	"errors"
	"fmt"
	"io"
	"math/rand/v2"
	"os"
	"path/filepath"
	"reflect"
	"strings"
	"sync"

	"github.com/opencontainers/go-digest"
	ocispec "github.com/opencontainers/image-spec/specs-go/v1"
	oras "oras.land/oras-go/v2"
	"oras.land/oras-go/v2/content"
	"oras.land/oras-go/v2/content/file"
	"oras.land/oras-go/v2/content/memory"
	"oras.land/oras-go/v2/errdef"
	"oras.land/oras-go/v2/verifharness/evidence"
	"oras.land/oras-go/v2/verifharness/stores"
	"oras.land/oras-go/v2/verifharness/worker"
)

var ctx = context.Background()

const (
	mtImageManifest    = "application/vnd.oci.image.manifest.v1+json"
	mtArtifactManifest = "application/vnd.oci.artifact.manifest.v1+json"
	mtEmptyJSON        = "application/vnd.oci.empty.v1+json"
	mtUnknownConfig    = "application/vnd.unknown.config.v1+json"
	mtUnknownArtifact  = "application/vnd.unknown.artifact.v1"
	annCreated         = "org.opencontainers.image.created"
	annTitle           = "org.opencontainers.image.title"
	manifestFileName   = "packed-manifest.json"
	configFileName     = "packed-config.json"
	annArtifactCreated = "org.opencontainers.artifact.created"
)

func main() {
	if worker.IsWorker() {
		worker.Serve(runCase)
		return
	}
	r := evidence.New("C19", "exploration")
	r.Rule("case = (entry point ∈ {PackManifest v1.0, v1.1, unsupported version, Pack image, Pack artifact}, artifact type ∈ {valid RFC 6838 names incl. lengths 1/127, invalid by each rule incl. 128, empty}, " +
		"config descriptor given (valid / invalid / empty-JSON / absent media type incl. the zero descriptor, content possibly exactly {} under a custom type) | config annotations | neither, layers nil / empty / 1..4 with duplicates, subject absent / plain / carrying artifactType, annotations, platform, urls, data (stored subject must equal the requested descriptor in every field), manifest annotations nil / empty / some with created absent / valid / malformed / empty / edge, " +
		"target ∈ {memory, oci, file, remote, pusher-only} empty or already holding the placeholder blobs / the whole result, supplied blobs pre-pushed or not, " +
		"file-store name history ∈ {none, title on manifest / invented config with a fresh name, or a name already taken by a pushed blob / Store.Add / an earlier pack: refusal with ErrDuplicateName or a completely stored result are both accepted, success with missing content is not}, history on deletable targets (oci with and without AutoGC, remote): pack → delete the manifest and/or the invented blobs → pack again with the same or varied input through the same target object, judged by the same success oracles, race mode ∈ {quiet, racing writer: Exists says absent and the {} blob is stored just before the library's Push is forwarded, twin: an identical call runs concurrently and both rendezvous in Exists}); every target is wrapped in a recorder. " +
		"Success: FetchAll(returned descriptor), parse, field-by-field comparison with an independent builder, existence of invented blobs, CopyGraph into an empty memory store, identical descriptor on repeat with fixed created. " +
		"Documented rejections: no Push seen (no manifest Push for malformed created). distinct = (entry, artifact-type class, config class, layers class, subject, annotation class, created class, target, preload, race mode); " +
		"racing modes must succeed exactly like the quiet one (same oracles, same descriptor as a quiet fresh target when created is fixed). non-trivial = a success that was fetched, parsed and compared, or a judged rejection observed through the recorder")
	r.Assume("created values are judged only when clearly valid (calendar-valid, hour ≤ 23, minute/second ≤ 59, Z or ±hh:mm) or clearly malformed; leap seconds, lower-case t/z, calendar-invalid days are not judged")
	r.Assume("the deprecated Pack does not document media-type validation: its artifact type is not judged for rejection")
	r.Assume("an unsupported PackManifestVersion is only recorded (the statement does not mention it)")
	worker.Run(r, worker.Opts{Phase: "pack", Total: r.N(3000, 80000), Batch: 100})
	r.Finish(r.N(300, 2000))
}

// ---------------------------------------------------------------------------
// recorder

type call struct {
	Op        string `json:"op"`
	MediaType string `json:"mediaType"`
	Digest    string `json:"digest"`
	Err       string `json:"err,omitempty"`
}

type recorder struct {
	mu    sync.Mutex
	inner content.Storage
	calls []call
	// race: "" quiet; "writer": for the blobs the library invents ({} content)
	// Exists answers false and, just before a Push is forwarded, the wrapper
	// itself stores the same content (a racing writer won: the library's Push
	// meets whatever the target says about duplicates); "twin": Exists is
	// truthful but two identical calls rendezvous in it, so both see "absent".
	race string
	bar  *barrier
}

// barrier is a two-party rendezvous without clocks; release() opens it for good
// (a party that returned can no longer arrive).
type barrier struct {
	mu   sync.Mutex
	n    int
	ch   chan struct{}
	quit chan struct{}
	once sync.Once
}

func newBarrier() *barrier { return &barrier{ch: make(chan struct{}), quit: make(chan struct{})} }

func (b *barrier) arrive() {
	b.mu.Lock()
	ch := b.ch
	b.n++
	if b.n == 2 {
		b.n = 0
		close(b.ch)
		b.ch = make(chan struct{})
	}
	b.mu.Unlock()
	select {
	case <-ch:
	case <-b.quit:
	}
}

func (b *barrier) release() { b.once.Do(func() { close(b.quit) }) }

// invented reports whether d is a blob PackManifest / Pack makes up itself: the two bytes {}.
func invented(d ocispec.Descriptor) bool {
	return d.Size == 2 && d.Digest == emptyDesc.Digest && !isManifestType(d.MediaType)
}

func (r *recorder) log(op string, d ocispec.Descriptor, err error) {
	c := call{Op: op, MediaType: d.MediaType, Digest: d.Digest.String()}
	if err != nil {
		c.Err = err.Error()
	}
	r.mu.Lock()
	r.calls = append(r.calls, c)
	r.mu.Unlock()
}

func (r *recorder) Push(c context.Context, d ocispec.Descriptor, rd io.Reader) error {
	if r.race == "writer" && invented(d) {
		_ = r.inner.Push(c, d, strings.NewReader("{}")) // the racing writer gets there first
	}
	err := r.inner.Push(c, d, rd)
	r.log("push", d, err)
	return err
}
func (r *recorder) Exists(c context.Context, d ocispec.Descriptor) (bool, error) {
	ok, err := r.inner.Exists(c, d)
	r.log("exists", d, err)
	if invented(d) {
		switch r.race {
		case "writer":
			ok = false // it was absent when asked
		case "twin":
			r.bar.arrive() // both callers have their answer before either pushes
		}
	}
	return ok, err
}
func (r *recorder) Fetch(c context.Context, d ocispec.Descriptor) (io.ReadCloser, error) {
	rc, err := r.inner.Fetch(c, d)
	r.log("fetch", d, err)
	return rc, err
}
func (r *recorder) take() []call {
	r.mu.Lock()
	defer r.mu.Unlock()
	out := r.calls
	r.calls = nil
	return out
}

// pusherOnly hides Exists / Fetch: pushIfNotExist cannot ask first.
type pusherOnly struct{ r *recorder }

func (p pusherOnly) Push(c context.Context, d ocispec.Descriptor, rd io.Reader) error {
	return p.r.Push(c, d, rd)
}

// ---------------------------------------------------------------------------
// independent recognisers

func isAlnum(c byte) bool {
	return c >= 'a' && c <= 'z' || c >= 'A' && c <= 'Z' || c >= '0' && c <= '9'
}

// RFC 6838 §4.2: type-name "/" subtype-name, restricted-name = first *126chars
func restrictedName(s string) bool {
	if len(s) < 1 || len(s) > 127 || !isAlnum(s[0]) {
		return false
	}
	for i := 1; i < len(s); i++ {
		if c := s[i]; !isAlnum(c) && !strings.ContainsRune("!#$&-^_.+", rune(c)) {
			return false
		}
	}
	return true
}

func validMediaType(s string) bool {
	i := strings.IndexByte(s, '/')
	return i >= 0 && restrictedName(s[:i]) && restrictedName(s[i+1:])
}

// createdClass: "valid", "malformed", or "edge" (not judged).
func createdClass(s string) string {
	c := createdStrict(s)
	if c == "malformed" && createdLenientShape(s) {
		// right shape, wrong digit counts (e.g. a one-digit hour, which Go's
		// parser tolerates): an edge between the RFC and the parser, not judged
		return "edge"
	}
	return c
}

// createdLenientShape: digits-digits-digits (T|t|space) digits:digits:digits [(.|,)digits*] (Z|z|(+|-)digits:digits)
func createdLenientShape(s string) bool {
	i := 0
	digits := func(min int) bool {
		j := i
		for i < len(s) && s[i] >= '0' && s[i] <= '9' {
			i++
		}
		return i-j >= min
	}
	lit := func(set string) bool {
		if i < len(s) && strings.IndexByte(set, s[i]) >= 0 {
			i++
			return true
		}
		return false
	}
	if !(digits(1) && lit("-") && digits(1) && lit("-") && digits(1) && lit("Tt ") && digits(1) && lit(":") && digits(1) && lit(":") && digits(1)) {
		return false
	}
	if lit(".,") {
		digits(0)
	}
	if lit("Zz") {
		return i == len(s)
	}
	return lit("+-") && digits(1) && lit(":") && digits(1) && i == len(s)
}

func createdStrict(s string) string {
	// date-time = YYYY-MM-DDThh:mm:ss[.frac](Z|±hh:mm)
	num := func(t string) (int, bool) {
		v := 0
		for i := 0; i < len(t); i++ {
			if t[i] < '0' || t[i] > '9' {
				return 0, false
			}
			v = v*10 + int(t[i]-'0')
		}
		return v, len(t) > 0
	}
	if len(s) < 20 {
		return "malformed"
	}
	y, ok1 := num(s[0:4])
	mo, ok2 := num(s[5:7])
	d, ok3 := num(s[8:10])
	h, ok4 := num(s[11:13])
	mi, ok5 := num(s[14:16])
	sec, ok6 := num(s[17:19])
	if !(ok1 && ok2 && ok3 && ok4 && ok5 && ok6) || s[4] != '-' || s[7] != '-' || s[13] != ':' || s[16] != ':' {
		return "malformed"
	}
	if s[10] != 'T' {
		if s[10] == 't' || s[10] == ' ' {
			return "edge"
		}
		return "malformed"
	}
	rest := s[19:]
	if rest[0] == '.' || rest[0] == ',' {
		if rest[0] == ',' {
			return "edge"
		}
		j := 1
		for j < len(rest) && rest[j] >= '0' && rest[j] <= '9' {
			j++
		}
		if j == 1 {
			return "malformed"
		}
		if j > 10 {
			return "edge" // more than nanosecond precision
		}
		rest = rest[j:]
	}
	switch {
	case rest == "Z":
	case rest == "z":
		return "edge"
	case len(rest) == 6 && (rest[0] == '+' || rest[0] == '-') && rest[3] == ':':
		oh, ok7 := num(rest[1:3])
		om, ok8 := num(rest[4:6])
		if !ok7 || !ok8 {
			return "malformed"
		}
		if oh > 23 || om > 59 {
			return "edge"
		}
	default:
		return "malformed"
	}
	// field ranges
	if mo < 1 || mo > 12 || d < 1 || d > 31 || h > 24 || mi > 59 || sec > 60 {
		return "malformed"
	}
	if h == 24 || sec == 60 {
		return "edge"
	}
	dim := []int{31, 28, 31, 30, 31, 30, 31, 31, 30, 31, 30, 31}[mo-1]
	if mo == 2 && y%4 == 0 && (y%100 != 0 || y%400 == 0) {
		dim = 29
	}
	if d > dim {
		return "edge" // calendar-invalid day
	}
	if y == 0 {
		return "edge"
	}
	return "valid"
}

// ---------------------------------------------------------------------------
// case generation

type caseIn struct {
	Entry        string // "v1.0", "v1.1", "v?", "pack-image", "pack-artifact"
	Version      int
	ArtifactType string
	ATClass      string // "valid", "invalid", "empty"
	Config       *ocispec.Descriptor
	ConfigClass  string // "none", "annotations", "given-valid", "given-invalid", "given-empty-type"
	ConfigAnn    map[string]string
	Layers       []ocispec.Descriptor
	LayersClass  string // "nil", "empty", "one", "many", "dup"
	Subject      *ocispec.Descriptor
	SubjectClass string // "none", "plain", "rich" (artifactType / annotations / platform / urls / data)
	Ann          map[string]string
	AnnClass     string // "nil", "empty", "some"
	Created      string // class: "absent", "valid", "malformed", "edge"
	CreatedValue string
	Target       string
	Preload      string // "none", "placeholders", "other-type", "supplied-missing"
	Race         string // "quiet", "writer", "twin" (see recorder)
	// file-store name history: which of the pushed things carry a title
	// (= file name) and whether that name is already taken by different content
	// pack → delete → pack again on the same target object (deletable targets)
	Redo      string            // "", "same", "variant"
	DeleteHow string            // "manifest-gc" (oci AutoGC collects the dangling blobs), "manifest-then-blobs", "blobs"
	NameWhere string            // "", "manifest", "config", "both"
	NameHist  string            // "", "fresh", "taken-push", "taken-add", "taken-pack"
	blobs     map[string][]byte // digest -> content of supplied blobs
}

func pick[T any](rng *rand.Rand, xs []T) T { return xs[rng.IntN(len(xs))] }

func rep(s string, n int) string { return strings.Repeat(s, n) }

var validTypes = []string{
	"application/vnd.test.artifact", "application/vnd.oci.image.config.v1+json", "a/b", "A/B", "0/0", "text/plain",
	"application/vnd.cncf.helm.config.v1+json", "a!#$&-^_.+/b!#$&-^_.+", "APPLICATION/VND.X+JSON", "x-y/z.z",
}

var invalidTypes = []string{
	"application", "a/b/c", "/b", "a/", "/", ".a/b", "a/.b", "-a/b", "a/+b", "a /b", "a/ b", "a/b ", " a/b", "a/b\n", "\na/b", "a/b\t",
	"a/b;q=1", "a/b; charset=utf-8", "a/b*", "a*/b", "a/(b)", "a/b,c", "a/b:c", "a/b@c", "a/b=c", "a/b?c", "a/b%20", "a/b~", "a/b'", "a/b\"", "a\\b", "a/b\\",
	"á/b", "a/é", "a/b\x00", "\x00", " ", "a//b", "a/b/", "text/plain; format=flowed", "*/*", "a/*",
}

func genArtifactType(rng *rand.Rand) (string, string) {
	switch rng.IntN(12) {
	case 0, 1:
		return "", "empty"
	case 2, 3, 4, 5:
		return pick(rng, validTypes), "valid"
	case 6: // boundary lengths, valid
		t := pick(rng, []int{1, 2, 126, 127})
		s := pick(rng, []int{1, 2, 126, 127})
		return rep("a", t) + "/" + "b" + rep("+", s-1), "valid"
	case 7: // boundary lengths, invalid
		switch rng.IntN(3) {
		case 0:
			return rep("a", 128) + "/b", "invalid"
		case 1:
			return "a/" + rep("b", 128), "invalid"
		default:
			return rep("a", 200) + "/" + rep("b", 300), "invalid"
		}
	case 8, 9:
		return pick(rng, invalidTypes), "invalid"
	default: // mutate a valid one
		s := pick(rng, validTypes)
		i := rng.IntN(len(s) + 1)
		c := pick(rng, []string{" ", ";", "/", "*", "\n", "é", "(", "\"", ",", "%", "a", "+", ".", "-", "A", "9", "$", "^"})
		s = s[:i] + c + s[i:]
		if validMediaType(s) {
			return s, "valid"
		}
		return s, "invalid"
	}
}

func blobDesc(mediaType string, b []byte) ocispec.Descriptor {
	return ocispec.Descriptor{MediaType: mediaType, Digest: digest.FromBytes(b), Size: int64(len(b))}
}

func genAnn(rng *rand.Rand) (map[string]string, string) {
	switch rng.IntN(4) {
	case 0:
		return nil, "nil"
	case 1:
		return map[string]string{}, "empty"
	default:
		m := map[string]string{}
		for i, n := 0, 1+rng.IntN(3); i < n; i++ {
			m[pick(rng, []string{"k", "org.example.key", "org.opencontainers.image.title", "org.opencontainers.image.source", "x y", "", "ключ", annArtifactCreated + ".x"})] =
				pick(rng, []string{"", "v", "value with spaces", "\"quoted\"", "<&>", "日本", "line\nbreak"})
		}
		return m, "some"
	}
}

var validCreated = []string{
	"2006-01-02T15:04:05Z", "2000-02-29T00:00:00Z", "1999-12-31T23:59:59Z", "2024-06-30T12:00:00.5Z", "2024-06-30T12:00:00.123456789Z",
	"2024-06-30T12:00:00+08:00", "2024-06-30T12:00:00-07:30", "2038-01-19T03:14:08Z", "0001-01-01T00:00:00Z", "9999-12-31T23:59:59Z", "2024-06-30T12:00:00+00:00",
}

var malformedCreated = []string{
	"", " ", "yesterday", "now", "2006-01-02", "15:04:05Z", "2006-01-02T15:04:05", "2006-01-02T15:04Z", "2006-01-02T15:04:05+0800", "2006-01-02T15:04:05+08",
	"2006-13-02T15:04:05Z", "2006-00-02T15:04:05Z", "2006-01-32T15:04:05Z", "2006-01-00T15:04:05Z", "2006-01-02T25:04:05Z", "2006-01-02T15:60:05Z", "2006-01-02T15:04:61Z",
	"2006-01-02T15:04:05Zjunk", " 2006-01-02T15:04:05Z", "2006-01-02T15:04:05Z ", "2006-01-02T15:04:05Z\n", "06-01-02T15:04:05Z", "2006/01/02T15:04:05Z", "2006-01-02T15.04.05Z",
	"Mon, 02 Jan 2006 15:04:05 MST", "1136214245", "2006-01-02T15:04:05.Z", "2006-1-2T15:04:05Z", "2006-01-02T15:04:05ZZ", "2006-01-02T15:04:05+08:00Z", "２００６-01-02T15:04:05Z",
	"2006-01-02X15:04:05Z", "2006-01-02T15:04:05 UTC", "T", "0000", "2006-01-02T15:04:05+8:00",
}

var edgeCreated = []string{
	"2006-01-02t15:04:05Z", "2006-01-02T15:04:05z", "2006-01-02 15:04:05Z", "2016-12-31T23:59:60Z", "2006-01-02T24:00:00Z", "2023-02-30T00:00:00Z", "2023-02-29T00:00:00Z",
	"2006-04-31T00:00:00Z", "2006-01-02T15:04:05,5Z", "2006-01-02T15:04:05+24:00", "2006-01-02T15:04:05+08:60", "0000-01-01T00:00:00Z", "2006-01-02T15:04:05.1234567890123Z",
}

func genCase(rng *rand.Rand) *caseIn {
	c := &caseIn{blobs: map[string][]byte{}, SubjectClass: "none"}
	defer func() {
		if c.Target == "file" {
			// the file store turns a title annotation into a file name (with its
			// own uniqueness rules, property C12); keep it out of this property
			for _, m := range []map[string]string{c.Ann, c.ConfigAnn} {
				if v, ok := m[annTitle]; ok {
					delete(m, annTitle)
					m["org.example.title"] = v
				}
			}
			// ... except deliberately, with a known name history
			if rng.IntN(2) == 0 {
				c.NameWhere = pick(rng, []string{"manifest", "manifest", "config", "both"})
				if c.Config != nil && c.NameWhere != "manifest" {
					c.NameWhere = "manifest" // only an invented config gets ConfigAnnotations
				}
				c.NameHist = pick(rng, []string{"fresh", "taken-push", "taken-push", "taken-add", "taken-pack"})
				if c.NameWhere != "config" {
					if c.Ann == nil {
						c.Ann = map[string]string{}
					}
					c.Ann[annTitle] = manifestFileName
				}
				if c.NameWhere != "manifest" {
					if c.ConfigAnn == nil {
						c.ConfigAnn = map[string]string{}
					}
					c.ConfigAnn[annTitle] = configFileName
					if c.ConfigClass == "none" {
						c.ConfigClass = "annotations"
					}
				}
				c.Race = "quiet"
			}
		}
	}()
	switch e := rng.IntN(20); {
	case e < 7:
		c.Entry, c.Version = "v1.1", int(oras.PackManifestVersion1_1)
	case e < 13:
		c.Entry, c.Version = "v1.0", int(oras.PackManifestVersion1_0)
	case e < 14:
		c.Entry, c.Version = "v?", pick(rng, []int{0, 3, -1, 100})
	case e < 17:
		c.Entry = "pack-image"
	default:
		c.Entry = "pack-artifact"
	}
	c.ArtifactType, c.ATClass = genArtifactType(rng)

	// config
	switch k := rng.IntN(10); {
	case k < 4:
		c.ConfigClass = "none"
	case k < 6:
		c.ConfigClass = "annotations"
		c.ConfigAnn, _ = genAnn(rng)
		if len(c.ConfigAnn) == 0 {
			c.ConfigAnn = map[string]string{"cfg": "ann"}
		}
	default:
		body := []byte(fmt.Sprintf(`{"cfg":%d}`, rng.IntN(1000)))
		mt, cls := genArtifactType(rng)
		c.ConfigClass = "given-" + cls
		switch {
		case cls == "empty" || rng.IntN(6) == 0:
			mt, c.ConfigClass = mtEmptyJSON, "given-empty-type"
			if rng.IntN(2) == 0 {
				body = []byte("{}")
			}
		case cls == "valid" && rng.IntN(3) == 0:
			mt = "application/vnd.oci.image.config.v1+json"
		}
		if rng.IntN(3) == 0 && string(body) != "{}" {
			// content exactly {} (the empty-JSON digest) under whatever media type was chosen
			body = []byte("{}")
			c.ConfigClass += "-emptybody"
		}
		d := blobDesc(mt, body)
		if (c.Entry == "v1.0" || c.Entry == "v1.1") && rng.IntN(8) == 0 {
			// a descriptor without media type: built from digest and size only, or the zero descriptor
			d.MediaType, c.ConfigClass = "", "given-nomediatype"
			if rng.IntN(2) == 0 {
				d, c.ConfigClass = ocispec.Descriptor{}, "given-zero-descriptor"
			}
		}
		if rng.IntN(3) == 0 && d.Digest != "" {
			d.Annotations = map[string]string{"given": "config"}
		}
		c.Config = &d
		c.blobs[d.Digest.String()] = body
		if rng.IntN(3) == 0 { // ConfigAnnotations are documented as ignored when a descriptor is given
			c.ConfigAnn = map[string]string{"ignored": "yes"}
		}
	}
	// layers
	mk := func(i int) ocispec.Descriptor {
		body := []byte(fmt.Sprintf("layer %d %d", i, rng.IntN(50)))
		if rng.IntN(8) == 0 {
			body = []byte{}
		}
		d := blobDesc(pick(rng, []string{"application/vnd.oci.image.layer.v1.tar", "application/octet-stream", "text/plain", mtEmptyJSON}), body)
		if d.MediaType == mtEmptyJSON {
			body = []byte("{}")
			d = blobDesc(mtEmptyJSON, body)
		}
		if rng.IntN(3) == 0 {
			d.Annotations = map[string]string{"org.opencontainers.image.title": fmt.Sprintf("file%d.txt", i)}
		}
		if rng.IntN(10) == 0 {
			d.URLs = []string{"https://example.com/blob"}
		}
		c.blobs[d.Digest.String()] = body
		return d
	}
	switch k := rng.IntN(10); {
	case k < 2:
		c.LayersClass = "nil"
	case k < 4:
		c.Layers, c.LayersClass = []ocispec.Descriptor{}, "empty"
	case k < 6:
		c.Layers, c.LayersClass = []ocispec.Descriptor{mk(0)}, "one"
	case k < 9:
		c.LayersClass = "many"
		for i, n := 0, 2+rng.IntN(3); i < n; i++ {
			c.Layers = append(c.Layers, mk(i))
		}
	default:
		l := mk(0)
		c.Layers, c.LayersClass = []ocispec.Descriptor{l, mk(1), l}, "dup"
	}
	if c.Config != nil && c.Config.Digest == emptyDesc.Digest && rng.IntN(2) == 0 {
		// a config that is the empty blob together with no layers: both placeholders coincide in content
		if rng.IntN(2) == 0 {
			c.Layers, c.LayersClass = nil, "nil"
		} else {
			c.Layers, c.LayersClass = []ocispec.Descriptor{}, "empty"
		}
	}
	// subject
	if rng.IntN(3) == 0 {
		body := []byte(fmt.Sprintf(`{"schemaVersion":2,"mediaType":%q,"config":{"mediaType":%q,"digest":"sha256:44136fa355b3678a1146ad16f7e8649e94fb4fc21fe77e8310c060f61caaff8a","size":2},"layers":[],"annotations":{"n":"%d"}}`,
			mtImageManifest, mtEmptyJSON, rng.IntN(1000)))
		d := blobDesc(mtImageManifest, body)
		c.SubjectClass = "plain"
		if rng.IntN(3) > 0 {
			// a descriptor as a previous PackManifest / Resolve would return it: every field must be kept
			c.SubjectClass = "rich"
			if rng.IntN(2) == 0 {
				d.ArtifactType = pick(rng, validTypes)
			}
			if rng.IntN(2) == 0 {
				d.Annotations = map[string]string{annCreated: "2006-01-02T15:04:05Z", "org.example.subject": "yes"}
			}
			if rng.IntN(3) == 0 {
				d.Platform = &ocispec.Platform{Architecture: "arm64", OS: "linux", Variant: "v8"}
			}
			if rng.IntN(3) == 0 {
				d.URLs = []string{"https://example.com/subject"}
			}
			if rng.IntN(3) == 0 {
				d.Data = body
			}
			if d.ArtifactType == "" && d.Annotations == nil && d.Platform == nil && d.URLs == nil && d.Data == nil {
				d.ArtifactType = "application/vnd.example.subject"
			}
		}
		c.Subject = &d
		c.blobs[d.Digest.String()] = body
		c.blobs["sha256:44136fa355b3678a1146ad16f7e8649e94fb4fc21fe77e8310c060f61caaff8a"] = []byte("{}")
	}
	// manifest annotations and created
	c.Ann, c.AnnClass = genAnn(rng)
	key := annCreated
	if c.Entry == "pack-artifact" {
		key = annArtifactCreated
	}
	switch k := rng.IntN(20); {
	case k < 7:
		c.Created = "absent"
		delete(c.Ann, key)
	case k < 13:
		c.Created, c.CreatedValue = "valid", pick(rng, validCreated)
	case k < 18:
		c.Created, c.CreatedValue = "malformed", pick(rng, malformedCreated)
		if rng.IntN(4) == 0 { // mutate a valid one
			v := pick(rng, validCreated)
			i := rng.IntN(len(v))
			v = v[:i] + pick(rng, []string{"", "x", " ", ":", "-", "9", "T", "Z", "+"}) + v[i+1:]
			c.CreatedValue = v
		}
	default:
		c.Created, c.CreatedValue = "edge", pick(rng, edgeCreated)
	}
	if c.Created != "absent" {
		c.Created = createdClass(c.CreatedValue) // the recogniser decides
		if c.Ann == nil {
			c.Ann = map[string]string{}
		}
		c.Ann[key] = c.CreatedValue
		if c.AnnClass != "some" {
			c.AnnClass = "created-only"
		}
		if c.Entry == "pack-artifact" && rng.IntN(3) == 0 {
			c.Ann[annCreated] = "not a date, but not the artifact key either"
		}
	}
	c.Target = pick(rng, []string{"memory", "memory", "oci", "oci", "file", "remote", "pusher-only"})
	c.Preload = pick(rng, []string{"none", "none", "none", "placeholders", "placeholders", "other-type", "supplied-missing"})
	if (c.Target == "oci" || c.Target == "remote") && rng.IntN(2) == 0 {
		c.Redo = pick(rng, []string{"same", "variant"})
		c.DeleteHow = pick(rng, []string{"manifest-gc", "manifest-gc", "manifest-then-blobs", "blobs"})
	}
	c.Race = pick(rng, []string{"quiet", "quiet", "quiet", "quiet", "quiet", "writer", "writer", "twin"})
	if c.Target == "pusher-only" {
		c.Race = "quiet" // no Exists to race with
	}
	if c.Target == "remote" && c.Preload == "supplied-missing" {
		c.Preload = "none" // the registry model (like real registries) refuses manifests naming absent blobs
	}
	return c
}

// ---------------------------------------------------------------------------
// the independent builder: what the documented mapping yields

type expectation struct {
	Reject      string // "", "media-type", "subject-v1.0", "missing-artifact-type", "created" — documented rejections
	Unjudged    string // non-empty: outcome is not judged (edge created, unsupported version)
	Doc         map[string]any
	CreatedKey  string
	CreatedFill bool                 // the library fills the created annotation in
	Invented    []ocispec.Descriptor // blobs the call invents; must exist afterwards
}

func descMap(d ocispec.Descriptor) map[string]any {
	b, _ := json.Marshal(d)
	var m map[string]any
	_ = json.Unmarshal(b, &m)
	return m
}

func annMap(a map[string]string) map[string]any {
	m := map[string]any{}
	for k, v := range a {
		m[k] = v
	}
	return m
}

var emptyDesc = ocispec.Descriptor{MediaType: mtEmptyJSON, Digest: "sha256:44136fa355b3678a1146ad16f7e8649e94fb4fc21fe77e8310c060f61caaff8a", Size: 2}

func expect(c *caseIn) expectation {
	var e expectation
	e.CreatedKey = annCreated
	pm := c.Entry == "v1.0" || c.Entry == "v1.1"
	switch {
	case c.Entry == "v?":
		e.Unjudged = "unsupported-version"
		return e
	case c.Entry == "v1.0" && c.Subject != nil:
		e.Reject = "subject-v1.0"
	case pm && c.Config != nil && !validMediaType(c.Config.MediaType):
		e.Reject = "media-type"
	case c.Entry == "v1.1" && c.ArtifactType != "" && !validMediaType(c.ArtifactType):
		e.Reject = "media-type"
	case c.Entry == "v1.0" && c.Config == nil && c.ArtifactType != "" && !validMediaType(c.ArtifactType):
		e.Reject = "media-type"
	case c.Entry == "v1.1" && c.ArtifactType == "" && (c.Config == nil || c.Config.MediaType == mtEmptyJSON):
		e.Reject = "missing-artifact-type"
	}
	if e.Reject != "" {
		return e
	}
	switch c.Created {
	case "malformed":
		e.Reject = "created"
		return e
	case "edge":
		e.Unjudged = "created-edge"
	case "absent":
		e.CreatedFill = true
	}

	ann := annMap(c.Ann)
	layers := []any{}
	for _, l := range c.Layers {
		layers = append(layers, descMap(l))
	}
	doc := map[string]any{"schemaVersion": float64(2), "mediaType": mtImageManifest}
	customConfig := func(mt string) map[string]any {
		d := blobDesc(mt, []byte("{}"))
		d.Annotations = c.ConfigAnn // the file store addresses a titled blob by its name
		e.Invented = append(e.Invented, d)
		return descMap(d)
	}
	switch c.Entry {
	case "v1.0":
		if c.Config != nil {
			doc["config"] = descMap(*c.Config)
		} else {
			mt := c.ArtifactType
			if mt == "" {
				mt = mtUnknownConfig
			}
			doc["config"] = customConfig(mt)
		}
		doc["layers"] = layers
	case "v1.1":
		if c.Config != nil {
			doc["config"] = descMap(*c.Config)
		} else {
			doc["config"] = customConfig(mtEmptyJSON)
		}
		if len(c.Layers) == 0 {
			e.Invented = append(e.Invented, emptyDesc)
			layers = []any{descMap(emptyDesc)}
		}
		doc["layers"] = layers
		if c.Subject != nil {
			doc["subject"] = descMap(*c.Subject)
		}
		if c.ArtifactType != "" {
			doc["artifactType"] = c.ArtifactType
		}
	case "pack-image":
		if c.Config != nil {
			doc["config"] = descMap(*c.Config)
		} else {
			mt := c.ArtifactType
			if mt == "" {
				mt = mtUnknownConfig
			}
			doc["config"] = customConfig(mt)
		}
		doc["layers"] = layers
		if c.Subject != nil {
			doc["subject"] = descMap(*c.Subject)
		}
	case "pack-artifact":
		e.CreatedKey = annArtifactCreated
		at := c.ArtifactType
		if at == "" {
			at = mtUnknownArtifact
		}
		doc = map[string]any{"mediaType": mtArtifactManifest, "artifactType": at}
		if len(layers) > 0 {
			doc["blobs"] = layers
		}
		if c.Subject != nil {
			doc["subject"] = descMap(*c.Subject)
		}
	}
	doc["annotations"] = ann
	e.Doc = doc
	return e
}

// normalise removes representation differences the statement does not fix:
// absent vs empty maps / lists, the optional embedded data of the empty
// placeholder descriptor.
func normalise(v any) any {
	switch x := v.(type) {
	case map[string]any:
		out := map[string]any{}
		for k, e := range x {
			n := normalise(e)
			switch t := n.(type) {
			case nil:
				if k == "layers" {
					out[k] = []any{} // null and [] both mean "no layers"
				}
				continue
			case map[string]any:
				if len(t) == 0 {
					continue
				}
			case []any:
				if len(t) == 0 && k != "layers" {
					continue
				}
			}
			out[k] = n
		}
		if out["mediaType"] == mtEmptyJSON && out["data"] == "e30=" {
			delete(out, "data")
		}
		return out
	case []any:
		out := []any{}
		for _, e := range x {
			out = append(out, normalise(e))
		}
		return out
	}
	return v
}

// ---------------------------------------------------------------------------

func describe(c *caseIn) map[string]any {
	m := map[string]any{
		"entry": c.Entry, "version": c.Version, "artifactType": c.ArtifactType, "config": c.Config, "configAnnotations": c.ConfigAnn,
		"layers": c.Layers, "layersClass": c.LayersClass, "subject": c.Subject, "manifestAnnotations": c.Ann, "created": c.Created,
		"target": c.Target, "preload": c.Preload, "race": c.Race, "fileNames": c.NameWhere + "/" + c.NameHist,
	}
	return m
}

func pushBlob(t content.Storage, d ocispec.Descriptor, b []byte) error {
	err := t.Push(ctx, d, bytes.NewReader(b))
	if err != nil && !errors.Is(err, errdef.ErrAlreadyExists) {
		return err
	}
	return nil
}

func invoke(c *caseIn, p content.Pusher) (ocispec.Descriptor, error) {
	// hand the library private copies: it must not be able to confuse the oracle by mutating inputs
	cpAnn := func(m map[string]string) map[string]string {
		if m == nil {
			return nil
		}
		o := map[string]string{}
		for k, v := range m {
			o[k] = v
		}
		return o
	}
	var cfg, subj *ocispec.Descriptor
	if c.Config != nil {
		d := *c.Config
		d.Annotations = cpAnn(d.Annotations)
		cfg = &d
	}
	if c.Subject != nil {
		d := *c.Subject
		subj = &d
	}
	var layers []ocispec.Descriptor
	if c.Layers != nil {
		layers = append([]ocispec.Descriptor{}, c.Layers...)
	}
	switch c.Entry {
	case "pack-image", "pack-artifact":
		return oras.Pack(ctx, p, c.ArtifactType, layers, oras.PackOptions{
			Subject: subj, ManifestAnnotations: cpAnn(c.Ann), PackImageManifest: c.Entry == "pack-image",
			ConfigDescriptor: cfg, ConfigAnnotations: cpAnn(c.ConfigAnn),
		})
	}
	return oras.PackManifest(ctx, p, oras.PackManifestVersion(c.Version), c.ArtifactType, oras.PackManifestOptions{
		Subject: subj, Layers: layers, ManifestAnnotations: cpAnn(c.Ann), ConfigDescriptor: cfg, ConfigAnnotations: cpAnn(c.ConfigAnn),
	})
}

func isManifestType(mt string) bool { return mt == mtImageManifest || mt == mtArtifactManifest }

func runCase(phase string, i int) (res worker.Result) {
	seed := evidence.New("C19", "exploration").Seed
	rng := evidence.RandFor(seed, "c19-"+phase, i)
	c := genCase(rng)
	e := expect(c)
	w := describe(c)
	res.Key = strings.Join([]string{c.Entry, c.ATClass, c.ConfigClass, c.LayersClass, c.SubjectClass, c.AnnClass, c.Created, c.Target, c.Preload, c.Race, c.NameWhere + "/" + c.NameHist, c.DeleteHow + "/" + c.Redo}, "|")
	res.Observe("entry_x_outcome", c.Entry+"/"+e.Reject+e.Unjudged)
	res.Observe("target_x_preload", c.Target+"/"+c.Preload)
	res.Count("cases_target_"+c.Target, 1)
	defer func() {
		if p := recover(); p != nil {
			res.Violate("panic", fmt.Sprintf("panic: %v", p), w)
		}
	}()

	kind := c.Target
	if kind == "pusher-only" {
		kind = "memory"
	}
	h, err := stores.New(kind, nil)
	if err != nil {
		res.Violate("harness:store", err.Error(), nil)
		return res
	}
	defer h.Close()
	tgt := content.Storage(h.Target)

	// supplied content
	suppliedPresent := c.Preload != "supplied-missing"
	pushSupplied := func() bool {
		done := map[string]bool{}
		push := func(d ocispec.Descriptor) bool {
			if d.MediaType == "" {
				return true // a descriptor without media type is never usable (the call must be refused)
			}
			k := d.Digest.String() + "|" + d.MediaType + "|" + d.Annotations["org.opencontainers.image.title"]
			if done[k] {
				return true
			}
			done[k] = true
			if err := pushBlob(tgt, d, c.blobs[d.Digest.String()]); err != nil {
				res.Inconc = fmt.Sprintf("set-up: cannot push supplied blob %s (%s) into %s: %v", d.Digest, d.MediaType, c.Target, err)
				return false
			}
			return true
		}
		if c.Subject != nil {
			if !push(emptyDesc) || !push(*c.Subject) {
				return false
			}
		}
		if c.Config != nil && !push(*c.Config) {
			return false
		}
		for _, l := range c.Layers {
			if !push(l) {
				return false
			}
		}
		return true
	}
	if suppliedPresent && !pushSupplied() {
		return res
	}
	switch c.Preload {
	case "placeholders":
		for _, d := range e.Invented {
			_ = pushBlob(tgt, d, []byte("{}"))
		}
		if len(e.Invented) == 0 {
			_ = pushBlob(tgt, emptyDesc, []byte("{}"))
		}
	case "other-type":
		_ = pushBlob(tgt, blobDesc("application/x.other", []byte("{}")), []byte("{}"))
	}

	// file-store name history
	nameTaken := false
	if c.NameHist != "" && h.File != nil {
		res.Count("file_name_history_cases", 1)
		res.Observe("file_name_histories", c.NameWhere+"/"+c.NameHist)
		var names []string
		if c.NameWhere != "config" {
			names = append(names, manifestFileName)
		}
		if c.NameWhere != "manifest" {
			names = append(names, configFileName)
		}
		switch c.NameHist {
		case "taken-push": // a named blob with other content
			for _, n := range names {
				b := []byte("earlier content of " + n)
				d := blobDesc("text/plain", b)
				d.Annotations = map[string]string{annTitle: n}
				if err := pushBlob(tgt, d, b); err == nil {
					nameTaken = true
				} else if !errors.Is(err, file.ErrDuplicateName) { // else: the preload already owns the name
					res.Inconc = "set-up: cannot take the name " + n + ": " + err.Error()
					return res
				}
			}
		case "taken-add": // a file added with Store.Add
			side, err := os.MkdirTemp("", "verif-c19-side-")
			if err != nil {
				res.Violate("harness:mkdtemp", err.Error(), nil)
				return res
			}
			defer os.RemoveAll(side)
			for _, n := range names {
				p := filepath.Join(side, n)
				if err := os.WriteFile(p, []byte("a file called "+n), 0o644); err != nil {
					res.Violate("harness:write", err.Error(), nil)
					return res
				}
				if _, err := h.File.Add(ctx, n, "text/plain", p); err == nil {
					nameTaken = true
				} else if !errors.Is(err, file.ErrDuplicateName) {
					res.Inconc = "set-up: Store.Add(" + n + "): " + err.Error()
					return res
				}
			}
		case "taken-pack": // an earlier pack with the same titles but another manifest
			c2 := *c
			c2.Ann = map[string]string{"org.example.history": "earlier pack"}
			for k, v := range c.Ann {
				c2.Ann[k] = v
			}
			if _, err := invoke(&c2, tgt); err == nil {
				nameTaken = true
			}
		}
	}
	w["name_taken"] = nameTaken

	rec := &recorder{inner: tgt}
	var pusher content.Pusher = rec
	if c.Target == "pusher-only" {
		pusher = pusherOnly{rec}
	}
	var twinDesc ocispec.Descriptor
	var twinErr error
	twinDone := make(chan struct{})
	switch c.Race {
	case "writer":
		rec.race = "writer"
	case "twin":
		rec.race, rec.bar = "twin", newBarrier()
		go func() {
			defer close(twinDone)
			defer rec.bar.release()
			defer func() {
				if p := recover(); p != nil {
					twinErr = fmt.Errorf("panic in the concurrent twin call: %v", p)
				}
			}()
			twinDesc, twinErr = invoke(c, pusher)
		}()
	}
	res.Count("race_mode_"+c.Race, 1)
	desc, err := invoke(c, pusher)
	if c.Race == "twin" {
		rec.bar.release()
		<-twinDone
		w["twin_error"] = fmt.Sprint(twinErr)
		w["twin_returned"] = twinDesc
	}
	calls := rec.take()
	w["calls"] = calls
	w["error"] = fmt.Sprint(err)
	w["returned"] = desc
	var pushes, manifestPushes int
	for _, cl := range calls {
		if cl.Op == "push" {
			pushes++
			if isManifestType(cl.MediaType) {
				manifestPushes++
			}
		}
	}
	res.Count("recorded_calls", int64(len(calls)))
	res.Count("recorded_pushes", int64(pushes))

	// ---- documented rejections
	if e.Reject != "" {
		res.Count("judged_rejections", 1)
		res.Observe("rejections", e.Reject+"/"+c.Entry)
		if err == nil {
			res.Violate("accepted-invalid:"+e.Reject, fmt.Sprintf("%s succeeded although the input must be rejected (%s)", c.Entry, e.Reject), w)
			return res
		}
		if e.Reject == "created" {
			if manifestPushes > 0 {
				res.Violate("pushed-before-reject:created", "a manifest was pushed although the created time is malformed", w)
			}
		} else if pushes > 0 {
			res.Violate("pushed-before-reject:"+e.Reject, fmt.Sprintf("%d Push call(s) before the %s rejection", pushes, e.Reject), w)
		}
		res.NT = true
		return res
	}
	if e.Unjudged == "unsupported-version" {
		res.Count("unsupported_version_cases", 1)
		if err == nil {
			res.Count("unsupported_version_succeeded", 1)
		}
		return res
	}
	if err != nil {
		if e.Unjudged != "" {
			res.Count("unjudged_created_rejected", 1)
			return res
		}
		if nameTaken && errors.Is(err, file.ErrDuplicateName) {
			// the file name is taken by other content: refusing is fine (what must
			// not happen is success without the content, judged below)
			res.Count("file_name_taken_refused", 1)
			res.NT = true
			return res
		}
		key := "valid-input-rejected"
		if c.Race != "quiet" {
			key += ":race-" + c.Race // check-then-push: the blob appeared between Exists and Push
		}
		res.Violate(key, fmt.Sprintf("%s failed on an input with no documented reason for rejection (target %s, %s): %v", c.Entry, c.Target, c.Race, err), w)
		return res
	}
	if c.Race == "twin" && e.Unjudged == "" {
		if twinErr != nil {
			res.Violate("valid-input-rejected:race-twin", fmt.Sprintf("the concurrent identical %s call failed: %v", c.Entry, twinErr), w)
			return res
		}
		if _, ferr := content.FetchAll(ctx, tgt, twinDesc); ferr != nil {
			res.Violate("result-not-stored", "result of the concurrent identical call cannot be fetched: "+ferr.Error(), w)
			return res
		}
		if c.Created == "valid" && !reflect.DeepEqual(normDesc(twinDesc), normDesc(desc)) {
			res.Violate("not-deterministic", "two concurrent identical calls with a fixed created time returned different descriptors", w)
			return res
		}
		res.Count("twin_calls_checked", 1)
	}
	if e.Unjudged != "" {
		res.Count("unjudged_created_accepted", 1)
	}
	res.Count("successes", 1)

	// judge: the success oracles for one returned descriptor (also used for later packs of a history)
	judge := func(c *caseIn, e expectation, desc ocispec.Descriptor, stage string) bool {
		w["stage"] = stage
		// ---- success: the stored bytes
		raw, ferr := content.FetchAll(ctx, tgt, desc)
		if ferr != nil {
			res.Violate("result-not-stored", fmt.Sprintf("FetchAll(returned descriptor) from %s: %v", c.Target, ferr), w)
			return false
		}
		if digest.FromBytes(raw) != desc.Digest || int64(len(raw)) != desc.Size {
			res.Violate("descriptor-mismatch", "returned digest/size do not describe the stored bytes", w)
			return false
		}
		var got map[string]any
		if jerr := json.Unmarshal(raw, &got); jerr != nil {
			res.Violate("not-json", "stored manifest does not parse: "+jerr.Error(), w)
			return false
		}
		w["stored"] = string(raw)
		if mt, _ := got["mediaType"].(string); mt != desc.MediaType || !isManifestType(desc.MediaType) {
			res.Violate("media-type", fmt.Sprintf("returned media type %q, manifest says %q", desc.MediaType, got["mediaType"]), w)
			return false
		}
		if isManifestType(desc.MediaType) {
			var typed any = &ocispec.Manifest{}
			if desc.MediaType == mtArtifactManifest {
				typed = &struct {
					MediaType    string               `json:"mediaType"`
					ArtifactType string               `json:"artifactType"`
					Blobs        []ocispec.Descriptor `json:"blobs"`
					Subject      *ocispec.Descriptor  `json:"subject"`
					Annotations  map[string]string    `json:"annotations"`
				}{}
			}
			dec := json.NewDecoder(bytes.NewReader(raw))
			dec.DisallowUnknownFields()
			if jerr := dec.Decode(typed); jerr != nil {
				res.Violate("not-a-manifest", "stored bytes do not decode as "+desc.MediaType+": "+jerr.Error(), w)
				return false
			}
		}
		// created
		gotAnn, _ := got["annotations"].(map[string]any)
		if e.CreatedFill {
			v, _ := gotAnn[e.CreatedKey].(string)
			if createdClass(v) != "valid" {
				res.Violate("created-not-filled", fmt.Sprintf("annotation %s = %q is not an RFC 3339 time", e.CreatedKey, v), w)
				return false
			}
			delete(gotAnn, e.CreatedKey)
		}
		want := normalise(e.Doc)
		have := normalise(got)
		if !reflect.DeepEqual(want, have) {
			wj, _ := json.Marshal(want)
			hj, _ := json.Marshal(have)
			field := "?"
			wm, hm := want.(map[string]any), have.(map[string]any)
			for _, k := range []string{"schemaVersion", "mediaType", "artifactType", "config", "layers", "blobs", "subject", "annotations"} {
				if !reflect.DeepEqual(wm[k], hm[k]) {
					field = k
					break
				}
			}
			if field == "?" {
				field = "extra-field"
			}
			w["expected"] = string(wj)
			w["stored_normalised"] = string(hj)
			res.Violate("content:"+c.Entry+":"+field, fmt.Sprintf("stored manifest differs from the requested one in %s", field), w)
			return false
		}
		// invented blobs exist
		for _, d := range e.Invented {
			ok, xerr := tgt.Exists(ctx, d)
			if xerr != nil || !ok {
				res.Violate("invented-blob-missing", fmt.Sprintf("invented blob %s (%s) is not in the target (err %v)", d.Digest, d.MediaType, xerr), w)
				return false
			}
			b, ferr := content.FetchAll(ctx, tgt, d)
			if ferr != nil || string(b) != "{}" {
				res.Violate("invented-blob-missing", fmt.Sprintf("invented blob %s (%s) cannot be fetched as {} (err %v)", d.Digest, d.MediaType, ferr), w)
				return false
			}
		}
		res.Count("invented_blobs_checked", int64(len(e.Invented)))
		// copyable
		if suppliedPresent {
			dst := memory.New()
			if cerr := oras.CopyGraph(ctx, tgt, dst, desc, oras.DefaultCopyGraphOptions); cerr != nil {
				res.Violate("not-copyable", "CopyGraph of the result into an empty memory store: "+cerr.Error(), w)
				return false
			}
			if ok, _ := dst.Exists(ctx, desc); !ok {
				res.Violate("not-copyable", "CopyGraph succeeded but the manifest is not in the destination", w)
				return false
			}
			res.Count("copygraph_ok", 1)
		}
		return true
	}
	if !judge(c, e, desc, "first pack") {
		return res
	}
	res.NT = true

	// ---- determinism with a fixed created time
	if c.Created == "valid" {
		again, err2 := invoke(c, pusher) // same target, now holding everything
		w["calls_repeat"] = rec.take()
		if err2 != nil && c.NameHist != "" && errors.Is(err2, file.ErrDuplicateName) {
			// the file store keeps one file per name: a refusal is fine, a success must be complete
			res.Count("file_name_repeat_refused", 1)
			again, err2 = desc, nil
		}
		if err2 != nil {
			res.Violate("repeat-failed", "second identical call on the same target failed: "+err2.Error(), w)
			return res
		}
		if !reflect.DeepEqual(normDesc(again), normDesc(desc)) {
			w["returned_repeat"] = again
			res.Violate("not-deterministic", "identical inputs with a fixed created time gave a different descriptor", w)
			return res
		}
		fresh := &recorder{inner: memory.New()}
		third, err3 := invoke(c, fresh)
		if err3 != nil || !reflect.DeepEqual(normDesc(third), normDesc(desc)) {
			w["returned_fresh"] = third
			res.Violate("not-deterministic", fmt.Sprintf("identical inputs on a fresh memory target gave a different descriptor (err %v)", err3), w)
			return res
		}
		res.Count("determinism_checked", 1)
	}

	// ---- history on the same target object: pack → delete → pack again
	if c.Redo != "" && c.Race == "quiet" && (h.OCI != nil || h.Repo != nil) {
		w["history"] = c.DeleteHow + " → " + c.Redo
		del := func(d ocispec.Descriptor) error {
			if h.OCI != nil {
				return h.OCI.Delete(ctx, d)
			}
			return h.Repo.Delete(ctx, d)
		}
		if h.OCI != nil && c.DeleteHow == "manifest-then-blobs" {
			h.OCI.AutoGC = false
		}
		var derr error
		if c.DeleteHow != "blobs" {
			derr = del(desc)
		}
		if derr == nil && (c.DeleteHow != "manifest-gc" || h.Repo != nil) {
			for _, d := range e.Invented {
				if err := del(d); err != nil && !errors.Is(err, errdef.ErrNotFound) && derr == nil {
					derr = err
				}
			}
		}
		if derr != nil {
			res.Inconc = "history: delete failed: " + derr.Error()
			return res
		}
		// the caller's own blobs may have been collected with the manifest: supply them again
		if suppliedPresent && !pushSupplied() {
			return res
		}
		c2 := *c
		if c.Redo == "variant" {
			c2.Ann = map[string]string{"org.example.history": "second pack"}
			for k, v := range c.Ann {
				c2.Ann[k] = v
			}
		}
		e2 := expect(&c2)
		rec.take()
		desc2, err2 := invoke(&c2, pusher)
		w["calls_second_pack"] = rec.take()
		w["returned_second_pack"] = desc2
		if err2 != nil {
			res.Violate("valid-input-rejected:after-delete", fmt.Sprintf("%s after %s failed: %v", c.Entry, c.DeleteHow, err2), w)
			return res
		}
		if !judge(&c2, e2, desc2, "second pack after "+c.DeleteHow) {
			return res
		}
		res.Count("pack_delete_pack_histories", 1)
		res.Observe("delete_histories", c.Target+"/"+c.DeleteHow+"/"+c.Redo)
	}
	if i%500 == 0 {
		delete(w, "calls_repeat")
		res.Sample = w
	}
	return res
}

func normDesc(d ocispec.Descriptor) ocispec.Descriptor {
	if len(d.Annotations) == 0 {
		d.Annotations = nil
	}
	return d
}
