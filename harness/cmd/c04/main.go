// C04 — Copy work accounting: bounded concurrency, single transfer, ordered callbacks.
//
// The real Copy / CopyGraph / ExtendedCopyGraph run through recording
// wrappers with seeded latencies that hold storage operations open. Monitors
// (all updated under one mutex with a logical sequence number): in-flight
// gauges for source reads (Fetch until the reader is closed) and destination
// operations, per-descriptor fetch and push counters, and the callback trace,
// which is checked offline against the statement.
package main

import (
	"context"
	_ "crypto/sha256"
	_ "crypto/sha512"
	"errors"
	"fmt"
	"os"
	"path/filepath"
	"time"

	"oras.land/oras-go/v2/verifharness/copymon"
	"oras.land/oras-go/v2/verifharness/evidence"
	"oras.land/oras-go/v2/verifharness/gen"
	"oras.land/oras-go/v2/verifharness/mon"
	"oras.land/oras-go/v2/verifharness/worker"
)

func main() {
	if worker.IsWorker() {
		worker.Serve(runCase)
		return
	}
	r := evidence.New("C04", "exploration")
	r.Rule("case = C01-style case (DAG, root, link-closed pre-population, pairing incl. remote with mount honoured/refused, API ∈ {Copy, CopyGraph, ExtendedCopyGraph}) × Concurrency ∈ 1..8 (and default) × seeded per-(op,node) latency assignment holding operations open; " +
		"monitors: max in-flight source reads / destination operations ≤ Concurrency, fetch count per blob ≤ 1, push count per node ≤ 1, callback trace (exactly one PreCopy then one PostCopy per transferred node, one OnMounted and no PostCopy per mounted node, ≤ 1 OnCopySkipped, PostCopy after the terminal notification of every successor), injected callback error returned; " +
		"distinct = hash(shape, pairing, API, concurrency, options, latency seed class); non-trivial = a gauge reached the Concurrency bound ∧ reach has a shared node ∧ ≥ 1 transfer")
	r.Assume("config blobs read by target-platform selection before the graph copy are exempt from the fetch-once rule (DESIGN §3 C04)")
	worker.Run(r, worker.Opts{Phase: "acct", Total: r.N(2000, 24000), Batch: 100, Timeout: 20 * time.Minute})
	worker.Run(r, worker.Opts{Phase: "cberr", Total: r.N(600, 6000), Batch: 100, Timeout: 20 * time.Minute})
	if bin := os.Getenv("VERIF_RACE_BIN"); bin != "" {
		raceDir, _ := os.MkdirTemp("", "verif-c04-race-")
		r.Cleanup(func() { os.RemoveAll(raceDir) })
		worker.Run(r, worker.Opts{Phase: "race", Total: r.N(150, 1500), Batch: 50, Bin: bin, Timeout: 30 * time.Minute,
			Env: []string{"GORACE=halt_on_error=0 exitcode=0 log_path=" + filepath.Join(raceDir, "race")}})
		mon.ReportRaces(r, raceDir)
	}
	r.Finish(r.N(100, 1500))
}

func runCase(phase string, i int) worker.Result {
	var res worker.Result
	ctx := context.Background()
	rng := evidence.RandFor(evidence.Seed(), "c04-"+phase, i)
	c := copymon.GenCase(rng, copymon.GenOpts{
		MaxNodes:   map[string]int{"quick": 40, "thorough": 100}[evidence.Tier()],
		APIs:       []string{"Copy", "CopyGraph", "CopyGraph", "ExtendedCopyGraph"},
		MaxDelay:   1500 * time.Microsecond,
		RaceWriter: true,
		Trees:      true,
		OptionalCB: phase != "cberr",
	})
	if len(c.OmitCB) > 0 {
		res.Count("cases_with_some_callbacks_left_unset", 1)
	}
	if c.API == "ExtendedCopyGraph" && c.SrcKind == "remote" {
		c.SrcKind = "memory"
	}
	if c.API == "ExtendedCopyGraph" {
		// a depth limit or a filter makes roots that are successors of other roots
		c.Depth = []int{0, 0, 1, 2}[rng.IntN(4)]
		if rng.IntN(3) == 0 {
			c.FilterAnno = []string{"org.test.salt", "org.test.kind"}[rng.IntN(2)]
			res.Count("extended_cases_with_annotation_filter", 1)
		}
		if c.Depth > 0 {
			res.Count("extended_cases_with_depth_limit", 1)
		}
		if rng.IntN(2) == 0 {
			// start low: at the node with the most direct predecessors, so that the upward walk (and a
			// filter reading each predecessor's manifest) has something to do
			best := c.Root
			for _, nd := range c.G.Nodes {
				if len(c.G.Preds(nd.ID)) > len(c.G.Preds(best)) {
					best = nd.ID
				}
			}
			c.Root, c.Expect = best, best
			res.Count("extended_cases_started_at_most_referenced_node", 1)
			res.MaxOf("max_direct_predecessors_of_start_node", int64(len(c.G.Preds(best))))
		}
	}
	if c.API == "ExtendedCopyGraph" && (c.Depth > 0 || c.FilterAnno != "") && rng.IntN(2) == 0 {
		// one of the start node's predecessors is already complete in the destination: with a depth limit
		// or a filter it can be a root itself and, at the same time, a successor of another root
		if ps := c.G.Preds(c.Root); len(ps) > 0 {
			pick := ps[rng.IntN(len(ps))]
			// prefer a predecessor that another predecessor reaches (e.g. a referrer that an index lists too)
			for _, q := range ps {
				for _, x := range c.G.Reach(q) {
					for _, pp := range ps {
						if x == pp && pp != q {
							pick = pp
							if c.Depth == 0 && c.FilterAnno == "" {
								c.Depth = 1
							}
						}
					}
				}
			}
			c.Prepop = c.G.Reach(pick)
			res.Count("extended_cases_with_a_predecessor_already_in_the_destination", 1)
		}
	}
	c.Conc = []int{0, 1, 2, 3, 4, 5, 6, 7, 8}[rng.IntN(9)]
	if c.Delay == 0 {
		c.Delay = 300 * time.Microsecond
	}
	if c.G.HasTrees() {
		res.Count("cases_with_custom_FindSuccessors_over_tree_nodes", 1)
	}
	e, err := c.Setup(ctx)
	if err != nil {
		res.Violate("harness:setup", err.Error(), c.Describe())
		return res
	}
	defer e.Close()
	var injected *copymon.Fault
	if phase == "cberr" {
		nodes := c.ExpectedSet()
		if len(nodes) == 0 {
			nodes = c.G.Reach(c.Root)
		}
		op := []string{"cb.PreCopy", "cb.PostCopy", "cb.OnCopySkipped", "cb.OnMounted", "cb.MountFrom"}[rng.IntN(5)]
		target := nodes[rng.IntN(len(nodes))]
		if ds := copymon.Diamonds(c.G, nodes); len(ds) > 0 && i%3 == 0 {
			// a callback fails on a node shared by two parents while a sibling under its owner is
			// slow: the other parent must not be released (its PostCopy would precede the failed
			// successor's terminal notification, and its push would precede the successor)
			d := ds[rng.IntN(len(ds))]
			target = d.A
			op = []string{"cb.PreCopy", "cb.PostCopy"}[rng.IntN(2)]
			e.Mon.SlowNode = map[int]time.Duration{d.B: time.Duration(5+rng.IntN(15)) * time.Millisecond}
			res.Count("cberr_diamond_cases", 1)
		}
		if i%3 == 1 {
			// a callback fails on a slow node b1 while a node A outside b1's ancestry has finished
			// waiting for its successors and queues for a slot again under Concurrency 1-2: the
			// aborted re-acquisition must neither release a slot it does not hold nor hang
			already := copymon.Present(ctx, e.Dst.Target, c.G)
			in := map[int]bool{}
			for _, n := range nodes {
				if !already[n] {
					in[n] = true
				}
			}
			var inner []int
			for _, n := range nodes {
				if len(c.G.Nodes[n].Succ) > 0 && !already[n] {
					inner = append(inner, n)
				}
			}
			for try := 0; try < 8 && len(inner) >= 2; try++ {
				a, b := inner[rng.IntN(len(inner))], inner[rng.IntN(len(inner))]
				if a == b {
					continue
				}
				ra := map[int]bool{}
				for _, x := range c.G.Reach(a) {
					ra[x] = true
				}
				var cand []int
				for _, x := range c.G.SuccSet(b) {
					if !ra[x] && in[x] {
						cand = append(cand, x)
					}
				}
				if ra[b] || len(cand) == 0 {
					continue
				}
				target = cand[rng.IntN(len(cand))]
				op = []string{"cb.PostCopy", "cb.PostCopy", "cb.PreCopy"}[rng.IntN(3)]
				e.Mon.SlowNode = map[int]time.Duration{target: time.Duration(3+rng.IntN(12)) * time.Millisecond}
				c.Conc = 1 + rng.IntN(2)
				res.Count("cberr_blocked_reacquire_cases", 1)
				break
			}
		}
		injected = &copymon.Fault{Point: fmt.Sprintf("%s:%d#0", op, target), Kind: "error"}
		e.Mon.Faults = append(e.Mon.Faults, injected)
	}
	presentBefore := copymon.Present(ctx, e.Dst.Target, c.G)
	out := c.RunSupervised(ctx, e, 3*time.Minute)
	witness := func() map[string]any {
		w := c.Describe()
		w["pushed_order"] = e.Mon.PushedNodes()
		if injected != nil {
			w["fault"] = injected.Point
		}
		return w
	}
	if out.Hung {
		w := witness()
		w["goroutines"] = out.Dump
		res.Violate("hang", "call did not return (permit leak or lost wake-up): no progress, nothing in flight, every library goroutine parked", w)
		res.Restart = true
		return res
	}
	if out.Stuck {
		res.Inconc = "watchdog fired without a logical hang proof"
		res.Restart = true
		return res
	}
	conc := c.Conc
	if conc <= 0 {
		conc = 3
	}
	res.Count("copy_calls", 1)
	res.Count("boundary_events", int64(e.Mon.EventCount()))
	exempt := map[int]bool{}
	if c.MapRoot == "platform" {
		rn := c.G.Nodes[c.Root]
		if rn.Kind == gen.Manifest || rn.Kind == gen.DockerManifest {
			for _, s := range rn.Succ {
				if c.G.Nodes[s].Kind == gen.Config {
					exempt[s] = true
				}
			}
		}
	}
	// a push never completes before its successors are present (also when the call fails)
	if len(e.Mon.Closure) > 0 {
		res.Violate("push-before-successor", e.Mon.Closure[0], witness())
		return res
	}
	// gauges and counters are judged whatever the outcome
	for _, v := range e.Mon.CheckAccounting(conc, exempt) {
		key := "accounting"
		switch {
		case len(v) > 5 && v[:5] == "gauge":
			key = "gauge-exceeded"
		case len(v) > 5 && v[:5] == "fetch":
			key = "fetched-twice"
		case len(v) > 4 && v[:4] == "push":
			key = "pushed-twice"
		}
		res.Violate(key, v, witness())
		return res
	}
	res.MaxOf(fmt.Sprintf("max_src_inflight_conc%d", conc), int64(e.Mon.MaxSrc))
	res.MaxOf(fmt.Sprintf("max_dst_inflight_conc%d", conc), int64(e.Mon.MaxDst))
	saturated := e.Mon.MaxSrc == conc || e.Mon.MaxDst == conc
	if saturated {
		res.Count("runs_bound_reached", 1)
	}
	if phase == "cberr" {
		if injected.Hit {
			res.Count("callback_errors_injected", 1)
			if out.Err == nil {
				res.Violate("callback-error-ignored", "a callback returned an error but the call returned nil ("+injected.Point+")", witness())
				return res
			}
			if !errors.Is(out.Err, injected.Err) {
				res.Violate("callback-error-not-returned", fmt.Sprintf("callback returned %v, call returned %v", injected.Err, out.Err), witness())
				return res
			}
		}
	} else if out.Err == nil {
		for _, v := range e.Mon.CheckCallbacks(presentBefore) {
			w := witness()
			res.Violate("callback-trace", v, w)
			return res
		}
		res.Count("callback_traces_checked", 1)
		res.Observe("callback_orders", e.Mon.TraceHash("pre", "post", "skipped", "mounted"))
	}
	pushed := e.Mon.PushedNodes()
	res.Key = c.Key() + fmt.Sprintf("|d%d", c.Delay/(500*time.Microsecond))
	root := c.Root
	if c.Expect >= 0 {
		root = c.Expect
	}
	res.NT = saturated && c.G.HasSharing(root) && len(pushed) >= 1
	if c.RaceNode >= 0 {
		res.Count("cases_with_racing_writer", 1)
	}
	if c.Mount != "" {
		res.Count("cases_with_mount_"+c.Mount, 1)
	}
	if i%173 == 0 {
		d := c.Describe()
		d["max_src_inflight"], d["max_dst_inflight"] = e.Mon.MaxSrc, e.Mon.MaxDst
		res.Sample = d
	}
	return res
}
