// C01 — Copy replicates the whole rooted DAG byte-for-byte and tags the root.
//
// Each case builds a seeded Merkle DAG, a source and a destination store of a
// drawn kind pairing (memory, OCI layout, file store, remote registry model),
// a link-closed pre-population of the destination, options (Concurrency,
// MapRoot, target platform, small metadata cache, blank/explicit destination
// reference) and a latency assignment, runs the real Copy / CopyGraph through
// recording wrappers and, when the call returns nil, checks through the
// unwrapped destination that every node of the generator's own closure exists
// byte-identical, that the returned root is the expected (mapped) root and
// that the destination reference resolves to it.
package main

import (
	"context"
	_ "crypto/sha256"
	_ "crypto/sha512"
	"fmt"
	"os"
	"path/filepath"
	"strings"
	"time"

	"oras.land/oras-go/v2/verifharness/copymon"
	"oras.land/oras-go/v2/verifharness/evidence"
	"oras.land/oras-go/v2/verifharness/mon"
	"oras.land/oras-go/v2/verifharness/worker"
)

func main() {
	if worker.IsWorker() {
		worker.Serve(runCase)
		return
	}
	r := evidence.New("C01", "exploration")
	r.Rule("case = (seeded DAG: OCI/Docker manifests, indexes, artifact manifests, blobs; shared nodes, duplicate successors, empty blobs, media-type twins, subject chains, nested indexes, foreign layers, manifest-bytes-also-blob), " +
		"root ∈ roots ∪ inner manifests ∪ blobs, link-closed pre-population, Concurrency ∈ {default,1,2,3,8,rand}, src×dst ∈ {memory,oci,file,remote}², API ∈ {Copy,CopyGraph}, MapRoot ∈ {none,identity,child,target platform}, small MaxMetadataBytes, seeded per-(op,node) latency; " +
		"oracle at return through the unwrapped destination: Exists ∧ FetchAll = generator bytes for the generator's own closure, returned root, Resolve(dstRef); distinct = hash(shape of reach(root), pairing, API, concurrency, options, pre-population mask); " +
		"non-trivial = reach(root) ≥ 3 nodes ∧ (shared node or duplicate successor) ∧ ≥ 1 node transferred ∧ call succeeded")
	r.Assume("remote registries are represented by the registry model (regmodel) on loopback HTTP")
	r.Assume("interleavings are sampled (latency seeds, 16 cores), not enumerated")
	worker.Run(r, worker.Opts{Phase: "copy", Total: r.N(3000, 30000), Batch: 100, Timeout: 15 * time.Minute})
	if bin := os.Getenv("VERIF_RACE_BIN"); bin != "" {
		raceDir, _ := os.MkdirTemp("", "verif-c01-race-")
		r.Cleanup(func() { os.RemoveAll(raceDir) })
		worker.Run(r, worker.Opts{Phase: "race", Total: r.N(200, 2500), Batch: 50, Bin: bin, Timeout: 20 * time.Minute,
			Env: []string{"GORACE=halt_on_error=0 exitcode=0 log_path=" + filepath.Join(raceDir, "race")}})
		mon.ReportRaces(r, raceDir)
	}
	r.Finish(r.N(300, 3000))
}

func runCase(phase string, i int) worker.Result {
	var res worker.Result
	seed := evidence.Seed()
	rng := evidence.RandFor(seed, "c01-"+phase, i)
	ctx := context.Background()
	c := copymon.GenCase(rng, copymon.GenOpts{MaxNodes: map[string]int{"quick": 40, "thorough": 120}[evidence.Tier()], MaxDelay: 300 * time.Microsecond, ManifestAsBlob: true, TitleClash: true, RaceWriter: true, Trees: true, StaleFiles: true, FullNameRef: true})
	if c.StaleFiles {
		res.Count("cases_with_longer_files_already_at_titled_names", 1)
	}
	if strings.Contains(c.SrcRef, "/") {
		res.Count("cases_with_full_image_name_as_source_reference", 1)
	}
	if c.G.HasTrees() {
		res.Count("cases_with_custom_FindSuccessors_over_tree_nodes", 1)
	}
	e, err := c.Setup(ctx)
	if err != nil {
		res.Violate("harness:setup", err.Error(), c.Describe())
		return res
	}
	defer e.Close()
	cctx, cancel := context.WithTimeout(ctx, 5*time.Minute) // watchdog only
	defer cancel()
	returned, err := c.Run(cctx, e)
	res.Count("copy_calls", 1)
	res.Count("boundary_events", int64(e.Mon.EventCount()))
	pair := c.SrcKind + ">" + c.DstKind
	res.Observe("pairings", pair)
	res.Key = c.Key()
	if cctx.Err() != nil {
		res.Inconc = fmt.Sprintf("case %d: watchdog fired", i)
		return res
	}
	if err != nil {
		res.Count("calls_failed", 1)
		res.Observe("failure_classes", fmt.Sprintf("%s/%s/expect%v", c.API, c.MapRoot, c.Expect >= 0))
		if c.Expect >= 0 {
			// C01 speaks about success only; an unexpected failure on a fault-free
			// run of a well-formed case is recorded so that a check that never
			// succeeds cannot pass (see the floor on non-trivial successes).
			res.Count("unexpected_failures", 1)
			if os.Getenv("VERIF_DEBUG") != "" {
				fmt.Fprintf(os.Stderr, "case %d failed: %v\n%v\n", i, err, c.Describe())
			}
			res.Obs = map[string]string{"unexpected_failure_msgs": trim(err.Error())}
		}
		return res
	}
	res.Count("calls_succeeded", 1)
	if key, what := c.CheckC01(ctx, e, returned); key != "" {
		w := c.Describe()
		w["pushed_order"] = e.Mon.PushedNodes()
		res.Violate(key, what, w)
		return res
	}
	pushed := e.Mon.PushedNodes()
	res.Count("nodes_transferred", int64(len(pushed)))
	res.Observe("push_orders", e.Mon.TraceHash("push-done", "pushref-done"))
	reach := c.G.Reach(c.Expect)
	res.Count("nodes_verified", int64(len(reach)))
	if len(c.Prepop) > 0 {
		res.Count("cases_prepopulated", 1)
	}
	if c.MapRoot != "" {
		res.Count("cases_mapped_root", 1)
	}
	for _, p := range c.Prepop {
		if p == c.Expect {
			res.Count("cases_root_already_present", 1)
		}
	}
	res.NT = len(reach) >= 3 && c.G.HasSharing(c.Expect) && len(pushed) >= 1
	if i%211 == 0 {
		res.Sample = c.Describe()
	}
	return res
}

func trim(s string) string {
	if len(s) > 100 {
		return s[:100]
	}
	return s
}
