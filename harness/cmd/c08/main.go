// C08 — An OCI layout on disk is always valid and reopens to the same
// observable state.
//
// Monitor: a random history of Push/Tag/Untag/Delete/GC/SaveIndex runs on a
// real oci.Store. With AutoSaveIndex on, after EVERY step the raw directory is
// validated (oci-layout and index.json parse, blob files named by the digest of
// their bytes, every index.json entry with a reference name points to an
// existing blob of the recorded size) and the observable state of the original
// store is compared with the store reopened through fs.FS; at checkpoints (and
// at the end; with AutoSaveIndex off after an explicit SaveIndex) the
// comparison is made against all reopen paths: read-write, fs.FS, tar written
// by archive/tar, tar written by the system tar. Some histories continue on
// the reopened read-write store.
package main

import (
	"context"
	_ "crypto/sha256"
	_ "crypto/sha512"
	"encoding/json"
	"fmt"
	"os"
	"path/filepath"
	"strconv"
	"strings"

	"github.com/opencontainers/go-digest"
	ocispec "github.com/opencontainers/image-spec/specs-go/v1"
	"oras.land/oras-go/v2/content/oci"
	"oras.land/oras-go/v2/verifharness/evidence"
	"oras.land/oras-go/v2/verifharness/gen"
	"oras.land/oras-go/v2/verifharness/ocicheck"
	"oras.land/oras-go/v2/verifharness/worker"
)

var ctx = context.Background()

func main() {
	if worker.IsWorker() {
		worker.Serve(runCase)
		return
	}
	r := evidence.New("C08", "exploration")
	r.Rule("case = (seeded DAG of 6–26 nodes incl. referrers, indexes, absent subjects, a sha512 blob; AutoSaveIndex on|off; AutoGC on|off; 3–6 reference names incl. unicode/odd ones; " +
		"random history of 12–45 Push/Tag/re-tag/Untag/Delete/GC/SaveIndex steps with tag descriptors carrying annotations, platform (os/architecture/variant/os.version/os.features), artifactType, urls and data alone and combined (also re-tags changing only those fields), tag descriptors obtained from Resolve(<digest>) (octet-stream media type for plain blobs), hand-made octet-stream descriptors on manifests that keep a pinned name under their manifest type (sometimes followed by a typed tag), tags on blobs, several tags per manifest, some operations aimed at absent operands, Tag of content that Delete/AutoGC/GC removed earlier in the history (must fail and change nothing), first graph use of every reopened store made with a cancelled context, some histories continuing on the reopened store). " +
		"Oracle: on-disk validity after every step (AutoSaveIndex on) and after every SaveIndex (off); Obs(original)=Obs(reopened) after every step via fs.FS and at checkpoints via rw, fs.FS, archive/tar tar, system tar, and (at checkpoints and a quarter of the steps) via archives made earlier in the history and updated in place by appending the changed files (system tar -r; archive/tar append mode; re-made when a file disappeared), " +
		"Obs = Tags, Resolve of every reference name used, Resolve of every digest seen (incl. never-pushed and foreign ones), Exists, Fetch bytes, Predecessors of every node. " +
		"distinct = hash(options, sequence of operation kinds with outcomes); non-trivial = history contains a successful re-tag or untag and a successful delete or GC. " +
		"Concurrent sub-phase (also under the race detector): 2–12 goroutines Push/Tag/re-tag/Untag on one store (AutoSaveIndex on, colliding reference names, yield hook between resolver update and index save); after all returned: on-disk validity and Obs(original)=Obs(reopened) on all four paths; distinct = per-goroutine operation kinds; non-trivial = ≥ 2 goroutines and ≥ 4 operations that rewrote index.json")
	r.Assume("concurrent sub-phase: interleavings are sampled, not enumerated; no expectation on which final state is reached, only original = reopened at quiescence")
	r.Assume("content is pushed under one media type per digest (media-type twins among pushed nodes are C01's shape, as in C07); descriptors passed to Tag are the pushed one or the one Resolve(<digest>) returns, both with the true size")
	r.Assume("a manifest recorded in index.json ONLY under application/octet-stream is a plain blob for every reopened store (successors are decided by the descriptor's media type), while the live store keeps the edges of the typed Push: not demanded, so a manifest that gets an octet-stream tag keeps one never-moved name under its manifest type")
	r.Assume("reference names are valid UTF-8 (JSON cannot carry other byte strings)")
	r.Assume("with AutoSaveIndex off the directory is only judged after an explicit SaveIndex, as the statement says")
	worker.Run(r, worker.Opts{Phase: "hist", Total: r.N(400, 6000), Batch: r.N(20, 50)})
	// concurrent sub-phase: overlapping Push/Tag/Untag, judged at quiescence
	worker.Run(r, worker.Opts{Phase: "conc", Total: r.N(120, 2000), Batch: r.N(10, 50)})
	if bin := os.Getenv("VERIF_RACE_BIN"); bin != "" {
		raceDir, _ := os.MkdirTemp("", "verif-c08-race-")
		defer os.RemoveAll(raceDir)
		worker.Run(r, worker.Opts{Phase: "concrace", Total: r.N(40, 600), Batch: r.N(10, 30), Bin: bin,
			Env: []string{"GORACE=halt_on_error=0 log_path=" + filepath.Join(raceDir, "race")}})
		r.Set("race_reports", countRaceReports(raceDir, r))
		os.RemoveAll(raceDir)
	}
	r.Finish(r.N(130, 2000))
}

// envSeed reads VERIF_SEED (workers must not re-read known_findings.json,
// which may be rewritten while a long run is in progress).
func envSeed() int64 {
	if n, err := strconv.ParseInt(os.Getenv("VERIF_SEED"), 10, 64); err == nil {
		return n
	}
	return 1
}

type witnessT struct {
	Options map[string]any `json:"options"`
	Refs    []string       `json:"refs"`
	Nodes   []string       `json:"nodes"`
	History []string       `json:"history"`
	Detail  any            `json:"detail,omitempty"`
}

func runCase(phase string, i int) worker.Result {
	if phase != "hist" {
		return runConc(phase, i)
	}
	seed := envSeed()
	rng := evidence.RandFor(seed, "c08-"+phase, i)
	var res worker.Result

	n := 6 + rng.IntN(20)
	o := gen.DefaultOpts(rng, n)
	o.DupMediaType = false
	o.ManifestAsBlob = false
	o.Foreign = rng.IntN(3) == 0
	o.AbsentSubjects = rng.IntN(3) == 0
	o.Platforms = rng.IntN(4) == 0
	g := gen.Generate(rng, o)
	nodes := ocicheck.FromDAG(g)
	if rng.IntN(2) == 0 {
		data := make([]byte, 1+rng.IntN(200))
		for k := range data {
			data[k] = byte(rng.UintN(256))
		}
		nodes = ocicheck.AddBlob(nodes, "application/vnd.test.data", digest.SHA512, data)
	}

	// universe of digests: every node, foreign layers, absent subjects, one unknown
	var digests []string
	seenD := map[string]bool{}
	addD := func(d string) {
		if !seenD[d] {
			seenD[d] = true
			digests = append(digests, d)
		}
	}
	for _, nd := range nodes {
		addD(nd.Desc.Digest.String())
	}
	for _, nd := range g.Nodes {
		for _, f := range nd.Foreign {
			addD(f.Digest.String())
		}
		if nd.AbsentSubject != nil {
			addD(nd.AbsentSubject.Digest.String())
		}
	}
	addD(digest.FromString("never seen").String())

	autoSave := rng.IntN(4) > 0
	autoGC := rng.IntN(2) == 0
	og := ocicheck.NewOpGen(rng, nodes, 3+rng.IntN(4), autoSave)
	if !autoSave {
		og.Weights["saveindex"] = 8
	}
	// one history in three is a "churn" history: everything is pushed first
	// (children first), then removals, GC and tag moves dominate
	churn := rng.IntN(3) == 0
	// references probed besides the ones in use: one never used, the empty one
	probeRefs := append(append([]string{}, og.Refs...), "never-used-ref")

	tmp, err := os.MkdirTemp("", "verif-c08-")
	if err != nil {
		res.Violate("harness:mkdtemp", err.Error(), nil)
		return res
	}
	defer os.RemoveAll(tmp)
	dir := filepath.Join(tmp, "layout")
	scratch := filepath.Join(tmp, "scratch")
	os.Mkdir(scratch, 0o755)
	st, err := oci.New(dir)
	if err != nil {
		res.Violate("harness:oci.New", err.Error(), nil)
		return res
	}
	st.AutoSaveIndex = autoSave
	st.AutoGC = autoGC

	var history []string
	var kinds []string
	wit := func(detail any) witnessT {
		return witnessT{Options: map[string]any{"AutoSaveIndex": autoSave, "AutoGC": autoGC, "churn": churn}, Refs: og.Refs,
			Nodes: ocicheck.Describe(nodes), History: append([]string{}, history...), Detail: detail}
	}

	explicitlyDeleted := map[string]bool{} // digests that were the explicit target of a successful Delete
	validate := func(after string) bool {
		rep := ocicheck.Validate(dir)
		res.Count("ondisk_validations", 1)
		res.Count("index_entries_checked", int64(rep.Entries))
		res.Count("blob_files_hashed", int64(rep.BlobFiles))
		res.Count("unnamed_entries_with_missing_blob_unjudged", int64(len(rep.UnnamedMissing)))
		if len(rep.Problems) == 0 {
			return true
		}
		p := rep.Problems[0]
		key := "ondisk:" + p.Key + ":after-" + after
		if danglingOnlyOtherMediaType(rep, nodes, explicitlyDeleted) {
			// specific shape: Delete(descriptor as pushed) of a blob that carries a tag placed
			// through a descriptor of another media type (e.g. the one Resolve(<digest>) returns)
			key = "delete-leaves-tag-of-other-mediatype"
		}
		res.Violate(key, fmt.Sprintf("after %s the directory is not a valid layout: %s", after, p.What), wit(rep.Problems))
		return false
	}

	// compare returns the differences of the original against one reopen path
	compare := func(how string) ([]ocicheck.Difference, error) {
		ro, cleanup, err := ocicheck.Reopen(ctx, dir, how, scratch)
		if err != nil {
			return nil, err
		}
		defer cleanup()
		a := ocicheck.Observe(ctx, st, nodes, probeRefs, digests)
		b := ocicheck.Observe(ctx, ro, nodes, probeRefs, digests)
		res.Count("reopen_comparisons_"+how, 1)
		res.Count("answers_compared", int64(a.Items()))
		return ocicheck.Diff(a, b), nil
	}
	report := func(how, after string, diffs []ocicheck.Difference, err error, gcUnsaved bool) {
		if err != nil {
			key := "reopen-failed:" + how + ":after-" + after
			if strings.HasPrefix(err.Error(), "harness:") {
				key = "harness:reopen:" + how
			}
			res.Violate(key, fmt.Sprintf("reopening (%s) after %s failed: %v", how, after, err), wit(nil))
			return
		}
		d := diffs[0]
		key := fmt.Sprintf("obs-diff:%s:%s:after-%s", d.Field, how, after)
		if gcUnsaved {
			key = "gc-index-not-saved"
		} else if twinOrderShape(dir, diffs) {
			// specific shape: one digest tagged under two media types; which one a reopened
			// store answers for Resolve(<digest>) depends on the entry order in index.json
			key = "resolve-digest-mediatype-by-index-order"
		} else if byDigestTypeNotPersisted(dir, diffs) {
			// specific shape: the media type the live store answers for Resolve(<digest>) is carried
			// by no index.json entry of that digest (the by-digest entry is dropped when the digest has names)
			key = "resolve-digest-mediatype-not-persisted"
		} else if unlistedManifestShape(dir, nodes, diffs) {
			// specific shape, see the function
			key = "predecessors-of-unlisted-manifest"
		}
		res.Violate(key, fmt.Sprintf("after %s: %s %q: original answers %s, store reopened via %s answers %s (%d differences)", after, d.Field, d.Item, clip(d.A), how, clip(d.B), len(diffs)), wit(diffs))
	}

	retagOrUntag, delOrGC := false, false
	steps := 12 + rng.IntN(34)
	if churn {
		steps += len(nodes)
	}
	dirty := false // AutoSaveIndex off: something happened since the last SaveIndex
	failed := false

	// archives made earlier and updated in place by appending (last entry of a name wins)
	tracker := &ocicheck.TarTracker{Scratch: scratch}
	trackedTars := func(after string) bool {
		appended, err := tracker.Refresh(dir)
		if err != nil {
			res.Violate("harness:tracked-tar", err.Error(), wit(nil))
			return false
		}
		if appended {
			res.Count("tar_updates_by_append", 1)
		}
		if tracker.Updates == 0 {
			return true // freshly made: same as the plain tar paths
		}
		res.MaxOf("max_generations_in_one_appended_tar", int64(tracker.Updates))
		a := ocicheck.Observe(ctx, st, nodes, probeRefs, digests)
		for how, path := range map[string]string{"systar-appended": tracker.SysTar, "gotar-appended": tracker.GoTar} {
			ro, err := ocicheck.OpenTar(ctx, path)
			if err != nil {
				report(how, after, nil, err, false)
				return false
			}
			b := ocicheck.Observe(ctx, ro, nodes, probeRefs, digests)
			res.Count("reopen_comparisons_"+how, 1)
			res.Count("answers_compared", int64(a.Items()))
			if diffs := ocicheck.Diff(a, b); len(diffs) > 0 {
				report(how, after, diffs, nil, false)
				return false
			}
		}
		return true
	}

	checkpoint := func(after string) bool {
		if !autoSave && dirty {
			if err := st.SaveIndex(); err != nil {
				res.Violate("saveindex-failed", "SaveIndex: "+err.Error(), wit(nil))
				return false
			}
			history = append(history, "saveindex*")
			dirty = false
		}
		if !validate(after) {
			return false
		}
		for _, how := range ocicheck.ReopenPaths {
			diffs, err := compare(how)
			if err != nil || len(diffs) > 0 {
				report(how, after, diffs, err, false)
				return false
			}
		}
		if !trackedTars(after) {
			return false
		}
		res.Count("checkpoints", 1)
		return true
	}

	for s := 0; s < steps && !failed; s++ {
		// continue on a reopened store now and then
		if (autoSave || !dirty) && !(churn && s < len(nodes)) && rng.IntN(14) == 0 {
			if !checkpoint("reopen-continue") {
				failed = true
				break
			}
			ns, err := oci.New(dir)
			if err != nil {
				res.Violate("reopen-failed:rw", "oci.New: "+err.Error(), wit(nil))
				failed = true
				break
			}
			ns.AutoSaveIndex, ns.AutoGC = autoSave, autoGC
			ocicheck.FirstUseCancelled(ns) // a failed first graph use must not damage the store
			st = ns
			history = append(history, "reopen-continue")
			kinds = append(kinds, "R")
			continue
		}
		op := og.Next(ctx, rng, st)
		if s < 4 && len(nodes) > 4 { // start with some content
			op = ocicheck.Op{Kind: "push", Node: rng.IntN(len(nodes))}
		}
		if churn && s < len(nodes) {
			op = ocicheck.Op{Kind: "push", Node: s}
			if s == len(nodes)-1 {
				for k, w := range map[string]int{"push": 8, "tag": 18, "retag": 8, "untag": 8, "delete": 24, "gc": 14} {
					og.Weights[k] = w
				}
			}
		}
		// was the reference in use before (re-tag)?
		isRetag := false
		if op.Kind == "tag" {
			if _, err := st.Resolve(ctx, op.Ref); err == nil {
				isRetag = true
			}
		}
		err := ocicheck.Apply(ctx, st, nodes, op)
		op.Err = ocicheck.ErrClass(err)
		h := op.String()
		if err != nil {
			h += " → " + op.Err
			if op.Err == "error" {
				h += ": " + err.Error()
				res.Count("unclassified_op_errors", 1)
				res.Observe("op_error_texts", op.Kind+": "+err.Error())
			}
		}
		history = append(history, h)
		kinds = append(kinds, kindCode(op, isRetag))
		res.Count("steps", 1)
		res.Observe("op_outcomes", op.Kind+"/"+op.Err)
		if op.Kind == "tag" && err == nil {
			shape := ""
			for _, f := range []struct {
				on   bool
				name string
			}{{len(op.Ann) > 0, "ann"}, {op.Platform != nil, "platform"}, {op.ArtifactType != "", "artifactType"}, {len(op.URLs) > 0, "urls"}, {op.Data, "data"}} {
				if f.on {
					shape += "+" + f.name
					res.Count("tag_descriptors_with_"+f.name, 1)
				}
			}
			res.Observe("tag_descriptor_shapes", shape)
		}
		res.Count("op_"+op.Kind+map[bool]string{true: "_ok", false: "_" + op.Err}[err == nil], 1)
		if err == nil {
			switch op.Kind {
			case "tag":
				if isRetag {
					retagOrUntag = true
				}
				if op.Octet {
					res.Count("tag_descriptors_octet_stream_on_manifests", 1)
				}
				if op.Resolved {
					res.Count("tag_descriptors_via_resolve", 1)
					if !nodes[op.Node].Manifest {
						res.Count("tag_descriptors_via_resolve_on_blobs", 1)
					}
				}
			case "untag":
				retagOrUntag = true
			case "delete", "gc":
				delOrGC = true
				if op.Kind == "delete" {
					explicitlyDeleted[nodes[op.Node].Desc.Digest.String()] = true
				}
			}
		}
		if op.Kind == "push" && err == nil {
			delete(explicitlyDeleted, nodes[op.Node].Desc.Digest.String())
		}
		if op.Kind == "saveindex" && err == nil {
			dirty = false
		} else if op.Kind != "saveindex" {
			dirty = true
		}
		after := op.Kind
		if autoSave || !dirty {
			if !validate(after) {
				failed = true
				break
			}
			diffs, cerr := compare("fs")
			if cerr != nil || len(diffs) > 0 {
				gcUnsaved := false
				if op.Kind == "gc" && autoSave && cerr == nil {
					// the known shape: after GC index.json still lists entries whose blobs GC removed
					gcUnsaved = len(ocicheck.Validate(dir).UnnamedMissing) > 0
				}
				report("fs", after, diffs, cerr, gcUnsaved)
				failed = true
				break
			}
			if rng.IntN(6) == 0 {
				if !checkpoint(after) {
					failed = true
					break
				}
			} else if rng.IntN(4) == 0 {
				if !trackedTars(after) {
					failed = true
					break
				}
			}
		}
	}
	if !failed {
		checkpoint("final")
	}

	res.Key = fmt.Sprintf("save=%v gc=%v churn=%v n=%d|%s", autoSave, autoGC, churn, len(nodes), strings.Join(kinds, ""))
	res.NT = retagOrUntag && delOrGC
	res.Observe("option_sets", fmt.Sprintf("save=%v gc=%v", autoSave, autoGC))
	if i%61 == 0 {
		res.Sample = wit(nil)
	}
	return res
}

// unlistedManifestShape recognises one specific divergence: the only
// differences are predecessor sets, the reopened store's sets are subsets of the
// original's, and every predecessor the reopened store does not know is a
// manifest whose blob is on disk but which index.json neither lists nor reaches
// (ground-truth edges) from a listed entry. It arises when GC drops the
// by-digest entry of a manifest that is reachable from a tagged parent and the
// parent is deleted afterwards with AutoGC off.
func unlistedManifestShape(dir string, nodes []ocicheck.Node, diffs []ocicheck.Difference) bool {
	rep := ocicheck.Validate(dir)
	if rep.Index == nil {
		return false
	}
	byDigest := map[string]int{}
	byPredKey := map[string]int{}
	for _, n := range nodes {
		byDigest[n.Desc.Digest.String()] = n.ID
		byPredKey[ocicheck.PredKey(n.Desc)] = n.ID
	}
	reach := map[int]bool{}
	var stack []int
	for _, e := range rep.Index.Manifests {
		if id, ok := byDigest[e.Digest.String()]; ok && !reach[id] {
			reach[id] = true
			stack = append(stack, id)
		}
	}
	for len(stack) > 0 {
		id := stack[len(stack)-1]
		stack = stack[:len(stack)-1]
		if _, ok := rep.Blobs[nodes[id].Desc.Digest.String()]; !ok {
			continue // not stored: the loader cannot follow it
		}
		for _, s := range nodes[id].Succ {
			if !reach[s] {
				reach[s] = true
				stack = append(stack, s)
			}
		}
	}
	for _, d := range diffs {
		if d.Field != "predecessors" {
			return false
		}
		re := map[string]bool{}
		for _, k := range strings.Fields(d.B) {
			re[k] = true
		}
		or := map[string]bool{}
		for _, k := range strings.Fields(d.A) {
			or[k] = true
		}
		for k := range re {
			if !or[k] {
				return false
			}
		}
		for k := range or {
			if re[k] {
				continue
			}
			id, ok := byPredKey[k]
			if !ok || !nodes[id].Manifest || reach[id] {
				return false
			}
			if _, stored := rep.Blobs[nodes[id].Desc.Digest.String()]; !stored {
				return false
			}
		}
	}
	return true
}

// danglingOnlyOtherMediaType: every index.json entry with a reference name whose
// blob is missing (a) belongs to a node that was the explicit target of a Delete
// and (b) carries a media type other than the one the node was pushed with.
func danglingOnlyOtherMediaType(rep *ocicheck.Report, nodes []ocicheck.Node, explicitlyDeleted map[string]bool) bool {
	if rep.Index == nil {
		return false
	}
	pushed := map[string]string{}
	for _, n := range nodes {
		pushed[n.Desc.Digest.String()] = n.Desc.MediaType
	}
	found := false
	for _, p := range rep.Problems {
		if p.Key != "named-entry-missing-blob" {
			return false
		}
	}
	for _, e := range rep.Index.Manifests {
		if e.Annotations[ocispec.AnnotationRefName] == "" {
			continue
		}
		if _, ok := rep.Blobs[e.Digest.String()]; ok {
			continue
		}
		mt, known := pushed[e.Digest.String()]
		if !known || mt == e.MediaType || !explicitlyDeleted[e.Digest.String()] {
			return false
		}
		found = true
	}
	return found
}

// twinOrderShape: all differences are Resolve(<digest>) answers, and every such
// digest has index.json entries with reference names under two or more media types.
func twinOrderShape(dir string, diffs []ocicheck.Difference) bool {
	rep := ocicheck.Validate(dir)
	if rep.Index == nil || len(diffs) == 0 {
		return false
	}
	types := map[string]map[string]bool{}
	for _, e := range rep.Index.Manifests {
		if e.Annotations[ocispec.AnnotationRefName] == "" {
			continue
		}
		if types[e.Digest.String()] == nil {
			types[e.Digest.String()] = map[string]bool{}
		}
		types[e.Digest.String()][e.MediaType] = true
	}
	for _, d := range diffs {
		if d.Field != "resolve-digest" || len(types[d.Item]) < 2 {
			return false
		}
	}
	return true
}

// byDigestTypeNotPersisted: all differences are Resolve(<digest>) answers that
// differ in media type only, the digest has index.json entries with reference
// names, and none of its entries carries the media type the original answers.
func byDigestTypeNotPersisted(dir string, diffs []ocicheck.Difference) bool {
	rep := ocicheck.Validate(dir)
	if rep.Index == nil || len(diffs) == 0 {
		return false
	}
	for _, d := range diffs {
		if d.Field != "resolve-digest" {
			return false
		}
		var a, b ocispec.Descriptor
		if json.Unmarshal([]byte(d.A), &a) != nil || json.Unmarshal([]byte(d.B), &b) != nil || a.MediaType == b.MediaType {
			return false
		}
		named, carried := false, false
		for _, e := range rep.Index.Manifests {
			if e.Digest.String() != d.Item {
				continue
			}
			if e.Annotations[ocispec.AnnotationRefName] != "" {
				named = true
			}
			if e.MediaType == a.MediaType {
				carried = true
			}
		}
		if !named || carried {
			return false
		}
	}
	return true
}

func kindCode(op ocicheck.Op, retag bool) string {
	c := map[string]string{"push": "p", "pushbad": "b", "tag": "t", "untag": "u", "delete": "d", "gc": "g", "saveindex": "s"}[op.Kind]
	if op.Kind == "tag" && retag {
		c = "T"
	}
	if op.Err != "" {
		c += "!"
	}
	return c
}

func clip(s string) string {
	if len(s) > 300 {
		return s[:300] + "…"
	}
	return s
}
