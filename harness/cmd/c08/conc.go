package main

import (
	"fmt"
	"math/rand/v2"
	"os"
	"path/filepath"
	"runtime"
	"strings"
	"sync"
	"sync/atomic"

	"oras.land/oras-go/v2/content/oci"
	"oras.land/oras-go/v2/internal/verifhook"
	"oras.land/oras-go/v2/verifharness/evidence"
	"oras.land/oras-go/v2/verifharness/gen"
	"oras.land/oras-go/v2/verifharness/ocicheck"
	"oras.land/oras-go/v2/verifharness/worker"
)

// runConc is the concurrent sub-phase: several goroutines Push / Tag / re-tag /
// Untag on ONE store with AutoSaveIndex on (the read-locked operations, which
// the store allows to overlap); after all of them have returned (quiescence) the
// directory must be a valid layout and every reopen path must observe what the
// original store observes. No expectation is placed on WHICH final state is
// reached, only on original = reopened.
func runConc(phase string, i int) worker.Result {
	seed := envSeed()
	rng := evidence.RandFor(seed, "c08-conc", i)
	var res worker.Result

	n := 6 + rng.IntN(12)
	o := gen.DefaultOpts(rng, n)
	o.DupMediaType, o.ManifestAsBlob, o.Foreign = false, false, false
	nodes := ocicheck.FromDAG(gen.Generate(rng, o))
	var digests []string
	for _, nd := range nodes {
		digests = append(digests, nd.Desc.Digest.String())
	}
	refs := []string{"r0", "r1", "r2", "r3", "ünï/タグ"}[:2+rng.IntN(4)]

	tmp, err := os.MkdirTemp("", "verif-c08-")
	if err != nil {
		res.Violate("harness:mkdtemp", err.Error(), nil)
		return res
	}
	defer os.RemoveAll(tmp)
	dir := filepath.Join(tmp, "layout")
	scratch := filepath.Join(tmp, "scratch")
	os.Mkdir(scratch, 0o755)
	st, err := oci.New(dir)
	if err != nil {
		res.Violate("harness:oci.New", err.Error(), nil)
		return res
	}

	// hook: count, and yield between the resolver update and the index save
	var hookHits atomic.Int64
	h := func(point, _ string) {
		if point == "oci.tag.beforeSaveIndex" {
			hookHits.Add(1)
			runtime.Gosched()
		}
	}
	verifhook.Handler.Store(&h)
	defer verifhook.Handler.Store(nil)

	// some content first, so that tags have targets from the start
	pre := 1 + rng.IntN(len(nodes))
	for id := 0; id < pre; id++ {
		ocicheck.Apply(ctx, st, nodes, ocicheck.Op{Kind: "push", Node: id})
	}

	workers := 2 + rng.IntN(11)
	perWorker := 3 + rng.IntN(10)
	logs := make([][]string, workers)
	var okTagOps atomic.Int64
	var wg sync.WaitGroup
	start := make(chan struct{})
	for w := 0; w < workers; w++ {
		wg.Add(1)
		wrng := rand.New(rand.NewPCG(rng.Uint64(), rng.Uint64()))
		go func(w int, wrng *rand.Rand) {
			defer wg.Done()
			<-start
			for k := 0; k < perWorker; k++ {
				var op ocicheck.Op
				switch x := wrng.IntN(10); {
				case x < 3:
					op = ocicheck.Op{Kind: "push", Node: wrng.IntN(len(nodes))}
				case x < 8:
					op = ocicheck.Op{Kind: "tag", Node: wrng.IntN(pre), Ref: refs[wrng.IntN(len(refs))]}
					if wrng.IntN(3) == 0 {
						op.Ann = map[string]string{"org.test.by": fmt.Sprintf("w%d-%d", w, k)}
					}
				default:
					op = ocicheck.Op{Kind: "untag", Ref: refs[wrng.IntN(len(refs))]}
				}
				err := ocicheck.Apply(ctx, st, nodes, op)
				c := ocicheck.ErrClass(err)
				if err == nil && op.Kind != "push" || err == nil && nodes[op.Node].Manifest {
					okTagOps.Add(1) // an operation that rewrote index.json
				}
				line := op.String()
				if c != "" {
					line += " → " + c
					if c == "error" {
						line += ": " + err.Error()
					}
				}
				logs[w] = append(logs[w], line)
			}
		}(w, wrng)
	}
	close(start)
	wg.Wait()

	wit := func(detail any) map[string]any {
		return map[string]any{"goroutines": logs, "refs": refs, "nodes": ocicheck.Describe(nodes), "prepushed": pre, "detail": detail}
	}
	unexpected := 0
	for _, l := range logs {
		for _, line := range l {
			if strings.Contains(line, "→ error") {
				unexpected++
				res.Observe("conc_op_error_texts", line)
			}
		}
	}
	res.Count("conc_unclassified_op_errors", int64(unexpected))
	res.Count("conc_hook_hits_tag_beforeSaveIndex", hookHits.Load())
	res.Count("conc_index_writing_ops", okTagOps.Load())
	res.Count("conc_goroutines", int64(workers))

	// quiescent: validity + reopen equivalence on every path
	if rep := ocicheck.Validate(dir); len(rep.Problems) > 0 {
		res.Violate("conc:ondisk:"+rep.Problems[0].Key, "after concurrent operations returned the directory is not a valid layout: "+rep.Problems[0].What, wit(rep.Problems))
	} else {
		probe := append(append([]string{}, refs...), "never-used-ref")
		a := ocicheck.Observe(ctx, st, nodes, probe, digests)
		for _, how := range ocicheck.ReopenPaths {
			ro, cleanup, err := ocicheck.Reopen(ctx, dir, how, scratch)
			if err != nil {
				res.Violate("conc:reopen-failed:"+how, err.Error(), wit(nil))
				break
			}
			b := ocicheck.Observe(ctx, ro, nodes, probe, digests)
			cleanup()
			res.Count("conc_reopen_comparisons", 1)
			if diffs := ocicheck.Diff(a, b); len(diffs) > 0 {
				d := diffs[0]
				res.Violate("conc:obs-diff:"+d.Field, fmt.Sprintf("after %d goroutines finished: %s %q: original answers %s, store reopened via %s answers %s (%d differences)",
					workers, d.Field, d.Item, clip(d.A), how, clip(d.B), len(diffs)), wit(diffs))
				break
			}
		}
	}
	var shape []string
	for _, l := range logs {
		s := ""
		for _, line := range l {
			s += line[:1]
		}
		shape = append(shape, s)
	}
	res.Key = fmt.Sprintf("w=%d pre=%d refs=%d|%s", workers, pre, len(refs), strings.Join(shape, "/"))
	res.NT = workers >= 2 && okTagOps.Load() >= 4
	if i%97 == 0 {
		res.Sample = wit(nil)
	}
	return res
}

// countRaceReports counts DATA RACE blocks of the race-detector logs.
func countRaceReports(dir string, r *evidence.Run) int {
	files, _ := filepath.Glob(filepath.Join(dir, "race*"))
	n := 0
	for _, f := range files {
		b, _ := os.ReadFile(f)
		for _, blk := range strings.Split(string(b), "==================") {
			if !strings.Contains(blk, "WARNING: DATA RACE") {
				continue
			}
			lib := false
			for _, l := range strings.Split(blk, "\n") {
				if strings.Contains(l, "oras.land/oras-go/v2/") && !strings.Contains(l, "verifharness") {
					lib = true
				}
			}
			n++
			if lib {
				r.Violation("race", "data race reported by the race detector in library code", blk)
			} else {
				r.Violation("harness:race", "data race inside the harness itself", blk)
			}
		}
	}
	return n
}

var _ = worker.IsWorker
