package main

import (
	"bytes"
	"encoding/json"
	"errors"
	"fmt"
	"io/fs"
	"os"
	"path/filepath"
	"sort"
	"strings"
	"sync"

	"github.com/opencontainers/go-digest"
	ocispec "github.com/opencontainers/image-spec/specs-go/v1"
	"oras.land/oras-go/v2/content/oci"
	"oras.land/oras-go/v2/errdef"
	"oras.land/oras-go/v2/internal/verifhook"
	"oras.land/oras-go/v2/verifharness/gen"
	"oras.land/oras-go/v2/verifharness/worker"
)

// op is one step of a history.
type op struct {
	Op     string `json:"op"` // push | tag | untag | stray | delete | gc | gcfail (GC while the blob of Node is corrupt)
	Node   int    `json:"node"`
	Ref    string `json:"ref,omitempty"`
	AutoGC bool   `json:"autogc,omitempty"`
	Via    bool   `json:"via_resolve,omitempty"` // tag: with the descriptor Resolve(<digest>) returns (octet-stream for plain blobs)
	Path   string `json:"path,omitempty"`        // stray: path below blobs/
	Victim int    `json:"victim,omitempty"`      // deletefail: node of the cascade whose blob cannot be removed
}

func (o op) String() string {
	switch o.Op {
	case "push":
		return fmt.Sprintf("p%d", o.Node)
	case "tag":
		if o.Via {
			return fmt.Sprintf("tr%d=%s", o.Node, o.Ref)
		}
		return fmt.Sprintf("t%d=%s", o.Node, o.Ref)
	case "untag":
		return "u" + o.Ref
	case "stray":
		return "s" + strayClass(o.Path)
	case "delete":
		if o.AutoGC {
			return fmt.Sprintf("D%d", o.Node)
		}
		return fmt.Sprintf("d%d", o.Node)
	case "gc":
		return "G"
	case "gcfail":
		return fmt.Sprintf("F%d", o.Node)
	case "deletefail":
		return fmt.Sprintf("X%d!%d", o.Node, o.Victim)
	}
	return "?"
}

func opsString(ops []op) string {
	var sb strings.Builder
	for _, o := range ops {
		sb.WriteString(o.String())
		sb.WriteByte(' ')
	}
	return sb.String()
}

// ---- termination monitor (hook oci.gcIndex.subjectStep) --------------------

const nonTermMarker = "C09-GC-NONTERMINATION"

var hook struct {
	mu      sync.Mutex
	counts  map[string]int
	bound   int
	total   int64
	maxKey  int
	witness func() string
}

func installHook() {
	h := func(point, key string) {
		if point != "oci.gcIndex.subjectStep" {
			return
		}
		hook.mu.Lock()
		defer hook.mu.Unlock()
		hook.total++
		hook.counts[key]++
		c := hook.counts[key]
		if c > hook.maxKey {
			hook.maxKey = c
		}
		if hook.bound > 0 && c > hook.bound {
			w := ""
			if hook.witness != nil {
				w = hook.witness()
			}
			fmt.Fprintf(os.Stderr, "\n%s key=%s steps=%d bound=%d %s\n", nonTermMarker, key, c, hook.bound, w)
			removeLiveDirs()
			os.Exit(97)
		}
	}
	hook.counts = map[string]int{}
	verifhook.Handler.Store(&h)
}

// liveDirs are the store directories of this worker (removed before an abort).
var (
	liveMu   sync.Mutex
	liveDirs = map[string]bool{}
)

func removeLiveDirs() {
	liveMu.Lock()
	defer liveMu.Unlock()
	for d := range liveDirs {
		os.RemoveAll(d)
	}
}

// ---- execution environment ----------------------------------------------------

type env struct {
	g    *gen.DAG
	dir  string
	st   *oci.Store
	m    *model
	res  *worker.Result
	ops  []op // executed so far (including the one being executed)
	stop bool // a violation was recorded: the model no longer tracks the store
	nt   bool // some judged operation was non-trivial
	// gcSeen: nodes that were stored when the last GC finished (nil before the first GC)
	gcSeen map[int]bool
	probe  bool // this env is an order-dependence replay
	// lastErr: what the last Delete / GC returned
	lastErr error
}

func tmpBase() string {
	if d := os.Getenv("C09_TMP"); d != "" {
		return d
	}
	return os.TempDir()
}

func newEnv(g *gen.DAG, res *worker.Result) (*env, error) {
	dir, err := os.MkdirTemp(tmpBase(), "c09-case-")
	if err != nil {
		return nil, err
	}
	st, err := oci.New(dir)
	if err != nil {
		os.RemoveAll(dir)
		return nil, err
	}
	liveMu.Lock()
	liveDirs[dir] = true
	liveMu.Unlock()
	return &env{g: g, dir: dir, st: st, m: newModel(g), res: res}, nil
}

func (e *env) close() {
	os.RemoveAll(e.dir)
	liveMu.Lock()
	delete(liveDirs, e.dir)
	liveMu.Unlock()
}

func blobRel(d digest.Digest) string { return d.Algorithm().String() + "/" + d.Encoded() }

func (e *env) witness(extra map[string]any) map[string]any {
	tags := map[string]int{}
	for r, n := range e.m.tags {
		tags[r] = n
	}
	w := map[string]any{
		"dag":              describe(e.g),
		"ops":              opsString(e.ops),
		"ops_detail":       e.ops,
		"tags_before_op":   tags,
		"stored_before":    sortedIDs(e.m.stored),
		"strays":           sortedKeys(e.m.strays),
		"failing_op_index": len(e.ops) - 1,
	}
	for k, v := range extra {
		w[k] = v
	}
	return w
}

func describe(g *gen.DAG) []string {
	var out []string
	for _, nd := range g.Nodes {
		s := fmt.Sprintf("%d:%s->%v", nd.ID, nd.Kind, nd.Succ)
		if nd.Subject >= 0 {
			s += fmt.Sprintf(" subject=%d", nd.Subject)
		}
		if nd.AbsentSubject != nil {
			s += " subject=absent"
		}
		if len(nd.Foreign) > 0 {
			s += fmt.Sprintf(" foreign=%d", len(nd.Foreign))
		}
		out = append(out, s)
	}
	return out
}

func sortedKeys(m map[string]bool) []string {
	out := []string{}
	for k, ok := range m {
		if ok {
			out = append(out, k)
		}
	}
	sort.Strings(out)
	return out
}

// ---- observation ------------------------------------------------------------

type obs struct {
	exists  map[int]bool
	tags    map[string]string       // named reference -> key of resolved descriptor ("" if Resolve failed)
	preds   map[int]map[string]bool // node -> keys of Predecessors(node)
	files   map[string]bool         // regular files below blobs/, relative, slash separated
	indexed map[string]bool         // digests listed in index.json
	errs    []string
}

func (e *env) observe() *obs {
	o := &obs{exists: map[int]bool{}, tags: map[string]string{}, preds: map[int]map[string]bool{}, files: map[string]bool{}, indexed: map[string]bool{}}
	for _, nd := range e.g.Nodes {
		ok, err := e.st.Exists(ctx, nd.Desc)
		if err != nil {
			o.errs = append(o.errs, fmt.Sprintf("Exists(%d): %v", nd.ID, err))
		}
		o.exists[nd.ID] = ok
		ps, err := e.st.Predecessors(ctx, nd.Desc)
		if err != nil {
			o.errs = append(o.errs, fmt.Sprintf("Predecessors(%d): %v", nd.ID, err))
		}
		set := map[string]bool{}
		for _, p := range ps {
			set[gen.Key(gen.Plain(p))] = true
		}
		o.preds[nd.ID] = set
	}
	err := e.st.Tags(ctx, "", func(tags []string) error {
		for _, t := range tags {
			if _, err := digest.Parse(t); err == nil {
				continue // digest entries of index.json are not tags
			}
			o.tags[t] = ""
		}
		return nil
	})
	if err != nil {
		o.errs = append(o.errs, "Tags: "+err.Error())
	}
	// references the model knows must be looked up even if Tags omits them
	for ref := range e.m.tags {
		if _, ok := o.tags[ref]; !ok {
			if d, err := e.st.Resolve(ctx, ref); err == nil {
				o.tags[ref] = "unlisted:" + gen.Key(gen.Plain(d))
			}
		}
	}
	for ref, v := range o.tags {
		if v != "" {
			continue
		}
		d, err := e.st.Resolve(ctx, ref)
		if err != nil {
			o.tags[ref] = "error:" + err.Error()
			continue
		}
		o.tags[ref] = gen.Key(gen.Plain(d))
	}
	blobs := filepath.Join(e.dir, "blobs")
	filepath.WalkDir(blobs, func(p string, d fs.DirEntry, err error) error {
		if err != nil {
			o.errs = append(o.errs, "walk: "+err.Error())
			return nil
		}
		if d.Type().IsRegular() {
			rel, _ := filepath.Rel(blobs, p)
			o.files[filepath.ToSlash(rel)] = true
		}
		return nil
	})
	if b, err := os.ReadFile(filepath.Join(e.dir, "index.json")); err == nil {
		var idx ocispec.Index
		if err := json.Unmarshal(b, &idx); err == nil {
			for _, d := range idx.Manifests {
				o.indexed[d.Digest.String()] = true
			}
		} else {
			o.errs = append(o.errs, "index.json: "+err.Error())
		}
	} else {
		o.errs = append(o.errs, "index.json: "+err.Error())
	}
	return o
}

// diffModel compares an observation with the model state; it returns a
// description of the first few differences.
func (e *env) diffModel(o *obs) []string {
	var d []string
	wantFiles := map[string]bool{}
	for _, nd := range e.g.Nodes {
		if e.m.stored[nd.ID] != o.exists[nd.ID] {
			d = append(d, fmt.Sprintf("node %d: Exists=%v, model stored=%v", nd.ID, o.exists[nd.ID], e.m.stored[nd.ID]))
		}
		if e.m.stored[nd.ID] {
			wantFiles[blobRel(nd.Desc.Digest)] = true
		}
	}
	for p, ok := range e.m.strays {
		if ok {
			wantFiles[p] = true
		}
	}
	for p := range wantFiles {
		if !o.files[p] {
			d = append(d, "file missing: blobs/"+p)
		}
	}
	for p := range o.files {
		if !wantFiles[p] {
			d = append(d, "unexpected file: blobs/"+p)
		}
	}
	for ref, n := range e.m.tags {
		if got := o.tags[ref]; got != e.wantTag(ref, n) {
			d = append(d, fmt.Sprintf("tag %q: resolves to %q, model says node %d", ref, got, n))
		}
	}
	for ref, got := range o.tags {
		if _, ok := e.m.tags[ref]; !ok {
			d = append(d, fmt.Sprintf("tag %q listed (%s) but not in model", ref, got))
		}
	}
	d = append(d, o.errs...)
	if len(d) > 8 {
		d = d[:8]
	}
	return d
}

// ---- applying operations ----------------------------------------------------

// apply executes one operation on the store and the model. Delete and GC are
// judged against the reference model when judge is set.
func (e *env) apply(o op, judge bool) {
	e.ops = append(e.ops, o)
	switch o.Op {
	case "push":
		nd := e.g.Nodes[o.Node]
		err := e.st.Push(ctx, nd.Desc, bytes.NewReader(nd.Bytes))
		if err != nil && !errors.Is(err, errdef.ErrAlreadyExists) {
			e.violate("setup-op-failed", fmt.Sprintf("Push(node %d): %v", o.Node, err), nil)
			return
		}
		e.m.stored[o.Node] = true
	case "tag":
		td := e.g.Nodes[o.Node].Desc
		if o.Via {
			if d, err := e.st.Resolve(ctx, td.Digest.String()); err == nil {
				td = d
				e.res.Count("tags_with_resolved_descriptor", 1)
				if d.MediaType != e.g.Nodes[o.Node].Desc.MediaType {
					e.res.Count("tags_with_resolved_descriptor_other_media_type", 1)
				}
			}
		}
		if err := e.st.Tag(ctx, td, o.Ref); err != nil {
			e.violate("setup-op-failed", fmt.Sprintf("Tag(node %d, %q): %v", o.Node, o.Ref, err), nil)
			return
		}
		e.m.tags[o.Ref] = o.Node
		e.m.tagKey[o.Ref] = gen.Key(gen.Plain(td))
		e.m.everTagged[o.Node] = true
	case "untag":
		if err := e.st.Untag(ctx, o.Ref); err != nil {
			e.violate("setup-op-failed", fmt.Sprintf("Untag(%q): %v", o.Ref, err), nil)
			return
		}
		delete(e.m.tags, o.Ref)
	case "stray":
		p := filepath.Join(e.dir, "blobs", filepath.FromSlash(o.Path))
		os.MkdirAll(filepath.Dir(p), 0o755)
		if err := os.WriteFile(p, []byte("stray "+o.Path), 0o644); err != nil {
			e.violate("harness:stray", err.Error(), nil)
			return
		}
		e.m.strays[o.Path] = true
	case "delete":
		e.doDelete(o, judge)
	case "gc":
		e.doGC(judge)
	case "gcfail":
		e.doGCFail(o, judge)
	case "deletefail":
		e.doDeleteFail(o, judge)
	}
}

// wantTag is what a reference must resolve to: the descriptor it was tagged with.
func (e *env) wantTag(ref string, n int) string {
	if k, ok := e.m.tagKey[ref]; ok {
		return k
	}
	return gen.Key(e.g.Nodes[n].Desc)
}

func (e *env) violate(key, what string, extra map[string]any) {
	e.res.Violate(key, what, e.witness(extra))
	e.stop = true
}

func (e *env) before() *obs {
	b := e.observe()
	if d := e.diffModel(b); len(d) > 0 {
		e.violate("pre-state-drift", "before "+e.ops[len(e.ops)-1].String()+" the store does not match the tracked history (Push/Tag/Untag misbehaved, or a harness bug): "+strings.Join(d, "; "), nil)
		return nil
	}
	return b
}

func (e *env) nodeName(n int) string { return fmt.Sprintf("%d(%s)", n, e.g.Nodes[n].Kind) }

func (e *env) names(ids []int) []string {
	out := []string{}
	for _, n := range ids {
		out = append(out, e.nodeName(n))
	}
	return out
}

// adjacentTagged: some tagged surviving node is linked (either direction) to a removed node.
func (e *env) adjacentTagged(removed map[int]bool) bool {
	tagged := e.m.taggedSet()
	for x := range removed {
		for _, p := range e.m.preds[x] {
			if tagged[p] && e.m.stored[p] && !removed[p] {
				return true
			}
		}
		for _, s := range e.g.Nodes[x].Succ {
			if tagged[s] && e.m.stored[s] && !removed[s] {
				return true
			}
		}
	}
	return false
}

func (e *env) doDelete(o op, judge bool) {
	t := o.Node
	var b *obs
	if judge {
		if b = e.before(); b == nil {
			return
		}
	}
	e.st.AutoGC = o.AutoGC
	err := e.st.Delete(ctx, e.g.Nodes[t].Desc)
	e.lastErr = err
	if !judge {
		// replay: follow what happened
		for _, nd := range e.g.Nodes {
			if ok, _ := e.st.Exists(ctx, nd.Desc); !ok && e.m.stored[nd.ID] {
				e.dropNode(nd.ID)
			}
		}
		return
	}
	a := e.observe()
	e.res.Count("deletes_judged", 1)

	if !e.m.stored[t] {
		// Deleting absent content: the statement only forbids collateral damage.
		e.res.Count("deletes_of_absent_target", 1)
		if d := e.diffModel(a); len(d) > 0 {
			e.violate("delete-absent-target-side-effect", fmt.Sprintf("Delete(node %s, not stored) returned %v and changed the store: %s", e.nodeName(t), err, strings.Join(d, "; ")), nil)
		}
		return
	}

	R, unjudged := e.m.deleteExpect(t, o.AutoGC, func(n int) bool { return a.exists[n] })
	extra := map[string]any{"target": e.nodeName(t), "autogc": o.AutoGC, "expected_removed": e.names(sortedIDs(R)), "unjudged": e.names(sortedIDs(unjudged))}
	var observedRemoved []int
	for n := range e.m.stored {
		if e.m.stored[n] && !a.exists[n] {
			observedRemoved = append(observedRemoved, n)
		}
	}
	sort.Ints(observedRemoved)
	extra["observed_removed"] = e.names(observedRemoved)

	// coverage of the shapes the property is about
	tagged := e.m.taggedSet()
	multiply := false
	if len(R) >= 2 {
		e.res.Count("deletes_with_cascade", 1)
	}
	e.res.MaxOf("max_cascade", int64(len(R)))
	for n := range R {
		for _, p := range e.m.storedPreds(n) {
			nd := e.g.Nodes[p]
			if tagged[p] && nd.Subject == n && !R[p] {
				e.res.Count("shape_delete_spares_tagged_referrer", 1)
			}
		}
		// a successor that is not stored but that the store learnt about when GC re-indexed n
		if e.gcSeen[n] {
			hit := len(e.g.Nodes[n].Foreign) > 0
			for _, s := range e.g.SuccSet(n) {
				if !e.m.stored[s] && !e.gcSeen[s] {
					hit = true
				}
			}
			if hit {
				e.res.Count("shape_delete_neverstored_successor_after_gc", 1)
			}
		}
		if n != t && e.m.everTagged[n] {
			e.res.Count("shape_delete_collects_formerly_tagged", 1)
		}
		// reached twice by the cascade: as an untagged referrer of removed
		// content and again as a node that loses its last predecessor
		if nd := e.g.Nodes[n]; n != t && !unjudged[n] && nd.Kind.IsManifestKind() && nd.Subject >= 0 && R[nd.Subject] && len(e.m.storedPreds(n)) > 0 {
			multiply = true
		}
	}
	if multiply {
		e.res.Count("shape_delete_multiply_reached", 1)
	}
	for n := range unjudged {
		if a.exists[n] {
			e.res.Count("unjudged_conflict_kept", 1)
		} else {
			e.res.Count("unjudged_conflict_removed", 1)
		}
	}

	if err != nil {
		key := "delete-error"
		if errors.Is(err, errdef.ErrNotFound) {
			key = "delete-absent-successor"
		}
		e.violate(key, fmt.Sprintf("Delete(%s, AutoGC=%v) of stored content returned %v; removed %v, the statement demands %v", e.nodeName(t), o.AutoGC, err, e.names(observedRemoved), e.names(sortedIDs(R))), extra)
		return
	}
	if len(a.errs) > 0 {
		e.violate("delete-store-unreadable", "after Delete: "+strings.Join(a.errs, "; "), extra)
		return
	}
	// nodes: every mismatch is collected, the most specific one is reported
	type cand struct {
		prio      int
		key, what string
	}
	var best *cand
	offer := func(prio int, key, what string) {
		if best == nil || prio < best.prio {
			best = &cand{prio, key, what}
		}
	}
	for _, nd := range e.g.Nodes {
		n := nd.ID
		if !e.m.stored[n] {
			if a.exists[n] {
				offer(0, "delete-created-node", fmt.Sprintf("node %s appeared during Delete", e.nodeName(n)))
			}
			continue
		}
		switch {
		case R[n] && a.exists[n]:
			what := fmt.Sprintf("Delete(%s, AutoGC=%v): node %s is untagged garbage after the deletion (it lost its subject / last predecessor) but is still present", e.nodeName(t), o.AutoGC, e.nodeName(n))
			switch {
			case n == t:
				offer(0, "delete-target-still-present", fmt.Sprintf("Delete(%s) returned nil but the content is still present", e.nodeName(t)))
			case e.m.keyLost[n]:
				offer(1, "delete-leaves-garbage:tagged-under-other-media-type-at-gc", what+" (at the last GC it was kept only by a tag placed with the descriptor Resolve(<digest>) returns, whose media type differs from the one its parents use: the rebuilt graph knows it under that media type only)")
			case e.m.everTagged[n]:
				offer(1, "stale-tag-set", what+" (it carried a tag earlier in the history; the tag was moved or removed since)")
			default:
				offer(4, "delete-leaves-garbage", what)
			}
		case !R[n] && !a.exists[n]:
			survivingPred := -1
			for _, p := range e.m.storedPreds(n) {
				if a.exists[p] {
					survivingPred = p
				}
			}
			pre := fmt.Sprintf("Delete(%s, AutoGC=%v) removed node %s, ", e.nodeName(t), o.AutoGC, e.nodeName(n))
			switch {
			case tagged[n] && nd.Subject >= 0 && !a.exists[nd.Subject]:
				offer(0, "delete-removes-tagged-referrer", pre+"which carries a tag (tagged referrer of removed content)")
			case tagged[n]:
				offer(1, "delete-removes-tagged-node", pre+"which carries a tag")
			case survivingPred >= 0:
				offer(2, "delete-removes-linked-node", pre+fmt.Sprintf("which surviving node %s still links to", e.nodeName(survivingPred)))
			default:
				offer(5, "delete-removes-unrelated-node", pre+"which is neither the target, nor an untagged referrer of removed content, nor a node that lost its last predecessor")
			}
		}
	}
	if best != nil {
		e.violate(best.key, best.what, extra)
		return
	}
	// tags
	for ref, n := range e.m.tags {
		got, listed := a.tags[ref]
		if R[n] {
			if listed {
				e.violate("delete-leaves-tag", fmt.Sprintf("tag %q pointed at removed node %s and still resolves (%s)", ref, e.nodeName(n), got), extra)
				return
			}
			continue
		}
		if got != e.wantTag(ref, n) {
			e.violate("delete-removes-other-tag", fmt.Sprintf("Delete(%s): tag %q of surviving node %s now gives %q", e.nodeName(t), ref, e.nodeName(n), got), extra)
			return
		}
	}
	for ref, got := range a.tags {
		if _, ok := e.m.tags[ref]; !ok {
			e.violate("delete-created-tag", fmt.Sprintf("tag %q (%s) appeared during Delete", ref, got), extra)
			return
		}
	}
	// files
	for p := range b.files {
		gone := !a.files[p]
		mustGo := false
		for n := range R {
			if blobRel(e.g.Nodes[n].Desc.Digest) == p {
				mustGo = true
			}
		}
		if gone != mustGo {
			e.violate("delete-files-mismatch", fmt.Sprintf("Delete(%s): file blobs/%s removed=%v, expected removed=%v", e.nodeName(t), p, gone, mustGo), extra)
			return
		}
	}
	for p := range a.files {
		if !b.files[p] {
			e.violate("delete-files-mismatch", fmt.Sprintf("Delete(%s): new file blobs/%s", e.nodeName(t), p), extra)
			return
		}
	}
	// predecessor relations of everything that was not removed: unchanged, minus the removed nodes
	removedKeys := map[string]bool{}
	for n := range R {
		removedKeys[gen.Key(e.g.Nodes[n].Desc)] = true
	}
	for _, nd := range e.g.Nodes {
		if R[nd.ID] {
			continue
		}
		want := map[string]bool{}
		for k := range b.preds[nd.ID] {
			if !removedKeys[k] {
				want[k] = true
			}
		}
		if !sameSet(want, a.preds[nd.ID]) {
			e.violate("delete-predecessors-changed", fmt.Sprintf("Delete(%s): Predecessors(%s) was %v, is %v, expected %v", e.nodeName(t), e.nodeName(nd.ID), short(b.preds[nd.ID]), short(a.preds[nd.ID]), short(want)), extra)
			return
		}
		e.res.Count("predecessor_comparisons", 1)
	}

	if len(R) >= 2 || e.adjacentTagged(R) {
		e.nt = true
		e.res.Count("nontrivial_operations", 1)
	}
	e.res.Count("removed_nodes", int64(len(R)))
	for n := range R {
		e.dropNode(n)
	}
	if multiply && !e.probe {
		// which of the two routes reaches the node first is a map iteration
		// order inside the library: the same history must end the same way
		e.replayProbe("delete", a, extra)
	}
}

// deleteFailTargets lists (target, victim) pairs for a Delete whose AutoGC
// cascade is made to fail part-way: target is a stored manifest, victim a
// stored non-manifest node that the model's cascade collects; cascades with an
// unjudged node are left out so that the expected set is exact.
func (e *env) deleteFailTargets() [][2]int {
	var out [][2]int
	for _, nd := range e.g.Nodes {
		t := nd.ID
		if !e.m.stored[t] || !nd.Kind.IsManifestKind() {
			continue
		}
		R, unjudged := e.m.deleteExpect(t, true, func(int) bool { return false })
		if len(unjudged) > 0 {
			continue
		}
		for _, v := range sortedIDs(R) {
			if v != t && !e.g.Nodes[v].Kind.IsManifestKind() && len(e.g.Nodes[v].Bytes) > 0 && !e.m.keyLost[v] {
				out = append(out, [2]int{t, v})
			}
		}
	}
	return out
}

// doDeleteFail: Delete(target) with AutoGC while the blob file of one
// collected successor has been replaced by a non-empty directory, so that its
// removal fails after the target (and possibly more) is already gone. Whatever
// Delete answers: (i) in memory, exactly the nodes that really went are gone
// together with their tags, nothing outside the model's cascade went, every
// other tag and predecessor relation is intact; (ii) on disk, index.json and a
// store opened from the directory name no content that is gone, have lost the
// references of the removed nodes and kept all others. Terminal step of a case.
func (e *env) doDeleteFail(o op, judge bool) {
	t, v := o.Node, o.Victim
	if !judge {
		return
	}
	b := e.before()
	if b == nil {
		return
	}
	R, _ := e.m.deleteExpect(t, true, func(int) bool { return false })
	p := filepath.Join(e.dir, "blobs", filepath.FromSlash(blobRel(e.g.Nodes[v].Desc.Digest)))
	orig, rerr := os.ReadFile(p)
	fi, serr := os.Stat(p)
	if rerr != nil || serr != nil {
		e.violate("harness:deletefail", fmt.Sprintf("cannot read blob of node %d: %v %v", v, rerr, serr), nil)
		return
	}
	os.Remove(p)
	if err := os.MkdirAll(filepath.Join(p, "d"), 0o755); err != nil {
		e.violate("harness:deletefail", err.Error(), nil)
		return
	}
	e.st.AutoGC = true
	err := e.st.Delete(ctx, e.g.Nodes[t].Desc)
	e.lastErr = err
	os.RemoveAll(p)
	os.WriteFile(p, orig, fi.Mode().Perm())
	a := e.observe()
	e.res.Count("delete_failed_injected", 1)
	extra := map[string]any{"target": e.nodeName(t), "unremovable": e.nodeName(v), "delete_error": fmt.Sprint(err), "model_cascade": e.names(sortedIDs(R))}
	gone := map[int]bool{}
	for n, ok := range e.m.stored {
		if ok && !a.exists[n] {
			gone[n] = true
		}
	}
	extra["really_removed"] = e.names(sortedIDs(gone))
	if err == nil {
		key := "delete-leaves-garbage"
		if e.m.keyLost[v] {
			key = "delete-leaves-garbage:tagged-under-other-media-type-at-gc"
		}
		e.violate(key, fmt.Sprintf("Delete(%s, AutoGC) returned nil although the blob of %s, which the cascade must collect, could not be removed (the cascade never tried)", e.nodeName(t), e.nodeName(v)), extra)
		return
	}
	e.res.Count("delete_failed_nodes_removed_before_failure", int64(len(gone)))
	// (i) in memory
	for n := range gone {
		if !R[n] {
			e.violate("delete-removes-unrelated-node", fmt.Sprintf("failing Delete(%s, AutoGC) removed node %s, which is outside the cascade", e.nodeName(t), e.nodeName(n)), extra)
			return
		}
	}
	for _, nd := range e.g.Nodes {
		if !e.m.stored[nd.ID] && a.exists[nd.ID] {
			e.violate("delete-created-node", fmt.Sprintf("node %s appeared during a failing Delete", e.nodeName(nd.ID)), extra)
			return
		}
	}
	for ref, n := range e.m.tags {
		got, listed := a.tags[ref]
		if gone[n] {
			if listed {
				e.violate("delete-leaves-tag", fmt.Sprintf("failing Delete(%s): tag %q pointed at removed node %s and still resolves (%s)", e.nodeName(t), ref, e.nodeName(n), got), extra)
				return
			}
			continue
		}
		if got != e.wantTag(ref, n) {
			e.violate("delete-removes-other-tag", fmt.Sprintf("failing Delete(%s): tag %q of surviving node %s now gives %q", e.nodeName(t), ref, e.nodeName(n), got), extra)
			return
		}
	}
	for ref, got := range a.tags {
		if _, ok := e.m.tags[ref]; !ok {
			e.violate("delete-created-tag", fmt.Sprintf("tag %q (%s) appeared during a failing Delete", ref, got), extra)
			return
		}
	}
	want := map[string]bool{}
	for f := range b.files {
		want[f] = true
	}
	goneKeys := map[string]bool{}
	for n := range gone {
		delete(want, blobRel(e.g.Nodes[n].Desc.Digest))
		goneKeys[gen.Key(e.g.Nodes[n].Desc)] = true
	}
	if !sameSet(want, a.files) {
		e.violate("delete-files-mismatch", fmt.Sprintf("failing Delete(%s): blobs/ holds %d files, expected %d (before minus the removed nodes)", e.nodeName(t), len(a.files), len(want)), extra)
		return
	}
	for _, nd := range e.g.Nodes {
		if gone[nd.ID] {
			continue
		}
		wp := map[string]bool{}
		for k := range b.preds[nd.ID] {
			if !goneKeys[k] {
				wp[k] = true
			}
		}
		if !sameSet(wp, a.preds[nd.ID]) {
			e.violate("delete-predecessors-changed", fmt.Sprintf("failing Delete(%s): Predecessors(%s) was %v, is %v, expected %v", e.nodeName(t), e.nodeName(nd.ID), short(b.preds[nd.ID]), short(a.preds[nd.ID]), short(wp)), extra)
			return
		}
	}
	// (ii) on disk: index.json, and a store opened from the directory
	var idx ocispec.Index
	if bs, rerr := os.ReadFile(filepath.Join(e.dir, "index.json")); rerr != nil || json.Unmarshal(bs, &idx) != nil {
		e.violate("delete-index-unreadable", fmt.Sprintf("index.json after a failing Delete: %v", rerr), extra)
		return
	}
	refsOnDisk := map[string]string{}
	for _, d := range idx.Manifests {
		if !a.files[blobRel(d.Digest)] {
			e.violate("delete-index-names-removed-content", fmt.Sprintf("after Delete(%s) failed part-way (%v), index.json still lists %s (ref %q), whose content was removed", e.nodeName(t), err, d.Digest, d.Annotations[ocispec.AnnotationRefName]), extra)
			return
		}
		if r := d.Annotations[ocispec.AnnotationRefName]; r != "" {
			refsOnDisk[r] = gen.Key(gen.Plain(d))
		}
	}
	ro, oerr := oci.NewFromFS(ctx, os.DirFS(e.dir))
	if oerr != nil {
		e.violate("delete-layout-unreadable", fmt.Sprintf("the layout cannot be opened after a failing Delete: %v", oerr), extra)
		return
	}
	for ref, n := range e.m.tags {
		d, rerr := ro.Resolve(ctx, ref)
		if gone[n] {
			if _, on := refsOnDisk[ref]; on || rerr == nil {
				e.violate("delete-index-names-removed-content", fmt.Sprintf("after Delete(%s) failed part-way, tag %q of removed node %s is still in index.json / resolves in a reopened store", e.nodeName(t), ref, e.nodeName(n)), extra)
				return
			}
			continue
		}
		if rerr != nil || gen.Key(gen.Plain(d)) != e.wantTag(ref, n) || refsOnDisk[ref] != e.wantTag(ref, n) {
			e.violate("delete-index-lost-other-tag", fmt.Sprintf("after Delete(%s) failed part-way, tag %q of surviving node %s is missing or wrong on disk (index.json %q, reopened: %v)", e.nodeName(t), ref, e.nodeName(n), refsOnDisk[ref], rerr), extra)
			return
		}
	}
	for ref := range refsOnDisk {
		if _, ok := e.m.tags[ref]; !ok {
			e.violate("delete-created-tag", fmt.Sprintf("index.json has tag %q after a failing Delete", ref), extra)
			return
		}
	}
	e.res.Count("delete_failed_disk_checks", 1)
	if len(gone) >= 2 || e.adjacentTagged(gone) {
		e.nt = true
		e.res.Count("nontrivial_operations", 1)
	}
	for n := range gone {
		e.dropNode(n)
	}
}

// markKeyLost runs after a successful GC. GC rebuilds the in-memory graph from
// the tagged descriptors; a node that is kept only because of a tag placed
// with a descriptor of another media type (Resolve(<digest>) of a plain blob)
// is then known to the graph under that media type only. The mark is used for
// naming a violation, never for a verdict.
func (e *env) markKeyLost() {
	e.m.keyLost = map[int]bool{}
	for ref, n := range e.m.tags {
		if !e.m.stored[n] || e.m.tagKey[ref] == "" || e.m.tagKey[ref] == gen.Key(e.g.Nodes[n].Desc) {
			continue
		}
		kept := false
		for _, p := range e.m.storedPreds(n) {
			if e.m.stored[p] {
				kept = true
			}
		}
		for r2, n2 := range e.m.tags {
			if n2 == n && e.m.tagKey[r2] == gen.Key(e.g.Nodes[n].Desc) {
				kept = true
			}
		}
		if !kept {
			e.m.keyLost[n] = true
		}
	}
}

// dropNode removes a node and the tags pointing at it from the model.
func (e *env) dropNode(n int) {
	e.m.stored[n] = false
	delete(e.m.keyLost, n)
	for ref, t := range e.m.tags {
		if t == n {
			delete(e.m.tags, ref)
		}
	}
}

func strayClass(p string) string {
	i := strings.Index(p, "/")
	if i < 0 {
		return "top-level-file"
	}
	alg, name := p[:i], p[i+1:]
	switch alg {
	case "sha256", "sha384", "sha512":
		if digest.NewDigestFromEncoded(digest.Algorithm(alg), name).Validate() == nil {
			return "digest-named-" + alg
		}
		if strings.Contains(name, "/") {
			return "nested-in-" + alg
		}
		return "non-digest-name-in-" + alg
	}
	return "unknown-algorithm-dir"
}

// strayIsBlobFile: a file that has the name of a blob of a known algorithm
// (and is therefore an unreachable blob file for GC).
func strayIsBlobFile(p string) bool { return strings.HasPrefix(strayClass(p), "digest-named-") }

// runGC calls GC under the termination monitor.
func (e *env) runGC() (err error, steps int64, maxKey int) {
	hook.mu.Lock()
	hook.counts = map[string]int{}
	hook.maxKey = 0
	// each round of the referrer pass walks one manifest's subject chain at most
	// once: ≤ manifests steps per walk, ≤ manifests+1 rounds
	hook.bound = (e.m.storedManifests() + 1) * (e.m.storedManifests() + 1)
	before := hook.total
	hook.witness = func() string {
		bs, _ := json.Marshal(map[string]any{"dag": describe(e.g), "ops": opsString(e.ops), "tags": e.m.tags, "stored": sortedIDs(e.m.stored)})
		return string(bs)
	}
	hook.mu.Unlock()
	err = e.st.GC(ctx)
	e.lastErr = err
	hook.mu.Lock()
	hook.bound = 0
	steps = hook.total - before
	maxKey = hook.maxKey
	hook.mu.Unlock()
	return
}

// gcFailCandidates: stored manifests GC is certain to read (reachable from a tag).
func (e *env) gcFailCandidates() []int {
	var out []int
	k0 := e.m.closure(e.m.taggedSet())
	for _, nd := range e.g.Nodes {
		if k0[nd.ID] && nd.Kind.IsManifestKind() {
			out = append(out, nd.ID)
		}
	}
	return out
}

// doGCFail runs GC while the blob of a reachable manifest is corrupt on disk
// (same size, other bytes), then restores the blob. A GC that reports failure
// must not have removed anything reachable nor changed any tag or predecessor
// relation (the statement's "leaving every reachable node, tag and predecessor
// relation intact" holds for every GC call), and the operations that follow
// are judged against the unchanged model.
func (e *env) doGCFail(o op, judge bool) {
	var b *obs
	if judge {
		if b = e.before(); b == nil {
			return
		}
	}
	p := filepath.Join(e.dir, "blobs", filepath.FromSlash(blobRel(e.g.Nodes[o.Node].Desc.Digest)))
	orig, rerr := os.ReadFile(p)
	fi, serr := os.Stat(p)
	if rerr != nil || serr != nil || len(orig) == 0 {
		e.violate("harness:gcfail", fmt.Sprintf("cannot read blob of node %d: %v %v", o.Node, rerr, serr), nil)
		return
	}
	bad := append([]byte{}, orig...)
	bad[0] ^= 0x5a
	os.Chmod(p, 0o644)
	if err := os.WriteFile(p, bad, 0o644); err != nil {
		e.violate("harness:gcfail", err.Error(), nil)
		return
	}
	err, _, _ := e.runGC()
	_, goneErr := os.Stat(p)
	os.WriteFile(p, orig, 0o644)
	os.Chmod(p, fi.Mode().Perm())
	if !judge {
		for _, nd := range e.g.Nodes {
			if ok, _ := e.st.Exists(ctx, nd.Desc); !ok && e.m.stored[nd.ID] {
				e.dropNode(nd.ID)
			}
		}
		return
	}
	extra := map[string]any{"corrupted": e.nodeName(o.Node), "gc_error": fmt.Sprint(err)}
	if goneErr != nil {
		e.violate("gc-removes-reachable", fmt.Sprintf("GC (run while the blob of %s was corrupt) removed that blob, which is reachable from a tagged node", e.nodeName(o.Node)), extra)
		return
	}
	a := e.observe()
	if err == nil {
		// GC did not notice: not judged here; follow what happened
		e.res.Count("gc_failed_injection_unnoticed", 1)
		for _, nd := range e.g.Nodes {
			if !a.exists[nd.ID] && e.m.stored[nd.ID] {
				e.dropNode(nd.ID)
			}
		}
		for sp := range e.m.strays {
			if !a.files[sp] {
				delete(e.m.strays, sp)
			}
		}
		return
	}
	e.res.Count("gc_failed_injected", 1)
	// nothing reachable may be gone, no tag and no predecessor relation may have changed;
	// unreachable blob files may or may not have been swept before the failure
	kmin, kmax := e.m.gcExpect(b.indexed)
	_ = kmin
	for _, nd := range e.g.Nodes {
		n := nd.ID
		if e.m.stored[n] && kmax[n] && !a.exists[n] {
			e.violate("gc-removes-reachable", fmt.Sprintf("a failing GC (%v) removed reachable node %s", err, e.nodeName(n)), extra)
			return
		}
		if !e.m.stored[n] && a.exists[n] {
			e.violate("gc-created-node", fmt.Sprintf("node %s appeared during a failing GC", e.nodeName(n)), extra)
			return
		}
	}
	for ref, n := range e.m.tags {
		if got := a.tags[ref]; got != e.wantTag(ref, n) {
			e.violate("gc-tags-changed", fmt.Sprintf("failing GC (%v): tag %q of node %s now gives %q", err, ref, e.nodeName(n), got), extra)
			return
		}
	}
	for ref, got := range a.tags {
		if _, ok := e.m.tags[ref]; !ok {
			e.violate("gc-tags-changed", fmt.Sprintf("failing GC: tag %q (%s) appeared", ref, got), extra)
			return
		}
	}
	keptKeys := map[string]bool{}
	for _, nd := range e.g.Nodes {
		if a.exists[nd.ID] {
			keptKeys[gen.Key(nd.Desc)] = true
		}
	}
	for _, nd := range e.g.Nodes {
		if !a.exists[nd.ID] {
			continue
		}
		want := map[string]bool{}
		for k := range b.preds[nd.ID] {
			if keptKeys[k] {
				want[k] = true
			}
		}
		if !sameSet(want, a.preds[nd.ID]) {
			e.violate("gc-failed-predecessors-changed", fmt.Sprintf("a failing GC (%v) changed Predecessors(%s): was %v, is %v", err, e.nodeName(nd.ID), short(b.preds[nd.ID]), short(a.preds[nd.ID])), extra)
			return
		}
	}
	// follow the (permitted) partial sweep of unreachable files
	for _, nd := range e.g.Nodes {
		if e.m.stored[nd.ID] && !a.exists[nd.ID] {
			e.dropNode(nd.ID)
		}
	}
	for sp := range e.m.strays {
		if !a.files[sp] {
			if !strayIsBlobFile(sp) {
				e.violate("gc-removes-nonblob-file", fmt.Sprintf("a failing GC removed blobs/%s", sp), extra)
				return
			}
			delete(e.m.strays, sp)
		}
	}
}

func (e *env) doGC(judge bool) {
	var b *obs
	if judge {
		if b = e.before(); b == nil {
			return
		}
	}
	err, steps, maxKey := e.runGC()
	defer func() {
		e.gcSeen = map[int]bool{}
		for n, ok := range e.m.stored {
			if ok {
				e.gcSeen[n] = true
			}
		}
		if err == nil {
			e.markKeyLost()
		}
	}()
	if !judge {
		for _, nd := range e.g.Nodes {
			if ok, _ := e.st.Exists(ctx, nd.Desc); !ok && e.m.stored[nd.ID] {
				e.dropNode(nd.ID)
			}
		}
		for p := range e.m.strays {
			if _, err := os.Stat(filepath.Join(e.dir, "blobs", filepath.FromSlash(p))); err != nil {
				delete(e.m.strays, p)
			}
		}
		return
	}
	a := e.observe()
	e.res.Count("gcs_judged", 1)
	e.res.Count("gc_subject_steps", steps)
	e.res.MaxOf("max_subject_steps_per_manifest", int64(maxKey))

	// the recursive reading of "reachable" is the specification: K = Kmax exactly.
	// secondOrder = nodes reachable only through another kept referrer (the
	// shape whose fate once depended on map iteration order).
	k1, kmax := e.m.gcExpect(b.indexed)
	kmin := kmax
	ambiguous := map[int]bool{}
	for n := range kmax {
		if !k1[n] {
			ambiguous[n] = true
		}
	}
	var observedRemoved, expectedRemoved []int
	for n := range e.m.stored {
		if !e.m.stored[n] {
			continue
		}
		if !a.exists[n] {
			observedRemoved = append(observedRemoved, n)
		}
		if !kmax[n] {
			expectedRemoved = append(expectedRemoved, n)
		}
	}
	sort.Ints(observedRemoved)
	sort.Ints(expectedRemoved)
	extra := map[string]any{"expected_removed": e.names(expectedRemoved), "observed_removed": e.names(observedRemoved),
		"reachable_only_through_another_kept_referrer": e.names(sortedIDs(ambiguous))}

	// shape coverage: an indexed untagged manifest with a subject whose chain reaches nothing kept
	tagged := e.m.taggedSet()
	k0 := e.m.closure(tagged)
	for _, nd := range e.g.Nodes {
		if e.m.stored[nd.ID] && !tagged[nd.ID] && nd.Kind.IsManifestKind() && b.indexed[nd.Desc.Digest.String()] && !kmax[nd.ID] {
			if nd.Subject >= 0 && e.m.stored[nd.Subject] {
				e.res.Count("shape_gc_referrer_of_unreachable_subject", 1)
			}
			if nd.AbsentSubject != nil || (nd.Subject >= 0 && !e.m.stored[nd.Subject]) {
				e.res.Count("shape_gc_referrer_of_missing_subject", 1)
			}
		}
		if e.m.stored[nd.ID] && !tagged[nd.ID] && nd.Subject >= 0 && kmax[nd.ID] && !k0[nd.ID] {
			e.res.Count("shape_gc_referrer_kept_by_chain", 1)
		}
	}
	if len(ambiguous) > 0 {
		e.res.Count("shape_gc_second_order_referrer", 1)
	}

	if err != nil {
		e.violate("gc-error", fmt.Sprintf("GC returned %v", err), extra)
		return
	}
	if len(a.errs) > 0 {
		e.violate("gc-store-unreadable", "after GC: "+strings.Join(a.errs, "; "), extra)
		return
	}
	for _, nd := range e.g.Nodes {
		n := nd.ID
		if !e.m.stored[n] {
			if a.exists[n] {
				e.violate("gc-created-node", fmt.Sprintf("node %s appeared during GC", e.nodeName(n)), extra)
				return
			}
			continue
		}
		if kmin[n] && !a.exists[n] {
			why := "reachable from a tagged node"
			if !k0[n] {
				why = "reachable from an indexed referrer whose subject chain ends in a reachable manifest"
			}
			if ambiguous[n] {
				why += " (reachable only through another kept referrer)"
			}
			e.violate("gc-removes-reachable", fmt.Sprintf("GC removed node %s, which is %s", e.nodeName(n), why), extra)
			return
		}
		if !kmax[n] && a.exists[n] {
			e.violate("gc-leaves-garbage", fmt.Sprintf("GC left node %s, which is not reachable from any tagged node or indexed referrer chain", e.nodeName(n)), extra)
			return
		}
	}
	// whatever was kept must be closed under (stored) successors
	for _, nd := range e.g.Nodes {
		if !e.m.stored[nd.ID] || !a.exists[nd.ID] {
			continue
		}
		for _, s := range nd.Succ {
			if e.m.stored[s] && !a.exists[s] {
				e.violate("gc-broke-link", fmt.Sprintf("GC kept %s but removed its successor %s", e.nodeName(nd.ID), e.nodeName(s)), extra)
				return
			}
		}
	}
	// tags: all intact (a tagged node is reachable by definition)
	for ref, n := range e.m.tags {
		if got := a.tags[ref]; got != e.wantTag(ref, n) {
			e.violate("gc-tags-changed", fmt.Sprintf("GC: tag %q of node %s now gives %q", ref, e.nodeName(n), got), extra)
			return
		}
	}
	for ref, got := range a.tags {
		if _, ok := e.m.tags[ref]; !ok {
			e.violate("gc-tags-changed", fmt.Sprintf("GC: tag %q (%s) appeared", ref, got), extra)
			return
		}
	}
	// files
	nodeOf := map[string]int{}
	for _, nd := range e.g.Nodes {
		if e.m.stored[nd.ID] {
			nodeOf[blobRel(nd.Desc.Digest)] = nd.ID
		}
	}
	for p := range b.files {
		gone := !a.files[p]
		if n, ok := nodeOf[p]; ok {
			if gone == a.exists[n] {
				e.violate("gc-files-mismatch", fmt.Sprintf("GC: Exists(%s)=%v but file blobs/%s removed=%v", e.nodeName(n), a.exists[n], p, gone), extra)
				return
			}
			continue
		}
		// a stray file
		if strayIsBlobFile(p) {
			if !gone {
				e.violate("gc-leaves-garbage", fmt.Sprintf("GC left the unreachable blob file blobs/%s (%s)", p, strayClass(p)), extra)
				return
			}
			e.res.Count("stray_blob_files_removed", 1)
			e.res.Observe("stray_classes", strayClass(p)+":removed")
			delete(e.m.strays, p)
		} else {
			if gone {
				e.violate("gc-removes-nonblob-file", fmt.Sprintf("GC removed blobs/%s (%s), which is not a blob file of a known algorithm", p, strayClass(p)), extra)
				return
			}
			e.res.Count("stray_other_files_kept", 1)
			e.res.Observe("stray_classes", strayClass(p)+":kept")
		}
	}
	for p := range a.files {
		if !b.files[p] {
			e.violate("gc-files-mismatch", fmt.Sprintf("GC: new file blobs/%s", p), extra)
			return
		}
	}
	// predecessor relations among what was kept
	keptKeys := map[string]bool{}
	for _, nd := range e.g.Nodes {
		if a.exists[nd.ID] {
			keptKeys[gen.Key(nd.Desc)] = true
		}
	}
	for _, nd := range e.g.Nodes {
		if !a.exists[nd.ID] {
			continue
		}
		want := map[string]bool{}
		for k := range b.preds[nd.ID] {
			if keptKeys[k] {
				want[k] = true
			}
		}
		if !sameSet(want, a.preds[nd.ID]) {
			e.violate("gc-predecessors-changed", fmt.Sprintf("GC: Predecessors(%s) was %v, is %v, expected %v", e.nodeName(nd.ID), short(b.preds[nd.ID]), short(a.preds[nd.ID]), short(want)), extra)
			return
		}
		e.res.Count("predecessor_comparisons", 1)
	}

	removed := map[int]bool{}
	for _, n := range observedRemoved {
		removed[n] = true
	}
	if len(removed) >= 2 || e.adjacentTagged(removed) {
		e.nt = true
		e.res.Count("nontrivial_operations", 1)
	}
	e.res.Count("removed_nodes", int64(len(removed)))
	for n := range removed {
		e.dropNode(n)
	}
	if len(ambiguous) > 0 && !e.probe {
		e.replayProbe("gc", a, extra)
	}
}

// replayProbe re-executes the whole history (ending in the GC / Delete just judged) on
// fresh stores and compares the resulting blobs/ listings: the same history
// must give the same result whatever order the library happens to visit its
// maps in.
func (e *env) replayProbe(kind string, a *obs, extra map[string]any) {
	ops := append([]op{}, e.ops...)
	for k := 0; k < orderProbes; k++ {
		r, err := newEnv(e.g, &worker.Result{})
		if err != nil {
			return
		}
		r.probe = true
		for _, o := range ops {
			r.apply(o, false)
		}
		files := r.observe().files
		lastErr := r.lastErr
		r.close()
		e.res.Count(kind+"_order_probe_replays", 1)
		if kind == "delete" && lastErr != nil {
			x := map[string]any{"replay": k, "error_in_replay": lastErr.Error()}
			for kk, v := range extra {
				x[kk] = v
			}
			key := "delete-error"
			if errors.Is(lastErr, errdef.ErrNotFound) {
				key = "delete-absent-successor"
			}
			e.violate(key, fmt.Sprintf("the same history replayed on a fresh store: the final Delete (cascade reaches a manifest twice) returned %v although it returned nil in the first run", lastErr), x)
			return
		}
		if !sameSet(files, a.files) {
			var onlyA, onlyB []string
			for p := range a.files {
				if !files[p] {
					onlyA = append(onlyA, p)
				}
			}
			for p := range files {
				if !a.files[p] {
					onlyB = append(onlyB, p)
				}
			}
			x := map[string]any{"files_only_in_first_run": onlyA, "files_only_in_replay": onlyB, "replay": k}
			for kk, v := range extra {
				x[kk] = v
			}
			names := []string{}
			for _, nd := range e.g.Nodes {
				for _, p := range append(onlyA, onlyB...) {
					if blobRel(nd.Desc.Digest) == p {
						names = append(names, e.nodeName(nd.ID))
					}
				}
			}
			e.violate(kind+"-order-dependent", fmt.Sprintf("the same history run twice ends with different blobs/ contents after the final %s (nodes %v survive in one run and not in the other)", kind, names), x)
			return
		}
	}
}

func sameSet(a, b map[string]bool) bool {
	if len(a) != len(b) {
		return false
	}
	for k := range a {
		if !b[k] {
			return false
		}
	}
	return true
}

func short(m map[string]bool) []string {
	out := []string{}
	for k := range m {
		parts := strings.Split(k, "|")
		if len(parts) == 3 && len(parts[1]) > 19 {
			out = append(out, parts[1][7:19])
		} else {
			out = append(out, k)
		}
	}
	sort.Strings(out)
	return out
}
