// C09 — OCI Delete / auto-GC / GC remove exactly the garbage, keep live data, terminate.
//
// Monitor: random and small-exhaustive histories of Push / Tag (incl. moved
// tags, tagged referrers, tagged blobs) / Untag / stray files / Delete / GC are
// executed on a real oci.Store inside worker processes. Around every Delete and
// GC the store is observed through Exists, Resolve, Tags, Predecessors, the
// recursive listing of blobs/ and index.json, and the difference is compared
// with a reference garbage-collection model written from the property
// statement (model.go). Termination of GC is decided logically: a handler on
// the hook oci.gcIndex.subjectStep aborts the worker when one manifest's
// subject chain is walked for more steps than the number of manifests in the
// store allows ((manifests+1)² hits per manifest: one walk per round of the
// referrer pass); a CPU-time bound of 30 s per case is the backstop.
package main

import (
	"context"
	_ "crypto/sha256"
	_ "crypto/sha512"
	"encoding/json"
	"fmt"
	"math/rand/v2"
	"os"
	"runtime/pprof"
	"sort"
	"strconv"
	"strings"
	"sync/atomic"
	"syscall"
	"time"

	"github.com/opencontainers/go-digest"
	"github.com/opencontainers/image-spec/specs-go"
	ocispec "github.com/opencontainers/image-spec/specs-go/v1"
	"oras.land/oras-go/v2/verifharness/evidence"
	"oras.land/oras-go/v2/verifharness/gen"
	"oras.land/oras-go/v2/verifharness/worker"
)

var ctx = context.Background()

const (
	cpuMarker   = "C09-CPU-BOUND"
	cpuBound    = 30 * time.Second
	maxNodes    = 80
	orderProbes = 8
)

func main() {
	if worker.IsWorker() {
		installHook()
		go cpuWatchdog()
		worker.Serve(runCase)
		return
	}
	r := evidence.New("C09", "exploration")
	r.Rule("phase small: seeded DAG of ≤ ~14 nodes (referrer chains incl. referrers of untagged / absent / garbage subjects, indexes with and without subject, shared blobs, foreign layers) + a setup history H of pushes (children-first | parents-first | random | partial), tags (moved tags, tagged referrers, tagged blobs), untags and stray files; " +
		"then EVERY node is tried as Delete target (AutoGC on and off, and once more after a GC) and GC is run after EVERY prefix of H, each on a freshly rebuilt store (one evaluation each); plus a GC made to fail by a corrupt reachable manifest (must change nothing reachable), followed by Deletes. " +
		"A Delete with AutoGC whose cascade fails part-way (the blob file of a collected successor replaced by a non-empty directory) is judged in memory against the model restricted to what really went, and on disk (index.json and a store opened from the directory must not name removed content and must have lost exactly the references of the removed nodes). " +
		"A Delete whose cascade reaches a manifest twice (referrer of removed content that is also listed by a collected index) and a GC with second-order referrers are replayed 8 times on fresh stores (library map order) and must end identically. " +
		"phase hist: DAG of ≤ 80 nodes, push phase, then 6–25 random operations (tag/move/untag/delete/GC/re-push/stray), every Delete and GC judged in place. " +
		"Oracle: Exists, Resolve, Tags, Predecessors, recursive blobs/ listing before vs after against the reference GC model of the statement (removed set and kept set both exact; current tags, not ever-tagged). " +
		"distinct = hash(DAG shape, operation sequence with targets/GC points); non-trivial = some judged operation removed ≥ 2 nodes or removed a node adjacent to a surviving tagged node")
	r.Assume("content is pushed under one media type per digest (media-type twins are C01's subject); a third of the tags are placed with the descriptor Resolve(<digest>) returns (application/octet-stream for plain blobs), and a reference must then resolve to that descriptor; AutoSaveIndex left at its default (true); the store is not reopened inside a history (reopen is C08's subject)")
	r.Assume("'indexed' (for referrer chains in GC) is read from index.json before the call")
	r.Assume("unjudged by construction: an untagged referrer of removed content that a surviving node still links to (the statement contradicts itself there); everything else is judged conditional on what happened to that node")
	r.Assume("GC: 'reachable' is read recursively (least fixpoint): a referrer whose subject is reachable only through another kept referrer must be kept; histories with that shape are additionally replayed 8 times on fresh stores and must end with identical blobs/ contents")

	// the stores are tiny and short-lived: keep them in memory-backed storage
	// when the platform offers it (same file-system semantics, far fewer
	// kernel cycles), else in the default temporary directory
	shm := ""
	if os.Getenv("C09_NO_SHM") == "" {
		if fi, e := os.Stat("/dev/shm"); e == nil && fi.IsDir() {
			shm = "/dev/shm"
		}
	}
	base, err := os.MkdirTemp(shm, "verif-c09-")
	if err != nil && shm != "" {
		base, err = os.MkdirTemp("", "verif-c09-")
	}
	if err != nil {
		fmt.Println("BROKEN: mkdtemp:", err)
		os.Exit(2)
	}
	envv := []string{"C09_TMP=" + base}
	// violations per key (the replay files stop after 20 witnesses)
	tally := func(res worker.Result) {
		for _, v := range res.Viol {
			r.Add("violations["+v.Key+"]", 1)
		}
	}
	death := func(d worker.Death) (string, string, bool) {
		key, what, inc := onDeath(d)
		if key != "" {
			r.Add("violations["+key+"]", 1)
		}
		return key, what, inc
	}
	worker.Run(r, worker.Opts{Phase: "small", Total: r.N(40, 900), Batch: r.N(3, 15), Timeout: 15 * time.Minute, Env: envv, OnDeath: death, OnResult: tally})
	worker.Run(r, worker.Opts{Phase: "hist", Total: r.N(400, 8000), Batch: r.N(25, 100), Timeout: 15 * time.Minute, Env: envv, OnDeath: death, OnResult: tally})
	os.RemoveAll(base)

	// a run that never reached the termination hook or never produced the
	// shapes the property is about has observed too little
	need := []string{"gc_subject_steps", "shape_gc_referrer_of_unreachable_subject", "shape_delete_spares_tagged_referrer",
		"shape_delete_collects_formerly_tagged", "shape_delete_neverstored_successor_after_gc", "shape_gc_second_order_referrer", "shape_delete_multiply_reached", "delete_order_probe_replays", "gc_failed_injected", "delete_failed_disk_checks", "moved_tags", "stray_blob_files_removed", "stray_other_files_kept"}
	code := 0
	for _, k := range need {
		if r.Counter(k) == 0 {
			r.Inconclusive("coverage counter " + k + " is zero")
			code = 2
		}
	}
	c := r.Write(r.N(150, 3000))
	if c == 0 && code != 0 {
		fmt.Println("BROKEN: property=C09 a required shape / hook was never observed (see inconclusive_notes)")
		c = code
	}
	os.Exit(c)
}

// ---- worker death classification -------------------------------------------------

func onDeath(d worker.Death) (string, string, bool) {
	if i := strings.Index(d.Stderr, nonTermMarker); i >= 0 {
		line := d.Stderr[i:]
		if j := strings.IndexByte(line, '\n'); j >= 0 {
			line = line[:j]
		}
		if len(line) > 1500 {
			line = line[:1500]
		}
		return "gc-nontermination", fmt.Sprintf("case %d: GC walked the subject chain of one manifest more often than (manifests+1)² times (a Merkle subject chain has at most #manifests links and the referrer pass at most #manifests+1 rounds): %s", d.Case, line), false
	}
	if i := strings.Index(d.Stderr, cpuMarker); i >= 0 {
		line := d.Stderr[i:]
		if j := strings.IndexByte(line, '\n'); j >= 0 {
			line = line[:j]
		}
		key := "spin"
		if strings.Contains(line, "op=gc") {
			key = "gc-nontermination"
		} else if strings.Contains(line, "op=delete") {
			key = "delete-nontermination"
		}
		return key, fmt.Sprintf("case %d: more than %.0fs CPU consumed by one operation on a store of ≤ %d nodes: %s", d.Case, cpuBound.Seconds(), maxNodes, line), false
	}
	if d.TimedOut {
		// goroutine dump: a Delete/GC frame parked on a lock or channel with no CPU use is a deadlock
		for _, blk := range strings.Split(d.Stderr, "\n\n") {
			if (strings.Contains(blk, "oci.(*Store).GC") || strings.Contains(blk, "oci.(*Store).Delete") || strings.Contains(blk, "oci.(*Store).gcIndex")) &&
				(strings.Contains(blk, "[sync.") || strings.Contains(blk, "[semacquire") || strings.Contains(blk, "[chan ") || strings.Contains(blk, "[select")) &&
				d.CPU < d.Wall/10 {
				return "deadlock", fmt.Sprintf("case %d: Delete/GC blocked for %.0fs with %.1fs CPU", d.Case, d.Wall.Seconds(), d.CPU.Seconds()), false
			}
		}
		return "", fmt.Sprintf("phase %s case %d: wall-clock watchdog fired (cpu %.1fs of %.1fs wall) without a logical proof of non-termination", d.Phase, d.Case, d.CPU.Seconds(), d.Wall.Seconds()), true
	}
	return worker.DefaultOnDeath(d)
}

// ---- CPU-time bound (inside the worker; load independent) ---------------------------

var (
	caseStartCPU atomic.Int64 // ns
	currentOp    atomic.Value // string
)

func selfCPU() time.Duration {
	var ru syscall.Rusage
	if err := syscall.Getrusage(syscall.RUSAGE_SELF, &ru); err != nil {
		return 0
	}
	return time.Duration(ru.Utime.Nano() + ru.Stime.Nano())
}

// markOp names the operation that starts now and restarts the CPU account: the bound is on the CPU one
// operation (with its observations and replay probes) may use, not on a whole case, whose many
// sub-executions legitimately add up (more so with system time on a loaded machine).
func markOp(name string) {
	currentOp.Store(name)
	caseStartCPU.Store(int64(selfCPU()) + 1)
}

func cpuWatchdog() {
	for {
		time.Sleep(200 * time.Millisecond) // polling interval only; the verdict is on CPU time
		start := caseStartCPU.Load()
		if start == 0 {
			continue
		}
		if used := selfCPU() - time.Duration(start); used > cpuBound {
			op, _ := currentOp.Load().(string)
			fmt.Fprintf(os.Stderr, "\n%s op=%s cpu=%.1fs\n", cpuMarker, op, used.Seconds())
			pprof.Lookup("goroutine").WriteTo(os.Stderr, 1)
			removeLiveDirs()
			os.Exit(98)
		}
	}
}

// ---- cases -----------------------------------------------------------------------------

var seed = func() int64 {
	if v := os.Getenv("VERIF_SEED"); v != "" {
		if n, err := strconv.ParseInt(v, 10, 64); err == nil {
			return n
		}
	}
	return 1
}()

func runCase(phase string, i int) worker.Result {
	caseStartCPU.Store(int64(selfCPU()) + 1)
	rng := evidence.RandFor(seed, "c09-"+phase, i)
	var res worker.Result
	switch phase {
	case "small":
		runSmall(i, rng, &res)
	default:
		runHist(i, rng, &res)
	}
	return res
}

var refPool = []string{"v1", "v2", "latest", "sig", "rel"}

// makeDAG draws a DAG rich in referrers and indexes, one media type per digest.
func makeDAG(rng *rand.Rand, n int) *gen.DAG {
	for try := 0; ; try++ {
		o := gen.DefaultOpts(rng, n)
		o.DupMediaType = false
		o.ManifestAsBlob = false
		o.Foreign = rng.IntN(3) == 0
		o.AbsentSubjects = rng.IntN(3) == 0
		o.Blobs = 1 + n/4
		o.Manifests = 1 + n/5
		o.Subjects = 1 + n/5 + rng.IntN(3)
		o.Indexes = n/8 + rng.IntN(2)
		o.BlobMax = 64
		g := gen.Generate(rng, o)
		switch rng.IntN(5) {
		case 0:
			augment(g, rng)
		case 1, 2:
			augmentGroup(g, rng)
		}
		seen := map[digest.Digest]bool{}
		twin := false
		for _, nd := range g.Nodes {
			if seen[nd.Desc.Digest] {
				twin = true
			}
			seen[nd.Desc.Digest] = true
		}
		if (!twin && len(g.Nodes) <= maxNodes) || try > 20 {
			return g
		}
	}
}

// augment appends the shape of DESIGN "already seen" item 4: an index X that
// has a subject A and lists a manifest M nothing else lists, plus a referrer of M.
func augment(g *gen.DAG, rng *rand.Rand) {
	var manifests, blobs, configs []int
	for _, nd := range g.Nodes {
		switch {
		case nd.Kind.IsManifestKind():
			manifests = append(manifests, nd.ID)
		case nd.Kind == gen.Config:
			configs = append(configs, nd.ID)
		default:
			blobs = append(blobs, nd.ID)
		}
	}
	if len(manifests) == 0 || len(blobs) == 0 {
		return
	}
	if len(configs) == 0 {
		configs = blobs
	}
	add := func(kind gen.Kind, mt string, body any, succ []int, subject int) int {
		return addNode(g, kind, mt, body, succ, subject)
	}
	salt := func() map[string]string { return map[string]string{"org.test.salt": fmt.Sprintf("%x", rng.Uint64())} }
	desc := func(id int) ocispec.Descriptor { return g.Nodes[id].Desc }
	a := manifests[rng.IntN(len(manifests))]
	cfg := configs[rng.IntN(len(configs))]
	bl := blobs[rng.IntN(len(blobs))]
	m := add(gen.Manifest, gen.MTOCIManifest, ocispec.Manifest{Versioned: specs.Versioned{SchemaVersion: 2}, MediaType: gen.MTOCIManifest,
		Config: desc(cfg), Layers: []ocispec.Descriptor{desc(bl)}, Annotations: salt()}, []int{cfg, bl}, -1)
	sa := desc(a)
	add(gen.Index, gen.MTOCIIndex, ocispec.Index{Versioned: specs.Versioned{SchemaVersion: 2}, MediaType: gen.MTOCIIndex,
		Manifests: []ocispec.Descriptor{desc(m)}, Subject: &sa, Annotations: salt()}, []int{a, m}, a)
	sm := desc(m)
	add(gen.Manifest, gen.MTOCIManifest, ocispec.Manifest{Versioned: specs.Versioned{SchemaVersion: 2}, MediaType: gen.MTOCIManifest,
		Config: desc(cfg), Layers: []ocispec.Descriptor{}, Subject: &sm, Annotations: salt()}, []int{m, cfg}, m)
}

// augmentGroup appends a referrer group: 1–3 referrer manifests of a subject
// X, optionally a referrer of one of those referrers, and an index with
// subject X that lists (groups) some of them. Deleting X with AutoGC reaches a
// listed referrer twice: as a referrer of removed content and as the node that
// loses its last predecessor (the index); which comes first is a map order.
func augmentGroup(g *gen.DAG, rng *rand.Rand) {
	var manifests, blobs []int
	for _, nd := range g.Nodes {
		if nd.Kind.IsManifestKind() {
			manifests = append(manifests, nd.ID)
		} else {
			blobs = append(blobs, nd.ID)
		}
	}
	if len(manifests) == 0 || len(blobs) == 0 {
		return
	}
	salt := func() map[string]string { return map[string]string{"org.test.salt": fmt.Sprintf("%x", rng.Uint64())} }
	desc := func(id int) ocispec.Descriptor { return g.Nodes[id].Desc }
	man := func(subject int) int {
		// own config so that the referrer has blobs only it uses
		cb, _ := json.Marshal(map[string]any{"salt": rng.Uint64()})
		cfg := addNode(g, gen.Config, "application/vnd.test.config.v1+json", json.RawMessage(cb), nil, -1)
		m := ocispec.Manifest{Versioned: specs.Versioned{SchemaVersion: 2}, MediaType: gen.MTOCIManifest, Config: desc(cfg), Layers: []ocispec.Descriptor{}, Annotations: salt()}
		sd := desc(subject)
		m.Subject = &sd
		succ := []int{subject, cfg}
		if rng.IntN(2) == 0 {
			l := blobs[rng.IntN(len(blobs))]
			m.Layers = append(m.Layers, desc(l))
			succ = append(succ, l)
		}
		return addNode(g, gen.Manifest, gen.MTOCIManifest, m, succ, subject)
	}
	x := manifests[rng.IntN(len(manifests))]
	var members []int
	for i, k := 0, 1+rng.IntN(3); i < k; i++ {
		members = append(members, man(x))
	}
	if rng.IntN(2) == 0 { // deeper: a referrer of a referrer
		members = append(members, man(members[rng.IntN(len(members))]))
	}
	// existing referrers of x may be grouped too
	for _, r := range g.Referrers(x) {
		if g.Nodes[r].Kind.IsManifestKind() && rng.IntN(3) == 0 {
			dup := false
			for _, m := range members {
				dup = dup || m == r
			}
			if !dup {
				members = append(members, r)
			}
		}
	}
	var listed []ocispec.Descriptor
	succ := []int{}
	subject := x
	if rng.IntN(4) == 0 { // the grouping index refers to one of the referrers instead
		subject = members[0]
	}
	succ = append(succ, subject)
	for _, m := range members {
		if m != subject && (rng.IntN(4) != 0 || len(listed) == 0) {
			listed = append(listed, desc(m))
			succ = append(succ, m)
		}
	}
	if len(listed) == 0 {
		return
	}
	sd := desc(subject)
	addNode(g, gen.Index, gen.MTOCIIndex, ocispec.Index{Versioned: specs.Versioned{SchemaVersion: 2}, MediaType: gen.MTOCIIndex,
		Manifests: listed, Subject: &sd, Annotations: salt()}, succ, subject)
}

func addNode(g *gen.DAG, kind gen.Kind, mt string, body any, succ []int, subject int) int {
	b, _ := json.Marshal(body)
	nd := &gen.Node{ID: len(g.Nodes), Kind: kind, Bytes: b, Succ: succ, Subject: subject,
		Desc: ocispec.Descriptor{MediaType: mt, Digest: digest.FromBytes(b), Size: int64(len(b))}}
	g.Nodes = append(g.Nodes, nd)
	return nd.ID
}

var strayPaths = []string{
	"sha256/" + strings.Repeat("ab", 32), // digest-named, known algorithm: unreachable blob file
	"sha256/" + strings.Repeat("0f", 32),
	"sha512/" + strings.Repeat("cd", 64), // digest-named, known algorithm
	"sha256/upload.tmp",                  // non-digest name
	"sha256/" + strings.Repeat("AB", 32), // upper case hex is not a digest
	"sha256/" + strings.Repeat("ab", 31), // too short
	"md5/" + strings.Repeat("ab", 16),    // unknown algorithm directory
	"blake3/" + strings.Repeat("ab", 32),
	"README",                                    // file directly below blobs/
	"sha256/nested/" + strings.Repeat("ab", 32), // nested directory
}

func pickStray(rng *rand.Rand) string { return strayPaths[rng.IntN(len(strayPaths))] }

// pickNode picks a stored (or, with want=false, an absent) node; manifests and referrers are favoured.
func pickNode(rng *rand.Rand, e *env, stored bool, manifestBias int) int {
	var all, mans, refs []int
	for _, nd := range e.g.Nodes {
		if e.m.stored[nd.ID] != stored {
			continue
		}
		all = append(all, nd.ID)
		if nd.Kind.IsManifestKind() {
			mans = append(mans, nd.ID)
			if nd.Subject >= 0 || nd.AbsentSubject != nil {
				refs = append(refs, nd.ID)
			}
		}
	}
	if len(all) == 0 {
		return -1
	}
	x := rng.IntN(100)
	switch {
	case x < manifestBias/3 && len(refs) > 0:
		return refs[rng.IntN(len(refs))]
	case x < manifestBias && len(mans) > 0:
		return mans[rng.IntN(len(mans))]
	}
	return all[rng.IntN(len(all))]
}

func (e *env) tagOp(rng *rand.Rand) (op, bool) {
	via := rng.IntN(3) == 0
	bias := 88
	if via {
		bias = 40 // Resolve(<digest>) differs from the pushed descriptor for plain blobs
	}
	n := pickNode(rng, e, true, bias)
	if n < 0 {
		return op{}, false
	}
	return op{Op: "tag", Node: n, Ref: refPool[rng.IntN(len(refPool))], Via: via}, true
}

// pushOrder returns the nodes in the order class drawn.
func pushOrder(rng *rand.Rand, g *gen.DAG) ([]int, string) {
	order := make([]int, len(g.Nodes))
	for i := range order {
		order[i] = i
	}
	class := []string{"children-first", "parents-first", "random", "partial"}[rng.IntN(4)]
	switch class {
	case "parents-first":
		sort.Sort(sort.Reverse(sort.IntSlice(order)))
	case "random", "partial":
		rng.Shuffle(len(order), func(a, b int) { order[a], order[b] = order[b], order[a] })
	}
	if class == "partial" {
		order = order[:len(order)*4/5+1]
		if len(order) > len(g.Nodes) {
			order = order[:len(g.Nodes)]
		}
	}
	return order, class
}

func (e *env) countTag(o op) {
	if o.Op != "tag" {
		return
	}
	if old, ok := e.m.tags[o.Ref]; ok && old != o.Node {
		e.res.Count("moved_tags", 1)
	}
	nd := e.g.Nodes[o.Node]
	switch {
	case nd.Subject >= 0 || nd.AbsentSubject != nil:
		e.res.Count("tagged_referrers", 1)
	case !nd.Kind.IsManifestKind():
		e.res.Count("tagged_blobs", 1)
	}
}

// ---- phase hist ---------------------------------------------------------------------------

func runHist(i int, rng *rand.Rand, res *worker.Result) {
	g := makeDAG(rng, 8+rng.IntN(40))
	e, err := newEnv(g, res)
	if err != nil {
		res.Violate("harness:newEnv", err.Error(), nil)
		return
	}
	defer e.close()
	do := func(o op) {
		markOp(o.Op)
		e.countTag(o)
		e.apply(o, true)
	}
	order, class := pushOrder(rng, g)
	for _, id := range order {
		if e.stop {
			break
		}
		do(op{Op: "push", Node: id})
		if g.Nodes[id].Kind.IsManifestKind() && rng.IntN(4) == 0 {
			do(op{Op: "tag", Node: id, Ref: refPool[rng.IntN(len(refPool))]})
		}
		if rng.IntN(40) == 0 {
			do(op{Op: "gc"})
		}
	}
	steps := 6 + rng.IntN(20)
	for s := 0; s < steps && !e.stop; s++ {
		e.randomOp(rng, do)
	}
	if !e.stop && rng.IntN(3) == 0 {
		// terminal step: a Delete whose cascade fails part-way
		if c := e.deleteFailTargets(); len(c) > 0 {
			tv := c[rng.IntN(len(c))]
			do(op{Op: "deletefail", Node: tv[0], Victim: tv[1]})
		}
	}
	res.Key = g.Shape(g.Roots()...) + "|" + opsString(e.ops)
	res.NT = e.nt
	res.Count("history_operations", int64(len(e.ops)))
	res.MaxOf("max_store_nodes", int64(len(g.Nodes)))
	res.Observe("push_order_classes", class)
	if i%61 == 0 {
		res.Sample = map[string]any{"phase": "hist", "dag": describe(g), "ops": opsString(e.ops)}
	}
}

// randomOp draws and executes one random operation of the history vocabulary.
func (e *env) randomOp(rng *rand.Rand, do func(op)) {
	{
		switch x := rng.IntN(100); {
		case x < 20:
			if o, ok := e.tagOp(rng); ok {
				do(o)
			}
		case x < 27:
			if len(e.m.tags) > 0 {
				refs := sortedKeysInt(e.m.tags)
				do(op{Op: "untag", Ref: refs[rng.IntN(len(refs))]})
			}
		case x < 57:
			if n := pickNode(rng, e, true, 65); n >= 0 {
				do(op{Op: "delete", Node: n, AutoGC: rng.IntN(6) != 0})
			}
		case x < 59:
			if n := pickNode(rng, e, false, 50); n >= 0 {
				do(op{Op: "delete", Node: n, AutoGC: true})
			}
		case x < 72:
			do(op{Op: "gc"})
		case x < 75:
			if c := e.gcFailCandidates(); len(c) > 0 {
				do(op{Op: "gcfail", Node: c[rng.IntN(len(c))]})
			} else {
				do(op{Op: "gc"})
			}
		case x < 93:
			if n := pickNode(rng, e, false, 40); n >= 0 {
				do(op{Op: "push", Node: n})
			}
		default:
			do(op{Op: "stray", Path: pickStray(rng)})
		}
	}
}

func sortedKeysInt(m map[string]int) []string {
	out := []string{}
	for k := range m {
		out = append(out, k)
	}
	sort.Strings(out)
	return out
}

// ---- phase small: every target, every GC point ------------------------------------------------

func runSmall(i int, rng *rand.Rand, res *worker.Result) {
	g := makeDAG(rng, 4+rng.IntN(7))
	// setup history H, drawn against a scratch model (no store involved)
	scratch := &env{g: g, m: newModel(g), res: &worker.Result{}}
	var H []op
	add := func(o op) {
		H = append(H, o)
		switch o.Op {
		case "push":
			scratch.m.stored[o.Node] = true
		case "tag":
			scratch.m.tags[o.Ref] = o.Node
		case "untag":
			delete(scratch.m.tags, o.Ref)
		}
	}
	order, class := pushOrder(rng, g)
	for _, id := range order {
		add(op{Op: "push", Node: id})
		if g.Nodes[id].Kind.IsManifestKind() && rng.IntN(3) == 0 {
			add(op{Op: "tag", Node: id, Ref: refPool[rng.IntN(3)]})
		}
		if rng.IntN(12) == 0 {
			add(op{Op: "stray", Path: pickStray(rng)})
		}
	}
	for k, extra := 0, rng.IntN(5); k < extra; k++ {
		switch rng.IntN(5) {
		case 0:
			if len(scratch.m.tags) > 0 {
				refs := sortedKeysInt(scratch.m.tags)
				add(op{Op: "untag", Ref: refs[rng.IntN(len(refs))]})
			}
		case 1:
			add(op{Op: "stray", Path: pickStray(rng)})
		default:
			if o, ok := scratch.tagOp(rng); ok {
				o.Ref = refPool[rng.IntN(3)]
				add(o)
			}
		}
	}

	evals := 0
	nt := false
	// sub runs one sub-execution: prefix replayed unjudged on a fresh store, then the judged tail.
	sub := func(prefix []op, tail ...op) bool {
		e, err := newEnv(g, res)
		if err != nil {
			res.Violate("harness:newEnv", err.Error(), nil)
			return false
		}
		defer e.close()
		for _, o := range prefix {
			markOp(o.Op)
			e.apply(o, false)
			if e.stop {
				return false
			}
		}
		for _, o := range tail {
			markOp(o.Op)
			e.apply(o, true)
			if e.stop {
				return false
			}
		}
		evals++
		if e.nt {
			nt = true
			res.Count("nontrivial_subexecutions", 1)
		}
		return true
	}
	// count the tagging shapes once (on the scratch model replayed)
	cnt := &env{g: g, m: newModel(g), res: res}
	for _, o := range H {
		cnt.countTag(o)
		switch o.Op {
		case "tag":
			cnt.m.tags[o.Ref] = o.Node
		case "untag":
			delete(cnt.m.tags, o.Ref)
		}
	}
	ok := true
	for p := 0; p <= len(H) && ok; p++ { // GC at every point of the history
		if p > 0 && H[p-1].Op == "stray" && p != len(H) {
			continue // a stray file alone does not make a new GC point worth a rebuild
		}
		ok = sub(H[:p], op{Op: "gc"})
	}
	for t := 0; t < len(g.Nodes) && ok; t++ { // every node as the deletion target
		ok = sub(H, op{Op: "delete", Node: t, AutoGC: true}) &&
			sub(H, op{Op: "delete", Node: t, AutoGC: false}) &&
			sub(H, op{Op: "gc"}, op{Op: "delete", Node: t, AutoGC: true})
	}
	// GC that fails half-way (a reachable manifest is unreadable), then a Delete
	if ok {
		probe := &env{g: g, m: newModel(g), res: &worker.Result{}}
		for _, o := range H {
			switch o.Op {
			case "push":
				probe.m.stored[o.Node] = true
			case "tag":
				probe.m.tags[o.Ref] = o.Node
			case "untag":
				delete(probe.m.tags, o.Ref)
			}
		}
		if c := probe.gcFailCandidates(); len(c) > 0 {
			bad := c[rng.IntN(len(c))]
			ok = sub(H, op{Op: "gcfail", Node: bad})
			for t := rng.IntN(3); t < len(g.Nodes) && ok; t += 3 {
				ok = sub(H, op{Op: "gcfail", Node: bad}, op{Op: "delete", Node: t, AutoGC: true})
			}
		}
	}
	// a Delete whose cascade fails part-way, for every manifest target that has a collectable blob
	if ok {
		probe := &env{g: g, m: newModel(g), res: &worker.Result{}}
		for _, o := range H {
			switch o.Op {
			case "push":
				probe.m.stored[o.Node] = true
			case "tag":
				probe.m.tags[o.Ref] = o.Node
			case "untag":
				delete(probe.m.tags, o.Ref)
			}
		}
		byTarget := map[int][]int{}
		var targets []int
		for _, tv := range probe.deleteFailTargets() {
			if len(byTarget[tv[0]]) == 0 {
				targets = append(targets, tv[0])
			}
			byTarget[tv[0]] = append(byTarget[tv[0]], tv[1])
		}
		for _, t := range targets {
			if !ok {
				break
			}
			vs := byTarget[t]
			ok = sub(H, op{Op: "deletefail", Node: t, Victim: vs[rng.IntN(len(vs))]})
		}
	}
	res.Evals = evals
	if evals == 0 {
		res.Evals = 1
	}
	res.Key = g.Shape(g.Roots()...) + "|" + opsString(H)
	res.NT = nt
	res.Count("small_cases_enumerated", 1)
	res.Observe("push_order_classes", class)
	if i%13 == 0 {
		res.Sample = map[string]any{"phase": "small", "dag": describe(g), "setup": opsString(H), "sub_executions": evals}
	}
}
