package main

// Reference garbage-collection model, written from the statement of C09 (and
// the reading given in DESIGN.md §3 C09), never from the library's code.
//
//	Delete(t), AutoGC off: R = {t}.
//	Delete(t), AutoGC on : R = least fixpoint of
//	    t ∈ R;
//	    (a) a stored manifest that carries no tag and whose subject is in R joins R;
//	    (b) a stored node that carries no tag, is a successor of a member of R
//	        and whose stored predecessors are all in R joins R.
//	  Tags pointing at members of R disappear, everything else is unchanged.
//	GC: K0 = successor closure of the nodes carrying a tag;
//	    Kmin = closure(K0 ∪ {indexed untagged manifests whose subject chain reaches K0});
//	    Kmax = least fixpoint of K ↦ closure(K ∪ {indexed untagged manifests whose
//	           subject chain reaches K}) above K0.
//	  "Reachable" is read recursively (a referrer chain may end in a manifest
//	  that is itself reachable only through another kept referrer): exactly the
//	  stored nodes of Kmax survive. Kmin is kept to recognise that shape, for
//	  which the whole history is also replayed to demand run-to-run determinism.

import (
	"sort"

	"oras.land/oras-go/v2/verifharness/gen"
)

type model struct {
	g          *gen.DAG
	stored     map[int]bool
	tags       map[string]int    // reference -> node (current tags only)
	tagKey     map[string]string // reference -> key of the descriptor it was tagged with
	keyLost    map[int]bool      // see markKeyLost; for classifying violations only
	everTagged map[int]bool      // for classifying violations, never for verdicts
	strays     map[string]bool
	preds      [][]int // ground-truth direct predecessors (generator edges)
}

func newModel(g *gen.DAG) *model {
	m := &model{g: g, stored: map[int]bool{}, tags: map[string]int{}, tagKey: map[string]string{}, keyLost: map[int]bool{}, everTagged: map[int]bool{}, strays: map[string]bool{}}
	m.preds = make([][]int, len(g.Nodes))
	for _, nd := range g.Nodes {
		for _, s := range g.SuccSet(nd.ID) {
			m.preds[s] = append(m.preds[s], nd.ID)
		}
	}
	return m
}

func (m *model) tagged(n int) bool {
	for _, t := range m.tags {
		if t == n {
			return true
		}
	}
	return false
}

func (m *model) taggedSet() map[int]bool {
	out := map[int]bool{}
	for _, t := range m.tags {
		out[t] = true
	}
	return out
}

func (m *model) storedPreds(n int) []int {
	var out []int
	for _, p := range m.preds[n] {
		if m.stored[p] {
			out = append(out, p)
		}
	}
	return out
}

func (m *model) storedManifests() int {
	c := 0
	for n := range m.stored {
		if m.stored[n] && m.g.Nodes[n].Kind.IsManifestKind() {
			c++
		}
	}
	return c
}

// deleteFixpoint computes R for Delete(t) with AutoGC on; nodes of keep never join.
func (m *model) deleteFixpoint(t int, keep map[int]bool) map[int]bool {
	R := map[int]bool{t: true}
	tagged := m.taggedSet()
	for changed := true; changed; {
		changed = false
		for _, nd := range m.g.Nodes {
			n := nd.ID
			if R[n] || !m.stored[n] || tagged[n] || keep[n] {
				continue
			}
			// (a) untagged manifest whose subject was removed
			if nd.Kind.IsManifestKind() && nd.Subject >= 0 && R[nd.Subject] {
				R[n] = true
				changed = true
				continue
			}
			// (b) untagged node that thereby lost its last predecessor
			sp := m.storedPreds(n)
			if len(sp) == 0 {
				continue
			}
			all := true
			for _, p := range sp {
				if !R[p] {
					all = false
					break
				}
			}
			if all {
				R[n] = true
				changed = true
			}
		}
	}
	return R
}

// deleteExpect returns the expected removed set R and the set of unjudged
// nodes. A node is unjudged when it is at once "an untagged manifest whose
// subject was removed" (⇒ removed) and "a node a surviving node still links
// to" (⇒ kept): the statement contradicts itself there, so what happened to
// that node (observedExists after the call) is taken as given and everything
// else is judged conditional on it.
func (m *model) deleteExpect(t int, autoGC bool, observedExists func(int) bool) (R, unjudged map[int]bool) {
	unjudged = map[int]bool{}
	if !autoGC {
		return map[int]bool{t: true}, unjudged
	}
	keep := map[int]bool{}
	for {
		R = m.deleteFixpoint(t, keep)
		grew := false
		for n := range R {
			if n == t || unjudged[n] {
				continue
			}
			for _, p := range m.storedPreds(n) {
				if !R[p] {
					unjudged[n] = true
					if observedExists(n) {
						keep[n] = true
						grew = true
					}
					break
				}
			}
		}
		if !grew {
			return R, unjudged
		}
	}
}

func (m *model) closure(seed map[int]bool) map[int]bool {
	K := map[int]bool{}
	var stack []int
	for n := range seed {
		if m.stored[n] && !K[n] {
			K[n] = true
			stack = append(stack, n)
		}
	}
	for len(stack) > 0 {
		n := stack[len(stack)-1]
		stack = stack[:len(stack)-1]
		for _, s := range m.g.Nodes[n].Succ {
			if m.stored[s] && !K[s] {
				K[s] = true
				stack = append(stack, s)
			}
		}
	}
	return K
}

// chainReaches: the subject chain of r (every link stored) reaches a member of S.
func (m *model) chainReaches(r int, S map[int]bool) bool {
	x := m.g.Nodes[r].Subject
	for steps := 0; x >= 0 && steps <= len(m.g.Nodes); steps++ {
		if !m.stored[x] {
			return false
		}
		if S[x] {
			return true
		}
		x = m.g.Nodes[x].Subject
	}
	return false
}

// gcExpect returns Kmin and Kmax. indexed: digests listed in index.json.
func (m *model) gcExpect(indexed map[string]bool) (kmin, kmax map[int]bool) {
	tagged := m.taggedSet()
	K0 := m.closure(tagged)
	cands := []int{}
	for _, nd := range m.g.Nodes {
		if m.stored[nd.ID] && !tagged[nd.ID] && nd.Kind.IsManifestKind() && nd.Subject >= 0 && indexed[nd.Desc.Digest.String()] {
			cands = append(cands, nd.ID)
		}
	}
	grow := func(K map[int]bool) (map[int]bool, bool) {
		seed := map[int]bool{}
		for n := range K {
			seed[n] = true
		}
		added := false
		for _, r := range cands {
			if !K[r] && m.chainReaches(r, K) {
				seed[r] = true
				added = true
			}
		}
		if !added {
			return K, false
		}
		return m.closure(seed), true
	}
	kmin, _ = grow(K0)
	kmax = kmin
	for {
		next, more := grow(kmax)
		if !more {
			break
		}
		kmax = next
	}
	return kmin, kmax
}

func sortedIDs(s map[int]bool) []int {
	out := []int{}
	for n, ok := range s {
		if ok {
			out = append(out, n)
		}
	}
	sort.Ints(out)
	return out
}
