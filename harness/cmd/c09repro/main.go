// throw-away reproduction (deleted after use)
package main

import (
	"bytes"
	"context"
	_ "crypto/sha256"
	"encoding/json"
	"fmt"
	"os"

	"github.com/opencontainers/go-digest"
	"github.com/opencontainers/image-spec/specs-go"
	ocispec "github.com/opencontainers/image-spec/specs-go/v1"
	"oras.land/oras-go/v2/content/oci"
)

func main() {
	ctx := context.Background()
	kept, lost := 0, 0
	for run := 0; run < 40; run++ {
		dir, _ := os.MkdirTemp("", "c09repro-")
		st, _ := oci.New(dir)
		push := func(mt string, v any) ocispec.Descriptor {
			b, _ := json.Marshal(v)
			d := ocispec.Descriptor{MediaType: mt, Digest: digest.FromBytes(b), Size: int64(len(b))}
			if err := st.Push(ctx, d, bytes.NewReader(b)); err != nil {
				panic(err)
			}
			return d
		}
		cfg := push("application/vnd.oci.empty.v1+json", map[string]any{})
		man := func(name string, subject *ocispec.Descriptor) ocispec.Descriptor {
			return push(ocispec.MediaTypeImageManifest, ocispec.Manifest{Versioned: specs.Versioned{SchemaVersion: 2}, MediaType: ocispec.MediaTypeImageManifest,
				Config: cfg, Layers: []ocispec.Descriptor{}, Subject: subject, Annotations: map[string]string{"name": name}})
		}
		A := man("A", nil)
		st.Tag(ctx, A, "v1")
		M := man("M", nil) // untagged, listed only by X
		X := push(ocispec.MediaTypeImageIndex, ocispec.Index{Versioned: specs.Versioned{SchemaVersion: 2}, MediaType: ocispec.MediaTypeImageIndex,
			Manifests: []ocispec.Descriptor{M}, Subject: &A}) // untagged referrer of A
		R := man("R", &M) // untagged referrer of M
		if err := st.GC(ctx); err != nil {
			panic(err)
		}
		ex := func(d ocispec.Descriptor) bool { ok, _ := st.Exists(ctx, d); return ok }
		if !ex(A) || !ex(X) || !ex(M) {
			panic("A, X, M must survive")
		}
		if ex(R) {
			kept++
		} else {
			lost++
		}
		os.RemoveAll(dir)
	}
	fmt.Printf("after GC: referrer R of M kept in %d runs, removed in %d runs (A tagged; X = index, subject A, lists M; R = manifest, subject M)\n", kept, lost)
}
