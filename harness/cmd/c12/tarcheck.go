package main

import (
	"archive/tar"
	"bytes"
	"compress/gzip"
	"crypto/sha256"
	"encoding/hex"
	"fmt"
	"io"
	"math/rand/v2"
	"path"
	"strings"
)

func gunzipAll(b []byte) ([]byte, error) {
	zr, err := gzip.NewReader(bytes.NewReader(b))
	if err != nil {
		return nil, err
	}
	out, err := io.ReadAll(zr)
	if err != nil {
		return nil, err
	}
	return out, zr.Close()
}

func gzipAll(b []byte) []byte {
	var buf bytes.Buffer
	zw := gzip.NewWriter(&buf)
	zw.Write(b)
	zw.Close()
	return buf.Bytes()
}

type tarEntry struct {
	hdr  *tar.Header
	data []byte
}

func readTar(b []byte) ([]tarEntry, error) {
	tr := tar.NewReader(bytes.NewReader(b))
	var out []tarEntry
	for {
		h, err := tr.Next()
		if err == io.EOF {
			return out, nil
		}
		if err != nil {
			return out, err
		}
		d, err := io.ReadAll(tr)
		if err != nil {
			return out, err
		}
		out = append(out, tarEntry{h, d})
	}
}

func writeTar(es []tarEntry) ([]byte, error) {
	var buf bytes.Buffer
	tw := tar.NewWriter(&buf)
	for _, e := range es {
		h := *e.hdr
		h.Size = int64(len(e.data))
		if h.Typeflag != tar.TypeReg {
			h.Size = 0
		}
		if err := tw.WriteHeader(&h); err != nil {
			return nil, err
		}
		if h.Typeflag == tar.TypeReg {
			if _, err := tw.Write(e.data); err != nil {
				return nil, err
			}
		}
	}
	if err := tw.Close(); err != nil {
		return nil, err
	}
	return buf.Bytes(), nil
}

// archiveSnapshot reads a tar stream produced for the title `prefix` into the
// same form as snapshot(): keys relative to the prefix.
func archiveSnapshot(tarBytes []byte, prefix string) (map[string]node, []diff) {
	var ds []diff
	es, err := readTar(tarBytes)
	if err != nil {
		return nil, []diff{{"archive-unreadable", "", "archive/tar cannot read the stored archive: " + err.Error()}}
	}
	out := map[string]node{}
	for _, e := range es {
		name := e.hdr.Name
		var rel string
		switch {
		case name == prefix || name == prefix+"/":
			rel = ""
		case strings.HasPrefix(name, prefix+"/"):
			rel = strings.TrimSuffix(strings.TrimPrefix(name, prefix+"/"), "/")
			if e.hdr.Typeflag != tar.TypeDir {
				rel = strings.TrimPrefix(name, prefix+"/")
			}
		default:
			ds = append(ds, diff{"archive-name-outside-prefix", name, fmt.Sprintf("archive entry %s is not under the title %s", q(name), q(prefix))})
			continue
		}
		if rel != "" && path.Clean(rel) != rel {
			ds = append(ds, diff{"archive-name-unclean", name, fmt.Sprintf("archive entry %s is not a clean path", q(name))})
		}
		if _, dup := out[rel]; dup {
			ds = append(ds, diff{"archive-duplicate-entry", rel, "archive lists " + q(name) + " twice"})
		}
		n := node{Mode: e.hdr.FileInfo().Mode() & modeMask}
		switch e.hdr.Typeflag {
		case tar.TypeDir:
			n.Type = "dir"
		case tar.TypeReg:
			n.Type = "file"
			s := sha256.Sum256(e.data)
			n.Sum, n.Size = hex.EncodeToString(s[:]), int64(len(e.data))
		case tar.TypeSymlink:
			n.Type, n.Target, n.Mode = "link", e.hdr.Linkname, 0
		default:
			n.Type = "other"
		}
		out[rel] = n
	}
	return out, ds
}

// tamperTar returns a tar stream that differs from the given one in a way a
// person swapping a layer would produce: changed content, mode, name, link
// target, a dropped or an added entry.
func tamperTar(rng *rand.Rand, tarBytes []byte) ([]byte, string, error) {
	es, err := readTar(tarBytes)
	if err != nil {
		return nil, "", err
	}
	for tries := 0; tries < 20; tries++ {
		cp := make([]tarEntry, len(es))
		for i, e := range es {
			h := *e.hdr
			cp[i] = tarEntry{&h, append([]byte{}, e.data...)}
		}
		how := ""
		k := rng.IntN(len(cp))
		switch rng.IntN(6) {
		case 0:
			if cp[k].hdr.Typeflag != tar.TypeReg || len(cp[k].data) == 0 {
				continue
			}
			cp[k].data[rng.IntN(len(cp[k].data))] ^= 1 << rng.IntN(8)
			how = "content-bit-flip"
		case 1:
			if cp[k].hdr.Typeflag == tar.TypeSymlink {
				continue
			}
			cp[k].hdr.Mode ^= 1 << rng.IntN(9)
			how = "mode-bit"
		case 2:
			if k == 0 {
				continue
			}
			cp[k].hdr.Name += "x"
			how = "renamed-entry"
		case 3:
			if cp[k].hdr.Typeflag != tar.TypeSymlink {
				continue
			}
			cp[k].hdr.Linkname += "y"
			how = "link-target"
		case 4:
			if len(cp) < 2 {
				continue
			}
			cp = cp[:len(cp)-1]
			how = "dropped-last-entry"
		default:
			h := *cp[0].hdr
			h.Name = cp[0].hdr.Name + "/added-" + asciiName(rng, 4)
			h.Typeflag = tar.TypeReg
			h.Mode = 0o644
			cp = append(cp, tarEntry{&h, []byte("planted")})
			how = "added-entry"
		}
		out, err := writeTar(cp)
		if err != nil {
			continue
		}
		if bytes.Equal(out, tarBytes) {
			continue
		}
		return out, how, nil
	}
	// fall back: append content to nothing — add an entry always works
	h := *es[0].hdr
	h.Name += "/added"
	h.Typeflag = tar.TypeReg
	h.Mode = 0o644
	out, err := writeTar(append(es, tarEntry{&h, []byte("planted")}))
	return out, "added-entry", err
}
