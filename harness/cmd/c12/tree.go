package main

import (
	"crypto/sha256"
	"encoding/hex"
	"encoding/json"
	"fmt"
	"io"
	"io/fs"
	"math/rand/v2"
	"os"
	"path"
	"path/filepath"
	"sort"
	"strconv"
	"strings"
	"syscall"
	"time"
	"unicode/utf8"
	"unsafe"
)

// ---------------------------------------------------------------- tree specs

// entry is one object of a generated tree. Rel is the slash-separated path
// relative to the tree root ("" is the root itself; a single-file tree has
// exactly one entry with Rel "").
type entry struct {
	Rel     string `json:"rel"`
	Type    byte   `json:"type"` // 'd', 'f', 'l'
	Mode    uint32 `json:"mode"` // os.FileMode permission bits plus setuid/setgid/sticky
	Size    int    `json:"size,omitempty"`
	Fill    int    `json:"fill,omitempty"` // content class
	Seed    uint64 `json:"seed,omitempty"`
	Target  string `json:"target,omitempty"`
	SameAs  string `json:"same_as,omitempty"` // regular file with the content and mode of another entry
	nameCls string
}

// MarshalJSON renders an entry readably in witnesses: type as a letter, mode
// in octal the Unix way, names that are not valid UTF-8 quoted.
func (e entry) MarshalJSON() ([]byte, error) {
	safe := func(s string) string {
		if utf8.ValidString(s) {
			return s
		}
		return strconv.QuoteToASCII(s)
	}
	m := map[string]any{"rel": safe(e.Rel), "type": string(rune(e.Type))}
	if e.Type != 'l' {
		m["mode"] = fmt.Sprintf("%04o", unixMode(os.FileMode(e.Mode)))
	} else {
		m["target"] = safe(e.Target)
	}
	if e.Type == 'f' {
		m["size"], m["fill"], m["seed"] = e.Size, e.Fill, fmt.Sprint(e.Seed)
		if e.SameAs != "" {
			m["same_as"] = safe(e.SameAs)
		}
	}
	return json.Marshal(m)
}

type tree struct {
	Single    bool    `json:"single,omitempty"`
	Entries   []entry `json:"entries"`
	MayRefuse bool    `json:"may_refuse,omitempty"` // has a link whose target path runs through another link
}

const modeMask = os.ModePerm | os.ModeSetuid | os.ModeSetgid | os.ModeSticky

type treeOpts struct {
	maxDirs, maxFiles, maxLinks int
	big                         bool // allow files crossing the 1 MiB buffer
	special                     bool // allow setuid / setgid / sticky
	through                     bool // allow a link through another link
	oddNames                    bool // newline, backslash, invalid UTF-8 ...
	reuse                       bool // names repeat across levels; a shallow symlink named like a deeper directory (merged-/usr layout)
}

var fileModes = []uint32{0o644, 0o600, 0o755, 0o700, 0o444, 0o400, 0o666, 0o777, 0o640, 0o604, 0o000, 0o711, 0o222}
var dirModes = []uint32{0o755, 0o700, 0o777, 0o750, 0o555, 0o500, 0o711, 0o775, 0o000, 0o733}

func pickMode(rng *rand.Rand, table []uint32, dir, special bool) uint32 {
	var m uint32
	if rng.IntN(4) == 0 {
		m = uint32(rng.IntN(0o1000))
	} else {
		m = table[rng.IntN(len(table))]
	}
	if special && rng.IntN(3) == 0 {
		switch rng.IntN(3) {
		case 0:
			m |= uint32(os.ModeSticky)
		case 1:
			m |= uint32(os.ModeSetgid)
		default:
			if !dir {
				m |= uint32(os.ModeSetuid)
			} else {
				m |= uint32(os.ModeSticky)
			}
		}
	}
	return m
}

var asciiAlpha = "abcdefghijklmnopqrstuvwxyzABCDEFGHIJKLMNOPQRSTUVWXYZ0123456789._-"
var nonASCII = []string{"é", "ü", "ß", "ñ", "日", "本", "語", "файл", "данные", "αβγ", "한", "글", "🙂", "📦", "ع", "ر", "é", "İ", "ı", " ", "​", "Ω"}
var oddNames = []string{" ", "a b", " lead", "trail ", "-x", "--help", "..a", "a..", "...", "~", "#x", "a\\b", "\\", "a\nb", "a=b", "13 path=x", "*", "?", "[a]", "a\tb", "'q'", "\"q\"", "$HOME", "%41", "a:b", "C:", "CON", "a;b", "a|b", "\x01", "\x7f", ".git", ".", "..", "@", "{}", "name.", "\xff\xfe", "bad\xc3", "\xe2\x82"}

func asciiName(rng *rand.Rand, n int) string {
	b := make([]byte, n)
	for i := range b {
		b[i] = asciiAlpha[rng.IntN(len(asciiAlpha))]
	}
	return string(b)
}

// genName returns a file name and its class. Names never contain '/' or NUL
// and are never "." or "..".
func genName(rng *rand.Rand, odd bool) (string, string) {
	for {
		var s, cls string
		switch c := rng.IntN(20); {
		case c < 9:
			s, cls = asciiName(rng, 1+rng.IntN(12)), "short"
		case c < 12: // long enough to need more than a USTAR name field
			n := []int{101, 120, 155, 156, 200, 254, 255}[rng.IntN(7)]
			s, cls = asciiName(rng, n), "long"
		case c < 16:
			k := 1 + rng.IntN(6)
			for i := 0; i < k; i++ {
				if rng.IntN(3) == 0 {
					s += asciiName(rng, 1+rng.IntN(3))
				} else {
					s += nonASCII[rng.IntN(len(nonASCII))]
				}
			}
			cls = "nonascii"
		case c < 17: // long and non-ASCII
			for len(s) < 180 {
				s += nonASCII[rng.IntN(len(nonASCII))]
			}
			cls = "long-nonascii"
		case c < 19:
			if !odd {
				continue
			}
			s, cls = oddNames[rng.IntN(len(oddNames))], "odd"
			if !utf8.ValidString(s) {
				cls = "invalid-utf8"
			}
		default:
			s, cls = asciiName(rng, 1+rng.IntN(4))+"."+asciiName(rng, 1+rng.IntN(3)), "short"
		}
		if s == "." || s == ".." || s == "" || len(s) > 255 || strings.ContainsAny(s, "/\x00") {
			continue
		}
		return s, cls
	}
}

func depthOf(rel string) int {
	if rel == "" {
		return 0
	}
	return strings.Count(rel, "/") + 1
}

func joinRel(dir, name string) string {
	if dir == "" {
		return name
	}
	return dir + "/" + name
}

func pickSize(rng *rand.Rand, big bool) int {
	switch c := rng.IntN(40); {
	case c < 6:
		return 0
	case c < 22:
		return 1 + rng.IntN(600)
	case c < 32:
		return 1 + rng.IntN(70000)
	case c < 36:
		return []int{511, 512, 513, 1023, 1024, 4096, 65536, 32 << 10}[rng.IntN(8)]
	default:
		if !big {
			return 1 + rng.IntN(200000)
		}
		return []int{1<<20 - 1, 1 << 20, 1<<20 + 1, 2 << 20, 2<<20 + 517, 5 << 19, 1<<20 + rng.IntN(1<<20)}[rng.IntN(7)]
	}
}

// genDirTree generates a directory tree.
func genDirTree(rng *rand.Rand, o treeOpts) *tree {
	t := &tree{}
	t.Entries = append(t.Entries, entry{Rel: "", Type: 'd', Mode: pickMode(rng, dirModes, true, o.special)})
	dirs := []string{""}
	used := map[string]bool{"": true}
	symlinks := map[string]bool{}
	newName := func(dir string) (string, string) {
		for tries := 0; ; tries++ {
			n, cls := genName(rng, o.oddNames)
			if o.reuse && tries < 4 && len(t.Entries) > 1 && rng.IntN(3) == 0 {
				// the base name of some other entry, at whatever level it lives
				e := t.Entries[1+rng.IntN(len(t.Entries)-1)]
				n, cls = path.Base(e.Rel), e.nameCls
			}
			rel := joinRel(dir, n)
			if !used[rel] {
				used[rel] = true
				return rel, cls
			}
		}
	}
	nd := rng.IntN(o.maxDirs + 1)
	if o.reuse && nd < 3 && o.maxDirs >= 3 {
		nd = 3 + rng.IntN(o.maxDirs-2)
	}
	for i := 0; i < nd; i++ {
		// prefer deep parents so that depth 5 is reached
		var parent string
		for tries := 0; ; tries++ {
			parent = dirs[rng.IntN(len(dirs))]
			if rng.IntN(2) == 0 {
				parent = dirs[len(dirs)-1-rng.IntN((len(dirs)+1)/2)]
			}
			if depthOf(parent) < 5 {
				break
			}
		}
		rel, cls := newName(parent)
		t.Entries = append(t.Entries, entry{Rel: rel, Type: 'd', Mode: pickMode(rng, dirModes, true, o.special), nameCls: cls})
		dirs = append(dirs, rel)
	}
	nf := rng.IntN(o.maxFiles + 1)
	var files []string
	bigLeft := 1
	for i := 0; i < nf; i++ {
		parent := dirs[rng.IntN(len(dirs))]
		rel, cls := newName(parent)
		e := entry{Rel: rel, Type: 'f', Mode: pickMode(rng, fileModes, false, o.special), nameCls: cls, Seed: rng.Uint64(), Fill: rng.IntN(4)}
		if len(files) > 0 && rng.IntN(8) == 0 {
			e.SameAs = files[rng.IntN(len(files))]
		} else {
			e.Size = pickSize(rng, o.big && bigLeft > 0)
			if e.Size >= 1<<20-1 {
				bigLeft--
			}
		}
		t.Entries = append(t.Entries, e)
		files = append(files, rel)
	}
	// resolve SameAs chains to the original
	byRel := map[string]*entry{}
	for i := range t.Entries {
		byRel[t.Entries[i].Rel] = &t.Entries[i]
	}
	for i := range t.Entries {
		e := &t.Entries[i]
		if e.SameAs != "" {
			src := byRel[e.SameAs]
			for src.SameAs != "" {
				src = byRel[src.SameAs]
			}
			e.SameAs, e.Size, e.Seed, e.Fill, e.Mode = src.Rel, src.Size, src.Seed, src.Fill, src.Mode
		}
	}
	nl := rng.IntN(o.maxLinks + 1)
	if o.reuse && o.maxLinks > 0 && nl == 0 {
		nl = 1
	}
	for i := 0; i < nl; i++ {
		parent := dirs[rng.IntN(len(dirs))]
		var rel, cls, merged string
		if o.reuse && rng.IntN(3) != 0 {
			// lib -> usr/lib next to usr/lib/...: a link named like a directory further down
			var deep, early []string
			for _, d := range dirs {
				if depthOf(d) >= 2 {
					deep = append(deep, d)
					// walked (and unpacked) before the directory's own content when placed at the root
					if path.Base(d) < strings.SplitN(d, "/", 2)[0] {
						early = append(early, d)
					}
				}
			}
			if len(early) > 0 && rng.IntN(4) != 0 {
				deep = early
			}
			if len(deep) > 0 {
				d := deep[rng.IntN(len(deep))]
				at := ""
				if rng.IntN(3) == 0 { // or at some other shallower level
					c := dirs[rng.IntN(len(dirs))]
					if depthOf(c) < depthOf(d)-1 {
						at = c
					}
				}
				if r := joinRel(at, path.Base(d)); !used[r] {
					used[r] = true
					parent, rel, cls, merged = at, r, "reused", d
				}
			}
		}
		if rel == "" {
			rel, cls = newName(parent)
		}
		var target string
		all := make([]string, 0, len(t.Entries))
		for _, e := range t.Entries {
			if e.Rel != "" {
				all = append(all, e.Rel)
			}
		}
		switch c := rng.IntN(12); {
		case c < 4 && len(all) > 0: // some entry of the tree, relative to the link's directory
			to := all[rng.IntN(len(all))]
			r, err := filepath.Rel("/"+parent, "/"+to)
			if err != nil {
				r = "x"
			}
			target = r
		case c < 5:
			target = path.Base(rel) // itself
		case c < 6:
			target = "."
		case c < 7 && parent != "":
			target = ".."
		case c < 8 && parent != "": // dangling, one level up
			target = "../" + asciiName(rng, 6)
		case c < 9: // long dangling target (needs a PAX linkpath record)
			target = asciiName(rng, 101+rng.IntN(180))
			if rng.IntN(2) == 0 {
				target = asciiName(rng, 60) + "/" + target
			}
		case c < 10:
			target = "nowhere-" + nonASCII[rng.IntN(len(nonASCII))] + nonASCII[rng.IntN(len(nonASCII))]
		case c < 11 && parent != "": // up to the root and down again
			ups := strings.Repeat("../", depthOf(parent))
			if len(all) > 0 {
				target = ups + all[rng.IntN(len(all))]
			} else {
				target = ups + "x"
			}
		default:
			target = "./" + asciiName(rng, 5) + "//" + asciiName(rng, 3) // unclean, dangling
		}
		if o.through && len(symlinks) > 0 && rng.IntN(2) == 0 {
			var ls []string
			for l := range symlinks {
				ls = append(ls, l)
			}
			sort.Strings(ls)
			via := ls[rng.IntN(len(ls))]
			r, err := filepath.Rel("/"+parent, "/"+via)
			if err == nil {
				target = r + "/" + asciiName(rng, 3)
			}
		}
		if merged != "" && rng.IntN(3) != 0 {
			if r, err := filepath.Rel("/"+parent, "/"+merged); err == nil {
				target = r
			}
		}
		// the lexical target must stay inside the tree
		if escapes(parent, target) {
			target = path.Base(rel) + "-dangling"
		}
		t.Entries = append(t.Entries, entry{Rel: rel, Type: 'l', Target: target, nameCls: cls})
		symlinks[rel] = true
	}
	// classify links whose lexical target path runs through another link
	for _, e := range t.Entries {
		if e.Type != 'l' {
			continue
		}
		p := path.Clean(joinRel(path.Dir(e.Rel), e.Target))
		if path.Dir(e.Rel) == "." {
			p = path.Clean(e.Target)
		}
		for d := path.Dir(p); d != "." && d != "/" && d != ""; d = path.Dir(d) {
			if symlinks[d] {
				t.MayRefuse = true
			}
		}
	}
	return t
}

// escapes reports whether target, taken relative to directory dir of the tree,
// lexically leaves the tree.
func escapes(dir, target string) bool {
	if path.IsAbs(target) {
		return true
	}
	p := path.Clean(path.Join("root", dir, target))
	return p != "root" && !strings.HasPrefix(p, "root/")
}

func genFileTree(rng *rand.Rand, o treeOpts) *tree {
	e := entry{Rel: "", Type: 'f', Mode: pickMode(rng, fileModes, false, false), Size: pickSize(rng, o.big), Seed: rng.Uint64(), Fill: rng.IntN(4)}
	return &tree{Single: true, Entries: []entry{e}}
}

// shape is the structural key of a tree: per entry depth, type, name class,
// size class, mode, link class — not the random names and bytes themselves.
func (t *tree) shape() string {
	var parts []string
	for _, e := range t.Entries {
		sz := 0
		switch {
		case e.Size == 0:
		case e.Size < 1024:
			sz = 1
		case e.Size < 1<<20-1:
			sz = 2
		default:
			sz = 3
		}
		lc := ""
		if e.Type == 'l' {
			switch {
			case strings.HasPrefix(e.Target, ".."):
				lc = "up"
			case len(e.Target) > 100:
				lc = "long"
			default:
				lc = "in"
			}
		}
		parts = append(parts, fmt.Sprintf("%d%c%s%d:%o%s", depthOf(e.Rel), e.Type, e.nameCls, sz, e.Mode&0o7777, lc))
	}
	sort.Strings(parts)
	h := sha256.Sum256([]byte(strings.Join(parts, ",")))
	return hex.EncodeToString(h[:8])
}

type treeStats struct {
	Files, Dirs, Links, Nested, EmptyDirs, EmptyFiles, LongNames, NonASCII, Big, MaxDepth, LongTargets int
	RepeatedNames                                                                                      int // base names used at more than one place
	LinkLikeDeeperDir                                                                                  int // symlinks named like a directory at a deeper level whose content is walked after the link
}

func (t *tree) stats() treeStats {
	var s treeStats
	hasChild := map[string]bool{}
	for _, e := range t.Entries {
		if e.Rel != "" {
			d := path.Dir(e.Rel)
			if d == "." {
				d = ""
			}
			hasChild[d] = true
		}
	}
	bases := map[string]int{}
	for _, e := range t.Entries {
		if e.Rel != "" {
			bases[path.Base(e.Rel)]++
		}
	}
	for _, n := range bases {
		if n > 1 {
			s.RepeatedNames++
		}
	}
	for _, l := range t.Entries {
		if l.Type != 'l' {
			continue
		}
		ldir := path.Dir(l.Rel)
		if ldir == "." {
			ldir = ""
		}
		hit := false
		for _, d := range t.Entries {
			if d.Type != 'd' || path.Base(d.Rel) != path.Base(l.Rel) || depthOf(d.Rel) <= depthOf(l.Rel) || !hasChild[d.Rel] {
				continue
			}
			// the directory lies below the link's own directory, in a subtree walked after the link
			if ldir != "" && !strings.HasPrefix(d.Rel, ldir+"/") {
				continue
			}
			rest := strings.TrimPrefix(d.Rel, ldir)
			rest = strings.TrimPrefix(rest, "/")
			top := strings.SplitN(rest, "/", 2)[0]
			if path.Base(l.Rel) < top {
				hit = true
			}
		}
		if hit {
			s.LinkLikeDeeperDir++
		}
	}
	for _, e := range t.Entries {
		if d := depthOf(e.Rel); d > s.MaxDepth {
			s.MaxDepth = d
		}
		base := path.Base(e.Rel)
		if len(e.Rel) > 100 || len(base) > 100 {
			s.LongNames++
		}
		for _, r := range base {
			if r >= 0x80 {
				s.NonASCII++
				break
			}
		}
		switch e.Type {
		case 'd':
			s.Dirs++
			if e.Rel != "" {
				s.Nested++
			}
			if !hasChild[e.Rel] {
				s.EmptyDirs++
			}
		case 'f':
			s.Files++
			if e.Size == 0 {
				s.EmptyFiles++
			}
			if e.Size >= 1<<20-1 {
				s.Big++
			}
		case 'l':
			s.Links++
			if len(e.Target) > 100 {
				s.LongTargets++
			}
		}
	}
	return s
}

// nontrivial: at least one nested directory, at least one symlink or long
// name, at least three files.
func (s treeStats) nontrivial() bool {
	return s.Nested >= 1 && (s.Links >= 1 || s.LongNames >= 1) && s.Files >= 3
}

// ------------------------------------------------------------ materialising

func fillBytes(e entry) []byte {
	b := make([]byte, e.Size)
	switch e.Fill {
	case 0: // zeros
	case 1: // repetitive text
		pat := []byte(fmt.Sprintf("line %d of some text\n", e.Seed%1000))
		for i := range b {
			b[i] = pat[i%len(pat)]
		}
	default: // incompressible
		x := e.Seed | 1
		i := 0
		for ; i+8 <= len(b); i += 8 {
			x ^= x << 13
			x ^= x >> 7
			x ^= x << 17
			b[i], b[i+1], b[i+2], b[i+3] = byte(x), byte(x>>8), byte(x>>16), byte(x>>24)
			b[i+4], b[i+5], b[i+6], b[i+7] = byte(x>>32), byte(x>>40), byte(x>>48), byte(x>>56)
		}
		for ; i < len(b); i++ {
			x ^= x << 13
			x ^= x >> 7
			x ^= x << 17
			b[i] = byte(x)
		}
	}
	return b
}

type buildOpts struct {
	rng       *rand.Rand // creation order, timestamps; nil: children-first fixed order, no timestamps
	hardlinks bool       // realise SameAs entries as hard links
	chown     bool       // give entries random owners (needs root)
}

func lutimes(p string, at, mt time.Time) error {
	ts := [2]syscall.Timespec{syscall.NsecToTimespec(at.UnixNano()), syscall.NsecToTimespec(mt.UnixNano())}
	pp, err := syscall.BytePtrFromString(p)
	if err != nil {
		return err
	}
	const atFdcwd = -100
	const atSymlinkNofollow = 0x100
	fd := atFdcwd
	_, _, e := syscall.Syscall6(syscall.SYS_UTIMENSAT, uintptr(fd), uintptr(unsafe.Pointer(pp)), uintptr(unsafe.Pointer(&ts[0])), atSymlinkNofollow, 0, 0)
	if e != 0 {
		return e
	}
	return nil
}

func randTime(rng *rand.Rand) time.Time {
	switch rng.IntN(6) {
	case 0:
		return time.Unix(0, 0)
	case 1:
		return time.Unix(int64(rng.IntN(2_000_000_000)), int64(rng.IntN(1_000_000_000)))
	case 2: // beyond the octal field of a USTAR header (needs PAX / base-256)
		return time.Unix(int64(1)<<33+int64(rng.IntN(1000000)), 0)
	default:
		return time.Unix(int64(300_000_000+rng.IntN(1_700_000_000)), int64(rng.IntN(1000))*1_000_000)
	}
}

// build creates the tree at dst (which must not exist).
func (t *tree) build(dst string, o buildOpts) error {
	if t.Single {
		e := t.Entries[0]
		if err := os.WriteFile(dst, fillBytes(e), 0o600); err != nil {
			return err
		}
		if o.chown {
			if err := os.Lchown(dst, 1000+o.rng.IntN(60000), 1000+o.rng.IntN(60000)); err != nil {
				return err
			}
		}
		if err := os.Chmod(dst, os.FileMode(e.Mode)); err != nil {
			return err
		}
		if o.rng != nil {
			return lutimes(dst, randTime(o.rng), randTime(o.rng))
		}
		return nil
	}
	// directories first (parents before children), all writable while filling
	ents := append([]entry{}, t.Entries...)
	sort.SliceStable(ents, func(a, b int) bool { return depthOf(ents[a].Rel) < depthOf(ents[b].Rel) })
	for _, e := range ents {
		if e.Type == 'd' {
			if err := os.Mkdir(filepath.Join(dst, filepath.FromSlash(e.Rel)), 0o700); err != nil {
				return err
			}
		}
	}
	rest := make([]entry, 0, len(ents))
	for _, e := range ents {
		if e.Type != 'd' {
			rest = append(rest, e)
		}
	}
	if o.rng != nil {
		o.rng.Shuffle(len(rest), func(a, b int) { rest[a], rest[b] = rest[b], rest[a] })
	}
	// originals before their copies
	sort.SliceStable(rest, func(a, b int) bool { return rest[a].SameAs == "" && rest[b].SameAs != "" })
	for _, e := range rest {
		p := filepath.Join(dst, filepath.FromSlash(e.Rel))
		switch e.Type {
		case 'f':
			if e.SameAs != "" && o.hardlinks {
				if err := os.Link(filepath.Join(dst, filepath.FromSlash(e.SameAs)), p); err != nil {
					return err
				}
				continue
			}
			if err := os.WriteFile(p, fillBytes(e), 0o600); err != nil {
				return err
			}
		case 'l':
			if err := os.Symlink(e.Target, p); err != nil {
				return err
			}
		}
	}
	// owners, then modes (chown clears setuid/setgid), children before parents
	hardlinked := func(e entry) bool { return e.SameAs != "" && o.hardlinks }
	for i := len(ents) - 1; i >= 0; i-- {
		e := ents[i]
		p := filepath.Join(dst, filepath.FromSlash(e.Rel))
		if o.chown && !hardlinked(e) {
			if err := os.Lchown(p, 1000+o.rng.IntN(60000), 1000+o.rng.IntN(60000)); err != nil {
				return err
			}
		}
	}
	for i := len(ents) - 1; i >= 0; i-- {
		e := ents[i]
		p := filepath.Join(dst, filepath.FromSlash(e.Rel))
		if e.Type != 'l' && !hardlinked(e) {
			if err := os.Chmod(p, os.FileMode(e.Mode)); err != nil {
				return err
			}
		}
	}
	if o.rng != nil {
		for i := len(ents) - 1; i >= 0; i-- {
			e := ents[i]
			if hardlinked(e) {
				continue
			}
			if err := lutimes(filepath.Join(dst, filepath.FromSlash(e.Rel)), randTime(o.rng), randTime(o.rng)); err != nil {
				return err
			}
		}
	}
	return nil
}

// ---------------------------------------------------------------- snapshots

type node struct {
	Type   string      `json:"type"` // dir, file, link, other
	Mode   os.FileMode `json:"mode"` // permission bits + setuid/setgid/sticky
	Size   int64       `json:"size,omitempty"`
	Sum    string      `json:"sum,omitempty"`
	Target string      `json:"target,omitempty"`
}

func fileSum(p string) (string, int64, error) {
	f, err := os.Open(p)
	if err != nil {
		return "", 0, err
	}
	defer f.Close()
	h := sha256.New()
	n, err := io.Copy(h, f)
	if err != nil {
		return "", 0, err
	}
	return hex.EncodeToString(h.Sum(nil)), n, nil
}

// snapshot records what is on disk at root (a directory tree or one file),
// keyed by slash-separated path relative to root ("" = root).
func snapshot(root string) (map[string]node, error) {
	out := map[string]node{}
	err := filepath.WalkDir(root, func(p string, d fs.DirEntry, err error) error {
		if err != nil {
			return err
		}
		rel, err := filepath.Rel(root, p)
		if err != nil {
			return err
		}
		rel = filepath.ToSlash(rel)
		if rel == "." {
			rel = ""
		}
		info, err := os.Lstat(p)
		if err != nil {
			return err
		}
		n := node{Mode: info.Mode() & modeMask}
		switch {
		case info.Mode().IsDir():
			n.Type = "dir"
		case info.Mode().IsRegular():
			n.Type = "file"
			n.Sum, n.Size, err = fileSum(p)
			if err != nil {
				return err
			}
		case info.Mode()&os.ModeSymlink != 0:
			n.Type = "link"
			n.Mode = 0
			n.Target, err = os.Readlink(p)
			if err != nil {
				return err
			}
		default:
			n.Type = "other"
		}
		out[rel] = n
		return nil
	})
	return out, err
}

type diff struct {
	Key  string `json:"key"`
	Rel  string `json:"rel"`
	What string `json:"what"`
}

func q(s string) string {
	if len(s) > 80 {
		return fmt.Sprintf("%q…(%d bytes)", s[:60], len(s))
	}
	return fmt.Sprintf("%q", s)
}

// compareTrees compares a source snapshot with a restored snapshot. Modes must
// equal src &^ umask, or src exactly when preserve is set.
func compareTrees(src, got map[string]node, umask os.FileMode, preserve bool) []diff {
	var ds []diff
	rels := make([]string, 0, len(src))
	for r := range src {
		rels = append(rels, r)
	}
	sort.Strings(rels)
	for _, r := range rels {
		s := src[r]
		g, ok := got[r]
		if !ok {
			ds = append(ds, diff{"missing-path:" + s.Type, r, "source " + s.Type + " " + q(r) + " is absent from the restored tree"})
			continue
		}
		if g.Type != s.Type {
			ds = append(ds, diff{"type-changed:" + s.Type + "-to-" + g.Type, r, fmt.Sprintf("%s is a %s in the source and a %s after restoring", q(r), s.Type, g.Type)})
			continue
		}
		switch s.Type {
		case "file":
			if g.Sum != s.Sum || g.Size != s.Size {
				ds = append(ds, diff{"bytes-differ", r, fmt.Sprintf("%s: source %d bytes sha256 %s, restored %d bytes sha256 %s", q(r), s.Size, s.Sum[:12], g.Size, g.Sum[:12])})
			}
		case "link":
			if g.Target != s.Target {
				ds = append(ds, diff{"link-target-differs", r, fmt.Sprintf("%s: source target %s, restored target %s", q(r), q(s.Target), q(g.Target))})
			}
		}
		if s.Type == "file" || s.Type == "dir" {
			want := s.Mode
			if !preserve {
				want = s.Mode &^ umask
			}
			if g.Mode != want {
				k := "mode:" + s.Type
				if r == "" {
					k = "mode:root-dir"
				}
				if preserve {
					k += ":preserve"
				} else {
					k += ":umask"
				}
				if (g.Mode^want)&os.ModePerm == 0 {
					// only setuid / setgid / sticky differ: DESIGN judges permission bits; counted, reported, not judged
					k = "unjudged:special-bits-differ:" + k[len("mode:"):]
				}
				ds = append(ds, diff{k, r, fmt.Sprintf("%s %s: source mode %04o, umask %03o, PreservePermissions=%v: want %04o, restored %04o", s.Type, q(r), unixMode(s.Mode), umask, preserve, unixMode(want), unixMode(g.Mode))})
			}
		}
	}
	extra := make([]string, 0)
	for r := range got {
		if _, ok := src[r]; !ok {
			extra = append(extra, r)
		}
	}
	sort.Strings(extra)
	for _, r := range extra {
		ds = append(ds, diff{"extra-path:" + got[r].Type, r, "restored tree has " + got[r].Type + " " + q(r) + " that the source does not have"})
	}
	return ds
}

// unixMode renders permission and special bits the Unix way.
func unixMode(m os.FileMode) uint32 {
	u := uint32(m.Perm())
	if m&os.ModeSetuid != 0 {
		u |= 0o4000
	}
	if m&os.ModeSetgid != 0 {
		u |= 0o2000
	}
	if m&os.ModeSticky != 0 {
		u |= 0o1000
	}
	return u
}
