// C12 — Files and directories added to a file store come back identical.
//
// Monitor: random trees (nesting, empty directories and files, long, non-ASCII
// and odd names, relative in-tree symlinks, assorted modes, sizes across the
// 1 MiB copy buffer) and single files are added to a file store, packed into a
// manifest, copied through memory / OCI layout / remote registry / nothing into
// a second file store, and the restored objects are compared recursively with
// the sources as they are on disk. Three side phases: reproducible tars
// (equal trees with different timestamps, owners, creation order, hard links),
// tampered uncompressed digests, equal bytes under different names.
package main

import (
	"bytes"
	"context"
	"crypto/sha256" // also registers the algorithm with go-digest
	"crypto/sha512"
	"encoding/hex"
	"encoding/json"
	"errors"
	"fmt"
	"math/rand/v2"
	"os"
	"path"
	"path/filepath"
	"sort"
	"strings"
	"sync"
	"sync/atomic"
	"syscall"
	"unicode/utf8"

	"github.com/opencontainers/go-digest"
	ocispec "github.com/opencontainers/image-spec/specs-go/v1"
	oras "oras.land/oras-go/v2"
	"oras.land/oras-go/v2/content"
	"oras.land/oras-go/v2/content/file"
	"oras.land/oras-go/v2/content/memory"
	"oras.land/oras-go/v2/internal/verifhook"
	"oras.land/oras-go/v2/verifharness/evidence"
	"oras.land/oras-go/v2/verifharness/stores"
	"oras.land/oras-go/v2/verifharness/worker"
)

var ctx = context.Background()

var hookHits atomic.Int64

func main() {
	if worker.IsWorker() {
		h := func(point, key string) {
			if point == "file.push.beforeRestoreDuplicates" {
				hookHits.Add(1)
			}
		}
		verifhook.Handler.Store(&h)
		worker.Serve(runCase)
		return
	}
	r := evidence.New("C12", "exploration")
	r.Rule("phase pipe: case = (1-3 items, each a seeded directory tree (depth <= 5, empty dirs/files, long / non-ASCII / odd names, (1 in 2) names repeated across levels with a shallow symlink named like a deeper directory, relative in-tree symlinks, assorted modes, sizes 0..2.5 MiB) or a single file, " +
		"titles plain / nested / long / non-ASCII / unclean, the path given to Add being the source itself or (1 in 4 single files, 1 in 12 directories) a relative / absolute / chained symbolic link to it, option set over {TarReproducible, PreservePermissions, SkipUnpack, ForceCAS, IgnoreNoName}, intermediate in {none, memory, oci, remote}, umask in {022, 077, 027, 0}, second working directory empty or (1 in 3) already holding an earlier version of the items: same paths or a subset, other bytes, other file modes, other link targets, file<->symlink swaps, directories staying directories; built directly or by an earlier pipeline of another file store); " +
		"Add -> pack (root kind in {PackManifest v1.1, v1.0, deprecated Pack as artifact manifest, deprecated Pack as image manifest, hand-built Docker v2 manifest, OCI index over two such manifests with the layers split or shared}) -> Copy (-> Copy) into a second file store; restored trees compared with on-disk snapshots of the sources (paths, types, bytes, link targets, modes); " +
		"phase repro: twin trees differing in timestamps, owners, creation order and hard links must give equal descriptors under TarReproducible; " +
		"phase tamper: a directory blob with a wrong io.deis.oras.content.digest (or changed archive under the recorded digest) must be refused, the untampered one accepted and restored; " +
		"phase dup: 2-4 names with equal bytes, and (1 in 3) a directory together with a plain named file holding the bytes of its tar+gzip blob, either one listed first, Copy concurrency in {default, 1, 2, 8}, with and without ForceCAS; (1 in 3) a titled foreign (non-distributable) layer listed first, which Copy skips; (1 in 2) a file with other bytes already at one of the single-file names in the second working directory, DisableOverwrite on or off: the copy either fails with ErrOverwriteDisallowed or every name holds the right bytes. " +
		"phase conc (also under the race detector): 3-8 goroutines add 2-5 directories each at the same time to 1-3 file stores; every Add must succeed, every descriptor must describe its stored bytes, every directory must round-trip. " +
		"distinct = (tree-shape hashes of the items, option set, intermediate, umask); non-trivial = some tree has >= 1 nested directory, >= 1 symlink or long name and >= 3 files " +
		"(phase dup: >= 2 equal-bytes names with one media type, so that Copy de-duplicates them)")
	r.Assume("the checks run as root: permission-denied effects (unreadable sources, unwritable restored directories) do not occur and are not explored")
	r.Assume("archive/tar, compress/gzip and crypto/sha256 of the Go standard library are trusted when the harness inspects stored archives")
	r.Assume("modes of single files are not judged: a single-file descriptor has no field that could carry them (counted as single_file_mode_differs)")
	r.Assume("a symlink whose lexical target path runs through another symlink of the tree may be refused on unpack (C11 hardening); such refusals are counted, not judged")

	violKeys := map[string]int{}
	tally := func(res worker.Result) {
		seen := map[string]bool{}
		for _, v := range res.Viol {
			if !seen[v.Key] {
				violKeys[v.Key]++ // cases per key
				seen[v.Key] = true
			}
		}
	}
	worker.Run(r, worker.Opts{Phase: "pipe", Total: r.N(320, 6000), Batch: r.N(10, 40), OnResult: tally})
	worker.Run(r, worker.Opts{Phase: "repro", Total: r.N(160, 2500), Batch: r.N(10, 40), OnResult: tally})
	worker.Run(r, worker.Opts{Phase: "tamper", Total: r.N(160, 2500), Batch: r.N(10, 40), OnResult: tally})
	worker.Run(r, worker.Opts{Phase: "dup", Total: r.N(360, 3500), Batch: r.N(10, 40), OnResult: tally})
	worker.Run(r, worker.Opts{Phase: "conc", Total: r.N(60, 600), Batch: r.N(5, 20), OnResult: tally})
	if bin := os.Getenv("VERIF_RACE_BIN"); bin != "" {
		raceDir, _ := os.MkdirTemp("", "verif-c12-race-")
		worker.Run(r, worker.Opts{Phase: "conc-race", Total: r.N(12, 200), Batch: r.N(3, 10), Bin: bin, OnResult: tally,
			Env: []string{"GORACE=halt_on_error=0 log_path=" + filepath.Join(raceDir, "race")}})
		r.Set("race_reports_in_library", countRaceReports(raceDir, r))
		os.RemoveAll(raceDir)
	}
	if len(violKeys) > 0 {
		r.Set("cases_per_violation_key", violKeys)
	}

	// an oracle that saw too little makes the run BROKEN, not "held"
	var low []string
	for _, c := range []struct {
		name  string
		floor int64
	}{
		{"tamper_refused", int64(r.N(200, 3000))},
		{"tamper_control_accepted", int64(r.N(100, 1500))},
		{"repro_equal_descriptors", int64(r.N(100, 1500))},
		{"repro_timestamps_mattered", int64(r.N(50, 800))},
		{"dup_restored_by_store", int64(r.N(20, 300))},
		{"dup_forcecas_deduped", int64(r.N(10, 150))},
		{"dup_dir_and_archive_restored", int64(r.N(8, 120))},
		{"dup_restored_after_foreign_layer", int64(r.N(8, 120))},
		{"concurrent_adds", int64(r.N(800, 8000))},
		{"dup_preexisting_file_planted", int64(r.N(60, 600))},
		{"dup_overwrite_refused", int64(r.N(20, 200))},
		{"dup_preexisting_file_overwritten", int64(r.N(10, 100))},
		{"dup_restored_under_artifact_manifest", int64(r.N(2, 40))},
		{"dup_restored_under_docker_manifest", int64(r.N(2, 40))},
		{"dup_restored_under_index", int64(r.N(2, 40))},
		{"hook_restoreDuplicates", int64(r.N(100, 2000))},
		{"items_dir_unpacked", int64(r.N(100, 2000))},
		{"items_dir_skipunpack", int64(r.N(30, 600))},
		{"files_crossing_1MiB", int64(r.N(10, 200))},
		{"items_added_through_symlink_file", int64(r.N(30, 500))},
		{"items_added_through_symlink_dir", int64(r.N(12, 250))},
		{"links_named_like_a_deeper_dir_unpacked", int64(r.N(15, 300))},
		{"prepopulated_items", int64(r.N(40, 800))},
		{"prepopulated_files_with_other_mode_replaced", int64(r.N(100, 2000))},
		{"prepopulated_type_swaps", int64(r.N(20, 400))},
	} {
		if r.Counter(c.name) < c.floor {
			low = append(low, fmt.Sprintf("%s=%d<%d", c.name, r.Counter(c.name), c.floor))
		}
	}
	if len(low) > 0 {
		r.Set("counters_below_floor", low)
	}
	code := r.Write(r.N(80, 1500))
	if code == 0 && len(low) > 0 {
		fmt.Printf("BROKEN: property=C12 observed too little: %s\n", strings.Join(low, " "))
		code = 2
	}
	os.Exit(code)
}

func runCase(phase string, i int) (res worker.Result) {
	seed := evidence.New("C12", "exploration").Seed
	rng := evidence.RandFor(seed, "c12-"+phase, i)
	root, err := os.MkdirTemp("", "verif-c12-")
	if err != nil {
		res.Violate("harness:mkdtemp", err.Error(), nil)
		return res
	}
	oldTmp, hadTmp := os.LookupEnv("TMPDIR")
	os.Mkdir(filepath.Join(root, "tmp"), 0o700)
	os.Setenv("TMPDIR", filepath.Join(root, "tmp"))
	oldMask := syscall.Umask(0o022)
	defer func() {
		syscall.Umask(oldMask)
		if hadTmp {
			os.Setenv("TMPDIR", oldTmp)
		} else {
			os.Unsetenv("TMPDIR")
		}
		os.RemoveAll(root)
	}()
	hookHits.Store(0)
	switch phase {
	case "pipe":
		casePipe(&res, rng, root, i, false)
	case "dup":
		casePipe(&res, rng, root, i, true)
	case "repro":
		caseRepro(&res, rng, root, i)
	case "tamper":
		caseTamper(&res, rng, root, i)
	case "conc", "conc-race":
		caseConcurrentAdd(&res, rng, root, i)
	}
	res.Count("hook_restoreDuplicates", hookHits.Load())
	return res
}

// -------------------------------------------------------------------- items

type item struct {
	Name      string `json:"name"`
	MediaType string `json:"media_type,omitempty"`
	Tree      *tree  `json:"tree"`
	AddPath   string `json:"add_path"`
	Link      string `json:"added_through_symlink,omitempty"` // the path given to Add is a symbolic link: rel, abs, chain-rel, chain-abs
	LinkText  string `json:"symlink_text,omitempty"`
	linkPath  string
	Planted   string `json:"preexisting_file_sha256,omitempty"` // a file with other bytes was at this name in the second working directory
	TwinOf    string `json:"archive_of,omitempty"`              // this single file holds the very bytes of that directory item's blob
	twinOf    *item
	twinMT    bool   // same media type as the directory blob
	Old       *tree  `json:"prepopulated_with,omitempty"` // earlier version found in the second working directory
	PreHow    string `json:"prepopulated_how,omitempty"`  // "direct", "pipeline", "file"
	oldSnap   map[string]node
	srcPath   string
	dupOf     int // index of the item whose source this item shares (-1: own)
	desc      ocispec.Descriptor
	src       map[string]node
}

type options struct {
	TarReproducible, PreservePermissions, SkipUnpack, ForceCAS, IgnoreNoName bool
	DisableOverwrite                                                         bool // dup phase only, receiving store only
}

func (o options) String() string {
	s := ""
	for _, f := range []struct {
		b bool
		c string
	}{{o.TarReproducible, "R"}, {o.PreservePermissions, "P"}, {o.SkipUnpack, "S"}, {o.ForceCAS, "C"}, {o.IgnoreNoName, "I"}, {o.DisableOverwrite, "D"}} {
		if f.b {
			s += f.c
		} else {
			s += "-"
		}
	}
	return s
}

func (o options) apply(s *file.Store, second bool) {
	s.TarReproducible = o.TarReproducible
	s.PreservePermissions = o.PreservePermissions
	s.SkipUnpack = o.SkipUnpack
	s.ForceCAS = o.ForceCAS
	// IgnoreNoName discards the manifest itself: it only makes sense on the
	// store that receives the copy
	s.IgnoreNoName = o.IgnoreNoName && second
	s.DisableOverwrite = o.DisableOverwrite && second
}

// genTitle returns a title (file-store name) and its cleaned form.
func genTitle(rng *rand.Rand) (string, string) {
	for {
		n := 1
		if rng.IntN(3) == 0 {
			n = 2 + rng.IntN(2)
		}
		var parts []string
		for k := 0; k < n; k++ {
			s, _ := genName(rng, rng.IntN(4) == 0)
			if !utf8.ValidString(s) || s == "." || s == ".." {
				s = asciiName(rng, 5)
			}
			parts = append(parts, s)
		}
		t := strings.Join(parts, "/")
		switch rng.IntN(16) {
		case 0:
			t = "./" + t
		case 1:
			t = t + "/"
		case 2:
			if n > 1 {
				t = strings.Replace(t, "/", "//", 1)
			}
		case 3:
			if n > 1 {
				t = strings.Replace(t, "/", "/./", 1)
			}
		case 4:
			t = asciiName(rng, 3) + "/../" + t
		}
		c := path.Clean(t)
		if c == "." || strings.HasPrefix(c, "..") || strings.HasPrefix(c, "/") {
			continue
		}
		return t, c
	}
}

func conflicts(clean string, taken []string) bool {
	for _, t := range taken {
		if t == clean || strings.HasPrefix(t, clean+"/") || strings.HasPrefix(clean, t+"/") {
			return true
		}
	}
	return false
}

var mediaTypes = []string{"", "", "application/vnd.test.c12.blob", "application/octet-stream", "application/vnd.oci.image.layer.v1.tar+gzip", "text/plain"}

// ----------------------------------------------------------------- pipeline

func casePipe(res *worker.Result, rng *rand.Rand, root string, idx int, dupPhase bool) {
	umask := []int{0o022, 0o077, 0o022, 0o077, 0o027, 0}[rng.IntN(6)]
	var o options
	o.TarReproducible = rng.IntN(2) == 0
	o.PreservePermissions = rng.IntN(2) == 0
	o.SkipUnpack = rng.IntN(4) == 0
	o.ForceCAS = rng.IntN(4) == 0
	o.IgnoreNoName = rng.IntN(4) == 0
	if dupPhase {
		o.ForceCAS = rng.IntN(2) == 0
		o.IgnoreNoName = rng.IntN(6) == 0
	}
	mid := []string{"none", "memory", "oci", "remote"}[rng.IntN(4)]
	srcWD := filepath.Join(root, "src")
	dstWD := filepath.Join(root, "dst")
	os.Mkdir(srcWD, 0o755)
	os.Mkdir(dstWD, 0o755)

	// ---- generate items
	var items []*item
	var taken []string
	addItem := func(t *tree) *item {
		var title, clean string
		for {
			title, clean = genTitle(rng)
			if !conflicts(clean, taken) {
				break
			}
		}
		taken = append(taken, clean)
		it := &item{Name: title, Tree: t, MediaType: mediaTypes[rng.IntN(len(mediaTypes))], dupOf: -1}
		switch rng.IntN(3) {
		case 0: // lives in the working directory under its own name
			it.srcPath = filepath.Join(srcWD, filepath.FromSlash(clean))
			it.AddPath = ""
		case 1: // elsewhere, absolute path
			it.srcPath = filepath.Join(root, "else", fmt.Sprint(len(items)), asciiName(rng, 6))
			it.AddPath = it.srcPath
		default: // elsewhere, path relative to the working directory
			it.srcPath = filepath.Join(root, "else", fmt.Sprint(len(items)), asciiName(rng, 6))
			it.AddPath = filepath.Join("..", "else", fmt.Sprint(len(items)), filepath.Base(it.srcPath))
		}
		if (t.Single && rng.IntN(4) == 0) || (!t.Single && rng.IntN(12) == 0) {
			// the path handed to Add is a symbolic link (latest.bin -> release-1.bin) to the real source
			it.Link = []string{"rel", "abs", "chain-rel", "chain-abs"}[rng.IntN(4)]
			n := fmt.Sprint(len(items))
			if it.AddPath == "" {
				it.linkPath = it.srcPath // the link lives in the working directory under the item's name
				if rng.IntN(2) == 0 {    // the real source next to it, or elsewhere
					it.srcPath = filepath.Join(filepath.Dir(it.linkPath), "real-"+n+"-"+asciiName(rng, 5))
				} else {
					it.srcPath = filepath.Join(root, "else", n, "real-"+asciiName(rng, 5))
				}
			} else {
				it.linkPath = filepath.Join(root, "links", n, asciiName(rng, 6))
				if filepath.IsAbs(it.AddPath) {
					it.AddPath = it.linkPath
				} else {
					it.AddPath = filepath.Join("..", "links", n, filepath.Base(it.linkPath))
				}
			}
		}
		items = append(items, it)
		return it
	}
	to := treeOpts{maxDirs: 7, maxFiles: 12, maxLinks: 4, big: rng.IntN(5) == 0, special: rng.IntN(6) == 0, through: rng.IntN(25) == 0, oddNames: rng.IntN(3) == 0, reuse: rng.IntN(2) == 0}
	if dupPhase {
		k := 2 + rng.IntN(3)
		base := genFileTree(rng, treeOpts{big: rng.IntN(8) == 0})
		if rng.IntN(5) == 0 {
			base.Entries[0].Size = 0
		}
		first := addItem(base)
		oneMT := rng.IntN(3) != 0
		for j := 1; j < k; j++ {
			it := addItem(base)
			if oneMT {
				it.MediaType = first.MediaType
			}
			if rng.IntN(3) == 0 { // the very same source file under another name
				it.dupOf = 0
				it.Link, it.linkPath = "", ""
				it.srcPath = first.srcPath
				it.AddPath = first.srcPath
			}
		}
		if rng.IntN(3) == 0 {
			// a directory and, under another name, a plain file with the bytes of its tar+gzip blob (site, site.tar.gz)
			d := addItem(genDirTree(rng, treeOpts{maxDirs: 3, maxFiles: 5, maxLinks: 2}))
			tw := addItem(&tree{Single: true, Entries: []entry{{Type: 'f', Mode: 0o644}}})
			tw.Link, tw.linkPath = "", ""
			if rng.IntN(2) == 0 { // the archive copy lives where its name says, or elsewhere and is given by absolute path
				tw.AddPath = ""
				tw.srcPath = filepath.Join(srcWD, filepath.FromSlash(path.Clean(tw.Name)))
			} else {
				tw.srcPath = filepath.Join(root, "else", "archive-copy", asciiName(rng, 6))
				tw.AddPath = tw.srcPath
			}
			tw.twinOf, tw.TwinOf, tw.twinMT = d, d.Name, rng.IntN(5) != 0
		}
		for j := rng.IntN(3); j > 0; j-- {
			if rng.IntN(2) == 0 {
				addItem(genFileTree(rng, to))
			} else {
				addItem(genDirTree(rng, treeOpts{maxDirs: 3, maxFiles: 5, maxLinks: 2}))
			}
		}
		shared := false
		for _, it := range items {
			if it.dupOf >= 0 {
				shared = true
			}
		}
		if !shared { // dupOf is an index: keep the order when a source is shared
			rng.Shuffle(len(items), func(a, b int) { items[a], items[b] = items[b], items[a] })
		}
	} else {
		n := 1
		if rng.IntN(3) == 0 {
			n = 2 + rng.IntN(2)
		}
		for j := 0; j < n; j++ {
			if rng.IntN(4) == 0 {
				addItem(genFileTree(rng, to))
			} else {
				addItem(genDirTree(rng, to))
			}
		}
	}

	mkind := "" // manifest kind of the root, set when packed
	foreignTitle := ""
	wit := func() map[string]any {
		return map[string]any{"options": o.String(), "intermediate": mid, "umask": fmt.Sprintf("%03o", umask), "manifest": mkind, "foreign_titled_layer": foreignTitle, "items": items}
	}

	// ---- build sources (under a neutral umask), snapshot them
	for _, it := range items {
		if it.dupOf >= 0 {
			it.src = items[it.dupOf].src
			continue
		}
		if it.twinOf != nil {
			continue // written once the directory has been added
		}
		if err := os.MkdirAll(filepath.Dir(it.srcPath), 0o755); err != nil {
			res.Violate("harness:build", err.Error(), wit())
			return
		}
		if err := it.Tree.build(it.srcPath, buildOpts{rng: rng}); err != nil {
			res.Violate("harness:build", err.Error(), wit())
			return
		}
		snap, err := snapshot(it.srcPath)
		if err != nil {
			res.Violate("harness:snapshot", err.Error(), wit())
			return
		}
		it.src = snap
		if it.Link != "" {
			if err := makeLink(rng, root, it); err != nil {
				res.Violate("harness:symlink", err.Error(), wit())
				return
			}
			res.Count("items_added_through_symlink_"+kindOf(it), 1)
			res.Observe("added_through_symlink_kinds", it.Link+"/"+kindOf(it))
		}
	}

	syscall.Umask(umask)
	defer syscall.Umask(0o022)

	fail := func(key, what string) { res.Violate(key, what, wit()) }
	mayRefuse := false
	for _, it := range items {
		if it.Tree.MayRefuse {
			mayRefuse = true
		}
	}
	pipelineErr := func(stage string, err error) {
		if mayRefuse && strings.Contains(err.Error(), "no symbolic link allowed") {
			res.Count("refused_link_through_link", 1)
			res.Key = "refused"
			return
		}
		fail("pipeline-error:"+stage, fmt.Sprintf("%s failed: %v", stage, err))
	}

	// ---- first store: Add, check descriptors, PackManifest
	fs1, err := file.New(srcWD)
	if err != nil {
		fail("harness:file.New", err.Error())
		return
	}
	defer fs1.Close()
	o.apply(fs1, false)
	var addOrder []*item // an archive copy is made after its directory has been added; the layer order is that of items
	for _, it := range items {
		if it.twinOf == nil {
			addOrder = append(addOrder, it)
		}
	}
	for _, it := range items {
		if it.twinOf != nil {
			addOrder = append(addOrder, it)
		}
	}
	for _, it := range addOrder {
		if it.twinOf != nil {
			blob, err := content.FetchAll(ctx, fs1, it.twinOf.desc)
			if err != nil {
				fail("descriptor:fetchall", fmt.Sprintf("FetchAll of directory %s: %v", q(it.twinOf.Name), err))
				return
			}
			if err := os.MkdirAll(filepath.Dir(it.srcPath), 0o755); err != nil {
				fail("harness:build", err.Error())
				return
			}
			if err := os.WriteFile(it.srcPath, blob, 0o644); err != nil {
				fail("harness:build", err.Error())
				return
			}
			os.Chmod(it.srcPath, 0o644)
			it.Tree.Entries[0].Size = len(blob)
			if it.src, err = snapshot(it.srcPath); err != nil {
				fail("harness:snapshot", err.Error())
				return
			}
			if it.twinMT {
				it.MediaType = it.twinOf.desc.MediaType
			}
		}
		d, err := fs1.Add(ctx, it.Name, it.MediaType, it.AddPath)
		if err != nil {
			pipelineErr("Add", err)
			return
		}
		it.desc = d
		if ds := checkDescriptor(fs1, it, res); len(ds) > 0 {
			for _, d := range ds {
				fail(d.Key, fmt.Sprintf("item %s: %s", q(it.Name), d.What))
			}
			return
		}
		if !it.Tree.Single && it.Link != "" {
			// a directory handed to Add through a symbolic link: the archive must hold the directory
			// (reported here, at the first place where it shows, under one key; later it surfaces as
			// an unpack error or, with SkipUnpack, as an archive without the tree)
			if b, err := content.FetchAll(ctx, fs1, d); err == nil {
				if tb, err := gunzipAll(b); err == nil {
					if asnap, _ := archiveSnapshot(tb, path.Clean(it.Name)); asnap != nil && asnap[""].Type != "dir" {
						fail("dir-added-through-symlink:archive-root-is-"+asnap[""].Type, fmt.Sprintf("directory %s added through the symbolic link %s -> %s: the archive made by Add holds %d entries, its root entry is a %s (target %s), not the directory tree of %d entries",
							q(it.Name), q(it.linkPath), q(it.LinkText), len(asnap), asnap[""].Type, q(asnap[""].Target), len(it.src)))
						return
					}
				}
			}
		}
	}
	var layers []ocispec.Descriptor
	for _, it := range items {
		layers = append(layers, it.desc)
	}
	foreignAt := -1
	if dupPhase && rng.IntN(3) == 0 {
		// a foreign (non-distributable) layer with a title: Copy skips it, so it is legitimately absent from every
		// store when the manifest arrives; the names listed after it must be restored all the same
		junk := fillBytes(entry{Size: 64, Fill: 2, Seed: rng.Uint64()})
		fd := ocispec.Descriptor{
			MediaType:   []string{ocispec.MediaTypeImageLayerNonDistributable, ocispec.MediaTypeImageLayerNonDistributableGzip}[rng.IntN(2)], //nolint:staticcheck
			Digest:      digest.FromBytes(junk),
			Size:        int64(1000 + rng.IntN(1<<20)),
			URLs:        []string{"https://layers.example.invalid/" + asciiName(rng, 8)},
			Annotations: map[string]string{ocispec.AnnotationTitle: "foreign-" + asciiName(rng, 6) + ".tar"},
		}
		foreignAt = 0
		if rng.IntN(4) == 0 {
			foreignAt = rng.IntN(len(layers) + 1)
		}
		layers = append(layers[:foreignAt], append([]ocispec.Descriptor{fd}, layers[foreignAt:]...)...)
		foreignTitle = fd.Annotations[ocispec.AnnotationTitle]
		res.Count("dup_cases_with_foreign_titled_layer", 1)
	}
	manifest, kind, err := packRoot(rng, fs1, layers)
	mkind = kind
	if err != nil {
		pipelineErr("Pack("+kind+")", err)
		return
	}
	tag := "v1"
	if err := fs1.Tag(ctx, manifest, tag); err != nil {
		pipelineErr("Tag", err)
		return
	}

	// ---- through the intermediate into the second store
	var from oras.ReadOnlyTarget = fs1
	if mid != "none" {
		h, err := stores.New(mid, nil)
		if err != nil {
			fail("harness:stores.New", err.Error())
			return
		}
		defer h.Close()
		if _, err := oras.Copy(ctx, fs1, tag, h.Target, tag, oras.DefaultCopyOptions); err != nil {
			pipelineErr("Copy(file->"+mid+")", err)
			return
		}
		from = h.Target
	}
	// ---- dup phase: another file may already sit at one of the names, and the store may refuse to overwrite
	if dupPhase && rng.IntN(2) == 0 {
		var singles []*item
		for _, it := range items {
			if it.Tree.Single {
				singles = append(singles, it)
			}
		}
		if len(singles) > 0 {
			it := singles[rng.IntN(len(singles))]
			p := filepath.Join(dstWD, filepath.FromSlash(it.Name))
			other := fillBytes(entry{Size: 1 + rng.IntN(5000), Fill: 2, Seed: rng.Uint64()})
			if err := os.MkdirAll(filepath.Dir(p), 0o755); err != nil {
				fail("harness:plant", err.Error())
				return
			}
			if err := os.WriteFile(p, other, 0o644); err != nil {
				fail("harness:plant", err.Error())
				return
			}
			sum := sha256.Sum256(other)
			it.Planted = hex.EncodeToString(sum[:])
			o.DisableOverwrite = rng.IntN(3) != 0
			res.Count("dup_preexisting_file_planted", 1)
		}
	} else if dupPhase {
		o.DisableOverwrite = rng.IntN(6) == 0
	}
	planted := false
	for _, it := range items {
		if it.Planted != "" {
			planted = true
		}
	}
	// written: the name exists and does not simply still hold the file that was there before
	written := func(it *item) (bool, error) {
		p := filepath.Join(dstWD, filepath.FromSlash(it.Name))
		info, err := os.Lstat(p)
		if err != nil {
			return false, err
		}
		if it.Planted != "" && info.Mode().IsRegular() {
			if sum, _, err := fileSum(p); err == nil && sum == it.Planted {
				return false, fmt.Errorf("the name still holds the file that was there before the copy")
			}
		}
		return true, nil
	}
	refused := func(err error) bool {
		// a store told not to overwrite may refuse the copy; it may not report success and leave the old file
		if o.DisableOverwrite && planted && errors.Is(err, file.ErrOverwriteDisallowed) {
			res.Count("dup_overwrite_refused", 1)
			res.Observe("option_sets", o.String())
			res.Key = fmt.Sprintf("overwrite-refused|%s|%s|%s", o.String(), mid, mkind)
			return true
		}
		return false
	}
	// ---- the second working directory may already hold an earlier version
	prepop := !dupPhase && rng.IntN(3) == 0
	varyDirs := prepop && rng.IntN(4) == 0
	if prepop {
		sums := map[string]int{}
		for _, it := range items {
			if it.Tree.Single {
				sums[it.src[""].Sum]++
			}
		}
		for k, it := range items {
			if rng.IntN(4) == 0 {
				continue
			}
			if it.Tree.Single && sums[it.src[""].Sum] > 1 {
				// equal bytes under two names (e.g. two empty files): with ForceCAS one name is
				// legitimately not written, and an older file left there would be mistaken for it
				continue
			}
			if err := prepopulate(rng, root, dstWD, k, it, o, umask, varyDirs); err != nil {
				fail("harness:prepopulate", err.Error())
				return
			}
			res.Count("prepopulated_items", 1)
			res.Observe("prepopulated_how", it.PreHow)
		}
	}
	fs2, err := file.New(dstWD)
	if err != nil {
		fail("harness:file.New", err.Error())
		return
	}
	defer fs2.Close()
	o.apply(fs2, true)
	copyOpts := oras.DefaultCopyOptions
	copyOpts.Concurrency = []int{0, 1, 2, 8}[rng.IntN(4)]
	if o.IgnoreNoName || rng.IntN(4) == 0 {
		// an IgnoreNoName store discards the manifest and therefore cannot be tagged
		if err := oras.CopyGraph(ctx, from, fs2, manifest, copyOpts.CopyGraphOptions); err != nil {
			if !refused(err) {
				pipelineErr("CopyGraph("+mid+"->file)", err)
			}
			return
		}
	} else {
		got, err := oras.Copy(ctx, from, tag, fs2, tag, copyOpts)
		if err != nil {
			if !refused(err) {
				pipelineErr("Copy("+mid+"->file)", err)
			}
			return
		}
		if got.Digest != manifest.Digest {
			fail("harness:copy-root", "Copy returned another root")
			return
		}
	}

	// ---- compare
	groups := map[string][]*item{} // names with equal bytes: single files, and a directory blob with its archive copy
	for _, it := range items {
		k := it.desc.Digest.String()
		groups[k] = append(groups[k], it)
	}
	nontrivial := false
	var shapes []string
	for _, it := range items {
		st := it.Tree.stats()
		if !it.Tree.Single && st.nontrivial() {
			nontrivial = true
		}
		shapes = append(shapes, it.Tree.shape())
		dstPath := filepath.Join(dstWD, filepath.FromSlash(it.Name))
		fail := fail
		if it.PreHow != "" { // keys of pre-populated targets are kept apart
			fail = func(key, what string) {
				res.Violate(key+":prepopulated", what+" [the target held an earlier version, created "+it.PreHow+"]", wit())
			}
		}
		present, lerr := written(it)
		if len(groups[it.desc.Digest.String()]) > 1 {
			if !present {
				continue // judged per group below
			}
		}
		if !present {
			fail("not-restored:"+kindOf(it), fmt.Sprintf("item %s was not restored under its name (%v)", q(it.Name), lerr))
			continue
		}
		got, err := snapshot(dstPath)
		if err != nil {
			fail("harness:snapshot", err.Error())
			continue
		}
		switch {
		case it.Tree.Single:
			res.Count("items_file", 1)
			if it.Planted != "" {
				res.Count("dup_preexisting_file_overwritten", 1)
			}
			s, g := it.src[""], got[""]
			if g.Type != "file" {
				fail("type-changed:file-to-"+g.Type, fmt.Sprintf("single file %s restored as %s", q(it.Name), g.Type))
			} else if g.Sum != s.Sum || g.Size != s.Size {
				fail("bytes-differ:single-file", fmt.Sprintf("single file %s: source %d bytes %s, restored %d bytes %s", q(it.Name), s.Size, s.Sum[:12], g.Size, g.Sum[:12]))
			}
			want := s.Mode &^ os.FileMode(umask)
			if g.Mode != want {
				res.Count("single_file_mode_differs", 1)
			}
		case o.SkipUnpack:
			res.Count("items_dir_skipunpack", 1)
			g := got[""]
			if g.Type != "file" {
				fail("skipunpack:not-a-file", fmt.Sprintf("directory %s with SkipUnpack restored as %s", q(it.Name), g.Type))
				break
			}
			if "sha256:"+g.Sum != it.desc.Digest.String() || g.Size != it.desc.Size {
				fail("skipunpack:archive-differs", fmt.Sprintf("directory %s with SkipUnpack: restored archive %d bytes sha256:%s, descriptor %d bytes %s", q(it.Name), g.Size, g.Sum[:12], it.desc.Size, it.desc.Digest))
				break
			}
			// what the archive holds is what a user gets from it
			blob, err := os.ReadFile(dstPath)
			if err != nil {
				fail("harness:read", err.Error())
				break
			}
			tarBytes, err := gunzipAll(blob)
			if err != nil {
				fail("archive-unreadable", fmt.Sprintf("directory %s: restored archive is not a gzip stream: %v", q(it.Name), err))
				break
			}
			asnap, ds := archiveSnapshot(tarBytes, path.Clean(it.Name))
			if asnap != nil {
				for _, d := range compareTrees(it.src, asnap, 0, true) {
					d.Key = "archive-" + d.Key
					ds = append(ds, d)
				}
			}
			for _, d := range ds {
				fail(d.Key, fmt.Sprintf("directory %s (archive): %s", q(it.Name), d.What))
			}
		default:
			res.Count("items_dir_unpacked", 1)
			for _, d := range compareTrees(it.src, got, os.FileMode(umask), o.PreservePermissions) {
				if strings.HasPrefix(d.Key, "unjudged:") {
					res.Count(strings.ReplaceAll(d.Key, ":", "_"), 1)
					continue
				}
				what := d.What
				if old, ok := it.oldSnap[d.Rel]; ok {
					what += fmt.Sprintf("; before the copy: %s mode %04o", old.Type, unixMode(old.Mode))
				}
				fail(d.Key, fmt.Sprintf("directory %s: %s", q(it.Name), what))
			}
			res.Count("entries_compared", int64(len(it.src)))
			if it.PreHow != "" {
				for rel, old := range it.oldSnap {
					nw, ok := it.src[rel]
					if !ok {
						continue
					}
					want := nw.Mode
					if !o.PreservePermissions {
						want &^= os.FileMode(umask)
					}
					switch {
					case old.Type == "file" && nw.Type == "file" && old.Mode.Perm() != want.Perm():
						res.Count("prepopulated_files_with_other_mode_replaced", 1)
					case old.Type == "dir" && nw.Type == "dir" && old.Mode.Perm() != want.Perm():
						res.Count("prepopulated_dirs_with_other_mode", 1)
					case old.Type != nw.Type:
						res.Count("prepopulated_type_swaps", 1)
					}
				}
			}
		}
		// the second store serves the bytes of the descriptor it was given
		if b, err := content.FetchAll(ctx, fs2, it.desc); err != nil {
			fail("fetch-from-second-store", fmt.Sprintf("item %s: FetchAll from the second file store: %v", q(it.Name), err))
		} else if int64(len(b)) != it.desc.Size {
			fail("fetch-from-second-store", fmt.Sprintf("item %s: FetchAll from the second file store returned %d bytes, descriptor says %d", q(it.Name), len(b), it.desc.Size))
		}
	}
	// equal bytes under different names
	dupNT := false
	for _, g := range groups {
		if len(g) < 2 {
			continue
		}
		present, sameMT := 0, 0
		mts := map[string]int{}
		var missing []string
		withDir := ""
		stale := false // a missing name still holds the file that was there before
		for n, it := range g {
			if !it.Tree.Single {
				withDir = "dir-first"
				if n > 0 {
					withDir = "archive-first"
				}
			}
			mts[it.desc.MediaType]++
			if ok, _ := written(it); ok {
				present++
			} else {
				missing = append(missing, it.Name)
				if it.Planted != "" {
					stale = true
				}
			}
		}
		for _, n := range mts {
			if n > sameMT {
				sameMT = n
			}
		}
		if sameMT >= 2 {
			dupNT = true
		}
		res.Count("dup_groups", 1)
		switch {
		case o.ForceCAS:
			res.Count("dup_groups_forcecas", 1)
			if present == 0 {
				fail("dup-names:forcecas-none-materialised", fmt.Sprintf("%d names with equal bytes, ForceCAS: none of them exists after the copy", len(g)))
			}
			if present < len(g) {
				res.Count("dup_forcecas_deduped", 1)
			}
		case present < len(g):
			k := "dup-names:not-materialised"
			what := fmt.Sprintf("%d names with equal bytes, ForceCAS off: %d missing after the copy: %s", len(g), len(missing), q(strings.Join(missing, ", ")))
			if o.IgnoreNoName {
				k += ":ignore-no-name"
			} else if stale {
				k += ":preexisting-file-kept"
				what += fmt.Sprintf(" (the copy reported success; the name still holds the other file that was there before; DisableOverwrite=%v)", o.DisableOverwrite)
			}
			fail(k, what)
		default:
			if sameMT >= 2 && withDir != "" {
				res.Count("dup_dir_and_archive_restored", 1)
				res.Observe("dup_dir_and_archive_order_x_concurrency", fmt.Sprintf("%s/%d/unpack=%v", withDir, copyOpts.Concurrency, !o.SkipUnpack))
			}
			if sameMT >= 2 && foreignAt == 0 {
				res.Count("dup_restored_after_foreign_layer", 1)
			}
			if sameMT >= 2 {
				res.Count("dup_restored_by_store", 1)
				res.Observe("dup_restored_under_manifest_kinds", mkind)
				res.Count("dup_restored_under_"+kindClass(mkind), 1)
			}
		}
	}

	sort.Strings(shapes)
	pre := ""
	for _, it := range items {
		pre += it.PreHow + ","
	}
	res.Key = fmt.Sprintf("%s|%s|%s|%03o|%s|%s", strings.Join(shapes, "+"), o.String(), mid, umask, mkind, pre)
	res.Observe("manifest_kinds", mkind)
	res.Observe("manifest_kind_x_intermediate", mkind+"/"+mid)
	res.NT = nontrivial
	if dupPhase {
		res.NT = dupNT
	}
	res.Observe("option_sets", o.String())
	res.Observe("option_x_intermediate_x_umask", fmt.Sprintf("%s/%s/%03o", o.String(), mid, umask))
	for _, it := range items {
		st := it.Tree.stats()
		res.Count("files", int64(st.Files))
		res.Count("dirs", int64(st.Dirs))
		res.Count("symlinks", int64(st.Links))
		res.Count("empty_dirs", int64(st.EmptyDirs))
		res.Count("empty_files", int64(st.EmptyFiles))
		res.Count("long_names", int64(st.LongNames))
		res.Count("long_link_targets", int64(st.LongTargets))
		res.Count("names_repeated_across_levels", int64(st.RepeatedNames))
		if !o.SkipUnpack {
			res.Count("links_named_like_a_deeper_dir_unpacked", int64(st.LinkLikeDeeperDir))
		}
		res.Count("nonascii_names", int64(st.NonASCII))
		res.Count("files_crossing_1MiB", int64(st.Big))
		res.MaxOf("max_depth", int64(st.MaxDepth))
	}
	if idx%61 == 0 {
		sm := sampleOf(items, o, mid, umask)
		sm["manifest"] = mkind
		res.Sample = sm
	}
}

// makeLink creates the symbolic link (or chain of two) that is handed to Add
// in place of the real source.
func makeLink(rng *rand.Rand, root string, it *item) error {
	text := func(from, to string) (string, error) {
		if strings.HasSuffix(it.Link, "abs") {
			return to, nil
		}
		return filepath.Rel(filepath.Dir(from), to)
	}
	if err := os.MkdirAll(filepath.Dir(it.linkPath), 0o755); err != nil {
		return err
	}
	target := it.srcPath
	if strings.HasPrefix(it.Link, "chain") {
		mid := filepath.Join(root, "links", "mid-"+asciiName(rng, 8))
		if err := os.MkdirAll(filepath.Dir(mid), 0o755); err != nil {
			return err
		}
		t, err := text(mid, it.srcPath)
		if err != nil {
			return err
		}
		if err := os.Symlink(t, mid); err != nil {
			return err
		}
		target = mid
	}
	t, err := text(it.linkPath, target)
	if err != nil {
		return err
	}
	it.LinkText = t
	return os.Symlink(t, it.linkPath)
}

func kindOf(it *item) string {
	if it.Tree.Single {
		return "file"
	}
	return "dir"
}

func sampleOf(items []*item, o options, mid string, umask int) map[string]any {
	var its []map[string]any
	for _, it := range items {
		m := map[string]any{"name": q(it.Name), "kind": kindOf(it), "digest": it.desc.Digest.String(), "size": it.desc.Size}
		var es []string
		for n, e := range it.Tree.Entries {
			if n >= 12 {
				es = append(es, fmt.Sprintf("… %d more", len(it.Tree.Entries)-n))
				break
			}
			s := fmt.Sprintf("%c %04o %s", e.Type, unixMode(os.FileMode(e.Mode)), q(e.Rel))
			if e.Type == 'f' {
				s += fmt.Sprintf(" %dB", e.Size)
			}
			if e.Type == 'l' {
				s += " -> " + q(e.Target)
			}
			es = append(es, s)
		}
		m["entries"] = es
		its = append(its, m)
	}
	return map[string]any{"options": o.String(), "intermediate": mid, "umask": fmt.Sprintf("%03o", umask), "items": its}
}

// checkDescriptor: FetchAll of the returned descriptor succeeds, digest and
// size are those of the stored bytes, the recorded uncompressed digest is that
// of the gunzipped blob.
func checkDescriptor(fs *file.Store, it *item, res *worker.Result) []diff {
	var ds []diff
	d := it.desc
	if d.Annotations[ocispec.AnnotationTitle] != it.Name {
		ds = append(ds, diff{"descriptor:title", "", fmt.Sprintf("descriptor title %s, added as %s", q(d.Annotations[ocispec.AnnotationTitle]), q(it.Name))})
	}
	b, err := content.FetchAll(ctx, fs, d)
	if err != nil {
		return append(ds, diff{"descriptor:fetchall", "", "FetchAll of the descriptor returned by Add: " + err.Error()})
	}
	sum := sha256.Sum256(b)
	if d.Digest.String() != "sha256:"+hex.EncodeToString(sum[:]) || d.Size != int64(len(b)) {
		ds = append(ds, diff{"descriptor:digest-size", "", fmt.Sprintf("descriptor %s/%d, stored bytes sha256:%x/%d", d.Digest, d.Size, sum[:6], len(b))})
	}
	res.Count("descriptors_checked", 1)
	if it.Tree.Single {
		s := it.src[""]
		if hex.EncodeToString(sum[:]) != s.Sum || int64(len(b)) != s.Size {
			ds = append(ds, diff{"descriptor:not-the-file", "", "stored bytes differ from the added file"})
		}
		return ds
	}
	if d.Annotations[file.AnnotationUnpack] != "true" {
		ds = append(ds, diff{"descriptor:unpack-annotation", "", "directory descriptor lacks " + file.AnnotationUnpack})
	}
	tarBytes, err := gunzipAll(b)
	if err != nil {
		return append(ds, diff{"descriptor:not-gzip", "", "directory blob is not a gzip stream: " + err.Error()})
	}
	tsum := sha256.Sum256(tarBytes)
	if d.Annotations[file.AnnotationDigest] != "sha256:"+hex.EncodeToString(tsum[:]) {
		ds = append(ds, diff{"descriptor:uncompressed-digest", "", fmt.Sprintf("recorded uncompressed digest %s, gunzipped blob has sha256:%x", d.Annotations[file.AnnotationDigest], tsum[:6])})
	}
	return ds
}

// ---------------------------------------------------------- pre-population

// deriveOld makes an earlier version of a directory tree: the same relative
// paths (some absent), other bytes, other file modes, other link targets,
// some regular files and symlinks swapped; directories stay directories and
// keep their modes unless varyDirs.
func deriveOld(rng *rand.Rand, t *tree, varyDirs bool) *tree {
	old := &tree{}
	var gone []string
	under := func(rel string) bool {
		for _, g := range gone {
			if strings.HasPrefix(rel, g+"/") {
				return true
			}
		}
		return false
	}
	// parents come before children in t.Entries only for directories; handle dirs first
	for _, e := range t.Entries {
		if e.Type != 'd' || under(e.Rel) {
			continue
		}
		if e.Rel != "" && rng.IntN(10) == 0 {
			gone = append(gone, e.Rel)
			continue
		}
		ne := entry{Rel: e.Rel, Type: 'd', Mode: e.Mode, nameCls: e.nameCls}
		if varyDirs && rng.IntN(2) == 0 {
			ne.Mode = pickMode(rng, dirModes, true, false)
		}
		old.Entries = append(old.Entries, ne)
	}
	for _, e := range t.Entries {
		if e.Type == 'd' || under(e.Rel) || rng.IntN(6) == 0 {
			continue
		}
		asFile := e.Type == 'f'
		if rng.IntN(8) == 0 {
			asFile = !asFile
		}
		ne := entry{Rel: e.Rel, nameCls: e.nameCls}
		if asFile {
			ne.Type, ne.Seed, ne.Fill, ne.Size = 'f', rng.Uint64(), rng.IntN(4), pickSize(rng, false)
			for {
				ne.Mode = pickMode(rng, fileModes, false, false)
				if ne.Mode&0o777 != e.Mode&0o777 {
					break
				}
			}
		} else {
			ne.Type, ne.Target = 'l', "old-"+asciiName(rng, 1+rng.IntN(8))
		}
		old.Entries = append(old.Entries, ne)
	}
	return old
}

// prepopulate puts an earlier version of the item under its name into the
// second working directory, either directly or by a pipeline of its own
// through another file store instance on that directory.
func prepopulate(rng *rand.Rand, root, dstWD string, k int, it *item, o options, umask int, varyDirs bool) error {
	dstPath := filepath.Join(dstWD, filepath.FromSlash(it.Name))
	if it.Tree.Single || o.SkipUnpack {
		// a regular file is expected there: leave an older one, longer or shorter
		if err := os.MkdirAll(filepath.Dir(dstPath), 0o755); err != nil {
			return err
		}
		e := entry{Type: 'f', Seed: rng.Uint64(), Fill: rng.IntN(4), Size: pickSize(rng, false), Mode: pickMode(rng, fileModes, false, false)}
		old := &tree{Single: true, Entries: []entry{e}}
		if err := old.build(dstPath, buildOpts{rng: rng}); err != nil {
			return err
		}
		it.Old, it.PreHow = old, "file"
		snap, err := snapshot(dstPath)
		it.oldSnap = snap
		return err
	}
	old := deriveOld(rng, it.Tree, varyDirs)
	it.Old = old
	if rng.IntN(3) == 0 {
		// by an earlier pipeline: another source, another pair of file stores
		it.PreHow = "pipeline"
		srcWD := filepath.Join(root, "oldsrc", fmt.Sprint(k))
		if err := os.MkdirAll(srcWD, 0o755); err != nil {
			return err
		}
		oldSrc := filepath.Join(root, "oldtree", fmt.Sprint(k), "t")
		if err := os.MkdirAll(filepath.Dir(oldSrc), 0o755); err != nil {
			return err
		}
		syscall.Umask(0o022)
		err := old.build(oldSrc, buildOpts{rng: rng})
		syscall.Umask(umask)
		if err != nil {
			return err
		}
		a, err := file.New(srcWD)
		if err != nil {
			return err
		}
		defer a.Close()
		d, err := a.Add(ctx, it.Name, it.MediaType, oldSrc)
		if err != nil {
			return fmt.Errorf("earlier pipeline: Add: %w", err)
		}
		man, err := oras.PackManifest(ctx, a, oras.PackManifestVersion1_1, "application/vnd.test.c12", oras.PackManifestOptions{Layers: []ocispec.Descriptor{d}})
		if err != nil {
			return fmt.Errorf("earlier pipeline: PackManifest: %w", err)
		}
		b, err := file.New(dstWD)
		if err != nil {
			return err
		}
		defer b.Close()
		o.apply(b, true)
		if err := oras.CopyGraph(ctx, a, b, man, oras.DefaultCopyGraphOptions); err != nil {
			return fmt.Errorf("earlier pipeline: CopyGraph: %w", err)
		}
	} else {
		it.PreHow = "direct"
		if err := os.MkdirAll(filepath.Dir(dstPath), 0o755); err != nil {
			return err
		}
		// what an earlier restore would have left: modes after the umask
		cp := &tree{Entries: append([]entry{}, old.Entries...)}
		if !o.PreservePermissions {
			for i := range cp.Entries {
				cp.Entries[i].Mode &^= uint32(umask)
			}
		}
		if err := cp.build(dstPath, buildOpts{rng: rng}); err != nil {
			return err
		}
	}
	snap, err := snapshot(dstPath)
	it.oldSnap = snap
	return err
}

// ----------------------------------------------------------- concurrent Add

// countRaceReports counts DATA RACE blocks with a library frame.
func countRaceReports(dir string, r *evidence.Run) int {
	files, _ := filepath.Glob(filepath.Join(dir, "race*"))
	n := 0
	for _, f := range files {
		b, _ := os.ReadFile(f)
		for _, blk := range strings.Split(string(b), "==================") {
			if !strings.Contains(blk, "WARNING: DATA RACE") {
				continue
			}
			lib := false
			for _, l := range strings.Split(blk, "\n") {
				if strings.Contains(l, "oras.land/oras-go/v2/") && !strings.Contains(l, "verifharness") {
					lib = true
				}
			}
			if lib {
				n++
				r.Violation("race", "data race reported by the race detector in library code", blk)
			} else if strings.Contains(blk, "verifharness") {
				r.Violation("harness:race", "data race inside the harness itself", blk)
			} else {
				n++
				r.Violation("race", "data race reported by the race detector below the library (no harness frame)", blk)
			}
		}
	}
	return n
}

// caseConcurrentAdd: several goroutines add directories at the same time, to
// the same store or to different ones; then the usual oracles on every result.
func caseConcurrentAdd(res *worker.Result, rng *rand.Rand, root string, idx int) {
	nStores := 1 + rng.IntN(3)
	nG := 3 + rng.IntN(6)
	reproducible := rng.IntN(2) == 0
	type job struct {
		it    *item
		store int
		err   error
	}
	var jobs [][]*job // per goroutine
	var all []*job
	var taken []string
	for g := 0; g < nG; g++ {
		var mine []*job
		for k := 2 + rng.IntN(4); k > 0; k-- {
			t := genDirTree(rng, treeOpts{maxDirs: 4, maxFiles: 8, maxLinks: 2, oddNames: rng.IntN(4) == 0, reuse: rng.IntN(3) == 0})
			var title, clean string
			for {
				title, clean = genTitle(rng)
				if !conflicts(clean, taken) {
					break
				}
			}
			taken = append(taken, clean)
			it := &item{Name: title, Tree: t, dupOf: -1}
			it.srcPath = filepath.Join(root, "src", fmt.Sprint(len(all)), "t")
			it.AddPath = it.srcPath
			j := &job{it: it, store: rng.IntN(nStores)}
			mine = append(mine, j)
			all = append(all, j)
		}
		jobs = append(jobs, mine)
	}
	wit := func() map[string]any {
		var its []*item
		for _, j := range all {
			its = append(its, j.it)
		}
		return map[string]any{"stores": nStores, "goroutines": nG, "reproducible": reproducible, "items": its}
	}
	for _, j := range all {
		if err := os.MkdirAll(filepath.Dir(j.it.srcPath), 0o755); err != nil {
			res.Violate("harness:build", err.Error(), nil)
			return
		}
		if err := j.it.Tree.build(j.it.srcPath, buildOpts{rng: rng}); err != nil {
			res.Violate("harness:build", err.Error(), nil)
			return
		}
		snap, err := snapshot(j.it.srcPath)
		if err != nil {
			res.Violate("harness:snapshot", err.Error(), nil)
			return
		}
		j.it.src = snap
	}
	var srcs []*file.Store
	for k := 0; k < nStores; k++ {
		wd := filepath.Join(root, fmt.Sprintf("wd%d", k))
		os.Mkdir(wd, 0o755)
		s, err := file.New(wd)
		if err != nil {
			res.Violate("harness:file.New", err.Error(), nil)
			return
		}
		defer s.Close()
		s.TarReproducible = reproducible
		srcs = append(srcs, s)
	}
	start := make(chan struct{})
	var wg sync.WaitGroup
	for _, mine := range jobs {
		wg.Add(1)
		go func(mine []*job) {
			defer wg.Done()
			<-start
			for _, j := range mine {
				j.it.desc, j.err = srcs[j.store].Add(ctx, j.it.Name, "", j.it.AddPath)
			}
		}(mine)
	}
	close(start)
	wg.Wait()
	res.Count("concurrent_adds", int64(len(all)))
	res.Count("concurrent_add_cases", 1)
	bad := false
	for _, j := range all {
		if j.err != nil {
			res.Violate("concurrent-add:error", fmt.Sprintf("Add of directory %s while %d goroutines add directories to %d stores: %v", q(j.it.Name), nG, nStores, j.err), wit())
			bad = true
			continue
		}
		for _, d := range checkDescriptor(srcs[j.store], j.it, res) {
			res.Violate(d.Key+":concurrent-add", fmt.Sprintf("directory %s added concurrently: %s", q(j.it.Name), d.What), wit())
			bad = true
		}
	}
	if bad {
		return
	}
	// every directory must round-trip
	for k, s := range srcs {
		var layers []ocispec.Descriptor
		var mine []*job
		for _, j := range all {
			if j.store == k {
				layers = append(layers, j.it.desc)
				mine = append(mine, j)
			}
		}
		if len(layers) == 0 {
			continue
		}
		man, err := oras.PackManifest(ctx, s, oras.PackManifestVersion1_1, "application/vnd.test.c12", oras.PackManifestOptions{Layers: layers})
		if err != nil {
			res.Violate("pipeline-error:Pack:concurrent-add", err.Error(), wit())
			return
		}
		dstWD := filepath.Join(root, fmt.Sprintf("dst%d", k))
		os.Mkdir(dstWD, 0o755)
		dst, err := file.New(dstWD)
		if err != nil {
			res.Violate("harness:file.New", err.Error(), nil)
			return
		}
		err = oras.CopyGraph(ctx, s, dst, man, oras.DefaultCopyGraphOptions)
		if err != nil {
			dst.Close()
			res.Violate("pipeline-error:CopyGraph:concurrent-add", fmt.Sprintf("copy of concurrently added directories failed: %v", err), wit())
			return
		}
		for _, j := range mine {
			got, err := snapshot(filepath.Join(dstWD, filepath.FromSlash(j.it.Name)))
			if err != nil {
				res.Violate("not-restored:dir:concurrent-add", fmt.Sprintf("directory %s: %v", q(j.it.Name), err), wit())
				continue
			}
			for _, d := range compareTrees(j.it.src, got, 0o022, false) {
				if strings.HasPrefix(d.Key, "unjudged:") {
					continue
				}
				res.Violate(d.Key+":concurrent-add", fmt.Sprintf("directory %s added concurrently: %s", q(j.it.Name), d.What), wit())
			}
			res.Count("entries_compared", int64(len(j.it.src)))
		}
		dst.Close()
	}
	var shapes []string
	for _, j := range all {
		shapes = append(shapes, j.it.Tree.shape())
	}
	sort.Strings(shapes)
	res.Key = fmt.Sprintf("conc|s%d|g%d|n%d|r%v|%s", nStores, nG, len(all), reproducible, strings.Join(shapes, "+"))
	res.NT = len(all) >= 8
	res.MaxOf("max_concurrent_adders", int64(nG))
	if idx%29 == 0 {
		res.Sample = map[string]any{"phase": "conc", "stores": nStores, "goroutines": nG, "directories": len(all)}
	}
}

// ------------------------------------------------------------ manifest kinds

var leafKinds = []string{"packmanifest-1.1", "packmanifest-1.0", "pack-artifact", "pack-image", "docker-v2"}

const (
	mediaTypeDockerManifest = "application/vnd.docker.distribution.manifest.v2+json"
	mediaTypeDockerConfig   = "application/vnd.docker.container.image.v1+json"
)

// kindClass groups root kinds by the manifest format that lists the layers.
func kindClass(kind string) string {
	switch {
	case strings.HasPrefix(kind, "index("):
		return "index"
	case kind == "pack-artifact":
		return "artifact_manifest"
	case kind == "docker-v2":
		return "docker_manifest"
	}
	return "oci_image_manifest"
}

// packLeaf packs the layers into one manifest of the given kind in the store.
func packLeaf(rng *rand.Rand, s *file.Store, kind string, layers []ocispec.Descriptor) (ocispec.Descriptor, error) {
	switch kind {
	case "packmanifest-1.1":
		return oras.PackManifest(ctx, s, oras.PackManifestVersion1_1, "application/vnd.test.c12", oras.PackManifestOptions{Layers: layers})
	case "packmanifest-1.0":
		return oras.PackManifest(ctx, s, oras.PackManifestVersion1_0, "application/vnd.test.c12.config", oras.PackManifestOptions{Layers: layers})
	case "pack-artifact": // the default of the deprecated Pack: an OCI artifact manifest
		return oras.Pack(ctx, s, "application/vnd.test.c12", layers, oras.PackOptions{})
	case "pack-image":
		return oras.Pack(ctx, s, "application/vnd.test.c12.config", layers, oras.PackOptions{PackImageManifest: true})
	case "docker-v2":
		cfg := []byte(fmt.Sprintf(`{"architecture":"amd64","os":"linux","c12":%d}`, rng.IntN(1<<30)))
		cfgDesc := ocispec.Descriptor{MediaType: mediaTypeDockerConfig, Digest: digest.FromBytes(cfg), Size: int64(len(cfg))}
		if err := s.Push(ctx, cfgDesc, bytes.NewReader(cfg)); err != nil {
			return ocispec.Descriptor{}, fmt.Errorf("docker config: %w", err)
		}
		if layers == nil {
			layers = []ocispec.Descriptor{}
		}
		body, err := json.Marshal(struct {
			SchemaVersion int                  `json:"schemaVersion"`
			MediaType     string               `json:"mediaType"`
			Config        ocispec.Descriptor   `json:"config"`
			Layers        []ocispec.Descriptor `json:"layers"`
		}{2, mediaTypeDockerManifest, cfgDesc, layers})
		if err != nil {
			return ocispec.Descriptor{}, err
		}
		d := ocispec.Descriptor{MediaType: mediaTypeDockerManifest, Digest: digest.FromBytes(body), Size: int64(len(body))}
		return d, s.Push(ctx, d, bytes.NewReader(body))
	}
	return ocispec.Descriptor{}, fmt.Errorf("harness: unknown manifest kind %q", kind)
}

// packRoot packs the layers under a root of a random kind: one manifest, or an
// OCI index over two manifests between which the layers are split (or shared).
func packRoot(rng *rand.Rand, s *file.Store, layers []ocispec.Descriptor) (ocispec.Descriptor, string, error) {
	if rng.IntN(6) != 0 {
		kind := leafKinds[rng.IntN(len(leafKinds))]
		d, err := packLeaf(rng, s, kind, layers)
		return d, kind, err
	}
	ka, kb := leafKinds[rng.IntN(len(leafKinds))], leafKinds[rng.IntN(len(leafKinds))]
	kind := "index(" + ka + "," + kb + ")"
	var la, lb []ocispec.Descriptor
	for i, l := range layers {
		switch {
		case len(layers) == 1 || rng.IntN(5) == 0: // shared by both
			la, lb = append(la, l), append(lb, l)
		case i == 0:
			la = append(la, l)
		case i == 1:
			lb = append(lb, l)
		case rng.IntN(2) == 0:
			la = append(la, l)
		default:
			lb = append(lb, l)
		}
	}
	da, err := packLeaf(rng, s, ka, la)
	if err != nil {
		return da, kind, err
	}
	db, err := packLeaf(rng, s, kb, lb)
	if err != nil {
		return db, kind, err
	}
	if da.Digest == db.Digest {
		return da, kind + ":collapsed", nil
	}
	idx := ocispec.Index{MediaType: ocispec.MediaTypeImageIndex, Manifests: []ocispec.Descriptor{da, db}}
	idx.SchemaVersion = 2
	body, err := json.Marshal(idx)
	if err != nil {
		return ocispec.Descriptor{}, kind, err
	}
	d := ocispec.Descriptor{MediaType: ocispec.MediaTypeImageIndex, Digest: digest.FromBytes(body), Size: int64(len(body))}
	return d, kind, s.Push(ctx, d, bytes.NewReader(body))
}

// -------------------------------------------------------------------- repro

func sameDescriptor(a, b ocispec.Descriptor) bool {
	if a.MediaType != b.MediaType || a.Digest != b.Digest || a.Size != b.Size || len(a.Annotations) != len(b.Annotations) {
		return false
	}
	for k, v := range a.Annotations {
		if b.Annotations[k] != v {
			return false
		}
	}
	return true
}

func caseRepro(res *worker.Result, rng *rand.Rand, root string, idx int) {
	to := treeOpts{maxDirs: 6, maxFiles: 10, maxLinks: 4, big: rng.IntN(12) == 0, special: rng.IntN(6) == 0, oddNames: rng.IntN(3) == 0}
	t := genDirTree(rng, to)
	title, clean := genTitle(rng)
	mt := mediaTypes[rng.IntN(len(mediaTypes))]
	hard, chown := rng.IntN(2) == 0, rng.IntN(2) == 0
	wit := func() map[string]any {
		return map[string]any{"title": title, "tree": t, "twin_b_hardlinks": hard, "twin_b_chown": chown}
	}
	var descs, plain [2]ocispec.Descriptor
	for k := 0; k < 2; k++ {
		wd := filepath.Join(root, []string{"a", "b"}[k])
		os.Mkdir(wd, 0o755)
		// twin a lives under its name, twin b elsewhere under another base name
		src := filepath.Join(wd, filepath.FromSlash(clean))
		addPath := ""
		if k == 1 && rng.IntN(2) == 0 {
			src = filepath.Join(root, "elsewhere", asciiName(rng, 7))
			addPath = src
		}
		os.MkdirAll(filepath.Dir(src), 0o755)
		if err := t.build(src, buildOpts{rng: rng, hardlinks: k == 1 && hard, chown: k == 1 && chown}); err != nil {
			res.Violate("harness:build", err.Error(), wit())
			return
		}
		for pass, reproducible := range []bool{true, false} {
			fs, err := file.New(wd)
			if err != nil {
				res.Violate("harness:file.New", err.Error(), wit())
				return
			}
			fs.TarReproducible = reproducible
			d, err := fs.Add(ctx, title, mt, addPath)
			fs.Close()
			if err != nil {
				res.Violate("pipeline-error:Add", fmt.Sprintf("Add(TarReproducible=%v): %v", reproducible, err), wit())
				return
			}
			if pass == 0 {
				descs[k] = d
			} else {
				plain[k] = d
			}
		}
	}
	if !sameDescriptor(descs[0], descs[1]) {
		k := "reproducible:descriptors-differ"
		res.Violate(k, fmt.Sprintf("two trees equal in names, modes, link targets and contents (different timestamps%s%s) under TarReproducible give %s/%d %v and %s/%d %v",
			map[bool]string{true: ", hard links in one", false: ""}[hard], map[bool]string{true: ", other owners in one", false: ""}[chown],
			descs[0].Digest, descs[0].Size, descs[0].Annotations[file.AnnotationDigest], descs[1].Digest, descs[1].Size, descs[1].Annotations[file.AnnotationDigest]), wit())
		return
	}
	res.Count("repro_equal_descriptors", 1)
	if !sameDescriptor(plain[0], plain[1]) {
		res.Count("repro_timestamps_mattered", 1) // without the option the twins do differ: the test is not vacuous
	}
	if hard {
		res.Count("repro_with_hardlinks", 1)
	}
	if chown {
		res.Count("repro_with_other_owner", 1)
	}
	st := t.stats()
	res.Key = fmt.Sprintf("%s|h%v|c%v", t.shape(), hard, chown)
	res.NT = st.nontrivial()
	if idx%67 == 0 {
		res.Sample = map[string]any{"phase": "repro", "title": q(title), "entries": len(t.Entries), "hardlinks": hard, "chown": chown, "descriptor": descs[0].Digest.String()}
	}
}

// ------------------------------------------------------------------- tamper

func caseTamper(res *worker.Result, rng *rand.Rand, root string, idx int) {
	to := treeOpts{maxDirs: 5, maxFiles: 8, maxLinks: 3, big: rng.IntN(15) == 0, oddNames: rng.IntN(3) == 0, reuse: rng.IntN(3) == 0}
	t := genDirTree(rng, to)
	title, _ := genTitle(rng)
	umask := []int{0o022, 0o077}[rng.IntN(2)]
	preserve := rng.IntN(2) == 0
	wit := func() map[string]any { return map[string]any{"title": title, "tree": t, "preserve": preserve} }
	srcWD := filepath.Join(root, "src")
	os.Mkdir(srcWD, 0o755)
	src := filepath.Join(root, "tree")
	if err := t.build(src, buildOpts{rng: rng}); err != nil {
		res.Violate("harness:build", err.Error(), wit())
		return
	}
	snap, err := snapshot(src)
	if err != nil {
		res.Violate("harness:snapshot", err.Error(), wit())
		return
	}
	syscall.Umask(umask)
	defer syscall.Umask(0o022)
	fs1, err := file.New(srcWD)
	if err != nil {
		res.Violate("harness:file.New", err.Error(), wit())
		return
	}
	defer fs1.Close()
	fs1.TarReproducible = rng.IntN(2) == 0
	desc, err := fs1.Add(ctx, title, "", src)
	if err != nil {
		res.Violate("pipeline-error:Add", err.Error(), wit())
		return
	}
	blob, err := content.FetchAll(ctx, fs1, desc)
	if err != nil {
		res.Violate("descriptor:fetchall", err.Error(), wit())
		return
	}
	tarBytes, err := gunzipAll(blob)
	if err != nil {
		res.Violate("descriptor:not-gzip", err.Error(), wit())
		return
	}
	withAnn := func(d ocispec.Descriptor, k, v string) ocispec.Descriptor {
		out := d
		out.Annotations = map[string]string{}
		for kk, vv := range d.Annotations {
			out.Annotations[kk] = vv
		}
		out.Annotations[k] = v
		return out
	}
	n := 0
	push := func(d ocispec.Descriptor, b []byte, viaCopy bool) (string, error) {
		n++
		wd := filepath.Join(root, fmt.Sprintf("t%d", n))
		os.Mkdir(wd, 0o755)
		fs, err := file.New(wd)
		if err != nil {
			return wd, err
		}
		defer fs.Close()
		fs.PreservePermissions = preserve
		if !viaCopy {
			return wd, fs.Push(ctx, d, bytes.NewReader(b))
		}
		m := memory.New()
		if err := m.Push(ctx, d, bytes.NewReader(b)); err != nil {
			return wd, fmt.Errorf("harness: memory push: %w", err)
		}
		man, err := oras.PackManifest(ctx, m, oras.PackManifestVersion1_1, "application/vnd.test.c12", oras.PackManifestOptions{Layers: []ocispec.Descriptor{d}})
		if err != nil {
			return wd, fmt.Errorf("harness: pack: %w", err)
		}
		return wd, oras.CopyGraph(ctx, m, fs, man, oras.DefaultCopyGraphOptions)
	}

	// control: the untampered blob is accepted and restored
	wd, err := push(desc, blob, rng.IntN(3) == 0)
	if err != nil {
		res.Violate("tamper-control:refused", fmt.Sprintf("untampered directory blob refused: %v", err), wit())
		return
	}
	got, err := snapshot(filepath.Join(wd, filepath.FromSlash(title)))
	if err != nil {
		res.Violate("not-restored:dir", fmt.Sprintf("untampered directory blob pushed, tree unreadable: %v", err), wit())
		return
	}
	for _, d := range compareTrees(snap, got, os.FileMode(umask), preserve) {
		if strings.HasPrefix(d.Key, "unjudged:") {
			res.Count(strings.ReplaceAll(d.Key, ":", "_"), 1)
			continue
		}
		res.Violate(d.Key, "direct push: "+d.What, wit())
	}
	res.Count("tamper_control_accepted", 1)
	// control 2: the right digest under another algorithm is accepted too
	s512 := sha512.Sum512(tarBytes)
	if _, err := push(withAnn(desc, file.AnnotationDigest, "sha512:"+hex.EncodeToString(s512[:])), blob, false); err != nil {
		res.Violate("tamper-control:sha512-refused", fmt.Sprintf("correct sha512 uncompressed digest refused: %v", err), wit())
	} else {
		res.Count("tamper_control_sha512_accepted", 1)
	}

	refused := func(variant string, d ocispec.Descriptor, b []byte) {
		viaCopy := rng.IntN(3) == 0
		_, err := push(d, b, viaCopy)
		if err != nil && strings.HasPrefix(err.Error(), "harness:") {
			res.Violate("harness:tamper", err.Error(), wit())
			return
		}
		if err == nil {
			w := wit()
			w["variant"] = variant
			w["via_copy"] = viaCopy
			res.Violate("tamper-accepted:"+variant, fmt.Sprintf("directory blob whose %s does not match was unpacked without error (via Copy: %v)", file.AnnotationDigest, viaCopy), w)
			return
		}
		res.Count("tamper_refused", 1)
		res.Observe("tamper_variants", variant)
	}
	// (a) recorded digest is that of other bytes
	other := sha256.Sum256(append([]byte("x"), tarBytes...))
	refused("wrong-sha256", withAnn(desc, file.AnnotationDigest, "sha256:"+hex.EncodeToString(other[:])), blob)
	// (a') one hex digit off
	ann := desc.Annotations[file.AnnotationDigest]
	flipped := []byte(ann)
	pos := len("sha256:") + rng.IntN(64)
	if flipped[pos] == '0' {
		flipped[pos] = '1'
	} else {
		flipped[pos] = '0'
	}
	refused("one-digit-off", withAnn(desc, file.AnnotationDigest, string(flipped)), blob)
	// (b) wrong digest under another algorithm
	o512 := sha512.Sum512(append([]byte("x"), tarBytes...))
	refused("wrong-sha512", withAnn(desc, file.AnnotationDigest, "sha512:"+hex.EncodeToString(o512[:])), blob)
	// (c) the archive was changed, the recorded digest kept; blob digest and size are consistent
	if tt, how, err := tamperTar(rng, tarBytes); err == nil {
		gz := gzipAll(tt)
		d := withAnn(desc, file.AnnotationDigest, ann)
		d.Digest = digest.FromBytes(gz)
		d.Size = int64(len(gz))
		refused("archive-changed:"+how, d, gz)
	} else {
		res.Violate("harness:tamperTar", err.Error(), wit())
	}
	// unjudged: a recorded digest that is not a digest at all
	if _, err := push(withAnn(desc, file.AnnotationDigest, "sha256:zz"), blob, false); err == nil {
		res.Count("unparseable_digest_accepted_unjudged", 1)
	} else {
		res.Count("unparseable_digest_refused_unjudged", 1)
	}
	st := t.stats()
	res.Key = fmt.Sprintf("%s|p%v|%03o", t.shape(), preserve, umask)
	res.NT = st.nontrivial()
	res.Evals = 1
	if idx%71 == 0 {
		res.Sample = map[string]any{"phase": "tamper", "title": q(title), "entries": len(t.Entries), "blob": desc.Digest.String(), "uncompressed": ann}
	}
}
