package main

import (
	"fmt"
	"os"
	"time"

	"oras.land/oras-go/v2/verifharness/evidence"
	"oras.land/oras-go/v2/verifharness/worker"
)

func main() {
	if worker.IsWorker() {
		worker.Serve(func(phase string, i int) worker.Result {
			switch {
			case phase == "spin" && i == 3:
				for {
				}
			case phase == "sleep" && i == 3:
				time.Sleep(time.Hour)
			default:
				time.Sleep(1500 * time.Millisecond) // slow but progressing: 10 cases take 15 s > timeout
			}
			return worker.Result{Key: fmt.Sprint(i), NT: true}
		})
		return
	}
	os.Setenv("VERIF_ROOT", "/tmp/dbgroot")
	os.MkdirAll("/tmp/dbgroot/evidence", 0o755)
	os.WriteFile("/tmp/dbgroot/known_findings.json", []byte(`{"findings":[]}`), 0o644)
	r := evidence.New("C99", "exploration")
	worker.Run(r, worker.Opts{Phase: "slow", Total: 10, Batch: 10, Parallel: 1, Timeout: 5 * time.Second})
	worker.Run(r, worker.Opts{Phase: "spin", Total: 6, Batch: 6, Parallel: 1, Timeout: 5 * time.Second})
	worker.Run(r, worker.Opts{Phase: "sleep", Total: 6, Batch: 6, Parallel: 1, Timeout: 5 * time.Second})
	r.Finish(1)
}
