package main

import (
	"bytes"
	"context"
	_ "crypto/sha256"
	_ "crypto/sha512"
	"fmt"
	"time"

	"oras.land/oras-go/v2/verifharness/copymon"
	"oras.land/oras-go/v2/verifharness/evidence"
	"oras.land/oras-go/v2/verifharness/stores"
)

func main() {
	ctx := context.Background()
	rng := evidence.RandFor(23, "c04-acct", 8494)
	c := copymon.GenCase(rng, copymon.GenOpts{MaxNodes: 100, APIs: []string{"Copy", "CopyGraph", "CopyGraph", "ExtendedCopyGraph"}, MaxDelay: 1500 * time.Microsecond, RaceWriter: true, Trees: true, OptionalCB: true})
	g := c.G
	h, err := stores.New("remote", c.Profile)
	fmt.Println(err)
	for _, id := range g.TopoChildrenFirst() {
		nd := g.Nodes[id]
		err := h.Target.Push(ctx, nd.Desc, bytes.NewReader(nd.Bytes))
		if err != nil {
			fmt.Println("push", id, nd.Kind, err)
		}
		if id == 88 || id == 87 {
			ok, e := h.Target.Exists(ctx, nd.Desc)
			fmt.Println("exists", id, ok, e)
		}
	}
	r := h.Reg.Repo("test/repo")
	_, ok := r.Manifests[g.Nodes[88].Desc.Digest]
	fmt.Println("88 in manifests:", ok, len(r.Manifests), len(r.Blobs))
	_, okb := r.Blobs[g.Nodes[88].Desc.Digest]
	fmt.Println("88 in blobs:", okb)
	for _, rec := range h.Reg.Log() {
		if len(rec.Path) > 0 && (bytes.Contains([]byte(rec.Path), []byte("7dbc18dd")) || bytes.Contains([]byte(rec.RawQuery), []byte("7dbc18dd"))) {
			fmt.Println(rec.Method, rec.Path, rec.RawQuery, rec.Status)
		}
	}
}

func init() {
	defer func() { recover() }()
}
