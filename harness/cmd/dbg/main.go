package main

import (
	"bytes"
	"context"
	_ "crypto/sha256"
	"encoding/json"
	"fmt"
	"os"

	"github.com/opencontainers/go-digest"
	ocispec "github.com/opencontainers/image-spec/specs-go/v1"
	"oras.land/oras-go/v2/content/oci"
)

func main() {
	ctx := context.Background()
	dir, _ := os.MkdirTemp("", "dbg")
	defer os.RemoveAll(dir)
	s, _ := oci.New(dir)
	s.AutoGC = true
	cfg := []byte("{}cfg")
	lay := []byte("layer")
	cd := ocispec.Descriptor{MediaType: "application/vnd.oci.image.config.v1+json", Digest: digest.FromBytes(cfg), Size: int64(len(cfg))}
	ld := ocispec.Descriptor{MediaType: ocispec.MediaTypeImageLayer, Digest: digest.FromBytes(lay), Size: int64(len(lay))}
	m := ocispec.Manifest{MediaType: ocispec.MediaTypeImageManifest, Config: cd, Layers: []ocispec.Descriptor{ld}}
	m.SchemaVersion = 2
	mb, _ := json.Marshal(m)
	md := ocispec.Descriptor{MediaType: ocispec.MediaTypeImageManifest, Digest: digest.FromBytes(mb), Size: int64(len(mb))}
	s.Push(ctx, cd, bytes.NewReader(cfg))
	r, err := s.Resolve(ctx, cd.Digest.String())
	fmt.Println("resolve", r.MediaType, err)
	fmt.Println("tag", s.Tag(ctx, r, "sig"))
	if len(os.Args) > 1 {
		fmt.Println("gc", s.GC(ctx))
	}
	s.Push(ctx, ld, bytes.NewReader(lay))
	s.Push(ctx, md, bytes.NewReader(mb))
	fmt.Println("untag", s.Untag(ctx, "sig"))
	fmt.Println("delete", s.Delete(ctx, md))
	for _, d := range []ocispec.Descriptor{cd, ld, md} {
		ok, _ := s.Exists(ctx, d)
		fmt.Println(d.MediaType, ok)
	}
}
