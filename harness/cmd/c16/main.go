// C16 — The auth client keeps each registry's secrets and tokens to that registry.
//
// Monitor: one auth.Client (cache flavour none / NewCache / NewSingleContextCache)
// talks to a hostile in-process world of several registries and token services
// (package authmodel, an http.RoundTripper without sockets). Every outgoing
// request is scanned at that innermost transport for every secret that exists in
// the world and judged against the statement (who may see which secret, which
// token may be reused where); every answer handed back to the caller is compared
// with what the registry model answered (non-401, at most three sends, at most one
// token fetch). Phase "seq" runs random histories with mid-history scheme changes,
// token expiry and realm moves; phase "conc" runs concurrent mixes in which token
// fetches are held until every concurrent request has entered Cache.Set (hook
// auth.cache.set.enter) and then owners / waiters of the in-flight fetch are
// cancelled; phase "race" repeats "conc" under the race detector.
package main

import (
	"bytes"
	"context"
	_ "crypto/sha256"
	_ "crypto/sha512"
	"encoding/json"
	"errors"
	"fmt"
	"math/rand/v2"
	"net/http"
	"os"
	"path/filepath"
	"runtime"
	"sort"
	"strings"
	"sync"
	"sync/atomic"
	"time"

	"oras.land/oras-go/v2/internal/verifhook"
	"oras.land/oras-go/v2/registry"
	"oras.land/oras-go/v2/registry/remote/auth"
	"oras.land/oras-go/v2/verifharness/authmodel"
	"oras.land/oras-go/v2/verifharness/evidence"
	"oras.land/oras-go/v2/verifharness/worker"
)

func main() {
	if worker.IsWorker() {
		worker.Serve(runCase)
		return
	}
	if dbg := os.Getenv("C16_DEBUG"); dbg != "" { // C16_DEBUG=phase:case prints one case
		var ph string
		var i int
		ph, rest, _ := strings.Cut(dbg, ":")
		fmt.Sscanf(rest, "%d", &i)
		res := runCase(ph, i)
		b, _ := json.MarshalIndent(map[string]any{"result": res, "ops": lastEnv.ops, "events": lastEnv.world.Events(0)}, "", " ")
		fmt.Println(string(b))
		return
	}
	if scan := os.Getenv("C16_SCAN"); scan != "" { // C16_SCAN=phase:from-to:counter lists the cases that bumped a counter
		var from, to int
		p := strings.Split(scan, ":")
		fmt.Sscanf(p[1], "%d-%d", &from, &to)
		for i := from; i < to; i++ {
			res := runCase(p[0], i)
			if res.Cnt[p[2]] > 0 {
				fmt.Println(i, res.Cnt[p[2]])
			}
		}
		return
	}
	r := evidence.New("C16", "exploration")
	r.Rule("case = (2-4 registry hosts out of a pool incl. same name/different port, each with own credential {user+password, +refresh token, refresh only, static access token, wrong password, none}, Bearer registries optionally granting anonymous pull (then often with no credential configured), " +
		"scheme {Basic, Bearer, open, unknown}, optionally redirecting (301/302/307/308, all paths or blobs, before or after authentication) to another registry or to a blob-store host with or without credentials of its own, realm on {own host, foreign token host (possibly shared), another registry's host}; one auth.Client with cache flavour {none, NewCache, NewSingleContextCache}, ForceAttemptOAuth2 on/off). " +
		"Repository names include host:port/ prefixes and several colons (scope type ends at the first colon, actions start after the last). seq: the caller uses fresh requests, or one http.Header value for all its requests, or clones and re-addresses its previous *http.Request; history of 8-30 ops (requests GET/HEAD/POST/PUT/DELETE/ping/catalog/mount with scope hints {none, exact, oddly written, superset, extra repo, for another host, global}, token expiry, scheme change, realm move). " +
		"conc: warm-up, then rounds of groups of identical cold requests released together with background traffic to other hosts; the token endpoint or the credential helper is held until all entered Cache.Set, then nobody / the fetch owner (once or twice in a row) / a waiter has its context ended by the harness with context.Canceled or context.DeadlineExceeded (manual contexts, no wall clock); plus cancelled-caller probes (1-3 requests whose context ends in the hook on entering Cache.Set, then a live request for the same key that must complete; refuted by goroutine dumps, not by time), shared-context rounds (6-12 concurrent requests for different repositories under ONE context whose 3/5/6 hints were appended successively, first 401s delivered together), late-join probes (also with L and R naming one scope set in different orders over prefix-related repository names such as app / app-cache; L held inside the fetch, waiter W cancelled and returned, R seen inside Once.Do while the fetch is still held: one fetch and L's token are demanded), unsynchronised storms and, for the single-context cache, probes of 3-8 concurrent requests with different scopes to one host that enter the host-keyed Cache.Set together (spin barrier in the hook). " +
		"Every request at the innermost transport is scanned for every secret (raw, base64, form/query-decoded); every returned response is matched with the registry model's last answer. " +
		"distinct = hash(flavour, force, per-registry (scheme, realm kind, credential kind), op / round shapes); non-trivial = at least one send happened while the client held a secret or token of another host, and (seq) a cached token was presented by a request other than the one that fetched it, or the flavour is none, " +
		"(conc) at least one group had >= 2 live requests and its token fetch or credential lookup was held while all of them were inside Cache.Set (for flavour none: all held at once)")
	r.Assume("the world's transport is in-process (no sockets): it honours req.Context() and returns the context's error, which http.Client.Do wraps in *url.Error as net/http does")
	r.Assume("NewSingleContextCache is host-keyed by documentation: scope-set equality of reused tokens is demanded for NewCache / no cache only; host, scheme and the liveness clause are demanded for it too, also when several scopes are requested from one host concurrently (mixed storms and the hook-synchronised single-context probe)")
	r.Assume("valid credentials = every secret the client was given for the host is the one the registry / its token service accepts and suffices for the registry's scheme; no credential at all (EmptyCredential) counts as valid for GET/HEAD requests to a Bearer registry whose token service grants anonymous pull, and is not judged anywhere else")
	r.Assume("interleavings of the concurrent phases are sampled, not enumerated; coalescing of a late request depends on scheduling and is counted, never demanded")

	worker.Run(r, worker.Opts{Phase: "seq", Total: r.N(6000, 150000), Batch: r.N(125, 500)})
	worker.Run(r, worker.Opts{Phase: "conc", Total: r.N(2400, 60000), Batch: r.N(50, 200)})
	if bin := os.Getenv("VERIF_RACE_BIN"); bin != "" {
		raceDir, _ := os.MkdirTemp("", "verif-c16-race-")
		defer os.RemoveAll(raceDir)
		worker.Run(r, worker.Opts{Phase: "race", Total: r.N(600, 12000), Batch: r.N(25, 100), Bin: bin,
			Env: []string{"GORACE=halt_on_error=0 exitcode=0 log_path=" + filepath.Join(raceDir, "race")}})
		n := countRaceReports(raceDir, r)
		r.Set("race_reports_in_library", n)
		os.RemoveAll(raceDir)
	} else {
		r.Set("race_phase", "skipped: VERIF_RACE_BIN not set")
	}
	// coverage floors besides the distinct-case floor: the dependent sub-verdicts
	// are void if the hook was never reached or nothing was ever coalesced
	if r.Counter("hook_auth_cache_set_enter") == 0 {
		r.Inconclusive("hook auth.cache.set.enter never reached: coalescing rounds were not synchronised")
	}
	floor := r.N(4000, 100000)
	if r.Counter("shared_context_rounds") < int64(r.N(200, 5000)) || r.Counter("redirected_requests") < int64(r.N(1500, 40000)) ||
		r.Counter("late_join_probes") < int64(r.N(150, 4000)) || r.Counter("coalesced_groups") < int64(r.N(800, 25000)) || r.Counter("handovers_after_cancelled_owner") < int64(r.N(300, 10000)) {
		fmt.Printf("BROKEN: property=C16 too few coalescing observations (coalesced_groups=%d handovers=%d late_join_probes=%d shared_context_rounds=%d redirected_requests=%d)\n",
			r.Counter("coalesced_groups"), r.Counter("handovers_after_cancelled_owner"), r.Counter("late_join_probes"), r.Counter("shared_context_rounds"), r.Counter("redirected_requests"))
		code := r.Write(floor)
		if code == 0 {
			code = 2
		}
		os.Exit(code)
	}
	r.Finish(floor)
}

// countRaceReports counts DATA RACE blocks with a library frame.
func countRaceReports(dir string, r *evidence.Run) int {
	files, _ := filepath.Glob(filepath.Join(dir, "race*"))
	n := 0
	seen := map[string]bool{}
	for _, f := range files {
		b, _ := os.ReadFile(f)
		for _, blk := range strings.Split(string(b), "==================") {
			if !strings.Contains(blk, "WARNING: DATA RACE") {
				continue
			}
			lib := false
			var sig []string
			for _, l := range strings.Split(blk, "\n") {
				t := strings.TrimSpace(l)
				if strings.Contains(l, "oras.land/oras-go/v2/") && !strings.Contains(l, "verifharness") {
					lib = true
				}
				if strings.HasSuffix(t, ")") && !strings.HasPrefix(t, "/") {
					sig = append(sig, t[:strings.LastIndex(t, "(")])
				}
			}
			k := strings.Join(sig, "|")
			if seen[k] {
				continue
			}
			seen[k] = true
			if lib {
				n++
				r.Violation("race", "data race reported by the race detector in library code", blk)
			} else {
				r.Violation("harness:race", "data race inside the harness itself", blk)
			}
		}
	}
	return n
}

// ---------------------------------------------------------------------------
// case environment

type regSpec struct {
	Host      string `json:"host"`
	Scheme    string `json:"scheme"`
	RealmKind string `json:"realm_kind"`
	CredKind  string `json:"cred_kind"`
	Redirect  string `json:"redirect,omitempty"`
	Anonymous bool   `json:"anonymous_pull,omitempty"`
	redirects bool
	cred      auth.Credential
	model     *authmodel.Registry
	touched   bool
	lastSpec  *reqSpec
}

type reqSpec struct {
	Reg     int                 `json:"reg"`
	Method  string              `json:"method"`
	Path    string              `json:"path"`
	Body    []byte              `json:"-"`
	PerHost map[string][]string `json:"per_host_hints,omitempty"`
	Global  []string            `json:"global_hints,omitempty"`
	Shape   string              `json:"shape"`
	HintAPI int                 `json:"hint_api"`
	baseCtx context.Context
}

var lastEnv *env

type env struct {
	callerMode   int
	callerHeader http.Header
	prevReq      *http.Request
	hookCancel   atomic.Pointer[cancelInHook]
	sendBar      atomic.Pointer[sendBarrier]
	colonRepos   bool
	probe        atomic.Pointer[barrier]
	caseIdx      int
	rng          *rand.Rand
	phase        string
	flavour      string
	force        bool
	world        *authmodel.World
	regs         []*regSpec
	client       *auth.Client
	corrN        atomic.Int64
	res          *worker.Result
	resMu        sync.Mutex
	gate         *gate
	hooks        atomic.Int64
	repos        []string
	ops          []string // op log for witnesses
	violN        int
	stop         bool // a violation was recorded: stop the case
}

var prefixPairs = [][2]string{{"foo", "foo/bar"}, {"app", "app-cache"}, {"lib", "lib2"}, {"img", "img.v2"}, {"base", "base/os-1"}}

var hostPool = []string{"reg-a.test", "reg-b.test:5000", "reg-b.test", "reg-c.test:443", "localhost:5000", "10.0.0.7:8443", "registry.example.org"}
var authHosts = []string{"auth-x.test", "auth-y.test:8443"}

func secret(rng *rand.Rand, tag string, hard bool) string {
	if hard {
		// characters that need escaping in forms / are meaningful in headers
		return fmt.Sprintf("%s+/=&:%x zé%%", tag, rng.Uint64())
	}
	return fmt.Sprintf("%s-%x", tag, rng.Uint64())
}

func newEnv(rng *rand.Rand, phase string, seed int64, i int, res *worker.Result) *env {
	e := &env{rng: rng, phase: phase, res: res}
	switch x := rng.IntN(10); {
	case x < 5:
		e.flavour = "shared"
	case x < 8:
		e.flavour = "single"
	default:
		e.flavour = "none"
	}
	e.force = rng.IntN(3) == 0
	e.world = authmodel.NewWorld(uint64(seed)*1000003+uint64(i)*7+uint64(len(phase)), e.flavour)
	// repository names; some carry colons (a host:port/ prefix as mirrors and
	// pull-through caches use, or several colons): in a scope string
	// type:name:actions the type ends at the FIRST colon and the actions start
	// after the LAST one
	e.repos = shuffled(rng, []string{"app", "team/app", "lib/base", "a/b/c"})[:1+rng.IntN(3)]
	e.repos = append(e.repos, shuffled(rng, []string{"mirror.local:5000/app", "cache:443/ns:stage/app", "proxy:8080/lib/base"})[:rng.IntN(3)]...)
	// pairs of names one of which is a prefix of the other, the next character
	// sorting before ':' ('/', '-', '.', a digit): the canonical order of two
	// scope strings is then not the order of their resource names
	if rng.IntN(2) == 0 {
		pp := prefixPairs[rng.IntN(len(prefixPairs))]
		e.repos = append(e.repos, pp[0], pp[1])
	}
	if len(e.repos) < 2 {
		e.repos = append(e.repos, "lib/extra")
	}
	for _, rp := range e.repos {
		if strings.Contains(rp, ":") {
			e.colonRepos = true
		}
	}

	nReg := 2 + rng.IntN(3)
	hosts := append([]string{}, hostPool...)
	rng.Shuffle(len(hosts), func(a, b int) { hosts[a], hosts[b] = hosts[b], hosts[a] })
	if rng.IntN(3) == 0 { // force the same-name / other-port pair
		rest := []string{"reg-b.test:5000", "reg-b.test"}
		for _, h := range hosts {
			if h != rest[0] && h != rest[1] {
				rest = append(rest, h)
			}
		}
		hosts = rest
	}
	sharedRealm := "https://" + authHosts[rng.IntN(len(authHosts))] + "/token"
	// sometimes an additional blob-store / mirror host that others redirect to
	storeHost := ""
	if rng.IntN(4) == 0 {
		storeHost = []string{"blobs.cdn-x.test", "store.example.net:8443"}[rng.IntN(2)]
	}
	total := nReg
	if storeHost != "" {
		total++
	}
	for k := 0; k < total; k++ {
		h := storeHost
		if k < nReg {
			h = hosts[k]
		}
		rs := &regSpec{Host: h}
		switch x := rng.IntN(20); {
		case x < 5:
			rs.Scheme = authmodel.SchemeBasic
		case x < 18:
			rs.Scheme = authmodel.SchemeBearer
		case x < 19:
			rs.Scheme = authmodel.SchemeOpen
		default:
			rs.Scheme = authmodel.SchemeOther
		}
		if k >= nReg && rng.IntN(2) == 0 {
			rs.Scheme = authmodel.SchemeOpen // a blob store that needs no credentials
		}
		m := &authmodel.Registry{Host: h, Scheme: rs.Scheme, WildSalt: rng.Uint64()}
		switch rng.IntN(4) {
		case 0:
			m.Service = h
		case 1:
			m.Service = "svc " + h
		case 2:
			m.Service = `registry "` + h + `"`
		default:
			m.Service = fmt.Sprintf("service-%d.%s", k, h)
		}
		switch x := rng.IntN(10); {
		case x < 3:
			rs.RealmKind = "own-host"
			m.Realm = "https://" + h + "/auth/token"
		case x < 6:
			rs.RealmKind = "shared-token-host"
			m.Realm = sharedRealm
		case x < 8:
			rs.RealmKind = "token-host"
			m.Realm = fmt.Sprintf("https://%s/realm%d/token?account=acct%d", authHosts[rng.IntN(len(authHosts))], k, k)
		default:
			rs.RealmKind = "other-registry-host"
			o := hosts[(k+1)%nReg]
			m.Realm = fmt.Sprintf("https://%s/foreign/token-for-%d", o, k)
		}
		hard := rng.IntN(3) == 0
		if rng.IntN(4) == 0 {
			m.User = "admin" // same user name on several registries, different passwords
		} else {
			m.User = fmt.Sprintf("user%d@%s", k, strings.Split(h, ":")[0])
		}
		m.Pass = secret(rng, fmt.Sprintf("pw%d", k), hard)
		m.Refresh = secret(rng, fmt.Sprintf("refresh%d", k), hard && rng.IntN(2) == 0)
		m.Access = secret(rng, fmt.Sprintf("access%d", k), false)
		wrong := ""
		switch x := rng.IntN(20); {
		case x < 8:
			rs.CredKind = "userpass"
			rs.cred = auth.Credential{Username: m.User, Password: m.Pass}
		case x < 11:
			rs.CredKind = "userpass+refresh"
			rs.cred = auth.Credential{Username: m.User, Password: m.Pass, RefreshToken: m.Refresh}
		case x < 14:
			rs.CredKind = "refresh"
			rs.cred = auth.Credential{RefreshToken: m.Refresh}
		case x < 17:
			rs.CredKind = "access"
			rs.cred = auth.Credential{AccessToken: m.Access}
		case x < 19:
			rs.CredKind = "wrongpass"
			wrong = secret(rng, fmt.Sprintf("wrongpw%d", k), false)
			rs.cred = auth.Credential{Username: m.User, Password: wrong}
		default:
			rs.CredKind = "empty"
		}
		// some Bearer registries grant anonymous pull; the client then often holds
		// no credential for them (the credential function returns EmptyCredential)
		if rng.IntN(3) == 0 {
			m.AnonymousPull = true
			if rng.IntN(2) == 0 {
				rs.CredKind, rs.cred, wrong = "empty", auth.EmptyCredential, ""
			}
			rs.Anonymous = true
		}
		rs.model = m
		e.world.AddRegistry(m)
		if wrong != "" {
			e.world.AddSecret(h, authmodel.KindPassword, wrong)
		}
		e.regs = append(e.regs, rs)
	}
	// redirects: one registry answers some requests with 301/302/307/308 to the
	// same path on another modelled host (net/http follows them inside
	// client.Do, below the auth client and above the world's transport). The
	// target never has the source's host name: net/http itself forwards the
	// Authorization header to the same name on another port or a subdomain,
	// which is not the auth client's doing.
	if rng.IntN(3) == 0 {
		src := rng.IntN(nReg)
		name := func(h string) string { return strings.Split(h, ":")[0] }
		var cands []int
		for t := range e.regs {
			a, b := name(e.regs[src].Host), name(e.regs[t].Host)
			if t != src && a != b && !strings.HasSuffix(a, "."+b) && !strings.HasSuffix(b, "."+a) {
				cands = append(cands, t)
			}
		}
		if len(cands) > 0 {
			t := cands[rng.IntN(len(cands))]
			if storeHost != "" && rng.IntN(2) == 0 && name(storeHost) != name(e.regs[src].Host) {
				t = len(e.regs) - 1
			}
			rd := &authmodel.Redirect{To: e.regs[t].Host, Code: []int{301, 302, 307, 307, 308}[rng.IntN(5)],
				What: []string{"all", "blobs", "blobs"}[rng.IntN(3)], When: []string{"pre", "post"}[rng.IntN(2)]}
			e.regs[src].model.Redirect = rd
			e.regs[src].redirects = true
			e.regs[src].Redirect = fmt.Sprintf("%d/%s/%s->%s(%s/%s)", rd.Code, rd.What, rd.When, rd.To, e.regs[t].Scheme, e.regs[t].CredKind)
		}
	}
	switch e.flavour {
	case "shared":
		e.client = &auth.Client{Cache: auth.NewCache()}
	case "single":
		e.client = &auth.Client{Cache: auth.NewSingleContextCache()}
	default:
		e.client = &auth.Client{}
	}
	e.client.Client = &http.Client{Transport: e.world}
	e.client.ForceAttemptOAuth2 = e.force
	if rng.IntN(2) == 0 {
		e.client.Header = http.Header{"User-Agent": {"verif-c16"}}
	}
	if rng.IntN(3) == 0 {
		e.client.ClientID = "verif-client"
	}
	e.client.Credential = e.credential
	if phase == "seq" {
		e.callerMode = []int{0, 0, 1, 2}[rng.IntN(4)]
	}
	return e
}

// credential is the client's CredentialFunc (a credential helper): it honours
// the context like a helper process would and is one of the two hold points.
func (e *env) credential(ctx context.Context, hostport string) (auth.Credential, error) {
	if err := ctx.Err(); err != nil {
		return auth.EmptyCredential, err
	}
	corr := authmodel.CorrOf(ctx)
	if g := e.gate; g != nil {
		if err := g.hold(ctx, corr, "cred"); err != nil {
			return auth.EmptyCredential, err
		}
	}
	e.count("credential_lookups", 1)
	for _, rs := range e.regs {
		if rs.Host == hostport {
			return rs.cred, nil
		}
	}
	return auth.EmptyCredential, nil
}

func (e *env) regIdx() []int {
	out := make([]int, len(e.regs))
	for i := range out {
		out[i] = i
	}
	return out
}

func (e *env) count(k string, n int64) {
	e.resMu.Lock()
	e.res.Count(k, n)
	e.resMu.Unlock()
}

// valid reports whether the client's credential for the registry is valid for
// the registry's current scheme.
func (e *env) valid(rs *regSpec) bool {
	switch e.world.Registry(rs.Host).Scheme {
	case authmodel.SchemeOpen:
		return true
	case authmodel.SchemeBasic:
		return rs.CredKind == "userpass" || rs.CredKind == "userpass+refresh"
	case authmodel.SchemeBearer:
		switch rs.CredKind {
		case "userpass", "userpass+refresh", "refresh", "access":
			return true
		}
	}
	return false
}

// validFor: valid(rs), or no credential at all for a Bearer registry that grants
// anonymous pull when the request needs nothing beyond pull ("EmptyCredential
// is a valid return value" of the credential function; the registry's own
// token service accepts it for such requests).
func (e *env) validFor(rs *regSpec, sp *reqSpec) bool {
	if e.valid(rs) {
		return true
	}
	m := e.world.Registry(rs.Host)
	if rs.CredKind == "empty" && m.Scheme == authmodel.SchemeBearer && m.AnonymousPull {
		return (sp.Method == http.MethodGet || sp.Method == http.MethodHead) && sp.Path != "/v2/_catalog"
	}
	return false
}

// ---------------------------------------------------------------------------
// request generation

func shuffled[T any](rng *rand.Rand, in []T) []T {
	out := append([]T{}, in...)
	rng.Shuffle(len(out), func(a, b int) { out[a], out[b] = out[b], out[a] })
	return out
}

// oddly writes a scope in a legal but non-canonical way (set-equal).
func oddly(rng *rand.Rand, typ, name string, actions []string) []string {
	acts := shuffled(rng, actions)
	var out []string
	if len(acts) > 1 && rng.IntN(2) == 0 {
		for _, a := range acts {
			out = append(out, typ+":"+name+":"+a)
		}
	} else {
		if rng.IntN(2) == 0 {
			acts = append(acts, acts[0])
		}
		if rng.IntN(3) == 0 {
			acts = append(acts, "")
		}
		out = append(out, typ+":"+name+":"+strings.Join(acts, ","))
	}
	if rng.IntN(2) == 0 {
		out = append(out, out[0])
	}
	return shuffled(rng, out)
}

func (e *env) genRequest(reg int, repoOverride string) *reqSpec {
	rng := e.rng
	rs := e.regs[reg]
	sp := &reqSpec{Reg: reg, PerHost: map[string][]string{}}
	repo := e.repos[rng.IntN(len(e.repos))]
	if repoOverride != "" {
		repo = repoOverride
	}
	other := e.repos[rng.IntN(len(e.repos))]
	var actions []string
	typ, name := "repository", repo
	switch x := rng.IntN(20); {
	case x < 6:
		sp.Method, sp.Path, sp.Shape = "GET", "/v2/"+repo+"/manifests/latest", "get-manifest"
		actions = []string{"pull"}
	case x < 9:
		sp.Method, sp.Path, sp.Shape = "HEAD", "/v2/"+repo+"/blobs/sha256:"+strings.Repeat("ab", 32), "head-blob"
		actions = []string{"pull"}
	case x < 12:
		sp.Method, sp.Path, sp.Shape = "POST", "/v2/"+repo+"/blobs/uploads/", "post-upload"
		sp.Body = []byte(fmt.Sprintf("upload-body-%x", rng.Uint64()))
		actions = []string{"pull", "push"}
	case x < 14:
		sp.Method, sp.Path, sp.Shape = "PUT", "/v2/"+repo+"/manifests/v1", "put-manifest"
		sp.Body = bytes.Repeat([]byte(fmt.Sprintf("{manifest-%x}", rng.Uint64())), 1+rng.IntN(40))
		actions = []string{"pull", "push"}
	case x < 15:
		sp.Method, sp.Path, sp.Shape = "DELETE", "/v2/"+repo+"/manifests/sha256:"+strings.Repeat("cd", 32), "delete"
		actions = []string{"delete"}
	case x < 16:
		sp.Method, sp.Path, sp.Shape = "GET", "/v2/"+repo+"/tags/list", "tags"
		actions = []string{"pull"}
	case x < 17:
		sp.Method, sp.Path, sp.Shape = "GET", "/v2/"+repo+"/referrers/sha256:"+strings.Repeat("ef", 32), "referrers"
		actions = []string{"pull"}
	case x < 18 && repoOverride == "":
		sp.Method, sp.Path, sp.Shape = "GET", "/v2/", "ping"
		typ = ""
	case x < 19 && repoOverride == "":
		sp.Method, sp.Path, sp.Shape = "GET", "/v2/_catalog", "catalog"
		typ, name, actions = "registry", "catalog", []string{"*"}
	default:
		sp.Method, sp.Path, sp.Shape = "POST", "/v2/"+repo+"/blobs/uploads/?mount=sha256:"+strings.Repeat("12", 32)+"&from="+other, "mount"
		actions = []string{"pull", "push"}
	}
	// scope hints
	var hints []string
	mode := rng.IntN(10)
	if typ == "" {
		mode = []int{0, 0, 4}[rng.IntN(3)]
	}
	switch mode {
	case 0, 1, 2: // none
	case 3, 4: // exact
		if typ != "" {
			hints = []string{typ + ":" + name + ":" + strings.Join(actions, ",")}
		} else {
			hints = []string{"repository:" + other + ":pull"}
		}
	case 5, 6: // oddly written, set-equal
		hints = oddly(rng, typ, name, actions)
	case 7: // superset
		if rng.IntN(2) == 0 {
			hints = []string{typ + ":" + name + ":*"}
		} else {
			hints = oddly(rng, typ, name, []string{"pull", "push", "delete"}[:2+rng.IntN(2)])
		}
	case 8: // extra repository
		hints = append(oddly(rng, typ, name, actions), "repository:"+other+":pull")
	default: // opaque extra and an empty-action scope
		hints = []string{typ + ":" + name + ":" + strings.Join(actions, ","), "custom-scope", "repository:" + other + ":"}
	}
	sp.Shape += fmt.Sprintf("/h%d", mode)
	if len(hints) > 0 {
		otherHost := e.regs[(reg+1)%len(e.regs)].Host
		switch x := rng.IntN(10); {
		case x < 6:
			sp.PerHost[rs.Host] = hints
		case x < 8:
			sp.Global = hints
			sp.Shape += "g"
		case x < 9 && len(hints) > 1:
			sp.PerHost[rs.Host] = hints[:1]
			sp.Global = hints[1:]
			sp.Shape += "b"
		default: // hints for another host must not influence this host
			sp.PerHost[otherHost] = hints
			sp.Shape += "o"
		}
		if rng.IntN(6) == 0 { // unrelated hints for another host on top
			sp.PerHost[otherHost] = append(sp.PerHost[otherHost], "repository:"+other+":pull,push")
		}
	}
	sp.HintAPI = rng.IntN(3)
	return sp
}

func (sp *reqSpec) hintedFor(host string) []string {
	return append(append([]string{}, sp.PerHost[host]...), sp.Global...)
}

type outcome struct {
	corr   int
	spec   *reqSpec
	resp   *http.Response
	err    error
	respID string
	status int
}

// do performs one request through the auth client.
func (e *env) do(sp *reqSpec, wrap func(ctx context.Context, corr int) context.Context) outcome {
	rs := e.regs[sp.Reg]
	corr := int(e.corrN.Add(1))
	base := context.Background()
	if sp.baseCtx != nil {
		base = sp.baseCtx // a context shared with other requests: it already carries the hints
	}
	ctx := authmodel.WithCorr(base, corr)
	if wrap != nil {
		ctx = wrap(ctx, corr)
	}
	hosts := make([]string, 0, len(sp.PerHost))
	for h := range sp.PerHost {
		if sp.baseCtx == nil {
			hosts = append(hosts, h)
		}
	}
	sort.Strings(hosts)
	for _, h := range hosts {
		hs := sp.PerHost[h]
		switch sp.HintAPI {
		case 0:
			ctx = auth.WithScopesForHost(ctx, h, hs...)
		case 1:
			for _, s := range hs {
				ctx = auth.AppendScopesForHost(ctx, h, s)
			}
		default:
			// AppendRepositoryScope for plain repository scopes, else WithScopesForHost
			done := false
			if len(hs) == 1 {
				first, last := strings.Index(hs[0], ":"), strings.LastIndex(hs[0], ":")
				if first > 0 && last > first && hs[0][:first] == "repository" && hs[0][last+1:] != "" {
					ref := registry.Reference{Registry: h, Repository: hs[0][first+1 : last]}
					ctx = auth.AppendRepositoryScope(ctx, ref, strings.Split(hs[0][last+1:], ",")...)
					done = true
				}
			}
			if !done {
				ctx = auth.WithScopesForHost(ctx, h, hs...)
			}
		}
	}
	if len(sp.Global) > 0 && sp.baseCtx == nil {
		if sp.HintAPI == 1 {
			for _, s := range sp.Global {
				ctx = auth.AppendScopes(ctx, s)
			}
		} else {
			ctx = auth.WithScopes(ctx, sp.Global...)
		}
	}
	e.world.Register(corr, rs.Host, sp.hintedFor(rs.Host), sp.Body)
	var req *http.Request
	var err error
	if sp.Body != nil {
		req, err = http.NewRequestWithContext(ctx, sp.Method, "https://"+rs.Host+sp.Path, bytes.NewReader(sp.Body))
	} else {
		req, err = http.NewRequestWithContext(ctx, sp.Method, "https://"+rs.Host+sp.Path, nil)
	}
	if err != nil {
		e.violate("harness:new-request", err.Error(), nil)
		return outcome{corr: corr, spec: sp, err: err}
	}
	// how the caller treats its request objects (sequential phase only): fresh
	// ones, one http.Header value shared by all its requests, or the previous
	// *http.Request cloned and re-addressed
	switch e.callerMode {
	case 1:
		if e.callerHeader == nil {
			e.callerHeader = http.Header{"Accept": {"application/vnd.oci.image.manifest.v1+json"}}
		}
		req.Header = e.callerHeader
	case 2:
		if e.prevReq != nil {
			if sp.Body == nil {
				r2 := e.prevReq.Clone(ctx)
				r2.Method, r2.URL, r2.Host = req.Method, req.URL, req.Host
				r2.Body, r2.GetBody, r2.ContentLength = nil, nil, 0
				req = r2
			} else {
				req.Header = e.prevReq.Header
			}
		}
		e.prevReq = req
	}
	req.Header.Set(authmodel.CorrHeader, fmt.Sprint(corr))
	resp, err := e.client.Do(req)
	if e.callerMode != 0 {
		e.count("requests_with_reused_caller_header_or_request", 1)
		if req.Header.Get("Authorization") != "" {
			// not judged by itself (the statement speaks of what is sent); the next
			// request made from this header / request object is judged at the wire
			e.count("caller_request_gained_authorization_header", 1)
		}
	}
	o := outcome{corr: corr, spec: sp, resp: resp, err: err}
	if resp != nil {
		o.respID = resp.Header.Get("X-Verif-Resp")
		o.status = resp.StatusCode
		resp.Body.Close()
	}
	e.count("requests_made", 1)
	return o
}

func (e *env) violate(key, what string, detail any) {
	e.resMu.Lock()
	defer e.resMu.Unlock()
	e.stop = true
	if e.violN >= 3 {
		return
	}
	e.violN++
	w := map[string]any{"flavour": e.flavour, "force_oauth2": e.force, "registries": e.regSummary(), "world": e.world.Describe(),
		"ops": tailS(e.ops, 40), "detail": detail}
	e.res.Violate(key, what, w)
}

func tailS(s []string, n int) []string {
	if len(s) > n {
		return s[len(s)-n:]
	}
	return s
}

func (e *env) regSummary() []map[string]string {
	var out []map[string]string
	for _, rs := range e.regs {
		out = append(out, map[string]string{"host": rs.Host, "scheme_at_start": rs.Scheme, "realm": rs.RealmKind, "cred": rs.CredKind, "redirect": rs.Redirect})
	}
	return out
}

// judge applies the liveness clause to one finished request and collects the
// monitor's violations so far.
func (e *env) judge(o outcome, live bool, what string) {
	rs := e.regs[o.spec.Reg]
	st := e.world.State(o.corr)
	detail := func() map[string]any {
		errS := ""
		if o.err != nil {
			errS = o.err.Error()
		}
		return map[string]any{"request": o.spec, "host": rs.Host, "context": what, "error": errS, "status": o.status,
			"sends": st.Sends, "token_fetches": st.Fetches, "hinted": o.spec.hintedFor(rs.Host), "events": e.world.EventsFor(o.corr)}
	}
	if st.Redirected {
		// net/http followed a redirect to another host: whose answer ends the
		// request is that host's business; only the transport monitor judges
		e.count("redirected_requests", 1)
		e.count(fmt.Sprintf("redirected_requests_ending_%d", o.status), 1)
	} else if live && e.validFor(rs, o.spec) {
		e.count("liveness_judged", 1)
		if !e.valid(rs) {
			e.count("liveness_judged_anonymous_pull", 1)
			what += " [no credential configured; the registry grants anonymous pull]"
		}
		switch {
		case o.err != nil && (errors.Is(o.err, context.Canceled) || errors.Is(o.err, context.DeadlineExceeded)):
			e.violate("cancelled-fetch-shared", fmt.Sprintf("%s: request to %s with valid credentials and a live context failed with another request's cancellation: %v", what, rs.Host, o.err), detail())
		case o.err != nil:
			e.violate("valid-request-failed", fmt.Sprintf("%s: request to %s with valid credentials failed: %v", what, rs.Host, o.err), detail())
		case o.status == http.StatusUnauthorized && e.flavour == "single" && st.Fetches == 1 && e.presentedForeignFetch(o.corr, st):
			e.violate("singlectx-concurrent-contexts:other-requests-token-returned",
				fmt.Sprintf("%s: NewSingleContextCache: request %d to %s fetched its own token, but presented a token fetched by a concurrent request with another scope on its final send and ended with 401", what, o.corr, rs.Host), detail())
		case o.status == http.StatusUnauthorized:
			e.violate("valid-request-ended-401", fmt.Sprintf("%s: request to %s (%s %s) with valid credentials ended with 401 after %d sends and %d token fetches", what, rs.Host, o.spec.Method, o.spec.Path, st.Sends, st.Fetches), detail())
		case o.respID == "" || o.respID != st.LastRespID:
			e.violate("response-is-not-registrys-last-answer", fmt.Sprintf("%s: the response returned (%s) is not the registry's answer to the last send (%s)", what, o.respID, st.LastRespID), detail())
		}
		if st.Sends > 3 {
			e.violate("more-than-three-sends", fmt.Sprintf("%s: %d sends to %s for one request", what, st.Sends, rs.Host), detail())
		}
		if st.Fetches > 1 {
			e.violate("more-than-one-token-fetch", fmt.Sprintf("%s: %d token fetches for one request to %s", what, st.Fetches, rs.Host), detail())
		}
		e.resMu.Lock()
		e.res.MaxOf("max_sends_per_request", int64(st.Sends))
		e.res.Count(fmt.Sprintf("requests_with_%d_sends", st.Sends), 1)
		e.resMu.Unlock()
	} else {
		e.count("liveness_not_judged", 1)
	}
}

// presentedForeignFetch reports whether the credential on the request's last
// send is a token that another request fetched.
func (e *env) presentedForeignFetch(corr int, st authmodel.ReqState) bool {
	if len(st.Presented) == 0 {
		return false
	}
	_, tok, _ := strings.Cut(st.Presented[len(st.Presented)-1], " ")
	it := e.world.IssuedToken(strings.TrimSpace(tok))
	return it != nil && it.FetchCorr != corr
}

// collect moves the world monitor's violations into the result.
func (e *env) collect() {
	for _, v := range e.world.Violations() {
		var evs []authmodel.Event
		for _, ev := range e.world.Events(0) {
			if ev.Seq == v.Seq {
				evs = e.world.EventsFor(ev.Corr)
			}
		}
		e.violate(v.Key, v.What, map[string]any{"request_events": evs})
	}
}

func (e *env) finish(key string, nt bool) {
	e.collect()
	c := e.world.CountersCopy()
	for _, k := range []string{"requests_seen", "requests_registry", "requests_token", "secret_scans", "secrets_seen_on_wire", "cross_host_opportunities",
		"token_fetches", "tokens_issued", "token_fetches_refused", "issued_token_presentations", "scope_set_equalities_checked", "token_reuses_by_other_request",
		"token_reuses_with_differently_written_scopes", "short_bodies", "unknown_destination", "host_header_differs", "requests_refused_by_transport"} {
		if c[k] != 0 {
			e.res.Count(k, c[k])
		}
	}
	e.res.Count("hook_auth_cache_set_enter", e.hooks.Load())
	e.res.Observe("client_and_world_configurations", e.caseKey())
	if e.colonRepos {
		e.res.Count("cases_with_colon_in_repository_names", 1)
	}
	opp := c["cross_host_opportunities"] > 0
	reuse := c["token_reuses_by_other_request"] > 0 || e.flavour == "none"
	e.res.Key = key
	if e.phase == "seq" {
		e.res.NT = nt && opp && reuse
	} else {
		e.res.NT = nt && opp
	}
}

// judgeSingleCtxMixed decides whether several concurrent requests with
// different scopes to one host through NewSingleContextCache (the probe and the
// mixed storms) are judged for liveness. The C16 quantifier lists the
// single-context flavour under concurrent mixes, so they are (repaired in /repo
// by ef7f93a: the host-keyed secondary Set returned a concurrent request's token).
const judgeSingleCtxMixed = true

// barrier makes the requests of a probe enter the host-keyed (secondary)
// Cache.Set together: the hook only widens an interleaving that exists anyway.
type barrier struct {
	key     string
	need    int64
	arrived atomic.Int64
}

// arrive spins (the window that follows is a few hundred nanoseconds wide, a
// channel wake-up would spread the requests too much); it gives up after a
// bounded number of spins so that a missing participant cannot block a case.
func (b *barrier) arrive() {
	b.arrived.Add(1)
	for n := 0; b.arrived.Load() < b.need && n < 2_000_000; n++ {
		if n%64 == 63 {
			runtime.Gosched()
		}
	}
}

func installHook(e *env) {
	fn := func(point, key string) {
		if point == "auth.cache.set.enter" {
			e.hooks.Add(1)
			if g := e.gate; g != nil {
				g.hookHits.Add(1)
			}
			if b := e.probe.Load(); b != nil && key == b.key {
				b.arrive()
			}
			if c := e.hookCancel.Swap(nil); c != nil {
				c.ctx.end(c.err) // the caller's context ends between the registry's 401 and the start of the fetch
			}
		}
	}
	verifhook.Handler.Store(&fn)
}

// ---------------------------------------------------------------------------
// cases

func runCase(phase string, i int) worker.Result {
	seed := evidence.New("C16", "exploration").Seed
	stream := "c16-" + phase
	if phase == "race" {
		stream = "c16-conc-race"
	}
	rng := evidence.RandFor(seed, stream, i)
	var res worker.Result
	e := newEnv(rng, phase, seed, i, &res)
	e.caseIdx = i
	lastEnv = e
	installHook(e)
	defer verifhook.Handler.Store(nil)
	if phase == "seq" {
		runSeq(e, i)
	} else {
		runConc(e, i)
	}
	return res
}

func (e *env) caseKey() string {
	var parts []string
	for _, rs := range e.regs {
		parts = append(parts, fmt.Sprintf("%s/%s/%s/%s/%v", rs.Scheme, rs.RealmKind, rs.CredKind, rs.Redirect, rs.Anonymous))
	}
	return fmt.Sprintf("%s|%v|%s", e.flavour, e.force, strings.Join(parts, ","))
}

func runSeq(e *env, i int) {
	rng := e.rng
	n := 8 + rng.IntN(23)
	var shape []string
	for s := 0; s < n && !e.stop; s++ {
		switch x := rng.IntN(40); {
		case x < 34:
			reg := rng.IntN(len(e.regs))
			sp := e.genRequest(reg, "")
			e.ops = append(e.ops, fmt.Sprintf("%s %s%s hints=%v global=%v", sp.Method, e.regs[reg].Host, sp.Path, sp.PerHost, sp.Global))
			o := e.do(sp, nil)
			e.judge(o, true, fmt.Sprintf("seq op %d", s))
			shape = append(shape, fmt.Sprintf("%d:%s", reg, sp.Shape))
		case x < 36:
			reg := rng.IntN(len(e.regs))
			e.world.ExpireTokens(e.regs[reg].Host)
			e.ops = append(e.ops, "expire tokens of "+e.regs[reg].Host)
			shape = append(shape, fmt.Sprintf("%d:expire", reg))
		case x < 39:
			reg := rng.IntN(len(e.regs))
			ns := []string{authmodel.SchemeBasic, authmodel.SchemeBearer, authmodel.SchemeBearer, authmodel.SchemeOpen}[rng.IntN(4)]
			e.world.SetScheme(e.regs[reg].Host, ns)
			e.ops = append(e.ops, "scheme of "+e.regs[reg].Host+" becomes "+ns)
			shape = append(shape, fmt.Sprintf("%d:scheme-%s", reg, ns))
		default:
			reg := rng.IntN(len(e.regs))
			realm := fmt.Sprintf("https://%s/moved%d/token", authHosts[rng.IntN(len(authHosts))], s)
			e.world.MoveRealm(e.regs[reg].Host, realm)
			e.ops = append(e.ops, "realm of "+e.regs[reg].Host+" moves to "+realm)
			shape = append(shape, fmt.Sprintf("%d:realm", reg))
		}
	}
	e.finish(e.caseKey()+"|"+strings.Join(shape, " "), true)
	if i%211 == 0 {
		e.res.Sample = map[string]any{"phase": "seq", "flavour": e.flavour, "force_oauth2": e.force, "registries": e.regSummary(), "ops": tailS(e.ops, 12), "last_events": e.world.Events(6)}
	}
}

// ---------------------------------------------------------------------------
// concurrent rounds

// manualCtx is a context that ends when the harness says so, with the error
// the harness chooses (context.Canceled or context.DeadlineExceeded): no
// wall-clock deadline is involved in "deadline exceeded" cases.
type manualCtx struct {
	context.Context
	mu   sync.Mutex
	done chan struct{}
	err  error
}

func newManualCtx(parent context.Context) *manualCtx {
	return &manualCtx{Context: parent, done: make(chan struct{})}
}
func (c *manualCtx) Done() <-chan struct{}       { return c.done }
func (c *manualCtx) Deadline() (time.Time, bool) { return time.Time{}, false }
func (c *manualCtx) Err() error {
	c.mu.Lock()
	defer c.mu.Unlock()
	return c.err
}
func (c *manualCtx) end(err error) {
	c.mu.Lock()
	if c.err == nil {
		c.err = err
		close(c.done)
	}
	c.mu.Unlock()
}

type member struct {
	corr      int
	grp       *group
	mctx      *manualCtx
	cancelled atomic.Bool // cancelled (or deadline-bound) by the harness: not judged for liveness
	wasHeld   atomic.Bool // reached its group's hold point (it ran the group's fetch)
	done      chan struct{}
	out       outcome
}

type group struct {
	reg       int
	spec      *reqSpec
	n         int
	mode      string // none | owner | owner2 | waiter | deadline (= owner(s) end with DeadlineExceeded)
	endErr    error  // how victims' contexts end
	holdPoint string // token | cred
	budget    int
	members   []*member
}

type gate struct {
	mu         sync.Mutex
	members    map[int]*member
	open       chan struct{}
	arrivals   int
	heldNow    map[int]bool
	hookHits   atomic.Int64
	isOpen     atomic.Bool
	heldAtOpen int
}

func (g *gate) hold(ctx context.Context, corr int, point string) error {
	g.mu.Lock()
	m := g.members[corr]
	if m == nil || m.grp.holdPoint != point {
		g.mu.Unlock()
		return nil
	}
	g.arrivals++
	g.heldNow[corr] = true
	g.mu.Unlock()
	m.wasHeld.Store(true)
	defer func() {
		g.mu.Lock()
		delete(g.heldNow, corr)
		g.mu.Unlock()
	}()
	select {
	case <-g.open:
	case <-ctx.Done():
		return ctx.Err()
	}
	victim := false
	g.mu.Lock()
	if m.grp.budget > 0 {
		m.grp.budget--
		victim = true
	}
	g.mu.Unlock()
	if victim {
		m.cancelled.Store(true)
		m.mctx.end(m.grp.endErr)
		<-ctx.Done()
		return ctx.Err()
	}
	return nil
}

func runConc(e *env, i int) {
	rng := e.rng
	e.world.Before = func(req *http.Request, info authmodel.ReqInfo) error {
		if info.Kind == "token" {
			if g := e.gate; g != nil {
				if err := g.hold(req.Context(), info.Corr, "token"); err != nil {
					return err
				}
			}
		}
		// seed-independent schedule noise: widen windows a little
		if info.Corr%3 == 0 {
			runtime.Gosched()
		}
		return nil
	}
	e.world.After = func(req *http.Request, info authmodel.ReqInfo, resp *http.Response) {
		if sb := e.sendBar.Load(); sb != nil && info.Kind == "registry" && resp.StatusCode == http.StatusUnauthorized {
			sb.mu.Lock()
			passed, member := sb.members[info.Corr]
			if member && !passed {
				sb.members[info.Corr] = true
			}
			sb.mu.Unlock()
			if member && !passed {
				sb.arrive()
			}
		}
	}
	var shape []string
	// warm-up: so that the cache holds secrets of several hosts
	warm := shuffled(rng, e.regIdx())
	nWarm := rng.IntN(len(e.regs))
	for _, reg := range warm[:nWarm] {
		sp := e.genRequest(reg, "")
		e.ops = append(e.ops, fmt.Sprintf("warm-up %s %s%s", sp.Method, e.regs[reg].Host, sp.Path))
		o := e.do(sp, nil)
		e.judge(o, true, "warm-up")
		e.regs[reg].touched = true
		e.regs[reg].lastSpec = sp
	}
	rounds := 1 + rng.IntN(3)
	nt := false
	for rd := 0; rd < rounds && !e.stop; rd++ {
		if rng.IntN(4) == 0 {
			s, ok := storm(e, rd)
			shape = append(shape, s)
			_ = ok
			continue
		}
		if e.flavour == "single" && rng.IntN(2) == 0 {
			shape = append(shape, singleCtxProbe(e, rd))
			continue
		}
		if rng.IntN(5) == 0 {
			s, ok := sharedCtxRound(e, rd)
			shape = append(shape, s)
			if ok {
				nt = true
			}
			continue
		}
		if e.flavour != "none" && rng.IntN(6) == 0 {
			s, ok := cancelledCallerProbe(e, rd)
			shape = append(shape, s)
			if ok {
				nt = true
			}
			continue
		}
		if e.flavour != "none" && rng.IntN(5) == 0 {
			s, ok := lateJoinProbe(e, rd)
			shape = append(shape, s)
			if ok {
				nt = true
			}
			continue
		}
		s, ok := coalesceRound(e, rd)
		shape = append(shape, s)
		if ok {
			nt = true
		}
	}
	// follow-up: the cache state left behind is used once more, sequentially
	for reg := range e.regs {
		if e.stop {
			break
		}
		sp := e.regs[reg].lastSpec
		if sp == nil || rng.IntN(2) == 0 {
			sp = e.genRequest(reg, "")
		}
		o := e.do(sp, nil)
		e.judge(o, true, "follow-up")
	}
	e.finish(e.caseKey()+"|"+strings.Join(shape, " "), nt)
	if i%53 == 0 {
		e.res.Sample = map[string]any{"phase": e.phase, "flavour": e.flavour, "force_oauth2": e.force, "registries": e.regSummary(), "rounds": shape, "ops": tailS(e.ops, 12)}
	}
}

// storm: unsynchronised concurrent requests to random hosts.
func storm(e *env, rd int) (string, bool) {
	rng := e.rng
	k := 3 + rng.IntN(8)
	per := 1 + rng.IntN(3)
	fixed := map[int]*reqSpec{}
	var specs [][]*reqSpec
	mixed := e.flavour == "single" && rng.IntN(4) == 0 // unjudged shape: several contexts on a single-context cache
	for g := 0; g < k; g++ {
		var l []*reqSpec
		for j := 0; j < per; j++ {
			reg := rng.IntN(len(e.regs))
			sp := e.genRequest(reg, "")
			if e.flavour == "single" && !mixed {
				if fixed[reg] == nil {
					fixed[reg] = sp
				}
				sp = fixed[reg]
			}
			l = append(l, sp)
		}
		specs = append(specs, l)
	}
	e.ops = append(e.ops, fmt.Sprintf("storm of %d goroutines x %d requests (mixed=%v)", k, per, mixed))
	var wg sync.WaitGroup
	start := make(chan struct{})
	outs := make([][]outcome, k)
	for g := 0; g < k; g++ {
		wg.Add(1)
		go func(g int) {
			defer wg.Done()
			<-start
			for _, sp := range specs[g] {
				outs[g] = append(outs[g], e.do(sp, nil))
			}
		}(g)
	}
	close(start)
	if !waitWG(&wg, 15*time.Second) {
		hang(e, "storm")
		return "storm-hung", false
	}
	for g := range outs {
		for _, o := range outs[g] {
			e.regs[o.spec.Reg].touched = true
			if mixed && !judgeSingleCtxMixed {
				st := e.world.State(o.corr)
				if e.valid(e.regs[o.spec.Reg]) && (o.err != nil || o.status == 401 || st.Sends > 3 || st.Fetches > 1) {
					e.count("unjudged_singlectx_mixed_shapes_anomalies", 1)
					e.ops = append(e.ops, fmt.Sprintf("ANOMALY (unjudged): corr %d err=%v status=%d sends=%d fetches=%d", o.corr, o.err, o.status, st.Sends, st.Fetches))
				}
				e.count("unjudged_singlectx_mixed_shapes_requests", 1)
				continue
			}
			// a request to a redirecting host may share the fetch of a concurrent
			// redirected request (same scope key, challenge of the redirect target):
			// its failure is then the shared result, not judged
			e.judge(o, !e.regs[o.spec.Reg].redirects, "storm")
			e.regs[o.spec.Reg].lastSpec = o.spec
			e.regs[o.spec.Reg].touched = true
		}
	}
	if mixed {
		e.count("singlectx_mixed_storms", 1)
		for _, rs := range e.regs {
			rs.lastSpec = nil
		}
	}
	e.count("storm_rounds", 1)
	return fmt.Sprintf("storm%dx%d", k, per), false
}

// singleCtxProbe: several concurrent requests with different scopes to one
// Bearer host through NewSingleContextCache, made to enter the host-keyed
// Cache.Set together. Outside the cache's documented use (one context); see
// judgeSingleCtxMixed.
func singleCtxProbe(e *env, rd int) string {
	rng := e.rng
	reg := -1
	for _, k := range shuffled(rng, e.regIdx()) {
		rs := e.regs[k]
		if e.world.Registry(rs.Host).Scheme == authmodel.SchemeBearer && e.valid(rs) && rs.CredKind != "access" && !rs.redirects {
			reg = k
			break
		}
	}
	if reg < 0 {
		return "probe-none"
	}
	rs := e.regs[reg]
	k := 3 + rng.IntN(6)
	var specs []*reqSpec
	for j := 0; j < k; j++ {
		sp := e.genRequest(reg, fmt.Sprintf("probe%d-%d/%s", rd, j, e.repos[rng.IntN(len(e.repos))]))
		specs = append(specs, sp)
	}
	e.ops = append(e.ops, fmt.Sprintf("single-context probe: %d concurrent requests with different scopes to %s", k, rs.Host))
	b := &barrier{key: rs.Host + " Bearer ", need: int64(k)}
	e.probe.Store(b)
	defer e.probe.Store(nil)
	var wg sync.WaitGroup
	outs := make([]outcome, k)
	start := make(chan struct{})
	for j := range specs {
		wg.Add(1)
		go func(j int) {
			defer wg.Done()
			<-start
			outs[j] = e.do(specs[j], nil)
		}(j)
	}
	close(start)
	if !waitWG(&wg, 15*time.Second) {
		hang(e, "single-context probe")
		return "probe-hung"
	}
	for _, o := range outs {
		st := e.world.State(o.corr)
		e.count("singlectx_probe_requests", 1)
		if !judgeSingleCtxMixed {
			if o.err != nil || o.status == 401 || st.Sends > 3 || st.Fetches > 1 {
				e.count("unjudged_singlectx_probe_anomalies", 1)
				if o.err == nil && o.status == 401 && len(st.Presented) > 0 {
					e.count("unjudged_singlectx_probe_ended_401_with_other_requests_token", 1)
				}
			}
			continue
		}
		e.judge(o, true, fmt.Sprintf("single-context probe (%d concurrent requests with different scopes to one host, entering the host-keyed Set together)", k))
	}
	rs.touched = true
	rs.lastSpec = nil
	e.count("singlectx_probe_rounds", 1)
	return fmt.Sprintf("probe%d", k)
}

func waitWG(wg *sync.WaitGroup, d time.Duration) bool {
	ch := make(chan struct{})
	go func() { wg.Wait(); close(ch) }()
	select {
	case <-ch:
		return true
	case <-time.After(d):
		return false
	}
}

// hang classifies a round that did not finish: if no request is inside the
// world and none is held by the harness while request goroutines sit in
// syncutil.(*Once).Do, nobody can ever wake them (the status channel is empty
// and no fetch is running): a logical proof that these requests never end.
func hang(e *env, where string) {
	buf := make([]byte, 4<<20)
	buf = buf[:runtime.Stack(buf, true)]
	dump := string(buf)
	inOnce := strings.Count(dump, "syncutil.(*Once).Do")
	held := 0
	if g := e.gate; g != nil {
		g.mu.Lock()
		held = len(g.heldNow)
		g.mu.Unlock()
	}
	e.res.Restart = true
	if e.world.Inflight() == 0 && held == 0 && inOnce > 0 && !strings.Contains(dump, "auth.(*Client).fetch") {
		e.violate("request-never-ends:waiters-blocked-on-once-without-fetch-in-flight",
			fmt.Sprintf("%s: %d request goroutines are blocked in syncutil.Once.Do while no token fetch is in flight anywhere", where, inOnce),
			map[string]any{"goroutines": head(dump, 8000)})
		return
	}
	e.stop = true
	e.res.Inconc = fmt.Sprintf("%s: watchdog fired (inflight=%d held=%d inOnce=%d)", where, e.world.Inflight(), held, inOnce)
}

func head(s string, n int) string {
	if len(s) > n {
		return s[:n]
	}
	return s
}

type cancelInHook struct {
	ctx *manualCtx
	err error
}

// onlyLibraryGoroutineIsParkedInOnce inspects a goroutine dump: true when exactly
// one goroutine is inside the auth client / syncutil at all and it waits in the
// select of syncutil.Once.Do. Nobody else can then ever hand it the slot.
func onlyLibraryGoroutineIsParkedInOnce() bool {
	buf := make([]byte, 2<<20)
	dump := string(buf[:runtime.Stack(buf, true)])
	n, parked := 0, false
	for _, blk := range strings.Split(dump, "\n\n") {
		if !strings.Contains(blk, "/registry/remote/auth.") && !strings.Contains(blk, "/internal/syncutil.") {
			continue
		}
		n++
		lines := strings.SplitN(blk, "\n", 3)
		// state line, then the innermost frame
		parked = len(lines) >= 2 && strings.Contains(lines[0], "[select") && strings.Contains(lines[1], "syncutil.(*Once).Do(")
	}
	return n == 1 && parked
}

// cancelledCallerProbe: 1-3 requests whose context ends exactly when they enter
// Cache.Set (in the hook, i.e. after the registry's 401 and before the token
// fetch starts) - such a caller may find the fetch slot free - are followed by a
// request N with a live context for the same host / scheme / scope key. N has
// valid credentials and must end with the registry's answer. If instead N is the
// only goroutine inside the library and is parked in Once.Do's select (seen on
// two goroutine dumps, nothing in flight in the world), nothing can ever wake
// it before its own context ends: bounded progress is refuted logically.
func cancelledCallerProbe(e *env, rd int) (string, bool) {
	rng := e.rng
	reg := -1
	for _, k := range shuffled(rng, e.regIdx()) {
		rs := e.regs[k]
		scheme := e.world.Registry(rs.Host).Scheme
		if !e.valid(rs) || rs.redirects || scheme != authmodel.SchemeBasic && scheme != authmodel.SchemeBearer {
			continue
		}
		if scheme == authmodel.SchemeBasic && rs.touched || rs.CredKind == "access" && rs.touched {
			continue
		}
		reg = k
		break
	}
	if reg < 0 {
		return "cancelled-caller-none", false
	}
	rs := e.regs[reg]
	sp := e.genRequest(reg, fmt.Sprintf("gone%d/%s", rd, e.repos[rng.IntN(len(e.repos))]))
	nGone := 1 + rng.IntN(3)
	e.ops = append(e.ops, fmt.Sprintf("cancelled-caller probe: %d x context ends on entering Cache.Set, then a live request: %s %s%s", nGone, sp.Method, rs.Host, sp.Path))
	for j := 0; j < nGone; j++ {
		endErr := []error{context.Canceled, context.Canceled, context.DeadlineExceeded}[rng.IntN(3)]
		o := e.do(sp, func(ctx context.Context, corr int) context.Context {
			c := newManualCtx(ctx)
			e.hookCancel.Store(&cancelInHook{ctx: c, err: endErr})
			return c
		})
		e.hookCancel.Store(nil)
		e.judge(o, false, "cancelled-caller probe: caller whose context ended on entering Cache.Set")
	}
	var nctx atomic.Pointer[manualCtx]
	done := make(chan outcome, 1)
	go func() {
		done <- e.do(sp, func(ctx context.Context, corr int) context.Context {
			c := newManualCtx(ctx)
			nctx.Store(c)
			return c
		})
	}()
	seen := 0
	for {
		select {
		case o := <-done:
			e.judge(o, true, fmt.Sprintf("cancelled-caller probe: live request after %d callers whose context ended on entering Cache.Set", nGone))
			rs.touched, rs.lastSpec = true, sp
			e.count("cancelled_caller_probes", 1)
			return fmt.Sprintf("gone%d", nGone), true
		case <-time.After(2 * time.Millisecond):
		}
		if e.world.Inflight() == 0 && onlyLibraryGoroutineIsParkedInOnce() {
			seen++
		} else {
			seen = 0
		}
		if seen >= 2 {
			break
		}
	}
	e.violate("request-never-ends:fetch-slot-lost-to-cancelled-caller",
		fmt.Sprintf("cancelled-caller probe on %s (%s cache): after %d request(s) whose context ended between the registry's 401 and the start of the token fetch, a request with valid credentials and a live context is parked in syncutil.Once.Do; it is the only goroutine inside the library and no fetch is in flight, so nothing can wake it before its own context ends", rs.Host, e.flavour, nGone),
		map[string]any{"request": sp, "host": rs.Host})
	nctx.Load().end(context.Canceled) // set it free
	<-done
	e.count("cancelled_caller_probes", 1)
	return "gone-stuck", false
}

// sendBarrier makes the members of a shared-context round receive their first
// 401 together, so that they merge the challenged scope into the hinted scopes
// at the same moment.
type sendBarrier struct {
	barrier
	mu      sync.Mutex
	members map[int]bool // corr -> first 401 already passed
}

// sharedCtxRound: 6-12 concurrent requests to one Bearer host SHARE one context
// whose scope hints were built by successive Append calls (3, 5 or 6 distinct
// hints: the cleaned list then has spare capacity), each request for another
// repository, hence another challenged scope. Oracle as everywhere: valid
// credentials => the registry's non-401 answer, and (NewCache / no cache) the
// token a request presents was issued for hinted ∪ challenged of THAT request.
func sharedCtxRound(e *env, rd int) (string, bool) {
	rng := e.rng
	reg := -1
	for _, k := range shuffled(rng, e.regIdx()) {
		rs := e.regs[k]
		if e.world.Registry(rs.Host).Scheme == authmodel.SchemeBearer && e.valid(rs) && rs.CredKind != "access" && !rs.redirects {
			reg = k
			break
		}
	}
	if reg < 0 {
		return "sharedctx-none", false
	}
	rs := e.regs[reg]
	nHints := []int{3, 5, 6}[rng.IntN(3)]
	perHost := rng.IntN(3) != 0
	base := context.Background()
	var hints []string
	for j := 0; j < nHints; j++ {
		h := fmt.Sprintf("repository:hinted%d-%d/%s:pull", rd, j, e.repos[rng.IntN(len(e.repos))])
		hints = append(hints, h)
		if perHost {
			base = auth.AppendScopesForHost(base, rs.Host, h)
		} else {
			base = auth.AppendScopes(base, h)
		}
	}
	k := 6 + rng.IntN(7)
	var specs []*reqSpec
	for j := 0; j < k; j++ {
		repo := fmt.Sprintf("shared%d-%d/%s", rd, j, e.repos[rng.IntN(len(e.repos))])
		sp := &reqSpec{Reg: reg, Method: "GET", Path: "/v2/" + repo + "/manifests/latest", Shape: "sharedctx", PerHost: map[string][]string{}, baseCtx: base}
		if perHost {
			sp.PerHost[rs.Host] = hints
		} else {
			sp.Global = hints
		}
		specs = append(specs, sp)
	}
	e.ops = append(e.ops, fmt.Sprintf("shared-context round: %d concurrent GETs for different repositories of %s under ONE context with %d hints (per-host=%v)", k, rs.Host, nHints, perHost))
	sb := &sendBarrier{members: map[int]bool{}}
	sb.need = int64(k)
	e.sendBar.Store(sb)
	defer e.sendBar.Store(nil)
	var wg sync.WaitGroup
	outs := make([]outcome, k)
	start := make(chan struct{})
	for j := range specs {
		wg.Add(1)
		go func(j int) {
			defer wg.Done()
			<-start
			outs[j] = e.do(specs[j], func(ctx context.Context, corr int) context.Context {
				sb.mu.Lock()
				sb.members[corr] = false
				sb.mu.Unlock()
				return ctx
			})
		}(j)
	}
	close(start)
	if !waitWG(&wg, 15*time.Second) {
		hang(e, "shared-context round")
		return "sharedctx-hung", false
	}
	for _, o := range outs {
		e.judge(o, true, fmt.Sprintf("shared-context round (%d requests, one context with %d hints)", k, nHints))
	}
	rs.touched, rs.lastSpec = true, nil
	e.count("shared_context_rounds", 1)
	e.count("shared_context_requests", int64(k))
	return fmt.Sprintf("sharedctx[h%d/k%d/%v]", nHints, k, perHost), true
}

// lateJoinProbe: request L is inside the token fetch (held); request W with the
// same host / scheme / scope key enters Cache.Set, has its context ended and
// returns; request R then enters Cache.Set and is seen inside syncutil.Once.Do
// (goroutine dump) while L's fetch is STILL held; only then is the fetch
// released. R provably waited on the in-flight fetch, so the statement demands
// that it shares L's result: exactly one fetch reached the hold point and R
// presents the token L's fetch produced.
func lateJoinProbe(e *env, rd int) (string, bool) {
	rng := e.rng
	reg := -1
	for _, k := range shuffled(rng, e.regIdx()) {
		rs := e.regs[k]
		scheme := e.world.Registry(rs.Host).Scheme
		if !e.valid(rs) || rs.redirects || scheme != authmodel.SchemeBasic && scheme != authmodel.SchemeBearer {
			continue
		}
		if scheme == authmodel.SchemeBasic && rs.touched || rs.CredKind == "access" && rs.touched {
			continue // warm: requests would not enter Set
		}
		reg = k
		break
	}
	if reg < 0 {
		return "late-none", false
	}
	rs := e.regs[reg]
	scheme := e.world.Registry(rs.Host).Scheme
	sp := e.genRequest(reg, fmt.Sprintf("late%d/%s", rd, e.repos[rng.IntN(len(e.repos))]))
	specs := [3]*reqSpec{sp, sp, sp} // L, W, R
	variant := "same"
	if pp := prefixPairs[rng.IntN(len(prefixPairs))]; scheme == authmodel.SchemeBearer {
		a, b := fmt.Sprintf("late%d/%s", rd, pp[0]), fmt.Sprintf("late%d/%s", rd, pp[1])
		v := rng.IntN(3)
		if v == 1 && e.flavour == "single" && rs.touched {
			v = 2 // a ping would pass with the host-keyed token and never enter Set
		}
		switch v {
		case 1:
			// the same scope SET for L, W and R, listed in different orders by their
			// hints (a ping carries no challenged scope: the key is the hinted set)
			variant = "permuted-hints"
			orders := [][]string{{"repository:" + a + ":pull", "repository:" + b + ":pull"}, {"repository:" + b + ":pull", "repository:" + a + ":pull"}}
			first := rng.IntN(2)
			global := rng.IntN(2) == 0
			for j := range specs {
				c := &reqSpec{Reg: reg, Method: "GET", Path: "/v2/", Shape: "ping/permuted-hints", PerHost: map[string][]string{}, HintAPI: rng.IntN(2)}
				h := orders[first] // L and W
				if j == 2 {
					h = orders[1-first] // R the other way round
				}
				if global {
					c.Global = h
				} else {
					c.PerHost[rs.Host] = h
				}
				specs[j] = c
			}
			sp = specs[0]
		case 2:
			// a mount needs scopes of two repositories: the challenge lists them in any order
			variant = "two-repository-challenge"
			c := &reqSpec{Reg: reg, Method: "POST", Path: "/v2/" + a + "/blobs/uploads/?mount=sha256:" + strings.Repeat("34", 32) + "&from=" + b,
				Shape: "mount/prefix-pair", PerHost: map[string][]string{}}
			if rng.IntN(2) == 0 {
				c.Path = "/v2/" + b + "/blobs/uploads/?mount=sha256:" + strings.Repeat("34", 32) + "&from=" + a
			}
			specs = [3]*reqSpec{c, c, c}
			sp = c
		}
	}
	g := &group{reg: reg, spec: sp, n: 3, mode: "late", holdPoint: "token", endErr: context.Canceled}
	if scheme == authmodel.SchemeBasic || rs.CredKind == "access" || rng.IntN(4) == 0 {
		g.holdPoint = "cred"
	}
	if rng.IntN(3) == 0 {
		g.endErr = context.DeadlineExceeded
	}
	gt := &gate{members: map[int]*member{}, open: make(chan struct{}), heldNow: map[int]bool{}}
	e.gate = gt
	defer func() { e.gate = nil }()
	e.ops = append(e.ops, fmt.Sprintf("late-join probe (%s): L, cancelled W, R = %s %s%s hold=%s hints L=%v R=%v", variant, sp.Method, rs.Host, sp.Path, g.holdPoint, specs[0].hintedFor(rs.Host), specs[2].hintedFor(rs.Host)))
	nLaunched := 0
	launch := func() *member {
		m := &member{grp: g, done: make(chan struct{})}
		msp := specs[nLaunched]
		nLaunched++
		go func() {
			m.out = e.do(msp, func(ctx context.Context, corr int) context.Context {
				c := newManualCtx(ctx)
				gt.mu.Lock()
				m.corr, m.mctx = corr, c
				gt.members[corr] = m
				gt.mu.Unlock()
				return c
			})
			close(m.done)
		}()
		return m
	}
	inOnce := func() int {
		buf := make([]byte, 1<<20)
		return strings.Count(string(buf[:runtime.Stack(buf, true)]), "syncutil.(*Once).Do(")
	}
	waitCond := func(cond func() bool) bool {
		deadline := time.Now().Add(10 * time.Second)
		for !cond() {
			if time.Now().After(deadline) {
				return false
			}
			time.Sleep(50 * time.Microsecond)
		}
		return true
	}
	arrivals := func() int {
		gt.mu.Lock()
		defer gt.mu.Unlock()
		return gt.arrivals
	}
	giveUp := func(where string) (string, bool) {
		close(gt.open)
		e.stop = true
		e.res.Restart = true
		e.res.Inconc = "late-join probe: " + where + " not reached before the watchdog"
		return "late-unsynchronised", false
	}
	l := launch()
	if !waitCond(func() bool { return arrivals() >= 1 }) {
		return giveUp("L inside the fetch")
	}
	w := launch()
	if !waitCond(func() bool { return gt.hookHits.Load() >= 2 }) {
		return giveUp("W inside Cache.Set")
	}
	time.Sleep(time.Duration(rng.IntN(400)) * time.Microsecond) // W cancelled on its way into, or inside, Once.Do
	w.cancelled.Store(true)
	w.mctx.end(g.endErr)
	select {
	case <-w.done:
	case <-time.After(10 * time.Second):
		return giveUp("W's return")
	}
	r := launch()
	if !waitCond(func() bool { return gt.hookHits.Load() >= 3 && inOnce() >= 2 }) {
		return giveUp("R inside Once.Do")
	}
	gt.mu.Lock()
	stillHeld := gt.heldNow[l.corr] // L's fetch is still in flight at the moment of release
	gt.mu.Unlock()
	close(gt.open)
	for _, m := range []*member{l, r} {
		select {
		case <-m.done:
		case <-time.After(15 * time.Second):
			hang(e, "late-join probe")
			return "late-hung", false
		}
	}
	e.judge(w.out, false, "late-join probe: cancelled waiter W")
	e.judge(l.out, true, "late-join probe: leader L")
	e.judge(r.out, true, "late-join probe: late joiner R")
	e.count("late_join_probes", 1)
	rs.touched, rs.lastSpec = true, sp
	if !stillHeld {
		e.count("late_join_probes_not_held", 1)
		return "late-notheld", false
	}
	detail := map[string]any{"request": sp, "host": rs.Host, "hold_point": g.holdPoint, "fetch_arrivals": arrivals(),
		"L": e.world.EventsFor(l.corr), "W": e.world.EventsFor(w.corr), "R": e.world.EventsFor(r.corr)}
	stR := e.world.State(r.corr)
	switch {
	case arrivals() != 1:
		e.violate("in-flight-fetch-not-shared:second-fetch-after-cancelled-waiter",
			fmt.Sprintf("late-join probe [%s] on %s (%s cache, hold=%s): R entered Cache.Set and Once.Do while L's fetch was in flight (after waiter W had been cancelled), yet %d fetches were started instead of one (hints L=%v R=%v)", variant, rs.Host, e.flavour, g.holdPoint, arrivals(), specs[0].hintedFor(rs.Host), specs[2].hintedFor(rs.Host)), detail)
	case scheme == authmodel.SchemeBearer && rs.CredKind != "access" && r.out.err == nil && (stR.Fetches != 0 || !e.presentedFetchOf(l.corr, stR)):
		e.violate("in-flight-fetch-not-shared:late-joiner-has-other-token",
			fmt.Sprintf("late-join probe on %s (%s cache): R waited on L's in-flight fetch but did not present the token that fetch produced (own fetches: %d)", rs.Host, e.flavour, stR.Fetches), detail)
	default:
		e.count("late_joiners_sharing_the_inflight_fetch", 1)
	}
	e.count("late_join_probes_"+variant, 1)
	return fmt.Sprintf("late[%s/%s/%s/%s]", scheme, rs.CredKind, g.holdPoint, variant), true
}

// presentedFetchOf reports whether the credential on the request's last send is
// the token fetched by request fetcher.
func (e *env) presentedFetchOf(fetcher int, st authmodel.ReqState) bool {
	if len(st.Presented) == 0 {
		return false
	}
	_, tok, _ := strings.Cut(st.Presented[len(st.Presented)-1], " ")
	it := e.world.IssuedToken(strings.TrimSpace(tok))
	return it != nil && it.FetchCorr == fetcher
}

// coalesceRound: groups of identical cold requests are released together; the
// fetch of each group is held until all of them entered Cache.Set.
func coalesceRound(e *env, rd int) (string, bool) {
	rng := e.rng
	nGroups := 1 + rng.IntN(2)
	if rng.IntN(5) == 0 {
		nGroups = 3
	}
	if nGroups > len(e.regs) {
		nGroups = len(e.regs)
	}
	regsOrder := shuffled(rng, e.regIdx())
	repo := fmt.Sprintf("round%d/%s", rd, e.repos[rng.IntN(len(e.repos))])
	var groups []*group
	inGroup := map[int]bool{}
	var template *reqSpec
	for _, reg := range regsOrder {
		if len(groups) == nGroups {
			break
		}
		rs := e.regs[reg]
		scheme := e.world.Registry(rs.Host).Scheme
		if rs.redirects || scheme != authmodel.SchemeBasic && scheme != authmodel.SchemeBearer {
			continue // (redirected requests may never enter Set: no synchronised rounds on redirecting hosts)
		}
		if scheme == authmodel.SchemeBasic && rs.touched && e.flavour != "none" {
			continue // warm Basic host: requests would never enter Set
		}
		if e.flavour != "none" && rs.CredKind == "access" && rs.touched {
			continue // the static access token is valid for every scope: a cached copy (host-keyed, or under the key of the hints) lets requests pass without entering Set
		}
		if rs.CredKind == "empty" && scheme == authmodel.SchemeBasic {
			continue // ErrBasicCredentialNotFound before any hold point... the helper is still called; keep it simple
		}
		var sp *reqSpec
		if template != nil && rng.IntN(2) == 0 {
			// the same request shape (hence the same scope key) on another host
			c := *template
			c.Reg = reg
			c.PerHost = map[string][]string{}
			if h := template.PerHost[e.regs[template.Reg].Host]; h != nil {
				c.PerHost[rs.Host] = h
			}
			sp = &c
		} else {
			sp = e.genRequest(reg, repo)
			template = sp
		}
		g := &group{reg: reg, spec: sp, n: 2 + rng.IntN(5)}
		g.holdPoint = "token"
		if scheme == authmodel.SchemeBasic || rs.CredKind == "access" || rng.IntN(4) == 0 {
			g.holdPoint = "cred"
		}
		switch x := rng.IntN(10); {
		case x < 3:
			g.mode = "none"
		case x < 6:
			g.mode, g.budget = "owner", 1
		case x < 7 && g.n >= 3:
			g.mode, g.budget = "owner2", 2
		case x < 9:
			g.mode = "waiter"
		default:
			g.mode, g.budget = "deadline", 1+rng.IntN(2)
			if g.budget >= g.n {
				g.budget = g.n - 1
			}
		}
		g.endErr = context.Canceled
		if g.mode == "deadline" || g.mode == "waiter" && rng.IntN(2) == 0 {
			g.endErr = context.DeadlineExceeded
		}
		groups = append(groups, g)
		inGroup[reg] = true
	}
	if len(groups) == 0 {
		return "no-group", false
	}
	gt := &gate{members: map[int]*member{}, open: make(chan struct{}), heldNow: map[int]bool{}}
	total := 0
	var all []*member
	type launch struct {
		m    *member
		spec *reqSpec
		wrap func(ctx context.Context, corr int) context.Context
	}
	var launches []launch
	for _, g := range groups {
		total += g.n
		for j := 0; j < g.n; j++ {
			m := &member{grp: g, done: make(chan struct{})}
			g.members = append(g.members, m)
			all = append(all, m)
			mm := m
			launches = append(launches, launch{m: m, spec: g.spec, wrap: func(ctx context.Context, corr int) context.Context {
				c := newManualCtx(ctx)
				gt.mu.Lock()
				mm.corr, mm.mctx = corr, c
				gt.members[corr] = mm
				gt.mu.Unlock()
				return c
			}})
		}
		e.ops = append(e.ops, fmt.Sprintf("round %d group: %d x %s %s%s hold=%s cancel=%s", rd, g.n, g.spec.Method, e.regs[g.reg].Host, g.spec.Path, g.holdPoint, g.mode))
	}
	// background: warm requests to hosts outside the groups
	var bg []*reqSpec
	for reg, rs := range e.regs {
		if !inGroup[reg] && rs.lastSpec != nil && rs.touched && e.valid(rs) && !rs.redirects {
			for j := rng.IntN(3); j > 0; j-- {
				bg = append(bg, rs.lastSpec)
			}
		}
	}
	e.gate = gt
	defer func() { e.gate = nil }()
	hooks0 := e.hooks.Load()
	_ = hooks0
	var wg sync.WaitGroup
	start := make(chan struct{})
	rng.Shuffle(len(launches), func(a, b int) { launches[a], launches[b] = launches[b], launches[a] })
	for _, l := range launches {
		wg.Add(1)
		go func(l launch) {
			defer wg.Done()
			<-start
			l.m.out = e.do(l.spec, l.wrap)
			close(l.m.done)
		}(l)
	}
	bgOuts := make([]outcome, len(bg))
	for k, sp := range bg {
		wg.Add(1)
		go func(k int, sp *reqSpec) {
			defer wg.Done()
			<-start
			bgOuts[k] = e.do(sp, nil)
		}(k, sp)
	}
	close(start)

	// wait until every group member is inside Cache.Set (hook) or held
	synced := false
	deadline := time.Now().Add(10 * time.Second)
	for time.Now().Before(deadline) {
		gt.mu.Lock()
		arr := gt.arrivals
		gt.mu.Unlock()
		if e.flavour == "none" {
			if arr >= total {
				synced = true
				break
			}
		} else if gt.hookHits.Load() >= int64(total) && arr >= 1 {
			synced = true
			break
		}
		time.Sleep(50 * time.Microsecond)
	}
	if synced {
		// let the last ones go from the hook into Once.Do
		time.Sleep(time.Duration(300+rng.IntN(1500)) * time.Microsecond)
		for k := 0; k < 20; k++ {
			runtime.Gosched()
		}
	} else {
		e.count("rounds_not_synchronised", 1)
	}
	gt.mu.Lock()
	heldAtOpen := len(gt.heldNow)
	gt.mu.Unlock()
	// cancel a waiter (a member that is not the one being held), wait for it to return
	for _, g := range groups {
		if g.mode != "waiter" {
			continue
		}
		var cands []*member
		gt.mu.Lock()
		for _, m := range g.members {
			if m.corr != 0 && !gt.heldNow[m.corr] {
				cands = append(cands, m)
			}
		}
		gt.mu.Unlock()
		if len(cands) == 0 || len(cands) == len(g.members) {
			if len(cands) == 0 {
				gt.mu.Lock()
				g.budget = 1 // nobody waits (no cache): cancel a held one instead
				gt.mu.Unlock()
			}
			continue
		}
		m := cands[rng.IntN(len(cands))]
		m.cancelled.Store(true)
		m.mctx.end(g.endErr)
		select {
		case <-m.done:
			e.count("waiters_cancelled", 1)
		case <-time.After(10 * time.Second):
		}
	}
	gt.isOpen.Store(true)
	close(gt.open)
	if !waitWG(&wg, 15*time.Second) {
		hang(e, "coalescing round")
		return "round-hung", false
	}
	gt.mu.Lock()
	for _, m := range all {
		if m.mctx != nil {
			m.mctx.end(context.Canceled)
		}
	}
	gt.mu.Unlock()

	// judge
	ok := false
	var shape []string
	for _, g := range groups {
		live := 0
		fetchesServed := 0
		cancelledOwners := 0
		for _, m := range g.members {
			st := e.world.State(m.corr)
			if m.cancelled.Load() {
				e.count("members_cancelled_by_harness", 1)
				if m.wasHeld.Load() {
					cancelledOwners++
				}
				_ = st
				// a cancelled request is not judged for liveness, only by the transport monitor
				e.judge(m.out, false, "cancelled member")
				continue
			}
			live++
			e.judge(m.out, true, fmt.Sprintf("round %d group on %s (hold=%s cancel=%s n=%d)", rd, e.regs[g.reg].Host, g.holdPoint, g.mode, g.n))
		}
		// how many fetches produced a token for this group's members?
		toks := map[string]bool{}
		for _, m := range g.members {
			if m.cancelled.Load() || m.out.err != nil {
				continue
			}
			st := e.world.State(m.corr)
			if len(st.Presented) > 0 {
				toks[st.Presented[len(st.Presented)-1]] = true
			}
		}
		fetchesServed = len(toks)
		rs := e.regs[g.reg]
		rs.touched = true
		rs.lastSpec = g.spec
		if synced && live >= 2 && e.validFor(rs, g.spec) {
			ok = true
			if e.flavour != "none" {
				if fetchesServed == 1 {
					e.count("coalesced_groups", 1)
					e.count("requests_served_by_a_shared_fetch", int64(live))
				} else {
					e.count("groups_with_extra_fetch", 1)
				}
				if (g.mode == "owner" || g.mode == "owner2" || g.mode == "deadline") && cancelledOwners > 0 {
					e.count("handovers_after_cancelled_owner", 1)
				}
			} else {
				e.count("nocache_groups_all_held_at_once", 1)
			}
		}
		shape = append(shape, fmt.Sprintf("%s/%s/%s/%s/n%d", e.world.Registry(rs.Host).Scheme, rs.CredKind, g.holdPoint, g.mode, g.n))
	}
	for _, o := range bgOuts {
		e.judge(o, true, "background request during a coalescing round")
	}
	e.count("coalescing_rounds", 1)
	e.res.MaxOf("max_held_at_once", int64(heldAtOpen))
	if !synced {
		gt.mu.Lock()
		arr := gt.arrivals
		gt.mu.Unlock()
		e.res.Inconc = fmt.Sprintf("coalescing round: not every member reached Cache.Set before the watchdog (phase=%s case=%d flavour=%s force=%v groups=%v hook hits=%d arrivals=%d total=%d)", e.phase, e.caseIdx, e.flavour, e.force, shape, gt.hookHits.Load(), arr, total)
	}
	return fmt.Sprintf("round[%s]bg%d", strings.Join(shape, ";"), len(bg)), ok
}
