package main

// Concurrent phase: goroutines hammer one store; the recorded history together
// with the final file must be linearizable per address (porcupine), a reader
// goroutine demands a complete file at every instant.

import (
	"crypto/sha256"
	"encoding/hex"
	"encoding/json"
	"fmt"
	"math/rand/v2"
	"os"
	"regexp"
	"runtime"
	"sort"
	"strings"
	"sync"
	"sync/atomic"
	"time"

	"github.com/anishathalye/porcupine"
	"oras.land/oras-go/v2/verifharness/worker"
)

type concIn struct {
	Kind     string // put | get | del | file | init
	Addr     string
	Val      string // put/init: "=" + credential
	Fallback string // get: what an absent entry reads as (legacy key), "" = empty credential
}

type concOp struct {
	G    int    `json:"g"`
	Kind string `json:"kind"`
	Addr string `json:"addr"`
	Val  string `json:"val,omitempty"`
	Out  string `json:"out,omitempty"`
	Call int64  `json:"call"`
	Ret  int64  `json:"ret"`
}

func encCred(c cred) string { return "=" + c.String() }

var registerModel = porcupine.Model{
	Partition: func(history []porcupine.Operation) [][]porcupine.Operation {
		by := map[string][]porcupine.Operation{}
		var order []string
		for _, op := range history {
			a := op.Input.(concIn).Addr
			if _, ok := by[a]; !ok {
				order = append(order, a)
			}
			by[a] = append(by[a], op)
		}
		var out [][]porcupine.Operation
		for _, a := range order {
			out = append(out, by[a])
		}
		return out
	},
	Init: func() interface{} { return "" },
	Step: func(state, input, output interface{}) (bool, interface{}) {
		in := input.(concIn)
		st := state.(string)
		switch in.Kind {
		case "put", "init":
			return true, in.Val
		case "del":
			return true, ""
		case "get":
			want := st
			if st == "" {
				want = in.Fallback
			}
			return output.(string) == want, st
		case "file":
			return output.(string) == st, st
		}
		return false, st
	},
	Equal: func(a, b interface{}) bool { return a.(string) == b.(string) },
	DescribeOperation: func(in, out interface{}) string {
		i := in.(concIn)
		return fmt.Sprintf("%s(%s %s) -> %v", i.Kind, i.Addr, i.Val, out)
	},
}

func runConc(phase string, i int, rng *rand.Rand) (res worker.Result) {
	// addresses: distinct hosts, one form each
	nh := 1 + rng.IntN(3)
	var pool, allForms []string
	inPool := map[string]bool{}
	for _, p := range rng.Perm(len(hostPool))[:nh] {
		h := hostPool[p]
		f := forms(h)
		a := h
		if rng.IntN(3) == 0 {
			a = f[1+rng.IntN(len(f)-1)]
		}
		pool = append(pool, a)
		inPool[a] = true
		allForms = append(allForms, f...)
	}
	d := genDoc(rng, docOpts{entryKeys: allForms, minUnknown: rng.IntN(2)})
	fallback := map[string]string{}
	if !d.Absent {
		// make pre-existing entries of pool addresses readable, and the legacy fallback unique
		a, _ := d.Doc["auths"].(map[string]any)
		if p := pool[0]; toHost(p) == p && rng.IntN(2) == 0 {
			// a bare host known only under its legacy URL key: Get takes the fallback path
			// while Put/Delete of the same and of other addresses are in flight
			if a == nil {
				a = map[string]any{}
				d.Doc["auths"] = a
			}
			c := genCred(rng)
			c.U = "legacy" + c.U
			a["https://"+p+"/v1/"] = entryFor(c)
			if rng.IntN(2) == 0 {
				delete(a, p)
			}
		}
		for _, p := range pool {
			if e, ok := a[p]; ok {
				if c, ok := credOf(e); !ok || (c == cred{}) {
					c = genCred(rng)
					c.U = "pre" + c.U // never the empty credential
					a[p] = entryFor(c)
				}
			}
			var legacy []string
			for k := range a {
				if k != p && toHost(k) == p {
					legacy = append(legacy, k)
				}
			}
			sort.Strings(legacy)
			for j, k := range legacy {
				if j > 0 {
					delete(a, k)
					continue
				}
				c, ok := credOf(a[k])
				if !ok {
					c = genCred(rng)
					a[k] = entryFor(c)
				}
				if (c != cred{}) {
					fallback[p] = encCred(c)
				}
			}
		}
		d.Entries = len(a)
		b, err := json.Marshal(d.Doc)
		if err != nil {
			res.Violate("harness:marshal", err.Error(), nil)
			return
		}
		d.Text = b
		if d.Doc, err = parseDoc(b); err != nil {
			res.Violate("harness:reparse", err.Error(), nil)
			return
		}
	}
	if !d.AbsentDir && rng.IntN(3) == 0 {
		d.setLink(linkKinds[rng.IntN(len(linkKinds))])
		res.Count("conc_cases_with_symlinked_config_path", 1)
	}
	dir, err := os.MkdirTemp("", "verif-c18-")
	if err != nil {
		res.Violate("harness:mkdtemp", err.Error(), nil)
		return
	}
	defer os.RemoveAll(dir)
	path, err := d.install(dir)
	if err != nil {
		res.Violate("harness:install", err.Error(), nil)
		return
	}
	kind := "file"
	if !d.HasHelpers && rng.IntN(4) == 0 {
		kind = "dyn"
	}
	st, err := openStore(kind, path)
	if err != nil {
		res.Violate("open-error", fmt.Sprintf("opening a %s store failed: %v", kind, err), map[string]any{"document": string(clip(d.Text, 4000))})
		return
	}

	G := 4 + rng.IntN(13)
	if len(pool) == 1 && G > 10 {
		G = 4 + rng.IntN(7) // bounds the width of the single partition's linearizability search
	}
	type plan struct {
		kind, addr string
		c          cred
		yield      int
	}
	plans := make([][]plan, G)
	var sig strings.Builder
	nput := 0
	for g := range plans {
		n := 2 + rng.IntN(5)
		for j := 0; j < n; j++ {
			p := plan{addr: pool[rng.IntN(len(pool))], yield: rng.IntN(4)}
			switch x := rng.IntN(20); {
			case x < 9:
				p.kind = "put"
				nput++
				p.c = cred{U: fmt.Sprintf("g%dn%d", g, j), P: fmt.Sprintf("p:%d:ü", rng.IntN(1e6))}
				if rng.IntN(3) == 0 {
					p.c.R = fmt.Sprintf("rt-%d-%d", g, j)
				}
				if rng.IntN(4) == 0 {
					p.c.A = fmt.Sprintf("at-%d-%d", g, j)
				}
			case x < 16:
				p.kind = "get"
				if rng.IntN(5) == 0 {
					p.addr = ghostAddr // never stored: every such Get walks the legacy keys
				}
			default:
				p.kind = "del"
			}
			plans[g] = append(plans[g], p)
			sig.WriteString(p.kind[:1])
		}
		sig.WriteString("/")
	}

	pool = append(pool, ghostAddr)
	inPool[ghostAddr] = true

	var clock atomic.Int64
	var recMu sync.Mutex // recs, errs, pending
	recs := make([][]concOp, G)
	errs := make([]string, G)
	pending := make([]*concOp, G)
	start := make(chan struct{})
	var wg sync.WaitGroup
	for g := 0; g < G; g++ {
		wg.Add(1)
		go concClient(func() {
			g := g
			defer wg.Done()
			<-start
			for _, p := range plans[g] {
				for y := 0; y < p.yield; y++ {
					runtime.Gosched()
				}
				op := concOp{G: g, Kind: p.kind, Addr: p.addr}
				var err error
				op.Call = clock.Add(1)
				recMu.Lock()
				pending[g] = &concOp{G: g, Kind: p.kind, Addr: p.addr, Call: op.Call}
				recMu.Unlock()
				switch p.kind {
				case "put":
					op.Val = encCred(p.c)
					err = st.Put(ctx, p.addr, p.c.lib())
				case "del":
					err = st.Delete(ctx, p.addr)
				case "get":
					got, e := st.Get(ctx, p.addr)
					err = e
					if c := fromLib(got); (c != cred{}) {
						op.Out = encCred(c)
					}
				}
				op.Ret = clock.Add(1)
				recMu.Lock()
				if err != nil && errs[g] == "" {
					errs[g] = fmt.Sprintf("%s(%q): %v", p.kind, p.addr, err)
				}
				recs[g] = append(recs[g], op)
				pending[g] = nil
				recMu.Unlock()
			}
		})
	}
	// the reader: the file must be a complete document whenever it is read
	var stop atomic.Bool
	var readerErr string
	var reads, versions int64
	readerDone := make(chan struct{})
	preTop, preAuths := map[string]any{}, map[string]any{}
	if !d.Absent {
		preTop, preAuths = normalise(d.Doc)
	}
	go func() {
		defer close(readerDone)
		last := ""
		for !stop.Load() {
			b, err := os.ReadFile(path)
			if err != nil {
				time.Sleep(20 * time.Microsecond) // perturbation only
				continue
			}
			reads++
			if string(b) == last {
				time.Sleep(20 * time.Microsecond)
				continue
			}
			last = string(b)
			versions++
			doc, err := parseDoc(b)
			if err != nil {
				if readerErr == "" {
					readerErr = fmt.Sprintf("a concurrent reader saw a file of %d bytes that does not parse: %v: %q", len(b), err, clip(b, 300))
				}
				continue
			}
			top, auths := normalise(doc)
			if !jsonEqual(top, preTop) && readerErr == "" {
				readerErr = "a concurrent reader saw a file whose other top-level keys differ from the original document"
			}
			for k, v := range preAuths {
				if !inPool[k] && !jsonEqual(auths[k], v) && readerErr == "" {
					readerErr = fmt.Sprintf("a concurrent reader saw a file in which the other entry %q differs from the original", k)
				}
			}
		}
	}()
	close(start)
	// deadlock monitor. Sampling uses time, the verdict does not: it is given when no call
	// started or returned between two samples AND a stop-the-world goroutine dump shows every
	// remaining client parked on the config's lock — nobody is left who could ever unlock it.
	finished := make(chan struct{})
	go func() { wg.Wait(); close(finished) }()
	deadlockDump := ""
	lastClock := int64(-1)
monitor:
	for {
		select {
		case <-finished:
			break monitor
		case <-time.After(100 * time.Millisecond):
		}
		if cur := clock.Load(); cur != lastClock {
			lastClock = cur
			continue
		}
		dump := allStacks()
		if clientsAllParkedOnConfigLock(dump) {
			deadlockDump = dump
			break monitor
		}
	}
	stop.Store(true)
	<-readerDone

	var hist []concOp
	recMu.Lock()
	for g := range recs {
		hist = append(hist, recs[g]...)
	}
	var inFlight []concOp
	for _, p := range pending {
		if p != nil {
			inFlight = append(inFlight, *p)
		}
	}
	errsCopy := append([]string{}, errs...)
	recMu.Unlock()
	errs = errsCopy
	sort.Slice(hist, func(a, b int) bool { return hist[a].Call < hist[b].Call })
	if deadlockDump != "" {
		res.Count("conc_deadlocks", 1)
		res.Violate("conc:deadlock", fmt.Sprintf("%d calls never return: every client goroutine is parked in sync.RWMutex/Mutex inside credentials/internal/config and no call started or returned between two samples — nobody can release the lock", len(inFlight)),
			map[string]any{"store": kind, "document": string(clip(d.Text, 2000)), "pool": pool, "fallback": fallback, "goroutines": G, "calls_in_flight": inFlight, "completed_history": hist, "goroutine_dump": string(clip([]byte(deadlockDump), 30000))})
		return // the parked goroutines stay behind; they own nothing but their store
	}
	wit := func() map[string]any {
		return map[string]any{"store": kind, "document": string(clip(d.Text, 4000)), "doc_state": d.Shape, "config_path_is_symlink": d.Link, "pool": pool, "fallback": fallback, "goroutines": G, "history": hist}
	}
	for _, e := range errs {
		if e != "" {
			res.Violate("conc:op-error", "an operation failed under concurrency: "+e, wit())
			return
		}
	}
	if readerErr != "" {
		k := "conc:reader-saw-damaged-file"
		if strings.Contains(readerErr, "does not parse") {
			k = "conc:reader-saw-torn-file"
		}
		res.Violate(k, readerErr, wit())
		return
	}

	// quiescent observations: Get through the store, then the file itself
	fileDoc, _, mode, present, err := readDoc(path)
	if err != nil {
		res.Violate("file:unparseable", "after the concurrent round the file does not parse: "+err.Error(), wit())
		return
	}
	if fileDoc == nil {
		fileDoc = map[string]any{}
	}
	_, fileAuths := normalise(fileDoc)
	var ops []porcupine.Operation
	for _, p := range pool {
		if e, ok := preAuths[p]; ok {
			c, _ := credOf(e)
			ops = append(ops, porcupine.Operation{ClientId: G, Input: concIn{Kind: "init", Addr: p, Val: encCred(c)}, Call: -2, Output: "", Return: -1})
		}
	}
	for _, o := range hist {
		ops = append(ops, porcupine.Operation{ClientId: o.G, Input: concIn{Kind: o.Kind, Addr: o.Addr, Val: o.Val, Fallback: fallback[o.Addr]}, Call: o.Call, Output: o.Out, Return: o.Ret})
	}
	withoutFile := len(ops)
	var finals []concOp
	for _, p := range pool {
		got, err := st.Get(ctx, p)
		if err != nil {
			res.Violate("get-error", fmt.Sprintf("final Get(%q): %v", p, err), wit())
			return
		}
		o := concOp{G: G, Kind: "get", Addr: p, Call: clock.Add(1)}
		if c := fromLib(got); (c != cred{}) {
			o.Out = encCred(c)
		}
		o.Ret = clock.Add(1)
		finals = append(finals, o)
		ops = append(ops, porcupine.Operation{ClientId: G, Input: concIn{Kind: "get", Addr: p, Fallback: fallback[p]}, Call: o.Call, Output: o.Out, Return: o.Ret})
	}
	withoutFile = len(ops)
	for _, p := range pool {
		o := concOp{G: G + 1, Kind: "file", Addr: p, Call: clock.Add(1)}
		if e, ok := fileAuths[p]; ok {
			c, ok := credOf(e)
			if !ok {
				res.Violate("file:own-entry-changed", fmt.Sprintf("the file's entry for %q is unreadable: %s", p, short(e)), wit())
				return
			}
			if !jsonEqual(e, entryFor(c)) && !jsonEqual(e, preAuths[p]) {
				res.Violate("file:own-entry-changed", fmt.Sprintf("the file's entry for %q is neither a written nor the original entry: %s", p, short(e)), wit())
				return
			}
			o.Out = encCred(c)
		}
		o.Ret = clock.Add(1)
		finals = append(finals, o)
		ops = append(ops, porcupine.Operation{ClientId: G + 1, Input: concIn{Kind: "file", Addr: p}, Call: o.Call, Output: o.Out, Return: o.Ret})
	}
	wfin := func() map[string]any {
		w := wit()
		w["final_observations"] = finals
		return w
	}
	switch porcupine.CheckOperationsTimeout(registerModel, ops, time.Minute) {
	case porcupine.Unknown:
		res.Inconc = fmt.Sprintf("conc case %d: linearizability search did not finish", i)
	case porcupine.Illegal:
		if porcupine.CheckOperationsTimeout(registerModel, ops[:withoutFile], 2*time.Minute) == porcupine.Ok {
			res.Violate("conc:final-file-not-a-sequential-outcome", "the history of calls is linearizable, but no linearization ends in the state found in the file", wfin())
		} else {
			res.Violate("conc:history-not-linearizable", "the recorded Put/Get/Delete history has no sequential explanation", wfin())
		}
		return
	}
	res.Count("conc_partitions_checked", int64(len(pool)))
	res.Count("conc_operations", int64(len(hist)))

	// everything else in the file is as it was
	strip := func(top, auths map[string]any) map[string]any {
		out := map[string]any{}
		for k, v := range top {
			out[k] = v
		}
		a := map[string]any{}
		for k, v := range auths {
			if !inPool[k] {
				a[k] = v
			}
		}
		out["auths"] = a
		return out
	}
	ft, fa := normalise(fileDoc)
	if k, what := diffDocs(strip(preTop, preAuths), strip(ft, fa), ""); k != "" {
		res.Violate(k, "after the concurrent round: "+what, wfin())
		return
	}
	if present && nput > 0 && mode.Perm() != 0o600 {
		res.Violate("file:mode", fmt.Sprintf("after concurrent Puts the file mode is %o", mode.Perm()), wfin())
		return
	}

	// evidence: observed interleaving, overlap
	type ev struct {
		t  int64
		id string
	}
	var evs []ev
	for _, o := range hist {
		id := fmt.Sprintf("%d%s%s", o.G, o.Kind[:1], o.Addr)
		evs = append(evs, ev{o.Call, "c" + id}, ev{o.Ret, "r" + id})
	}
	sort.Slice(evs, func(a, b int) bool { return evs[a].t < evs[b].t })
	h := sha256.New()
	for _, e := range evs {
		h.Write([]byte(e.id + ";"))
	}
	inter := hex.EncodeToString(h.Sum(nil)[:8])
	overlap := 0
	for a := range hist {
		for b := a + 1; b < len(hist); b++ {
			x, y := hist[a], hist[b]
			if x.Addr == y.Addr && x.G != y.G && x.Call < y.Ret && y.Call < x.Ret && (x.Kind != "get" || y.Kind != "get") {
				overlap++
			}
		}
	}
	res.Count("conc_overlapping_conflicting_pairs", int64(overlap))
	res.Count("conc_reader_reads", reads)
	res.Count("conc_reader_versions_seen", versions)
	res.Observe("interleavings_"+phase, inter)
	res.Key = fmt.Sprintf("%s|%s|%d|%s|%s", kind, d.Shape, len(pool), sig.String(), inter)
	res.NT = overlap >= 1
	if i == 0 {
		w := wfin()
		if len(hist) > 24 {
			w["history"] = hist[:24]
			w["history_truncated_from"] = len(hist)
		}
		w["phase"] = phase
		res.Sample = shorten(w)
	}
	return
}

// ghostAddr is never stored; Gets of it always take the legacy-key path.
const ghostAddr = "ghost.example:5000"

// concClient is the frame by which the workload's goroutines are recognised in a dump.
//
//go:noinline
func concClient(body func()) { body() }

func allStacks() string {
	buf := make([]byte, 1<<20)
	for {
		n := runtime.Stack(buf, true)
		if n < len(buf) {
			return string(buf[:n])
		}
		buf = make([]byte, 2*len(buf))
	}
}

var parkedOnLock = regexp.MustCompile(`^goroutine \d+ \[(sync\.RWMutex\.RLock|sync\.RWMutex\.Lock|sync\.Mutex\.Lock|semacquire)(, \d+ minutes)?(, locked to thread)?\]:`)

// clientsAllParkedOnConfigLock reads a goroutine dump taken with the world stopped:
// true when there is at least one client goroutine and every one of them waits for
// the config's RWMutex (reader, writer, or the writers' inner mutex).
func clientsAllParkedOnConfigLock(dump string) bool {
	clients, parked := 0, 0
	for _, blk := range strings.Split(dump, "\n\n") {
		if !strings.Contains(blk, "main.concClient(") {
			continue
		}
		clients++
		if parkedOnLock.MatchString(blk) && strings.Contains(blk, "credentials/internal/config.(*Config).") && strings.Contains(blk, "sync.(*RWMutex).") {
			parked++
		}
	}
	return clients > 0 && parked == clients
}
